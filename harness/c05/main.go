// Harness for C05: every pisces KV backend implements the same abstract map.
//
// Three-way differential.  Random histories over the 18 operations of
// pisces.KV run on the memory backend and on a SQLite file store (ordered and
// unordered), on a reference Go map kept here, and - as the same op lines - on
// the compiled Lean driver, which answers with the results of its Spec, Mem
// and Sql models.  After every op the result class and a digest of the full
// contents (memory table through the verif shim, SQLite table through a direct
// select) are compared.  Direct oracle: memory, SQLite and the reference map
// agree.  Failing histories are shrunk by delta debugging on the op list.
package main

import (
	"crypto/sha256"
	"encoding/hex"
	"encoding/json"
	"errors"
	"fmt"
	"io"
	"log"
	"os"
	"path/filepath"
	"sort"
	"strconv"
	"strings"
	"time"

	"modernc.org/sqlite"
	"shanhu.io/g/errcode"
	"shanhu.io/g/pisces"
	"shanhu.io/g/sqlx"
	"verif/harness/hx"
)

const maxKeyLen = 255 // what the property promises for ordered stores (pisces.MaxKeyLen at the pinned commit)

var errCustom = errors.New("harness callback error")

// ---------------------------------------------------------------- op lines

type op struct {
	store string // ord | uno
	name  string
	k     string
	hasK  bool
	c     string
	v     []byte
	vNil  bool
	mode  string
	off   uint64
	n     uint64
	desc  bool
	stop  int // -1: never
	how   string
}

func kvGet(ws []string, k string) (string, bool) {
	for _, w := range ws {
		if strings.HasPrefix(w, k+"=") {
			return w[len(k)+1:], true
		}
	}
	return "", false
}

func unhex(s string) ([]byte, bool) {
	if s == "-" {
		return []byte{}, true
	}
	b, err := hex.DecodeString(s)
	return b, err == nil
}

func mapped(ordered bool, k string) string {
	if ordered {
		return k
	}
	h := sha256.Sum256([]byte(k))
	return hex.EncodeToString(h[:])
}

// canonicalJSON says whether json.Marshal hands the backend exactly these bytes.
func canonicalJSON(v []byte) bool {
	out, err := json.Marshal(json.RawMessage(v))
	return err == nil && string(out) == string(v)
}

var needs = map[string]string{
	"add": "kv", "addClass": "kcv", "setClass": "kc", "remove": "k", "get": "k", "has": "k", "emplace": "kv",
	"replace": "kv", "appendBytes": "kV", "setBytes": "kV", "set": "kv", "mutate": "km", "count": "", "clear": "",
	"walk": "s", "walkClass": "cs", "walkPartial": "ps", "walkPartialClass": "cps", "dump": "",
}

// parseOp reads one op line; ok=false for lines this harness would not produce.
func parseOp(line string) (*op, bool) {
	ws := strings.Fields(line)
	if len(ws) < 2 || (ws[0] != "ord" && ws[0] != "uno") {
		return nil, false
	}
	o := &op{store: ws[0], name: ws[1], stop: -1}
	need, known := needs[o.name]
	if !known {
		return nil, false
	}
	rest := ws[2:]
	for _, f := range need {
		switch f {
		case 'k':
			s, ok := kvGet(rest, "k")
			if !ok {
				return nil, false
			}
			b, ok := unhex(s)
			if !ok {
				return nil, false
			}
			o.k, o.hasK = string(b), true
		case 'c':
			s, ok := kvGet(rest, "c")
			if !ok {
				return nil, false
			}
			b, ok := unhex(s)
			if !ok {
				return nil, false
			}
			o.c = string(b)
		case 'v', 'V':
			s, ok := kvGet(rest, "v")
			if !ok {
				return nil, false
			}
			if s == "nil" {
				if f == 'v' {
					return nil, false
				}
				o.vNil = true
			} else {
				b, ok := unhex(s)
				if !ok {
					return nil, false
				}
				o.v = b
				if f == 'v' && !canonicalJSON(b) {
					return nil, false // the JSON encoder would rewrite it
				}
			}
		case 'm':
			o.mode, _ = kvGet(rest, "mode")
			switch o.mode {
			case "put":
				s, ok := kvGet(rest, "v")
				if !ok {
					return nil, false
				}
				b, ok := unhex(s)
				if !ok || !canonicalJSON(b) {
					return nil, false
				}
				o.v = b
			case "cancel", "fail":
			default:
				return nil, false
			}
		case 'p':
			a, ok1 := kvGet(rest, "off")
			b, ok2 := kvGet(rest, "n")
			d, ok3 := kvGet(rest, "desc")
			if !ok1 || !ok2 || !ok3 {
				return nil, false
			}
			var e1, e2 error
			o.off, e1 = strconv.ParseUint(a, 10, 64)
			o.n, e2 = strconv.ParseUint(b, 10, 64)
			if e1 != nil || e2 != nil || o.off >= 1<<63 || o.n >= 1<<63 {
				return nil, false // outside the quantifier
			}
			o.desc = d == "1"
		case 's':
			s, ok := kvGet(rest, "stop")
			if !ok {
				return nil, false
			}
			if s != "-" {
				p := strings.Split(s, ":")
				if len(p) != 2 || (p[1] != "cancel" && p[1] != "fail") {
					return nil, false
				}
				j, err := strconv.Atoi(p[0])
				if err != nil || j < 0 {
					return nil, false
				}
				o.stop, o.how = j, p[1]
			}
		}
	}
	if o.hasK && o.store == "uno" {
		// the driver takes the hash as a parameter; it must be the one the code computes
		s, ok := kvGet(rest, "hk")
		if !ok || s != hx.Hex([]byte(mapped(false, o.k))) {
			return nil, false
		}
	}
	return o, true
}

// ---------------------------------------------------------------- canonical outputs

func fnv1a(s string) string {
	h := uint64(0xcbf29ce484222325)
	for i := 0; i < len(s); i++ {
		h ^= uint64(s[i])
		h *= 0x100000001b3
	}
	return fmt.Sprintf("%016x", h)
}

type ent struct {
	k, c string
	v    []byte
}

func dumpStr(es []ent) string {
	sort.Slice(es, func(i, j int) bool { return es[i].k < es[j].k })
	xs := make([]string, len(es))
	for i, e := range es {
		xs[i] = hx.Hex([]byte(e.k)) + ":" + hx.Hex([]byte(e.c)) + ":" + hx.Hex(e.v)
	}
	return strings.Join(xs, ";")
}

func classify(opName string, err error) string {
	switch {
	case err == nil:
		return "ok"
	case errors.Is(err, errCustom):
		return "failed"
	case errors.Is(err, pisces.ErrUnordered):
		return "unordered"
	case errcode.IsNotFound(err):
		return "notFound"
	case errcode.IsInvalidArg(err):
		if opName == "add" || opName == "addClass" {
			return "exists"
		}
		return "err:invalidArg"
	}
	var se *json.SyntaxError
	if errors.As(err, &se) {
		return "badJson"
	}
	if cause := sqlx.VerifCause(err); cause != nil {
		var qe *sqlite.Error
		if errors.As(cause, &qe) {
			switch code := qe.Code(); {
			case code == 2067 || code == 1555:
				if opName == "add" || opName == "addClass" {
					return "exists"
				}
				return "err:unique"
			case code == 1299:
				return "sqlNull"
			case code&0xff == 5 || code&0xff == 6:
				return "busy"
			default:
				return "err:sqlite" + strconv.Itoa(code)
			}
		}
		return "err:sql"
	}
	if errcode.IsInternal(err) {
		return "err:internal"
	}
	if errcode.Of(err) == "" && strings.HasSuffix(err.Error(), "too long") {
		return "keyTooLong"
	}
	return "err:other"
}

func walkedStr(res string, vs [][2]string) string {
	xs := make([]string, len(vs))
	for i, p := range vs {
		xs[i] = hx.Hex([]byte(p[0])) + "=" + hx.Hex([]byte(p[1]))
	}
	return res + ":[" + strings.Join(xs, ",") + "]"
}

// ---------------------------------------------------------------- the real backends

type backend struct {
	kv   *pisces.KV
	dump func() []ent
	// value isolation: every []byte handed to the store and every []byte it handed
	// back, kept so that the harness can write over them (over their whole capacity)
	// after each call; the stored contents must not move
	held    [][]byte
	aliased bool
	// argument structs are the caller's: the same *KVPartial serves every walk of a history that
	// asks for the same window, and must come back from each call as it went in
	partials   map[[3]uint64]*pisces.KVPartial
	argMutated string
	staleWalk  string // a typed walk handed Do a value that is not the entry's own
}

// in makes the caller's slice for a call: the bytes of v with spare capacity behind them.
func (b *backend) in(v []byte) []byte {
	buf := make([]byte, len(v), len(v)+24)
	copy(buf, v)
	b.held = append(b.held, buf)
	return buf
}

// out registers a slice the store returned.
func (b *backend) out(bs []byte) {
	if cap(bs) > 0 {
		b.held = append(b.held, bs)
	}
}

// scribble plays the caller who reuses its buffers: every held slice is overwritten
// over its full capacity (which is also what an append to the caller's copy does).
func (b *backend) scribble() {
	for _, h := range b.held {
		h = h[:cap(h)]
		for i := range h {
			h[i] = 0xEE
		}
	}
}

func (b *backend) exec(o *op) string {
	kv := b.kv
	switch o.name {
	case "add":
		return classify(o.name, kv.Add(o.k, json.RawMessage(b.in(o.v))))
	case "addClass":
		return classify(o.name, kv.AddClass(o.k, o.c, json.RawMessage(b.in(o.v))))
	case "setClass":
		return classify(o.name, kv.SetClass(o.k, o.c))
	case "remove":
		return classify(o.name, kv.Remove(o.k))
	case "get":
		bs, err := kv.GetBytes(o.k)
		if err != nil {
			return classify(o.name, err)
		}
		var raw json.RawMessage
		j := 0
		if kv.Get(o.k, &raw) == nil {
			j = 1
		}
		b.out(bs)
		b.out(raw)
		return "ok:" + hx.Hex(bs) + ":j=" + strconv.Itoa(j)
	case "has":
		h, err := kv.Has(o.k)
		if err != nil {
			return classify(o.name, err)
		}
		return "ok:" + strconv.FormatBool(h)
	case "emplace":
		return classify(o.name, kv.Emplace(o.k, json.RawMessage(b.in(o.v))))
	case "replace":
		return classify(o.name, kv.Replace(o.k, json.RawMessage(b.in(o.v))))
	case "appendBytes":
		if o.vNil {
			return classify(o.name, kv.AppendBytes(o.k, nil))
		}
		return classify(o.name, kv.AppendBytes(o.k, b.in(o.v)))
	case "setBytes":
		if o.vNil {
			return classify(o.name, kv.SetBytes(o.k, nil))
		}
		return classify(o.name, kv.SetBytes(o.k, b.in(o.v)))
	case "set":
		return classify(o.name, kv.Set(o.k, json.RawMessage(b.in(o.v))))
	case "mutate":
		saw := "none"
		raw := new(json.RawMessage)
		err := kv.Mutate(o.k, raw, func(v interface{}) error {
			p := v.(*json.RawMessage)
			saw = hx.Hex([]byte(*p))
			b.out(*p)
			switch o.mode {
			case "put":
				*p = b.in(o.v)
				return nil
			case "cancel":
				*p = json.RawMessage("0")
				return pisces.ErrCancel
			}
			*p = json.RawMessage("0")
			return errCustom
		})
		r := classify(o.name, err)
		if r == "notFound" || r == "keyTooLong" {
			return r
		}
		return r + ":saw=" + saw
	case "count":
		n, err := kv.Count()
		if err != nil {
			return classify(o.name, err)
		}
		return "ok:" + strconv.FormatInt(n, 10)
	case "clear":
		return classify(o.name, kv.Clear())
	case "walk", "walkClass", "walkPartial", "walkPartialClass":
		var vs [][2]string
		i := 0
		it := &pisces.Iter{
			Make: func() interface{} { return new(json.RawMessage) },
			Do: func(cls string, v interface{}) error {
				vs = append(vs, [2]string{cls, string(*v.(*json.RawMessage))})
				b.out(*v.(*json.RawMessage))
				i++
				if i-1 == o.stop {
					if o.how == "cancel" {
						return pisces.ErrCancel
					}
					return errCustom
				}
				return nil
			},
		}
		var err error
		pk := [3]uint64{o.off, o.n, 0}
		if o.desc {
			pk[2] = 1
		}
		if b.partials == nil {
			b.partials = map[[3]uint64]*pisces.KVPartial{}
		}
		p := b.partials[pk]
		if p == nil {
			p = &pisces.KVPartial{Offset: o.off, N: o.n, Desc: o.desc}
			b.partials[pk] = p // reused, as it is, by the next walk with this window
		}
		before := *p
		defer func() {
			if *p != before && b.argMutated == "" {
				b.argMutated = fmt.Sprintf("KVPartial%+v came back as %+v", before, *p)
			}
		}()
		switch o.name {
		case "walk":
			err = kv.Walk(it)
		case "walkClass":
			err = kv.WalkClass(o.c, it)
		case "walkPartial":
			err = kv.WalkPartial(p, it)
		default:
			err = kv.WalkPartialClass(o.c, p, it)
		}
		r := classify(o.name, err)
		if r == "unordered" {
			return r
		}
		// the same walk through a typed decoding target: every value handed to Do must be the
		// entry's own value, decoded afresh - nothing left over from the entries visited before
		var typed []string
		tit := &pisces.Iter{
			Make: func() interface{} { return new(map[string]json.RawMessage) },
			Do: func(cls string, v interface{}) error {
				bs, _ := json.Marshal(*v.(*map[string]json.RawMessage))
				typed = append(typed, string(bs))
				return nil
			},
		}
		switch o.name {
		case "walk":
			kv.Walk(tit)
		case "walkClass":
			kv.WalkClass(o.c, tit)
		case "walkPartial":
			kv.WalkPartial(p, tit)
		default:
			kv.WalkPartialClass(o.c, p, tit)
		}
		for i, raw := range vs {
			fresh := map[string]json.RawMessage{}
			if json.Unmarshal([]byte(raw[1]), &fresh) != nil || fresh == nil {
				break // not an object: the typed walk stops here with a decoding error
			}
			want, _ := json.Marshal(fresh)
			if i >= len(typed) || typed[i] != string(want) {
				got := "(nothing)"
				if i < len(typed) {
					got = typed[i]
				}
				if b.staleWalk == "" {
					b.staleWalk = fmt.Sprintf("entry %d of the walk holds %s; decoded into the iterator's map target, Do was handed %s", i, raw[1], got)
				}
				break
			}
		}
		return walkedStr(r, vs)
	}
	return "bad-op"
}

// execSafe turns a panic of the code under test into an outcome.
func (b *backend) execSafe(o *op) (out string) {
	defer func() {
		if r := recover(); r != nil {
			out = "panic"
		}
	}()
	return b.exec(o)
}

// ---------------------------------------------------------------- the reference map

type refEntry struct {
	cls string
	val []byte
}

type refKV struct {
	ordered bool
	m       map[string]*refEntry
}

func (r *refKV) dump() []ent {
	var es []ent
	for k, e := range r.m {
		es = append(es, ent{mapped(r.ordered, k), e.cls, e.val})
	}
	return es
}

func (r *refKV) exec(o *op) string {
	if o.hasK && r.ordered && len(o.k) > maxKeyLen {
		return "keyTooLong"
	}
	e := r.m[o.k]
	val := o.v
	switch o.name {
	case "add", "addClass":
		if e != nil {
			return "exists"
		}
		r.m[o.k] = &refEntry{o.c, append([]byte{}, val...)}
		return "ok"
	case "setClass":
		if e == nil {
			return "notFound"
		}
		e.cls = o.c
		return "ok"
	case "remove":
		if e == nil {
			return "notFound"
		}
		delete(r.m, o.k)
		return "ok"
	case "get":
		if e == nil {
			return "notFound"
		}
		j := 0
		if json.Valid(e.val) {
			j = 1
		}
		return "ok:" + hx.Hex(e.val) + ":j=" + strconv.Itoa(j)
	case "has":
		return "ok:" + strconv.FormatBool(e != nil)
	case "emplace":
		if e == nil {
			r.m[o.k] = &refEntry{"", append([]byte{}, val...)}
		}
		return "ok"
	case "replace":
		if e == nil {
			r.m[o.k] = &refEntry{"", append([]byte{}, val...)}
		} else {
			e.val = append([]byte{}, val...)
		}
		return "ok"
	case "appendBytes":
		if e == nil {
			r.m[o.k] = &refEntry{"", append([]byte{}, val...)}
		} else {
			e.val = append(e.val, val...)
		}
		return "ok"
	case "setBytes", "set":
		if e == nil {
			return "notFound"
		}
		e.val = append([]byte{}, val...)
		return "ok"
	case "mutate":
		if e == nil {
			return "notFound"
		}
		if !json.Valid(e.val) {
			return "badJson:saw=none"
		}
		saw := hx.Hex(e.val)
		switch o.mode {
		case "put":
			e.val = append([]byte{}, val...)
			return "ok:saw=" + saw
		case "cancel":
			return "ok:saw=" + saw
		}
		return "failed:saw=" + saw
	case "count":
		return "ok:" + strconv.Itoa(len(r.m))
	case "clear":
		r.m = map[string]*refEntry{}
		return "ok"
	case "walk", "walkClass", "walkPartial", "walkPartialClass":
		partial := strings.HasPrefix(o.name, "walkPartial")
		byClass := strings.HasSuffix(o.name, "Class")
		if partial && !r.ordered {
			return "unordered"
		}
		var es []ent
		for k, e := range r.m {
			if !byClass || e.cls == o.c {
				es = append(es, ent{mapped(r.ordered, k), e.cls, e.val})
			}
		}
		sort.Slice(es, func(i, j int) bool {
			if partial && o.desc {
				return es[i].k > es[j].k
			}
			return es[i].k < es[j].k
		})
		if partial {
			n := uint64(len(es))
			lo, hi := o.off, o.off+o.n // both < 2^63: no wrap
			if lo > n {
				lo = n
			}
			if hi > n {
				hi = n
			}
			es = es[lo:hi]
		}
		var vs [][2]string
		for i, e := range es {
			if !json.Valid(e.v) {
				return walkedStr("badJson", vs)
			}
			vs = append(vs, [2]string{e.c, string(e.v)})
			if i == o.stop {
				if o.how == "cancel" {
					return walkedStr("ok", vs)
				}
				return walkedStr("failed", vs)
			}
		}
		return walkedStr("ok", vs)
	}
	return "bad-op"
}

// ---------------------------------------------------------------- a world: both stores on both backends

type world struct {
	db       *sqlx.DB
	mem      map[string]*backend
	sql      map[string]*backend
	ref      map[string]*refKV
	dir      string
	n        int
	flavour  string        // file (default) | memory | shared: see openDB
	dirty    bool          // a call on the SQLite store did not return, or the file stayed locked: start over on a fresh file
	watchdog time.Duration // per implementation call
	j        *hx.Journal
}

var tables = map[string]string{"ord": "kv_ord", "uno": "kv_uno"}

func openWorld(dir string, j *hx.Journal) (*world, error) {
	w := &world{dir: dir, watchdog: 20 * time.Second, j: j}
	if err := w.openDB(); err != nil {
		return nil, err
	}
	w.reset()
	return w, nil
}

// openDB creates a fresh database file with the two tables.  No cap on the
// connection pool: a connection the code under test fails to give back must
// show as wrong results, not as a harness that waits for the pool.
func (w *world) openDB() error {
	if w.db != nil {
		old := w.db
		go old.DB.Close() // may wait for a leaked connection; never block on it
	}
	w.n++
	// the flavours of SQLite database a pisces store can sit on
	var dsn string
	switch w.flavour {
	case "memory":
		dsn = ":memory:" // private to the connection that created the tables; a sequential history stays on it
	case "shared":
		dsn = fmt.Sprintf("file:c05shared%d?mode=memory&cache=shared", w.n)
	default:
		dsn = filepath.Join(w.dir, fmt.Sprintf("c05-%d.db", w.n)) + "?_pragma=synchronous(off)"
	}
	db, err := sqlx.OpenSqlite3(dsn)
	if err != nil {
		return err
	}
	for _, t := range tables {
		if err := pisces.Sqlite3CreateKV(db, t); err != nil {
			return err
		}
	}
	w.db = db
	w.dirty = false
	return nil
}

func (w *world) sqlDump(table string) []ent {
	rows, err := w.db.DB.Query("select k, c, v from " + table)
	if err != nil {
		return []ent{{k: "dump-error:" + err.Error()}}
	}
	defer rows.Close()
	var es []ent
	for rows.Next() {
		var k, c string
		var v []byte
		if err := rows.Scan(&k, &c, &v); err != nil {
			return []ent{{k: "dump-error:" + err.Error()}}
		}
		es = append(es, ent{k, c, v})
	}
	return es
}

func (w *world) reset() {
	w.mem = map[string]*backend{}
	w.sql = map[string]*backend{}
	w.ref = map[string]*refKV{}
	if !w.dirty {
		// emptying the tables must work on a store nobody is using
		ok := hx.WithTimeout(w.watchdog, func() {
			for _, t := range tables {
				if _, err := w.db.DB.Exec("delete from " + t); err != nil {
					w.dirty = true
				}
			}
		})
		if !ok {
			w.dirty = true
		}
	}
	if w.dirty {
		if err := w.openDB(); err != nil {
			fmt.Println("cannot reopen the SQLite store:", err)
			os.Exit(3)
		}
	}
	for name, t := range tables {
		ordered := name == "ord"
		kv, dump := pisces.VerifNewMemKV(ordered)
		w.mem[name] = &backend{kv: kv, dump: func() []ent {
			var es []ent
			for _, e := range dump() {
				es = append(es, ent{e.Key, e.Class, e.Value})
			}
			return es
		}}
		var skv *pisces.KV
		if ordered {
			skv = pisces.NewOrderedSqlite3KV(w.db, t)
		} else {
			skv = pisces.NewSqlite3KV(w.db, t)
		}
		table := t
		w.sql[name] = &backend{kv: skv, dump: func() []ent { return w.sqlDump(table) }}
		w.ref[name] = &refKV{ordered: ordered, m: map[string]*refEntry{}}
	}
}

const neverReturns = "never-returns"

// guarded runs one implementation call (and the dump after it) under the watchdog.
func (w *world) guarded(b *backend, o *op) string {
	out := neverReturns
	if hx.WithTimeout(w.watchdog, func() {
		r := b.execSafe(o)
		d := fnv1a(dumpStr(b.dump()))
		if len(b.held) > 0 {
			b.scribble()
			if d2 := fnv1a(dumpStr(b.dump())); d2 != d {
				b.aliased = true // the caller wrote to its own buffers and the store's contents moved
				d = d2
			}
		}
		out = r + "#" + d
	}) {
		return out
	}
	return neverReturns
}

// outs of one op: result#digest per party
type outs struct{ mem, sql, ref string }

func (w *world) exec(line string) (outs, bool) {
	if line == "reset" {
		w.reset()
		return outs{"reset", "reset", "reset"}, true
	}
	o, ok := parseOp(line)
	if !ok {
		return outs{}, false
	}
	m, s, r := w.mem[o.store], w.sql[o.store], w.ref[o.store]
	if o.name == "dump" {
		return outs{dumpStr(m.dump()), dumpStr(s.dump()), dumpStr(r.dump())}, true
	}
	var x outs
	x.mem = w.guarded(m, o)
	w.j.Risky(line) // a death of the process inside the SQLite call is attributed to this op
	x.sql = w.guarded(s, o)
	if x.sql == neverReturns {
		w.dirty = true
	}
	x.ref = r.exec(o) + "#" + fnv1a(dumpStr(r.dump()))
	return x, true
}

// ---------------------------------------------------------------- oracle

type failure struct {
	key, desc string
	at        int
	hang      bool
}

func opName(line string) string {
	ws := strings.Fields(line)
	if len(ws) >= 2 {
		return ws[1]
	}
	return line
}

func split(out string) (string, string) {
	i := strings.LastIndex(out, "#")
	if i < 0 {
		return out, ""
	}
	return out[:i], out[i+1:]
}

// judge compares the parties of one op; the key names who deviates from the
// reference map, on which operation, and whether in the result or the contents.
func judge(line string, x outs) *failure {
	rr, rd := split(x.ref)
	for _, p := range []struct{ who, out string }{{"mem", x.mem}, {"sql", x.sql}} {
		r, d := split(p.out)
		if p.out == neverReturns {
			return &failure{
				key:  fmt.Sprintf("%s-op-never-returns:%s", p.who, opName(line)),
				desc: fmt.Sprintf("%s backend: the call %q did not return within the watchdog", p.who, line),
				hang: true,
			}
		}
		if r == "busy" {
			return &failure{
				key: fmt.Sprintf("%s-busy-without-contention:%s", p.who, opName(line)),
				desc: fmt.Sprintf("%s backend answers busy to %q in a sequential history (nobody else uses the store): an earlier call "+
					"left a transaction or a lock behind; the map gives %s", p.who, line, short(x.ref)),
			}
		}
		what := ""
		if r != rr {
			what = "result"
		} else if d != rd {
			what = "contents"
		}
		if what != "" {
			return &failure{
				key: fmt.Sprintf("%s-vs-map:%s:%s", p.who, opName(line), what),
				desc: fmt.Sprintf("%s backend deviates from the reference map in the %s of %q: %s gives %s, map gives %s (memory %s, sqlite %s)",
					p.who, what, line, p.who, short(p.out), short(x.ref), short(x.mem), short(x.sql)),
			}
		}
	}
	return nil
}

func short(s string) string {
	if len(s) > 160 {
		return s[:160] + "..."
	}
	return s
}

// runHistory executes a history from an empty world and returns the outputs
// and the first oracle failure.
// setFlavour makes the next reset open the kind of database asked for.
func (w *world) setFlavour(f string) {
	if f != "memory" && f != "shared" {
		f = "file"
	}
	cur := w.flavour
	if cur == "" {
		cur = "file"
	}
	if f != cur {
		w.flavour = f
		w.dirty = true
	}
}

func (w *world) runHistory(ops []string) ([]outs, *failure) {
	want := "file"
	if len(ops) > 0 && strings.HasPrefix(ops[0], "flavour ") {
		want = strings.TrimSpace(strings.TrimPrefix(ops[0], "flavour "))
	}
	w.setFlavour(want)
	w.reset()
	res := make([]outs, len(ops))
	var first *failure
	for i, l := range ops {
		x, ok := w.exec(l)
		if !ok {
			res[i] = outs{"bad-op", "bad-op", "bad-op"}
			continue
		}
		res[i] = x
		if l == "reset" || opName(l) == "dump" {
			continue
		}
		f := judge(l, x)
		if o, ok := parseOp(l); ok && first == nil {
			for _, p := range []struct {
				who string
				b   *backend
			}{{"mem", w.mem[o.store]}, {"sql", w.sql[o.store]}} {
				if p.b != nil && p.b.staleWalk != "" {
					f = &failure{
						key: fmt.Sprintf("%s-walk-value-not-fresh:%s", p.who, opName(l)),
						desc: fmt.Sprintf("%s backend: %q through an Iter whose Make returns a *map: %s - the visited value differs from what Get "+
							"returns for the entry (members of earlier entries left over)", p.who, l, p.b.staleWalk),
					}
					break
				}
				if p.b != nil && p.b.argMutated != "" {
					f = &failure{
						key: fmt.Sprintf("%s-argument-struct-mutated:%s", p.who, opName(l)),
						desc: fmt.Sprintf("%s backend: %q wrote to the caller's argument struct (%s); a caller that reuses it gets a different window",
							p.who, l, p.b.argMutated),
					}
					break
				}
				if p.b != nil && p.b.aliased {
					f = &failure{
						key: fmt.Sprintf("%s-caller-slice-aliased:%s", p.who, opName(l)),
						desc: fmt.Sprintf("%s backend: after %q the caller overwrote the byte slices it had passed to / received from the store "+
							"(over their full capacity) and the stored contents changed: the store keeps or hands out a slice it shares "+
							"with the caller (value isolation); map gives %s", p.who, l, short(x.ref)),
					}
					break
				}
			}
		}
		if f != nil && first == nil {
			f.at = i
			first = f
			if f.hang {
				// the goroutine of that call is still inside the store: nothing after it means anything
				for k := i + 1; k < len(ops); k++ {
					res[k] = outs{"bad-op", "bad-op", "bad-op"}
				}
				break
			}
		}
	}
	w.j.Clear()
	return res, first
}

// ddmin shrinks ops while test(ops) stays true.
func ddmin(ops []string, test func([]string) bool) []string {
	n := 2
	for len(ops) >= 2 {
		chunk := (len(ops) + n - 1) / n
		reduced := false
		for i := 0; i < len(ops); i += chunk {
			end := i + chunk
			if end > len(ops) {
				end = len(ops)
			}
			cand := append(append([]string{}, ops[:i]...), ops[end:]...)
			if len(cand) > 0 && test(cand) {
				ops = cand
				if n > 2 {
					n--
				}
				reduced = true
				break
			}
		}
		if !reduced {
			if n >= len(ops) {
				break
			}
			n *= 2
			if n > len(ops) {
				n = len(ops)
			}
		}
	}
	return ops
}

// ---------------------------------------------------------------- generator

type gen struct {
	r   *hx.Rand
	rep *hx.Report
	big bool
}

func rep(s string, n int) string { return strings.Repeat(s, n)[:n] }

// mb is a key of exactly n bytes made of repetitions of a multi-byte unit, padded with ASCII.
func mb(unit string, n int) string {
	k := strings.Repeat(unit, n/len(unit))
	return k + strings.Repeat("a", n-len(k))
}

func (g *gen) keyPool() []string {
	base := []string{"", "k", "k1", "k2", "k10", "a", "ab", "a\x01", "A", "z", "\x7f", "é", "ée", "日本", "ÿ", "\U0001F600",
		"k\tq", "k q", "k'", "k\"", "k%", "key/with/slash", "-", "0"}
	long := []string{rep("x", 254), rep("x", 255), rep("x", 256), rep("y", 255), rep("y", 257), rep("z", 300)}
	// keys of 2-, 3- and 4-byte sequences: exact byte lengths around the limit, rune counts far below it
	for _, unit := range []string{"é", "日", "\U0001F600"} {
		for _, n := range []int{254, 255, 256, 257, 280, 300} {
			long = append(long, mb(unit, n))
		}
	}
	long = append(long, mb("é", 255)+"é", "a"+mb("日", 255))
	n := 3 + g.r.Intn(5)
	var pool []string
	for len(pool) < n {
		var k string
		switch g.r.Intn(10) {
		case 0, 1:
			k = hx.Pick(g.r, long)
		case 2:
			// random valid UTF-8 without NUL
			l := g.r.Intn(12)
			var sb strings.Builder
			for i := 0; i < l; i++ {
				sb.WriteRune(hx.Pick(g.r, []rune{'a', 'b', 'k', '0', '1', 0x7f, 0x80, 0xff, 0x100, 0x7ff, 0x800, 0xffff, 0x10000, 1}))
			}
			k = sb.String()
		default:
			k = hx.Pick(g.r, base)
		}
		dup := false
		for _, p := range pool {
			dup = dup || p == k
		}
		if !dup {
			pool = append(pool, k)
		}
	}
	return pool
}

var classPool = []string{"", "", "c1", "c2", "odd", "é", "c 1", rep("C", 255), rep("C", 256)}

var jsonPool = []string{`{"a":1}`, `{"b":2}`, `{"a":1,"b":2}`, `{"Value":"v2","X":1}`, `1`, `0`, `-1.5e+3`, `"v"`, `"v1"`, `""`, `{}`, `[]`, `null`, `true`, `{"Value":"v1"}`, `[1,2,3]`,
	`{"a":{"b":[null,false]}}`, `"日本"`, `"\u0000"`, `12345678901234567890`, `"a\"b\\c"`}

// raw chunks for AppendBytes/SetBytes: concatenations are sometimes valid JSON, often not
var rawPool = []string{``, `1`, `2`, `0`, `[`, `]`, `[1`, `,2`, `"`, `x"`, `"x`, `{}`, `{`, `}`, `"a":1`, `e5`, `.5`, `-`, `null`, `tru`, `e`,
	"\x00", "\xff\xfe", `\`, `"\u12`, `34"`}

func (g *gen) jsonVal() string {
	if g.r.Intn(6) == 0 {
		return strconv.Itoa(g.r.Intn(1000))
	}
	return hx.Pick(g.r, jsonPool)
}

func hk(store, k string) string {
	if store == "uno" {
		return " hk=" + hx.Hex([]byte(mapped(false, k)))
	}
	return ""
}

var opNames = []string{"add", "addClass", "setClass", "remove", "get", "has", "emplace", "replace", "appendBytes", "setBytes",
	"set", "mutate", "count", "clear", "walk", "walkClass", "walkPartial", "walkPartialClass"}

// weights: writes that create entries are favoured so that walks have something to visit
var opWeights = []int{6, 8, 4, 3, 4, 2, 4, 5, 6, 4, 3, 6, 1, 1, 3, 3, 5, 5}

func (g *gen) history(store string, nops int) []string {
	pool := g.keyPool()
	totalW := 0
	for _, w := range opWeights {
		totalW += w
	}
	live := 0 // rough count of live entries, for window boundaries
	var ops []string
	kfOf := func(k string) string { return " k=" + hx.Hex([]byte(k)) + hk(store, k) }
	write := func() string {
		k := hx.Pick(g.r, pool)
		switch g.r.Intn(7) {
		case 0:
			return store + " add" + kfOf(k) + " v=" + hx.Hex([]byte(g.jsonVal()))
		case 1:
			return store + " replace" + kfOf(k) + " v=" + hx.Hex([]byte(g.jsonVal()))
		case 2:
			return store + " appendBytes" + kfOf(k) + " v=" + hx.Hex([]byte(hx.Pick(g.r, rawPool)))
		case 3:
			return store + " emplace" + kfOf(k) + " v=" + hx.Hex([]byte(g.jsonVal()))
		case 4:
			return store + " set" + kfOf(k) + " v=" + hx.Hex([]byte(g.jsonVal()))
		case 5:
			return store + " remove" + kfOf(k)
		}
		return store + " mutate" + kfOf(k) + " mode=put v=" + hx.Hex([]byte(g.jsonVal()))
	}
	// two-step patterns: a call that ends early (not-found, refused, cancelled, exists), then a write.
	// Whatever the early exit leaves behind (an open transaction, a lock) shows in the write.
	pattern := func() []string {
		missing := fmt.Sprintf("absent%d", g.r.Intn(1000))
		k := hx.Pick(g.r, pool)
		var first string
		switch g.r.Intn(8) {
		case 0, 1:
			first = store + " mutate" + kfOf(missing) + " mode=put v=" + hx.Hex([]byte(g.jsonVal()))
			g.rep.Count("pattern:mutate-missing-then-write")
		case 2:
			first = store + " mutate" + kfOf(k) + " mode=" + hx.Pick(g.r, []string{"fail", "cancel"})
			g.rep.Count("pattern:mutate-refused-then-write")
		case 3:
			first = store + " add" + kfOf(k) + " v=" + hx.Hex([]byte(g.jsonVal()))
			g.rep.Count("pattern:add-then-write")
			return []string{first, first, write()}
		case 4:
			first = store + " setBytes" + kfOf(missing) + " v=31"
			g.rep.Count("pattern:set-missing-then-write")
		case 5:
			first = store + " remove" + kfOf(missing)
			g.rep.Count("pattern:remove-missing-then-write")
		case 6:
			first = store + " setClass" + kfOf(missing) + " c=6331"
			g.rep.Count("pattern:setclass-missing-then-write")
		default:
			first = store + " walk stop=0:" + hx.Pick(g.r, []string{"fail", "cancel"})
			g.rep.Count("pattern:walk-stopped-then-write")
		}
		return []string{first, write()}
	}
	for len(ops) < nops {
		if g.r.Intn(8) == 0 {
			for _, l := range pattern() {
				if _, ok := parseOp(l); ok {
					ops = append(ops, l)
				}
			}
			continue
		}
		x := g.r.Intn(totalW)
		name := ""
		for i, w := range opWeights {
			if x < w {
				name = opNames[i]
				break
			}
			x -= w
		}
		k := hx.Pick(g.r, pool)
		kf := " k=" + hx.Hex([]byte(k)) + hk(store, k)
		c := hx.Pick(g.r, classPool)
		line := store + " " + name
		stop := " stop=-"
		if g.r.Intn(5) == 0 {
			stop = fmt.Sprintf(" stop=%d:%s", g.r.Intn(4), hx.Pick(g.r, []string{"cancel", "fail"}))
		}
		part := func() string {
			n := uint64(live)
			cands := []uint64{0, 1, n, n + 1, 1<<63 - 1, 2, 3}
			if n > 0 {
				cands = append(cands, n-1)
			}
			return fmt.Sprintf(" off=%d n=%d desc=%d", hx.Pick(g.r, cands), hx.Pick(g.r, cands), g.r.Intn(2))
		}
		switch name {
		case "add", "emplace", "replace", "set":
			line += kf + " v=" + hx.Hex([]byte(g.jsonVal()))
			if name != "set" {
				live++
			}
		case "addClass":
			line += kf + " c=" + hx.Hex([]byte(c)) + " v=" + hx.Hex([]byte(g.jsonVal()))
			live++
		case "setClass":
			line += kf + " c=" + hx.Hex([]byte(c))
		case "remove", "get", "has":
			line += kf
		case "appendBytes", "setBytes":
			if g.r.Intn(5) == 0 {
				line += kf + " v=nil"
			} else {
				line += kf + " v=" + hx.Hex([]byte(hx.Pick(g.r, rawPool)))
			}
		case "mutate":
			switch g.r.Intn(4) {
			case 0:
				line += kf + " mode=cancel"
			case 1:
				line += kf + " mode=fail"
			default:
				line += kf + " mode=put v=" + hx.Hex([]byte(g.jsonVal()))
			}
		case "count":
		case "clear":
			live = 0
		case "walk":
			line += stop
		case "walkClass":
			line += " c=" + hx.Hex([]byte(c)) + stop
		case "walkPartial":
			line += part() + stop
		case "walkPartialClass":
			line += " c=" + hx.Hex([]byte(c)) + part() + stop
		}
		if live > len(pool) {
			live = len(pool)
		}
		if _, ok := parseOp(line); !ok {
			continue
		}
		ops = append(ops, line)
	}
	return ops
}

// ---------------------------------------------------------------- main

type run struct {
	f      *hx.Flags
	rep    *hx.Report
	w      *world
	all    []string // every executed line, with reset lines, for the driver
	impl   []outs
	shrunk map[string]int // oracle key -> histories already minimised
	failed int
	stop   bool
}

func (r *run) count(line string, x outs) {
	name := opName(line)
	r.rep.Count("op:" + name)
	res, _ := split(x.ref)
	if i := strings.Index(res, ":"); i >= 0 {
		res = res[:i]
	}
	r.rep.Count("result:" + res)
	r.rep.Count("store:" + strings.Fields(line)[0])
	if o, ok := parseOp(line); ok && o.hasK {
		if len(o.k) > 255 && len([]rune(o.k)) <= 255 {
			r.rep.Count("keylen:over-255-bytes-under-256-runes")
		}
		switch l := len(o.k); {
		case l == 0:
			r.rep.Count("keylen:0")
		case l < 254:
			r.rep.Count("keylen:1-253")
		case l <= 255:
			r.rep.Count("keylen:254-255")
		case l == 256:
			r.rep.Count("keylen:256")
		default:
			r.rep.Count("keylen:257-300")
		}
		if o.vNil {
			r.rep.Count("value:nil")
		} else if (o.name == "appendBytes" || o.name == "setBytes") && len(o.v) == 0 {
			r.rep.Count("value:empty")
		}
	}
	if strings.Contains(line, "9223372036854775807") {
		r.rep.Count("window:2^63-1")
	}
}

// history runs one history, records it for the driver, and reports a shrunk
// failure if the oracle fires.
func (r *run) history(ops []string, origin string) {
	res, fail := r.w.runHistory(ops)
	r.all = append(r.all, "reset")
	r.impl = append(r.impl, outs{"reset", "reset", "reset"})
	prev := ""
	for i, l := range ops {
		r.all = append(r.all, l)
		r.impl = append(r.impl, res[i])
		if res[i].ref != "bad-op" {
			r.count(l, res[i])
			_, d := split(res[i].ref)
			r.rep.Case(l+"@"+prev, true)
			prev = d
		}
	}
	if fail == nil {
		return
	}
	key := fail.key
	if fail.hang {
		// time-based: run the history again, alone, before believing it
		_, again := r.w.runHistory(ops)
		if again == nil || !again.hang {
			r.rep.Note("a call exceeded the watchdog once and returned in time when the history was re-run; not reported (%s)", key)
			if again == nil {
				return
			}
			fail, key = again, again.key
		} else {
			fail, key = again, again.key
			// a store that blocks is established: shrink cheaply and generate no more
			r.w.watchdog = 3 * time.Second
			r.stop = true
			defer func() { r.w.watchdog = 20 * time.Second }()
		}
	}
	r.failed++
	r.rep.Count("failing-histories")
	if r.shrunk[key] >= 2 {
		return // already reported with two minimised histories; more of the same adds nothing
	}
	r.shrunk[key]++
	budget := 1 << 30
	if fail.hang {
		budget = 25 // every test of a blocking history costs a watchdog period
	}
	test := func(c []string) bool {
		if budget <= 0 {
			return false
		}
		budget--
		_, f := r.w.runHistory(c)
		return f != nil && f.key == key
	}
	start := append([]string{}, ops[:fail.at+1]...)
	if fail.hang && len(start) > 1 && test(start[len(start)-1:]) {
		start = start[len(start)-1:]
	}
	small := ddmin(start, test)
	_, f2 := r.w.runHistory(small)
	if f2 == nil || f2.key != key {
		f2 = fail
		small = ops[:fail.at+1]
	}
	r.rep.Fail(key, f2.desc+" ["+origin+"]", small)
}

func main() {
	log.SetOutput(io.Discard)
	f := hx.ParseFlags()
	rp := hx.NewReport("C05", f)
	rp.Rule = "one case = one operation executed on memory, SQLite and the reference map (and by the three Lean models) in the state its " +
		"history reached; distinct = distinct (op line, contents digest before the op); non-trivial = every case"
	dir := f.Work
	if dir == "" {
		d, err := os.MkdirTemp("", "c05")
		if err != nil {
			fmt.Println(err)
			os.Exit(3)
		}
		defer os.RemoveAll(d)
		dir = d
	}
	w, err := openWorld(dir, hx.NewJournal(f.Work))
	if err != nil {
		rp.Note("cannot open the SQLite store: %v", err)
		rp.Write(f.Out)
		os.Exit(3)
	}
	r := &run{f: f, rep: rp, w: w, shrunk: map[string]int{}}

	if f.Replay != "" {
		ops, err := hx.ReadReplayOps(f.Replay)
		if err != nil {
			fmt.Println("replay:", err)
			os.Exit(3)
		}
		var hist []string
		for _, l := range ops {
			if b, ok := parseBurst(l); ok {
				r.burst(b, "replay", 20)
			} else {
				hist = append(hist, l)
			}
		}
		if len(hist) > 0 {
			r.history(hist, "replay")
		}
	} else {
		for i, ops := range hx.CorpusOps("C05") {
			var hist []string
			for _, l := range ops {
				if b, ok := parseBurst(l); ok {
					r.burst(b, fmt.Sprintf("corpus %d", i), 1)
				} else {
					hist = append(hist, l)
				}
			}
			if len(hist) > 0 {
				r.history(hist, fmt.Sprintf("corpus %d", i))
			}
			rp.Count("corpus-histories")
		}
		g := &gen{r: hx.NewRand(f.Seed), rep: rp, big: f.Thorough()}
		nh, nops := 120, 45
		if f.Thorough() {
			nh, nops = 2500, 70
		}
		for i := 0; i < nh; i++ {
			store := "ord"
			if i%3 == 2 {
				store = "uno"
			}
			n := nops
			if i%10 == 0 {
				n = nops * 3
			}
			h := g.history(store, n)
			switch i % 8 {
			case 5:
				h = append([]string{"flavour memory"}, h...)
				rp.Count("flavour:memory")
			case 6:
				h = append([]string{"flavour shared"}, h...)
				rp.Count("flavour:shared-cache")
			default:
				rp.Count("flavour:file")
			}
			r.history(h, fmt.Sprintf("seed %d history %d", f.Seed, i))
			rp.Count("histories")
			if r.stop {
				rp.Note("stopped generating after a call on the store did not return (history %d)", i)
				break
			}
			if r.failed >= 40 {
				rp.Note("stopped generating after %d failing histories (of %d)", r.failed, i+1)
				break
			}
		}
	}

	// concurrent creators of one absent key, on every backend
	if f.Replay == "" && !r.stop {
		br := hx.NewRand(f.Seed ^ 0xb0057)
		memKeys, sqlKeys, rounds := 2000, 30, 1
		if f.Thorough() {
			memKeys, sqlKeys, rounds = 6000, 120, 3
		}
		for i := 0; i < rounds; i++ {
			for _, store := range []string{"ord", "uno"} {
				r.burst(burstCfg{"mem", store, hx.Pick(br, []int{4, 8, 16}), memKeys, br.U64() % 1000000, ""}, "generated", 1)
				r.burst(burstCfg{"sql", store, hx.Pick(br, []int{2, 4, 8}), sqlKeys, br.U64() % 1000000, ""}, "generated", 1)
				r.burst(burstCfg{"mem", store, hx.Pick(br, []int{4, 8}), memKeys / 4, br.U64() % 1000000, "append"}, "generated", 1)
				r.burst(burstCfg{"sql", store, hx.Pick(br, []int{2, 3, 4}), sqlKeys * 4, br.U64() % 1000000, "append"}, "generated", 1)
			}
		}
	}

	// the Lean models on the same lines
	lines := append([]string{"meta"}, r.all...)
	model, err := hx.RunDriver(f.Driver, nil, lines)
	if err != nil {
		rp.Note("driver failed: %v", err)
		rp.ModelAvailable = false
	} else if model != nil {
		rp.Note("model facts: %s", model[0])
		if !strings.Contains(model[0], "changed=[]") {
			rp.Note("regenerated SQL texts differ from the golden copy the Sql model was written against (%s): the differential run is the tie for the new text", model[0])
		}
		specDiffers := 0
		for i, l := range r.all {
			if l == "reset" {
				continue
			}
			m := model[i+1]
			x := r.impl[i]
			if x.ref == "bad-op" {
				continue
			}
			get := func(tag string) string {
				for _, w := range strings.Fields(m) {
					if strings.HasPrefix(w, tag+"=") {
						return w[len(tag)+1:]
					}
				}
				return "?"
			}
			if a, b := x.mem, get("mem"); a != b {
				rp.Disagree("mem", l, a, b)
			}
			if a, b := x.sql, get("sql"); a != b {
				rp.Disagree("sql", l, a, b)
			}
			if a, b := x.ref, get("spec"); a != b {
				rp.Disagree("spec-vs-reference-map", l, a, b)
			}
			if get("spec") != get("mem") || get("spec") != get("sql") {
				specDiffers++
			}
			rp.TracesValidated++
		}
		if specDiffers > 0 {
			rp.Note("the Mem/Sql models (run with the regenerated facts) deviate from Spec on %d ops: a refinement hypothesis does not hold for the code as extracted", specDiffers)
		}
	}
	for i := 1; i < len(r.all) && len(rp.Samples) < 10; i += 1 + len(r.all)/9 {
		if r.all[i] != "reset" {
			rp.Sample(map[string]string{"op": short(r.all[i]), "mem": short(r.impl[i].mem), "sql": short(r.impl[i].sql)})
		}
	}
	rp.Write(f.Out)
}
