package main

// Concurrent creators of one absent key.  The 18-operation histories are
// sequential; this stream covers the one clause of the property that a single
// goroutine cannot distinguish: "emplace never overwrites" / "add fails on an
// existing key" must also hold when several goroutines create the same absent
// key at once.  G goroutines are released together on a fresh key; each issues
// one creator (Emplace or AddClass with its own value) and then reads the key.
// Nothing in a burst replaces or removes, so every read and the final contents
// must show ONE value - the winner's - and at most one AddClass may succeed.

import (
	"encoding/json"
	"fmt"
	"strconv"
	"strings"
	"sync"
	"time"

	"shanhu.io/g/pisces"
	"verif/harness/hx"
)

type burstCfg struct {
	backend, store string
	g, keys        int
	seed           uint64
	kind           string // "" creators (Emplace/AddClass) | append (first AppendBytes of an absent key)
}

func (b burstCfg) String() string {
	s := fmt.Sprintf("burst backend=%s store=%s g=%d keys=%d seed=%d", b.backend, b.store, b.g, b.keys, b.seed)
	if b.kind != "" {
		s += " kind=" + b.kind
	}
	return s
}

func parseBurst(line string) (burstCfg, bool) {
	ws := strings.Fields(line)
	if len(ws) == 0 || ws[0] != "burst" {
		return burstCfg{}, false
	}
	var b burstCfg
	for _, w := range ws[1:] {
		kv := strings.SplitN(w, "=", 2)
		if len(kv) != 2 {
			return b, false
		}
		switch kv[0] {
		case "backend":
			b.backend = kv[1]
		case "store":
			b.store = kv[1]
		case "g":
			b.g, _ = strconv.Atoi(kv[1])
		case "keys":
			b.keys, _ = strconv.Atoi(kv[1])
		case "seed":
			b.seed, _ = strconv.ParseUint(kv[1], 10, 64)
		case "kind":
			b.kind = kv[1]
		}
	}
	ok := (b.backend == "mem" || b.backend == "sql") && (b.store == "ord" || b.store == "uno") &&
		(b.kind == "" || b.kind == "append") && b.g >= 2 && b.g <= 64 && b.keys >= 1 && b.keys <= 100000
	return b, ok
}

// runBurst returns "" when the oracle held, else what failed; hung reports a watchdog expiry.
func (w *world) runBurst(cfg burstCfg, rep *hx.Report) (fail string, hung bool) {
	w.setFlavour("file") // concurrent callers need a database every connection sees
	w.reset()
	var be *backend
	if cfg.backend == "mem" {
		be = w.mem[cfg.store]
	} else {
		be = w.sql[cfg.store]
	}
	kv := be.kv
	r := hx.NewRand(cfg.seed)
	type obs struct {
		creator string // emplace | addClass
		res     string
		val     string
		saw     string // value read back ("" = not found / error)
	}
	finished := hx.WithTimeout(2*w.watchdog, func() {
		for i := 0; i < cfg.keys && fail == "" && cfg.kind == "append"; i++ {
			// first appends: every goroutine appends its own chunk to a key nobody has created yet;
			// AppendBytes upserts, so every chunk whose call succeeded is in the value, once
			key := fmt.Sprintf("burst-%d-%d", cfg.seed, i)
			res := make([]string, cfg.g)
			start := make(chan struct{})
			var wg sync.WaitGroup
			for g := 0; g < cfg.g; g++ {
				wg.Add(1)
				go func(g int) {
					defer wg.Done()
					<-start
					res[g] = classify("appendBytes", kv.AppendBytes(key, []byte(fmt.Sprintf("[%d]", g))))
				}(g)
			}
			close(start)
			wg.Wait()
			rep.Count("burst-append-keys:" + cfg.backend)
			final, found := "", false
			for try := 0; try < 200; try++ {
				bs, err := kv.GetBytes(key)
				if err == nil {
					final, found = string(bs), true
					break
				}
				if classify("get", err) != "busy" {
					break
				}
				time.Sleep(2 * time.Millisecond)
			}
			want := 0
			for g, r := range res {
				chunk := fmt.Sprintf("[%d]", g)
				n := strings.Count(final, chunk)
				switch {
				case r == "ok" && n != 1:
					fail = fmt.Sprintf("key %s did not exist; %d goroutines appended to it at once; the AppendBytes of chunk %s reported "+
						"success but the value %q holds it %d times", key, cfg.g, chunk, final, n)
				case r == "busy" && n != 0:
					fail = fmt.Sprintf("key %s: the AppendBytes of chunk %s reported busy but the value %q holds it", key, chunk, final)
				case r != "ok" && r != "busy":
					fail = fmt.Sprintf("key %s: AppendBytes answered %s", key, r)
				}
				if r == "ok" {
					want += len(chunk)
				}
			}
			if fail == "" && (len(final) != want || (want > 0 && !found)) {
				fail = fmt.Sprintf("key %s: successful first appends add up to %d bytes, the value %q has %d", key, want, final, len(final))
			}
		}
		for i := 0; i < cfg.keys && fail == "" && cfg.kind == ""; i++ {
			key := fmt.Sprintf("burst-%d-%d", cfg.seed, i)
			kinds := make([]string, cfg.g)
			for g := range kinds {
				kinds[g] = hx.Pick(r, []string{"emplace", "emplace", "addClass"})
			}
			os := make([]obs, cfg.g)
			start := make(chan struct{})
			var wg sync.WaitGroup
			for g := 0; g < cfg.g; g++ {
				wg.Add(1)
				go func(g int) {
					defer wg.Done()
					val := strconv.Itoa(1000*(g+1) + i%1000)
					o := &os[g]
					o.creator, o.val = kinds[g], val
					<-start
					if kinds[g] == "emplace" {
						o.res = classify("emplace", kv.Emplace(key, json.RawMessage(val)))
					} else {
						o.res = classify("addClass", kv.AddClass(key, "c"+strconv.Itoa(g), json.RawMessage(val)))
					}
					if bs, err := kv.GetBytes(key); err == nil {
						o.saw = string(bs)
					}
				}(g)
			}
			close(start)
			wg.Wait()
			rep.Count("burst-keys:" + cfg.backend)
			final := ""
			for try := 0; try < 200; try++ {
				bs, err := kv.GetBytes(key)
				if err == nil {
					final = string(bs)
					break
				}
				if classify("get", err) != "busy" {
					break
				}
				time.Sleep(2 * time.Millisecond)
			}
			seen := map[string]bool{}
			adds, created := 0, 0
			for _, o := range os {
				if o.saw != "" {
					seen[o.saw] = true
				}
				if o.res == "ok" {
					created++
					if o.creator == "addClass" {
						adds++
					}
				}
				switch o.res {
				case "ok", "exists", "busy":
				default:
					fail = fmt.Sprintf("key %s: %s answered %s", key, o.creator, o.res)
				}
			}
			if final != "" {
				seen[final] = true
			}
			var vals []string
			for v := range seen {
				vals = append(vals, v)
			}
			switch {
			case len(seen) > 1:
				fail = fmt.Sprintf("key %s was created by %d goroutines at once and %d different values were observed under it (%s): "+
					"a creator overwrote the entry another creator had just made", key, cfg.g, len(seen), strings.Join(vals, ", "))
			case adds > 1:
				fail = fmt.Sprintf("key %s: %d concurrent AddClass calls reported success", key, adds)
			case created > 0 && final == "":
				fail = fmt.Sprintf("key %s: a creator reported success but the key is missing", key)
			}
		}
	})
	w.dirty = w.dirty || cfg.backend == "sql" // the next history starts on a fresh file
	if !finished {
		return "", true
	}
	return fail, false
}

// burst runs one burst description, re-running a watchdog expiry once, and reports.
func (r *run) burst(cfg burstCfg, origin string, reps int) {
	for i := 0; i < reps; i++ {
		r.rep.Case(cfg.String(), true)
		r.rep.Count("bursts:" + cfg.backend + ":" + cfg.store)
		fail, hung := r.w.runBurst(cfg, r.rep)
		if hung {
			r.w.dirty = true
			if _, again := r.w.runBurst(cfg, r.rep); again {
				r.rep.Fail(cfg.backend+"-op-never-returns:burst", "a burst of concurrent creators did not finish within the watchdog, twice: "+cfg.String(), []string{cfg.String()})
				r.w.dirty = true
				r.stop = true
			}
			return
		}
		if fail != "" {
			key := cfg.backend + "-emplace-overwrote-concurrent-create"
			if cfg.kind == "append" {
				key = cfg.backend + "-append-lost-concurrent-create"
			}
			r.rep.Fail(key, fail+" ["+origin+"; "+cfg.String()+"]", []string{cfg.String()})
			return
		}
	}
}

var _ = pisces.ErrCancel
