package main

// Own-key rounds: G goroutines, each the only writer of its own key (on SQLite one
// store; on memory one store per goroutine, so that the stores' locks do not
// serialise them), each bumping its key with Mutate for a fixed time.  The values
// are JSON strings of a different length per goroutine.  Whatever the layers under
// KV.Mutate share between calls (scratch buffers, encoders), a key must only ever
// hold what its own callbacks produced: every callback must be handed the value the
// previous one returned, and the final value must be the last one.

import (
	"encoding/json"
	"fmt"
	"strings"
	"sync"
	"time"

	"shanhu.io/g/pisces"
	"verif/harness/hx"
)

func ownVal(g, n int) string {
	return fmt.Sprintf(`"g%d#%d#%s"`, g, n, strings.Repeat(string(rune('a'+g%26)), 3+g*17))
}

// runOwnKeys returns the oracle failures of one own-key round (cfg.m is its duration in ms).
func (e *env) runOwnKeys(cfg roundCfg, watchdog time.Duration, rep *hx.Report) (fails []string, hung bool, err error) {
	stores := make([]*store, 0, cfg.g)
	defer func() {
		for _, st := range stores {
			st.cleanup()
		}
	}()
	kvs := make([]*pisces.KV, cfg.g)
	if cfg.backend == "sql" {
		st, err := e.open(cfg)
		if err != nil {
			return nil, false, err
		}
		stores = append(stores, st)
		for g := range kvs {
			kvs[g] = st.kv
		}
	} else {
		for g := range kvs {
			st, err := e.open(cfg)
			if err != nil {
				return nil, false, err
			}
			stores = append(stores, st)
			kvs[g] = st.kv
		}
	}
	for g := range kvs {
		if err := kvs[g].Add(fmt.Sprintf("own%d", g), json.RawMessage(ownVal(g, 0))); err != nil {
			return nil, false, fmt.Errorf("set-up Add: %v", err)
		}
	}
	var mu sync.Mutex
	note := func(format string, a ...interface{}) {
		mu.Lock()
		if len(fails) < 4 {
			fails = append(fails, fmt.Sprintf(format, a...))
		}
		mu.Unlock()
	}
	counts := make([]int, cfg.g)
	deadline := time.Now().Add(time.Duration(cfg.m) * time.Millisecond)
	var wg sync.WaitGroup
	for g := range kvs {
		wg.Add(1)
		go func(g int) {
			defer wg.Done()
			key := fmt.Sprintf("own%d", g)
			n, broken := 0, false
			for time.Now().Before(deadline) && !broken {
				raw := new(json.RawMessage)
				err := kvs[g].Mutate(key, raw, func(v interface{}) error {
					p := v.(*json.RawMessage)
					if string(*p) != ownVal(g, n) {
						note("key %s is written by goroutine %d alone, whose last successful Mutate stored %d bytes %.40q; "+
							"the next callback was handed %d bytes %.60q", key, g, len(ownVal(g, n)), ownVal(g, n), len(*p), string(*p))
						broken = true
						return errNotNumber
					}
					*p = json.RawMessage(ownVal(g, n+1))
					return nil
				})
				switch r := classify("mutate", err); r {
				case "ok":
					n++
				case "busy", "failed":
				default:
					note("key %s: Mutate answered %s after %d successful updates", key, r, n)
					broken = true
				}
			}
			counts[g] = n
		}(g)
	}
	if !hx.WithTimeout(watchdog, wg.Wait) {
		return nil, true, nil
	}
	total := 0
	for g := range kvs {
		total += counts[g]
		key := fmt.Sprintf("own%d", g)
		var bs []byte
		var gerr error
		for try := 0; try < 200; try++ {
			bs, gerr = kvs[g].GetBytes(key)
			if gerr == nil || classify("get", gerr) != "busy" {
				break
			}
			time.Sleep(2 * time.Millisecond)
		}
		if gerr != nil {
			note("key %s: final GetBytes: %s", key, classify("get", gerr))
		} else if string(bs) != ownVal(g, counts[g]) {
			note("key %s: %d Mutates reported success, the last one storing %d bytes %.40q, but the key holds %d bytes %.60q",
				key, counts[g], len(ownVal(g, counts[g])), ownVal(g, counts[g]), len(bs), string(bs))
		}
	}
	rep.Count("own-key-mutates:" + cfg.backend + ":" + bucket(total))
	return fails, false, nil
}
