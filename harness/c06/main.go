// Harness for C06: pisces read-modify-write operations are atomic under
// concurrency.
//
// One case is a *round*: G goroutines issue M operations each (Mutate-increment,
// AppendBytes of tagged chunks, Add, Emplace, Replace, Remove, Get) on a small
// shared key set of one store (memory or a SQLite file, ordered or unordered),
// every call stamped with an invocation and a response tick of one logical
// clock.  After the goroutines have joined the store is dumped (memory through
// the verif shim, SQLite through a direct select) and Count/Walk are run.
//
//   - direct oracle on the implementation: successful increments = final counter;
//     concurrent Adds of one key succeed at most once and the key holds that
//     value; Emplace keeps the first value; the log key holds exactly the chunks
//     whose AppendBytes reported success, each once, in each goroutine's program
//     order; an operation that reported an error left no trace; every key's
//     history (busy results dropped) has a linearization against the reference
//     map (Wing-Gong search with memoisation, per key - every operation of the
//     mix touches one key) that ends in the dumped contents.
//   - correspondence: the linearization found is sent, as C05 op lines, to the
//     Lean driver, whose Spec must give every recorded result, the final dump
//     and the quiescent Count/Walk.
//
// An op line of this harness is a round description; a replay re-runs it
// (several times: the schedule is not part of the line).
package main

import (
	"crypto/sha256"
	"encoding/hex"
	"encoding/json"
	"errors"
	"fmt"
	"io"
	"log"
	"os"
	"path/filepath"
	"sort"
	"strconv"
	"strings"
	"sync"
	"sync/atomic"
	"time"

	"modernc.org/sqlite"
	"shanhu.io/g/errcode"
	"shanhu.io/g/pisces"
	"shanhu.io/g/sqlx"
	"verif/harness/hx"
)

var errNotNumber = errors.New("harness: value is not a counter")

// ---------------------------------------------------------------- calls

type call struct {
	g, seq   int
	name     string // add emplace replace remove get appendBytes mutate
	key      string
	val      string
	inv, ret int64
	out      string
}

func mapped(ordered bool, k string) string {
	if ordered {
		return k
	}
	h := sha256.Sum256([]byte(k))
	return hex.EncodeToString(h[:])
}

// line renders a call as a C05 op line for the Lean driver.
func (c *call) line(store string) string {
	s := store + " " + c.name + " k=" + hx.Hex([]byte(c.key))
	if store == "uno" {
		s += " hk=" + hx.Hex([]byte(mapped(false, c.key)))
	}
	switch c.name {
	case "add", "emplace", "replace", "appendBytes":
		s += " v=" + hx.Hex([]byte(c.val))
	case "mutate":
		s += " mode=inc"
	}
	return s
}

func classify(opName string, err error) string {
	switch {
	case err == nil:
		return "ok"
	case errors.Is(err, errNotNumber):
		return "failed"
	case errcode.IsNotFound(err):
		return "notFound"
	case errcode.IsInvalidArg(err):
		if opName == "add" {
			return "exists"
		}
		return "err:invalidArg"
	}
	var se *json.SyntaxError
	if errors.As(err, &se) {
		return "badJson"
	}
	if cause := sqlx.VerifCause(err); cause != nil {
		var qe *sqlite.Error
		if errors.As(cause, &qe) {
			switch code := qe.Code(); {
			case code == 2067 || code == 1555:
				if opName == "add" {
					return "exists"
				}
				return "err:unique"
			case code&0xff == 5 || code&0xff == 6:
				return "busy"
			default:
				return "err:sqlite" + strconv.Itoa(code)
			}
		}
		return "err:sql"
	}
	// database/sql reports a busy Begin/Commit without the sqlx wrapper
	var qe *sqlite.Error
	if errors.As(err, &qe) {
		if code := qe.Code(); code&0xff == 5 || code&0xff == 6 {
			return "busy"
		}
		return "err:sqlite" + strconv.Itoa(qe.Code())
	}
	return "err:other"
}

func isDigits(b []byte) bool {
	if len(b) == 0 {
		return false
	}
	for _, c := range b {
		if c < '0' || c > '9' {
			return false
		}
	}
	return true
}

func incDigits(b []byte) []byte {
	out := append([]byte{}, b...)
	i := len(out) - 1
	for i >= 0 {
		if out[i] == '9' {
			out[i] = '0'
			i--
			continue
		}
		out[i]++
		return trimZeros(out)
	}
	return trimZeros(append([]byte{'1'}, out...))
}

// trimZeros mirrors the driver, which goes through a natural number.
func trimZeros(b []byte) []byte {
	i := 0
	for i < len(b)-1 && b[i] == '0' {
		i++
	}
	return b[i:]
}

// caller makes the caller's slice for a call: the bytes with spare capacity behind them.
func caller(v string) []byte {
	buf := make([]byte, len(v), len(v)+24)
	copy(buf, v)
	return buf
}

// scribble plays the caller who reuses a buffer it passed to, or got from, the store.
func scribble(b []byte) {
	b = b[:cap(b)]
	for i := range b {
		b[i] = 0xEE
	}
}

// isolationProbe checks, sequentially and before the goroutines start, that the store
// neither keeps a slice the caller passed in nor hands out one it still uses.
func isolationProbe(kv *pisces.KV) string {
	const k = "probe-value-isolation"
	want := ""
	check := func(step string) string {
		got, err := kv.GetBytes(k)
		if err != nil {
			return step + ": GetBytes: " + classify("get", err)
		}
		if string(got) != want {
			return fmt.Sprintf("%s: the key holds %q, the reference map %q", step, got, want)
		}
		scribble(got) // the returned slice is the caller's to overwrite
		got2, err := kv.GetBytes(k)
		if err != nil || string(got2) != want {
			return fmt.Sprintf("%s: after the caller overwrote the slice GetBytes returned, the key holds %q, the reference map %q", step, got2, want)
		}
		return ""
	}
	steps := []struct {
		name string
		do   func(b []byte) error
		val  string
		app  bool
	}{
		// AppendBytes upserts whatever it is given: an empty token on a missing key creates the (empty) entry
		{"EMPTY: AppendBytes of an empty slice on a missing key (it must create the key)", func(b []byte) error { return kv.AppendBytes(k, b[:0]) }, "", true},
		{"AppendBytes on the fresh empty entry", func(b []byte) error { return kv.AppendBytes(k, b) }, "12", true},
		{"AppendBytes on the existing key", func(b []byte) error { return kv.AppendBytes(k, b) }, "34", true},
		{"SetBytes", func(b []byte) error { return kv.SetBytes(k, b) }, "567", false},
		{"AppendBytes after SetBytes", func(b []byte) error { return kv.AppendBytes(k, b) }, "8", true},
	}
	for _, st := range steps {
		b := caller(st.val)
		if err := st.do(b); err != nil {
			kv.Remove(k)
			return "" // a busy store is not this probe's business
		}
		if st.app {
			want += st.val
		} else {
			want = st.val
		}
		scribble(b)
		if msg := check(st.name); msg != "" {
			kv.Remove(k)
			return msg
		}
	}
	kv.Remove(k)
	return ""
}

func exec(kv *pisces.KV, c *call) string {
	switch c.name {
	case "add":
		b := caller(c.val)
		defer scribble(b)
		return classify(c.name, kv.Add(c.key, json.RawMessage(b)))
	case "emplace":
		b := caller(c.val)
		defer scribble(b)
		return classify(c.name, kv.Emplace(c.key, json.RawMessage(b)))
	case "replace":
		b := caller(c.val)
		defer scribble(b)
		return classify(c.name, kv.Replace(c.key, json.RawMessage(b)))
	case "remove":
		return classify(c.name, kv.Remove(c.key))
	case "appendBytes":
		b := caller(c.val)
		defer scribble(b) // the caller reuses its buffer as soon as the call is back
		return classify(c.name, kv.AppendBytes(c.key, b))
	case "get":
		bs, err := kv.GetBytes(c.key)
		if err != nil {
			return classify(c.name, err)
		}
		out := "ok:" + hx.Hex(bs)
		if c.key == kBig {
			out = "ok:" + uniform(bs)
		}
		scribble(bs)
		return out
	case "mutate":
		saw := "none"
		raw := new(json.RawMessage)
		err := kv.Mutate(c.key, raw, func(v interface{}) error {
			p := v.(*json.RawMessage)
			saw = hx.Hex([]byte(*p))
			if !isDigits(*p) {
				return errNotNumber
			}
			*p = incDigits(*p)
			return nil
		})
		r := classify(c.name, err)
		if r == "ok" || r == "failed" {
			return r + ":saw=" + saw
		}
		if r == "badJson" {
			return "badJson:saw=none"
		}
		return r
	}
	return "bad-op"
}

// ---------------------------------------------------------------- reference semantics of one key

type kstate struct {
	exists bool
	cls    string
	val    string
}

func validJSON(s string) bool { return json.Valid([]byte(s)) }

// apply is the reference map restricted to one key.
func apply(s kstate, c *call) (kstate, string) {
	switch c.name {
	case "add":
		if s.exists {
			return s, "exists"
		}
		return kstate{true, "", c.val}, "ok"
	case "emplace":
		if s.exists {
			return s, "ok"
		}
		return kstate{true, "", c.val}, "ok"
	case "replace":
		if s.exists {
			return kstate{true, s.cls, c.val}, "ok"
		}
		return kstate{true, "", c.val}, "ok"
	case "remove":
		if !s.exists {
			return s, "notFound"
		}
		return kstate{}, "ok"
	case "appendBytes":
		if s.exists {
			return kstate{true, s.cls, s.val + c.val}, "ok"
		}
		return kstate{true, "", c.val}, "ok"
	case "get":
		if !s.exists {
			return s, "notFound"
		}
		return s, "ok:" + hx.Hex([]byte(s.val))
	case "mutate":
		if !s.exists {
			return s, "notFound"
		}
		if !validJSON(s.val) {
			return s, "badJson:saw=none"
		}
		saw := hx.Hex([]byte(s.val))
		if !isDigits([]byte(s.val)) {
			return s, "failed:saw=" + saw
		}
		return kstate{true, s.cls, string(incDigits([]byte(s.val)))}, "ok:saw=" + saw
	}
	return s, "bad-op"
}

// linearize searches an order of calls (all on one key) that respects real time
// (a call that returned before another was invoked comes first), reproduces every
// recorded result on the reference semantics and ends in `final`.
func linearize(calls []*call, init, final kstate, budget int) (order []*call, ok bool, exhausted bool) {
	n := len(calls)
	sort.Slice(calls, func(i, j int) bool { return calls[i].inv < calls[j].inv })
	done := make([]bool, n)
	// the set of linearized calls is remembered by a 128-bit Zobrist hash
	z := hx.NewRand(0x5eed)
	z1 := make([]uint64, n)
	z2 := make([]uint64, n)
	for i := range z1 {
		z1[i], z2[i] = z.U64(), z.U64()
	}
	type memo struct {
		h1, h2 uint64
		s      kstate
	}
	seen := map[memo]bool{}
	var path []*call
	nodes := 0
	var h1, h2 uint64
	var rec func(s kstate, first, left int) bool
	rec = func(s kstate, first, left int) bool {
		if left == 0 {
			return s == final
		}
		nodes++
		if nodes > budget {
			exhausted = true
			return false
		}
		k := memo{h1, h2, s}
		if seen[k] {
			return false
		}
		seen[k] = true
		for first < n && done[first] {
			first++
		}
		// calls are sorted by invocation: a call may go next iff no pending call
		// responded before it was invoked; scan while that can still hold
		minRet := int64(1) << 62
		for i := first; i < n; i++ {
			c := calls[i]
			if done[i] {
				continue
			}
			if c.inv > minRet {
				break
			}
			if c.ret < minRet {
				minRet = c.ret
			}
		}
		var cand []int
		for i := first; i < n; i++ {
			c := calls[i]
			if done[i] {
				continue
			}
			if c.inv > minRet {
				break
			}
			cand = append(cand, i)
		}
		sort.Slice(cand, func(a, b int) bool { return calls[cand[a]].ret < calls[cand[b]].ret })
		for _, i := range cand {
			c := calls[i]
			s2, out := apply(s, c)
			if out != c.out {
				continue
			}
			done[i] = true
			h1 ^= z1[i]
			h2 ^= z2[i]
			path = append(path, c)
			if rec(s2, first, left-1) {
				return true
			}
			path = path[:len(path)-1]
			h1 ^= z1[i]
			h2 ^= z2[i]
			done[i] = false
			if exhausted {
				return false
			}
		}
		return false
	}
	if rec(init, 0, n) {
		return append([]*call{}, path...), true, false
	}
	return nil, false, exhausted
}

// ---------------------------------------------------------------- a round

type roundCfg struct {
	backend string // mem | sql
	store   string // ord | uno
	g, m    int
	seed    uint64
	sched   string // "" (free-running goroutines) | commit-busy (a fixed interleaving, SQL only)
}

func (r roundCfg) String() string {
	if r.sched == "own-keys" || r.sched == "retry-merge" || r.sched == "first-appends" {
		return fmt.Sprintf("round backend=%s store=%s sched=%s g=%d m=%d", r.backend, r.store, r.sched, r.g, r.m)
	}
	if r.sched != "" {
		return fmt.Sprintf("round backend=%s store=%s sched=%s", r.backend, r.store, r.sched)
	}
	return fmt.Sprintf("round backend=%s store=%s g=%d m=%d seed=%d", r.backend, r.store, r.g, r.m, r.seed)
}

func parseRound(line string) (roundCfg, bool) {
	ws := strings.Fields(line)
	if len(ws) == 0 || ws[0] != "round" {
		return roundCfg{}, false
	}
	var r roundCfg
	for _, w := range ws[1:] {
		kv := strings.SplitN(w, "=", 2)
		if len(kv) != 2 {
			return r, false
		}
		switch kv[0] {
		case "backend":
			r.backend = kv[1]
		case "store":
			r.store = kv[1]
		case "g":
			r.g, _ = strconv.Atoi(kv[1])
		case "m":
			r.m, _ = strconv.Atoi(kv[1])
		case "seed":
			r.seed, _ = strconv.ParseUint(kv[1], 10, 64)
		case "sched":
			r.sched = kv[1]
		}
	}
	if r.sched == "own-keys" && (r.backend == "sql" || r.backend == "mem") && (r.store == "ord" || r.store == "uno") &&
		r.g >= 2 && r.g <= 32 && r.m >= 10 && r.m <= 60000 {
		return r, true
	}
	if r.sched == "write-during-mutate" && (r.backend == "sql" || r.backend == "mem") && (r.store == "ord" || r.store == "uno") {
		r.g, r.m = 5, 2
		return r, true
	}
	if (r.sched == "retry-merge" || r.sched == "first-appends") && (r.backend == "sql" || r.backend == "mem") &&
		(r.store == "ord" || r.store == "uno") && r.g >= 2 && r.g <= 32 && r.m >= 1 && r.m <= 100000 {
		return r, true
	}
	if r.sched == "commit-busy" && r.backend == "sql" && (r.store == "ord" || r.store == "uno") {
		r.g, r.m = 4, 2
		return r, true
	}
	ok := (r.backend == "mem" || r.backend == "sql") && (r.store == "ord" || r.store == "uno") &&
		r.g >= 1 && r.g <= 64 && r.m >= 1 && r.m <= 100000
	return r, ok
}

// keys and their roles
const (
	kCtr   = "ctr"   // Add "0" at set-up; Mutate-increment, Get
	kOnce  = "once"  // Add of distinct values, Get
	kFirst = "first" // Emplace of distinct values, Get
	kLog   = "log"   // AppendBytes of tagged chunks, Get
	kMix1  = "mix1"  // everything
	kMix2  = "mix2"
	// kBig is outside the linearization: Replace of long uniform values (one byte repeated) against
	// Gets, which must return a uniform value - a Get that copies while a writer rewrites in place is torn
	kBig = "big"
)

const bigLen = 4096

// uniform describes a value compactly: u<byte>x<len> when every byte is the same.
func uniform(bs []byte) string {
	for i := range bs {
		if bs[i] != bs[0] {
			return fmt.Sprintf("TORN(len=%d, byte %d is %q after %q)", len(bs), i, bs[i], bs[0])
		}
	}
	if len(bs) == 0 {
		return "TORN(empty)"
	}
	return fmt.Sprintf("u%cx%d", bs[0], len(bs))
}

var allKeys = []string{kCtr, kOnce, kFirst, kLog, kMix1, kMix2}

type ent struct {
	k, c string
	v    []byte
}

type result struct {
	cfg     roundCfg
	calls   []*call
	final   map[string]kstate // by user key
	dump    string            // canonical dump (mapped keys), as the driver prints it
	count   string
	walk    string
	hung    bool
	wedged  bool
	probe   string
	iso     string // value-isolation probe of the set-up phase ("" = held)
	elapsed time.Duration
}

func program(cfg roundCfg) [][]*call {
	r := hx.NewRand(cfg.seed)
	progs := make([][]*call, cfg.g)
	// each round stresses a few keys so that contention is real
	hot := []string{kCtr, kLog, kMix1}
	if r.Intn(2) == 0 {
		hot = append(hot, kOnce, kFirst)
	}
	if r.Intn(3) == 0 {
		hot = []string{kMix1, kMix2}
	}
	if r.Intn(4) == 0 {
		hot = []string{kCtr}
	}
	if r.Intn(5) == 0 {
		hot = allKeys
	}
	if r.Intn(4) == 0 {
		hot = []string{kBig}
	}
	for g := range progs {
		for i := 0; i < cfg.m; i++ {
			c := &call{g: g, seq: i, key: hx.Pick(r, hot)}
			tag := fmt.Sprintf("%d.%d", g, i)
			switch c.key {
			case kBig:
				c.name = hx.Pick(r, []string{"replace", "get", "get"})
				if g == 0 {
					c.name = "replace" // at least one writer
				}
				c.val = strings.Repeat(strconv.Itoa(1+(g+i)%9), bigLen)
			case kCtr:
				c.name = hx.Pick(r, []string{"mutate", "mutate", "mutate", "get"})
			case kOnce:
				c.name = hx.Pick(r, []string{"add", "add", "get"})
				c.val = strconv.Itoa(1000*g + i)
			case kFirst:
				c.name = hx.Pick(r, []string{"emplace", "emplace", "get"})
				c.val = strconv.Itoa(1000*g + i)
			case kLog:
				c.name = hx.Pick(r, []string{"appendBytes", "appendBytes", "appendBytes", "get"})
				c.val = tag + ";"
			default:
				c.name = hx.Pick(r, []string{"mutate", "mutate", "appendBytes", "add", "emplace", "replace", "remove", "get", "get"})
				switch c.name {
				case "appendBytes":
					c.val = strconv.Itoa(1 + r.Intn(9)) // keeps a counter a counter
				case "add", "emplace", "replace":
					c.val = strconv.Itoa(r.Intn(50))
				}
			}
			progs[g] = append(progs[g], c)
		}
	}
	return progs
}

type env struct {
	work string
	n    int
}

type store struct {
	kv      *pisces.KV
	dump    func() []ent
	cleanup func()
	wedged  bool
}

// open creates a fresh store.  The SQLite table is dumped through a second
// handle on the same file, so that only committed contents are seen.
func (e *env) open(cfg roundCfg) (*store, error) {
	ordered := cfg.store == "ord"
	st := &store{}
	if cfg.backend == "mem" {
		m, d := pisces.VerifNewMemKV(ordered)
		st.kv = m
		st.dump = func() []ent {
			var es []ent
			for _, x := range d() {
				es = append(es, ent{x.Key, x.Class, x.Value})
			}
			return es
		}
		st.cleanup = func() {}
		return st, nil
	}
	e.n++
	file := filepath.Join(e.work, fmt.Sprintf("c06-%d.db", e.n))
	db, err := sqlx.OpenSqlite3(file)
	if err != nil {
		return nil, err
	}
	if err := pisces.Sqlite3CreateKV(db, "kv"); err != nil {
		db.DB.Close()
		return nil, err
	}
	if ordered {
		st.kv = pisces.NewOrderedSqlite3KV(db, "kv")
	} else {
		st.kv = pisces.NewSqlite3KV(db, "kv")
	}
	read := func(tries int) ([]ent, bool) {
		rdb, err := sqlx.OpenSqlite3(file)
		if err != nil {
			return nil, false
		}
		defer rdb.DB.Close()
		for try := 0; try < tries; try++ {
			rows, err := rdb.DB.Query("select k, c, v from kv")
			if err != nil {
				time.Sleep(5 * time.Millisecond)
				continue
			}
			var es []ent
			for rows.Next() {
				var k, c string
				var v []byte
				rows.Scan(&k, &c, &v)
				es = append(es, ent{k, c, v})
			}
			if rows.Err() != nil {
				rows.Close()
				time.Sleep(5 * time.Millisecond)
				continue
			}
			rows.Close()
			return es, true
		}
		return nil, false
	}
	st.dump = func() []ent {
		if es, ok := read(300); ok {
			return es
		}
		// nobody is running, yet the file stays locked: a pooled connection of the
		// store was left inside a transaction.  Closing the store releases it; what
		// is committed is what counts.
		st.wedged = true
		hx.WithTimeout(5*time.Second, func() { db.DB.Close() })
		if es, ok := read(300); ok {
			return es
		}
		return []ent{{k: "dump-error"}}
	}
	st.cleanup = func() {
		hx.WithTimeout(5*time.Second, func() { db.DB.Close() }) // a leaked connection must not hold up the harness
		os.Remove(file)
		os.Remove(file + "-journal")
	}
	return st, nil
}

// observe fills in the quiescent observations of a finished run.
func (res *result) observe(st *store) {
	ordered := res.cfg.store == "ord"
	kv := st.kv
	n, err := kv.Count()
	if err != nil {
		res.count = classify("count", err)
	} else {
		res.count = "ok:" + strconv.FormatInt(n, 10)
	}
	var vs []string
	werr := kv.Walk(&pisces.Iter{
		Make: func() interface{} { return new(json.RawMessage) },
		Do: func(cls string, v interface{}) error {
			vs = append(vs, hx.Hex([]byte(cls))+"="+hx.Hex([]byte(*v.(*json.RawMessage))))
			return nil
		},
	})
	res.walk = classify("walk", werr) + ":[" + strings.Join(vs, ",") + "]"
	es := st.dump()
	res.wedged = st.wedged
	// with every goroutine back nothing contends: a write must go through
	res.probe = "never-returns"
	if !st.wedged {
		hx.WithTimeout(20*time.Second, func() {
			r := classify("add", kv.Add("probe-after-quiescence", json.RawMessage("1")))
			if r == "ok" {
				r = classify("remove", kv.Remove("probe-after-quiescence"))
			}
			res.probe = r
		})
	} else {
		res.probe = "skipped"
	}
	sort.Slice(es, func(i, j int) bool { return es[i].k < es[j].k })
	var xs []string
	byMapped := map[string]ent{}
	for _, x := range es {
		xs = append(xs, hx.Hex([]byte(x.k))+":"+hx.Hex([]byte(x.c))+":"+hx.Hex(x.v))
		byMapped[x.k] = x
	}
	res.dump = strings.Join(xs, ";")
	res.final = map[string]kstate{}
	for _, k := range allKeys {
		if x, ok := byMapped[mapped(ordered, k)]; ok {
			res.final[k] = kstate{true, x.c, string(x.v)}
			delete(byMapped, mapped(ordered, k))
		} else {
			res.final[k] = kstate{}
		}
	}
	for k := range byMapped {
		res.final["?"+k] = kstate{exists: true}
	}
}

// schedCommitBusy drives the SQL backend through the interleaving in which the
// lock model says a COMMIT is refused: A sits in its Mutate callback (holding
// SHARED), B's Mutate reaches COMMIT (needs EXCLUSIVE) and gets busy; then A is
// released.  Afterwards a third Mutate parks in its callback while the main
// goroutine Adds a key.  Every call is recorded as in a random round.
func (e *env) schedCommitBusy(cfg roundCfg, watchdog time.Duration) (*result, error) {
	st, err := e.open(cfg)
	if err != nil {
		return nil, err
	}
	defer st.cleanup()
	kv := st.kv
	if err := kv.Add(kCtr, json.RawMessage("0")); err != nil {
		return nil, fmt.Errorf("set-up Add: %v", err)
	}
	var clock int64
	res := &result{cfg: cfg, iso: isolationProbe(kv)}
	var mu sync.Mutex
	record := func(c *call) {
		mu.Lock()
		res.calls = append(res.calls, c)
		mu.Unlock()
	}
	// a Mutate-increment that parks in its callback until released
	parked := func(g int, key string, entered chan struct{}, release <-chan struct{}, done chan<- struct{}) {
		var once sync.Once
		signal := func() { once.Do(func() { close(entered) }) }
		c := &call{g: g, name: "mutate", key: key}
		c.inv = atomic.AddInt64(&clock, 1)
		saw := "none"
		raw := new(json.RawMessage)
		err := kv.Mutate(key, raw, func(v interface{}) error {
			p := v.(*json.RawMessage)
			saw = hx.Hex([]byte(*p))
			signal()
			<-release
			*p = incDigits(*p)
			return nil
		})
		r := classify("mutate", err)
		if r == "ok" {
			r += ":saw=" + saw
		}
		c.out = r
		c.ret = atomic.AddInt64(&clock, 1)
		record(c)
		signal() // in case the callback never ran
		close(done)
	}
	plain := func(g int, c *call) {
		c.g = g
		c.inv = atomic.AddInt64(&clock, 1)
		c.out = exec(kv, c)
		c.ret = atomic.AddInt64(&clock, 1)
		record(c)
	}
	finished := hx.WithTimeout(watchdog, func() {
		if cfg.sched == "write-during-mutate" {
			// a Replace (then an AppendBytes) issued while a Mutate of the same key sits in its callback: it must
			// either wait / be refused, or take effect before or after the whole Mutate - never be lost under it
			plain(3, &call{name: "add", key: kMix1, val: "0"})
			for round, w := range []*call{{name: "replace", key: kMix1, val: "100"}, {name: "appendBytes", key: kMix1, val: "7"}} {
				enter, rel, done := make(chan struct{}), make(chan struct{}), make(chan struct{})
				go parked(round, kMix1, enter, rel, done)
				<-enter
				wdone := make(chan struct{})
				go func(w *call) { plain(4, w); close(wdone) }(w)
				select {
				case <-wdone: // refused, or applied while the Mutate is parked
				case <-time.After(150 * time.Millisecond): // blocked behind the Mutate (memory): it runs after it
				}
				close(rel)
				<-done
				<-wdone
				plain(3, &call{name: "get", key: kMix1})
			}
			return
		}
		enterA, relA, doneA := make(chan struct{}), make(chan struct{}), make(chan struct{})
		go parked(0, kCtr, enterA, relA, doneA)
		<-enterA
		plain(1, &call{name: "mutate", key: kCtr}) // B: refused at COMMIT (or earlier)
		close(relA)
		<-doneA
		enterX, relX, doneX := make(chan struct{}), make(chan struct{}), make(chan struct{})
		go parked(2, kCtr, enterX, relX, doneX)
		<-enterX
		plain(3, &call{name: "add", key: kOnce, val: "7"})
		plain(3, &call{name: "get", key: kOnce})
		close(relX)
		<-doneX
		plain(3, &call{name: "mutate", key: kCtr})
		plain(3, &call{name: "appendBytes", key: kLog, val: "3.0;"})
	})
	if !finished {
		res.hung = true
		return res, nil
	}
	if !hx.WithTimeout(watchdog, func() { res.observe(st) }) {
		res.hung = true // a quiescent Count/Walk/dump that does not return
	}
	return res, nil
}

// runRound executes one round; nil when the store could not be set up.
func (e *env) runRound(cfg roundCfg, watchdog time.Duration) (*result, error) {
	if cfg.sched == "commit-busy" || cfg.sched == "write-during-mutate" {
		return e.schedCommitBusy(cfg, watchdog)
	}
	st, err := e.open(cfg)
	if err != nil {
		return nil, err
	}
	defer st.cleanup()
	kv := st.kv

	// set-up (sequential): the counter exists
	if err := kv.Add(kCtr, json.RawMessage("0")); err != nil {
		return nil, fmt.Errorf("set-up Add: %v", err)
	}
	iso := isolationProbe(kv)
	progs := program(cfg)
	var clock int64
	var wg sync.WaitGroup
	start := make(chan struct{})
	for g := range progs {
		wg.Add(1)
		go func(p []*call) {
			defer wg.Done()
			<-start
			for _, c := range p {
				c.inv = atomic.AddInt64(&clock, 1)
				c.out = exec(kv, c)
				c.ret = atomic.AddInt64(&clock, 1)
			}
		}(progs[g])
	}
	t0 := time.Now()
	close(start)
	res := &result{cfg: cfg, iso: iso}
	if !hx.WithTimeout(watchdog, wg.Wait) {
		res.hung = true
		return res, nil
	}
	res.elapsed = time.Since(t0)
	for _, p := range progs {
		res.calls = append(res.calls, p...)
	}
	kv.Remove(kBig) // not part of the linearization nor of the dump
	if !hx.WithTimeout(watchdog, func() { res.observe(st) }) {
		res.hung = true // a quiescent Count/Walk/dump that does not return
	}
	return res, nil
}

// ---------------------------------------------------------------- judging a round

type verdict struct {
	key, desc string
	lines     []string // op lines for the driver: the linearization found
	expect    []string
	incon     int
}

func (res *result) judge(rep *hx.Report) (fails [][2]string, v verdict) {
	who := res.cfg.backend
	fail := func(key, format string, a ...interface{}) {
		fails = append(fails, [2]string{who + ":" + key, fmt.Sprintf(format, a...)})
	}
	byKey := map[string][]*call{}
	busy := 0
	for _, c := range res.calls {
		rep.Count("call:" + c.name)
		r := c.out
		if i := strings.Index(r, ":"); i >= 0 && !strings.HasPrefix(r, "err:") {
			r = r[:i]
		}
		rep.Count("result:" + who + ":" + r)
		if c.out == "busy" {
			busy++
			if who == "mem" {
				fail("unexpected-error", "memory backend returned busy for %s", c.line(res.cfg.store))
			}
			continue // an error result: must have left no trace, which the checks below establish
		}
		if strings.HasPrefix(c.out, "err:") || c.out == "bad-op" {
			fail("unexpected-error", "%s returned %s", c.line(res.cfg.store), c.out)
			continue
		}
		if c.key == kBig {
			rep.Count("big-key-calls:" + who)
			if c.name == "get" && c.out != "notFound" && !strings.HasPrefix(c.out, "ok:u") {
				fail("torn-read", "Get of a key that only ever held %d-byte values of one repeated byte returned %s: "+
					"the value was copied while a writer rewrote it", bigLen, c.out)
			}
			continue
		}
		byKey[c.key] = append(byKey[c.key], c)
	}
	if res.wedged {
		fail("store-wedged", "with every goroutine back, the database file stayed locked until the store was closed "+
			"(a pooled connection was left inside a transaction); Count then answered %s", res.count)
	}
	if strings.HasPrefix(res.iso, "EMPTY:") {
		fail("empty-append-not-created", "%s", strings.TrimPrefix(res.iso, "EMPTY: "))
	} else if res.iso != "" {
		fail("caller-slice-aliased", "value isolation: the caller overwrote (over its full capacity) a slice it had passed to or got "+
			"from the store and the stored value moved - %s", res.iso)
	}
	if res.probe != "ok" && res.probe != "skipped" {
		fail("busy-at-quiescence", "with every goroutine back and nobody using the store, Add of a fresh key answered %s: "+
			"an earlier call left a transaction or a lock behind", res.probe)
	}
	for k := range res.final {
		if strings.HasPrefix(k, "?") {
			fail("stray-entry", "the store holds an entry nobody wrote: %s", k)
		}
	}

	// --- direct accounting oracles
	// counter: successful increments = final value
	incs := 0
	for _, c := range byKey[kCtr] {
		if c.name == "mutate" && strings.HasPrefix(c.out, "ok") {
			incs++
		}
	}
	if f := res.final[kCtr]; !f.exists || f.val != strconv.Itoa(incs) {
		fail("lost-increment", "%d Mutate-increments reported success but the counter holds %q (exists=%v)", incs, f.val, f.exists)
	}
	rep.Count("increments-ok:" + who + ":" + bucket(incs))
	// once: at most one Add succeeds, and the key holds its value
	var won []*call
	for _, c := range byKey[kOnce] {
		if c.name == "add" && c.out == "ok" {
			won = append(won, c)
		}
	}
	f := res.final[kOnce]
	switch {
	case len(won) > 1:
		fail("add-twice", "%d concurrent Adds of one key reported success (%s, %s)", len(won), won[0].val, won[1].val)
	case len(won) == 1 && (!f.exists || f.val != won[0].val):
		fail("add-value", "Add of %s succeeded but the key holds %q (exists=%v)", won[0].val, f.val, f.exists)
	case len(won) == 0 && f.exists:
		fail("add-unreported", "no Add reported success but the key holds %q", f.val)
	}
	// first: Emplace keeps the first value: every Get and the final dump see one value, that of a successful Emplace
	seen := map[string]bool{}
	vals := map[string]bool{}
	for _, c := range byKey[kFirst] {
		if c.name == "get" && strings.HasPrefix(c.out, "ok:") {
			seen[c.out[3:]] = true
		}
		if c.name == "emplace" && c.out == "ok" {
			vals[c.val] = true
		}
	}
	ff := res.final[kFirst]
	if ff.exists {
		seen[hx.Hex([]byte(ff.val))] = true
		if !vals[ff.val] {
			fail("emplace-phantom", "the key holds %q, which no successful Emplace wrote", ff.val)
		}
	} else if len(vals) > 0 {
		fail("emplace-lost", "%d Emplaces reported success but the key is missing", len(vals))
	}
	if len(seen) > 1 {
		fail("emplace-overwrote", "Emplace overwrote: %d different values were observed under one key", len(seen))
	}
	// log: exactly the successful chunks, each once, per-goroutine order kept
	okChunks := map[string]bool{}
	for _, c := range byKey[kLog] {
		if c.name == "appendBytes" && c.out == "ok" {
			okChunks[c.val] = true
		}
	}
	lf := res.final[kLog]
	if len(okChunks) > 0 || lf.exists {
		last := map[int]int{}
		got := map[string]int{}
		bad := ""
		for _, ch := range strings.SplitAfter(lf.val, ";") {
			if ch == "" {
				continue
			}
			got[ch]++
			var g, i int
			if n, _ := fmt.Sscanf(ch, "%d.%d;", &g, &i); n != 2 {
				bad = "malformed chunk " + strconv.Quote(ch)
				break
			}
			if p, ok := last[g]; ok && p >= i {
				bad = fmt.Sprintf("goroutine %d's chunks out of program order (%d after %d)", g, i, p)
			}
			last[g] = i
			if !okChunks[ch] {
				bad = "chunk " + ch + " is present but its AppendBytes reported an error (or was never issued)"
			}
			if got[ch] > 1 {
				bad = "chunk " + ch + " appears twice"
			}
		}
		for ch := range okChunks {
			if got[ch] == 0 && bad == "" {
				bad = "chunk " + ch + " was appended successfully but is missing"
			}
		}
		if bad != "" {
			fail("append-lost-or-torn", "log key: %s (value %d bytes, %d successful appends)", bad, len(lf.val), len(okChunks))
		}
	}

	// --- linearizability per key, and the witness for the driver
	store := res.cfg.store
	keys := append([]string{}, allKeys...)
	for _, k := range keys {
		calls := byKey[k]
		init := kstate{}
		if k == kCtr {
			init = kstate{true, "", "0"}
			v.lines = append(v.lines, (&call{name: "add", key: kCtr, val: "0"}).line(store))
			v.expect = append(v.expect, "ok")
		}
		if len(calls) == 0 {
			if res.final[k] != init {
				fail("untouched-key-changed", "key %s was not written but holds %+v", k, res.final[k])
			}
			continue
		}
		order, ok, exhausted := linearize(calls, init, res.final[k], 400_000)
		rep.Count("lin-keys:" + who)
		switch {
		case ok:
			for _, c := range order {
				v.lines = append(v.lines, c.line(store))
				v.expect = append(v.expect, c.out)
			}
		case exhausted:
			v.incon++
			rep.Count("lin-inconclusive:" + who)
		default:
			fail("not-linearizable:"+role(k), "the %d calls on key %s (busy results dropped) and the final contents %+v have no sequential "+
				"order consistent with their invocation/response times and results", len(calls), k, res.final[k])
		}
	}
	return fails, v
}

func role(k string) string {
	if strings.HasPrefix(k, "mix") {
		return "mix"
	}
	return k
}

func bucket(n int) string {
	switch {
	case n == 0:
		return "0"
	case n < 10:
		return "1-9"
	case n < 100:
		return "10-99"
	case n < 1000:
		return "100-999"
	}
	return "1000+"
}

// ---------------------------------------------------------------- main

func main() {
	log.SetOutput(io.Discard)
	f := hx.ParseFlags()
	rp := hx.NewReport("C06", f)
	rp.Rule = "one case = one concurrent round (G goroutines x M calls on one store); distinct = distinct round description; " +
		"non-trivial = a round in which at least two goroutines' calls overlapped in time on one key"
	j := hx.NewJournal(f.Work)
	dir := f.Work
	if dir == "" {
		d, err := os.MkdirTemp("", "c06")
		if err != nil {
			fmt.Println(err)
			os.Exit(3)
		}
		defer os.RemoveAll(d)
		dir = d
	}
	e := &env{work: dir}

	var rounds []roundCfg
	reps := 1
	if f.Replay != "" {
		ops, err := hx.ReadReplayOps(f.Replay)
		if err != nil {
			fmt.Println("replay:", err)
			os.Exit(3)
		}
		for _, l := range ops {
			if r, ok := parseRound(l); ok {
				rounds = append(rounds, r)
			}
		}
		reps = 10
	} else {
		for _, ops := range hx.CorpusOps("C06") {
			for _, l := range ops {
				if r, ok := parseRound(l); ok {
					rounds = append(rounds, r)
					rp.Count("corpus-rounds")
				}
			}
		}
		r := hx.NewRand(f.Seed)
		nMem, nSQL := 40, 14
		if f.Thorough() {
			nMem, nSQL = 600, 160
		}
		gs := []int{2, 3, 4, 8, 16}
		// the interleaving the SQLite lock model singles out (a COMMIT refused while a reader is parked)
		rounds = append(rounds, roundCfg{backend: "sql", store: "ord", g: 4, m: 2, sched: "commit-busy"},
			roundCfg{backend: "sql", store: "uno", g: 4, m: 2, sched: "commit-busy"})
		// own keys, values of different lengths: nothing under KV.Mutate may leak between calls
		ownMs := 1500
		if f.Thorough() {
			ownMs = 6000
		}
		nFresh := 400
		if f.Thorough() {
			nFresh = 2500
		}
		rounds = append(rounds,
			roundCfg{backend: "sql", store: "ord", g: 5, m: 2, sched: "write-during-mutate"},
			roundCfg{backend: "mem", store: "uno", g: 5, m: 2, sched: "write-during-mutate"},
			roundCfg{backend: "sql", store: "ord", g: 2, m: 8, sched: "retry-merge"},
			roundCfg{backend: "sql", store: "uno", g: 3, m: nFresh, sched: "first-appends"},
			roundCfg{backend: "sql", store: "ord", g: 2, m: nFresh, sched: "first-appends"},
			roundCfg{backend: "sql", store: "ord", g: 4, m: nFresh, sched: "first-appends"},
			roundCfg{backend: "sql", store: "uno", g: 2, m: nFresh, sched: "first-appends", seed: 1},
			roundCfg{backend: "sql", store: "uno", g: 6, m: nFresh, sched: "first-appends"},
			roundCfg{backend: "sql", store: "ord", g: 3, m: nFresh, sched: "first-appends", seed: 2},
			roundCfg{backend: "mem", store: "ord", g: 8, m: nFresh * 4, sched: "first-appends"})
		rounds = append(rounds, roundCfg{backend: "mem", store: "ord", g: 8, m: ownMs, sched: "own-keys"},
			roundCfg{backend: "sql", store: "uno", g: 8, m: ownMs * 2, sched: "own-keys"})
		for i := 0; i < nMem; i++ {
			g := hx.Pick(r, gs)
			m := 100 + r.Intn(400)
			if g*m > 3000 {
				m = 3000 / g
			}
			rounds = append(rounds, roundCfg{"mem", hx.Pick(r, []string{"ord", "uno"}), g, m, r.U64() % 1000000, ""})
		}
		for i := 0; i < nSQL; i++ {
			g := hx.Pick(r, gs)
			m := 40 + r.Intn(100)
			if g*m > 900 {
				m = 900 / g
			}
			rounds = append(rounds, roundCfg{"sql", hx.Pick(r, []string{"ord", "uno"}), g, m, r.U64() % 1000000, ""})
		}
	}

	type pending struct {
		cfg   roundCfg
		v     verdict
		dump  string
		count string
		walk  string
	}
	var toDriver []pending
	var slowest time.Duration
	for _, cfg := range rounds {
		for rep := 0; rep < reps; rep++ {
			j.Risky(cfg.String())
			if cfg.sched == "own-keys" || cfg.sched == "retry-merge" || cfg.sched == "first-appends" {
				wd := 40 * time.Second
				run, key := e.runOwnKeys, "mutate-stored-foreign-bytes"
				switch cfg.sched {
				case "own-keys":
					wd += time.Duration(cfg.m) * time.Millisecond
				case "retry-merge":
					run, key = e.runRetryMerge, "mutate-not-serial"
				case "first-appends":
					run, key = e.runFirstAppends, "first-append-lost"
				}
				fails, hung, err := run(cfg, wd, rp)
				if hung {
					_, hung, err = run(cfg, wd, rp)
					if hung {
						rp.Fail(cfg.backend+":op-never-returns", "a fixed workload did not finish within its time plus 40 s, twice: "+cfg.String(), []string{cfg.String()})
					}
				}
				if err != nil {
					rp.Note("round %s could not be set up: %v", cfg, err)
				}
				rp.Case(cfg.String(), true)
				rp.Count("rounds:" + cfg.sched + ":" + cfg.backend)
				for _, fl := range fails {
					rp.Fail(cfg.backend+":"+key, fl+" ["+cfg.String()+"]", []string{cfg.String()})
				}
				continue
			}
			// a round is a few hundred milliseconds of work; the watchdog only catches a call that does not return
			res, err := e.runRound(cfg, 40*time.Second)
			if err != nil {
				rp.Note("round %s could not be set up: %v", cfg, err)
				continue
			}
			if res.hung {
				// re-run alone before calling it a hang
				r2, err := e.runRound(cfg, 40*time.Second)
				if err == nil && r2.hung {
					rp.Fail(cfg.backend+":op-never-returns", "a round (well under a second of work) did not finish within 40 s, twice in a row: "+
						"some call on the store does not return: "+cfg.String(), []string{cfg.String()})
				} else {
					rp.Note("round %s exceeded the watchdog once and finished when re-run; not reported", cfg)
				}
				continue
			}
			if res.elapsed > slowest {
				slowest = res.elapsed
			}
			overlap := false
			lastRet := map[string]int64{}
			sort.Slice(res.calls, func(a, b int) bool { return res.calls[a].inv < res.calls[b].inv })
			for _, c := range res.calls {
				if c.inv < lastRet[c.key] {
					overlap = true
				}
				if c.ret > lastRet[c.key] {
					lastRet[c.key] = c.ret
				}
			}
			rp.Case(cfg.String(), overlap)
			rp.Count("rounds:" + cfg.backend + ":" + cfg.store)
			rp.Count(fmt.Sprintf("goroutines:%d", cfg.g))
			fails, v := res.judge(rp)
			for _, fl := range fails {
				rp.Fail(fl[0], fl[1]+" ["+cfg.String()+"]", []string{cfg.String()})
			}
			if v.incon > 0 {
				rp.Note("linearization search exceeded its budget on %d key(s) of %s; accounting oracles still applied", v.incon, cfg)
			}
			if len(fails) == 0 && v.incon == 0 {
				toDriver = append(toDriver, pending{cfg, v, res.dump, res.count, res.walk})
			}
			if len(rp.Samples) < 6 {
				rp.Sample(map[string]interface{}{"round": cfg.String(), "calls": len(res.calls), "overlap": overlap,
					"elapsed_ms": res.elapsed.Milliseconds(), "final_counter": res.final[kCtr].val, "count": res.count})
			}
		}
	}
	j.Clear()
	rp.Note("slowest round: %d ms (watchdog 40000 ms)", slowest.Milliseconds())

	// the Lean reference map replays every linearization
	var lines, expect []string
	lines = append(lines, "meta")
	expect = append(expect, "")
	for _, p := range toDriver {
		lines = append(lines, "reset")
		expect = append(expect, "reset")
		lines = append(lines, p.v.lines...)
		expect = append(expect, p.v.expect...)
		lines = append(lines, p.cfg.store+" dump", p.cfg.store+" count", p.cfg.store+" walk stop=-")
		expect = append(expect, "D"+p.dump, p.count, p.walk)
	}
	model, err := hx.RunDriver(f.Driver, nil, lines)
	if err != nil {
		rp.Note("driver failed: %v", err)
		rp.ModelAvailable = false
	} else if model != nil {
		rp.Note("model facts: %s", model[0])
		if !strings.Contains(model[0], "exclusiveRMW=true") {
			rp.Note("the regenerated lock table does not satisfy ExclusiveRMW: mem_linearizable no longer applies to the code as extracted")
		}
		for i := 1; i < len(lines); i++ {
			m := strings.TrimPrefix(model[i], "spec=")
			want := expect[i]
			if strings.HasPrefix(want, "D") && strings.HasSuffix(lines[i], " dump") {
				want = want[1:]
			} else if k := strings.LastIndex(m, "#"); k >= 0 {
				m = m[:k]
			}
			if lines[i] == "reset" {
				continue
			}
			// Get in this harness prints no JSON flag
			if strings.Contains(lines[i], " get ") {
				if k := strings.LastIndex(m, ":j="); k >= 0 {
					m = m[:k]
				}
			}
			if m != want {
				rp.Disagree("spec-replay-of-linearization", lines[i], want, m)
			}
			rp.TracesValidated++
		}
	}
	rp.Write(f.Out)
}
