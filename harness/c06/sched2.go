package main

// Two more fixed workloads outside the per-key linearization of the random rounds.
//
// retry-merge (SQLite): two Mutates of one JSON object whose callbacks park, released so that the
// first is refused (its COMMIT meets the second's SHARED lock) and the second then commits.  Whatever
// the backend does about the refusal (report busy, or try again), the object must end as the sequential
// composition of the Mutates that reported success: "a" incremented once per successful increment,
// "b" present iff the delete did not succeed.  A retry that decodes into the caller's stale value
// merges the deleted field back.
//
// first-appends: G goroutines append their own chunk to a key nobody has created, all at once.
// AppendBytes upserts, so every chunk whose call succeeded is in the value exactly once.

import (
	"encoding/json"
	"fmt"
	"reflect"
	"runtime"
	"strings"
	"sync"
	"sync/atomic"
	"time"

	"verif/harness/hx"
)

var spinSink int64 // written by the delay loops, never read

type objT struct {
	A int `json:"a"`
	B int `json:"b,omitempty"`
}

func (e *env) runRetryMerge(cfg roundCfg, watchdog time.Duration, rep *hx.Report) (fails []string, hung bool, err error) {
	st, err := e.open(cfg)
	if err != nil {
		return nil, false, err
	}
	defer st.cleanup()
	kv := st.kv
	finished := hx.WithTimeout(watchdog, func() {
		for i := 0; i < cfg.m && len(fails) == 0; i++ {
			key := fmt.Sprintf("obj%d", i)
			useStruct := i%2 == 1
			if err := kv.Add(key, json.RawMessage(`{"a":1,"b":2}`)); err != nil {
				fails = append(fails, "set-up Add: "+classify("add", err))
				return
			}
			mutate := func(inc bool, entered chan struct{}, release chan struct{}) string {
				var once sync.Once
				signal := func() { once.Do(func() { close(entered) }) }
				defer signal()
				calls := 0
				park := func() {
					calls++
					if calls == 1 {
						signal()
						<-release
					}
				}
				if useStruct {
					v := new(objT)
					return classify("mutate", kv.Mutate(key, v, func(x interface{}) error {
						park()
						o := x.(*objT)
						if inc {
							o.A++
						} else {
							o.B = 0
						}
						return nil
					}))
				}
				v := map[string]int{}
				return classify("mutate", kv.Mutate(key, &v, func(x interface{}) error {
					park()
					m := *x.(*map[string]int)
					if inc {
						m["a"]++
					} else {
						delete(m, "b")
					}
					return nil
				}))
			}
			e1, r1 := make(chan struct{}), make(chan struct{})
			e2, r2 := make(chan struct{}), make(chan struct{})
			d1, d2 := make(chan string, 1), make(chan string, 1)
			go func() { d1 <- mutate(true, e1, r1) }()
			<-e1
			go func() { d2 <- mutate(false, e2, r2) }()
			<-e2
			close(r1) // the increment goes on: UPDATE, then COMMIT against the other's SHARED lock
			var out1, out2 string
			got1 := false
			select {
			case out1 = <-d1:
				got1 = true
			case <-time.After(3 * time.Millisecond):
			}
			close(r2) // the delete goes on
			out2 = <-d2
			if !got1 {
				out1 = <-d1
			}
			rep.Count("retry-merge:" + cfg.backend + ":inc=" + out1 + ",del=" + out2)
			var bs []byte
			var gerr error
			for try := 0; try < 200; try++ {
				bs, gerr = kv.GetBytes(key)
				if gerr == nil || classify("get", gerr) != "busy" {
					break
				}
				time.Sleep(2 * time.Millisecond)
			}
			got := map[string]int{}
			if gerr != nil || json.Unmarshal(bs, &got) != nil {
				fails = append(fails, fmt.Sprintf("key %s: cannot read the object back (%v, %q)", key, gerr, bs))
				return
			}
			want := map[string]int{"a": 1, "b": 2}
			if out1 == "ok" {
				want["a"] = 2
			}
			if out2 == "ok" {
				delete(want, "b")
			}
			for _, o := range []string{out1, out2} {
				if o != "ok" && o != "busy" {
					fails = append(fails, fmt.Sprintf("key %s: Mutate answered %s", key, o))
				}
			}
			if !reflect.DeepEqual(got, want) {
				kind := "map"
				if useStruct {
					kind = "struct with an omitempty field"
				}
				fails = append(fails, fmt.Sprintf("key %s held {\"a\":1,\"b\":2}; Mutate(increment a) answered %s and Mutate(delete b) answered %s "+
					"(value decoded into a %s; both callbacks parked, the increment released first); the sequential composition of the "+
					"successful ones is %v, the key holds %s", key, out1, out2, kind, want, bs))
			}
		}
	})
	return fails, !finished, nil
}

func (e *env) runFirstAppends(cfg roundCfg, watchdog time.Duration, rep *hx.Report) (fails []string, hung bool, err error) {
	st, err := e.open(cfg)
	if err != nil {
		return nil, false, err
	}
	defer st.cleanup()
	kv := st.kv
	jitter := hx.NewRand(cfg.seed + uint64(cfg.g)*977 + uint64(cfg.m))
	finished := hx.WithTimeout(watchdog, func() {
		// the number of keys is a ceiling, the time is the budget: on a loaded machine the round stops
		// early instead of running into the watchdog, which is there for a call that does not return
		start := time.Now()
		for i := 0; i < cfg.m && len(fails) == 0 && time.Since(start) < watchdog/3; i++ {
			key := fmt.Sprintf("fresh%d", i)
			res := make([]string, cfg.g)
			// a spinning barrier releases the goroutines within nanoseconds of each other; a small
			// per-goroutine delay, different for every key, slides their calls across one another
			var ready, goFlag int32
			var wg sync.WaitGroup
			for g := 0; g < cfg.g; g++ {
				wg.Add(1)
				delay := int(jitter.U64() % 4000)
				if g == 0 || i%3 == 0 {
					delay = 0
				}
				go func(g, delay int) {
					defer wg.Done()
					b := caller(fmt.Sprintf("[%d]", g))
					atomic.AddInt32(&ready, 1)
					for atomic.LoadInt32(&goFlag) == 0 {
						runtime.Gosched()
					}
					for k := 0; k < delay; k++ {
						spinSink++
					}
					res[g] = classify("appendBytes", kv.AppendBytes(key, b))
					scribble(b)
				}(g, delay)
			}
			for atomic.LoadInt32(&ready) < int32(cfg.g) {
				runtime.Gosched()
			}
			atomic.StoreInt32(&goFlag, 1)
			wg.Wait()
			rep.Count("first-append-keys:" + cfg.backend)
			final := ""
			for try := 0; try < 200; try++ {
				bs, err := kv.GetBytes(key)
				if err == nil {
					final = string(bs)
					break
				}
				if classify("get", err) != "busy" {
					break
				}
				time.Sleep(2 * time.Millisecond)
			}
			want := 0
			for g, r := range res {
				chunk := fmt.Sprintf("[%d]", g)
				n := strings.Count(final, chunk)
				switch {
				case r == "ok" && n != 1:
					fails = append(fails, fmt.Sprintf("key %s did not exist; %d goroutines appended to it at once; the AppendBytes of chunk %s "+
						"reported success but the value %q holds it %d times", key, cfg.g, chunk, final, n))
				case r == "busy" && n != 0:
					fails = append(fails, fmt.Sprintf("key %s: the AppendBytes of chunk %s reported busy but the value %q holds it", key, chunk, final))
				case r != "ok" && r != "busy":
					fails = append(fails, fmt.Sprintf("key %s: AppendBytes answered %s", key, r))
				}
				if r == "ok" {
					want += len(chunk)
				}
			}
			if len(fails) == 0 && len(final) != want {
				fails = append(fails, fmt.Sprintf("key %s: successful first appends add up to %d bytes, the value %q has %d", key, want, final, len(final)))
			}
		}
	})
	return fails, !finished, nil
}
