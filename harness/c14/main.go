// Harness for C14: SNI sniffing is exact and consumes nothing.  The real
// TLSHelloConn reads from a scripted connection that delivers the byte stream
// in chosen segments; the same segments and read sizes run on the Lean model of
// the buffered peek; ClientHellos come from crypto/tls clients over random
// configurations and from real hellos padded to chosen sizes.
package main

import (
	"bytes"
	"crypto/tls"
	"fmt"
	"io"
	"log"
	"net"
	"runtime"
	"strconv"
	"strings"
	"sync"
	"time"

	"shanhu.io/g/sniproxy"
	"verif/harness/hx"
	"verif/harness/snix"
)

// segConn delivers scripted segments: each Read returns bytes of one segment only.
type segConn struct {
	segs     [][]byte
	consumed int
	readDL   time.Time // the read deadline the code under test last set (zero = none)
	net.Conn
}

func (c *segConn) Read(p []byte) (int, error) {
	for len(c.segs) > 0 && len(c.segs[0]) == 0 {
		c.segs = c.segs[1:]
	}
	if len(c.segs) == 0 {
		return 0, io.EOF
	}
	n := copy(p, c.segs[0])
	c.segs[0] = c.segs[0][n:]
	c.consumed += n
	return n, nil
}
func (c *segConn) Close() error                      { return nil }
func (c *segConn) SetDeadline(t time.Time) error     { c.readDL = t; return nil }
func (c *segConn) SetReadDeadline(t time.Time) error { c.readDL = t; return nil }
func (c *segConn) SetWriteDeadline(time.Time) error  { return nil }
func (c *segConn) Write(p []byte) (int, error)       { return len(p), nil }

// realHello captures the ClientHello of a crypto/tls client.
func realHello(cfg *tls.Config) []byte {
	c1, c2 := net.Pipe()
	done := make(chan []byte, 1)
	go func() {
		var acc []byte
		buf := make([]byte, 1<<16)
		c2.SetReadDeadline(time.Now().Add(5 * time.Second))
		for {
			n, err := c2.Read(buf)
			acc = append(acc, buf[:n]...)
			if len(acc) >= 5 && len(acc) >= 5+(int(acc[3])<<8|int(acc[4])) {
				break
			}
			if err != nil {
				break
			}
		}
		done <- acc
		c2.Close()
	}()
	cl := tls.Client(c1, cfg)
	cl.SetDeadline(time.Now().Add(5 * time.Second))
	cl.Handshake()
	c1.Close()
	return <-done
}

// padHello appends a padding extension (type 21) so that the record body has exactly `body` bytes.
func padHello(h []byte, body int) ([]byte, bool) {
	if len(h) < 5+4+2+32+1 {
		return nil, false
	}
	cur := len(h) - 5
	if body < cur+4 {
		return nil, false
	}
	o := 5 + 4 + 2 + 32
	o += 1 + int(h[o])                    // session id
	o += 2 + (int(h[o])<<8 | int(h[o+1])) // cipher suites
	o += 1 + int(h[o])                    // compression
	if o+2 > len(h) {
		return nil, false
	}
	extLen := int(h[o])<<8 | int(h[o+1])
	if o+2+extLen != len(h) {
		return nil, false
	}
	// drop an existing padding extension? crypto/tls does not send one; a duplicate would reject the hello
	pad := body - cur - 4
	out := append([]byte{}, h...)
	out = append(out, 0, 21, byte(pad>>8), byte(pad))
	out = append(out, make([]byte, pad)...)
	newExt := extLen + 4 + pad
	out[o], out[o+1] = byte(newExt>>8), byte(newExt)
	hs := body - 4
	out[6], out[7], out[8] = byte(hs>>16), byte(hs>>8), byte(hs)
	out[3], out[4] = byte(body>>8), byte(body)
	return out, true
}

// unknownKeyShares rewrites the group of every key_share entry (extension 51) to a value no TLS
// stack knows, or empties the list: a TLS 1.3 server then answers with a HelloRetryRequest. The
// hello stays well-formed; its server name and ALPN list are unchanged.
func unknownKeyShares(h []byte, empty bool) ([]byte, bool) {
	if len(h) < 5+4+2+32+1 {
		return nil, false
	}
	o := 5 + 4 + 2 + 32
	o += 1 + int(h[o])
	o += 2 + (int(h[o])<<8 | int(h[o+1]))
	o += 1 + int(h[o])
	if o+2 > len(h) {
		return nil, false
	}
	extStart := o
	end := o + 2 + (int(h[o])<<8 | int(h[o+1]))
	if end != len(h) {
		return nil, false
	}
	o += 2
	for o+4 <= end {
		t := int(h[o])<<8 | int(h[o+1])
		l := int(h[o+2])<<8 | int(h[o+3])
		if t == 51 {
			if !empty {
				out := append([]byte{}, h...)
				p := o + 4 + 2
				for p+4 <= o+4+l {
					out[p], out[p+1] = 0x4a, 0x4a
					p += 4 + (int(out[p+2])<<8 | int(out[p+3]))
				}
				return out, true
			}
			// empty client_shares list: extension data becomes 00 00
			out := append([]byte{}, h[:o+2]...)
			out = append(out, 0, 2, 0, 0)
			out = append(out, h[o+4+l:]...)
			d := l - 2
			body := len(out) - 5
			ne := (int(h[extStart])<<8 | int(h[extStart+1])) - d
			out[extStart], out[extStart+1] = byte(ne>>8), byte(ne)
			hs := body - 4
			out[6], out[7], out[8] = byte(hs>>16), byte(hs>>8), byte(hs)
			out[3], out[4] = byte(body>>8), byte(body)
			return out, true
		}
		o += 4 + l
	}
	return nil, false
}

func randName(r *hx.Rand) string {
	labels := 1 + r.Intn(4)
	var parts []string
	for i := 0; i < labels; i++ {
		n := 1 + r.Intn(20)
		if r.Intn(10) == 0 {
			n = 63
		}
		b := make([]byte, n)
		for j := range b {
			b[j] = "abcdefghijklmnopqrstuvwxyz0123456789"[r.Intn(36)]
		}
		parts = append(parts, string(b))
	}
	return strings.Join(parts, ".")
}

var sniffOps, sniffImpl []string
var sniffWF []bool

type hcase struct {
	stream []byte // everything the client sends (hello + payload)
	name   string
	protos []string
	wf     bool // a well-formed hello in one record <= 16384: exactness is required
	kind   string
}

func genCase(r *hx.Rand, big bool) hcase {
	switch k := r.Intn(10); {
	case k < 6: // real client hello, possibly padded
		cfg := &tls.Config{InsecureSkipVerify: true, ServerName: randName(r)}
		if r.Intn(6) == 0 {
			cfg.ServerName = "" // no server name at all (with or without ALPN)
		}
		np := 0
		switch r.Intn(4) {
		case 1:
			np = 1 + r.Intn(3)
		case 2:
			np = 1 + r.Intn(40)
		}
		for i := 0; i < np; i++ {
			l := 1 + r.Intn(12)
			if r.Intn(6) == 0 {
				l = 255
			}
			b := make([]byte, l)
			for j := range b {
				b[j] = byte('a' + r.Intn(26))
			}
			cfg.NextProtos = append(cfg.NextProtos, string(b))
		}
		switch r.Intn(3) {
		case 0:
			cfg.MaxVersion = tls.VersionTLS12
		case 1:
			cfg.MinVersion = tls.VersionTLS13
		}
		h := realHello(cfg)
		kind := "real"
		if r.Intn(2) == 0 {
			targets := []int{600, 1500, 4090, 4091, 4092, 4093, 8192, 16383, 16384}
			if !big {
				targets = []int{600, 4090, 4091, 4092, 4093, 9000, 16384}
			}
			if p, ok := padHello(h, hx.Pick(r, targets)); ok {
				h = p
				kind = "padded"
			}
		}
		if cfg.MaxVersion != tls.VersionTLS12 && r.Intn(4) == 0 {
			if p, ok := unknownKeyShares(h, r.Intn(2) == 0); ok {
				h = p
				kind += "+hrr"
			}
		}
		if r.Intn(4) == 0 && len(h) > 5 {
			// the record header's version field is not the negotiated version: initial hellos carry 3.1 or 3.3,
			// old stacks 3.0, and the sniffer takes whatever the library takes
			v := hx.Pick(r, [][2]byte{{3, 0}, {3, 2}, {3, 3}, {3, 4}, {3, 255}, {2, 0}, {4, 1}})
			h = append([]byte{}, h...)
			h[1], h[2] = v[0], v[1]
			kind += "+recver"
		}
		body := len(h) - 5
		payload := r.Bytes(r.Intn(300))
		if r.Intn(8) == 0 {
			payload = r.Bytes(18000 + r.Intn(30000)) // a session much longer than the peek buffer
		}
		return hcase{append(append([]byte{}, h...), payload...), cfg.ServerName, cfg.NextProtos, body <= 16384 && len(h) >= 5, kind}
	case k < 7: // truncated hello then EOF
		h := realHello(&tls.Config{InsecureSkipVerify: true, ServerName: randName(r)})
		return hcase{h[:r.Intn(len(h))], "", nil, false, "truncated"}
	case k < 8: // handshake byte with an arbitrary announced length
		l := hx.Pick(r, []int{0, 1, 4, 4091, 4092, 16384, 18432, 18433, 65535})
		b := []byte{22, 3, 1, byte(l >> 8), byte(l)}
		return hcase{append(b, r.Bytes(r.Intn(64))...), "", nil, false, "fake-length"}
	default:
		b := r.Bytes(r.Intn(80))
		if len(b) > 0 && b[0] == 22 {
			b[0] = 23
		}
		return hcase{b, "", nil, false, "garbage"}
	}
}

func segment(r *hx.Rand, b []byte) [][]byte {
	var segs [][]byte
	switch r.Intn(6) {
	case 0:
		return [][]byte{b}
	case 1: // byte by byte for the first 12, then the rest
		i := 0
		for ; i < len(b) && i < 12; i++ {
			segs = append(segs, b[i:i+1])
		}
		if i < len(b) {
			segs = append(segs, b[i:])
		}
		return segs
	case 2: // split inside the header
		k := 1 + r.Intn(4)
		if k < len(b) {
			return [][]byte{b[:k], b[k:]}
		}
		return [][]byte{b}
	case 3: // 4096-byte boundary
		for len(b) > 4096 {
			segs = append(segs, b[:4096])
			b = b[4096:]
		}
		return append(segs, b)
	default:
		for len(b) > 0 {
			n := 1 + r.Intn(2000)
			if r.Intn(4) == 0 {
				n = 1 + r.Intn(8)
			}
			if n > len(b) {
				n = len(b)
			}
			segs = append(segs, b[:n])
			b = b[n:]
		}
		return segs
	}
}

func hexList(bs [][]byte) string {
	var xs []string
	for _, b := range bs {
		if len(b) > 0 {
			xs = append(xs, hx.Hex(b))
		}
	}
	if len(xs) == 0 {
		return "-"
	}
	return strings.Join(xs, ",")
}

// runOp executes "conn cap=gen chunks=… reads=…" on the implementation.
func runOp(op string, rep *hx.Report, c *hcase) string {
	ws := strings.Fields(op)
	var chunks [][]byte
	var reads []int
	for _, w := range ws {
		if strings.HasPrefix(w, "chunks=") && w != "chunks=-" {
			for _, x := range strings.Split(strings.TrimPrefix(w, "chunks="), ",") {
				chunks = append(chunks, hx.UnHex(x))
			}
		}
		if strings.HasPrefix(w, "reads=") && w != "reads=-" {
			for _, x := range strings.Split(strings.TrimPrefix(w, "reads="), ",") {
				n, _ := strconv.Atoi(x)
				reads = append(reads, n)
			}
		}
	}
	var whole []byte
	for _, ch := range chunks {
		whole = append(whole, ch...)
	}
	sc := &segConn{segs: chunks}
	var res string
	var info *sniproxy.TLSHelloInfo
	var tc *sniproxy.TLSHelloConn
	func() {
		defer func() {
			if r := recover(); r != nil {
				res = "panic"
				rep.Fail("hello-panic", fmt.Sprintf("HelloInfo panicked: %v", r), []string{op})
			}
		}()
		tc = sniproxy.NewTLSHelloConn(sc)
		var err error
		info, err = tc.HelloInfo()
		switch {
		case err == nil && info == nil:
			res = "nil-without-error"
			rep.Fail("helloinfo-nil-without-error", "HelloInfo returned neither a result nor an error (its caller dereferences the result)", []string{op})
		case err == nil:
			res = "ok"
		case strings.Contains(err.Error(), "not TLS"):
			res = "err:notTLS"
		case strings.Contains(err.Error(), "buffer full"):
			res = "err:bufferFull"
		default:
			res = "err:eof"
		}
	}()
	if res == "panic" || res == "nil-without-error" {
		return "hello=" + res + " reads="
	}
	if !sc.readDL.IsZero() {
		rep.Fail("sniffer-leaves-a-deadline-on-the-connection", "after HelloInfo returned the connection still has the read deadline the sniffer set: every later read of the stream fails once it passes", []string{op})
	}
	if sc.consumed > 5+65535 {
		rep.Fail("hello-unbounded-read", fmt.Sprintf("HelloInfo pulled %d bytes from the connection", sc.consumed), []string{op})
	}
	// what crypto/tls reported for the record, for the grammar model (`sniff` op)
	if res == "ok" && len(whole) >= 5 && len(whole) >= 5+(int(whole[3])<<8|int(whole[4])) {
		sniffOps = append(sniffOps, "sniff "+hx.Hex(whole[:5+(int(whole[3])<<8|int(whole[4]))]))
		sniffImpl = append(sniffImpl, fmt.Sprintf("name=%s n=%d first=%s", hx.Hex([]byte(info.ServerName)), info.ProtoCount, hx.Hex([]byte(info.FirstProto))))
		sniffWF = append(sniffWF, c != nil && c.wf)
	}
	if c != nil && c.wf {
		if res != "ok" {
			rep.Fail("wellformed-hello-rejected:"+res, fmt.Sprintf("a well-formed %d-byte ClientHello record was not inspected: %s", len(c.stream), res), []string{op})
		} else if info.ServerName != c.name || info.ProtoCount != len(c.protos) || info.FirstProto != first(c.protos) {
			rep.Fail("wrong-name-or-alpn", fmt.Sprintf("reported (%q,%d,%q), the hello carries (%q,%d,%v)", info.ServerName, info.ProtoCount, info.FirstProto, c.name, len(c.protos), first(c.protos)), []string{op})
		}
	}
	if c != nil && !c.wf && (c.kind == "fake-length" || c.kind == "garbage") && res == "ok" && (info.ServerName != "" || info.ProtoCount != 0 || info.FirstProto != "") {
		rep.Fail("name-from-a-record-that-is-no-hello", fmt.Sprintf("bytes that are not a ClientHello were reported as naming %q (ALPN %d, %q)", info.ServerName, info.ProtoCount, info.FirstProto), []string{op})
	}
	var outs []string
	var got []byte
	for _, k := range reads {
		buf := make([]byte, k)
		n, _ := tc.Read(buf)
		outs = append(outs, hx.Hex(buf[:n]))
		got = append(got, buf[:n]...)
	}
	rest, _ := io.ReadAll(tc)
	got = append(got, rest...)
	if !bytes.Equal(got, whole) {
		rep.Fail("stream-altered", fmt.Sprintf("after HelloInfo (%s) the connection yielded %d bytes, the client sent %d; first difference at %d", res, len(got), len(whole), firstDiff(got, whole)), []string{op})
	}
	return fmt.Sprintf("hello=%s reads=%s", res, strings.Join(outs, ","))
}

func first(xs []string) string {
	if len(xs) == 0 {
		return ""
	}
	return xs[0]
}

func firstDiff(a, b []byte) int {
	for i := 0; i < len(a) && i < len(b); i++ {
		if a[i] != b[i] {
			return i
		}
	}
	if len(a) < len(b) {
		return len(a)
	}
	return len(b)
}

func main() {
	log.SetOutput(io.Discard)
	f := hx.ParseFlags()
	rep := hx.NewReport("C14", f)
	rep.Rule = "case = (ClientHello of a crypto/tls client over random name / 0..40 ALPN / version bounds, optionally padded with extension 21 to a record body of " +
		"600..16384 bytes incl. 4090..4093; or a truncated hello, a fake announced length, non-TLS bytes) x segmentation (whole, byte-wise, inside the header, 4096 boundary, random) " +
		"x 0..6 read sizes incl. sizes above the buffer; distinct = distinct op line; non-trivial = well-formed hello or a stream of >= 5 bytes"
	r := hx.NewRand(f.Seed)
	var ops []string
	var cases []*hcase
	if f.Replay != "" {
		var err error
		ops, err = hx.ReadReplayOps(f.Replay)
		if err != nil {
			fmt.Println(err)
			return
		}
		cases = make([]*hcase, len(ops))
	} else {
		for _, c := range hx.CorpusOps("C14") {
			for _, op := range c {
				ops = append(ops, op)
				cases = append(cases, nil)
			}
		}
		n := 300
		if f.Thorough() {
			n = 6000
		}
		for i := 0; i < n; i++ {
			c := genCase(r, f.Thorough())
			segs := segment(r, c.stream)
			var rs []string
			for k := r.Intn(7); k > 0; k-- {
				rs = append(rs, fmt.Sprint(hx.Pick(r, []int{1, 2, 5, 16, 512, 4096, 16384, 18437, 20000, 32768, 1 + r.Intn(3000)})))
			}
			reads := "-"
			if len(rs) > 0 {
				reads = strings.Join(rs, ",")
			}
			ops = append(ops, fmt.Sprintf("conn cap=gen chunks=%s reads=%s", hexList(segs), reads))
			cc := c
			cases = append(cases, &cc)
			rep.Count("kind:" + c.kind)
			rep.Count(fmt.Sprintf("size:%dk", len(c.stream)/1024))
		}
	}
	if f.Replay == "" {
		// the sniffer inside the proxy: the hello arrives before / after the serving context is cancelled, whole or in pieces
		for _, mode := range []string{"legacy", "siding"} {
			for _, when := range []string{"cancel-before-hello", "cancel-mid-hello", "no-cancel", "pairs", "pairs-1p"} {
				ops = append(ops, fmt.Sprintf("proxy %s mode=%s", when, mode))
				cases = append(cases, nil)
			}
		}
	}
	jr := hx.NewJournal(f.Work)
	impl := make([]string, len(ops))
	for i, op := range ops {
		if strings.HasPrefix(op, "proxy ") {
			jr.Risky(op) // stays set: goroutines of the proxy may still crash the process a little later
			impl[i] = runProxyOp(op, rep)
			rep.Case(op, true)
			rep.Count("proxy-sniff")
			continue
		}
		jr.Risky(op)
		impl[i] = runOp(op, rep, cases[i])
		nt := cases[i] == nil || cases[i].wf || len(cases[i].stream) >= 5
		rep.Case(op, nt)
		if i%97 == 0 {
			s := op
			if len(s) > 200 {
				s = s[:200] + "…"
			}
			rep.Sample(map[string]string{"op": s, "impl": trunc(impl[i])})
		}
	}
	time.Sleep(200 * time.Millisecond)
	jr.Clear()
	drvOps := make([]string, len(ops))
	for i, op := range ops {
		drvOps[i] = op
		if strings.HasPrefix(op, "proxy ") {
			drvOps[i] = "conn cap=gen chunks=- reads=-"
		}
	}
	model, err := hx.RunDriver(f.Driver, nil, drvOps)
	if err != nil {
		rep.Note("driver failed: %v", err)
		rep.ModelAvailable = false
	} else if model != nil {
		for i := range ops {
			m := model[i]
			// the model reports how many bytes the library was given; the implementation cannot observe that
			if j := strings.Index(m, "hello=ok:"); j >= 0 {
				k := strings.Index(m, " ")
				m = "hello=ok" + m[k:]
			}
			if strings.HasPrefix(ops[i], "proxy ") {
				continue
			}
			if m != impl[i] {
				rep.Disagree("peek-read", trunc(ops[i]), trunc(impl[i]), trunc(m))
			}
		}
		rep.TracesValidated = len(ops)
		// the ClientHello grammar model against crypto/tls: exact on well-formed hellos; on anything
		// else only the sound direction (a non-empty name reported by the library is what the model reads)
		sm, err := hx.RunDriver(f.Driver, nil, sniffOps)
		if err != nil {
			rep.Note("driver failed on sniff ops: %v", err)
		} else {
			for i := range sniffOps {
				rep.Count("sniff")
				if sm[i] == sniffImpl[i] {
					continue
				}
				emptyImpl := strings.HasPrefix(sniffImpl[i], "name=- ")
				if !sniffWF[i] && emptyImpl && (sm[i] == "reject" || strings.HasPrefix(sm[i], "name=- ")) {
					continue
				}
				if !sniffWF[i] && emptyImpl {
					continue // the library may be stricter than the model on malformed input
				}
				rep.Disagree("hello-grammar", trunc(sniffOps[i]), sniffImpl[i], sm[i])
			}
			rep.TracesValidated += len(sniffOps)
		}
	}
	rep.Write(f.Out)
}

// runProxyOp runs the sniffer where it lives: in a proxy's hostConn.  The ClientHello (followed by a
// payload) is sent before, around or without a cancellation of the serving context; whatever happens
// to the connection, the process must survive, a connection that is served must carry exactly the
// bytes the client sent from the hello's first byte on, and the name it is routed by is the hello's.
// runPairOp: after a peer that is not TLS at all (and one that hangs up inside the record header), several
// connections with different server names arrive back to back; each application must get exactly the
// ClientHello and payload of a client that named it, once each.
func runPairOp(op string, rep *hx.Report, mode string) string {
	rig, err := snix.NewRig(mode, nil, nil)
	if err != nil {
		return "skip " + err.Error()
	}
	defer rig.Close()
	names := []string{"a", "b", "c"}
	type seen struct {
		mu   sync.Mutex
		data [][]byte
	}
	got := map[string]*seen{}
	for _, n := range names {
		ep, err := rig.Endpoint(n)
		if err != nil {
			return "skip " + err.Error()
		}
		sn := &seen{}
		got[n] = sn
		go func() {
			for {
				c, err := ep.Accept()
				if err != nil {
					return
				}
				go func() {
					defer c.Close()
					c.SetDeadline(time.Now().Add(4 * time.Second))
					bs, _ := io.ReadAll(c)
					sn.mu.Lock()
					sn.data = append(sn.data, bs)
					sn.mu.Unlock()
				}()
			}
		}()
	}
	for _, junk := range [][]byte{[]byte("GET / HTTP/1.1\r\nHost: x\r\n\r\n"), {0x16, 0x03}} {
		if c, err := net.Dial("tcp", rig.Lis.Addr().String()); err == nil {
			c.Write(junk)
			time.Sleep(5 * time.Millisecond)
			c.Close()
		}
	}
	time.Sleep(30 * time.Millisecond)
	const rounds = 8
	want := map[string][][]byte{}
	var conns []net.Conn
	var msgs [][]byte
	// all connections are established first, so that the proxy accepts them back to back; then they speak
	for r := 0; r < rounds; r++ {
		for _, n := range names {
			c, err := net.Dial("tcp", rig.Lis.Addr().String())
			if err != nil {
				continue
			}
			conns = append(conns, c)
			msg := append(append([]byte{}, snix.ClientHello(n+".test")...), []byte(fmt.Sprintf("payload-%s-%d", n, r))...)
			want[n] = append(want[n], msg)
			msgs = append(msgs, msg)
		}
	}
	time.Sleep(50 * time.Millisecond)
	for i, c := range conns {
		c, msg := c, msgs[i]
		go func() { c.Write(msg); c.(*net.TCPConn).CloseWrite() }()
	}
	time.Sleep(1500 * time.Millisecond)
	for _, c := range conns {
		c.Close()
	}
	time.Sleep(300 * time.Millisecond)
	for _, n := range names {
		sn := got[n]
		sn.mu.Lock()
		have := map[string]int{}
		for _, d := range sn.data {
			have[string(d)]++
		}
		sn.mu.Unlock()
		for _, w := range want[n] {
			if have[string(w)] != 1 {
				rep.Fail("proxy-sniff-misrouted:"+mode, fmt.Sprintf("endpoint %s was named by %d clients; the stream (ClientHello + payload) of one of them reached its application %d times (the applications saw %d streams for %s)", n, len(want[n]), have[string(w)], len(sn.data), n), []string{op})
				return "failed"
			}
		}
		if len(sn.data) != len(want[n]) {
			rep.Fail("proxy-sniff-misrouted:"+mode, fmt.Sprintf("endpoint %s received %d connections, %d clients named it", n, len(sn.data), len(want[n])), []string{op})
			return "failed"
		}
	}
	return "ok"
}

func runProxyOp(op string, rep *hx.Report) string {
	ws := strings.Fields(op)
	when := ws[1]
	mode := strings.TrimPrefix(ws[2], "mode=")
	if when == "pairs" {
		return runPairOp(op, rep, mode)
	}
	if when == "pairs-1p" {
		// one processor: a goroutine started by the accept loop does not run before the loop blocks,
		// so whatever the loop shares with it has been overwritten by then
		old := runtime.GOMAXPROCS(1)
		defer runtime.GOMAXPROCS(old)
		return runPairOp(op, rep, mode)
	}
	rig, err := snix.NewRig(mode, nil, nil)
	if err != nil {
		return "skip " + err.Error()
	}
	defer rig.Close()
	ep, err := rig.Endpoint("a")
	if err != nil {
		return "skip " + err.Error()
	}
	hello := snix.ClientHello("a.test")
	payload := []byte("payload-after-the-hello")
	got := make(chan []byte, 1)
	go func() {
		c, err := ep.Accept()
		if err != nil {
			got <- nil
			return
		}
		defer c.Close()
		c.SetDeadline(time.Now().Add(5 * time.Second))
		buf := make([]byte, len(hello)+len(payload))
		n, _ := io.ReadFull(c, buf)
		got <- buf[:n]
	}()
	cl, err := net.Dial("tcp", rig.Lis.Addr().String())
	if err != nil {
		return "skip " + err.Error()
	}
	defer cl.Close()
	time.Sleep(30 * time.Millisecond) // the proxy has accepted the connection and waits for the hello
	switch when {
	case "cancel-before-hello":
		rig.Cancel()
		time.Sleep(30 * time.Millisecond)
		cl.Write(hello)
		cl.Write(payload)
	case "cancel-mid-hello":
		cl.Write(hello[:7])
		time.Sleep(20 * time.Millisecond)
		rig.Cancel()
		time.Sleep(20 * time.Millisecond)
		cl.Write(hello[7:])
		cl.Write(payload)
	default:
		cl.Write(hello[:3])
		time.Sleep(10 * time.Millisecond)
		cl.Write(hello[3:])
		cl.Write(payload)
	}
	var arrived []byte
	wait := 5 * time.Second
	if when != "no-cancel" {
		wait = 400 * time.Millisecond // the connection may legitimately be dropped
	}
	select {
	case arrived = <-got:
	case <-time.After(wait):
	}
	want := append(append([]byte{}, hello...), payload...)
	switch {
	case when == "no-cancel" && !bytes.Equal(arrived, want):
		rep.Fail("proxy-sniff-altered:"+mode, fmt.Sprintf("a connection served by the proxy delivered %d bytes to the application, the client sent %d (ClientHello + payload); first difference at %d", len(arrived), len(want), firstDiffBytes(arrived, want)), []string{op})
	case len(arrived) > 0 && !bytes.HasPrefix(want, arrived):
		rep.Fail("proxy-sniff-altered:"+mode, "bytes reached the application that the client did not send in that order", []string{op})
	}
	return fmt.Sprintf("survived arrived=%d", len(arrived))
}

func firstDiffBytes(a, b []byte) int {
	for i := 0; i < len(a) && i < len(b); i++ {
		if a[i] != b[i] {
			return i
		}
	}
	if len(a) < len(b) {
		return len(a)
	}
	return len(b)
}

func trunc(s string) string {
	if len(s) > 300 {
		return s[:300] + "…"
	}
	return s
}
