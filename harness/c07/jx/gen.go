package jx

import (
	"math"
	"strconv"
	"strings"

	"verif/harness/hx"
)

// Gen draws JSON-encodable Go values with typed leaves over the classes the
// properties quantify over.  Every choice comes from R.
type Gen struct {
	R        *hx.Rand
	MaxDepth int
	Count    func(string)
}

// BoundaryFloats are the edges of every formatting regime of FormatFloat('g'),
// json.Marshal's float encoder and the lexer's number syntax.
var BoundaryFloats = []float64{
	0, math.Copysign(0, -1), 1, -1, 1.5, -1.5, 0.1, -0.1, 0.5, 123456.789, 999999, 999999.5, 1e6, 1e6 + 1, 1234567, 1.5e6,
	-1e6, 1e7, 1e15, 1e20, 99999999999999999999.0, 1e21, 1.5e21, -1e21, 1e22, 1e100, 1e308, math.MaxFloat64, -math.MaxFloat64,
	1e-4, 1e-5, 0.00001234, 1e-6, 0.000001, 9.9e-7, 1e-7, 1.5e-7, -1e-7, 1e-9, 1e-100, 2.2250738585072014e-308,
	math.SmallestNonzeroFloat64, -math.SmallestNonzeroFloat64, 9007199254740991, 9007199254740992, 9007199254740993,
	-9007199254740993, 4294967296, 1 << 62, 1.7976931348623157e308, 123456789.125, 0.30000000000000004, 5e-324, 100, 1e2, 12345678,
}

var BoundaryInts = []int64{0, 1, -1, 42, -42, 999999, 1000000, 1000001, -1000000, 1 << 31, -(1 << 31), 1<<53 - 1, 1 << 53, 1<<53 + 1,
	-(1<<53 + 1), 1<<62 + 1, math.MaxInt64, math.MaxInt64 - 1, math.MinInt64, math.MinInt64 + 1, 1234567890123456789, 1e15, 1e18}

var BoundaryUints = []uint64{0, 1, 1 << 53, 1<<53 + 1, 1 << 63, 1<<63 + 1, math.MaxUint64, math.MaxUint64 - 1, 12345678901234567890, 1e19}

func (g *Gen) count(k string) {
	if g.Count != nil {
		g.Count(k)
	}
}

// Float draws a finite float64.
func (g *Gen) Float() float64 {
	r := g.R
	for {
		var f float64
		switch r.Intn(6) {
		case 0:
			f = hx.Pick(r, BoundaryFloats)
		case 1:
			f = math.Float64frombits(r.U64())
		case 2: // d digits times a power of ten over the whole range
			d := 1 + r.Intn(17)
			m := r.U64() % pow10u(d)
			e := r.Intn(640) - 330
			f, _ = strconv.ParseFloat(strconv.FormatUint(m, 10)+"e"+strconv.Itoa(e), 64)
		case 3: // around the exponent-format thresholds
			k := hx.Pick(r, []int{-8, -7, -6, -5, -4, -3, 5, 6, 7, 20, 21, 22})
			f = math.Pow(10, float64(k)) * (0.5 + 9.5*float64(r.Intn(1000))/1000)
		case 4: // integers as floats
			f = float64(int64(r.U64()) >> uint(r.Intn(64)))
		default: // short decimals
			f = float64(int64(r.U64()%2000000)-1000000) / float64(hx.Pick(r, []int{1, 2, 4, 8, 10, 100, 1000}))
		}
		if r.Intn(5) == 0 {
			f = -f
		}
		if !math.IsNaN(f) && !math.IsInf(f, 0) {
			return f
		}
	}
}

func pow10u(d int) uint64 {
	p := uint64(1)
	for i := 0; i < d; i++ {
		p *= 10
	}
	return p
}

// Number draws a typed number: float64, int64 or uint64.
func (g *Gen) Number() interface{} {
	r := g.R
	switch r.Intn(4) {
	case 0:
		g.count("num:int64")
		if r.Bool() {
			return hx.Pick(r, BoundaryInts)
		}
		return int64(r.U64()) >> uint(r.Intn(64))
	case 1:
		g.count("num:uint64")
		if r.Bool() {
			return hx.Pick(r, BoundaryUints)
		}
		return r.U64() >> uint(r.Intn(64))
	default:
		g.count("num:float64")
		return g.Float()
	}
}

var strPieces = map[string][]string{
	"ascii":     {"a", "hello", "Field", "x y", "0", "a.b", "-", "e+06", "0x10", "//", "/*", "*/", ";", ",", ":", "{", "}", "[", "]", "'", "true", "null", "$", "%q", "~"},
	"control":   {"\x00", "\x01", "\x07", "\x08", "\t", "\n", "\v", "\f", "\r", "\x1b", "\x1f", "\x7f", "\u0080", "\u009f"},
	"quote":     {"\"", "\\", "`", "\\\"", "\\n", "\\u0041", "\\x", "\"\"", "\\\\"},
	"bmp":       {"\u00e9", "\u00df", "\u4e2d\u6587", "\u2028", "\u2029", "\ufffd", "\ufeff", "\u00a0", "\u200b", "\ud7ff", "\ue000", "\uffff", "\u01c5", "\u03a9"},
	"nonbmp":    {"\U0001f600", "\U0001d4b3", "\U00010000", "\U0010ffff", "\U0001f1fa\U0001f1f3"},
	"invalid":   {"\xff", "\xc0\x80", "\x80", "\xe2\x82", "\xed\xa0\x80", "\xf4\x90\x80\x80", "\xc3", "\xf0\x9f\x98", "\xfe"},
	"html":      {"<", ">", "&", "<script>", "&amp;"},
	"longascii": {strings.Repeat("abcdefghij", 30)},
}
var strClasses = []string{"ascii", "control", "quote", "bmp", "nonbmp", "invalid", "html", "longascii"}

// Str draws a Go string (arbitrary bytes) and reports the classes it mixes.
func (g *Gen) Str() string {
	r := g.R
	if r.Intn(12) == 0 {
		g.count("str:empty")
		return ""
	}
	n := 1 + r.Intn(4)
	var b strings.Builder
	for i := 0; i < n; i++ {
		c := hx.Pick(r, strClasses)
		if c == "longascii" && r.Intn(4) != 0 {
			c = "ascii"
		}
		g.count("str:" + c)
		if r.Intn(5) == 0 && c != "longascii" { // a random rune / byte of the class
			switch c {
			case "control":
				b.WriteByte(byte(r.Intn(32)))
			case "bmp":
				x := rune(0x80 + r.Intn(0xFFFF-0x80))
				if x >= 0xD800 && x < 0xE000 {
					x = 0xE000
				}
				b.WriteRune(x)
			case "nonbmp":
				b.WriteRune(rune(0x10000 + r.Intn(0x100000)))
			case "invalid":
				b.WriteByte(byte(0x80 + r.Intn(0x80)))
			default:
				b.WriteByte(byte(0x20 + r.Intn(0x5f)))
			}
			continue
		}
		b.WriteString(hx.Pick(r, strPieces[c]))
	}
	return b.String()
}

var identKeys = []string{"a", "b", "Field", "_x", "x9", "__", "camelCase", "A_B_9", "truex", "nul", "e", "x", "True", "NULL"}
var keywordKeys = []string{"true", "false", "null"}
var otherKeys = []string{"", "9a", "0", "a b", "a.b", "a-b", "\u00e9", "a\"b", "a\\b", "a:b", "\n", "\U0001f600", "a,", "{", "//", "\xff", "a\x00", "+1", "1e5", "`"}

// Key draws an object key and reports whether it is an identifier, a keyword or neither.
func (g *Gen) Key() string {
	r := g.R
	switch r.Intn(10) {
	case 0:
		g.count("key:keyword")
		return hx.Pick(r, keywordKeys)
	case 1, 2, 3:
		g.count("key:other")
		if r.Bool() {
			return g.Str()
		}
		return hx.Pick(r, otherKeys)
	default:
		g.count("key:ident")
		k := hx.Pick(r, identKeys)
		if r.Intn(3) == 0 {
			k += strconv.Itoa(r.Intn(100))
		}
		return k
	}
}

// Value draws a value of nesting depth at most depth.
func (g *Gen) Value(depth int) interface{} {
	r := g.R
	k := r.Intn(10)
	if depth <= 0 && k >= 6 {
		k = r.Intn(6)
	}
	switch k {
	case 0:
		g.count("val:null")
		return nil
	case 1:
		g.count("val:bool")
		return r.Bool()
	case 2, 3:
		return g.Number()
	case 4, 5:
		g.count("val:string")
		return g.Str()
	case 6, 7:
		n := r.Intn(5)
		if n == 0 {
			g.count("val:empty-array")
		} else {
			g.count("val:array")
		}
		arr := make([]interface{}, 0, n)
		for i := 0; i < n; i++ {
			arr = append(arr, g.Value(depth-1))
		}
		return arr
	default:
		n := r.Intn(5)
		if n == 0 {
			g.count("val:empty-object")
		} else {
			g.count("val:object")
		}
		m := map[string]interface{}{}
		norm := map[string]bool{} // keys must stay distinct after json.Marshal replaces invalid UTF-8
		allIdent := r.Intn(3) == 0
		for i := 0; i < n; i++ {
			k := g.Key()
			if allIdent {
				k = hx.Pick(r, identKeys)
			}
			nk := strings.ToValidUTF8(k, "\ufffd")
			if norm[nk] {
				continue
			}
			norm[nk] = true
			m[k] = g.Value(depth - 1)
		}
		return m
	}
}

// Deep builds a chain of containers of the given depth around a leaf.
func (g *Gen) Deep(depth int) interface{} {
	var v interface{} = g.Value(0)
	for i := 0; i < depth; i++ {
		if g.R.Bool() {
			v = []interface{}{v}
		} else {
			v = map[string]interface{}{g.Key(): v}
		}
	}
	return v
}

// Wide returns shallow values with more than n containers in one document
// (n is chosen above the parser's nesting limit): sibling arrays, sibling
// objects, mixed, a table of rows, a two-level fan-out, an object of arrays.
func Wide(n int) map[string]interface{} {
	arrs := make([]interface{}, n)
	objs := make([]interface{}, n)
	mixed := make([]interface{}, n)
	table := make([]interface{}, n)
	for i := 0; i < n; i++ {
		arrs[i] = []interface{}{}
		objs[i] = map[string]interface{}{}
		if i%2 == 0 {
			mixed[i] = []interface{}{map[string]interface{}{"a": []interface{}{}}}
		} else {
			mixed[i] = map[string]interface{}{"b": []interface{}{int64(i)}}
		}
		table[i] = []interface{}{int64(i), int64(2 * i)}
	}
	side := 1
	for side*side < n {
		side++
	}
	fan := make([]interface{}, side)
	for i := range fan {
		row := make([]interface{}, side)
		for k := range row {
			row[k] = []interface{}{}
		}
		fan[i] = row
	}
	keyed := map[string]interface{}{}
	for i := 0; i < n; i++ {
		keyed["k"+strconv.Itoa(i)] = []interface{}{}
	}
	okeyed := map[string]interface{}{}
	for i := 0; i < n; i++ {
		okeyed["k"+strconv.Itoa(i)] = map[string]interface{}{}
	}
	return map[string]interface{}{"sibling-arrays": arrs, "sibling-objects": objs, "mixed": mixed, "table": table,
		"fan-out": fan, "object-of-arrays": keyed, "object-of-objects": okeyed}
}
