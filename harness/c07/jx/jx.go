// Package jx is shared by the C07 and C09 harnesses: JSON values with typed
// leaves, the <jval> op encoding, execution of op lines on the real jsonx
// code, expansion of the driver's symbolic leaves with the same strconv /
// encoding/json calls the code uses, and exact JSON equality.
package jx

import (
	"bytes"
	"encoding/hex"
	"encoding/json"
	"fmt"
	"io"
	"math"
	"math/big"
	"sort"
	"strconv"
	"strings"

	"shanhu.io/g/errcode"
	"shanhu.io/g/jsonx"
	"shanhu.io/g/lexing"
	"verif/harness/hx"
)

// ---------------------------------------------------------------- values

// Spec renders the generic decoding (UseNumber) of a JSON text in the <jval>
// op encoding: n | t | f | #<neg>:<hex lit> | s<hex> | [ ... ] | { k<hex> v ... }.
// Object keys are written in reverse sorted order so that the model's sort is exercised.
func Spec(g interface{}) string {
	var b strings.Builder
	spec(&b, g)
	return strings.TrimSpace(b.String())
}

func spec(b *strings.Builder, g interface{}) {
	switch x := g.(type) {
	case nil:
		b.WriteString("n ")
	case bool:
		if x {
			b.WriteString("t ")
		} else {
			b.WriteString("f ")
		}
	case json.Number:
		s := string(x)
		neg := "0"
		if strings.HasPrefix(s, "-") {
			neg, s = "1", s[1:]
		}
		b.WriteString("#" + neg + ":" + hx.Hex([]byte(s)) + " ")
	case string:
		b.WriteString("s" + hx.Hex([]byte(x)) + " ")
	case []interface{}:
		b.WriteString("[ ")
		for _, e := range x {
			spec(b, e)
		}
		b.WriteString("] ")
	case map[string]interface{}:
		keys := make([]string, 0, len(x))
		for k := range x {
			keys = append(keys, k)
		}
		sort.Sort(sort.Reverse(sort.StringSlice(keys)))
		b.WriteString("{ ")
		for _, k := range keys {
			b.WriteString("k" + hx.Hex([]byte(k)) + " ")
			spec(b, x[k])
		}
		b.WriteString("} ")
	}
}

// ParseSpec rebuilds the Go value (numbers as json.Number) from a <jval>.
func ParseSpec(ws []string) (interface{}, []string, bool) {
	if len(ws) == 0 {
		return nil, nil, false
	}
	w, rest := ws[0], ws[1:]
	switch {
	case w == "n":
		return nil, rest, true
	case w == "t":
		return true, rest, true
	case w == "f":
		return false, rest, true
	case strings.HasPrefix(w, "#") && len(w) >= 3 && w[2] == ':':
		lit := string(hx.UnHex(w[3:]))
		if w[1] == '1' {
			lit = "-" + lit
		}
		return json.Number(lit), rest, true
	case strings.HasPrefix(w, "s"):
		return string(hx.UnHex(w[1:])), rest, true
	case w == "[":
		arr := []interface{}{}
		for {
			if len(rest) == 0 {
				return nil, nil, false
			}
			if rest[0] == "]" {
				return arr, rest[1:], true
			}
			v, r, ok := ParseSpec(rest)
			if !ok {
				return nil, nil, false
			}
			arr = append(arr, v)
			rest = r
		}
	case w == "{":
		m := map[string]interface{}{}
		for {
			if len(rest) == 0 {
				return nil, nil, false
			}
			if rest[0] == "}" {
				return m, rest[1:], true
			}
			if !strings.HasPrefix(rest[0], "k") {
				return nil, nil, false
			}
			k := string(hx.UnHex(rest[0][1:]))
			v, r, ok := ParseSpec(rest[1:])
			if !ok {
				return nil, nil, false
			}
			m[k] = v
			rest = r
		}
	}
	return nil, nil, false
}

// Generic decodes a JSON text with UseNumber.
func Generic(bs []byte) (interface{}, error) {
	dec := json.NewDecoder(bytes.NewReader(bs))
	dec.UseNumber()
	var g interface{}
	if err := dec.Decode(&g); err != nil {
		return nil, err
	}
	if dec.More() {
		return nil, fmt.Errorf("trailing data")
	}
	return g, nil
}

func numRat(n json.Number) *big.Rat {
	s := string(n)
	// big.Rat.SetString understands decimal literals with exponents; very large
	// exponents are expanded, which is fine for float64-range numbers.
	r, ok := new(big.Rat).SetString(s)
	if !ok {
		return nil
	}
	return r
}

// numEqual: two integer literals must denote the same integer exactly (so
// integers above 2^53 agree digit for digit); as soon as one side has a
// fraction or an exponent both are read as the standard parser reads them
// (strconv.ParseFloat, float64), and -0 differs from 0.
func numEqual(x, y string) bool {
	if !strings.ContainsAny(x, ".eE") && !strings.ContainsAny(y, ".eE") {
		rx, ry := numRat(json.Number(x)), numRat(json.Number(y))
		return rx != nil && ry != nil && rx.Cmp(ry) == 0 && strings.HasPrefix(x, "-") == strings.HasPrefix(y, "-")
	}
	fx, ex := strconv.ParseFloat(x, 64)
	fy, ey := strconv.ParseFloat(y, 64)
	return ex == nil && ey == nil && fx == fy && math.Signbit(fx) == math.Signbit(fy)
}

// Equal is JSON equality with exact integers and float64 floats.  Returns a
// path to the first difference.
func Equal(a, b interface{}) (bool, string) {
	switch x := a.(type) {
	case nil:
		if b == nil {
			return true, ""
		}
	case bool:
		if y, ok := b.(bool); ok && x == y {
			return true, ""
		}
	case json.Number:
		if y, ok := b.(json.Number); ok && numEqual(string(x), string(y)) {
			return true, ""
		}
	case string:
		if y, ok := b.(string); ok && x == y {
			return true, ""
		}
	case []interface{}:
		y, ok := b.([]interface{})
		if !ok || len(x) != len(y) {
			return false, "[len]"
		}
		for i := range x {
			if ok, p := Equal(x[i], y[i]); !ok {
				return false, fmt.Sprintf("[%d]%s", i, p)
			}
		}
		return true, ""
	case map[string]interface{}:
		y, ok := b.(map[string]interface{})
		if !ok || len(x) != len(y) {
			return false, "{len}"
		}
		for k, v := range x {
			w, ok := y[k]
			if !ok {
				return false, fmt.Sprintf("{%q missing}", k)
			}
			if ok, p := Equal(v, w); !ok {
				return false, fmt.Sprintf("{%q}%s", k, p)
			}
		}
		return true, ""
	}
	return false, ""
}

// EqualText compares two JSON texts with Equal.
func EqualText(a, b []byte) (bool, string) {
	ga, err := Generic(a)
	if err != nil {
		return false, "left side is not JSON: " + err.Error()
	}
	gb, err := Generic(b)
	if err != nil {
		return false, "right side is not JSON: " + err.Error()
	}
	return Equal(ga, gb)
}

// ---------------------------------------------------------------- implementation side

// ErrCode maps an error of the jsonx entry points to the small enum compared with the model.
func ErrCode(err error) string {
	if le, ok := err.(*lexing.Error); ok {
		if le.Code == "" {
			return "-"
		}
		return le.Code
	}
	if errcode.IsInvalidArg(err) {
		return "more"
	}
	return "-"
}

// ImplToJSON runs jsonx.ToJSON.
func ImplToJSON(in []byte) (out []byte, line string) {
	bs, errs := jsonx.ToJSON(in)
	if errs != nil {
		return nil, "err " + ErrCode(errs[0])
	}
	return bs, "ok " + hx.Hex(bs)
}

// ImplUnmarshal runs jsonx.Unmarshal into a RawMessage, which exposes the JSON
// text handed to encoding/json.
func ImplUnmarshal(in []byte) (raw []byte, line string) {
	var r json.RawMessage
	if err := jsonx.Unmarshal(in, &r); err != nil {
		return nil, "err " + ErrCode(err)
	}
	return []byte(r), "ok " + hx.Hex([]byte(r))
}

// ImplMarshal runs jsonx.Marshal on the value of a <jval>.
func ImplMarshal(v interface{}) ([]byte, string) {
	x, err := jsonx.Marshal(v)
	if err != nil {
		return nil, "err -"
	}
	return x, hx.Hex(x)
}

// ---------------------------------------------------------------- model side

// LeafProblem is a violated contract of a delegated leaf found while expanding.
type LeafProblem struct {
	Kind string // "unquote" | "parseFloat"
	Lit  string
}

// Expand turns the driver's <segs> into bytes, calling strconv / encoding/json
// exactly where the code under test does.
func Expand(segs []string) ([]byte, *LeafProblem) {
	var out []byte
	for _, w := range segs {
		if w == "-" {
			continue
		}
		if len(w) > 2 && w[1] == ':' {
			switch w[0] {
			case 'S':
				lit := string(hx.UnHex(w[2:]))
				s, err := strconv.Unquote(lit)
				if err != nil {
					return nil, &LeafProblem{"unquote", lit}
				}
				bs, _ := json.Marshal(s)
				out = append(out, bs...)
				continue
			case 'K':
				bs, _ := json.Marshal(string(hx.UnHex(w[2:])))
				out = append(out, bs...)
				continue
			case 'F':
				lit := string(hx.UnHex(w[2:]))
				f, err := strconv.ParseFloat(lit, 64)
				if err != nil {
					return nil, &LeafProblem{"parseFloat", lit}
				}
				bs, err := json.Marshal(f)
				if err != nil {
					return nil, &LeafProblem{"parseFloat", lit}
				}
				out = append(out, bs...)
				continue
			case 'Q':
				out = append(out, strconv.Quote(string(hx.UnHex(w[2:])))...)
				continue
			case 'G':
				p := strings.Split(w, ":")
				if len(p) == 4 && len(p[1]) == 1 {
					lit := string(hx.UnHex(p[3]))
					if p[2] == "1" {
						lit = "-" + lit
					}
					f, err := strconv.ParseFloat(lit, 64)
					if err != nil {
						return nil, &LeafProblem{"parseFloat", lit}
					}
					out = append(out, strconv.FormatFloat(f, p[1][0], -1, 64)...)
					continue
				}
			}
		}
		b, err := hex.DecodeString(w)
		if err != nil {
			return nil, &LeafProblem{"segment", w}
		}
		out = append(out, b...)
	}
	return out, nil
}

// ModelLine canonicalises one driver answer so that it is comparable with the
// implementation's line for the same op.
func ModelLine(op, model string) (string, *LeafProblem) {
	ws := strings.Fields(model)
	kind := strings.Fields(op)[0]
	switch kind {
	case "tojson":
		if len(ws) >= 1 && ws[0] == "ok" {
			out, lp := Expand(ws[1:])
			if lp != nil {
				return "leaf-problem", lp
			}
			return "ok " + hx.Hex(out), nil
		}
	case "unm":
		if len(ws) >= 2 && ws[0] == "ok" {
			out, lp := Expand(ws[2:])
			if lp != nil {
				return "leaf-problem", lp
			}
			// Decoder.Decode: json.Unmarshal comes before the More() check
			if !json.Valid(out) {
				return "err -", nil
			}
			if ws[1] == "more=1" {
				return "err more", nil
			}
			return "ok " + hx.Hex(out), nil
		}
	case "dec": // Decoder.Decode: as unm, without the More() check
		if len(ws) >= 2 && ws[0] == "ok" {
			out, lp := Expand(ws[2:])
			if lp != nil {
				return "leaf-problem", lp
			}
			if !json.Valid(out) {
				return "err -", nil
			}
			return "ok " + hx.Hex(out), nil
		}
	case "print":
		if len(ws) >= 1 && ws[0] != "bad-op" {
			out, lp := Expand(ws)
			if lp != nil {
				return "leaf-problem", lp
			}
			return hx.Hex(out), nil
		}
	}
	return model, nil
}

// ChunkReader hands out at most N bytes per Read (short reads).
type ChunkReader struct {
	Data []byte
	N    int
}

func (c *ChunkReader) Read(p []byte) (int, error) {
	if len(c.Data) == 0 {
		return 0, io.EOF
	}
	n := c.N
	if n > len(p) {
		n = len(p)
	}
	if n > len(c.Data) {
		n = len(c.Data)
	}
	copy(p, c.Data[:n])
	c.Data = c.Data[n:]
	return n, nil
}

// ImplDecode runs jsonx.NewDecoder(reader with short reads).Decode into a RawMessage.
func ImplDecode(in []byte, chunk int) string {
	d := jsonx.NewDecoder(&ChunkReader{Data: append([]byte(nil), in...), N: chunk})
	var r json.RawMessage
	if errs := d.Decode(&r); errs != nil {
		return "err " + ErrCode(errs[0])
	}
	return "ok " + hx.Hex([]byte(r))
}

// BoundaryRunes are 2-, 3- and 4-byte characters; BoundaryOffsets the byte offsets around
// the read-buffer sizes at which they are placed.
var BoundaryRunes = []string{"\u00e9", "\u4e2d", "\U0001f600"}

func BoundaryOffsets(bases []int) []int {
	var out []int
	for _, b := range bases {
		for d := -2; d <= 2; d++ {
			out = append(out, b+d)
		}
	}
	return out
}

// Pad returns n ASCII bytes.
func Pad(n int) string {
	if n < 0 {
		n = 0
	}
	return strings.Repeat("abcdefghij", n/10+1)[:n]
}
