package jx

import (
	"bytes"
	"fmt"
)

// Kept is a byte result an entry point handed out earlier, the op that
// produced it and a private copy taken at return time.
type Kept struct {
	Op   string
	X    []byte
	Copy []byte
}

// Keeper re-verifies earlier results after later calls: what a call returned
// belongs to the caller and must not change when the package is used again.
type Keeper struct {
	What string // e.g. "jsonx.Marshal"
	Keep []Kept
	Max  int
	Fail func(key, desc string, ops []string)
}

func short(b []byte) string {
	if len(b) > 80 {
		return fmt.Sprintf("%q...", b[:80])
	}
	return fmt.Sprintf("%q", b)
}

// Check compares every kept result with its copy; op is the call just made.
func (k *Keeper) Check(op string) {
	for i := range k.Keep {
		e := &k.Keep[i]
		if !bytes.Equal(e.X, e.Copy) {
			k.Fail("result-aliased-by-later-call",
				fmt.Sprintf("the bytes %s returned earlier changed after a later call: they were %s and now read %s", k.What, short(e.Copy), short(e.X)),
				[]string{e.Op, op})
			e.Copy = append([]byte(nil), e.X...)
		}
	}
}

// Add keeps x (the slice exactly as returned).  The oldest kept result is
// scribbled over when it is dropped: the caller owns it.
func (k *Keeper) Add(op string, x []byte) {
	if len(x) == 0 {
		return
	}
	if k.Max == 0 {
		k.Max = 4
	}
	k.Keep = append(k.Keep, Kept{op, x, append([]byte(nil), x...)})
	if len(k.Keep) > k.Max {
		Scribble(k.Keep[0].X)
		k.Keep = k.Keep[1:]
	}
}

// Scribble overwrites a slice the harness owns.
func Scribble(b []byte) {
	for i := range b {
		b[i] = 0xAA
	}
}
