package jx

import (
	"encoding/json"
	"math/big"
	"sort"
	"strconv"
	"strings"
	"unicode/utf8"

	"verif/harness/hx"
)

// Atom is one scalar leaf (or identifier list) as spelled in a rendered
// document, with the JSON text it has to denote.
type Atom struct {
	Text  string
	Want  string
	Class string
}

// Surface renders a Go value as JSONx text under random surface choices and
// remembers the leaves it spelled and the features it used.
type Surface struct {
	R     *hx.Rand
	Atoms []Atom
	Feats map[string]bool
	// Plain restricts the choices to RFC 8259 (plus white space where JSONx takes it).
	Plain bool
}

func (s *Surface) feat(f string) {
	if s.Feats == nil {
		s.Feats = map[string]bool{}
	}
	s.Feats[f] = true
}

func (s *Surface) comment() string {
	body := hx.Pick(s.R, []string{"c", "", " a comment ", "*", "/", "{", "\"", "x: 1,", "**", "/ *", "é"})
	return "/*" + body + "*/"
}

// gap is layout where a newline would be turned into a separator.
func (s *Surface) gap() string {
	switch s.R.Intn(12) {
	case 0:
		return " "
	case 1:
		return "\t"
	case 2:
		return "  "
	case 3:
		if s.Plain {
			return "\r"
		}
		s.feat("block-comment")
		return " " + s.comment() + " "
	case 4:
		if s.Plain {
			return " "
		}
		s.feat("block-comment")
		return s.comment()
	case 5:
		return "\r"
	}
	return ""
}

// gapNL is layout after `,` `{` `[` `:` `.` or a sign, where the semicolon inserter stays quiet.
func (s *Surface) gapNL() string {
	switch s.R.Intn(10) {
	case 0:
		s.feat("newline")
		return "\n"
	case 1:
		s.feat("newline")
		return "\n\t"
	case 2:
		if s.Plain {
			return "\r\n"
		}
		s.feat("line-comment")
		// also the empty comment: `//` directly followed by the line end
		return hx.Pick(s.R, []string{" ", ""}) + "//" + hx.Pick(s.R, []string{" c", "", "", " x: 1", "/* not a block", "\"", " é", "/", " "}) +
			hx.Pick(s.R, []string{"\n", "\n", "\r\n"})
	case 3:
		s.feat("newline")
		return "\r\n  "
	}
	return s.gap()
}

func isIdentKey(k string) bool {
	if k == "" || k == "true" || k == "false" || k == "null" {
		return false
	}
	for i, r := range k {
		if !(r == '_' || r >= 'a' && r <= 'z' || r >= 'A' && r <= 'Z' || r >= '0' && r <= '9' && i > 0) {
			return false
		}
	}
	return true
}

// Str spells a string literal.
func (s *Surface) Str(v string) (string, string) {
	js, _ := json.Marshal(v)
	if s.Plain {
		return string(js), "string-json"
	}
	// the literal as it is between double quotes, no backslash anywhere: legal Go-style source
	// for every character but quote, backslash and newline — raw TAB, CR, ESC, DEL, U+2028 too
	if s.R.Intn(5) == 0 && utf8.ValidString(v) && !strings.ContainsAny(v, "\"\\\n") {
		s.feat("verbatim-quoted-string")
		return "\"" + v + "\"", "string-verbatim"
	}
	switch s.R.Intn(5) {
	case 0:
		if utf8.ValidString(v) && !strings.ContainsAny(v, "`\r") {
			s.feat("raw-string")
			lit := v
			// carriage returns inside a raw string are discarded (Go): CRLF line ends and stray
			// CRs in the literal do not change the value
			switch s.R.Intn(4) {
			case 0:
				lit = strings.ReplaceAll(v, "\n", "\r\n")
				s.feat("raw-string-cr")
			case 1:
				k := s.R.Intn(len(v) + 1)
				for k > 0 && k < len(v) && !utf8.RuneStart(v[k]) {
					k--
				}
				lit = v[:k] + hx.Pick(s.R, []string{"\r", "\r\r", "\r\n"}) + v[k:]
				if strings.HasSuffix(lit[:k+1], "\r") && strings.Contains(lit[k:], "\n") && !strings.Contains(v, "\n") {
					lit = v[:k] + "\r" + v[k:] // keep the value: only CRs were added
				}
				s.feat("raw-string-cr")
			}
			if strings.ReplaceAll(lit, "\r", "") != v {
				lit = v
			}
			return "`" + lit + "`", "string-raw"
		}
	case 1:
		s.feat("json-string")
		return string(js), "string-json"
	case 2:
		s.feat("ascii-escaped-string")
		return strconv.QuoteToASCII(v), "string-go-ascii"
	case 3:
		// octal and \x escapes for every byte of a short string
		if len(v) > 0 && len(v) <= 6 {
			var b strings.Builder
			b.WriteByte('"')
			for i := 0; i < len(v); i++ {
				if s.R.Bool() {
					b.WriteString("\\" + leftPad(strconv.FormatUint(uint64(v[i]), 8), 3))
				} else {
					b.WriteString("\\x" + leftPad(strconv.FormatUint(uint64(v[i]), 16), 2))
				}
			}
			b.WriteByte('"')
			s.feat("byte-escaped-string")
			return b.String(), "string-byte-escapes"
		}
	}
	s.feat("go-string")
	return strconv.Quote(v), "string-go"
}

func leftPad(x string, n int) string {
	for len(x) < n {
		x = "0" + x
	}
	return x
}

// Int spells an integer.
func (s *Surface) Int(n *big.Int) (string, string) {
	abs := new(big.Int).Abs(n)
	neg := n.Sign() < 0
	lit, class := abs.String(), "int-decimal"
	if !s.Plain {
		switch s.R.Intn(6) {
		case 0:
			lit, class = "0x"+abs.Text(16), "int-hex"
			if s.R.Bool() {
				lit = "0x" + strings.ToUpper(abs.Text(16))
			}
			s.feat("hex-int")
		case 1:
			lit, class = "0"+abs.Text(8), "int-octal"
			s.feat("octal-int")
		case 2:
			lit, class = "0x"+strings.Repeat("0", 1+s.R.Intn(3))+abs.Text(16), "int-hex"
			s.feat("hex-int")
		}
	}
	return s.sign(neg, lit, class)
}

func (s *Surface) sign(neg bool, lit, class string) (string, string) {
	if neg {
		if !s.Plain && s.R.Intn(6) == 0 {
			s.feat("sign-gap")
			return "-" + s.gapNL() + lit, "neg-" + class
		}
		return "-" + lit, "neg-" + class
	}
	if !s.Plain && s.R.Intn(5) == 0 {
		s.feat("plus-sign")
		return "+" + s.gap() + lit, "plus-" + class
	}
	return lit, class
}

// Float spells a float64 in one of the forms of the lexer's float syntax
// that denote exactly this float64.
func (s *Surface) Float(f float64) (string, string) {
	neg := f < 0 || (f == 0 && 1/f < 0)
	if neg {
		f = -f
	}
	js, _ := json.Marshal(f)
	lit, class := string(js), "float-json"
	short := strconv.FormatFloat(f, 'e', -1, 64) // d.ddde±xx
	mant, exp := short, 0
	if i := strings.IndexByte(short, 'e'); i >= 0 {
		mant = short[:i]
		exp, _ = strconv.Atoi(short[i+1:])
	}
	digits := strings.Replace(mant, ".", "", 1)
	if !strings.ContainsAny(lit, ".eE") { // integral floats keep an integer literal unless respelled
		class = "float-integral"
	}
	choice := s.R.Intn(9)
	if s.Plain {
		choice = 100 + s.R.Intn(4)
	}
	switch choice {
	case 0:
		lit, class = strconv.FormatFloat(f, 'g', -1, 64), "float-g"
	case 1:
		lit, class = short, "float-e"
	case 2:
		lit, class = digits+"e"+strconv.Itoa(exp-(len(digits)-1)), "float-digits-exp"
	case 3:
		lit, class = "0."+digits+"E"+strconv.Itoa(exp+1), "float-0.digits-Exp"
	case 4:
		e := strconv.Itoa(exp)
		if exp >= 0 {
			e = "+" + e
		}
		lit, class = mant+"e"+e, "float-exp-sign"
	case 5:
		if strings.ContainsAny(lit, ".") && !strings.ContainsAny(lit, "eE") {
			lit, class = lit+strings.Repeat("0", 1+s.R.Intn(3)), "float-trailing-zeros"
		}
	case 6:
		if !strings.ContainsAny(lit, ".eE") {
			lit, class = lit+hx.Pick(s.R, []string{".", ".0", ".000", "e0", "E+0", "e-0", ".e0"}), "float-integral-respelled"
		}
	case 101:
		lit, class = strings.Replace(lit, "e", "E", 1), "float-json-E"
	case 102:
		if strings.Contains(lit, "e+") {
			lit, class = strings.Replace(lit, "e+", "e", 1), "float-json-nosign"
		}
	}
	// the spelling must denote the same float64 and stay in the float syntax
	if g, err := strconv.ParseFloat(lit, 64); err != nil || g != f {
		lit, class = string(js), "float-json"
	}
	if strings.Contains(lit, "e+") || strings.Contains(lit, "E+") {
		s.feat("exp-plus")
	}
	if strings.Contains(lit, ".") {
		s.feat("fraction")
	}
	return s.sign(neg, lit, class)
}

// Value renders v; the expected JSON is json.Marshal(v) (exact numbers).
func (s *Surface) Value(v interface{}) string {
	atom := func(text, class string) string {
		w, _ := json.Marshal(v)
		s.Atoms = append(s.Atoms, Atom{text, string(w), class})
		return text
	}
	switch x := v.(type) {
	case nil:
		return "null"
	case bool:
		if x {
			return "true"
		}
		return "false"
	case float64:
		return atom(s.Float(x))
	case int64:
		return atom(s.Int(big.NewInt(x)))
	case uint64:
		return atom(s.Int(new(big.Int).SetUint64(x)))
	case *big.Int:
		t, c := s.Int(x)
		s.Atoms = append(s.Atoms, Atom{t, x.String(), c})
		return t
	case json.Number:
		if bi, ok := new(big.Int).SetString(string(x), 10); ok {
			return atom(s.Int(bi))
		}
		return atom(string(x), "number-literal")
	case string:
		return atom(s.Str(x))
	case []interface{}:
		if !s.Plain && len(x) > 0 && s.R.Intn(3) == 0 {
			all := true
			for _, e := range x {
				es, ok := e.(string)
				if !ok || !isIdentKey(es) {
					all = false
				}
			}
			if all {
				s.feat("ident-list")
				var b strings.Builder
				for i, e := range x {
					if i > 0 {
						b.WriteString(s.gap() + "." + s.gapNL())
					}
					b.WriteString(e.(string))
				}
				return atom(b.String(), "ident-list")
			}
		}
		var b strings.Builder
		b.WriteString("[" + s.gapNL())
		for i, e := range x {
			b.WriteString(s.Value(e))
			b.WriteString(s.sep(i == len(x)-1))
		}
		b.WriteString("]")
		return b.String()
	case map[string]interface{}:
		keys := make([]string, 0, len(x))
		for k := range x {
			keys = append(keys, k)
		}
		sort.Strings(keys)
		if s.R.Bool() {
			sort.Sort(sort.Reverse(sort.StringSlice(keys)))
		}
		var b strings.Builder
		b.WriteString("{" + s.gapNL())
		for i, k := range keys {
			if !s.Plain && isIdentKey(k) && s.R.Intn(3) != 0 {
				s.feat("bare-key")
				b.WriteString(k)
			} else if !s.Plain && (k == "true" || k == "false" || k == "null") && s.R.Intn(5) == 0 {
				// a keyword is not an identifier: the document must be rejected, never
				// converted with a made-up key
				s.feat("bare-keyword-key")
				b.WriteString(k)
			} else {
				t, _ := s.Str(k)
				b.WriteString(t)
			}
			b.WriteString(s.gap() + ":" + s.gapNL())
			b.WriteString(s.Value(x[k]))
			b.WriteString(s.sep(i == len(keys)-1))
		}
		b.WriteString("}")
		return b.String()
	}
	return "null"
}

// sep is what follows an entry: a comma (with layout that may contain
// newlines), or, after the last entry, possibly nothing but newline-free layout.
func (s *Surface) sep(last bool) string {
	if last {
		if !s.Plain && s.R.Intn(3) == 0 {
			s.feat("trailing-comma")
			return s.gap() + "," + s.gapNL()
		}
		return s.gap()
	}
	return s.gap() + "," + s.gapNL()
}
