// Harness for C07: jsonx Marshal followed by Unmarshal returns the same value.
//
// Ops (see lean/PubModel/C07/Driver.lean):
//
//	print <jval>   jsonx.Marshal of the value; the direct oracle runs here:
//	               Unmarshal(Marshal(v)) must succeed and be JSON-equal to v
//	               (exact numbers), integer leaves also through typed targets
//	unm <hex>      jsonx.Unmarshal of a text (the printer's own output)
//	qshape/jnum/jstr/floatok/goint/isjson   contracts of the delegated leaves and
//	               the RFC 8259 predicates, against strconv / encoding/json
//
// The same lines go to the Lean driver; float and string leaves come back
// symbolic and are expanded here with the strconv / encoding/json calls the
// code uses, so only this repository's logic is compared.
package main

import (
	"bytes"
	"encoding/json"
	"fmt"
	"io"
	"log"
	"math"
	"math/big"
	"os"
	"path/filepath"
	"runtime"
	"strconv"
	"strings"
	"sync"
	"syscall"
	"time"
	"unicode/utf8"

	"shanhu.io/g/jsonx"
	"verif/harness/c07/jx"
	"verif/harness/hx"
)

type ctx struct {
	rep  *hx.Report
	j    *hx.Journal
	keep *jx.Keeper // earlier jsonx.Marshal results, re-verified after later calls
	work string
	// the one path all wfile ops of a run write to, and the previous wfile op
	wpath, wprev string
}

func isWsByte(b byte) bool { return b == ' ' || b == '\t' || b == '\n' || b == '\r' }

func okBad(b bool) string {
	if b {
		return "ok"
	}
	return "bad"
}

// ---- classification of the minimal failing leaf (oracle keys)

func numClass(lit string) string {
	neg := strings.HasPrefix(lit, "-")
	u := strings.TrimPrefix(lit, "-")
	switch {
	case strings.Contains(u, "e+"):
		return "num-exp-plus"
	case strings.Contains(u, "e-"):
		return "num-exp-minus"
	case strings.ContainsAny(u, "eE"):
		return "num-exp"
	case strings.Contains(u, ".") && neg:
		return "num-neg-fraction"
	case strings.Contains(u, "."):
		return "num-fraction"
	case len(u) > 15:
		return "num-int-above-2^53"
	case neg:
		return "num-neg-int"
	}
	return "num-int"
}

func strClass(s string) string {
	switch {
	case !utf8.ValidString(s):
		return "invalid-utf8"
	case strings.ContainsAny(s, "\"\\"):
		return "quote-backslash"
	}
	for _, r := range s {
		switch {
		case r < 0x20 || r == 0x7f:
			return "control"
		case r >= 0x10000:
			return "non-bmp"
		case r >= 0x80:
			return "bmp"
		}
	}
	if s == "" {
		return "empty"
	}
	return "ascii"
}

func keyClass(k string) string {
	if k == "true" || k == "false" || k == "null" {
		return "keyword"
	}
	ident := k != ""
	for i, r := range k {
		if !(r == '_' || r >= 'a' && r <= 'z' || r >= 'A' && r <= 'Z' || r >= '0' && r <= '9' && i > 0) {
			ident = false
		}
	}
	if ident {
		return "ident"
	}
	return "non-ident(" + strClass(k) + ")"
}

func classify(v interface{}) string {
	switch x := v.(type) {
	case nil:
		return "null"
	case bool:
		return "bool"
	case json.Number:
		return numClass(string(x))
	case string:
		return "string-" + strClass(x)
	case []interface{}:
		if len(x) == 0 {
			return "empty-array"
		}
		if len(x) > 1000 {
			return "wide-array"
		}
		return "array"
	case map[string]interface{}:
		if len(x) == 0 {
			return "empty-object"
		}
		if len(x) == 1 {
			for k := range x {
				return "key-" + keyClass(k)
			}
		}
		if len(x) > 1000 {
			return "wide-object"
		}
		return "object"
	}
	return "other"
}

// roundTrip evaluates the property on one value: "" when it holds, otherwise
// what failed ("unparseable"/"differs"/...) and a description.
func roundTrip(v interface{}) (string, string) {
	want, err := json.Marshal(v)
	if err != nil {
		return "", ""
	}
	x, err := jsonx.Marshal(v)
	if err != nil {
		return "marshal-error", fmt.Sprintf("jsonx.Marshal failed: %v", err)
	}
	var raw json.RawMessage
	if err := jsonx.Unmarshal(x, &raw); err != nil {
		return "unparseable", fmt.Sprintf("jsonx.Unmarshal rejects jsonx.Marshal output %q (value %s): %v", x, want, err)
	}
	if ok, path := jx.EqualText(raw, want); !ok {
		return "differs", fmt.Sprintf("Unmarshal(Marshal(v)) = %s, v = %s (at %s; text %q)", raw, want, path, x)
	}
	// the generic target the package's own loop-back test uses
	var box interface{}
	if err := jsonx.Unmarshal(x, &box); err != nil {
		return "unparseable", fmt.Sprintf("jsonx.Unmarshal into interface{} rejects %q: %v", x, err)
	}
	var wbox interface{}
	json.Unmarshal(want, &wbox)
	got, _ := json.Marshal(box)
	wg, _ := json.Marshal(wbox)
	if string(got) != string(wg) {
		return "differs", fmt.Sprintf("generic decode: got %s, want %s", got, wg)
	}
	// integer leaves through typed targets
	if n, ok := v.(json.Number); ok && !strings.ContainsAny(string(n), ".eE") {
		if bi, ok := new(big.Int).SetString(string(n), 10); ok {
			if bi.IsInt64() {
				var i int64
				if err := jsonx.Unmarshal(x, &i); err != nil || i != bi.Int64() {
					return "differs", fmt.Sprintf("int64 target: got %d (%v), want %s", i, err, n)
				}
			} else if bi.IsUint64() {
				var u uint64
				if err := jsonx.Unmarshal(x, &u); err != nil || u != bi.Uint64() {
					return "differs", fmt.Sprintf("uint64 target: got %d (%v), want %s", u, err, n)
				}
			}
		}
	}
	return "", ""
}

// minimise descends to a smallest sub-value that still fails.
func minimise(v interface{}) interface{} {
	switch x := v.(type) {
	case []interface{}:
		if len(x) > 64 { // wide value: the shortest prefix that still fails
			lo, hi := 0, len(x) // prefix of length lo passes (or is empty), of length hi fails
			for hi-lo > 1 {
				mid := (lo + hi) / 2
				if k, _ := roundTrip(x[:mid]); k != "" {
					hi = mid
				} else {
					lo = mid
				}
			}
			if hi < len(x) {
				return minimise(x[:hi:hi])
			}
			if k, _ := roundTrip(x[len(x)-1]); k != "" {
				return minimise(x[len(x)-1])
			}
			return v
		}
		for _, e := range x {
			if k, _ := roundTrip(e); k != "" {
				return minimise(e)
			}
		}
		for _, e := range x {
			w := []interface{}{e}
			if len(x) > 1 {
				if k, _ := roundTrip(w); k != "" {
					return minimise(w)
				}
			}
		}
	case map[string]interface{}:
		for _, e := range x {
			if k, _ := roundTrip(e); k != "" {
				return minimise(e)
			}
		}
		if len(x) > 1 {
			for k, e := range x {
				w := map[string]interface{}{k: e}
				if kk, _ := roundTrip(w); kk != "" {
					return minimise(w)
				}
				w2 := map[string]interface{}{k: nil}
				if kk, _ := roundTrip(w2); kk != "" {
					return w2
				}
			}
		}
		for k := range x {
			if len(x) == 1 {
				w2 := map[string]interface{}{k: nil}
				if kk, _ := roundTrip(w2); kk != "" {
					return w2
				}
			}
		}
	}
	return v
}

func specOf(v interface{}) string {
	bs, err := json.Marshal(v)
	if err != nil {
		return ""
	}
	g, err := jx.Generic(bs)
	if err != nil {
		return ""
	}
	return jx.Spec(g)
}

func (c *ctx) runOp(line string) string {
	ws := strings.Fields(line)
	if len(ws) == 0 {
		return "bad-op"
	}
	arg := func() []byte {
		if len(ws) < 2 {
			return nil
		}
		return hx.UnHex(ws[1])
	}
	switch ws[0] {
	case "print":
		v, rest, ok := jx.ParseSpec(ws[1:])
		if !ok || len(rest) != 0 {
			return "bad-op"
		}
		if len(line) > 4000 {
			c.j.Risky(line)
		}
		x, out := jx.ImplMarshal(v)
		c.keep.Check(line) // results handed out earlier must not change
		c.keep.Add(line, x)
		if kind, desc := roundTrip(v); kind != "" {
			m := minimise(v)
			k2, d2 := roundTrip(m)
			if k2 == "" {
				m, k2, d2 = v, kind, desc
			}
			c.rep.Fail("roundtrip-"+k2+":"+classify(m), d2, []string{"print " + specOf(m)})
		}
		return out
	case "unm":
		if len(line) > 4000 {
			c.j.Risky(line)
		}
		in := arg()
		raw, out := jx.ImplUnmarshal(in)
		cp := append([]byte(nil), raw...)
		jx.Scribble(in) // the input belongs to the caller again
		if !bytes.Equal(raw, cp) {
			c.rep.Fail("result-aliases-input", "what Unmarshal stored changed when the input buffer was overwritten", []string{line})
		}
		c.keep.Check(line)
		return out
	case "conc":
		return c.concurrent(ws, line)
	case "wfile":
		return c.writeFile(ws, line)
	case "rpipe":
		return c.readSpecial(ws, line)
	case "tojson":
		if len(line) > 4000 {
			c.j.Risky(line)
		}
		_, out := jx.ImplToJSON(arg())
		return out
	case "qshape": // is the literal in the image of strconv.Quote
		q := string(arg())
		s, err := strconv.Unquote(q)
		return okBad(err == nil && strconv.Quote(s) == q)
	case "jnum":
		x := arg()
		return okBad(len(x) > 0 && json.Valid(x) && (x[0] == '-' || x[0] >= '0' && x[0] <= '9') && !isWsByte(x[len(x)-1]))
	case "jstr":
		x := arg()
		return okBad(len(x) > 0 && json.Valid(x) && x[0] == '"' && !isWsByte(x[len(x)-1]))
	case "isjson":
		return okBad(json.Valid(arg()))
	case "floatok":
		_, err := strconv.ParseFloat(string(arg()), 64)
		return okBad(err == nil)
	case "goint":
		n, ok := new(big.Int).SetString(string(arg()), 0)
		if !ok {
			return "bad"
		}
		return n.String()
	}
	return "bad-op"
}

// writeFile: WriteFile(path, v) on the run's one path, then ReadFile(path) must give v
// back, whatever was written to the path before.
func (c *ctx) writeFile(ws []string, line string) string {
	v, rest, ok := jx.ParseSpec(ws[1:])
	if !ok || len(rest) != 0 {
		return "bad-op"
	}
	if c.wpath == "" {
		dir := c.work
		if dir == "" {
			dir = os.TempDir()
		}
		c.wpath = filepath.Join(dir, fmt.Sprintf("c07-wfile-%d.jsonx", os.Getpid()))
		os.Remove(c.wpath)
	}
	prev := c.wprev
	c.wprev = line
	want, err := json.Marshal(v)
	if err != nil {
		return "bad-op"
	}
	if err := jsonx.WriteFile(c.wpath, v); err != nil {
		c.rep.Fail("writefile-error", fmt.Sprintf("WriteFile failed: %v", err), []string{line})
		return "write-error"
	}
	ops := []string{line}
	if prev != "" {
		ops = []string{prev, line}
	}
	var raw json.RawMessage
	rerr := jsonx.ReadFile(c.wpath, &raw)
	eq := false
	if rerr == nil {
		eq, _ = jx.EqualText(raw, want)
	}
	if rerr != nil || !eq {
		key := "writefile-roundtrip"
		if k, _ := roundTrip(v); k == "" { // the value alone round-trips: the file is at fault
			key = "writefile-leaves-old-tail"
		}
		got, _ := os.ReadFile(c.wpath)
		c.rep.Fail(key, fmt.Sprintf("ReadFile after WriteFile of %.80s on a path written before: error %v, value %.80s; the file holds %.120q",
			want, rerr, raw, got), ops)
		return "failed"
	}
	return "held"
}

// readSpecial: the text Marshal writes for v, read back through ReadFile and
// ReadFileMaybeJSON from a named pipe (a goroutine writes the text) and through a symbolic
// link to a regular file; the result must be what Unmarshal of the same bytes gives.
func (c *ctx) readSpecial(ws []string, line string) string {
	v, rest, ok := jx.ParseSpec(ws[1:])
	if !ok || len(rest) != 0 {
		return "bad-op"
	}
	text, err := jsonx.Marshal(v)
	if err != nil {
		return "bad-op"
	}
	text = append([]byte(nil), text...)
	var wantRaw json.RawMessage
	wantErr := jsonx.Unmarshal(text, &wantRaw)
	dir := c.work
	if dir == "" {
		dir = os.TempDir()
	}
	base := filepath.Join(dir, fmt.Sprintf("c07-special-%d", os.Getpid()))
	check := func(kind string, read func(p string, v interface{}) error, p string) string {
		var raw json.RawMessage
		var rerr error
		done := hx.WithTimeout(10*time.Second, func() { rerr = read(p, &raw) })
		if !done {
			c.rep.Fail("readfile-hangs:"+kind, "reading "+kind+" did not return within 10 s", []string{line})
			return "hang"
		}
		if (rerr == nil) != (wantErr == nil) || (rerr == nil && !bytes.Equal(raw, wantRaw)) {
			c.rep.Fail("readfile-differs-from-unmarshal:"+kind,
				fmt.Sprintf("reading the %d bytes %.60q from a %s gives error %v, value %.60s; Unmarshal of the same bytes gives error %v, value %.60s",
					len(text), text, kind, rerr, raw, wantErr, wantRaw), []string{line})
			return "differs"
		}
		return ""
	}
	// symbolic link to a regular file
	file, link := base+".jsonx", base+".link"
	os.Remove(file)
	os.Remove(link)
	defer os.Remove(file)
	defer os.Remove(link)
	if err := os.WriteFile(file, text, 0o644); err != nil {
		return "io-error"
	}
	if err := os.Symlink(file, link); err == nil {
		if r := check("symlink", jsonx.ReadFile, link); r != "" {
			return r
		}
		if r := check("symlink-maybejson", jsonx.ReadFileMaybeJSON, link); r != "" {
			return r
		}
	}
	// named pipe
	for _, rd := range []struct {
		kind string
		read func(p string, v interface{}) error
	}{{"fifo", jsonx.ReadFile}, {"fifo-maybejson", jsonx.ReadFileMaybeJSON}} {
		fifo := base + ".fifo"
		os.Remove(fifo)
		if err := syscall.Mkfifo(fifo, 0o600); err != nil {
			c.rep.Count("file:mkfifo-unavailable")
			return "held-without-fifo"
		}
		wdone := make(chan struct{})
		go func() {
			defer close(wdone)
			w, err := os.OpenFile(fifo, os.O_WRONLY, 0)
			if err != nil {
				return
			}
			// in two pieces, as a producer would
			half := len(text) / 2
			w.Write(text[:half])
			time.Sleep(time.Millisecond)
			w.Write(text[half:])
			w.Close()
		}()
		r := check(rd.kind, rd.read, fifo)
		// release a writer whose reader never opened the pipe
		select {
		case <-wdone:
		case <-time.After(200 * time.Millisecond):
			if rf, err := os.OpenFile(fifo, os.O_RDONLY|syscall.O_NONBLOCK, 0); err == nil {
				<-wdone
				rf.Close()
			}
		}
		os.Remove(fifo)
		if r != "" {
			return r
		}
	}
	return "held"
}

// concurrent: n goroutines marshal different values over and over; each keeps its
// previous result and re-verifies it after its next call and checks that every
// result decodes to its own value.
func (c *ctx) concurrent(ws []string, line string) string {
	if len(ws) < 3 {
		return "bad-op"
	}
	n, err := strconv.Atoi(ws[1])
	v, rest, ok := jx.ParseSpec(ws[2:])
	if err != nil || n < 1 || n > 8 || !ok || len(rest) != 0 {
		return "bad-op"
	}
	fails := make([]string, n)
	var wg sync.WaitGroup
	for i := 0; i < n; i++ {
		wg.Add(1)
		go func(i int) {
			defer wg.Done()
			var prev, prevCopy []byte
			for it := 0; it < 60; it++ {
				val := []interface{}{json.Number(strconv.Itoa(i*100000 + it)), v}
				want, _ := json.Marshal(val)
				x, err := jsonx.Marshal(val)
				if err != nil {
					fails[i] = "Marshal failed: " + err.Error()
					return
				}
				cp := append([]byte(nil), x...)
				runtime.Gosched()
				if prev != nil && !bytes.Equal(prev, prevCopy) {
					fails[i] = fmt.Sprintf("goroutine %d: the bytes of its previous Marshal result changed: were %.60q, now %.60q", i, prevCopy, prev)
					return
				}
				var raw json.RawMessage
				if err := jsonx.Unmarshal(x, &raw); err != nil {
					fails[i] = fmt.Sprintf("goroutine %d: Unmarshal rejects its own Marshal result %.60q: %v", i, x, err)
					return
				}
				if ok, _ := jx.EqualText(raw, want); !ok {
					fails[i] = fmt.Sprintf("goroutine %d: its Marshal result decodes to %.60s, want %.60s", i, raw, want)
					return
				}
				prev, prevCopy = x, cp
			}
		}(i)
	}
	wg.Wait()
	for _, f := range fails {
		if f != "" {
			c.rep.Fail("result-aliased-by-later-call:concurrent", f, []string{line})
			return "aliased"
		}
	}
	return "held"
}

// ---- generation

type gen struct {
	g    *jx.Gen
	r    *hx.Rand
	rep  *hx.Report
	ops  []string
	seen map[string]bool
}

func (g *gen) add(op string) bool {
	if g.seen[op] {
		return false
	}
	g.seen[op] = true
	g.ops = append(g.ops, op)
	g.rep.Case(op, true)
	return true
}

// value adds the print op of v and the unm op of what the printer produced.
func (g *gen) value(v interface{}) {
	sp := specOf(v)
	if sp == "" {
		return
	}
	if !g.add("print " + sp) {
		return
	}
	pv, _, _ := jx.ParseSpec(strings.Fields(sp))
	if x, err := jsonx.Marshal(pv); err == nil {
		g.add("unm " + hx.Hex(x))
	}
}

func (g *gen) floatLit() string {
	r := g.r
	digits := func(n int) string {
		var b strings.Builder
		for i := 0; i < n; i++ {
			b.WriteByte(byte('0' + r.Intn(10)))
		}
		return b.String()
	}
	s := digits(1 + r.Intn(20))
	if r.Intn(6) == 0 {
		s = digits(300 + r.Intn(20))
	}
	if r.Bool() {
		s += "." + digits(r.Intn(8))
	}
	switch r.Intn(6) {
	case 0:
	case 1:
		s += hx.Pick(r, []string{"e", "E", "e-", "e+", "E-"})
	default:
		s += hx.Pick(r, []string{"e", "E", "e-", "e+", "E+", "E-"})
		s += hx.Pick(r, []string{digits(1), digits(2), "30" + digits(1), "31" + digits(1), "29" + digits(1), "32" + digits(1), digits(3), "00" + digits(2), digits(6)})
	}
	return s
}

// intLit draws an unsigned literal in and around the language of
// big.Int.SetString(lit, 0): every base prefix in both cases, a bare leading
// zero, underscores in valid and invalid places, digits beyond the base.
func (g *gen) intLit() string {
	r := g.r
	type form struct {
		prefix string
		base   int
	}
	f := hx.Pick(r, []form{{"", 10}, {"", 10}, {"0x", 16}, {"0X", 16}, {"0b", 2}, {"0B", 2}, {"0o", 8}, {"0O", 8},
		{"0", 8}, {"00", 8}, {"0", 10}, {"0", 16}, {"0x", 10}, {"", 16}, {"", 8}})
	body := strconv.FormatUint(r.U64()>>uint(r.Intn(64)), f.base)
	if r.Intn(4) == 0 {
		body = strings.ToUpper(body)
	}
	switch r.Intn(10) {
	case 0: // separators between digits
		if len(body) > 1 {
			k := 1 + r.Intn(len(body)-1)
			body = body[:k] + "_" + body[k:]
		}
	case 1:
		body = "_" + body // valid after a prefix, invalid at the start
	case 2:
		body += "_"
	case 3:
		if len(body) > 1 {
			k := 1 + r.Intn(len(body)-1)
			body = body[:k] + "__" + body[k:]
		}
	case 4:
		body = ""
	case 5:
		body += hx.Pick(r, []string{"8", "9", "a", "g", "z", "G", ".", "-", " ", "e5", "x1", "2"})
	}
	return f.prefix + body
}

func main() {
	log.SetOutput(io.Discard)
	f := hx.ParseFlags()
	rep := hx.NewReport("C07", f)
	rep.Rule = "op lines: print <value> for random and boundary JSON values (numbers over the float64/int64/uint64 ranges and every " +
		"formatting regime, strings over all code-point classes incl. invalid UTF-8, keys that are identifiers/keywords/neither, " +
		"empty and deep containers) with the round-trip oracle, unm <printer output>, and contract ops for strconv/encoding/json " +
		"leaves and the RFC 8259 predicates; distinct = distinct op line; non-trivial = every op"
	c := &ctx{rep: rep, j: hx.NewJournal(f.Work)}
	c.keep = &jx.Keeper{What: "jsonx.Marshal", Fail: rep.Fail}
	c.work = f.Work
	defer func() {
		if c.wpath != "" {
			os.Remove(c.wpath)
		}
	}()

	var ops []string
	if f.Replay != "" {
		if _, serr := os.Stat(f.Replay); serr != nil && !filepath.IsAbs(f.Replay) {
			f.Replay = filepath.Join(os.Getenv("VERIF_DIR"), f.Replay) // ./check runs us in a scratch directory
		}
		var err error
		ops, err = hx.ReadReplayOps(f.Replay)
		if err != nil {
			fmt.Println("replay:", err)
			return
		}
		for _, op := range ops {
			rep.Case(op, true)
		}
	} else {
		g := &gen{r: hx.NewRand(f.Seed), rep: rep, seen: map[string]bool{}}
		g.g = &jx.Gen{R: g.r, Count: rep.Count}
		for _, co := range hx.CorpusOps("C07") {
			for _, op := range co {
				g.add(op)
				rep.Count("corpus")
			}
		}
		nval, nleaf, ncontract, deep := 6000, 10000, 16000, 60
		if f.Thorough() {
			nval, nleaf, ncontract, deep = 200000, 400000, 450000, 400
		}
		// every boundary leaf on its own and as a negative/positive pair
		for _, x := range jx.BoundaryFloats {
			g.value(x)
			g.value(-x)
			g.value([]interface{}{x})
			g.value(map[string]interface{}{"v": x})
		}
		for _, x := range jx.BoundaryInts {
			g.value(x)
			g.value(map[string]interface{}{"v": x})
		}
		for _, x := range jx.BoundaryUints {
			g.value(x)
		}
		for e := -330; e <= 310; e++ { // one number per decade of the float64 range
			x, _ := strconv.ParseFloat("1e"+strconv.Itoa(e), 64)
			if !math.IsInf(x, 0) {
				g.value(x)
				g.value(-x * 1.5)
			}
		}
		for cp := 0; cp < 0x180; cp++ { // every code point up to Latin Extended-A on its own
			g.value(string(rune(cp)))
		}
		for b := 0x80; b < 0x100; b++ { // every lone high byte
			g.value(string([]byte{'a', byte(b)}))
		}
		for _, k := range []string{"a", "true", "false", "null", "9a", "", "a b", "_", "a9", "é", "a\"", "nulls", "True"} {
			g.value(map[string]interface{}{k: 1})
			g.value(map[string]interface{}{k: "x", "ok": nil})
		}
		g.value([]interface{}{})
		g.value(map[string]interface{}{})
		g.value([]interface{}{[]interface{}{}, map[string]interface{}{}})
		// wide and shallow: more containers in one document than the parser's nesting limit
		wide := jx.Wide(10001)
		for _, k := range []string{"sibling-arrays", "sibling-objects", "mixed", "table", "fan-out", "object-of-arrays", "object-of-objects"} {
			g.value(wide[k])
			rep.Count("val:wide:" + k)
		}
		g.value(jx.Wide(9999)["table"])
		for i := 0; i < nleaf; i++ {
			switch g.r.Intn(3) {
			case 0:
				g.value(g.g.Number())
			case 1:
				g.value(g.g.Str())
			default:
				g.value(map[string]interface{}{g.g.Key(): g.g.Value(0)})
			}
		}
		for i := 0; i < nval; i++ {
			g.value(g.g.Value(1 + g.r.Intn(5)))
		}
		for d := 1; d <= deep; d += 1 + d/8 {
			g.value(g.g.Deep(d))
			rep.Count("val:deep")
		}
		// one path written over and over with values of decreasing and increasing rendered length
		wf := func(v interface{}) {
			if sp := specOf(v); sp != "" {
				g.ops = append(g.ops, "wfile "+sp) // order matters: not de-duplicated
				rep.Case("wfile "+sp, true)
				rep.Count("file:write-read")
			}
		}
		for _, n := range []int{300, 40, 3, 0, 120, 1, 5000, 10} {
			wf(strings.Repeat("x", n))
		}
		for _, n := range []int{60, 5, 0, 1, 30} {
			arr := make([]interface{}, n)
			for i := range arr {
				arr[i] = int64(i)
			}
			wf(arr)
			wf(map[string]interface{}{"k": arr, "n": n})
		}
		nwf := 40
		if f.Thorough() {
			nwf = 2000
		}
		for i := 0; i < nwf; i++ {
			wf(g.g.Value(g.r.Intn(4)))
		}
		// the printed text read back from a named pipe and through a symbolic link
		nsp := 12
		if f.Thorough() {
			nsp = 300
		}
		special := []interface{}{true, "x", []interface{}{int64(1), "two", nil}, map[string]interface{}{"a": 1.5, "b c": []interface{}{}},
			strings.Repeat("long ", 2000)}
		for i := 0; i < nsp; i++ {
			special = append(special, g.g.Value(g.r.Intn(3)))
		}
		for _, v := range special {
			if sp := specOf(v); sp != "" {
				g.add("rpipe " + sp)
				rep.Count("file:pipe-symlink")
			}
		}
		// multi-byte characters at every alignment around the reader's buffer sizes
		for _, o := range jx.BoundaryOffsets([]int{4096, 8192, 65536}) {
			for _, ch := range jx.BoundaryRunes {
				g.value(jx.Pad(o-1) + ch + "z")                                         // "pad<ch>: the quote is byte 0
				g.value(map[string]interface{}{jx.Pad(o-7) + ch: "v"})                  // {\n    "pad<ch>
				g.value([]interface{}{jx.Pad(100), jx.Pad(o-120) + ch + ch + ch + "!"}) // somewhere around
				rep.Count("val:buffer-boundary")
			}
		}
		// result isolation under concurrency
		nconc := 6
		if f.Thorough() {
			nconc = 60
		}
		for i := 0; i < nconc; i++ {
			if sp := specOf(g.g.Value(2)); sp != "" && len(sp) < 4000 {
				g.add(fmt.Sprintf("conc %d %s", 2+g.r.Intn(3), sp))
				rep.Count("isolation:concurrent")
			}
		}
		// contracts of the delegated leaves, RFC predicates
		for i := 0; i < ncontract; i++ {
			switch g.r.Intn(7) {
			case 0:
				g.add("qshape " + hx.Hex([]byte(strconv.Quote(g.g.Str()))))
				rep.Count("contract:quote-shape")
			case 1:
				bs, _ := json.Marshal(g.g.Number())
				g.add("jnum " + hx.Hex(bs))
				rep.Count("contract:json-number")
			case 2:
				bs, _ := json.Marshal(g.g.Str())
				g.add("jstr " + hx.Hex(bs))
				rep.Count("contract:json-string")
			case 3:
				g.add("floatok " + hx.Hex([]byte(g.floatLit())))
				rep.Count("contract:parse-float")
			case 4:
				g.add("goint " + hx.Hex([]byte(g.intLit())))
				rep.Count("contract:big-int")
			default:
				bs, _ := json.Marshal(g.g.Value(3))
				if g.r.Intn(3) == 0 && len(bs) > 0 { // damage it
					k := g.r.Intn(len(bs))
					switch g.r.Intn(3) {
					case 0:
						bs = append(bs[:k:k], bs[k+1:]...)
					case 1:
						bs[k] = hx.Pick(g.r, []byte(",:{}[]\"\\0-e. \n\tx"))
					default:
						bs = append(bs[:k:k], append([]byte{hx.Pick(g.r, []byte(",:{}[]\"\\0-e. \n\tx"))}, bs[k:]...)...)
					}
				}
				g.add("isjson " + hx.Hex(bs))
				rep.Count("contract:rfc8259-text")
			}
		}
		ops = g.ops
	}

	if p := os.Getenv("VERIF_DUMP_OPS"); p != "" { // debugging aid: the op lines of this run
		os.WriteFile(p, []byte(strings.Join(ops, "\n")+"\n"), 0o644)
	}
	impl := make([]string, len(ops))
	for i, op := range ops {
		impl[i] = c.runOp(op)
	}
	c.j.Clear()

	// oracle-only ops (conc) have no model answer
	var mops []string
	var midx []int
	for i, op := range ops {
		if !strings.HasPrefix(op, "conc ") && !strings.HasPrefix(op, "wfile ") && !strings.HasPrefix(op, "rpipe ") {
			mops = append(mops, op)
			midx = append(midx, i)
		}
	}
	model, err := hx.RunDriver(f.Driver, nil, mops)
	if err != nil {
		rep.Note("driver failed: %v", err)
		rep.ModelAvailable = false
	} else if model != nil {
		for k, i := range midx {
			m, lp := jx.ModelLine(ops[i], model[k])
			if lp != nil {
				rep.Disagree("leaf-contract:"+lp.Kind, ops[i], impl[i], "the model accepted a literal that strconv rejects: "+lp.Lit)
				continue
			}
			if m != impl[i] {
				rep.Disagree(strings.Fields(ops[i])[0], ops[i], impl[i], m)
			}
		}
		rep.TracesValidated = len(mops)
	}
	for i := 0; i < len(ops) && len(rep.Samples) < 12; i += 1 + len(ops)/12 {
		s := ops[i]
		if len(s) > 160 {
			s = s[:160] + "..."
		}
		rep.Sample(map[string]string{"op": s, "impl": trunc(impl[i])})
	}
	rep.Write(f.Out)
}

func trunc(s string) string {
	if len(s) > 160 {
		return s[:160] + "..."
	}
	return s
}
