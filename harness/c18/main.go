// Harness for C18: content-addressed object stores (objects.NewFS / NewMem /
// NewMapped) and hashutil.CheckReader.  Drives the real code in-process through
// its exported API, pipes the same op lines to the Lean driver (which is
// parametric in sha: the SHA-256 values are computed here and travel in the op
// lines), compares, and evaluates the direct oracle on the implementation:
// key = hex sha256(content); Open returns exactly those bytes or not-found, also
// while creates run; failed creates leave no object and no temp file;
// CheckReader says io.EOF exactly for intact streams.
//
// Op lines are documented in /verif/lean/Drv/C18.lean.
package main

import (
	"context"
	"bytes"
	"crypto/sha256"
	"encoding/hex"
	"errors"
	"fmt"
	"io"
	"os"
	"os/signal"
	"path/filepath"
	"runtime"
	"runtime/debug"
	"sort"
	"strconv"
	"strings"
	"sync"
	"sync/atomic"
	"syscall"
	"time"

	"shanhu.io/g/errcode"
	"shanhu.io/g/hashutil"
	"shanhu.io/g/objects"
	"verif/harness/hx"
)

// ---------------------------------------------------------------- scripts

// item is one scripted read result: data and flag n (nil) | e (io.EOF) | x<code>.
type item struct {
	data []byte
	flag byte // 'n', 'e', 'x'
	code int
}

type faultErr struct{ code int }

func (e *faultErr) Error() string { return fmt.Sprintf("injected fault %d", e.code) }

// errValues: fault codes 900.. stand for particular error VALUES a failing
// source may return (the model treats a fault as an opaque event with a code;
// which value it is, is quantified here by execution).  A source that fails
// with io.ErrUnexpectedEOF or with a wrapped io.EOF has still failed.
var errValues = map[int]error{
	900: io.ErrUnexpectedEOF,
	901: fmt.Errorf("source broke: %w", io.EOF),
	902: io.ErrClosedPipe,
	903: io.ErrNoProgress,
	904: context.Canceled,
	905: errors.New("custom source error"),
	906: fmt.Errorf("short body: %w", io.ErrUnexpectedEOF),
	907: io.ErrShortBuffer,
}

var errValueCodes = []int{900, 901, 902, 903, 904, 905, 906, 907}

func (it item) err() error {
	switch it.flag {
	case 'e':
		return io.EOF
	case 'x':
		if v, ok := errValues[it.code]; ok {
			return v
		}
		return &faultErr{it.code}
	}
	return nil
}

// codeOfErr maps an error that came back from the code under test to the
// fault code of the injected error it is (or wraps), by identity.
func codeOfErr(err error) (int, bool) {
	var fe *faultErr
	if errors.As(err, &fe) {
		return fe.code, true
	}
	// wrapped values first: they also satisfy errors.Is for what they wrap
	for _, c := range []int{901, 906} {
		if errors.Is(err, errValues[c]) {
			return c, true
		}
	}
	for _, c := range errValueCodes {
		if errors.Is(err, errValues[c]) {
			return c, true
		}
	}
	return 0, false
}

func showScript(s []item) string {
	if len(s) == 0 {
		return "-"
	}
	var xs []string
	for _, it := range s {
		f := string(it.flag)
		if it.flag == 'x' {
			f = "x" + strconv.Itoa(it.code)
		}
		xs = append(xs, hx.Hex(it.data)+":"+f)
	}
	return strings.Join(xs, ",")
}

func parseScript(s string) ([]item, bool) {
	if s == "-" {
		return nil, true
	}
	var out []item
	for _, p := range strings.Split(s, ",") {
		ab := strings.Split(p, ":")
		if len(ab) != 2 || ab[1] == "" {
			return nil, false
		}
		var d []byte
		if ab[0] != "-" {
			var err error
			d, err = hex.DecodeString(ab[0])
			if err != nil {
				return nil, false
			}
		}
		it := item{data: d, flag: ab[1][0]}
		switch {
		case ab[1] == "n" || ab[1] == "e":
		case ab[1][0] == 'x':
			c, err := strconv.Atoi(ab[1][1:])
			if err != nil {
				return nil, false
			}
			it.code = c
		default:
			return nil, false
		}
		out = append(out, it)
	}
	return out, true
}

// outcome of a script: the bytes delivered up to the first error and that error.
func scriptOutcome(s []item) (content []byte, ending byte, code int) {
	for _, it := range s {
		content = append(content, it.data...)
		if it.flag != 'n' {
			return content, it.flag, it.code
		}
	}
	return content, 's', 0 // stuck: never generated
}

// scriptReader plays a script: at most len(p) bytes of the current item per
// call; the item's error is returned with its last piece.  After the script
// it keeps returning the last error.
type scriptReader struct {
	s     []item
	i     int
	off   int
	last  error
	yield bool
	calls int
}

func (r *scriptReader) Read(p []byte) (int, error) {
	r.calls++
	if r.yield {
		runtime.Gosched()
	}
	if r.i >= len(r.s) {
		if r.last == nil {
			return 0, io.ErrUnexpectedEOF
		}
		return 0, r.last
	}
	it := r.s[r.i]
	n := copy(p, it.data[r.off:])
	r.off += n
	if r.off < len(it.data) {
		return n, nil
	}
	r.i++
	r.off = 0
	if e := it.err(); e != nil {
		r.last = e
		return n, e
	}
	return n, nil
}

// gatedReader stops before every Read until the scheduler releases it.  When
// the case is over (abort closed) a creator that still reads gets an error, so
// that no goroutine or temp file outlives its case.
type gatedReader struct {
	r       *scriptReader
	arrive  chan struct{}
	release chan struct{}
	abort   chan struct{}
}

var errAbandoned = errors.New("case over: reader abandoned")

func (g *gatedReader) Read(p []byte) (int, error) {
	select {
	case g.arrive <- struct{}{}:
	case <-g.abort:
		return 0, errAbandoned
	}
	select {
	case <-g.release:
	case <-g.abort:
		return 0, errAbandoned
	}
	return g.r.Read(p)
}

// ---------------------------------------------------------------- context

type creator struct {
	g      *gatedReader
	done   chan string // canonical result
	ret    string
	script []item
}

type ctx struct {
	rep  *hx.Report
	j    *hx.Journal
	work string
	nDir int

	fsDir string
	fs    objects.Objects
	mem   objects.Objects
	ms    objects.Store // behind mp
	mp    objects.Objects
	crs   []*creator

	caseOps []string // ops since the last reset (replay for an oracle failure)
	srcObjs map[string]map[string][]byte // store -> key -> content of objects created from caller-owned sources since the last reset
	ops     []string
	impl    []string
	opBytes int
	driver  string
	nOps    int
	nModel  int

	shrinking bool
}

func shaHex(b []byte) string {
	h := sha256.Sum256(b)
	return hex.EncodeToString(h[:])
}

// abandon ends the gated creators that have not returned.
func (c *ctx) abandon() {
	for _, cr := range c.crs {
		if cr.ret == "" || cr.ret == "hang" {
			close(cr.g.abort)
			select {
			case <-cr.done:
			case <-time.After(watchdog):
			}
		}
	}
	c.crs = nil
}

func (c *ctx) reset() {
	c.abandon()
	if c.fsDir != "" {
		os.RemoveAll(c.fsDir)
	}
	c.nDir++
	c.fsDir = filepath.Join(c.work, fmt.Sprintf("c18-store-%d", c.nDir))
	fs, err := objects.NewFS(c.fsDir)
	if err != nil {
		fmt.Fprintln(os.Stderr, "cannot create store:", err)
		os.Exit(3)
	}
	c.fs = fs
	c.srcObjs = map[string]map[string][]byte{}
	c.mem = objects.NewMem()
	c.ms = objects.NewMemStore()
	c.mp = objects.NewMapped(c.ms)
	c.crs = nil
}

func (c *ctx) store(name string) objects.Objects {
	switch name {
	case "fs":
		return c.fs
	case "mem":
		return c.mem
	case "map":
		return c.mp
	}
	return nil
}

// fail records an oracle failure with the smallest op list that reproduces
// it: the op alone for the stateless CheckReader ops, `reset` + the op when a
// re-execution on a fresh store fails the same way, else the whole case.
func (c *ctx) fail(key, desc string) {
	ops := append([]string{}, c.caseOps...)
	if n := len(c.caseOps); n > 0 && !c.shrinking {
		last := c.caseOps[n-1]
		switch strings.Fields(last)[0] {
		case "ck", "cknew", "hashrd", "handles2":
			ops = []string{last}
		case "create", "createw", "bigcreate", "conc", "open", "has", "put", "get":
			if n > 2 && c.reproduces(key, []string{"reset", last}) {
				ops = []string{"reset", last}
			}
		}
	}
	c.rep.Fail(key, desc, ops)
}

func (c *ctx) reproduces(key string, ops []string) bool {
	sub := &ctx{rep: hx.NewReport("C18", &hx.Flags{}), j: hx.NewJournal(""), work: filepath.Join(c.work, "c18-shrink"), shrinking: true}
	os.MkdirAll(sub.work, 0o755)
	defer os.RemoveAll(sub.work)
	sub.reset()
	for _, l := range ops {
		sub.runOp(l)
	}
	sub.abandon()
	for _, f := range sub.rep.OracleFailures {
		if f.Key == key {
			return true
		}
	}
	return false
}

// listing of the fs store: "key:hexcontent" sorted, and temp contents sorted.
func (c *ctx) listFS() (objs, tmps []string, odd []string) {
	ents, err := os.ReadDir(c.fsDir)
	if err != nil {
		return nil, nil, []string{"readdir: " + err.Error()}
	}
	for _, e := range ents {
		if e.Name() == "tmp" {
			if !e.IsDir() {
				odd = append(odd, "tmp is not a directory")
			}
			continue
		}
		if !e.Type().IsRegular() {
			odd = append(odd, "not a regular file: "+e.Name())
			continue
		}
		bs, err := os.ReadFile(filepath.Join(c.fsDir, e.Name()))
		if err != nil {
			odd = append(odd, "unreadable: "+e.Name())
			continue
		}
		objs = append(objs, e.Name()+":"+hx.Hex(bs))
	}
	tents, err := os.ReadDir(filepath.Join(c.fsDir, "tmp"))
	if err != nil {
		odd = append(odd, "tmp unreadable")
	}
	for _, e := range tents {
		bs, _ := os.ReadFile(filepath.Join(c.fsDir, "tmp", e.Name()))
		tmps = append(tmps, hx.Hex(bs))
	}
	sort.Strings(objs)
	sort.Strings(tmps)
	return
}

func showList(xs []string) string { return "[" + strings.Join(xs, ",") + "]" }

func (c *ctx) showListing() string {
	objs, tmps, odd := c.listFS()
	for _, o := range odd {
		c.fail("fs-directory-odd-entry", "unexpected entry in the store directory: "+o)
	}
	// direct oracle: every stored object is named by the SHA-256 of its content
	for _, o := range objs {
		kv := strings.SplitN(o, ":", 2)
		if shaHex(hx.UnHex(kv[1])) != kv[0] {
			c.fail("stored-object-hash-mismatch", "object "+kv[0]+" holds bytes with another SHA-256")
		}
	}
	return "objs=" + showList(objs) + " tmp=" + showList(tmps)
}

func canonErr(err error) string {
	if c, ok := codeOfErr(err); ok {
		return strconv.Itoa(c)
	}
	if errors.Is(err, syscall.EFBIG) {
		return strconv.Itoa(writeFaultCode)
	}
	return "other"
}

// writeFaultCode is how a failed write of the staging file shows in the
// canonical result: the model lets the fault reach Create as the failed read of
// the TeeReader (driver op createw).
const writeFaultCode = 950

// withFileSizeLimit runs f while no file of this process can grow beyond limit
// bytes (RLIMIT_FSIZE): a write beyond it fails with EFBIG, as on a full disk
// or an exceeded quota.  SIGXFSZ is ignored for the whole run (see main).
func withFileSizeLimit(limit uint64, f func()) bool {
	var old syscall.Rlimit
	if err := syscall.Getrlimit(syscall.RLIMIT_FSIZE, &old); err != nil {
		return false
	}
	if old.Max != ^uint64(0) && limit > old.Max {
		return false
	}
	lim := syscall.Rlimit{Cur: limit, Max: old.Max}
	if err := syscall.Setrlimit(syscall.RLIMIT_FSIZE, &lim); err != nil {
		return false
	}
	defer syscall.Setrlimit(syscall.RLIMIT_FSIZE, &old)
	f()
	return true
}

// streamReader hands out `size` bytes of a deterministic pseudo-random stream
// (SplitMix64 from seed) in pieces of at most `piece` bytes, then io.EOF - or,
// when failAt >= 0, the injected fault `code` once failAt bytes are out.  No
// slice of the whole stream ever exists.
type streamReader struct {
	x      uint64
	buf    [8]byte
	nbuf   int
	size   int64
	off    int64
	failAt int64
	code   int
	piece  int
}

func newStream(seed uint64, size, failAt int64, code, piece int) *streamReader {
	return &streamReader{x: seed*0x9E3779B97F4A7C15 + 0xC18, size: size, failAt: failAt, code: code, piece: piece}
}

func (r *streamReader) next() byte {
	if r.nbuf == 0 {
		r.x += 0x9E3779B97F4A7C15
		z := r.x
		z = (z ^ (z >> 30)) * 0xBF58476D1CE4E5B9
		z = (z ^ (z >> 27)) * 0x94D049BB133111EB
		z ^= z >> 31
		for i := 0; i < 8; i++ {
			r.buf[i] = byte(z >> (8 * uint(i)))
		}
		r.nbuf = 8
	}
	b := r.buf[8-r.nbuf]
	r.nbuf--
	return b
}

func (r *streamReader) Read(p []byte) (int, error) {
	end := r.size
	if r.failAt >= 0 && r.failAt < end {
		end = r.failAt
	}
	if r.off >= end {
		if r.failAt >= 0 {
			return 0, item{flag: 'x', code: r.code}.err()
		}
		return 0, io.EOF
	}
	n := len(p)
	if r.piece > 0 && n > r.piece {
		n = r.piece
	}
	if int64(n) > end-r.off {
		n = int(end - r.off)
	}
	for i := 0; i < n; i++ {
		p[i] = r.next()
	}
	r.off += int64(n)
	return n, nil
}

// streamKey is the SHA-256 key of the first size bytes of the stream, hashed on the fly.
func streamKey(seed uint64, size int64) string {
	h := sha256.New()
	io.Copy(h, newStream(seed, size, -1, 0, 0))
	return hex.EncodeToString(h.Sum(nil))
}

// readerFunc is a plain function used as a reader.
type readerFunc func(p []byte) (int, error)

func (f readerFunc) Read(p []byte) (int, error) { return f(p) }

// callerSource builds the kind of source a caller may hand to Create over its
// own copy of content, and returns what the caller may do to that source once
// Create has returned: refill/overwrite it.  A store must not keep a reference
// to memory the caller owns.
func callerSource(kind string, content []byte) (io.Reader, func(after string), bool) {
	bs := append([]byte{}, content...)
	scribble := func(string) {
		for i := range bs {
			bs[i] ^= 0xA5
		}
	}
	switch kind {
	case "buffer":
		buf := bytes.NewBuffer(bs)
		return buf, func(after string) {
			if after == "scribble" {
				scribble("")
				return
			}
			// reuse for the next record, as a caller with one scratch buffer does
			buf.Reset()
			for i := range content {
				buf.WriteByte(content[i] ^ 0x5A)
			}
			buf.WriteString("next record")
		}, true
	case "strings":
		return strings.NewReader(string(content)), func(string) {}, true
	case "bytesreader":
		return bytes.NewReader(bs), scribble, true
	case "limit":
		return io.LimitReader(bytes.NewReader(bs), int64(len(bs))+10), scribble, true
	case "func":
		off := 0
		return readerFunc(func(p []byte) (int, error) {
			if off >= len(bs) {
				return 0, io.EOF
			}
			n := copy(p, bs[off:])
			off += n
			return n, nil
		}), scribble, true
	case "bufferslice":
		// a buffer handed over after part of it was consumed
		buf := bytes.NewBuffer(append([]byte("hdr:"), bs...))
		buf.Next(4)
		return buf, func(string) {
			buf.Reset()
			buf.WriteString("overwritten by the next use of the buffer, longer than before ....")
		}, true
	}
	return nil, nil, false
}

// consumedSource builds a sized reader (Size/Len methods) over used+rest and
// consumes the first len(used) bytes by Read or by Seek before it is handed over.
func consumedSource(kind string, used, rest []byte, via string) (io.Reader, bool) {
	all := append(append([]byte{}, used...), rest...)
	var r interface {
		io.Reader
		io.Seeker
	}
	switch kind {
	case "bytesreader":
		r = bytes.NewReader(all)
	case "strings":
		r = strings.NewReader(string(all))
	case "section":
		r = io.NewSectionReader(bytes.NewReader(append([]byte("xx"), all...)), 2, int64(len(all)))
	default:
		return nil, false
	}
	switch via {
	case "seek":
		if _, err := r.Seek(int64(len(used)), io.SeekStart); err != nil {
			return nil, false
		}
	default:
		if _, err := io.ReadFull(r, make([]byte, len(used))); err != nil {
			return nil, false
		}
	}
	return r, true
}

// create runs one Create call; the result is canonical: "ok <key>", "err <code>", "panic".
func doCreate(st objects.Objects, r io.Reader) (res string) {
	defer func() {
		if p := recover(); p != nil {
			res = "panic"
		}
	}()
	k, err := st.Create(r)
	if err != nil {
		return "err " + canonErr(err)
	}
	return "ok " + k
}

// doOpen returns "ok <hex>", "notfound" or "err".
func doOpen(st objects.Objects, key string) string {
	rc, err := st.Open(key)
	if err != nil {
		if errcode.IsNotFound(err) {
			return "notfound"
		}
		return "err"
	}
	defer rc.Close()
	bs, err := io.ReadAll(rc)
	if err != nil {
		return "err"
	}
	return "ok " + hx.Hex(bs)
}

// checkCreate is the direct oracle for one finished Create call.
func (c *ctx) checkCreate(store string, script []item, res string) {
	content, ending, code := scriptOutcome(script)
	switch ending {
	case 'e':
		want := "ok " + shaHex(content)
		if res != want {
			if strings.HasPrefix(res, "ok ") {
				c.fail("create-key-not-sha256-"+store, fmt.Sprintf("Create returned %s for content with SHA-256 %s", res, shaHex(content)))
			} else {
				c.fail("create-fails-on-good-input-"+store, "Create of a complete input returned "+res)
			}
			return
		}
		st := c.store(store)
		key := shaHex(content)
		if got := doOpen(st, key); got != "ok "+hx.Hex(content) {
			c.fail("open-after-create-wrong-"+store, "Open of a created key returned "+clip(got)+" instead of the content")
		}
		if has, err := st.Has(key); err != nil || !has {
			c.fail("has-after-create-false-"+store, "Has of a created key is false")
		}
	case 'x':
		if res != "err "+strconv.Itoa(code) {
			if strings.HasPrefix(res, "ok ") {
				c.fail("create-ok-on-failed-input-"+store, fmt.Sprintf("input failed after %d bytes but Create returned %s", len(content), res))
			} else {
				c.fail("create-error-not-passed-"+store, "input failed with code "+strconv.Itoa(code)+" but Create returned "+res)
			}
		}
	}
}

func clip(s string) string {
	if len(s) > 120 {
		return s[:120] + "..."
	}
	return s
}

func kvGet(ws []string, k string) (string, bool) {
	for _, w := range ws {
		if strings.HasPrefix(w, k+"=") {
			return w[len(k)+1:], true
		}
	}
	return "", false
}

func keyArg(ws []string) (string, bool) {
	v, ok := kvGet(ws, "k")
	if !ok {
		return "", false
	}
	if v == "-" {
		return "", true
	}
	b, err := hex.DecodeString(v)
	if err != nil {
		return "", false
	}
	return string(b), true
}

const watchdog = 60 * time.Second

// waitCreator waits until creator i is at its next Read or has returned.
func (c *ctx) waitCreator(cr *creator) {
	select {
	case <-cr.g.arrive:
	case r := <-cr.done:
		cr.ret = r
	case <-time.After(watchdog):
		cr.ret = "hang"
		c.fail("create-hangs", "a Create call neither read its input nor returned within 60 s")
	}
}

func showRet(r string) string {
	switch {
	case r == "":
		return "-"
	case strings.HasPrefix(r, "ok "):
		return "ok:" + r[3:]
	case strings.HasPrefix(r, "err "):
		return "err:" + r[4:]
	}
	return r
}

// runOp executes one op line on the implementation and returns its canonical
// output; it also evaluates the direct oracles.
func (c *ctx) runOp(line string) string {
	all := strings.Fields(line)
	var ws []string
	for _, w := range all {
		if !strings.HasPrefix(w, "sha=") && !strings.HasPrefix(w, "cls=") && !strings.HasPrefix(w, "src=") && !strings.HasPrefix(w, "after=") && !strings.HasPrefix(w, "used=") && !strings.HasPrefix(w, "via=") {
			ws = append(ws, w)
		}
	}
	if len(ws) == 0 {
		return "bad-op"
	}
	if ws[0] == "reset" {
		c.reset()
		c.caseOps = c.caseOps[:0]
		c.caseOps = append(c.caseOps, line)
		return "ok"
	}
	c.caseOps = append(c.caseOps, line)
	cls, _ := kvGet(all, "cls")
	switch ws[0] {
	case "create":
		if len(ws) != 3 {
			return "bad-op"
		}
		st := c.store(ws[1])
		script, ok := parseScript(ws[2])
		if st == nil || !ok {
			return "bad-op"
		}
		var before string
		if ws[1] == "fs" {
			before = c.showListing()
		}
		var src io.Reader = &scriptReader{s: script}
		var afterFn func(string)
		srcKind, hasSrc := kvGet(all, "src")
		if hasSrc {
			content, ending, _ := scriptOutcome(script)
			var ok bool
			if usedHex, has := kvGet(all, "used"); has {
				// a sized reader handed over after `used` bytes of it were consumed (a header
				// was read, or a Seek): what Create must store is what REMAINS
				via, _ := kvGet(all, "via")
				src, ok = consumedSource(srcKind, hx.UnHex(usedHex), content, via)
				afterFn = func(string) {}
			} else {
				src, afterFn, ok = callerSource(srcKind, content)
			}
			if !ok || ending != 'e' {
				return "bad-op"
			}
		}
		c.j.Risky(line)
		res := doCreate(st, src)
		c.j.Clear()
		if hasSrc {
			// the caller goes on using its buffer; every object created so far must still be exact
			how, _ := kvGet(all, "after")
			afterFn(how)
			content, _, _ := scriptOutcome(script)
			if strings.HasPrefix(res, "ok ") {
				if c.srcObjs[ws[1]] == nil {
					c.srcObjs[ws[1]] = map[string][]byte{}
				}
				c.srcObjs[ws[1]][strings.TrimPrefix(res, "ok ")] = append([]byte{}, content...)
			}
			for k, want := range c.srcObjs[ws[1]] {
				if got := doOpen(st, k); got != "ok "+hx.Hex(want) {
					if _, consumed := kvGet(all, "used"); consumed {
						c.fail("create-from-consumed-reader-wrong", fmt.Sprintf(
							"a %s reader was handed to Create after part of it had been consumed; Open(%s) in the %s store returns %s, not the %d bytes that remained to be read",
							srcKind, k, ws[1], clip(got), len(want)))
						break
					}
					c.fail("stored-object-aliases-callers-buffer", fmt.Sprintf(
						"after Create(%s source) returned and the caller reused its %s, Open(%s) in the %s store no longer returns the %d bytes that were created (got %s)",
						srcKind, srcKind, k, ws[1], len(want), clip(got)))
					break
				}
			}
		}
		c.checkCreate(ws[1], script, res)
		if ws[1] == "fs" {
			after := c.showListing()
			_, ending, _ := scriptOutcome(script)
			if !strings.HasSuffix(after, "tmp=[]") {
				if ending == 'x' {
					c.fail("failed-create-leaves-temp-file", "after a Create whose input failed the temp directory is not empty: "+clip(after))
				} else {
					c.fail("create-leaves-temp-file", "after a Create returned the temp directory is not empty: "+clip(after))
				}
			}
			objsOf := func(l string) string { return l[:strings.LastIndex(l, " tmp=")] }
			if ending == 'x' && objsOf(after) != objsOf(before) {
				c.fail("failed-create-leaves-object", "a Create whose input failed changed the object listing: "+clip(before)+" -> "+clip(after))
			}
		}
		return res
	case "bigcreate":
		// bigcreate <store> size=<n> fail=<off|-1> code=<c> seed=<s> piece=<p> key=<sha256 of the n bytes>
		// One large stream from a generator reader.  The model has no size bound:
		// its answer is ok <key> for a complete stream, err <code> for a failing one.
		if len(ws) != 8 {
			return "bad-op"
		}
		st := c.store(ws[1])
		get := func(k string) int64 {
			v, _ := kvGet(ws, k)
			n, err := strconv.ParseInt(v, 10, 64)
			if err != nil {
				return -2
			}
			return n
		}
		size, failAt, code, seed, piece := get("size"), get("fail"), get("code"), get("seed"), get("piece")
		key, _ := kvGet(ws, "key")
		if st == nil || size < 0 || failAt < -1 || code < 0 || seed < 0 || piece < 0 || len(key) != 64 {
			return "bad-op"
		}
		want := streamKey(uint64(seed), size)
		if want != key {
			return "bad-op"
		}
		c.j.Risky(line)
		src := newStream(uint64(seed), size, failAt, int(code), int(piece))
		res := doCreate(st, src)
		c.j.Clear()
		store := ws[1]
		switch {
		case failAt >= 0:
			if strings.HasPrefix(res, "ok ") {
				c.fail("create-ok-on-failed-input-"+store, fmt.Sprintf("a stream of %d bytes failed after %d bytes but Create returned %s", size, failAt, res))
			} else if res != "err "+strconv.FormatInt(code, 10) {
				c.fail("create-error-not-passed-"+store, "input failed with code "+strconv.FormatInt(code, 10)+" but Create returned "+res)
			}
			if has, _ := st.Has(streamKey(uint64(seed), failAt)); has {
				c.fail("failed-create-leaves-object", fmt.Sprintf("a stream that failed after %d bytes left an object holding those bytes in the %s store", failAt, store))
			}
		case res != "ok "+want:
			if strings.HasPrefix(res, "ok ") {
				c.fail("create-key-not-sha256-"+store, fmt.Sprintf("Create of a %d-byte stream (read: %d bytes) returned %s, the SHA-256 of the stream is %s", size, src.off, res, want))
			} else {
				c.fail("create-fails-on-good-input-"+store, fmt.Sprintf("Create of a complete %d-byte stream returned %s", size, res))
			}
		default:
			rc, err := st.Open(want)
			if err != nil {
				c.fail("open-after-create-wrong-"+store, "Open of the key of a large object failed")
				break
			}
			ref := newStream(uint64(seed), size, -1, 0, 0)
			a, b := make([]byte, 1<<16), make([]byte, 1<<16)
			var total int64
			same := true
			for {
				n, err := io.ReadFull(rc, a)
				if n > 0 {
					m, _ := io.ReadFull(ref, b[:n])
					if m != n || !bytes.Equal(a[:n], b[:n]) {
						same = false
					}
					total += int64(n)
				}
				if err != nil {
					break
				}
			}
			rc.Close()
			if !same || total != size {
				c.fail("open-after-create-wrong-"+store, fmt.Sprintf("Open of a created %d-byte object returned %d bytes that are not the stream", size, total))
			}
		}
		if src.failAt < 0 && src.off != size && strings.HasPrefix(res, "ok ") {
			c.fail("create-reads-part-of-input-"+store, fmt.Sprintf("Create returned %s after reading %d of %d bytes", res, src.off, size))
		}
		return res
	case "createw":
		// createw fs limit=<n> <script>: Create while the staging file cannot grow beyond n bytes
		if len(ws) != 4 || ws[1] != "fs" {
			return "bad-op"
		}
		limS, ok1 := kvGet(ws, "limit")
		limit, err1 := strconv.ParseUint(limS, 10, 63)
		script, ok2 := parseScript(ws[3])
		st := c.store("fs")
		if !ok1 || err1 != nil || !ok2 || st == nil {
			return "bad-op"
		}
		content, ending, _ := scriptOutcome(script)
		if ending != 'e' {
			return "bad-op"
		}
		before := c.showListing()
		var res string
		c.j.Risky(line)
		if !withFileSizeLimit(limit, func() { res = doCreate(st, &scriptReader{s: script}) }) {
			c.j.Clear()
			return "no-rlimit"
		}
		c.j.Clear()
		after := c.showListing()
		key := shaHex(content)
		if !strings.HasSuffix(after, "tmp=[]") {
			c.fail("write-fault-leaves-temp-file", fmt.Sprintf("after a Create under a file size limit of %d (content %d bytes, result %s) the temp directory is not empty: %s",
				limit, len(content), clip(res), clip(after)))
		}
		objsOf := func(l string) string { return l[:strings.LastIndex(l, " tmp=")] }
		switch {
		case strings.HasPrefix(res, "ok "):
			got := doOpen(st, strings.TrimPrefix(res, "ok "))
			if res != "ok "+key || got != "ok "+hx.Hex(content) {
				n := -1
				if strings.HasPrefix(got, "ok ") {
					n = len(hx.UnHex(strings.TrimPrefix(got, "ok ")))
				}
				c.fail("create-ok-but-truncated-on-write-fault", fmt.Sprintf(
					"the staging file could not grow beyond %d bytes, Create of %d bytes returned %s (sha256 of the content: %s), but Open of that key yields %d bytes that are not the content",
					limit, len(content), clip(res), key, n))
			}
		case res == "panic":
			c.fail("create-panics-on-write-fault", "Create panicked when the staging file hit the size limit")
		default:
			if objsOf(after) != objsOf(before) {
				c.fail("write-fault-leaves-object", "a Create that failed on a write fault changed the object listing: "+clip(before)+" -> "+clip(after))
			}
			if uint64(len(content)) <= limit {
				c.fail("create-fails-without-fault", fmt.Sprintf("Create of %d bytes failed (%s) although the file size limit %d was not reached", len(content), res, limit))
			}
		}
		return res
	case "handles2":
		// handles2 a=<hex> cut=<k> b=<hex>: two NewFS handles on ONE directory (two
		// components of a program, or two processes, sharing a store).  Creator A
		// (handle 1) has consumed its first k bytes when creator B (handle 2) runs a
		// whole Create; then A finishes.  Scheduled with a gate, no timing involved.
		aHex, ok1 := kvGet(ws, "a")
		cutS, ok2 := kvGet(ws, "cut")
		bHex, ok3 := kvGet(ws, "b")
		cut, err1 := strconv.Atoi(cutS)
		if !ok1 || !ok2 || !ok3 || err1 != nil {
			return "bad-op"
		}
		a, b := hx.UnHex(aHex), hx.UnHex(bHex)
		if cut < 0 || cut > len(a) {
			return "bad-op"
		}
		c.reset()
		h1 := c.store("fs")
		h2, err := objects.NewFS(c.fsDir)
		if h1 == nil || err != nil {
			return "bad-op"
		}
		arrived, release := make(chan struct{}), make(chan struct{})
		calls := 0
		rd := readerFunc(func(p []byte) (int, error) {
			calls++
			switch calls {
			case 1:
				if len(p) < cut {
					return 0, errors.New("harness: buffer smaller than the first piece")
				}
				return copy(p, a[:cut]), nil
			case 2:
				close(arrived)
				<-release
				if len(p) < len(a)-cut {
					return 0, errors.New("harness: buffer smaller than the second piece")
				}
				return copy(p, a[cut:]), nil
			}
			return 0, io.EOF
		})
		var resA string
		doneA := make(chan struct{})
		c.j.Risky(line)
		go func() { resA = doCreate(h1, rd); close(doneA) }()
		select {
		case <-arrived:
		case <-doneA:
			c.j.Clear()
			return "a=" + resA + " early"
		case <-time.After(watchdog):
			c.j.Clear()
			return "stuck"
		}
		resB := doCreate(h2, bytes.NewReader(b))
		close(release)
		select {
		case <-doneA:
		case <-time.After(watchdog):
			c.j.Clear()
			return "stuck"
		}
		c.j.Clear()
		listing := c.showListing()
		check := func(who, res string, content []byte) {
			if !strings.HasPrefix(res, "ok ") {
				return
			}
			key := strings.TrimPrefix(res, "ok ")
			for hi, h := range []objects.Objects{h1, h2} {
				if got := doOpen(h, key); key != shaHex(content) || got != "ok "+hx.Hex(content) {
					c.fail("two-handles-object-corrupted", fmt.Sprintf(
						"two store handles share a directory; creator %s got %s, but Open through handle %d returns %s instead of its %d bytes",
						who, res, hi+1, clip(got), len(content)))
					return
				}
			}
		}
		check("B", resB, b)
		check("A", resA, a)
		if !strings.HasPrefix(resA, "ok ") || !strings.HasPrefix(resB, "ok ") {
			c.fail("two-handles-create-fails", "overlapping Creates through two handles on one directory: A returned "+resA+", B returned "+resB)
		}
		if !strings.HasSuffix(listing, "tmp=[]") {
			c.fail("two-handles-temp-left", "after both Creates returned the temp directory is not empty: "+clip(listing))
		}
		return "a=" + resA + " b=" + resB + " " + listing
	case "hashrd":
		if len(ws) != 2 {
			return "bad-op"
		}
		script, ok := parseScript(ws[1])
		if !ok {
			return "bad-op"
		}
		k, err := hashutil.HashReader(&scriptReader{s: script})
		content, ending, code := scriptOutcome(script)
		res := "ok " + k
		if err != nil {
			res = "err " + canonErr(err)
		}
		switch {
		case ending == 'x' && err == nil:
			c.fail("hashreader-ok-on-failed-input", fmt.Sprintf("input failed after %d bytes with fault %d but HashReader returned a digest", len(content), code))
		case ending == 'x' && res != "err "+strconv.Itoa(code):
			c.fail("hashreader-error-not-passed", "input failed with fault "+strconv.Itoa(code)+" but HashReader returned "+res)
		case ending == 'e' && res != "ok "+shaHex(content):
			c.fail("hashreader-wrong-digest", "HashReader of a complete input returned "+clip(res))
		}
		return res
	case "spawn":
		if len(ws) != 3 || ws[1] != "fs" {
			return "bad-op"
		}
		script, ok := parseScript(ws[2])
		if !ok {
			return "bad-op"
		}
		cr := &creator{script: script, done: make(chan string, 1),
			g: &gatedReader{r: &scriptReader{s: script}, arrive: make(chan struct{}), release: make(chan struct{}), abort: make(chan struct{})}}
		c.crs = append(c.crs, cr)
		st := c.fs
		go func() { cr.done <- doCreate(st, cr.g) }()
		c.waitCreator(cr)
		return fmt.Sprintf("id=%d ret=%s %s", len(c.crs)-1, showRet(cr.ret), c.showListing())
	case "step":
		if len(ws) != 3 || ws[1] != "fs" {
			return "bad-op"
		}
		i, err := strconv.Atoi(ws[2])
		if err != nil || i < 0 || i >= len(c.crs) || c.crs[i].ret != "" {
			return "not-enabled"
		}
		cr := c.crs[i]
		cr.g.release <- struct{}{}
		c.waitCreator(cr)
		if cr.ret != "" && cr.ret != "hang" {
			c.checkCreate("fs", cr.script, cr.ret)
		}
		out := fmt.Sprintf("ret=%s %s", showRet(cr.ret), c.showListing())
		alldone := true
		for _, x := range c.crs {
			if x.ret == "" {
				alldone = false
			}
		}
		if alldone && !strings.HasSuffix(out, "tmp=[]") {
			c.fail("temp-file-left-after-all-creates", "all Create calls returned but the temp directory is not empty: "+clip(out))
		}
		return out
	case "conc":
		if len(ws) != 3 {
			return "bad-op"
		}
		st := c.store(ws[1])
		if st == nil {
			return "bad-op"
		}
		var scripts [][]item
		for _, p := range strings.Split(ws[2], ";") {
			s, ok := parseScript(p)
			if !ok {
				return "bad-op"
			}
			scripts = append(scripts, s)
		}
		c.j.Risky(line)
		out := c.runConcurrent(ws[1], st, scripts)
		c.j.Clear()
		return out
	case "list":
		if len(ws) != 2 || ws[1] != "fs" {
			return "bad-op"
		}
		return c.showListing()
	case "open":
		st := c.store(ws[1])
		key, ok := keyArg(ws)
		if st == nil || !ok || len(ws) != 3 {
			return "bad-op"
		}
		got := doOpen(st, key)
		if strings.HasPrefix(got, "ok ") && shaHex(hx.UnHex(got[3:])) != key {
			c.fail("open-returns-wrong-bytes-"+ws[1], "Open("+clip(key)+") returned bytes with another SHA-256")
		}
		if got == "err" {
			c.fail("open-neither-notfound-nor-bytes-"+ws[1], fmt.Sprintf("Open(%q) returned neither not-found nor a readable object", clip(key)))
		}
		return got
	case "has":
		st := c.store(ws[1])
		key, ok := keyArg(ws)
		if st == nil || !ok || len(ws) != 3 {
			return "bad-op"
		}
		has, err := st.Has(key)
		if err != nil {
			return "err"
		}
		return strconv.FormatBool(has)
	case "put":
		if len(ws) != 3 {
			return "bad-op"
		}
		var s objects.Store
		switch ws[1] {
		case "mem":
			s, _ = c.mem.(objects.Store)
		case "map":
			s = c.ms
		}
		if s == nil {
			return "bad-op"
		}
		bs := hx.UnHex(ws[2])
		arg := append([]byte{}, bs...)
		k, err := s.Put(arg)
		if err != nil {
			return "err"
		}
		if k != shaHex(bs) {
			c.fail("put-key-not-sha256-"+ws[1], "Put returned "+k+" for content with SHA-256 "+shaHex(bs))
		}
		// the caller's slice is its own again
		for i := range arg {
			arg[i] ^= 0xff
		}
		if got, err := s.Get(k); err != nil || !bytes.Equal(got, bs) {
			c.fail("put-aliases-caller-slice-"+ws[1], "the stored blob changed when the caller reused the slice it had passed to Put")
		}
		return "ok " + k
	case "get":
		var s objects.Store
		switch ws[1] {
		case "mem":
			s, _ = c.mem.(objects.Store)
		case "map":
			s = c.ms
		}
		key, ok := keyArg(ws)
		if s == nil || !ok || len(ws) != 3 {
			return "bad-op"
		}
		bs, err := s.Get(key)
		if err != nil {
			if errcode.IsNotFound(err) {
				return "notfound"
			}
			return "err"
		}
		if shaHex(bs) != key {
			c.fail("get-returns-wrong-bytes-"+ws[1], "Get("+clip(key)+") returned bytes with another SHA-256")
		}
		return "ok " + hx.Hex(bs)
	case "ck":
		if len(ws) != 5 {
			return "bad-op"
		}
		wantS, ok1 := kvGet(ws, "want")
		lenS, ok2 := kvGet(ws, "len")
		bsS, ok3 := kvGet(ws, "bs")
		script, ok4 := parseScript(ws[4])
		n, err1 := strconv.ParseInt(lenS, 10, 64)
		bs, err2 := strconv.Atoi(bsS)
		if !ok1 || !ok2 || !ok3 || !ok4 || err1 != nil || err2 != nil || bs <= 0 {
			return "bad-op"
		}
		want := hx.UnHex(wantS)
		return c.runCheck(want, n, bs, script, cls)
	case "cknew":
		hS, ok := kvGet(ws, "h")
		if !ok || len(ws) != 2 {
			return "bad-op"
		}
		h := string(hx.UnHex(hS))
		cr, err := hashutil.NewCheckReader(bytes.NewReader(nil), h, -1)
		good := false
		var want []byte
		if strings.HasPrefix(h, "sha256:") {
			if d, e := hex.DecodeString(h[7:]); e == nil && len(d) == 32 {
				good, want = true, d
			}
		}
		if (err == nil) != good {
			c.fail("newcheckreader-parse-"+cls, fmt.Sprintf("NewCheckReader(%q) accepted=%v, expected accepted=%v", clip(h), err == nil, good))
		}
		if err != nil {
			return "bad"
		}
		// the parsed digest is the one that is enforced: the empty stream passes iff want = sha256("")
		_, rerr := io.ReadAll(cr)
		empty := sha256.Sum256(nil)
		if (rerr == nil) != bytes.Equal(want, empty[:]) {
			c.fail("newcheckreader-digest-not-enforced", "a reader made by NewCheckReader does not enforce the digest it was given")
		}
		return "ok " + hx.Hex(want)
	}
	return "bad-op"
}

// runCheck drives a CheckReader over a scripted reader with consumer buffer bs.
func (c *ctx) runCheck(want []byte, n int64, bs int, script []item, cls string) string {
	cr := hashutil.NewSHA256CheckReader(&scriptReader{s: script}, want, n)
	var data []byte
	buf := make([]byte, bs)
	out := ""
	for calls := 0; ; calls++ {
		if calls > 4*len(script)+4*totalLen(script)/bs+64 {
			out = "nil"
			break
		}
		m, err := cr.Read(buf)
		if m < 0 || m > len(buf) {
			c.fail("checkreader-bad-count", "CheckReader.Read returned an impossible count")
			return "bad-count"
		}
		data = append(data, buf[:m]...)
		if err == nil {
			continue
		}
		fcode, isFault := codeOfErr(err)
		switch {
		case err == io.EOF:
			out = "eof"
		case isFault:
			out = "err:" + strconv.Itoa(fcode)
		case errcode.IsInvalidArg(err):
			out = "invalid"
		default:
			out = "err:other"
		}
		break
	}
	// the verdict is per stream: once CheckReader has given its terminal result,
	// every later Read gives the same one (a caller that retries, or an io.ReadAll
	// after an error, must not see io.EOF for a stream that was rejected)
	classify := func(err error) string {
		fc, isF := codeOfErr(err)
		switch {
		case err == nil:
			return "nil"
		case err == io.EOF:
			return "eof"
		case isF:
			return "err:" + strconv.Itoa(fc)
		case errcode.IsInvalidArg(err):
			return "invalid"
		}
		return "err:other"
	}
	if out != "nil" {
		for k := 0; k < 3; k++ {
			m, err := cr.Read(buf)
			if got := classify(err); got != out || m != 0 {
				c.fail("checkreader-verdict-not-sticky", fmt.Sprintf(
					"CheckReader reported %s, Read call %d after that returned (%d, %s) (class %s, declared length %d)", out, k+1, m, got, cls, n))
				break
			}
		}
		// the same through io.ReadAll: first call ends with the verdict, a second call must not turn it into success
		cr2 := hashutil.NewSHA256CheckReader(&scriptReader{s: script}, want, n)
		_, e1 := io.ReadAll(cr2)
		_, e2 := io.ReadAll(cr2)
		v1, v2 := classify(e1), classify(e2)
		if v1 == "nil" {
			v1 = "eof" // ReadAll reports a clean end as nil
		}
		if v2 == "nil" {
			v2 = "eof"
		}
		if v1 != out || v2 != out {
			c.fail("checkreader-verdict-not-sticky", fmt.Sprintf(
				"CheckReader reported %s when read call by call, io.ReadAll gave %s and a second io.ReadAll gave %s (class %s, declared length %d)", out, v1, v2, cls, n))
		}
	}
	// direct oracle
	content, ending, code := scriptOutcome(script)
	sum := sha256.Sum256(content)
	intact := ending == 'e' && bytes.Equal(sum[:], want) && (n < 0 || n == int64(len(content)))
	if cls == "" {
		cls = "unclassified"
	}
	switch {
	case out == "eof" && !intact:
		c.fail("checkreader-eof-on-"+cls, fmt.Sprintf("CheckReader reported io.EOF for a stream that is not the expected one (class %s, declared length %d, %d bytes)", cls, n, len(content)))
	case out != "eof" && intact:
		c.fail("checkreader-rejects-intact-"+cls, "CheckReader reported "+out+" for the intact stream")
	case ending == 'x' && out != "err:"+strconv.Itoa(code):
		c.fail("checkreader-error-not-passed-through", "underlying error not passed through: got "+out)
	}
	if (ending == 'e' || ending == 'x') && !bytes.Equal(data, content) {
		c.fail("checkreader-bytes-altered", "the bytes read through CheckReader differ from the bytes of the underlying stream")
	}
	return out + " data=" + hx.Hex(data)
}

func totalLen(s []item) int {
	n := 0
	for _, it := range s {
		n += len(it.data)
	}
	return n
}

// runConcurrent starts all creates at once, observes the store with Open/Has
// while they run, and returns the (order independent) final state.
func (c *ctx) runConcurrent(store string, st objects.Objects, scripts [][]item) string {
	n := len(scripts)
	rets := make([]string, n)
	var objsBefore []string
	if store == "fs" {
		objsBefore, _, _ = c.listFS()
	}
	// candidate keys: the digests of all complete contents, of all failed prefixes, and an absent one
	type cand struct {
		key     string
		content []byte
	}
	var cands []cand
	seen := map[string]bool{}
	for _, s := range scripts {
		content, _, _ := scriptOutcome(s)
		k := shaHex(content)
		if !seen[k] {
			seen[k] = true
			cands = append(cands, cand{k, content})
		}
	}
	var stop int32
	var obsWG sync.WaitGroup
	var mu sync.Mutex
	var obsFail []string
	var nObs int64
	for o := 0; o < 4; o++ {
		obsWG.Add(1)
		go func(o int) {
			defer obsWG.Done()
			present := map[string]bool{}
			for round := 0; ; round++ {
				last := atomic.LoadInt32(&stop) != 0
				for ci := range cands {
					cd := cands[(ci+o)%len(cands)]
					has, err := st.Has(cd.key)
					got := doOpen(st, cd.key)
					atomic.AddInt64(&nObs, 1)
					var bad string
					switch {
					case err != nil:
						bad = "Has returned an error"
					case got == "notfound":
						if has || present[cd.key] {
							bad = "an object that was present is not found any more"
						}
					case got == "ok "+hx.Hex(cd.content):
						present[cd.key] = true
					default:
						bad = "Open returned " + clip(got) + " while creates were running; expected not-found or the exact " + strconv.Itoa(len(cd.content)) + " bytes"
					}
					if bad != "" {
						mu.Lock()
						obsFail = append(obsFail, bad)
						mu.Unlock()
					}
				}
				if last {
					return
				}
				runtime.Gosched()
			}
		}(o)
	}
	var wg sync.WaitGroup
	start := make(chan struct{})
	for i := range scripts {
		wg.Add(1)
		go func(i int) {
			defer wg.Done()
			<-start
			rets[i] = doCreate(st, &scriptReader{s: scripts[i], yield: true})
		}(i)
	}
	close(start)
	finished := hx.WithTimeout(3*watchdog, wg.Wait)
	atomic.StoreInt32(&stop, 1)
	obsWG.Wait()
	c.rep.Distribution["concurrent_observations"] = addInt(c.rep.Distribution["concurrent_observations"], int(nObs))
	if !finished {
		c.fail("concurrent-create-hangs", "concurrent Create calls did not all return within 180 s")
		return "hang"
	}
	for _, b := range obsFail {
		c.fail("concurrent-open-inexact-"+store, b)
		break
	}
	var shown []string
	for i, r := range rets {
		c.checkCreate(store, scripts[i], r)
		shown = append(shown, showRet(r))
	}
	out := "rets=" + showList(shown)
	if store == "fs" {
		l := c.showListing()
		if !strings.HasSuffix(l, "tmp=[]") {
			c.fail("temp-file-left-after-concurrent-creates", "temp directory not empty after all concurrent creates returned: "+clip(l))
		}
		// exactly the expected keys
		want := map[string]bool{}
		for _, s := range scripts {
			content, ending, _ := scriptOutcome(s)
			if ending == 'e' {
				want[shaHex(content)+":"+hx.Hex(content)] = true
			}
		}
		for _, o := range objsBefore {
			want[o] = true
		}
		objs, _, _ := c.listFS()
		for _, o := range objs {
			if !want[o] {
				c.fail("concurrent-unexpected-object", "object "+clip(o)+" is in the store but no successful Create produced it")
			}
		}
		out += " " + l
	}
	return out
}

func addInt(v interface{}, n int) int {
	if x, ok := v.(int); ok {
		return x + n
	}
	return n
}

// ---------------------------------------------------------------- generators

type gen struct {
	c   *ctx
	rnd *hx.Rand
}

// canon shortens a long op line to a prefix and a digest (the key of a case in the report).
func canon(line string) string {
	if len(line) <= 240 {
		return line
	}
	return line[:100] + "#" + shaHex([]byte(line))[:24]
}

func shaWord(content []byte) string {
	h := sha256.Sum256(content)
	return "sha=" + hx.Hex(content) + ":" + hex.EncodeToString(h[:])
}

func keyHex(k string) string { return "k=" + hx.Hex([]byte(k)) }

// emit runs one op on the implementation and records it for the model.
func (g *gen) emit(line string) string {
	if line == "reset" && g.c.opBytes > 48<<20 {
		g.c.flush()
	}
	out := g.c.runOp(line)
	g.c.ops = append(g.c.ops, line)
	g.c.impl = append(g.c.impl, out)
	g.c.opBytes += len(line) + len(out)
	g.c.nOps++
	return out
}

// flush pipes the ops recorded so far to the Lean driver and diffs.  Batches
// start at a `reset`, so the driver needs no state from earlier batches.
func (c *ctx) flush() {
	if len(c.ops) == 0 {
		return
	}
	rep := c.rep
	if p := os.Getenv("C18_DUMP_OPS"); p != "" { // debugging aid: the op lines as sent to the driver
		if fh, e := os.OpenFile(p, os.O_APPEND|os.O_CREATE|os.O_WRONLY, 0o644); e == nil {
			fh.WriteString(strings.Join(c.ops, "\n") + "\n")
			fh.Close()
		}
	}
	model, err := hx.RunDriver(c.driver, nil, c.ops)
	if err != nil {
		rep.Note("driver: %v", clip(err.Error()))
		if c.driver != "" {
			rep.Disagree("driver", "(driver run)", "", clip(err.Error()))
		}
	}
	if model != nil && err == nil {
		for i := range c.ops {
			if c.impl[i] != model[i] {
				rep.Disagree(strings.Fields(c.ops[i])[0], clip(c.ops[i]), clip(c.impl[i]), clip(model[i]))
			}
		}
		c.nModel += len(c.ops)
	}
	c.ops, c.impl, c.opBytes = c.ops[:0], c.impl[:0], 0
}

func withSha(line string, script []item) string {
	content, ending, _ := scriptOutcome(script)
	if ending == 'e' {
		return line + " " + shaWord(content)
	}
	return line
}

// compositions of n as ordered sums.
func compositions(n int) [][]int {
	if n == 0 {
		return [][]int{{}}
	}
	var out [][]int
	for first := 1; first <= n; first++ {
		for _, rest := range compositions(n - first) {
			out = append(out, append([]int{first}, rest...))
		}
	}
	return out
}

func chunksOf(content []byte, comp []int) [][]byte {
	var out [][]byte
	off := 0
	for _, n := range comp {
		out = append(out, content[off:off+n])
		off += n
	}
	return out
}

// scriptsFor enumerates, for one chunking, the good endings and a failure at
// every chunk boundary (alone and together with the following chunk).
func scriptsFor(chunks [][]byte) (good [][]item, bad [][]item) {
	var base []item
	for _, ch := range chunks {
		base = append(base, item{data: ch, flag: 'n'})
	}
	cp := func(s []item) []item { return append([]item{}, s...) }
	// EOF as a separate (0, io.EOF)
	good = append(good, append(cp(base), item{flag: 'e'}))
	if len(base) > 0 {
		// (n > 0, io.EOF)
		s := cp(base)
		s[len(s)-1].flag = 'e'
		good = append(good, s)
		// an empty read in the middle
		s2 := append(cp(base[:1]), item{flag: 'n'})
		s2 = append(s2, base[1:]...)
		good = append(good, append(s2, item{flag: 'e'}))
	}
	for p := 0; p <= len(base); p++ {
		// (0, err) before chunk p
		bad = append(bad, append(cp(base[:p]), item{flag: 'x', code: 100 + p}))
		if p < len(base) {
			// (n > 0, err): chunk p comes with the error
			s := cp(base[:p+1])
			s[p].flag = 'x'
			s[p].code = 200 + p
			bad = append(bad, s)
		}
	}
	return
}

var stores = []string{"fs", "mem", "map"}

func (g *gen) content(n int) []byte {
	b := g.rnd.Bytes(n)
	return b
}

// A: all chunkings and a fault after every byte offset, small contents, every store.
func (g *gen) faultEnumeration(maxLen int) {
	rep := g.c.rep
	for _, store := range stores {
		for L := 0; L <= maxLen; L++ {
			content := g.content(L)
			g.emit("reset")
			for _, comp := range compositions(L) {
				good, bad := scriptsFor(chunksOf(content, comp))
				for _, s := range bad {
					g.emit("create " + store + " " + showScript(s))
					rep.Count("create-" + store + "-input-fails")
					rep.Case(canon("create "+store+" "+showScript(s)), true)
				}
				for _, s := range good {
					g.emit(withSha("create "+store+" "+showScript(s), s))
					rep.Count("create-" + store + "-complete")
					rep.Case(canon("create "+store+" "+showScript(s)), true)
				}
				if store == "fs" {
					g.emit("list fs")
				}
			}
			// failures after the object exists must not disturb it
			g.emit("open " + store + " " + keyHex(shaHex(content)))
			g.emit("has " + store + " " + keyHex(shaHex(content)))
			if L == 3 {
				rep.Sample(map[string]string{"op": g.c.ops[len(g.c.ops)-4], "impl": g.c.impl[len(g.c.impl)-4]})
			}
		}
	}
}

// errorValues: the fault enumeration once more with the error VALUE varied:
// every value of errValues, as (0, err) and as (n > 0, err), at every offset of
// small contents, for Create on the three stores, for HashReader and for
// CheckReader (with and without declared length, several read sizes).
func (g *gen) errorValues(maxLen int) {
	rep := g.c.rep
	g.emit("reset")
	for L := 0; L <= maxLen; L++ {
		content := g.content(L)
		comp := make([]int, L)
		for i := range comp {
			comp[i] = 1
		}
		comps := [][]int{comp}
		if L >= 2 {
			comps = append(comps, []int{L})
		}
		sum := sha256.Sum256(content)
		for _, cp := range comps {
			_, bad := scriptsFor(chunksOf(content, cp))
			for _, s0 := range bad {
				for _, code := range errValueCodes {
					s := append([]item{}, s0...)
					s[len(s)-1].code = code
					for _, store := range stores {
						line := "create " + store + " " + showScript(s)
						g.emit(line)
						rep.Count("errvalue-create-" + store)
						rep.Case(canon(line), true)
					}
					line := "hashrd " + showScript(s)
					g.emit(line)
					rep.Count("errvalue-hashreader")
					rep.Case(canon(line), true)
					for _, n := range []int64{-1, int64(L)} {
						for _, bs := range []int{1, L + 1} {
							line := fmt.Sprintf("ck want=%s len=%d bs=%d %s cls=errvalue", hx.Hex(sum[:]), n, bs, showScript(s))
							g.emit(line)
							rep.Count("errvalue-checkreader")
							rep.Case(canon(line), true)
						}
					}
				}
			}
		}
		g.emit("list fs")
	}
	// complete inputs still hash: HashReader on every chunking of a small content
	for _, cp := range compositions(4) {
		good, _ := scriptsFor(chunksOf(g.content(4), cp))
		for _, s := range good {
			g.emit(withSha("hashrd "+showScript(s), s))
			rep.Count("hashreader-complete")
		}
	}
}

// writeFaults: the file-write fault axis.  The staging file of a Create may not
// grow beyond `limit` bytes (RLIMIT_FSIZE, in-process, SIGXFSZ ignored), for
// every limit in a window around the content length and around the 4096-byte
// block boundaries, content sizes around 4096*k +- a few and well inside and
// outside one block, input pieces of 7 / 700 / everything at once.  Required:
// Create returns an error and leaves nothing, or the key opens to exactly the
// content.
func (g *gen) writeFaults(thorough bool) {
	rep := g.c.rep
	sizes := []int{1, 100, 4095, 4097, 6000, 8193}
	if thorough {
		sizes = []int{1, 2, 100, 1000, 4093, 4094, 4095, 4096, 4097, 4098, 4099, 6000, 8190, 8191, 8192, 8193, 8194, 10000, 12287, 12288, 12289, 20000, 70000}
	}
	noRlimit := false
	for _, size := range sizes {
		content := g.content(size)
		lims := map[int]bool{0: true, 1: true, size / 2: true, 4095: true, 4096: true, 4097: true, 8192: true}
		for d := -4; d <= 2; d++ {
			lims[size+d] = true
			lims[size-4096+d] = true
			lims[(size/4096)*4096+d] = true
		}
		if thorough {
			for d := -40; d <= 4; d++ {
				lims[size+d] = true
			}
			lims[size-1024] = true
			lims[size-2048] = true
		}
		var ord []int
		for l := range lims {
			if l >= 0 && l <= size+2 {
				ord = append(ord, l)
			}
		}
		sort.Ints(ord)
		for _, piece := range []int{7, 700, 1 << 20} {
			if piece == 7 && size > 5000 {
				continue
			}
			var base []item
			for off := 0; off < size; off += piece {
				e := off + piece
				if e > size {
					e = size
				}
				base = append(base, item{data: content[off:e], flag: 'n'})
			}
			sep := append(append([]item{}, base...), item{flag: 'e'})
			tog := append([]item{}, base...)
			tog[len(tog)-1].flag = 'e'
			for i, l := range ord {
				s := sep
				if i%2 == 1 {
					s = tog
				}
				// a fresh store: the fault must strike the first copy of the content
				g.emit("reset")
				line := withSha(fmt.Sprintf("createw fs limit=%d %s", l, showScript(s)), s)
				out := g.emit(line)
				g.emit("list fs")
				g.emit("open fs " + keyHex(shaHex(content)))
				rep.Count("write-fault:" + strings.Fields(out + " x")[0])
				rep.Case(fmt.Sprintf("createw size=%d piece=%d limit=%d", size, piece, l), true)
				if out == "no-rlimit" {
					noRlimit = true
				}
			}
		}
	}
	rep.Count("write-fault-sizes:" + strconv.Itoa(len(sizes)))
	if noRlimit {
		rep.Note("RLIMIT_FSIZE could not be set in this environment: the file-write fault axis did not run")
	}
}

// largeStreams: size independence.  The model has no size bound; streams around
// 64 MiB and one above 128 MiB come from a generator reader (never a slice),
// with a fault after the 64 MiB mark, for every store kind.
func (g *gen) largeStreams(thorough bool) {
	rep := g.c.rep
	const mi = int64(1) << 20
	type lc struct {
		store        string
		size, failAt int64
	}
	cases := []lc{{"mem", 64*mi + 1, -1}, {"mem", 64*mi + 4096, 64*mi + 1000}}
	if thorough {
		cases = nil
		for _, st := range []string{"mem", "map", "fs"} {
			for _, sz := range []int64{64*mi - 1, 64 * mi, 64*mi + 1, 130*mi + 7} {
				cases = append(cases, lc{st, sz, -1})
			}
			cases = append(cases, lc{st, 64*mi + 4096, 64*mi + 1000}, lc{st, 64*mi + 1, 64 * mi}, lc{st, 130 * mi, 128*mi + 5})
		}
	}
	for i, cse := range cases {
		seed := uint64(g.rnd.Intn(1 << 30))
		piece := hx.Pick(g.rnd, []int{0, 32768, 70000, 1 << 20})
		code := 0
		if cse.failAt >= 0 {
			code = hx.Pick(g.rnd, []int{960 + i, 900, 902})
		}
		g.emit("reset")
		line := fmt.Sprintf("bigcreate %s size=%d fail=%d code=%d seed=%d piece=%d key=%s", cse.store, cse.size, cse.failAt, code, seed, piece, streamKey(seed, cse.size))
		g.emit(line)
		g.emit("reset")
		debug.FreeOSMemory()
		kind := "complete"
		if cse.failAt >= 0 {
			kind = "fails-after-64MiB"
		}
		rep.Count("large-stream-" + cse.store + "-" + kind)
		rep.Case(fmt.Sprintf("bigcreate %s %d %d", cse.store, cse.size, cse.failAt), true)
	}
}

// callerSources: Create fed with the reader kinds callers really pass
// (*bytes.Buffer, *strings.Reader, *bytes.Reader, io.LimitReader, a func
// reader), the source reused/overwritten after Create returned, then open_exact
// re-verified for every key created so far.
func (g *gen) callerSources(thorough bool) {
	rep := g.c.rep
	sizes := []int{0, 1, 5, 64, 4096, 70000}
	if thorough {
		sizes = []int{0, 1, 2, 5, 63, 64, 65, 511, 512, 513, 4095, 4096, 4097, 32768, 70000, 1 << 20}
	}
	kinds := []string{"buffer", "bufferslice", "strings", "bytesreader", "limit", "func"}
	for _, store := range stores {
		g.emit("reset")
		var keys []string
		for _, size := range sizes {
			for ki, kind := range kinds {
				content := g.content(size)
				if size > 0 {
					content[0] = byte(ki) // distinct objects per kind
				}
				after := "refill"
				if (size+ki)%2 == 1 {
					after = "scribble"
				}
				s := []item{{data: content, flag: 'n'}, {flag: 'e'}}
				line := withSha("create "+store+" "+showScript(s), s) + " src=" + kind + " after=" + after
				g.emit(line)
				keys = append(keys, shaHex(content))
				rep.Count("caller-source-" + store + "-" + kind)
				rep.Case(fmt.Sprintf("create %s src=%s size=%d", store, kind, size), true)
			}
		}
		// sized readers handed over after 1, half, all-but-one and all of their bytes were consumed
		total := []int{2, 9, 64, 4097}
		if thorough {
			total = []int{1, 2, 3, 9, 64, 511, 4096, 4097, 70000}
		}
		for _, n := range total {
			whole := g.content(n)
			for _, kind := range []string{"bytesreader", "strings", "section"} {
				for _, via := range []string{"read", "seek"} {
					for _, used := range []int{1, n / 2, n - 1, n} {
						if used < 0 || used > n {
							continue
						}
						rest := whole[used:]
						s := []item{{data: rest, flag: 'n'}, {flag: 'e'}}
						line := withSha("create "+store+" "+showScript(s), s) + " src=" + kind + " used=" + hx.Hex(whole[:used]) + " via=" + via
						g.emit(line)
						keys = append(keys, shaHex(rest))
						rep.Count("consumed-source-" + store + "-" + kind + "-" + via)
						rep.Case(fmt.Sprintf("create %s src=%s via=%s n=%d used=%d", store, kind, via, n, used), true)
					}
				}
			}
		}
		for _, k := range keys {
			g.emit("open " + store + " " + keyHex(k))
		}
		if store == "fs" {
			g.emit("list fs")
		}
	}
}

// twoHandles: two NewFS handles on one directory with overlapping Creates.
func (g *gen) twoHandles(n int) {
	rep := g.c.rep
	for i := 0; i < n; i++ {
		la := 1 + g.rnd.Intn(40)
		lb := g.rnd.Intn(60)
		if i%3 == 0 {
			la, lb = 2000+g.rnd.Intn(3000), 1+g.rnd.Intn(5000)
		}
		a, b := g.content(la), g.content(lb)
		if i%5 == 4 {
			b = append([]byte{}, a...) // equal contents
		}
		cut := g.rnd.Intn(la + 1)
		if i%2 == 0 && la > 1 {
			cut = 1 + g.rnd.Intn(la-1)
		}
		line := fmt.Sprintf("handles2 a=%s cut=%d b=%s %s %s", hx.Hex(a), cut, hx.Hex(b), shaWord(a), shaWord(b))
		g.emit(line)
		g.emit("reset")
		rep.Count("two-handles-overlapping-creates")
		rep.Case(fmt.Sprintf("handles2 %d %d %d %v", la, cut, lb, i%5 == 4), true)
	}
}

func (g *gen) randomScript(content []byte, maxChunk int, failAt int) []item {
	var s []item
	off := 0
	end := len(content)
	if failAt >= 0 {
		end = failAt
	}
	for off < end {
		n := 1 + g.rnd.Intn(maxChunk)
		if g.rnd.Intn(4) == 0 {
			n = 1 + g.rnd.Intn(3)
		}
		if off+n > end {
			n = end - off
		}
		if g.rnd.Intn(9) == 0 {
			s = append(s, item{flag: 'n'})
		}
		s = append(s, item{data: content[off : off+n], flag: 'n'})
		off += n
	}
	term := byte('e')
	code := 0
	if failAt >= 0 {
		term, code = 'x', 300+g.rnd.Intn(50)
	}
	if len(s) > 0 && len(s[len(s)-1].data) > 0 && g.rnd.Bool() {
		s[len(s)-1].flag, s[len(s)-1].code = term, code
	} else {
		s = append(s, item{flag: term, code: code})
	}
	return s
}

var bigSizes = []int{0, 1, 2, 31, 32, 33, 511, 512, 513, 1023, 1024, 4095, 4096, 4097, 32767, 32768, 32769, 65543, 100000}

// B: bigger contents around the buffer sizes of io.ReadAll (512) and io.Copy (32 KiB), random chunkings and faults.
func (g *gen) bigContents(cases int) {
	rep := g.c.rep
	for _, store := range stores {
		g.emit("reset")
		for i := 0; i < cases; i++ {
			size := bigSizes[i%len(bigSizes)]
			if i >= len(bigSizes) {
				size = hx.Pick(g.rnd, bigSizes) + g.rnd.Intn(3)
			}
			content := g.content(size)
			maxChunk := hx.Pick(g.rnd, []int{1, 7, 512, 513, 4096, 32768, 32769, 70000})
			if size > 5000 && maxChunk < 512 {
				maxChunk = 512
			}
			failAt := -1
			if i%2 == 1 {
				failAt = g.rnd.Intn(size + 1)
			}
			s := g.randomScript(content, maxChunk, failAt)
			g.emit(withSha("create "+store+" "+showScript(s), s))
			rep.Count(fmt.Sprintf("big-%s-size<=%d", store, bucket(size)))
			rep.Case(fmt.Sprintf("big %s %d %d %d", store, size, failAt, len(s)), true)
			if failAt < 0 {
				g.emit("has " + store + " " + keyHex(shaHex(content)))
			}
			if store == "fs" && i%8 == 7 {
				g.emit("reset")
			}
		}
	}
}

func bucket(n int) int {
	for _, b := range []int{0, 64, 512, 4096, 32768, 1 << 20} {
		if n <= b {
			return b
		}
	}
	return 1 << 30
}

// C: gated interleavings on the fs store: every step is one read result of one
// creator followed by everything that creator does until its next Read or return.
func (g *gen) gated(schedules int, exhaustive bool) {
	rep := g.c.rep
	pool := [][]byte{{}, {0x61}, {0x61, 0x62}, {0x61, 0x62, 0x63}, {0x62}, g.content(5), g.content(9)}
	run := func(scripts [][]item, order []int) {
		g.emit("reset")
		for _, s := range scripts {
			g.emit(withSha("spawn fs "+showScript(s), s))
		}
		for _, i := range order {
			g.emit(fmt.Sprintf("step fs %d", i))
		}
		g.emit("list fs")
		for _, s := range scripts {
			content, _, _ := scriptOutcome(s)
			g.emit("open fs " + keyHex(shaHex(content)))
		}
		rep.Count(fmt.Sprintf("gated-schedule-%d-creators", len(scripts)))
		var texts []string
		for _, s := range scripts {
			texts = append(texts, showScript(s))
		}
		rep.Case(canon(fmt.Sprintf("gated %v %v", texts, order)), true)
	}
	if exhaustive {
		// two creators, all interleavings of their read results, equal / different contents, with and without faults
		mk := func(content []byte, fail bool) []item {
			s := []item{{data: content[:1], flag: 'n'}, {data: content[1:], flag: 'e'}}
			if fail {
				s[1].flag, s[1].code = 'x', 77
			}
			return s
		}
		a, b := []byte{1, 2}, []byte{3, 4}
		for _, pair := range [][2][]item{{mk(a, false), mk(a, false)}, {mk(a, false), mk(b, false)},
			{mk(a, false), mk(a, true)}, {mk(a, true), mk(b, true)}, {mk(a, true), mk(a, false)}} {
			for _, order := range interleavings(2, 2) {
				run([][]item{pair[0], pair[1]}, order)
			}
		}
	}
	for n := 0; n < schedules; n++ {
		k := 2 + g.rnd.Intn(3)
		var scripts [][]item
		var remaining []int
		for i := 0; i < k; i++ {
			content := hx.Pick(g.rnd, pool)
			failAt := -1
			if g.rnd.Intn(4) == 0 {
				failAt = g.rnd.Intn(len(content) + 1)
			}
			s := g.randomScript(content, 3, failAt)
			scripts = append(scripts, s)
			for range s {
				remaining = append(remaining, i)
			}
		}
		// random shuffle = random interleaving
		for i := len(remaining) - 1; i > 0; i-- {
			j := g.rnd.Intn(i + 1)
			remaining[i], remaining[j] = remaining[j], remaining[i]
		}
		run(scripts, remaining)
		if n == 0 {
			rep.Sample(map[string]string{"op": g.c.ops[len(g.c.ops)-len(scripts)-2], "impl": clip(g.c.impl[len(g.c.impl)-len(scripts)-2])})
		}
	}
}

// interleavings of two sequences of lengths a and b (as lists of 0/1).
func interleavings(a, b int) [][]int {
	if a == 0 && b == 0 {
		return [][]int{{}}
	}
	var out [][]int
	if a > 0 {
		for _, r := range interleavings(a-1, b) {
			out = append(out, append([]int{0}, r...))
		}
	}
	if b > 0 {
		for _, r := range interleavings(a, b-1) {
			out = append(out, append([]int{1}, r...))
		}
	}
	return out
}

// D: truly concurrent creates with observers.
func (g *gen) concurrent(rounds, creators int) {
	rep := g.c.rep
	for _, store := range stores {
		for r := 0; r < rounds; r++ {
			g.emit("reset")
			npool := 1 + g.rnd.Intn(4)
			var pool [][]byte
			for i := 0; i < npool; i++ {
				pool = append(pool, g.content(hx.Pick(g.rnd, []int{0, 1, 1, 2, 3, 3, 16, 64, 64, 600, 600, 5000, 40000})))
			}
			var parts, shas []string
			seen := map[string]bool{}
			for i := 0; i < creators; i++ {
				content := hx.Pick(g.rnd, pool)
				failAt := -1
				if g.rnd.Intn(5) == 0 {
					failAt = g.rnd.Intn(len(content) + 1)
				}
				s := g.randomScript(content, hx.Pick(g.rnd, []int{1, 16, 700, 33000}), failAt)
				if len(s) > 400 {
					s = g.randomScript(content, 700, failAt)
				}
				parts = append(parts, showScript(s))
				if failAt < 0 && !seen[string(content)] {
					seen[string(content)] = true
					shas = append(shas, shaWord(content))
				}
			}
			g.emit("conc " + store + " " + strings.Join(parts, ";") + " " + strings.Join(shas, " "))
			for _, p := range pool {
				g.emit("open " + store + " " + keyHex(shaHex(p)))
			}
			rep.Count("concurrent-round-" + store)
			rep.Case(fmt.Sprintf("conc %s %d %d", store, r, len(parts)), true)
		}
	}
}

// E: CheckReader.
func (g *gen) checkReader(maxLen int, bigCases int) {
	rep := g.c.rep
	g.emit("reset")
	emitCk := func(cls string, want []byte, n int64, bs int, s []item) {
		content, ending, _ := scriptOutcome(s)
		line := fmt.Sprintf("ck want=%s len=%d bs=%d %s cls=%s", hx.Hex(want), n, bs, showScript(s), cls)
		if ending == 'e' {
			line += " " + shaWord(content)
		}
		g.emit(line)
		rep.Count("checkreader-" + cls)
		rep.Case(canon(line), true)
	}
	styles := func(stream []byte, chunk int) [][]item {
		var base []item
		for off := 0; off < len(stream); off += chunk {
			e := off + chunk
			if e > len(stream) {
				e = len(stream)
			}
			base = append(base, item{data: stream[off:e], flag: 'n'})
		}
		sep := append(append([]item{}, base...), item{flag: 'e'})
		out := [][]item{sep}
		if len(base) > 0 {
			tog := append([]item{}, base...)
			tog[len(tog)-1].flag = 'e'
			out = append(out, tog)
		}
		return out
	}
	type variant struct {
		cls    string
		stream []byte
	}
	for L := 0; L <= maxLen; L++ {
		content := g.content(L)
		sum := sha256.Sum256(content)
		want := sum[:]
		var vs []variant
		vs = append(vs, variant{"intact", content})
		for p := 0; p < L; p++ {
			for _, m := range []byte{0x01, 0x80, 0xff} {
				c2 := append([]byte{}, content...)
				c2[p] ^= m
				vs = append(vs, variant{"corrupt-byte", c2})
			}
		}
		for p := 0; p < L; p++ {
			vs = append(vs, variant{"truncated", content[:p]})
		}
		vs = append(vs, variant{"extended", append(append([]byte{}, content...), 0)})
		vs = append(vs, variant{"extended", append(append([]byte{}, content...), content...)})
		if L == 0 {
			vs = vs[:2] // intact + one extension
		}
		if g.c.nDir%2 == 0 {
			g.emit("reset")
		}
		lens := []int64{-1, int64(L), -5}
		for _, v := range vs {
			for bs := 1; bs <= L+1; bs++ {
				for _, chunk := range []int{L + 2, 1, 2} {
					if chunk == 2 && L < 3 {
						continue
					}
					for _, s := range styles(v.stream, chunk) {
						for _, n := range lens {
							cls := v.cls
							if n >= 0 {
								cls += "-declared-length"
							}
							emitCk(cls, want, n, bs, s)
						}
					}
				}
			}
			// wrong declared lengths on this stream
			for _, n := range []int64{int64(len(v.stream)) + 1, int64(len(v.stream)) - 1, 0, int64(L) + 1} {
				if n < 0 || n == int64(L) {
					continue
				}
				emitCk(v.cls+"-wrong-declared-length", want, n, L+1, styles(v.stream, L+2)[0])
			}
		}
		// an error of the underlying reader at every offset passes through
		for p := 0; p <= L; p++ {
			s := []item{{data: content[:p], flag: 'n'}, {flag: 'x', code: 400 + p}}
			emitCk("underlying-error", want, -1, L+1, s)
			s2 := []item{{data: content[:p], flag: 'x', code: 500 + p}}
			emitCk("underlying-error", want, int64(L), 1, s2)
		}
		// digests of the wrong size never match
		for _, w := range [][]byte{nil, want[:31], append(append([]byte{}, want...), 0)} {
			emitCk("wrong-digest-size", w, -1, L+1, styles(content, L+2)[0])
			emitCk("wrong-digest-size-declared-length", w, int64(L), L+1, styles(content, L+2)[0])
		}
		if L == 4 {
			rep.Sample(map[string]string{"op": g.c.ops[len(g.c.ops)-1], "impl": g.c.impl[len(g.c.impl)-1]})
		}
	}
	// bigger streams, random positions
	for i := 0; i < bigCases; i++ {
		if i%16 == 0 {
			g.emit("reset")
		}
		size := hx.Pick(g.rnd, []int{63, 64, 65, 511, 512, 1000, 4096, 10000})
		content := g.content(size)
		sum := sha256.Sum256(content)
		stream := content
		cls := "intact"
		switch g.rnd.Intn(4) {
		case 0:
			c2 := append([]byte{}, content...)
			c2[g.rnd.Intn(size)] ^= byte(1 << uint(g.rnd.Intn(8)))
			stream, cls = c2, "corrupt-byte"
		case 1:
			stream, cls = content[:g.rnd.Intn(size)], "truncated"
		case 2:
			stream, cls = append(append([]byte{}, content...), g.rnd.Bytes(1+g.rnd.Intn(3))...), "extended"
		}
		n := int64(-1)
		if g.rnd.Bool() {
			n = int64(size)
			cls += "-declared-length"
		}
		s := g.randomScript(stream, hx.Pick(g.rnd, []int{1, 64, 1000, 20000}), -1)
		bs := hx.Pick(g.rnd, []int{1, 2, 63, 64, 512, 4096, size, size + 1})
		if len(s) > 300 {
			s = g.randomScript(stream, 1000, -1)
		}
		if bs < 16 && size > 1000 {
			bs = 64
		}
		emitCk("big-"+cls, sum[:], n, bs, s)
	}
	// NewCheckReader's string parsing
	d := sha256.Sum256([]byte("x"))
	empty := sha256.Sum256(nil)
	hexd := hex.EncodeToString(d[:])
	for _, t := range []struct{ cls, h string }{
		{"good", "sha256:" + hexd}, {"good-empty-stream", "sha256:" + hex.EncodeToString(empty[:])},
		{"good-upper-hex", "sha256:" + strings.ToUpper(hexd)},
		{"bad-prefix", "sha1:" + hexd}, {"bad-prefix", "SHA256:" + hexd}, {"bad-prefix", hexd}, {"bad-prefix", ""},
		{"bad-prefix", "sha256" + hexd}, {"bad-prefix", " sha256:" + hexd},
		{"bad-hex", "sha256:" + hexd[:63]}, {"bad-hex", "sha256:" + hexd[:62] + "zz"}, {"bad-hex", "sha256:" + hexd + "g"},
		{"bad-hex", "sha256:0x" + hexd[:62]}, {"bad-hex", "sha256:" + hexd[:32] + " " + hexd[33:]},
		{"wrong-size", "sha256:" + hexd[:62]}, {"wrong-size", "sha256:" + hexd + "00"}, {"wrong-size", "sha256:"},
		{"wrong-size", "sha256:" + hexd + hexd},
	} {
		g.emit("cknew h=" + hx.Hex([]byte(t.h)) + " cls=" + t.cls)
		rep.Count("newcheckreader-" + t.cls)
		rep.Case("cknew "+t.h, true)
	}
}

// F: key syntax, Store interface.
func (g *gen) keysAndStore() {
	rep := g.c.rep
	g.emit("reset")
	content := []byte("some data here")
	k := shaHex(content)
	for _, store := range stores {
		g.emit(withSha("create "+store+" "+showScript([]item{{data: content, flag: 'e'}}), []item{{data: content, flag: 'e'}}))
	}
	bad := []string{"", "tmp", "not a hash", "../" + k[3:], k[:63], k + "0", strings.ToUpper(k), k[:63] + "/", k[:63] + "\x00",
		k[:62] + "é", "tmp/" + k[4:], strings.Repeat("z", 64), strings.Repeat("0", 64), k[:32] + "." + k[33:], "./" + k[2:]}
	for _, store := range stores {
		for _, b := range append(bad, k) {
			g.emit("open " + store + " " + keyHex(b))
			g.emit("has " + store + " " + keyHex(b))
			rep.Count("key-syntax-" + store)
			rep.Case("key "+store+" "+b, true)
		}
	}
	for _, store := range []string{"mem", "map"} {
		for _, n := range []int{0, 1, 5, 600} {
			b := g.content(n)
			g.emit("put " + store + " " + hx.Hex(b) + " " + shaWord(b))
			g.emit("get " + store + " " + keyHex(shaHex(b)))
			g.emit("open " + store + " " + keyHex(shaHex(b)))
			g.emit("put " + store + " " + hx.Hex(b) + " " + shaWord(b))
			rep.Count("store-put-get-" + store)
			rep.Case(fmt.Sprintf("put %s %d", store, n), true)
		}
		g.emit("get " + store + " " + keyHex(shaHex([]byte("absent"))))
	}
}

// ---------------------------------------------------------------- main

func main() {
	// a write beyond RLIMIT_FSIZE (op createw) raises SIGXFSZ, which would kill
	// the process; ignored, the write system call just fails with EFBIG
	signal.Ignore(syscall.SIGXFSZ)
	f := hx.ParseFlags()
	rep := hx.NewReport("C18", f)
	work := f.Work
	if work == "" {
		d, err := os.MkdirTemp("", "c18-")
		if err != nil {
			fmt.Fprintln(os.Stderr, err)
			os.Exit(3)
		}
		work = d
		defer os.RemoveAll(d)
	}
	c := &ctx{rep: rep, j: hx.NewJournal(f.Work), work: work, driver: f.Driver}
	c.reset()
	g := &gen{c: c, rnd: hx.NewRand(f.Seed)}
	rep.Rule = "a case is one op line (or one gated schedule / concurrent round) with a distinct canonical text; all count as non-trivial: each exercises a distinct chunking, failure offset, interleaving or stream mutation"

	if f.Replay != "" {
		ops, err := hx.ReadReplayOps(f.Replay)
		if err != nil {
			fmt.Fprintln(os.Stderr, "replay:", err)
			os.Exit(3)
		}
		for _, l := range ops {
			g.emit(l)
			rep.Case(l, true)
		}
	} else {
		for _, ops := range hx.CorpusOps("C18") {
			g.emit("reset")
			for _, l := range ops {
				g.emit(l)
				rep.Case("corpus "+l, true)
			}
			rep.Count("corpus-file")
		}
		timed := func(name string, fn func()) {
			t0 := time.Now()
			n0 := c.nOps
			fn()
			rep.Note("%s: %d ops in %.1fs", name, c.nOps-n0, time.Since(t0).Seconds())
		}
		if f.Thorough() {
			timed("keys+store", g.keysAndStore)
			timed("fault enumeration (len<=10)", func() { g.faultEnumeration(10) })
			timed("error values (len<=6)", func() { g.errorValues(6) })
			timed("file-write faults (RLIMIT_FSIZE)", func() { g.writeFaults(true) })
			timed("caller-owned sources reused after Create", func() { g.callerSources(true) })
			timed("two handles on one directory", func() { g.twoHandles(400) })
			timed("large streams (64 MiB +-1, > 128 MiB)", func() { g.largeStreams(true) })
			timed("big contents", func() { g.bigContents(400) })
			timed("gated interleavings", func() { g.gated(45000, true) })
			timed("concurrent rounds", func() { g.concurrent(650, 16); g.concurrent(80, 64) })
			timed("CheckReader (len<=11)", func() { g.checkReader(11, 45000) })
		} else {
			timed("keys+store", g.keysAndStore)
			timed("fault enumeration (len<=7)", func() { g.faultEnumeration(7) })
			timed("error values (len<=3)", func() { g.errorValues(3) })
			timed("file-write faults (RLIMIT_FSIZE)", func() { g.writeFaults(false) })
			timed("caller-owned sources reused after Create", func() { g.callerSources(false) })
			timed("two handles on one directory", func() { g.twoHandles(40) })
			timed("large streams (64 MiB + 1)", func() { g.largeStreams(false) })
			timed("big contents", func() { g.bigContents(114) })
			timed("gated interleavings", func() { g.gated(2500, true) })
			timed("concurrent rounds", func() { g.concurrent(60, 16); g.concurrent(4, 64) })
			timed("CheckReader (len<=7)", func() { g.checkReader(7, 1500) })
		}
		rep.Exhaustive = true
	}
	c.abandon()
	if c.fsDir != "" {
		os.RemoveAll(c.fsDir)
	}

	c.flush()
	rep.TracesValidated = c.nModel
	rep.Distribution["ops"] = c.nOps
	rep.Distribution["small_scope"] = "all compositions of contents up to the tier's length, a failure at every chunk boundary of every composition (alone and with data), EOF alone and with data; CheckReader: every single-byte corruption (3 masks), every truncation, two extensions, read sizes 1..len+1, three chunkings, declared length absent/right/wrong"
	rep.Write(f.Out)
}
