// Harness for C10: caco3, an incremental build equals a clean build.
//
// Drives the real caco3.Builder in-process on scratch workspaces (file_set and
// bundle rules over two or three repositories), applies random histories of
// source edits, BUILD edits, output tampering and builds, and after every
// build compares (a) the executed rules, the error class, the number of cache
// entries and the out/ tree of the reachable rules with the Lean model, and
// (b) — the direct oracle, independent of the model — the out/ tree with a
// from-scratch build of the same sources in a fresh copy; a build with nothing
// changed must execute nothing; a rule whose execution failed must be
// executed again by the next build that reaches it.
//
// Histories run in worker sub-processes (the builder leaves one sqlite handle
// open per Build, and a crash must not end the check).
package main

import (
	"bytes"
	"encoding/json"
	"flag"
	"fmt"
	"io"
	"log"
	"os"
	"os/exec"
	"path/filepath"
	"sort"
	"strconv"
	"strings"
	"sync"
	"syscall"
	"time"

	"golang.org/x/sys/unix"
	"shanhu.io/g/caco3"
	"shanhu.io/g/pisces"
	"verif/harness/hx"
)

var workerFlag = flag.Bool("worker", false, "run histories read from stdin (internal)")

// ---------------------------------------------------------------- op syntax

type pat struct {
	dir, suffix string
	deep        bool
}

type ruleDef struct {
	kind  string // fs | bu
	name  string // full name, e.g. r1/t3
	files []string
	sel   []pat
	ign   []pat
	incs  []string
	deps  []string
}

func csv(s string) []string {
	if s == "-" || s == "" {
		return nil
	}
	return strings.Split(s, ",")
}

func uncsv(xs []string) string {
	if len(xs) == 0 {
		return "-"
	}
	return strings.Join(xs, ",")
}

func parsePats(s string) ([]pat, bool) {
	var out []pat
	for _, w := range csv(s) {
		p := strings.Split(w, ":")
		if len(p) != 3 {
			return nil, false
		}
		out = append(out, pat{p[0], p[1], p[2] == "1"})
	}
	return out, true
}

func showPats(ps []pat) string {
	var xs []string
	for _, p := range ps {
		d := "0"
		if p.deep {
			d = "1"
		}
		xs = append(xs, p.dir+":"+p.suffix+":"+d)
	}
	return uncsv(xs)
}

func parseRule(w string) (*ruleDef, bool) {
	p := strings.Split(w, "|")
	switch {
	case len(p) == 6 && p[0] == "fs":
		sel, ok1 := parsePats(p[3])
		ign, ok2 := parsePats(p[4])
		if !ok1 || !ok2 {
			return nil, false
		}
		return &ruleDef{kind: "fs", name: p[1], files: csv(p[2]), sel: sel, ign: ign, incs: csv(p[5])}, true
	case len(p) == 3 && p[0] == "bu":
		return &ruleDef{kind: "bu", name: p[1], deps: csv(p[2])}, true
	}
	return nil, false
}

func (r *ruleDef) String() string {
	if r.kind == "fs" {
		return strings.Join([]string{"fs", r.name, uncsv(r.files), showPats(r.sel), showPats(r.ign), uncsv(r.incs)}, "|")
	}
	return strings.Join([]string{"bu", r.name, uncsv(r.deps)}, "|")
}

func rulesLine(rs []*ruleDef) string {
	xs := []string{"rules"}
	for _, r := range rs {
		xs = append(xs, r.String())
	}
	return strings.Join(xs, " ")
}

func kvGet(ws []string, k string) (string, bool) {
	for _, w := range ws {
		if strings.HasPrefix(w, k+"=") {
			return w[len(k)+1:], true
		}
	}
	return "", false
}

func kvInt(ws []string, k string) (int64, bool) {
	s, ok := kvGet(ws, k)
	if !ok {
		return 0, false
	}
	n, err := strconv.ParseInt(s, 10, 64)
	return n, err == nil
}

func repoOf(name string) string {
	if i := strings.IndexByte(name, '/'); i >= 0 {
		return name[:i]
	}
	return name
}

// relName writes a resolved name the way a BUILD file of package pkg names it.
func relName(pkg, full string) string {
	if strings.HasPrefix(full, pkg+"/") {
		return full[len(pkg)+1:]
	}
	return "/" + full
}

func jsList(xs []string) string {
	var q []string
	for _, x := range xs {
		q = append(q, strconv.Quote(x))
	}
	return "[" + strings.Join(q, ", ") + "]"
}

func patText(pkg string, p pat) string {
	d := ""
	if p.dir != pkg {
		d = strings.TrimPrefix(p.dir, pkg+"/") + "/"
	}
	if p.deep {
		return d + "**"
	}
	return d + "*" + p.suffix
}

func buildFileText(pkg string, rs []*ruleDef) string {
	var b strings.Builder
	for _, r := range rs {
		if repoOf(r.name) != pkg {
			continue
		}
		local := strings.TrimPrefix(r.name, pkg+"/")
		if r.kind == "fs" {
			fmt.Fprintf(&b, "file_set {\n    Name: %s,\n", strconv.Quote(local))
			if len(r.files) > 0 {
				var fs []string
				for _, f := range r.files {
					fs = append(fs, relName(pkg, f))
				}
				fmt.Fprintf(&b, "    Files: %s,\n", jsList(fs))
			}
			if len(r.sel) > 0 {
				var ss []string
				for _, p := range r.sel {
					ss = append(ss, patText(pkg, p))
				}
				fmt.Fprintf(&b, "    Select: %s,\n", jsList(ss))
			}
			if len(r.ign) > 0 {
				var ss []string
				for _, p := range r.ign {
					ss = append(ss, patText(pkg, p))
				}
				fmt.Fprintf(&b, "    Ignore: %s,\n", jsList(ss))
			}
			if len(r.incs) > 0 {
				fmt.Fprintf(&b, "    Include: %s,\n", jsList(r.incs))
			}
			b.WriteString("}\n\n")
		} else {
			var ds []string
			for _, d := range r.deps {
				ds = append(ds, relName(pkg, d))
			}
			fmt.Fprintf(&b, "bundle {\n    Name: %s,\n    Deps: %s,\n}\n\n", strconv.Quote(local), jsList(ds))
		}
	}
	return b.String()
}

// ------------------------------------------------------ implementation side

var repos = []string{"r1", "r2", "r3"}

const symlinkMode = 1<<27 | 0o777 // uint32(fs.ModeSymlink | 0777)

type savedFile struct {
	data  []byte
	mode  os.FileMode
	mtime time.Time
	link  string // target, when the saved entry is a symlink
}

type fstat struct {
	Name         string
	Type         string
	Size         int64
	ModTimestamp int64
	Mode         uint32
	Symlink      string
}

type buildObs struct {
	class    string // ok | loaderr | builderr | other:<msg>
	exec     []string
	errMsg   string
	outs     map[string]string // reachable output -> canonical description
	outNames []string
	cache    int64
}

type failure struct {
	Key  string   `json:"key"`
	Desc string   `json:"desc"`
	Ops  []string `json:"ops"`
}

// world is one scratch workspace driven by op lines.
type world struct {
	base     string // parent directory for workspaces of this history
	root     string
	n        int
	rules    []*ruleDef
	saved    map[string]*savedFile
	maxMtime map[string]int64 // freshness barrier: newest mtime seen per output path

	// oracle bookkeeping
	quiet          bool // no oracles (clean copies)
	fails          []failure
	lastKind       string // kind of the most recent non-build op
	failedRule     string // rule whose execution failed in the previous build
	staticTouched  bool   // src/rules op since the failed build
	counts         map[string]int
	builds, cleans int
	valid          map[string]bool // rules built by an earlier successful build and untouched since
	known          map[string]bool // every output path a rule or an op of this history named
	aged           bool            // the cache records were aged past the expiry in this history
	keep           builders        // non-nil: the Builder is created once and reused by every build
}

func newWorld(base string) *world {
	return &world{base: base, saved: map[string]*savedFile{}, maxMtime: map[string]int64{}, counts: map[string]int{},
		known: map[string]bool{}, valid: map[string]bool{}}
}

func must(err error) {
	if err != nil {
		panic(err)
	}
}

func (w *world) src(n string) string { return filepath.Join(w.root, "src", filepath.FromSlash(n)) }
func (w *world) out(n string) string { return filepath.Join(w.root, "out", filepath.FromSlash(n)) }

func writeWorkspaceFile(root string) {
	var b strings.Builder
	b.WriteString("repo_map {\n    Src: {\n")
	for _, r := range repos {
		fmt.Fprintf(&b, "        %s: \"x\",\n", strconv.Quote(r))
	}
	b.WriteString("    },\n}\n")
	must(os.WriteFile(filepath.Join(root, "WORKSPACE.caco3"), []byte(b.String()), 0o644))
}

func (w *world) reset() {
	if w.root != "" {
		os.RemoveAll(w.root)
	}
	w.n++
	w.root = filepath.Join(w.base, fmt.Sprintf("ws%d", w.n))
	os.RemoveAll(w.root)
	must(os.MkdirAll(filepath.Join(w.root, "src"), 0o755))
	for _, r := range repos {
		must(os.MkdirAll(filepath.Join(w.root, "src", r), 0o755))
	}
	writeWorkspaceFile(w.root)
	w.rules = nil
	w.known = map[string]bool{}
	w.valid = map[string]bool{}
	w.keep = nil
	w.aged = false
	w.saved = map[string]*savedFile{}
	w.maxMtime = map[string]int64{}
	w.failedRule = ""
}

func lutimes(path string, ns int64) error {
	ts := []unix.Timespec{unix.NsecToTimespec(ns), unix.NsecToTimespec(ns)}
	return unix.UtimesNanoAt(unix.AT_FDCWD, path, ts, unix.AT_SYMLINK_NOFOLLOW)
}

func filler(n int64, seed string) []byte {
	b := make([]byte, n)
	for i := range b {
		b[i] = "abcdefghijklmnopqrstuvwxyz\n"[(i+len(seed))%27]
	}
	return b
}

func (w *world) writeRules() {
	for _, r := range repos {
		f := filepath.Join(w.root, "src", r, "BUILD.caco3")
		txt := buildFileText(r, w.rules)
		if txt == "" {
			os.Remove(f)
			continue
		}
		must(os.WriteFile(f, []byte(txt), 0o644))
	}
}

// freshWrite performs write until the file's mtime is newer than every mtime
// this path has had (premise: each write of an output gets a fresh mtime).
func (w *world) freshWrite(path string, write func()) {
	for i := 0; ; i++ {
		write()
		st, err := os.Lstat(path)
		must(err)
		if ns := st.ModTime().UnixNano(); ns > w.maxMtime[path] {
			w.maxMtime[path] = ns
			return
		}
		if i > 5000 {
			panic("file system clock does not advance")
		}
		time.Sleep(time.Millisecond)
	}
}

// noteOutMtimes records the mtimes of everything under out/ and waits until
// the file system clock has passed them, so that the next write is fresh.
func (w *world) barrier() {
	var newest int64
	filepath.Walk(filepath.Join(w.root, "out"), func(p string, info os.FileInfo, err error) error {
		if err != nil || info.IsDir() {
			return nil
		}
		ns := info.ModTime().UnixNano()
		if ns > w.maxMtime[p] {
			w.maxMtime[p] = ns
		}
		return nil
	})
	for _, ns := range w.maxMtime {
		if ns > newest {
			newest = ns
		}
	}
	if newest == 0 {
		return
	}
	probe := filepath.Join(w.root, ".probe")
	for i := 0; ; i++ {
		must(os.WriteFile(probe, []byte{byte(i)}, 0o644))
		st, err := os.Lstat(probe)
		must(err)
		if st.ModTime().UnixNano() > newest {
			break
		}
		if i > 5000 {
			panic("file system clock does not advance")
		}
		time.Sleep(time.Millisecond)
	}
	os.Remove(probe)
}

func isSymlink(p string) bool {
	st, err := os.Lstat(p)
	return err == nil && st.Mode()&os.ModeSymlink != 0
}

func isDir(p string) bool {
	st, err := os.Lstat(p)
	return err == nil && st.IsDir()
}

func exists(p string) bool {
	_, err := os.Lstat(p)
	return err == nil
}

// apply executes one op line on the implementation and returns its canonical answer.
func (w *world) apply(line string) string {
	ws := strings.Fields(line)
	if len(ws) == 0 {
		return "bad-op"
	}
	if w.root == "" && ws[0] != "ws" {
		w.reset()
	}
	switch {
	case ws[0] == "ws":
		w.reset()
		if v, _ := kvGet(ws[1:], "reuse"); v == "1" {
			w.keep = builders{} // one Builder (per configuration) for every build of this history
			w.counts["history:one-builder-reused"]++
		}
		return "ok"
	case ws[0] == "src" && len(ws) >= 3:
		w.lastKind = "src-" + ws[1]
		w.staticTouched = true
		w.valid = map[string]bool{}
		p := w.src(ws[2])
		switch ws[1] {
		case "set":
			size, ok1 := kvInt(ws[3:], "size")
			mt, ok2 := kvInt(ws[3:], "mtime")
			mode, ok3 := kvInt(ws[3:], "mode")
			if !ok1 || !ok2 || !ok3 {
				return "bad-op"
			}
			must(os.MkdirAll(filepath.Dir(p), 0o755))
			if link, ok := kvGet(ws[3:], "link"); ok {
				os.Remove(p)
				must(os.Symlink(link, p))
				must(lutimes(p, mt))
				return "ok"
			}
			if st, err := os.Lstat(p); err == nil && st.Mode()&os.ModeSymlink != 0 {
				os.Remove(p)
			}
			must(os.WriteFile(p, filler(size, ws[2]+strconv.FormatInt(mt, 10)), 0o644))
			must(os.Chmod(p, os.FileMode(mode)))
			must(os.Chtimes(p, time.Unix(0, mt), time.Unix(0, mt)))
			return "ok"
		case "del":
			if !exists(p) || isDir(p) {
				return "noop"
			}
			must(os.Remove(p))
			return "ok"
		case "mv":
			if len(ws) != 4 {
				return "bad-op"
			}
			q := w.src(ws[3])
			if !exists(p) || isDir(p) || exists(q) {
				return "noop"
			}
			must(os.MkdirAll(filepath.Dir(q), 0o755))
			must(os.Rename(p, q))
			return "ok"
		}
	case ws[0] == "rules":
		w.lastKind = "rules"
		w.staticTouched = true
		w.valid = map[string]bool{}
		var rs []*ruleDef
		for _, x := range ws[1:] {
			r, ok := parseRule(x)
			if !ok {
				return "bad-op"
			}
			rs = append(rs, r)
		}
		w.rules = rs
		for _, r := range rs {
			if r.kind == "fs" {
				w.known[r.name+".fileset"] = true
			}
		}
		w.writeRules()
		return "ok"
	case ws[0] == "out" && len(ws) >= 3:
		w.lastKind = "out-" + ws[1]
		p := w.out(ws[2])
		w.known[ws[2]] = true
		delete(w.valid, strings.TrimSuffix(ws[2], ".fileset"))
		switch ws[1] {
		case "link":
			if len(ws) != 4 {
				return "bad-op"
			}
			if isDir(p) {
				return "noop"
			}
			must(os.MkdirAll(filepath.Dir(p), 0o700))
			w.freshWrite(p, func() {
				os.Remove(p)
				must(os.Symlink(ws[3], p))
			})
			return "ok"
		case "del":
			if !exists(p) || isDir(p) {
				return "noop"
			}
			must(os.Remove(p))
			return "ok"
		case "corrupt":
			size, ok := kvInt(ws[3:], "size")
			if !ok {
				return "bad-op"
			}
			if isDir(p) {
				return "noop"
			}
			must(os.MkdirAll(filepath.Dir(p), 0o700))
			if isSymlink(p) {
				must(os.Remove(p)) // the tamperer replaces the link by a regular file
			}
			w.freshWrite(p, func() { must(os.WriteFile(p, bytes.Repeat([]byte{'#'}, int(size)), 0o644)) })
			return "ok"
		case "chmod":
			mode, ok := kvInt(ws[3:], "mode")
			if !ok {
				return "bad-op"
			}
			if !exists(p) || isDir(p) || isSymlink(p) {
				return "noop"
			}
			must(os.Chmod(p, os.FileMode(mode)))
			return "ok"
		case "obstruct":
			if isDir(p) {
				return "noop"
			}
			delete(w.saved, ws[2])
			if st, err := os.Lstat(p); err == nil {
				if st.Mode()&os.ModeSymlink != 0 {
					dest, err := os.Readlink(p)
					must(err)
					w.saved[ws[2]] = &savedFile{nil, 0, st.ModTime(), dest}
				} else {
					data, err := os.ReadFile(p)
					must(err)
					w.saved[ws[2]] = &savedFile{data, st.Mode().Perm(), st.ModTime(), ""}
				}
				if ns := st.ModTime().UnixNano(); ns > w.maxMtime[p] {
					w.maxMtime[p] = ns
				}
				must(os.Remove(p))
			}
			must(os.MkdirAll(p, 0o755))
			must(os.WriteFile(filepath.Join(p, "keep"), []byte("x"), 0o644))
			return "ok"
		case "restore":
			if !isDir(p) {
				return "noop"
			}
			must(os.RemoveAll(p))
			if s := w.saved[ws[2]]; s != nil {
				if s.link != "" {
					must(os.Symlink(s.link, p))
					must(lutimes(p, s.mtime.UnixNano()))
				} else {
					must(os.WriteFile(p, s.data, 0o644))
					must(os.Chmod(p, s.mode))
					must(os.Chtimes(p, s.mtime, s.mtime))
				}
				delete(w.saved, ws[2])
			}
			return "ok"
		}
	case ws[0] == "cache" && len(ws) == 2 && ws[1] == "age":
		w.lastKind = "cache-age"
		w.aged = true
		w.valid = map[string]bool{}
		ageCache(w.root)
		return "ok"
	case ws[0] == "build" && len(ws) >= 2:
		al, ok := kvInt(ws[1:2], "always")
		if !ok {
			return "bad-op"
		}
		return w.buildOp(al == 1, ws[2:], line)
	}
	return "bad-op"
}

var logMu sync.Mutex

// realBuild runs caco3.Builder.Build and observes it.
// builders keeps one Builder per configuration for a history that reuses its Builder.
type builders map[bool]*caco3.Builder

func realBuild(root string, always bool, targets []string) (class string, execd []string, msg string) {
	return realBuildWith(nil, root, always, targets)
}

func realBuildWith(keep builders, root string, always bool, targets []string) (class string, execd []string, msg string) {
	logMu.Lock()
	defer logMu.Unlock()
	var buf bytes.Buffer
	log.SetOutput(&buf)
	log.SetFlags(0)
	defer log.SetOutput(io.Discard)
	b := keep[always]
	if b == nil {
		var err error
		b, err = caco3.NewBuilder(root, &caco3.Config{Root: root, AlwaysRebuild: always})
		if err != nil {
			return "other:new-builder", nil, err.Error()
		}
		if _, errs := b.ReadWorkspace(); errs != nil {
			return "other:workspace", nil, errs[0].Error()
		}
		if keep != nil {
			keep[always] = b
		}
	}
	errs := b.Build(targets)
	for _, l := range strings.Split(buf.String(), "\n") {
		if strings.HasPrefix(l, "BUILD ") {
			execd = append(execd, strings.TrimPrefix(l, "BUILD "))
		}
	}
	if errs == nil {
		return "ok", execd, ""
	}
	msg = errs[0].Err.Error()
	if len(execd) == 0 {
		return "loaderr", execd, msg
	}
	if strings.HasPrefix(msg, "build "+execd[len(execd)-1]+":") {
		return "builderr", execd, msg
	}
	return "other:" + msg, execd, msg
}

type cacheRecord struct {
	K string `json:"K"`
	T *struct {
		Sec  int64
		Nano int64 `json:",omitempty"`
	} `json:"T"`
	B json.RawMessage `json:"B"`
}

const cacheExpiry = 7 * 24 * time.Hour

// cacheRows reads every record of out/CACHE.
func cacheRows(root string) (keys []string, recs []*cacheRecord, err error) {
	f := filepath.Join(root, "out", "CACHE")
	if !exists(f) {
		return nil, nil, nil
	}
	tables, err := pisces.OpenSqlite3Tables(f)
	if err != nil {
		return nil, nil, err
	}
	defer tables.DB().Close()
	rows, err := tables.DB().Q("select k, v from build_cache")
	if err != nil {
		return nil, nil, err
	}
	defer rows.Close()
	for rows.Next() {
		var k string
		var v []byte
		if err := rows.Scan(&k, &v); err != nil {
			return nil, nil, err
		}
		rec := new(cacheRecord)
		if err := json.Unmarshal(v, rec); err != nil {
			return nil, nil, err
		}
		keys = append(keys, k)
		recs = append(recs, rec)
	}
	return keys, recs, rows.Err()
}

// cacheCount is the number of records buildCache.get would still return (not expired).
func cacheCount(root string) int64 {
	_, recs, err := cacheRows(root)
	if err != nil {
		return -1
	}
	var n int64
	now := time.Now()
	for _, r := range recs {
		if r.T != nil && now.Before(time.Unix(r.T.Sec, r.T.Nano).Add(cacheExpiry)) {
			n++
		}
	}
	return n
}

// ageCache makes every record eight days older (past the 7-day expiry), in place.
func ageCache(root string) {
	keys, recs, err := cacheRows(root)
	must(err)
	if len(keys) == 0 {
		return
	}
	tables, err := pisces.OpenSqlite3Tables(filepath.Join(root, "out", "CACHE"))
	must(err)
	defer tables.DB().Close()
	for i, r := range recs {
		if r.T != nil {
			r.T.Sec -= 8 * 24 * 3600
		}
		bs, err := json.Marshal(r)
		must(err)
		_, err = tables.DB().X("update build_cache set v=? where k=?", bs, keys[i])
		must(err)
	}
}

// outFiles lists every non-directory entry under out/ (the cache database aside).
func outFiles(root string) []string {
	var out []string
	base := filepath.Join(root, "out")
	filepath.Walk(base, func(p string, info os.FileInfo, err error) error {
		if err != nil || info.IsDir() {
			return nil
		}
		rel, _ := filepath.Rel(base, p)
		rel = filepath.ToSlash(rel)
		if strings.HasPrefix(rel, "CACHE") {
			return nil
		}
		out = append(out, rel)
		return nil
	})
	sort.Strings(out)
	return out
}

func ruleByName(rs []*ruleDef, n string) *ruleDef {
	for _, r := range rs {
		if r.name == n {
			return r
		}
	}
	return nil
}

func ruleByOut(rs []*ruleDef, n string) *ruleDef {
	if !strings.HasSuffix(n, ".fileset") {
		return nil
	}
	r := ruleByName(rs, strings.TrimSuffix(n, ".fileset"))
	if r != nil && r.kind == "fs" {
		return r
	}
	return nil
}

// reachable returns the rules reachable from the targets.
func reachable(root string, rs []*ruleDef, targets []string) map[string]bool {
	seen := map[string]bool{}
	var visit func(n string)
	visit = func(n string) {
		r := ruleByName(rs, n)
		if r == nil {
			r = ruleByOut(rs, n)
		}
		if r == nil || seen[r.name] {
			return
		}
		seen[r.name] = true
		for _, d := range r.files {
			visit(d)
		}
		// a selected source path that is also a rule name resolves to the rule
		for _, q := range rs {
			if !exists(filepath.Join(root, "src", filepath.FromSlash(q.name))) {
				continue
			}
			sel, ign := false, false
			for _, p := range r.sel {
				sel = sel || patMatches(p, q.name)
			}
			for _, p := range r.ign {
				ign = ign || patMatches(p, q.name)
			}
			if sel && !ign {
				visit(q.name)
			}
		}
		for _, d := range r.incs {
			visit(d)
		}
		for _, d := range r.deps {
			visit(d)
		}
	}
	for _, t := range targets {
		visit(t)
	}
	return seen
}

func describeOut(p, name string) string {
	st, err := os.Lstat(p)
	if err != nil {
		return name + "=-"
	}
	if st.IsDir() {
		return name + "=D"
	}
	data, err := os.ReadFile(p)
	if err != nil {
		return name + "=J"
	}
	var list []*fstat
	if err := json.Unmarshal(data, &list); err != nil {
		return name + "=J"
	}
	var es []string
	for _, e := range list {
		if e == nil {
			return name + "=J"
		}
		mt := e.ModTimestamp
		if e.Type == "o" {
			mt = 0
		}
		es = append(es, fmt.Sprintf("%s,%s,%d,%d,%d,%s", e.Name, e.Type, e.Size, mt, e.Mode, e.Symlink))
	}
	return fmt.Sprintf("%s=%d:%d:E[%s]", name, st.Size(), uint32(st.Mode()), strings.Join(es, ";"))
}

func observeOuts(root string, rs []*ruleDef, targets []string) (names []string, desc map[string]string) {
	desc = map[string]string{}
	for n := range reachable(root, rs, targets) {
		if r := ruleByName(rs, n); r.kind == "fs" {
			names = append(names, n+".fileset")
		}
	}
	sort.Strings(names)
	for _, o := range names {
		desc[o] = describeOut(filepath.Join(root, "out", filepath.FromSlash(o)), o)
	}
	return names, desc
}

func showObs(o *buildObs) string {
	if o.class == "loaderr" {
		return "loaderr"
	}
	var outs []string
	for _, n := range o.outNames {
		outs = append(outs, o.outs[n])
	}
	os := "-"
	if len(outs) > 0 {
		os = strings.Join(outs, " ")
	}
	return fmt.Sprintf("%s exec=%s cache=%d out=%s", o.class, uncsv(o.exec), o.cache, os)
}

// copyTree copies WORKSPACE and src/ (not out/) with modes, mtimes and symlinks.
func copyTree(from, to string) {
	must(os.MkdirAll(to, 0o755))
	data, err := os.ReadFile(filepath.Join(from, "WORKSPACE.caco3"))
	must(err)
	must(os.WriteFile(filepath.Join(to, "WORKSPACE.caco3"), data, 0o644))
	srcRoot := filepath.Join(from, "src")
	must(filepath.Walk(srcRoot, func(p string, info os.FileInfo, err error) error {
		if err != nil {
			return err
		}
		rel, _ := filepath.Rel(srcRoot, p)
		q := filepath.Join(to, "src", rel)
		switch {
		case info.IsDir():
			return os.MkdirAll(q, 0o755)
		case info.Mode()&os.ModeSymlink != 0:
			dest, err := os.Readlink(p)
			if err != nil {
				return err
			}
			if err := os.Symlink(dest, q); err != nil {
				return err
			}
			return lutimes(q, info.ModTime().UnixNano())
		default:
			data, err := os.ReadFile(p)
			if err != nil {
				return err
			}
			if err := os.WriteFile(q, data, 0o644); err != nil {
				return err
			}
			if err := os.Chmod(q, info.Mode().Perm()); err != nil {
				return err
			}
			return os.Chtimes(q, info.ModTime(), info.ModTime())
		}
	}))
}

func (w *world) fail(key, desc string) {
	w.fails = append(w.fails, failure{Key: key, Desc: desc})
}

func (w *world) buildOp(always bool, targets []string, line string) string {
	w.barrier()
	w.builds++
	obs := &buildObs{}
	obs.class, obs.exec, obs.errMsg = realBuildWith(w.keep, w.root, always, targets)
	obs.cache = cacheCount(w.root)
	obs.outNames, obs.outs = observeOuts(w.root, w.rules, targets)
	res := showObs(obs)
	if os.Getenv("C10_TRACE") != "" {
		fmt.Fprintf(os.Stderr, "TRACE %s\n   -> %s %v %s\n", line, obs.class, obs.exec, obs.errMsg)
	}
	w.counts["build:"+strings.SplitN(obs.class, ":", 2)[0]]++
	if w.quiet {
		return res
	}

	// ---- oracle: a rule whose execution failed is executed again by the
	// next successful build that reaches it (as long as only outputs changed)
	if w.staticTouched {
		w.failedRule = ""
	}
	w.staticTouched = false
	if w.failedRule != "" && obs.class == "ok" && reachable(w.root, w.rules, targets)[w.failedRule] {
		found := false
		for _, e := range obs.exec {
			found = found || e == w.failedRule
		}
		w.counts["oracle:failed-rule-rechecked"]++
		if !found {
			w.fail("failed-rule-treated-as-built", fmt.Sprintf(
				"the execution of %s failed, nothing but outputs changed, and the next successful build did not execute it (executed: %v)",
				w.failedRule, obs.exec))
		}
		w.failedRule = ""
	}
	if obs.class == "builderr" {
		w.failedRule = obs.exec[len(obs.exec)-1]
	}

	// ---- oracle: from-scratch build of the same sources in a fresh copy
	w.cleans++
	cdir := filepath.Join(w.base, fmt.Sprintf("clean%d_%d", w.n, w.cleans))
	os.RemoveAll(cdir)
	copyTree(w.root, cdir)
	cclass, _, cmsg := realBuild(cdir, false, targets)
	_, couts := observeOuts(cdir, w.rules, targets)
	os.RemoveAll(cdir)
	w.counts["clean:"+strings.SplitN(cclass, ":", 2)[0]]++
	switch {
	case obs.class == "ok" && cclass == "ok":
		w.counts["oracle:incr-vs-clean-compared"]++
		for _, o := range obs.outNames {
			if obs.outs[o] != couts[o] {
				w.fail("incr-ne-clean", fmt.Sprintf(
					"after %q the incremental build left %s but a from-scratch build of the same sources gives %s",
					w.lastKind, obs.outs[o], couts[o]))
				break
			}
		}
	case obs.class == "ok" && cclass != "ok":
		w.fail("incr-ok-clean-fails", fmt.Sprintf(
			"the incremental build succeeded (executed %v) but a from-scratch build of the same sources fails: %s", obs.exec, cmsg))
	case obs.class != "ok" && cclass == "ok":
		// incremental fails, clean succeeds: only an obstructed output of the failing rule explains that
		// (theorem clean_fails_incremental_fails is the other direction)
		obstructed := false
		if obs.class == "builderr" {
			obstructed = isDir(w.out(obs.exec[len(obs.exec)-1] + ".fileset"))
		}
		if obstructed {
			w.counts["incr-fails-clean-ok:obstructed-output"]++
		} else {
			w.fail("incr-fails-clean-ok", fmt.Sprintf(
				"the incremental build gives %s (executed %v, %s) with no directory on the failing rule's output, but a from-scratch build of the same sources succeeds",
				obs.class, obs.exec, obs.errMsg))
		}
	case obs.class == "loaderr" && cclass != "loaderr", obs.class != "loaderr" && cclass == "loaderr":
		w.fail("load-outcome-differs", fmt.Sprintf("loading gives %s incrementally and %s from scratch (%s / %s)",
			obs.class, cclass, obs.errMsg, cmsg))
	case obs.class == "builderr" && cclass == "builderr":
		w.counts["oracle:both-fail"]++
	}

	// ---- oracle: nothing of a failed rule is cached: the same build again executes the failed
	// rule again (and only rules that were not finished before), and the cache does not grow
	if obs.class == "builderr" {
		fr := obs.exec[len(obs.exec)-1]
		w.barrier()
		c2, e2, _ := realBuildWith(w.keep, w.root, false, targets)
		n2 := cacheCount(w.root)
		w.counts["oracle:failed-rule-rebuild-checked"]++
		again := len(e2) > 0 && e2[len(e2)-1] == fr
		if c2 != "builderr" || !again || n2 != obs.cache {
			w.fail("failed-rule-cached", fmt.Sprintf(
				"the execution of %s failed; the same build again gave %s, executed %v (cache entries %d -> %d): the failed rule must be executed again and nothing of it may be cached",
				fr, c2, e2, obs.cache, n2))
		}
	}

	// ---- oracle: exactly the dependants are rebuilt (model-free half): a rule that an earlier
	// successful build built, with no source / BUILD / cache step since and its own outputs left
	// alone, has an unchanged digest and a valid record: an ordinary build must not execute it
	if !always {
		w.counts["oracle:valid-rules-checked"]++
		for _, e := range obs.exec {
			if w.valid[e] {
				w.fail("valid-rule-re-executed", fmt.Sprintf(
					"%s was built before, nothing it depends on and none of its outputs changed since, yet this build executed it (executed: %v)",
					e, obs.exec))
				break
			}
		}
	}
	if obs.class == "ok" {
		for n := range reachable(w.root, w.rules, targets) {
			w.valid[n] = true
		}
	} else {
		for _, e := range obs.exec {
			delete(w.valid, e)
		}
	}

	// ---- oracle: the whole out/ tree: besides the outputs some rule or some tampering step of this
	// history named (files of removed or unreachable rules stay: reading decision) nothing may appear
	if obs.class == "ok" {
		w.counts["oracle:whole-out-tree-checked"]++
		for _, f := range outFiles(w.root) {
			ok := w.known[f]
			for k := range w.known {
				ok = ok || strings.HasPrefix(f, k+"/")
			}
			if !ok {
				w.fail("stray-file-in-out-tree", fmt.Sprintf(
					"after a successful build out/ holds %q, which is not an output of any rule (a from-scratch build has no such file)", f))
				break
			}
		}
	}

	// ---- oracle: a build with nothing changed executes no rule
	// (after an AlwaysRebuild build too: the ordinary build that follows it finds everything up to date)
	if obs.class == "ok" {
		w.barrier()
		c2, e2, _ := realBuildWith(w.keep, w.root, false, targets)
		if always {
			w.counts["oracle:null-build-after-always-checked"]++
			if c2 != "ok" || len(e2) > 0 {
				w.fail("null-build-after-always-executes", fmt.Sprintf(
					"an ordinary build right after a successful AlwaysRebuild build, nothing changed, gave %s and executed %v", c2, e2))
			}
		} else {
			w.counts["oracle:null-build-checked"]++
			if c2 != "ok" || len(e2) > 0 {
				key := "null-build-executes"
				if w.aged {
					key = "expired-record-never-refreshed"
				}
				w.fail(key, fmt.Sprintf("a second build with nothing changed gave %s and executed %v", c2, e2))
			}
		}
	}
	return res
}

// runHistory executes the ops in a fresh world and returns the answers and the oracle failures.
func runHistory(base string, ops []string) (impl []string, fails []failure, counts map[string]int) {
	w := newWorld(base)
	defer func() {
		if w.root != "" {
			os.RemoveAll(w.root)
		}
	}()
	for _, op := range ops {
		impl = append(impl, w.apply(op))
	}
	return impl, w.fails, w.counts
}

func hasKey(fs []failure, key string) bool {
	for _, f := range fs {
		if f.Key == key {
			return true
		}
	}
	return false
}

// shrink is delta debugging on the op list (the first op stays).
func shrink(base string, ops []string, key string) []string {
	test := func(cand []string) bool {
		_, fs, _ := runHistory(base, cand)
		return hasKey(fs, key)
	}
	cur := append([]string{}, ops...)
	// drop everything after the first build that shows the failure
	for n := 1; n <= len(cur); n++ {
		if strings.HasPrefix(cur[n-1], "build") && test(cur[:n]) {
			cur = cur[:n]
			break
		}
	}
	pass := func(chunk int) bool {
		removed := false
		for i := 1; i+chunk <= len(cur); {
			cand := append(append([]string{}, cur[:i]...), cur[i+chunk:]...)
			if test(cand) {
				cur = cand
				removed = true
			} else {
				i += chunk
			}
		}
		return removed
	}
	for chunk := len(cur) / 2; chunk >= 1; chunk /= 2 {
		pass(chunk)
	}
	for pass(1) {
	}
	return cur
}

// changeKinds summarises the non-build ops after the first build of a (minimal) history.
func changeKinds(ops []string) string {
	var kinds []string
	seenBuild := false
	for _, op := range ops {
		ws := strings.Fields(op)
		if len(ws) == 0 {
			continue
		}
		if ws[0] == "build" {
			seenBuild = true
			continue
		}
		if !seenBuild || ws[0] == "ws" {
			continue
		}
		k := ws[0]
		if len(ws) > 1 && (k == "src" || k == "out") {
			k += "-" + ws[1]
		}
		dup := false
		for _, x := range kinds {
			dup = dup || x == k
		}
		if !dup {
			kinds = append(kinds, k)
		}
	}
	if len(kinds) == 0 {
		return "first-build"
	}
	return strings.Join(kinds, "+")
}

// -------------------------------------------------------------- worker mode

type job struct {
	Histories [][]string `json:"histories"`
}

type histResult struct {
	Impl   []string       `json:"impl"`
	Fails  []failure      `json:"fails"`
	Counts map[string]int `json:"counts"`
}

type jobResult struct {
	Results []histResult `json:"results"`
}

func workerMain(work string) {
	syscall.Umask(0o022)
	log.SetOutput(io.Discard)
	var j job
	must(json.NewDecoder(os.Stdin).Decode(&j))
	base, err := os.MkdirTemp(work, "w")
	must(err)
	defer os.RemoveAll(base)
	var res jobResult
	shrunk := map[string]int{} // per failure class: at most two are minimised by one worker
	for _, ops := range j.Histories {
		impl, fails, counts := runHistory(base, ops)
		seen := map[string]bool{}
		var out []failure
		for _, f := range fails {
			if seen[f.Key] {
				continue
			}
			seen[f.Key] = true
			if shrunk[f.Key] >= 2 {
				counts["failure-not-minimised:"+f.Key]++
				continue
			}
			shrunk[f.Key]++
			f.Ops = shrink(base, ops, f.Key)
			// description of the minimal history; the key names the changes it still needs
			_, fs2, _ := runHistory(base, f.Ops)
			for _, g := range fs2 {
				if g.Key == f.Key {
					f.Desc = g.Desc
					break
				}
			}
			f.Key = f.Key + ":" + changeKinds(f.Ops)
			out = append(out, f)
		}
		res.Results = append(res.Results, histResult{impl, out, counts})
	}
	must(json.NewEncoder(os.Stdout).Encode(&res))
}

func runWorker(self, work string, hs [][]string, timeout time.Duration) (*jobResult, error) {
	in, _ := json.Marshal(&job{hs})
	cmd := exec.Command(self, "-worker", "-work", work)
	cmd.Stdin = bytes.NewReader(in)
	var out, errb bytes.Buffer
	cmd.Stdout = &out
	cmd.Stderr = &errb
	if os.Getenv("C10_TRACE") != "" {
		cmd.Stderr = os.Stderr
	}
	if err := cmd.Start(); err != nil {
		return nil, err
	}
	done := make(chan error, 1)
	go func() { done <- cmd.Wait() }()
	select {
	case err := <-done:
		if err != nil {
			msg := errb.String()
			if len(msg) > 600 {
				msg = msg[:600]
			}
			return nil, fmt.Errorf("worker: %v: %s", err, msg)
		}
	case <-time.After(timeout):
		cmd.Process.Kill()
		return nil, fmt.Errorf("worker timed out after %v", timeout)
	}
	var res jobResult
	if err := json.Unmarshal(out.Bytes(), &res); err != nil {
		return nil, err
	}
	if len(res.Results) != len(hs) {
		return nil, fmt.Errorf("worker answered %d of %d histories", len(res.Results), len(hs))
	}
	return &res, nil
}

// ------------------------------------------------------------------- main

func main() {
	f := hx.ParseFlags()
	if *workerFlag {
		workerMain(f.Work)
		return
	}
	log.SetOutput(io.Discard)
	rep := hx.NewReport("C10", f)
	rep.Rule = "a case is one history: a random workspace (2-3 repositories, 3-8 file_set/bundle rules in a DAG, " +
		"explicit files, one-level and recursive selects, ignores, includes, references to other rules' outputs) followed by " +
		"source edits / touches / chmods / adds / deletes / renames / symlinks / exact edit-backs, BUILD edits (incl. failing rules, removed rules), " +
		"output deletion / corruption / chmod / obstruction / exact restoration and builds (full, subset, AlwaysRebuild); " +
		"distinct = distinct op sequence; non-trivial = contains at least two builds with a change in between"
	work := f.Work
	if work == "" {
		var err error
		work, err = os.MkdirTemp("", "c10-")
		must(err)
		defer os.RemoveAll(work)
	}
	self, err := os.Executable()
	must(err)

	var histories [][]string
	if f.Replay != "" {
		ops, err := hx.ReadReplayOps(f.Replay)
		if err != nil {
			fmt.Println("replay:", err)
			return
		}
		histories = [][]string{ops}
	} else {
		histories = append(histories, hx.CorpusOps("C10")...)
		rep.Distribution["corpus_histories"] = len(histories)
		n, maxOps := 140, 8
		if f.Thorough() {
			n, maxOps = 3000, 14
		}
		g := newGen(hx.NewRand(f.Seed), rep)
		for i := 0; i < n; i++ {
			histories = append(histories, g.history(maxOps))
		}
	}

	// run in worker processes
	chunk, par := 12, 4
	if f.Thorough() {
		chunk, par = 25, 6
	}
	type chunkT struct{ lo, hi int }
	var chunks []chunkT
	for lo := 0; lo < len(histories); lo += chunk {
		hi := lo + chunk
		if hi > len(histories) {
			hi = len(histories)
		}
		chunks = append(chunks, chunkT{lo, hi})
	}
	results := make([]*histResult, len(histories))
	var mu sync.Mutex
	var wg sync.WaitGroup
	sem := make(chan struct{}, par)
	for _, c := range chunks {
		wg.Add(1)
		sem <- struct{}{}
		go func(c chunkT) {
			defer wg.Done()
			defer func() { <-sem }()
			res, err := runWorker(self, work, histories[c.lo:c.hi], 10*time.Minute)
			if err != nil {
				// isolate: one history per worker
				for i := c.lo; i < c.hi; i++ {
					r1, err1 := runWorker(self, work, histories[i:i+1], 3*time.Minute)
					mu.Lock()
					if err1 != nil {
						rep.Fail("worker-failed", "the harness worker died or hung while running a history: "+err1.Error(), histories[i])
					} else {
						results[i] = &r1.Results[0]
					}
					mu.Unlock()
				}
				return
			}
			mu.Lock()
			for i := range res.Results {
				results[c.lo+i] = &res.Results[i]
			}
			mu.Unlock()
		}(c)
	}
	wg.Wait()

	// model side: all histories through one driver process (each starts with `ws`)
	var allOps, allImpl []string
	for i, h := range histories {
		if results[i] == nil {
			continue
		}
		allOps = append(allOps, h...)
		allImpl = append(allImpl, results[i].Impl...)
	}
	model, err := hx.RunDriver(f.Driver, nil, allOps)
	if err != nil {
		rep.Note("driver failed: %v", err)
		rep.ModelAvailable = false
	} else if model != nil {
		rep.Diff("history", allOps, allImpl, model)
	}

	nb := 0
	for i, h := range histories {
		r := results[i]
		if r == nil {
			continue
		}
		builds := 0
		for _, op := range h {
			ws := strings.Fields(op)
			if len(ws) == 0 {
				continue
			}
			k := ws[0]
			if k == "src" || k == "out" {
				k += "-" + ws[1]
			}
			rep.Count("op:" + k)
			if ws[0] == "build" {
				builds++
			}
		}
		nb += builds
		rep.Case(strings.Join(h, "\n"), builds >= 2)
		for k, v := range r.Counts {
			for j := 0; j < v; j++ {
				rep.Count(k)
			}
		}
		for _, fl := range r.Fails {
			rep.Fail(fl.Key, fl.Desc, fl.Ops)
		}
		if i%37 == 0 && len(h) > 0 {
			last := len(h) - 1
			rep.Sample(map[string]string{"op": h[last], "impl": r.Impl[last], "history_len": strconv.Itoa(len(h))})
		}
	}
	rep.Distribution["histories"] = len(histories)
	rep.Distribution["builds_compared_with_model"] = nb
	rep.Note("reading: outputs of rules reachable from the requested targets are compared; files of removed or unreachable rules stay in out/ (nothing garbage-collects it) and are not a finding")
	rep.Write(f.Out)
}
