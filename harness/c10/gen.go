package main

import (
	"fmt"
	"sort"
	"strings"

	"verif/harness/hx"
)

// Generator of histories.  It keeps a light shadow of the workspace (which
// sources and rules exist, previous stats and rule sets for exact edit-backs);
// it knows nothing about what a build does.

type sstat struct {
	size, mtime, mode int64
	link              string
}

type gen struct {
	r   *hx.Rand
	rep *hx.Report

	repos      []string
	src        map[string]sstat
	srcHist    map[string][]sstat
	rules      []*ruleDef
	ruleHist   [][]*ruleDef
	obstructed map[string]bool
	tick       int64
	nextRule   int
	ops        []string
}

func newGen(r *hx.Rand, rep *hx.Report) *gen { return &gen{r: r, rep: rep} }

var pool = []string{"a.txt", "b.txt", "c.go", "p/x.txt", "p/y.txt", "p/z.go", "q/m.txt", "q/n.go"}
var linkTargets = []string{"a.txt", "b.txt", "nowhere", "p"}

func (g *gen) emit(format string, a ...interface{}) { g.ops = append(g.ops, fmt.Sprintf(format, a...)) }

func (g *gen) nextMtime() int64 {
	g.tick++
	return 1600000000*1e9 + g.tick*1e9 + int64(g.r.Intn(1000))*1000003%1e9
}

func (g *gen) srcNames() []string {
	var xs []string
	for n := range g.src {
		xs = append(xs, n)
	}
	sort.Strings(xs)
	return xs
}

func (g *gen) setSrc(n string, st sstat) {
	if old, ok := g.src[n]; ok {
		g.srcHist[n] = append(g.srcHist[n], old)
	}
	g.src[n] = st
	if st.link != "" {
		g.emit("src set %s size=%d mtime=%d mode=%d link=%s", n, st.size, st.mtime, st.mode, st.link)
	} else {
		g.emit("src set %s size=%d mtime=%d mode=%d", n, st.size, st.mtime, st.mode)
	}
}

func (g *gen) size() int64 {
	switch g.r.Intn(4) {
	case 0:
		return int64(1 + g.r.Intn(9))
	case 1:
		return int64(10 + g.r.Intn(90))
	case 2:
		return int64(100 + g.r.Intn(900))
	}
	return int64(g.r.Intn(12))
}

func sameDigits(a, b int64) bool { return len(fmt.Sprint(a)) == len(fmt.Sprint(b)) }

func (g *gen) fsOuts(rs []*ruleDef) []string {
	var xs []string
	for _, r := range rs {
		if r.kind == "fs" {
			xs = append(xs, r.name+".fileset")
		}
	}
	return xs
}

func (g *gen) patFor(repo string, mustMatch bool) pat {
	for try := 0; try < 20; try++ {
		p := pat{dir: hx.Pick(g.r, []string{repo, repo + "/p", repo + "/q"})}
		if g.r.Intn(4) == 0 {
			p.deep = true
		} else {
			p.suffix = hx.Pick(g.r, []string{".txt", ".go", ""})
			if p.dir == repo && p.suffix == "" {
				p.suffix = ".txt" // `*` at the top of a repository also matches its sub-directories (a load error)
			}
		}
		if !mustMatch {
			return p
		}
		for n := range g.src {
			if patMatches(p, n) {
				return p
			}
		}
	}
	return pat{dir: repo, deep: true}
}

func patMatches(p pat, n string) bool {
	if !strings.HasPrefix(n, p.dir+"/") {
		return false
	}
	rest := n[len(p.dir)+1:]
	if p.deep {
		return true
	}
	return !strings.Contains(rest, "/") && strings.HasSuffix(rest, p.suffix)
}

func sortedSet(xs []string) []string {
	m := map[string]bool{}
	for _, x := range xs {
		m[x] = true
	}
	var out []string
	for x := range m {
		out = append(out, x)
	}
	sort.Strings(out)
	return out
}

// genRule makes a rule that may depend on the rules in earlier.
func (g *gen) genRule(name string, earlier []*ruleDef) *ruleDef {
	repo := repoOf(name)
	var earlierFS, earlierBu []string
	for _, e := range earlier {
		if e.kind == "fs" && strings.HasSuffix(e.name, ".txt") {
			continue // a rule that shares its name with a source file is never included
		}
		if e.kind == "fs" {
			earlierFS = append(earlierFS, e.name)
		} else {
			earlierBu = append(earlierBu, e.name)
		}
	}
	if g.r.Intn(10) < 3 && len(earlier) > 0 {
		r := &ruleDef{kind: "bu", name: name}
		k := 1 + g.r.Intn(3)
		for i := 0; i < k; i++ {
			e := hx.Pick(g.r, earlier)
			if e.kind == "fs" && g.r.Intn(3) == 0 {
				r.deps = append(r.deps, e.name+".fileset")
			} else {
				r.deps = append(r.deps, e.name)
			}
		}
		r.deps = sortedSet(r.deps)
		return r
	}
	r := &ruleDef{kind: "fs", name: name}
	cands := append(g.srcNames(), g.fsOuts(earlier)...)
	if len(cands) > 0 {
		for i, k := 0, g.r.Intn(3); i < k; i++ {
			r.files = append(r.files, hx.Pick(g.r, cands))
		}
	}
	if g.r.Intn(33) == 0 && len(earlier) > 0 {
		r.files = append(r.files, hx.Pick(g.r, earlier).name) // a rule named as a file: its execution fails
		g.rep.Count("gen:rule-as-file")
	}
	r.files = sortedSet(r.files)
	for i, k := 0, g.r.Intn(3); i < k; i++ {
		r.sel = append(r.sel, g.patFor(repo, g.r.Intn(12) != 0))
	}
	if g.r.Intn(10) < 3 {
		p := pat{dir: hx.Pick(g.r, []string{repo, repo + "/p", repo + "/q"}), suffix: hx.Pick(g.r, []string{".go", ".txt", "x.txt", "y.txt"})}
		r.ign = append(r.ign, p)
	}
	if len(earlierFS) > 0 {
		for i, k := 0, g.r.Intn(3); i < k; i++ {
			r.incs = append(r.incs, hx.Pick(g.r, earlierFS))
		}
	}
	if g.r.Intn(25) == 0 {
		// an include that is not a file set: the rule's execution fails
		if len(earlierBu) > 0 && g.r.Bool() {
			r.incs = append(r.incs, hx.Pick(g.r, earlierBu))
		} else if len(g.src) > 0 {
			r.incs = append(r.incs, hx.Pick(g.r, g.srcNames()))
		}
		g.rep.Count("gen:failing-include")
	}
	return r
}

func (g *gen) newRuleName() string {
	g.nextRule++
	return fmt.Sprintf("%s/t%d", hx.Pick(g.r, g.repos), g.nextRule)
}

func cloneRules(rs []*ruleDef) []*ruleDef {
	out := make([]*ruleDef, len(rs))
	for i, r := range rs {
		c := *r
		out[i] = &c
	}
	return out
}

func (g *gen) setRules(rs []*ruleDef) {
	g.ruleHist = append(g.ruleHist, cloneRules(g.rules))
	g.rules = rs
	g.ops = append(g.ops, rulesLine(rs))
}

func (g *gen) opRules() {
	rs := cloneRules(g.rules)
	switch c := g.r.Intn(10); {
	case c < 4 && len(rs) > 0: // redefine one rule
		i := g.r.Intn(len(rs))
		rs[i] = g.genRule(rs[i].name, rs[:i])
		g.rep.Count("gen:rules-redefine")
	case c < 5 && len(rs) > 0: // make a file set fail / heal it
		i := g.r.Intn(len(rs))
		if rs[i].kind == "fs" {
			r := *rs[i]
			if n := len(r.incs); n > 0 && ruleByName(rs, r.incs[n-1]) == nil {
				r.incs = r.incs[:n-1]
			} else if len(g.src) > 0 {
				r.incs = append(append([]string{}, r.incs...), hx.Pick(g.r, g.srcNames()))
			}
			rs[i] = &r
		}
		g.rep.Count("gen:rules-toggle-fail")
	case c < 6 && len(rs) > 1: // remove a rule (dependants may dangle)
		i := len(rs) - 1
		if g.r.Intn(3) == 0 {
			i = g.r.Intn(len(rs))
		}
		gone := rs[i].name
		rs = append(rs[:i:i], rs[i+1:]...)
		if g.r.Intn(4) != 0 { // usually the references go too
			drop := func(xs []string) []string {
				var out []string
				for _, x := range xs {
					if x != gone && x != gone+".fileset" {
						out = append(out, x)
					}
				}
				return out
			}
			for j, r := range rs {
				c := *r
				c.files, c.incs, c.deps = drop(c.files), drop(c.incs), drop(c.deps)
				if c.kind == "bu" && len(c.deps) == 0 {
					c.deps = r.deps
				}
				rs[j] = &c
			}
		}
		g.rep.Count("gen:rules-remove")
	case c < 8 && len(rs) < 9: // add a rule
		rs = append(rs, g.genRule(g.newRuleName(), rs))
		g.rep.Count("gen:rules-add")
	default: // exact edit-back
		if len(g.ruleHist) > 0 {
			rs = cloneRules(g.ruleHist[g.r.Intn(len(g.ruleHist))])
			g.rep.Count("gen:rules-back")
		}
	}
	if len(rs) == 0 {
		return
	}
	g.setRules(rs)
}

func (g *gen) pickRegular() (string, bool) {
	var xs []string
	for _, n := range g.srcNames() {
		if g.src[n].link == "" {
			xs = append(xs, n)
		}
	}
	if len(xs) == 0 {
		return "", false
	}
	return hx.Pick(g.r, xs), true
}

func (g *gen) freeName() (string, bool) {
	var xs []string
	for _, r := range g.repos {
		for _, p := range pool {
			if _, ok := g.src[r+"/"+p]; !ok {
				xs = append(xs, r+"/"+p)
			}
		}
	}
	if len(xs) == 0 {
		return "", false
	}
	return hx.Pick(g.r, xs), true
}

// referenced says whether a rule names n explicitly.
func (g *gen) referenced(n string) bool {
	for _, r := range g.rules {
		for _, f := range r.files {
			if f == n {
				return true
			}
		}
		for _, f := range r.incs {
			if f == n {
				return true
			}
		}
	}
	return false
}

// victim picks a source to delete or rename, mostly one that no rule names explicitly.
func (g *gen) victim() (string, bool) {
	xs := g.srcNames()
	if len(xs) == 0 {
		return "", false
	}
	for try := 0; try < 6; try++ {
		n := hx.Pick(g.r, xs)
		if !g.referenced(n) {
			return n, true
		}
	}
	return hx.Pick(g.r, xs), true
}

// nearMtime is an mtime close to old: 1 ns, 1 µs or most of a second away inside the same
// second, or exactly one second later (digests must see every one of them).
func (g *gen) nearMtime(old int64) int64 {
	sec := old / 1e9 * 1e9
	cands := []int64{old + 1e9}
	for _, c := range []int64{old + 1, old + 1000, sec + 999000000, sec + 1, sec} {
		if c != old && c/1e9 == old/1e9 && c > 0 {
			cands = append(cands, c)
		}
	}
	return hx.Pick(g.r, cands)
}

func (g *gen) opSrc() {
	switch c := g.r.Intn(20); {
	case c < 4: // edit: new mtime, size kept (same digits) or changed
		if n, ok := g.pickRegular(); ok {
			st := g.src[n]
			if g.r.Intn(3) == 0 {
				st.mtime = g.nearMtime(st.mtime)
				g.rep.Count("gen:src-near-mtime")
			} else {
				st.mtime = g.nextMtime()
			}
			if g.r.Intn(3) == 0 {
				st.size = g.size()
			}
			g.setSrc(n, st)
			g.rep.Count("gen:src-edit")
		}
	case c < 6: // touch
		if n, ok := g.pickRegular(); ok {
			st := g.src[n]
			if g.r.Bool() {
				st.mtime = g.nearMtime(st.mtime)
				g.rep.Count("gen:src-near-mtime")
			} else {
				st.mtime = g.nextMtime()
			}
			g.setSrc(n, st)
			g.rep.Count("gen:src-touch")
		}
	case c < 9: // chmod (mtime unchanged)
		if n, ok := g.pickRegular(); ok {
			st := g.src[n]
			for {
				m := hx.Pick(g.r, []int64{0o644, 0o600, 0o755, 0o664, 0o640})
				if m != st.mode {
					st.mode = m
					break
				}
			}
			g.setSrc(n, st)
			g.rep.Count("gen:src-chmod")
		}
	case c < 12: // add
		if n, ok := g.freeName(); ok {
			g.setSrc(n, sstat{g.size(), g.nextMtime(), 0o644, ""})
			g.rep.Count("gen:src-add")
		}
	case c < 13: // delete
		if n, ok := g.victim(); ok {
			g.srcHist[n] = append(g.srcHist[n], g.src[n])
			delete(g.src, n)
			g.emit("src del %s", n)
			g.rep.Count("gen:src-del")
		}
	case c < 15: // rename
		n, ok1 := g.victim()
		to, ok := g.freeName()
		if ok1 && ok {
			g.src[to] = g.src[n]
			g.srcHist[n] = append(g.srcHist[n], g.src[n])
			delete(g.src, n)
			g.emit("src mv %s %s", n, to)
			g.rep.Count("gen:src-mv")
		}
	case c < 19: // exact edit-back (old size, old mtime, old mode; also re-adds a deleted file)
		var xs []string
		for n, h := range g.srcHist {
			if len(h) > 0 {
				xs = append(xs, n)
			}
		}
		sort.Strings(xs)
		if len(xs) > 0 {
			n := hx.Pick(g.r, xs)
			h := g.srcHist[n]
			g.setSrc(n, h[len(h)-1-g.r.Intn(min(2, len(h)))])
			g.rep.Count("gen:src-back")
		}
	default: // symlink (new or retargeted)
		n, ok := g.freeName()
		if xs := g.srcNames(); !ok || (len(xs) > 0 && g.r.Intn(3) == 0) {
			n = hx.Pick(g.r, xs)
		}
		if n != "" {
			t := hx.Pick(g.r, linkTargets)
			g.setSrc(n, sstat{int64(len(t)), g.nextMtime(), symlinkMode, t})
			g.rep.Count("gen:src-symlink")
		}
	}
}

func (g *gen) opOut() {
	outs := g.fsOuts(g.rules)
	if len(outs) == 0 {
		return
	}
	o := hx.Pick(g.r, outs)
	switch c := g.r.Intn(12); {
	case c < 3:
		g.emit("out del %s", o)
	case c < 6:
		g.emit("out corrupt %s size=%d", o, hx.Pick(g.r, []int64{0, 2, 85, 93, 173, 261, int64(g.r.Intn(400))}))
	case c < 7:
		g.emit("out chmod %s mode=%d", o, hx.Pick(g.r, []int64{0o600, 0o664, 0o444, 0o400, 0o755}))
	case c < 8:
		g.emit("out link %s %s", o, hx.Pick(g.r, []string{"nowhere", "../gone/x.fileset"}))
	case c < 10:
		g.emit("out obstruct %s", o)
		g.obstructed[o] = true
	default:
		var xs []string
		for x := range g.obstructed {
			xs = append(xs, x)
		}
		sort.Strings(xs)
		if len(xs) > 0 {
			o = hx.Pick(g.r, xs)
			delete(g.obstructed, o)
		}
		g.emit("out restore %s", o)
	}
}

func (g *gen) opBuild() {
	var names []string
	for _, r := range g.rules {
		names = append(names, r.name)
	}
	always := 0
	if g.r.Intn(16) == 0 {
		always = 1
		g.rep.Count("gen:build-always")
	}
	var ts []string
	switch c := g.r.Intn(20); {
	case c < 11 || len(names) == 0:
		ts = names
		g.rep.Count("gen:build-full")
	case c < 18:
		cands := append(append([]string{}, names...), g.fsOuts(g.rules)...)
		for i, k := 0, 1+g.r.Intn(2); i < k; i++ {
			ts = append(ts, hx.Pick(g.r, cands))
		}
		g.rep.Count("gen:build-subset")
	case c < 19:
		ts = append(ts, hx.Pick(g.r, names))
		if xs := g.srcNames(); len(xs) > 0 {
			ts = append(ts, hx.Pick(g.r, xs))
		}
		g.rep.Count("gen:build-with-source-target")
	default:
		if g.r.Intn(3) == 0 {
			ts = append(ts, hx.Pick(g.r, names), hx.Pick(g.r, g.repos)+"/nosuch")
			g.rep.Count("gen:build-unknown-target")
		} else {
			ts = names
			g.rep.Count("gen:build-full")
		}
	}
	g.emit("build always=%d %s", always, strings.Join(ts, " "))
}

func (g *gen) buildFull() {
	var names []string
	for _, r := range g.rules {
		names = append(names, r.name)
	}
	g.emit("build always=0 %s", strings.Join(names, " "))
}

// scenario emits one of the sequences the proofs single out (each is a stale
// hit in some variant of buildNode); it returns the number of ops emitted - 1.
func (g *gen) scenario() int {
	if !strings.HasPrefix(g.ops[len(g.ops)-1], "build") {
		g.buildFull()
	}
	before := len(g.ops)
	switch g.r.Intn(12) {
	case 11: // textually identical file sets under the same local name in two packages (absolute-only
		// dependencies), built in different subsets and orders
		if len(g.rules) < 8 && len(g.repos) >= 2 {
			g.nextRule++
			a := fmt.Sprintf("%s/t%d", g.repos[0], g.nextRule)
			b := fmt.Sprintf("%s/t%d", g.repos[1], g.nextRule)
			var files, incs []string
			if len(g.repos) == 3 {
				for _, n := range g.srcNames() {
					if repoOf(n) == g.repos[2] && len(files) < 2 {
						files = append(files, n)
					}
				}
			}
			for _, r := range g.rules {
				if r.kind == "fs" && !strings.HasSuffix(r.name, ".txt") && len(incs) < 1 && g.r.Bool() {
					incs = append(incs, r.name)
				}
			}
			rs := cloneRules(g.rules)
			rs = append(rs, &ruleDef{kind: "fs", name: a, files: files, incs: incs},
				&ruleDef{kind: "fs", name: b, files: files, incs: incs})
			g.setRules(rs)
			first, second := a, b
			if g.r.Bool() {
				first, second = b, a
			}
			g.emit("build always=0 %s", first)
			g.emit("build always=0 %s %s", second, first)
			g.buildFull()
			g.rep.Count("gen:scenario-identical-rule-bodies")
		}
	case 9: // a rule changes its kind (file_set -> bundle -> file_set) while a dependant keeps including it
		var fsi []int
		for i, r := range g.rules {
			if r.kind == "fs" && !strings.HasSuffix(r.name, ".txt") {
				fsi = append(fsi, i)
			}
		}
		if len(fsi) > 0 && len(g.src) > 0 && len(g.rules) < 9 {
			i := hx.Pick(g.r, fsi)
			x := g.rules[i]
			withY := cloneRules(g.rules)
			withY = append(withY, &ruleDef{kind: "fs", name: g.newRuleName(), incs: []string{x.name}})
			g.setRules(withY)
			g.buildFull()
			flipped := cloneRules(withY)
			b := &ruleDef{kind: "bu", name: x.name}
			if i > 0 {
				b.deps = []string{withY[g.r.Intn(i)].name}
			} else {
				b.deps = []string{hx.Pick(g.r, g.srcNames())}
			}
			flipped[i] = b
			g.setRules(flipped)
			g.buildFull()
			if g.r.Bool() { // the rule disappears altogether, the dependant still names it
				gone := append(cloneRules(withY)[:i:i], cloneRules(withY)[i+1:]...)
				g.setRules(gone)
				g.buildFull()
			}
			g.setRules(withY)
			g.buildFull()
			g.rep.Count("gen:scenario-rule-kind-flips")
		}
	case 10: // a source file and a rule share a name; a file set selects it by glob or lists it by name
		if len(g.rules) < 8 {
			repo := hx.Pick(g.r, g.repos)
			g.nextRule++
			shared := fmt.Sprintf("%s/t%d.txt", repo, g.nextRule)
			other := hx.Pick(g.r, g.repos)
			rs := cloneRules(g.rules)
			x := &ruleDef{kind: "bu", name: shared, deps: []string{rs[g.r.Intn(len(rs))].name}}
			if g.r.Bool() {
				x = &ruleDef{kind: "fs", name: shared}
			}
			rs = append(rs, x)
			y := &ruleDef{kind: "fs", name: g.newRuleName()}
			if repoOf(y.name) == repo && g.r.Bool() {
				y.sel = []pat{{dir: repo, suffix: ".txt"}}
			} else {
				y.files = []string{shared}
			}
			_ = other
			rs = append(rs, y)
			g.setSrc(shared, sstat{g.size(), g.nextMtime(), 0o644, ""})
			g.setRules(rs)
			g.buildFull()
			st := g.src[shared]
			st.size, st.mtime = st.size+1+int64(g.r.Intn(5)), g.nextMtime()
			g.setSrc(shared, st)
			g.buildFull()
			g.rep.Count("gen:scenario-name-shared-by-source-and-rule")
		}
	case 7: // same-size edit or touch a hair away in time (same second, next second), build
		if n, ok := g.pickRegular(); ok {
			st := g.src[n]
			st.mtime = g.nearMtime(st.mtime)
			g.setSrc(n, st)
			g.buildFull()
			g.rep.Count("gen:scenario-near-mtime")
		}
	case 8: // one output is deleted or overwritten, nothing else: only its owner is executed
		if outs := g.fsOuts(g.rules); len(outs) > 0 {
			o := hx.Pick(g.r, outs)
			if g.r.Bool() {
				g.emit("out del %s", o)
			} else {
				g.emit("out corrupt %s size=%d", o, g.r.Intn(300))
			}
			g.buildFull()
			g.rep.Count("gen:scenario-tamper-one-output")
		}
	case 5: // the records outlive the expiry: everything is rebuilt once, and then nothing
		g.emit("cache age")
		g.buildFull()
		g.buildFull()
		g.rep.Count("gen:scenario-cache-aged")
	case 6: // an output path is occupied (read-only file, dangling symlink, directory), a build, the
		// obstruction goes away, a build
		if outs := g.fsOuts(g.rules); len(outs) > 0 {
			o := hx.Pick(g.r, outs)
			switch g.r.Intn(3) {
			case 0:
				g.emit("out chmod %s mode=%d", o, 0o400)
				g.buildFull()
			case 1:
				g.emit("out link %s nowhere", o)
				g.buildFull()
				g.emit("out del %s", o)
			default:
				g.emit("out obstruct %s", o)
				g.buildFull()
				g.emit("out restore %s", o)
				g.emit("out del %s", o)
			}
			g.buildFull()
			g.rep.Count("gen:scenario-occupied-output")
		}
	case 4: // AlwaysRebuild build (possibly after an edit), then ordinary builds
		if n, ok := g.pickRegular(); ok && g.r.Bool() {
			st := g.src[n]
			st.mtime = g.nextMtime()
			g.setSrc(n, st)
		}
		var names []string
		for _, r := range g.rules {
			names = append(names, r.name)
		}
		g.emit("build always=1 %s", strings.Join(names, " "))
		g.buildFull()
		g.rep.Count("gen:scenario-always-then-ordinary")
	case 0: // an execution fails on an obstructed output, the output comes back byte for byte
		if outs := g.fsOuts(g.rules); len(outs) > 0 {
			o := hx.Pick(g.r, outs)
			g.emit("out obstruct %s", o)
			g.buildFull()
			g.emit("out restore %s", o)
			g.buildFull()
			g.rep.Count("gen:scenario-obstruct-fail-restore")
		}
	case 1: // edit, build, exact edit-back, build (sizes keep their digit count)
		if n, ok := g.pickRegular(); ok {
			old := g.src[n]
			st := old
			st.mtime = g.nextMtime()
			if g.r.Bool() {
				for try := 0; try < 20; try++ {
					if sz := g.size(); sz != old.size && sameDigits(sz, old.size) {
						st.size = sz
						break
					}
				}
			}
			g.setSrc(n, st)
			g.buildFull()
			g.setSrc(n, old)
			g.buildFull()
			g.rep.Count("gen:scenario-edit-build-back")
		}
	case 2: // chmod only
		if n, ok := g.pickRegular(); ok {
			st := g.src[n]
			if st.mode == 0o644 {
				st.mode = 0o755
			} else {
				st.mode = 0o644
			}
			g.setSrc(n, st)
			g.buildFull()
			g.rep.Count("gen:scenario-chmod")
		}
	default: // a rule fails by its definition, then the definition is restored
		var fsi []int
		for i, r := range g.rules {
			if r.kind == "fs" {
				fsi = append(fsi, i)
			}
		}
		if len(fsi) > 0 && len(g.src) > 0 {
			old := cloneRules(g.rules)
			rs := cloneRules(g.rules)
			i := hx.Pick(g.r, fsi)
			c := *rs[i]
			c.incs = append(append([]string{}, c.incs...), hx.Pick(g.r, g.srcNames()))
			rs[i] = &c
			g.setRules(rs)
			g.buildFull()
			g.setRules(old)
			g.buildFull()
			g.rep.Count("gen:scenario-fail-heal")
		}
	}
	if len(g.ops) == before {
		return 0
	}
	return len(g.ops) - before - 1
}

func (g *gen) history(maxOps int) []string {
	g.ops = []string{"ws"}
	if g.r.Bool() {
		g.ops = []string{"ws reuse=1"}
	}
	g.repos = repos[:2+g.r.Intn(2)]
	g.src = map[string]sstat{}
	g.srcHist = map[string][]sstat{}
	g.rules, g.ruleHist = nil, nil
	g.obstructed = map[string]bool{}
	g.tick, g.nextRule = 0, 0
	for _, r := range g.repos {
		for i, k := 0, 2+g.r.Intn(4); i < k; i++ {
			n := r + "/" + hx.Pick(g.r, pool)
			if _, ok := g.src[n]; !ok {
				g.setSrc(n, sstat{g.size(), g.nextMtime(), 0o644, ""})
			}
		}
	}
	var rs []*ruleDef
	for i, k := 0, 3+g.r.Intn(5); i < k; i++ {
		rs = append(rs, g.genRule(g.newRuleName(), rs))
	}
	g.setRules(rs)
	g.ruleHist = nil
	if g.r.Intn(8) != 0 {
		g.opBuild()
	}
	n := 3 + g.r.Intn(maxOps-2)
	scenarioAt := -1
	if g.r.Bool() {
		scenarioAt = g.r.Intn(n)
	}
	for i := 0; i < n; i++ {
		if i == scenarioAt {
			i += g.scenario()
			continue
		}
		last := g.ops[len(g.ops)-1]
		if !strings.HasPrefix(last, "build") && (g.r.Intn(10) < 6 || i == n-1) {
			g.opBuild()
			continue
		}
		switch c := g.r.Intn(20); {
		case c < 10:
			g.opSrc()
		case c < 13:
			g.opRules()
		case c < 18:
			g.opOut()
		case c < 19 && g.r.Intn(4) == 0:
			g.emit("cache age")
			g.rep.Count("gen:cache-age")
		default:
			g.opBuild()
		}
	}
	if !strings.HasPrefix(g.ops[len(g.ops)-1], "build") {
		g.opBuild()
	}
	return g.ops
}
