// Harness for C02: a connection only reaches the endpoint its SNI selects.
// End to end: several endpoints with tagging backends, many concurrent front
// connections whose server names cover every class (registered, endpoint down,
// refused by the lookup, no SNI, IP literal, policy suffix, home, TCP forward),
// in the three tunnel modes; which backend saw which connection is compared
// with the routing model.  Unit level: the mail office and the session-id
// counter against their models.
package main

import (
	"bufio"
	"bytes"
	"context"
	"crypto/tls"
	"encoding/binary"
	"fmt"
	"io"
	"log"
	"net"
	"runtime"
	"sort"
	"strconv"
	"strings"
	"sync"
	"time"

	"shanhu.io/g/sniproxy"
	"verif/harness/hx"
	"verif/harness/snix"
)

// helloFor returns a ClientHello carrying exactly `name` as server name ("" = no SNI
// extension); IP literals and other names crypto/tls would not send are patched into a
// hello generated for a placeholder of the same length.
func helloFor(name string) []byte {
	if name == "" {
		return snix.ClientHelloCfg(&tls.Config{InsecureSkipVerify: true})
	}
	ph := strings.Repeat("q", len(name))
	if len(name) > 3 {
		ph = strings.Repeat("q", len(name)-3) + ".zz"
	}
	h := snix.ClientHelloCfg(&tls.Config{InsecureSkipVerify: true, ServerName: ph})
	i := strings.Index(string(h), ph)
	if i < 0 {
		return nil
	}
	copy(h[i:], name)
	return h
}

// specRejected is the property's own name policy, independent of the code under test:
// no server name, an IP literal, or one of the policy-rejected suffixes.
func specRejected(name string) bool {
	if name == "" || net.ParseIP(name) != nil {
		return true
	}
	for _, s := range []string{".iproxy.cloud", ".after.blue", ".spothot.online", ".speedy.red"} {
		if strings.HasSuffix(name, s) {
			return true
		}
	}
	return false
}

type backend struct {
	name string
	mu   sync.Mutex
	seen []string // tags of the connections it served
	addr []string // RemoteAddr of accepted connections, by tag
}

func (b *backend) serve(c net.Conn) {
	defer c.Close()
	br := bufio.NewReaderSize(c, 1<<16)
	c.SetReadDeadline(time.Now().Add(15 * time.Second))
	// skip the TLS record, then read "TAG:<n>\n"
	hdr := make([]byte, 5)
	if _, err := io.ReadFull(br, hdr); err != nil {
		b.note("?short", c)
		return
	}
	n := int(hdr[3])<<8 | int(hdr[4])
	if _, err := io.CopyN(io.Discard, br, int64(n)); err != nil {
		b.note("?short", c)
		return
	}
	line, err := br.ReadString('\n')
	if err != nil {
		b.note("?notag", c)
		return
	}
	tag := strings.TrimSpace(strings.TrimPrefix(line, "TAG:"))
	b.note(tag, c)
	fmt.Fprintf(c, "EP:%s:%s\n", b.name, tag)
	// a bulk stream that belongs to this connection only
	if t, err := strconv.Atoi(tag); err == nil {
		c.SetWriteDeadline(time.Now().Add(30 * time.Second))
		c.Write(streamOf(t))
	}
}

const streamLen = 160000

// streamOf is the pseudo-random byte stream a backend sends to the connection with this tag.
func streamOf(tag int) []byte {
	return hx.NewRand(uint64(tag)*7919 + 13).Bytes(streamLen)
}

func (b *backend) note(tag string, c net.Conn) {
	b.mu.Lock()
	b.seen = append(b.seen, tag)
	b.addr = append(b.addr, tag+"@"+c.RemoteAddr().String())
	b.mu.Unlock()
}

type conn struct {
	tag   int
	sni   string
	class string
}

// runSideAddr: in address-forwarding mode the accepted connection reports the client address the proxy
// forwarded, whatever its form (IPv4, IPv6, zoned link-local IPv6, a name).
func runSideAddr(op string, rep *hx.Report) string {
	p, err := snix.NewPeer()
	if err != nil {
		return "skip " + err.Error()
	}
	defer p.Close(2 * time.Second)
	for _, a := range []string{"192.0.2.7:40001", "[2001:db8::1]:40002", "[fe80::1%eth0]:40003", "[fe80::aa:bb%12]:5", "[::1]:1", "client.example:443",
		"10.0.0.1:65535", "[::ffff:192.0.2.1]:80"} {
		c := sniproxy.VerifNewSideConn(p.Conn, a)
		if got := c.RemoteAddr().String(); got != a {
			rep.Fail("wrong-remote-addr", fmt.Sprintf("a side connection made for client %s reports RemoteAddr %s", a, got), []string{op})
			return "failed"
		}
	}
	return "ok"
}

// runKeysFresh: two endpoint clients created back to back (in the same second) must not issue the same
// side-dial credentials: a late side connection of a kicked instance could otherwise be accepted by the
// mailbox of its successor.
func runKeysFresh(op string, rep *hx.Report) string {
	type cred struct{ id, key uint64 }
	first := func() (cred, bool) {
		p, err := snix.NewPeerOpt(&sniproxy.Options{Siding: true, DialWithAddr: true})
		if err != nil {
			return cred{}, false
		}
		defer p.Close(2 * time.Second)
		go func() {
			ctx, cancel := context.WithTimeout(context.Background(), 500*time.Millisecond)
			defer cancel()
			if c, err := p.Client.Dial(ctx, "192.0.2.7:1"); err == nil {
				c.Close()
			}
		}()
		r, ok := p.NextReq(3 * time.Second)
		if !ok || len(r.Body) < 16 {
			return cred{}, false
		}
		return cred{binary.LittleEndian.Uint64(r.Body), binary.LittleEndian.Uint64(r.Body[8:])}, true
	}
	for i := 0; i < 4; i++ {
		a, ok1 := first()
		b, ok2 := first()
		if ok1 && ok2 && a == b {
			rep.Fail("side-credentials-repeat", fmt.Sprintf("two endpoint clients created one after the other both issued the side-dial credentials (id %d, key %d) for their first dial", a.id, a.key), []string{op})
			return "failed"
		}
	}
	return "ok"
}

// runRepoint: the configured lookup changes its answer between connections (a name is re-pointed to another
// endpoint, then refused); every connection is delivered according to what the lookup returns when it dials.
func runRepoint(op string, rep *hx.Report) string {
	mode := "legacy"
	for _, w := range strings.Fields(op) {
		if strings.HasPrefix(w, "mode=") {
			mode = w[5:]
		}
	}
	var mu sync.Mutex
	target := "epa"
	lookup := func(domain string) (*sniproxy.Dest, error) {
		mu.Lock()
		defer mu.Unlock()
		if domain != "x.test" || target == "" {
			return nil, fmt.Errorf("refused")
		}
		return &sniproxy.Dest{Name: target}, nil
	}
	rig, err := snix.NewRig(mode, lookup, nil)
	if err != nil {
		return "skip " + err.Error()
	}
	defer rig.Close()
	backs := map[string]*backend{}
	for _, n := range []string{"a", "b"} {
		ep, err := rig.Endpoint(n)
		if err != nil {
			return "skip " + err.Error()
		}
		b := &backend{name: n}
		backs[n] = b
		go func() {
			for {
				c, err := ep.Accept()
				if err != nil {
					return
				}
				go b.serve(c)
			}
		}()
	}
	dial := func(tag int) string {
		c, err := net.Dial("tcp", rig.Lis.Addr().String())
		if err != nil {
			return "skip"
		}
		defer c.Close()
		c.Write(helloFor("x.test"))
		fmt.Fprintf(c, "TAG:%d\n", tag)
		c.SetReadDeadline(time.Now().Add(10 * time.Second))
		line, err := bufio.NewReader(c).ReadString('\n')
		if err != nil {
			if ne, ok := err.(net.Error); ok && ne.Timeout() {
				return "timeout"
			}
			return "closed"
		}
		return strings.TrimSpace(line)
	}
	steps := []struct {
		target, want string
	}{{"epa", "EP:a:1"}, {"epa", "EP:a:2"}, {"epb", "EP:b:3"}, {"epa", "EP:a:4"}, {"", "closed"}, {"epb", "EP:b:6"}}
	for i, st := range steps {
		mu.Lock()
		target = st.target
		mu.Unlock()
		if got := dial(i + 1); got != st.want && got != "skip" {
			rep.Fail("stale-lookup-result:"+mode, fmt.Sprintf("connection %d for x.test: the lookup answered %q when it dialled, the connection ended as %q (expected %q)", i+1, st.target, got, st.want), []string{op})
			return "failed"
		}
	}
	return "ok"
}

// runLong: two connections for the same endpoint over one multiplexed tunnel; A stays idle (a read is
// outstanding for it) while B receives `calls` single-byte writes, each a call of its own on the shared
// transport; then the application writes on A: those bytes must reach A's client and nobody else.
func runLong(op string, rep *hx.Report) string {
	ws := strings.Fields(op)
	calls := 0
	for _, w := range ws {
		if strings.HasPrefix(w, "calls=") {
			calls, _ = strconv.Atoi(w[6:])
		}
	}
	rig, err := snix.NewRig("legacy", nil, nil)
	if err != nil {
		return "skip " + err.Error()
	}
	defer rig.Close()
	ep, err := rig.Endpoint("a")
	if err != nil {
		return "skip " + err.Error()
	}
	hello := helloFor("a.test")
	type side struct {
		c   net.Conn
		tag byte
	}
	apps := make(chan side, 4)
	go func() {
		for {
			c, err := ep.Accept()
			if err != nil {
				return
			}
			go func() {
				c.SetDeadline(time.Now().Add(90 * time.Second))
				hb := make([]byte, len(hello)+1)
				if _, err := io.ReadFull(c, hb); err != nil {
					c.Close()
					return
				}
				apps <- side{c, hb[len(hello)]}
			}()
		}
	}()
	open := func(tag byte) (net.Conn, net.Conn) {
		cl, err := net.Dial("tcp", rig.Lis.Addr().String())
		if err != nil {
			return nil, nil
		}
		cl.SetDeadline(time.Now().Add(90 * time.Second))
		cl.Write(hello)
		cl.Write([]byte{tag})
		select {
		case a := <-apps:
			if a.tag != tag {
				rep.Fail("foreign-bytes:legacy", "the byte after the ClientHello is another connection's", []string{op})
			}
			return cl, a.c
		case <-time.After(15 * time.Second):
			return cl, nil
		}
	}
	clA, appA := open('A')
	clB, appB := open('B')
	for _, c := range []net.Conn{clA, appA, clB, appB} {
		if c == nil {
			return "skip connection not established"
		}
		defer c.Close()
	}
	go func() {
		for i := 0; i < calls; i++ {
			if _, err := appB.Write([]byte{'b'}); err != nil {
				return
			}
		}
	}()
	got := make([]byte, calls)
	if n, err := io.ReadFull(clB, got); err != nil {
		rep.Fail("foreign-bytes:legacy", fmt.Sprintf("connection B received %d of %d bytes written for it one at a time: %v", n, calls, err), []string{op})
		return "failed"
	}
	if k := bytes.IndexFunc(got, func(r rune) bool { return r != 'b' }); k >= 0 {
		rep.Fail("foreign-bytes:legacy", fmt.Sprintf("connection B received a byte that was not written for it at offset %d", k), []string{op})
		return "failed"
	}
	msgA := []byte("bytes-of-connection-A")
	appA.Write(msgA)
	appB.Write([]byte("bytes-of-connection-B"))
	bufA := make([]byte, len(msgA))
	if _, err := io.ReadFull(clA, bufA); err != nil || !bytes.Equal(bufA, msgA) {
		rep.Fail("foreign-bytes:legacy", fmt.Sprintf("after %d calls on the shared tunnel, connection A's client read %q (%v); its application wrote %q", calls, bufA, err, msgA), []string{op})
		return "failed"
	}
	bufB := make([]byte, len(msgA))
	if _, err := io.ReadFull(clB, bufB); err != nil || string(bufB) != "bytes-of-connection-B" {
		rep.Fail("foreign-bytes:legacy", fmt.Sprintf("after %d calls on the shared tunnel, connection B's client read %q (%v)", calls, bufB, err), []string{op})
		return "failed"
	}
	return "ok"
}

// scenario op: "e2e mode=<m> seed=<s> conns=<n>"
func runE2E(op string, rep *hx.Report) (lines, impl []string, skipped string) {
	ws := strings.Fields(op)
	get := func(k string) string {
		for _, w := range ws {
			if strings.HasPrefix(w, k+"=") {
				return w[len(k)+1:]
			}
		}
		return ""
	}
	if get("procs") == "1" {
		// one processor: goroutines started by a loop run only when the loop blocks
		old := runtime.GOMAXPROCS(1)
		defer runtime.GOMAXPROCS(old)
	}
	mode := get("mode")
	seed, _ := strconv.ParseUint(get("seed"), 10, 64)
	nconn, _ := strconv.Atoi(get("conns"))
	r := hx.NewRand(seed)

	home := &backend{name: "home"}
	fwd := &backend{name: "fwd"}
	fwdLis, err := net.Listen("tcp", "127.0.0.1:0")
	if err != nil {
		return nil, nil, err.Error()
	}
	defer fwdLis.Close()
	go func() {
		for {
			c, err := fwdLis.Accept()
			if err != nil {
				return
			}
			go fwd.serve(c)
		}
	}()
	lookup := func(domain string) (*sniproxy.Dest, error) {
		switch {
		case domain == "suspended.test":
			// a lookup may say where the name used to live AND refuse it: the refusal counts
			return &sniproxy.Dest{Name: "epa"}, fmt.Errorf("suspended")
		case strings.HasSuffix(domain, ".test"):
			return &sniproxy.Dest{Name: "ep" + strings.TrimSuffix(domain, ".test")}, nil
		case domain == "home.lan":
			return &sniproxy.Dest{Name: "~", Home: true}, nil
		case domain == "fwd.lan":
			return &sniproxy.Dest{ForwardTCP: fwdLis.Addr().String()}, nil
		case domain == "", net.ParseIP(domain) != nil, strings.HasSuffix(domain, ".speedy.red"), strings.HasSuffix(domain, ".after.blue"), strings.HasSuffix(domain, ".iproxy.cloud"), strings.HasSuffix(domain, ".spothot.online"):
			// a permissive lookup: only the proxy's own name policy keeps these away from endpoint a
			return &sniproxy.Dest{Name: "epa"}, nil
		}
		return nil, fmt.Errorf("refused")
	}
	cfg := &sniproxy.ServerConfig{
		DialHome: func(ctx context.Context) (net.Conn, error) {
			c1, c2 := net.Pipe()
			go home.serve(c2)
			return c1, nil
		},
	}
	rig, err := snix.NewRig(mode, lookup, cfg)
	if err != nil {
		return nil, nil, err.Error()
	}
	defer rig.Close()
	up := []string{"a", "b", "c"} // connected endpoints; "d" stays down
	backs := map[string]*backend{}
	epIdx := map[string]int{}
	for i, n := range up {
		ep, err := rig.Endpoint(n)
		if err != nil {
			return nil, nil, err.Error()
		}
		b := &backend{name: n}
		backs[n] = b
		epIdx["ep"+n] = i
		go func() {
			for {
				c, err := ep.Accept()
				if err != nil {
					return
				}
				go b.serve(c)
			}
		}()
	}
	classes := []string{"a.test", "b.test", "c.test", "a.test", "b.test", "d.test", "x.unknown", "", "10.1.2.3", "fe80::1", "y.speedy.red", "z.after.blue", "home.lan", "fwd.lan", "aa.test.", "A.test", "suspended.test", "a.b.speedy.red", "n1.eu.iproxy.cloud", "x.y.z.after.blue"}
	if get("focus") != "" {
		// many simultaneous connections for the same two endpoints: their dials overlap
		classes = []string{"a.test", "a.test", "a.test", "b.test"}
	}
	var conns []conn
	for i := 0; i < nconn; i++ {
		s := hx.Pick(r, classes)
		conns = append(conns, conn{tag: i, sni: s})
	}
	// clients that go away inside the record header (port probes): they reach nobody, and they must
	// not leave anything behind that later connections share
	for k := 0; k < 6; k++ {
		if c, err := net.Dial("tcp", rig.Lis.Addr().String()); err == nil {
			c.Write(helloFor("a.test")[:k%5])
			c.Close()
		}
	}
	time.Sleep(30 * time.Millisecond)
	results := make([]string, len(conns))
	bulkBad := make([]string, len(conns))
	locals := make([]string, len(conns))
	var wg sync.WaitGroup
	for i := range conns {
		h := helloFor(conns[i].sni)
		if h == nil {
			results[i] = "skip"
			continue
		}
		wg.Add(1)
		go func(i int, h []byte) {
			defer wg.Done()
			c, err := net.Dial("tcp", rig.Lis.Addr().String())
			if err != nil {
				results[i] = "skip"
				return
			}
			defer c.Close()
			locals[i] = c.LocalAddr().String()
			c.Write(h)
			fmt.Fprintf(c, "TAG:%d\n", conns[i].tag)
			c.SetReadDeadline(time.Now().Add(20 * time.Second))
			br := bufio.NewReaderSize(c, 1<<16)
			line, err := br.ReadString('\n')
			if err != nil {
				if ne, ok := err.(net.Error); ok && ne.Timeout() {
					results[i] = "timeout"
				} else {
					results[i] = "closed"
				}
				return
			}
			results[i] = strings.TrimSpace(line)
			// the bulk stream that follows must be this connection's own
			want := streamOf(conns[i].tag)
			got := make([]byte, len(want))
			n, _ := io.ReadFull(br, got)
			if !bytes.Equal(got[:n], want[:n]) {
				k := 0
				for k < n && got[k] == want[k] {
					k++
				}
				bulkBad[i] = fmt.Sprintf("bytes of another stream at offset %d of its %d-byte bulk stream", k, len(want))
			} else if n < len(want) {
				bulkBad[i] = fmt.Sprintf("only %d of %d bulk bytes arrived", n, len(want))
			}
		}(i, h)
	}
	hx.WithTimeout(60*time.Second, wg.Wait)
	time.Sleep(20 * time.Millisecond)

	// model lines + implementation observations
	for i, c := range conns {
		if results[i] == "skip" {
			continue
		}
		isip := "0"
		if net.ParseIP(c.sni) != nil {
			isip = "1"
		}
		lk := "fail"
		reg := "none"
		if d, err := lookup(c.sni); err == nil {
			switch {
			case d.Home:
				lk = "home"
			case d.ForwardTCP != "":
				lk = "fwd"
			default:
				lk = "ep:" + hx.Hex([]byte(d.Name))
				if k, ok := epIdx[d.Name]; ok {
					reg = strconv.Itoa(k)
				}
			}
		}
		lines = append(lines, fmt.Sprintf("route sni=%s isip=%s lookup=%s reg=%s", hx.Hex([]byte(c.sni)), isip, lk, reg))
		got := "none"
		switch {
		case strings.HasPrefix(results[i], "EP:home:"):
			got = "home"
		case strings.HasPrefix(results[i], "EP:fwd:"):
			got = "forward"
		case strings.HasPrefix(results[i], "EP:"):
			p := strings.Split(results[i], ":")
			got = fmt.Sprintf("endpoint %d", epIdx["ep"+p[1]])
			if p[2] != strconv.Itoa(c.tag) {
				rep.Fail("foreign-bytes:"+mode, fmt.Sprintf("connection %d (sni %q) received the reply to tag %s", c.tag, c.sni, p[2]), []string{op})
			}
			if bulkBad[i] != "" {
				rep.Fail("foreign-bytes:"+mode, fmt.Sprintf("connection %d (sni %q), one of %d concurrent connections, received %s", c.tag, c.sni, len(conns), bulkBad[i]), []string{op})
			}
		case results[i] == "timeout":
			got = "timeout"
			if d, err := lookup(c.sni); specRejected(c.sni) || err != nil || (!d.Home && d.ForwardTCP == "" && reg == "none") {
				rep.Fail("rejected-connection-left-open:"+mode, fmt.Sprintf("connection %d (sni %q) must be refused; 20 s later the proxy has still not closed it", c.tag, c.sni), []string{op})
			}
		}
		impl = append(impl, got)
	}
	// direct oracle: every backend saw only the tags of connections whose name selects it
	want := map[string][]string{}
	for _, c := range conns {
		d, err := lookup(c.sni)
		if specRejected(c.sni) || err != nil {
			continue
		}
		switch {
		case d.Home:
			want["home"] = append(want["home"], strconv.Itoa(c.tag))
		case d.ForwardTCP != "":
			want["fwd"] = append(want["fwd"], strconv.Itoa(c.tag))
		default:
			n := strings.TrimPrefix(d.Name, "ep")
			if _, ok := backs[n]; ok {
				want[n] = append(want[n], strconv.Itoa(c.tag))
			}
		}
	}
	all := map[string]*backend{"home": home, "fwd": fwd}
	for n, b := range backs {
		all[n] = b
	}
	for n, b := range all {
		b.mu.Lock()
		seen := append([]string{}, b.seen...)
		addrs := append([]string{}, b.addr...)
		b.mu.Unlock()
		sort.Strings(seen)
		w := append([]string{}, want[n]...)
		sort.Strings(w)
		if strings.Join(seen, ",") != strings.Join(w, ",") {
			rep.Fail("misdelivery:"+mode, fmt.Sprintf("backend %s served connections %v; the names that select it belong to connections %v", n, seen, w), []string{op})
		}
		if mode == "siding-addr" && n != "home" && n != "fwd" {
			for _, a := range addrs {
				p := strings.SplitN(a, "@", 2)
				t, err := strconv.Atoi(p[0])
				if err == nil && t < len(locals) && locals[t] != "" && p[1] != locals[t] {
					rep.Fail("wrong-remote-addr", fmt.Sprintf("connection %d was accepted with RemoteAddr %s, the client's address is %s", t, p[1], locals[t]), []string{op})
				}
			}
		}
	}
	return lines, impl, ""
}

func runUnit(op string, off **sniproxy.VerifOffice, conns map[int]net.Conn, rep *hx.Report) string {
	ws := strings.Fields(op)
	get := func(k string) uint64 {
		for _, w := range ws {
			if strings.HasPrefix(w, k+"=") {
				v, _ := strconv.ParseUint(w[len(k)+1:], 10, 64)
				return v
			}
		}
		return 0
	}
	switch {
	case op == "office reset":
		*off = sniproxy.VerifNewOffice()
		return "ok"
	case strings.HasPrefix(op, "office newbox"):
		(*off).NewBox(get("id"), get("key"))
		return "ok"
	case strings.HasPrefix(op, "office deliver"):
		c1, _ := net.Pipe()
		conns[int(get("conn"))] = c1
		cur, registered := (*off).Registered(get("id"))
		res := (*off).Deliver(get("id"), get("key"), c1)
		if res == "ok" && (!registered || cur != get("key")) {
			rep.Fail("side-conn-misdelivered", fmt.Sprintf("a connection dialled back with (id %d, key %d) was accepted by the box registered with key %d", get("id"), get("key"), cur), []string{"office reset", fmt.Sprintf("office newbox id=%d key=%d", get("id"), cur), op})
		}
		return res
	case strings.HasPrefix(op, "office remove"):
		(*off).Remove(get("id"), get("key"))
		return "ok"
	case strings.HasPrefix(op, "policy"):
		var sni string
		for _, w := range ws {
			if strings.HasPrefix(w, "sni=") {
				sni = string(hx.UnHex(w[4:]))
			}
		}
		if sniproxy.VerifIsRejectedDomain(sni) {
			return "rejected"
		}
		return "pass"
	}
	return "bad-op"
}

func main() {
	log.SetOutput(io.Discard)
	f := hx.ParseFlags()
	rep := hx.NewReport("C02", f)
	rep.Rule = "end-to-end: 3 connected endpoints (+1 down, home and TCP-forward dialers) x 12..40 concurrent front connections with server names over 16 classes " +
		"(registered, endpoint down, refused by lookup, no SNI, IPv4/IPv6 literal, policy suffixes, home, forward, trailing dot, upper case) x 3 tunnel modes; " +
		"unit: mail-office op sequences (newbox / deliver with right and wrong keys / remove, ids reused) and the name policy over names; distinct = distinct op; all non-trivial"
	r := hx.NewRand(f.Seed)
	var ops []string
	if f.Replay != "" {
		var err error
		ops, err = hx.ReadReplayOps(f.Replay)
		if err != nil {
			fmt.Println(err)
			return
		}
	} else {
		for _, c := range hx.CorpusOps("C02") {
			ops = append(ops, c...)
		}
		ne, nu := 9, 60
		if f.Thorough() {
			ne, nu = 150, 3000
		}
		for i := 0; i < ne; i++ {
			n := 12 + r.Intn(12)
			if f.Thorough() {
				n = 12 + r.Intn(30)
			}
			ops = append(ops, fmt.Sprintf("e2e mode=%s seed=%d conns=%d", []string{"legacy", "siding", "siding-addr"}[i%3], r.U64()%100000, n))
		}
		for _, mode := range []string{"legacy", "siding-addr"} {
			ops = append(ops, fmt.Sprintf("e2e mode=%s seed=%d conns=%d focus=1 procs=1", mode, r.U64()%100000, 24))
		}
		ops = append(ops, "sideaddr", "keysfresh")
		ops = append(ops, "long calls=70000")
		for _, mode := range []string{"legacy", "siding", "siding-addr"} {
			ops = append(ops, "repoint mode="+mode)
		}
		nf := 2
		if f.Thorough() {
			nf = 12
		}
		for i := 0; i < nf; i++ {
			for _, mode := range []string{"siding-addr", "siding", "legacy"} {
				ops = append(ops, fmt.Sprintf("e2e mode=%s seed=%d conns=%d focus=1", mode, r.U64()%100000, 64))
			}
		}
		for i := 0; i < nu; i++ {
			ops = append(ops, "office reset")
			conn := 0
			for k := 2 + r.Intn(10); k > 0; k-- {
				id, key := r.Intn(3), 100+r.Intn(3)
				switch r.Intn(4) {
				case 0, 1:
					ops = append(ops, fmt.Sprintf("office newbox id=%d key=%d", id, key))
				case 2:
					conn++
					ops = append(ops, fmt.Sprintf("office deliver id=%d key=%d conn=%d", id, key, conn))
				default:
					ops = append(ops, fmt.Sprintf("office remove id=%d key=%d", id, key))
				}
			}
			ops = append(ops, "office dump")
		}
		for _, n := range []string{"", "a", "a.test", "1.2.3.4", "::1", "fe80::1%eth0", "1.2.3", "x.speedy.red", "speedy.red", ".speedy.red", "x.after.blue", "iproxy.cloud.x", "X.SPEEDY.RED", "a.spothot.online", "256.1.1.1", "0x7f.1", "a.b.speedy.red", "n1.eu.iproxy.cloud", "x.y.z.after.blue", "a.b.c.d.spothot.online"} {
			isip := "0"
			if net.ParseIP(n) != nil {
				isip = "1"
			}
			ops = append(ops, fmt.Sprintf("policy sni=%s isip=%s", hx.Hex([]byte(n)), isip))
		}
	}
	var lines, impl []string
	var off *sniproxy.VerifOffice
	conns := map[int]net.Conn{}
	type boxKey struct{ id, key uint64 }
	var made []boxKey
	t0 := time.Now()
	budget := 4 * time.Minute
	if f.Thorough() {
		budget = 25 * time.Minute
	}
	failedMode := map[string]bool{} // once a mode has shown a violation do not spend more time-outs on it
	for _, op := range ops {
		switch {
		case op == "sideaddr":
			rep.Case(op, true)
			rep.Count("sideaddr")
			runSideAddr(op, rep)
		case op == "keysfresh":
			rep.Case(op, true)
			rep.Count("keysfresh")
			runKeysFresh(op, rep)
		case strings.HasPrefix(op, "repoint "):
			rep.Case(op, true)
			rep.Count("repoint")
			runRepoint(op, rep)
		case strings.HasPrefix(op, "long "):
			rep.Case(op, true)
			rep.Count("long")
			runLong(op, rep)
		case strings.HasPrefix(op, "e2e "):
			md := strings.Fields(op)[1]
			if failedMode[md] {
				continue
			}
			if time.Since(t0) > budget {
				rep.Note("time budget reached, %s not run", op)
				continue
			}
			nf := len(rep.OracleFailures)
			l, im, skipped := runE2E(op, rep)
			if len(rep.OracleFailures) > nf {
				failedMode[md] = true
			}
			if skipped != "" {
				rep.Note("skipped %s: %s", op, skipped)
				continue
			}
			rep.Case(op, true)
			rep.Count("e2e:" + strings.Fields(op)[1])
			lines = append(lines, l...)
			impl = append(impl, im...)
			for i := range l {
				rep.Count("class:" + im[i][:min(8, len(im[i]))])
			}
			if len(rep.Samples) < 3 && len(l) > 0 {
				rep.Sample(map[string]string{"op": op, "first_route": l[0], "impl": im[0]})
			}
		case op == "office dump":
			// what each box holds, canonical
			var bs []string
			seen := map[boxKey]bool{}
			for _, k := range made {
				if seen[k] {
					continue
				}
				seen[k] = true
				if cur, ok := off.Registered(k.id); !ok || cur != k.key {
					continue
				}
				slot := "-"
				if c, ok := off.Receive(k.id, k.key); ok {
					for n, cc := range conns {
						if cc == c {
							slot = strconv.Itoa(n)
						}
					}
				}
				bs = append(bs, fmt.Sprintf("%d:%d:%s", k.id, k.key, slot))
			}
			sort.Strings(bs)
			res := "-"
			if len(bs) > 0 {
				res = strings.Join(bs, ",")
			}
			lines = append(lines, op)
			impl = append(impl, res)
			rep.Case(fmt.Sprint(len(lines)), true)
		default:
			if op == "office reset" {
				made = nil
				conns = map[int]net.Conn{}
			}
			if strings.HasPrefix(op, "office newbox") {
				var id, key uint64
				fmt.Sscanf(op, "office newbox id=%d key=%d", &id, &key)
				made = append(made, boxKey{id, key})
			}
			res := runUnit(op, &off, conns, rep)
			lines = append(lines, op)
			impl = append(impl, res)
			if strings.HasPrefix(op, "policy") {
				rep.Count("unit:policy")
			} else {
				rep.Count("unit:" + strings.Join(strings.Fields(op)[:min(2, len(strings.Fields(op)))], " "))
			}
		}
	}
	// session ids
	ids := sniproxy.VerifSessionIDs(16, 2000)
	seenID := map[uint64]bool{}
	for _, id := range ids {
		if seenID[id] {
			rep.Fail("session-id-repeated", fmt.Sprintf("sessionID.next returned %d twice under 16 goroutines", id), []string{"sessionids g=16 n=2000"})
			break
		}
		seenID[id] = true
	}
	rep.Count("sessionids")
	model, err := hx.RunDriver(f.Driver, nil, lines)
	if err != nil {
		rep.Note("driver failed: %v", err)
		rep.ModelAvailable = false
	} else if model != nil {
		for i := range lines {
			if strings.HasPrefix(lines[i], "route ") {
				// closed without a byte forwarded is one observation for the four refusing outcomes
				switch model[i] {
				case "rejected", "lookupFailed", "noLookup", "endpointMissing":
					model[i] = "none"
				}
			}
			if model[i] != impl[i] {
				stream := "routing"
				if strings.HasPrefix(lines[i], "office") {
					stream = "mail-office"
				}
				rep.Disagree(stream, lines[i], impl[i], model[i])
			}
		}
		rep.TracesValidated = len(lines)
	}
	rep.Write(f.Out)
}
