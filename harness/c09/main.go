// Harness for C09: accepted JSONx input is converted to valid JSON with the
// same meaning; Unmarshal/ReadFile report trailing content.
//
// Ops (see lean/PubModel/C07/Driver.lean):
//
//		tojson <hex>                jsonx.ToJSON
//		unm <hex>                   jsonx.Unmarshal (trailing-content check)
//		doc <hex text> <hex want>   oracle only: ToJSON(text), when accepted, must be valid JSON
//		                            (json.Valid) that encoding/json reads as <want> (exact numbers)
//		plain <hex text>            oracle only: text is RFC 8259; when ToJSON accepts it, the output
//		                            must read as encoding/json reads the text itself
//		trail <hex doc> <hex tail>  oracle only: doc is a complete accepted value and tail has a real
//		                            token: Unmarshal(doc+tail) and ReadFile must return an error
//
//	  maybe <hex file content>    oracle only: ReadFileMaybeJSON must fail unless JSONx reads the whole file or the
//	                              whole file is one plain JSON document (no content after a complete value)
//	  conc <n> <hex text>         oracle only: n goroutines call ToJSON repeatedly and re-verify earlier results
//
// Every tojson result is kept and re-verified after later calls (result-aliased-by-later-call).
// tojson/unm lines also go to the Lean driver; float and string leaves come
// back symbolic and are expanded with the strconv / encoding/json calls the code uses.
package main

import (
	"bytes"
	"encoding/json"
	"fmt"
	"io"
	"log"
	"math/big"
	"os"
	"path/filepath"
	"runtime"
	"sort"
	"strconv"
	"strings"
	"sync"

	"shanhu.io/g/jsonx"
	"verif/harness/c07/jx"
	"verif/harness/hx"
)

type ctx struct {
	rep  *hx.Report
	j    *hx.Journal
	work string
	nf   int
	keep *jx.Keeper // earlier jsonx.ToJSON results, re-verified after later calls
}

// checkDoc is the C09 oracle on one text with a known meaning: "" when it
// holds (or the text is rejected), otherwise what failed.
func checkDoc(text, want []byte) (kind, desc string) {
	out, errs := jsonx.ToJSON(text)
	if errs != nil {
		return "", ""
	}
	if !json.Valid(out) {
		return "invalid-json", fmt.Sprintf("ToJSON(%q) = %q without error; that is not JSON", text, out)
	}
	if ok, path := jx.EqualText(out, want); !ok {
		return "wrong-value", fmt.Sprintf("ToJSON(%q) = %s, but the input denotes %s (at %s)", text, out, want, path)
	}
	// the value Unmarshal hands out must be the same
	var box interface{}
	if err := jsonx.Unmarshal(text, &box); err == nil {
		got, _ := json.Marshal(box)
		var wb interface{}
		json.Unmarshal(want, &wb)
		wg, _ := json.Marshal(wb)
		if string(got) != string(wg) {
			return "wrong-value", fmt.Sprintf("Unmarshal(%q) = %s, want %s", text, got, wg)
		}
	}
	return "", ""
}

// coarse maps a leaf spelling class to the defect class used in oracle keys.
func coarse(class string) string {
	for _, k := range []string{"int-hex", "int-octal", "neg-float", "plus-float", "neg-int", "plus-int", "float", "int", "string", "ident-list"} {
		if strings.Contains(class, k) {
			return k
		}
	}
	return class
}

func sortedFeats(m map[string]bool) string {
	var ks []string
	for k := range m {
		ks = append(ks, k)
	}
	sort.Strings(ks)
	return strings.Join(ks, "+")
}

func (c *ctx) readFileErr(text []byte) error {
	if c.work == "" {
		return jsonx.Unmarshal(text, new(interface{}))
	}
	c.nf++
	p := filepath.Join(c.work, fmt.Sprintf("c09-%d.jsonx", c.nf%8))
	if err := os.WriteFile(p, text, 0o644); err != nil {
		return jsonx.Unmarshal(text, new(interface{}))
	}
	defer os.Remove(p)
	return jsonx.ReadFile(p, new(interface{}))
}

func (c *ctx) runOp(line string) string {
	ws := strings.Fields(line)
	if len(ws) < 2 {
		return "bad-op"
	}
	switch ws[0] {
	case "tojson":
		in := hx.UnHex(ws[1])
		x, out := jx.ImplToJSON(in)
		c.keep.Check(line) // results handed out earlier must not change
		cp := append([]byte(nil), x...)
		jx.Scribble(in) // the input belongs to the caller again
		if !bytes.Equal(x, cp) {
			c.rep.Fail("result-aliases-input", "the bytes ToJSON returned changed when the input buffer was overwritten", []string{line})
		}
		c.keep.Add(line, x)
		return out
	case "unm":
		_, out := jx.ImplUnmarshal(hx.UnHex(ws[1]))
		c.keep.Check(line)
		return out
	case "conc":
		return c.concurrent(ws, line)
	case "reject":
		// oracle only: the text has no documented meaning (a sign in front of something that is
		// not a number); accepting it would hand out a value or JSON the input does not denote
		if len(ws) != 3 {
			return "bad-op"
		}
		text := hx.UnHex(ws[1])
		out, errs := jsonx.ToJSON(text)
		var box interface{}
		uerr := jsonx.Unmarshal(text, &box)
		if errs == nil || uerr == nil {
			got, _ := json.Marshal(box)
			c.rep.Fail(ws[2], fmt.Sprintf("%q is accepted: ToJSON = %q (errors: %v), Unmarshal = %s (error: %v); a sign may only precede a number",
				text, out, errs != nil, got, uerr), []string{line})
			return "accepted"
		}
		return "rejected"
	case "dec":
		if len(ws) != 3 {
			return "bad-op"
		}
		n, err := strconv.Atoi(ws[1])
		if err != nil || n < 1 {
			return "bad-op"
		}
		return jx.ImplDecode(hx.UnHex(ws[2]), n)
	case "maybe":
		return c.maybeJSON(hx.UnHex(ws[1]), line)
	case "doc":
		if len(ws) != 4 {
			return "bad-op"
		}
		if kind, desc := checkDoc(hx.UnHex(ws[1]), hx.UnHex(ws[2])); kind != "" {
			c.rep.Fail("tojson-"+kind+":"+coarse(ws[3]), desc, []string{line})
			return kind
		}
		return "held"
	case "plain":
		text := hx.UnHex(ws[1])
		if !json.Valid(text) {
			return "bad-op"
		}
		g, err := jx.Generic(text)
		if err != nil {
			return "bad-op"
		}
		want, _ := json.Marshal(g)
		if kind, desc := checkDoc(text, want); kind != "" {
			c.rep.Fail("plain-json-"+kind, desc, []string{line})
			return kind
		}
		return "held"
	case "trail":
		if len(ws) != 4 {
			return "bad-op"
		}
		doc, tail := hx.UnHex(ws[1]), hx.UnHex(ws[2])
		if err := jsonx.Unmarshal(doc, new(interface{})); err != nil {
			return "doc-rejected"
		}
		full := append(append([]byte{}, doc...), tail...)
		if err := jsonx.Unmarshal(full, new(interface{})); err == nil {
			c.rep.Fail("trailing-content-accepted:unmarshal:"+ws[3],
				fmt.Sprintf("Unmarshal(%q) returns no error although %q follows the complete value %q", full, tail, doc), []string{line})
			return "accepted"
		}
		if err := c.readFileErr(full); err == nil {
			c.rep.Fail("trailing-content-accepted:readfile:"+ws[3],
				fmt.Sprintf("ReadFile of %q returns no error although %q follows the complete value", full, tail), []string{line})
			return "accepted"
		}
		return "held"
	}
	return "bad-op"
}

// concurrent: n goroutines convert different texts over and over; each keeps its
// previous result and re-verifies it after its next call, and checks every result.
func (c *ctx) concurrent(ws []string, line string) string {
	if len(ws) != 3 {
		return "bad-op"
	}
	n, err := strconv.Atoi(ws[1])
	text := hx.UnHex(ws[2])
	if err != nil || n < 1 || n > 8 {
		return "bad-op"
	}
	if _, errs := jsonx.ToJSON(text); errs != nil {
		return "rejected"
	}
	base, _ := jsonx.ToJSON(text)
	base = append([]byte(nil), base...)
	fails := make([]string, n)
	var wg sync.WaitGroup
	for i := 0; i < n; i++ {
		wg.Add(1)
		go func(i int) {
			defer wg.Done()
			var prev, prevCopy []byte
			for it := 0; it < 60; it++ {
				tag := strconv.Itoa(i*100000 + it)
				in := []byte("[" + tag + ", " + string(text) + "]")
				want := "[" + tag + "," + string(base) + "]"
				x, errs := jsonx.ToJSON(in)
				if errs != nil {
					fails[i] = fmt.Sprintf("goroutine %d: ToJSON(%.60q) failed: %v", i, in, errs[0])
					return
				}
				cp := append([]byte(nil), x...)
				runtime.Gosched()
				if prev != nil && !bytes.Equal(prev, prevCopy) {
					fails[i] = fmt.Sprintf("goroutine %d: the bytes of its previous ToJSON result changed: were %.60q, now %.60q", i, prevCopy, prev)
					return
				}
				if string(cp) != want {
					fails[i] = fmt.Sprintf("goroutine %d: ToJSON(%.60q) = %.60q, want %.60q", i, in, cp, want)
					return
				}
				prev, prevCopy = x, cp
			}
		}(i)
	}
	wg.Wait()
	for _, f := range fails {
		if f != "" {
			c.rep.Fail("result-aliased-by-later-call:concurrent", f, []string{line})
			return "aliased"
		}
	}
	return "held"
}

// maybeJSON drives ReadFileMaybeJSON and ReadFile on a file with the given content.
// A file is acceptable when JSONx reads all of it or when it is, as a whole, one plain
// JSON document; anything else (a complete value followed by more content) must be an error.
func (c *ctx) maybeJSON(content []byte, line string) string {
	dir := c.work
	if dir == "" {
		dir = os.TempDir()
	}
	c.nf++
	p := filepath.Join(dir, fmt.Sprintf("c09-maybe-%d-%d.jsonx", os.Getpid(), c.nf%8))
	if err := os.WriteFile(p, content, 0o644); err != nil {
		return "io-error"
	}
	defer os.Remove(p)
	var v, w, x interface{}
	got := jsonx.ReadFileMaybeJSON(p, &v)
	jsonxErr := jsonx.Unmarshal(content, &x)
	wholeErr := json.Unmarshal(content, &w)
	if got == nil && jsonxErr != nil && wholeErr != nil {
		c.rep.Fail("maybejson-trailing-accepted",
			fmt.Sprintf("ReadFileMaybeJSON accepts a file with content %q: JSONx rejects it (%v) and as a whole it is not one JSON document (%v)", content, jsonxErr, wholeErr),
			[]string{line})
		return "accepted-with-trailing"
	}
	if got == nil && jsonxErr != nil && wholeErr == nil {
		a, _ := json.Marshal(v)
		b, _ := json.Marshal(w)
		if string(a) != string(b) {
			c.rep.Fail("maybejson-wrong-value", fmt.Sprintf("ReadFileMaybeJSON(%q) = %s, encoding/json reads %s", content, a, b), []string{line})
			return "wrong-value"
		}
	}
	if rf := jsonx.ReadFile(p, new(interface{})); (rf == nil) != (jsonxErr == nil) {
		c.rep.Fail("readfile-differs-from-unmarshal", fmt.Sprintf("ReadFile and Unmarshal disagree on %q: %v / %v", content, rf, jsonxErr), []string{line})
		return "readfile-differs"
	}
	switch {
	case got != nil:
		return "error"
	case jsonxErr == nil:
		return "ok-jsonx"
	}
	return "ok-plain-json"
}

// maybeInputs: <complete plain JSON value that JSONx rejects><trailing junk>, and the
// same without junk (must be read as plain JSON).
func (g *gen) maybeInputs(n int) {
	junk := []string{"", "", " 2", "\n{}", " ]", "}", " garbage", ",", "\n\n[1]", " \"x\"", "\n// c", ";", " null", "\t:"}
	for i := 0; i < n; i++ {
		var first string
		switch g.r.Intn(5) {
		case 0: // newline before a closing bracket: the semicolon inserter makes JSONx reject it
			bs, _ := json.MarshalIndent(g.g.Value(2), "", "  ")
			first = string(bs)
		case 1:
			first = hx.Pick(g.r, []string{"[1\n]", "{\"a\":1\n}", "[[]\n]", "{\"a\":{\"b\":[true\n]}}", "[\n1,\n2\n]"})
		case 2: // escapes legal in JSON only
			first = hx.Pick(g.r, []string{`"\/"`, `"\ud83d\ude00"`, `["a\/b"]`, `{"k\/":1}`, `{"a":"\ud834\udd1e"}`})
		case 3: // accepted by both
			bs, _ := json.Marshal(g.g.Value(2))
			first = string(bs)
		default:
			first = hx.Pick(g.r, []string{"{\"a\":1,\"a\":2\n}", "[1e400]", "{\"a\":[1,2,3\n]}", "1\n", "[\"x\"\n,1]"})
		}
		content := first + hx.Pick(g.r, junk)
		g.add("maybe " + hx.Hex([]byte(content)))
		g.rep.Count("maybejson")
	}
}

// expectFromText gives the JSON the two generated boundary forms without a fixed
// expectation denote: {"<pad><ch>": 1} and {k: [1, 1, ..., "<ch><ch>"]}.
func expectFromText(text, ch, out string) string {
	if strings.HasPrefix(text, `{"`) {
		i := strings.Index(text, `": 1}`)
		if i < 0 {
			return ""
		}
		k, _ := json.Marshal(text[2:i])
		return "{" + string(k) + ":1}"
	}
	if strings.HasPrefix(text, "{k: [") {
		n := strings.Count(text, "1, ")
		return `{"k":[` + strings.Repeat("1,", n) + `"` + ch + ch + `"]}`
	}
	return ""
}

type gen struct {
	g    *jx.Gen
	r    *hx.Rand
	rep  *hx.Report
	ops  []string
	seen map[string]bool
}

func (g *gen) add(op string) bool {
	if g.seen[op] {
		return false
	}
	g.seen[op] = true
	g.ops = append(g.ops, op)
	g.rep.Case(op, true)
	return true
}

var tails = []struct{ text, kind string }{
	{"1", "value"}, {"\"x\"", "value"}, {"{}", "value"}, {"[1]", "value"}, {"null", "value"}, {"a", "value"}, {"-1", "value"},
	{",", "operator"}, {"}", "operator"}, {"]", "operator"}, {":", "operator"}, {"+", "operator"}, {"/", "operator"},
	{"@", "illegal"}, {"'", "illegal"}, {"\"unterminated", "illegal"}, {"; 2", "value-after-semi"}, {"\n3", "value-after-newline"},
}
var tailSeps = []string{" ", "\n", ";", "\n\n", " /*c*/ ", "\t", " // c\n", ";\n", "\r\n", "//\n", " //\r\n", " /**/ ", "//\n//\n"}

// doc renders v under random surface choices and adds its ops.
func (g *gen) doc(v interface{}, plain bool) {
	s := &jx.Surface{R: g.r, Plain: plain}
	text := s.Value(v)
	want, err := json.Marshal(v)
	if err != nil {
		return
	}
	// top-level layout
	lead := hx.Pick(g.r, []string{"", "", " ", "\n", "\t", "/*c*/ ", "// c\n", "\r\n"})
	trailer := hx.Pick(g.r, []string{"", "", "\n", " ", " \n", "\n\n", " // end", " /* end */\n", ";", ";\n"})
	if plain {
		lead = hx.Pick(g.r, []string{"", " ", "\n", "\t\r"})
		trailer = hx.Pick(g.r, []string{"", "\n", " ", "\r\n"})
	}
	full := lead + text + trailer
	feats := sortedFeats(s.Feats)
	if feats == "" {
		feats = "plain"
	}
	for _, ft := range strings.Split(feats, "+") {
		g.rep.Count("surface:" + ft)
	}
	if !g.add("tojson " + hx.Hex([]byte(full))) {
		return
	}
	g.add("unm " + hx.Hex([]byte(full)))
	kind, _ := checkDoc([]byte(full), want)
	if kind != "" {
		// minimise: does one of the spelled leaves fail on its own?
		reported := false
		for _, a := range s.Atoms {
			if k2, _ := checkDoc([]byte(a.Text), []byte(a.Want)); k2 != "" {
				g.add(fmt.Sprintf("doc %s %s %s", hx.Hex([]byte(a.Text)), hx.Hex([]byte(a.Want)), a.Class))
				g.add("tojson " + hx.Hex([]byte(a.Text)))
				reported = true
			}
		}
		if !reported {
			g.add(fmt.Sprintf("doc %s %s %s", hx.Hex([]byte(full)), hx.Hex(want), "document("+feats+")"))
		}
	} else {
		g.add(fmt.Sprintf("doc %s %s %s", hx.Hex([]byte(full)), hx.Hex(want), "document"))
	}
	for _, a := range s.Atoms {
		g.rep.Count("leaf:" + a.Class)
	}
	if plain {
		g.add("plain " + hx.Hex([]byte(full)))
	}
	if g.r.Intn(6) == 0 { // the same text through an io.Reader with short reads
		g.add(fmt.Sprintf("dec %d %s", hx.Pick(g.r, []int{1, 2, 3, 5, 7, 64}), hx.Hex([]byte(full))))
		g.rep.Count("reader:short-reads")
	}
	// trailing content after the complete value
	if g.r.Intn(3) == 0 {
		t := hx.Pick(g.r, tails)
		sep := hx.Pick(g.r, tailSeps)
		doc := lead + text
		if strings.HasPrefix(t.text, ";") || strings.HasPrefix(t.text, "\n") {
			sep = hx.Pick(g.r, []string{";", "\n", ";\n"})
		}
		g.add(fmt.Sprintf("trail %s %s %s", hx.Hex([]byte(doc)), hx.Hex([]byte(sep+t.text)), t.kind))
		g.add("unm " + hx.Hex([]byte(doc+sep+t.text)))
		g.rep.Count("trailing:" + t.kind)
	}
}

var rfcCorners = []string{
	`"\/"`, `"😀"`, `"é"`, `"\u0000"`, `"\b\f\n\r\t\"\\"`, `1E5`, `1e+5`, `1E+5`, `1e-5`, `-0`, `-0.0`, `0.0`, `0e0`, `1.0e-2`, `-1E-2`,
	`[ ]`, `{ }`, `[1, 2]`, `{"a" : [1, {"b": null}]}`, `[[],{}]`, `123456789012345678901234567890`, `-9223372036854775808`, `0.1e1`,
	`1e400`, `1e-400`, `" "`, `"<>&"`, `[1,` + "\n" + `2]`, `[1` + "\n" + `]`, `{"a":1` + "\n" + `}`, " \t\r\n1", `"abc"`, `true`, `false`, `null`,
	`[true,false,null]`, `{"true":1,"null":2}`, `{"a":1,"a":2}`, `1.5`, `-1.5`, `[-1.5e+3]`, `{"k":-0.25}`, `10`, `1e5`, `2E0`,
}

var jsonxCorners = []struct{ text, want string }{
	{"-1.5", "-1.5"}, {"+1.5", "1.5"}, {"0x10", "16"}, {"007", "7"}, {"-0x1F", "-31"}, {"+010", "8"}, {"0", "0"}, {"00", "0"}, {"-0", "-0"},
	{"0x0", "0"}, {"0xdeadBEEF", "3735928559"}, {"1e+06", "1000000"}, {"1E6", "1000000"}, {"1.", "1"}, {"1.e2", "100"}, {"-1e-7", "-1e-7"},
	{"{a: -0.5, b: +7, c: 0x7fffffffffffffff,}", `{"a":-0.5,"b":7,"c":9223372036854775807}`},
	{"a.b.c", `["a","b","c"]`}, {"a", `["a"]`}, {"{k: a.b}", `{"k":["a","b"]}`}, {"[a, b.c]", `[["a"],["b","c"]]`},
	{"`raw\n\"x\"`", `"raw\n\"x\""`}, {`"\x41\101A\U00000041"`, `"AAAA"`}, {"{\n\ta: 1,\n}", `{"a":1}`}, {"[1,\n2,\n]", "[1,2]"},
	{"- 5", "-5"}, {"-\n5", "-5"}, {"[ /*c*/ 1 /*d*/ , // e\n 2]", "[1,2]"}, {"{\"a\":1 , }", `{"a":1}`}, {"9223372036854775808", "9223372036854775808"},
	{"0x10000000000000000", "18446744073709551616"}, {"01777777777777777777777", "18446744073709551615"},
}

func main() {
	log.SetOutput(io.Discard)
	f := hx.ParseFlags()
	rep := hx.NewReport("C09", f)
	rep.Rule = "op lines: tojson/unm on renderings of random JSON values under random JSONx surface choices (key quoting, separators, " +
		"trailing commas, comments, white space, newlines, string style raw/Go/JSON/byte escapes, number spelling incl. sign, exponent, " +
		"hex, octal, dotted identifier lists) and on RFC 8259 texts; doc/plain/trail evaluate the oracle (json.Valid, encoding/json reads " +
		"the same value, trailing content is an error); distinct = distinct op line; non-trivial = every op"
	c := &ctx{rep: rep, j: hx.NewJournal(f.Work), work: f.Work}
	c.keep = &jx.Keeper{What: "jsonx.ToJSON", Fail: rep.Fail}

	var ops []string
	if f.Replay != "" {
		if _, serr := os.Stat(f.Replay); serr != nil && !filepath.IsAbs(f.Replay) {
			f.Replay = filepath.Join(os.Getenv("VERIF_DIR"), f.Replay) // ./check runs us in a scratch directory
		}
		var err error
		ops, err = hx.ReadReplayOps(f.Replay)
		if err != nil {
			fmt.Println("replay:", err)
			return
		}
		for _, op := range ops {
			rep.Case(op, true)
		}
	} else {
		g := &gen{r: hx.NewRand(f.Seed), rep: rep, seen: map[string]bool{}}
		g.g = &jx.Gen{R: g.r, Count: rep.Count}
		for _, co := range hx.CorpusOps("C09") {
			for _, op := range co {
				g.add(op)
				rep.Count("corpus")
			}
		}
		ndoc, nleaf, nplain := 6000, 10000, 3000
		if f.Thorough() {
			ndoc, nleaf, nplain = 200000, 300000, 100000
		}
		for _, jc := range jsonxCorners {
			g.add("tojson " + hx.Hex([]byte(jc.text)))
			g.add("unm " + hx.Hex([]byte(jc.text)))
			g.add(fmt.Sprintf("doc %s %s corner", hx.Hex([]byte(jc.text)), hx.Hex([]byte(jc.want))))
		}
		// raw control characters, DEL and U+2028/2029 inside double-quoted literals without any
		// backslash (string values and quoted keys): legal source, must come out as valid JSON
		var ctl []string
		for c := 1; c < 0x20; c++ {
			if c != '\n' {
				ctl = append(ctl, string(rune(c)))
			}
		}
		ctl = append(ctl, "\x7f", "\u2028", "\u2029", "\u0085", "\t\r\x1b", "a\tb", "\x00")
		for _, cc := range ctl {
			js, _ := json.Marshal(cc)
			jk, _ := json.Marshal("k" + cc)
			for _, d := range []struct{ text, want string }{
				{"\"" + cc + "\"", string(js)},
				{"{\"k" + cc + "\": 1}", "{" + string(jk) + ":1}"},
				{"[\"" + cc + "\", {\"k" + cc + "\": \"" + cc + "\"}]", "[" + string(js) + ",{" + string(jk) + ":" + string(js) + "}]"},
			} {
				g.add("tojson " + hx.Hex([]byte(d.text)))
				g.add("unm " + hx.Hex([]byte(d.text)))
				g.add(fmt.Sprintf("doc %s %s string-verbatim-control", hx.Hex([]byte(d.text)), hx.Hex([]byte(d.want))))
				rep.Count("verbatim-control-corner")
			}
		}
		// comments with empty bodies, comments at every position, raw strings with carriage returns
		for _, t := range []struct{ text, want string }{
			{"{a:1, //\n b:2,}", `{"a":1,"b":2}`}, {"{a:1, //\r\n b:2,}", `{"a":1,"b":2}`}, {"[1, //\n2, //\n3]", `[1,2,3]`},
			{"//\n1", `1`}, {"//\n//\n[//\n1, //\n]", `[1]`}, {"1 //", `1`}, {"1 //\n", `1`}, {"1//", `1`}, {"/**/1/**/", `1`},
			{"{/**/a/**/:/**/1/**/,/**/}", `{"a":1}`}, {"[/**/1/**/,/**/2/**/]", `[1,2]`}, {"{ //\n a: //\n 1, //\n }", `{"a":1}`},
			{"{a: [ //\n ], b: { //\n }, }", `{"a":[],"b":{}}`}, {"- //\n 5", `-5`}, {"a. //\n b", `["a","b"]`},
			{"`a\rb`", `"ab"`}, {"`a\r\nb`", `"a\nb"`}, {"`\r`", `""`}, {"`a\nb`", `"a\nb"`}, {"{`k\r`: 1}", `{"k":1}`},
			{"{`k\r\n`: `v\r\n`}", `{"k\n":"v\n"}`}, {"[`x\r\ny`, \"x\\r\\ny\"]", `["x\ny","x\r\ny"]`},
		} {
			g.add("tojson " + hx.Hex([]byte(t.text)))
			g.add("unm " + hx.Hex([]byte(t.text)))
			g.add(fmt.Sprintf("doc %s %s comment-or-raw-corner", hx.Hex([]byte(t.text)), hx.Hex([]byte(t.want))))
			rep.Count("comment-raw-corner")
		}
		for _, t := range []string{"1 //\n2\n", "1 //\n2", "[1] //\r\n{}", "{} /**/ 3", "1 //\n//\n2", "`a` //\n`b`"} {
			i := strings.Index(t, "/")
			g.add(fmt.Sprintf("trail %s %s after-empty-comment", hx.Hex([]byte(t[:i])), hx.Hex([]byte(t[i:]))))
			g.add("unm " + hx.Hex([]byte(t)))
		}
		// a sign in front of anything but a number is not JSONx
		for _, sg := range []string{"+", "-"} {
			for _, gap := range []string{"", " ", "\n", " /**/ "} {
				for _, val := range []string{`"x"`, "`x`", `""`, "true", "false", "null", "{}", "[]", "[1]", "{a: 1}", "a", "a.b",
					"-5", "+5", "-1.5", "- 5", "+-5", ",", "}", ""} {
					for _, wrap := range []string{"%s", "[%s]", "{k: %s}", "[1, %s,]"} {
						if (gap != "" || wrap != "%s") && g.r.Intn(3) != 0 {
							continue
						}
						t := fmt.Sprintf(wrap, sg+gap+val)
						g.add("tojson " + hx.Hex([]byte(t)))
						g.add("unm " + hx.Hex([]byte(t)))
						g.add(fmt.Sprintf("reject %s sign-before-non-number-accepted", hx.Hex([]byte(t))))
						rep.Count("sign-before-non-number")
					}
				}
			}
		}
		// keywords are not identifiers: as bare keys they must be rejected, never converted
		for _, t := range []struct{ text, want string }{
			{"{true: 1}", `{"true":1}`}, {"{false: 1}", `{"false":1}`}, {"{null: 0}", `{"null":0}`},
			{"{a: 1, null: 2}", `{"a":1,"null":2}`}, {"{x: {true: []}}", `{"x":{"true":[]}}`}, {"[{null: null}]", `[{"null":null}]`},
			{"{truex: 1, nul: 2, nulls: 3, True: 4}", `{"truex":1,"nul":2,"nulls":3,"True":4}`},
			{"{\"true\": 1, `null`: 2}", `{"true":1,"null":2}`}, {"{true}", `{}`}, {"{true: 1,}", `{"true":1}`},
		} {
			g.add("tojson " + hx.Hex([]byte(t.text)))
			g.add("unm " + hx.Hex([]byte(t.text)))
			g.add(fmt.Sprintf("doc %s %s keyword-key", hx.Hex([]byte(t.text)), hx.Hex([]byte(t.want))))
			g.add(fmt.Sprintf("dec 3 %s", hx.Hex([]byte(t.text))))
			rep.Count("keyword-key-corner")
		}
		// multi-byte characters at every alignment around the reader's buffer sizes, in strings,
		// keys, raw strings and comments, through ToJSON, Unmarshal and a Decoder with short reads
		bases := []int{4096, 8192}
		for _, o := range jx.BoundaryOffsets(append(bases, 65536)) {
			for _, ch := range jx.BoundaryRunes {
				type bd struct{ text, want string }
				js, _ := json.Marshal(jx.Pad(o-1) + ch + "z")
				docs := []bd{
					{`"` + jx.Pad(o-1) + ch + `z"`, string(js)},
					{`{"` + jx.Pad(o-2) + ch + `": 1}`, ""},
				}
				if o < 10000 {
					docs = append(docs,
						bd{"`" + jx.Pad(o-1) + ch + "z`", string(js)},
						bd{"/*" + jx.Pad(o-2) + ch + "*/ [1, \"" + ch + "\"]", `[1,"` + ch + `"]`},
						bd{"[1, // " + jx.Pad(o-7) + ch + "\n \"" + ch + "\"]", `[1,"` + ch + `"]`},
						bd{"{k: [" + strings.Repeat("1, ", (o-10)/3) + "\"" + ch + ch + "\"]}", ""})
				}
				for _, d := range docs {
					g.add("tojson " + hx.Hex([]byte(d.text)))
					g.add("unm " + hx.Hex([]byte(d.text)))
					want := d.want
					if want == "" {
						if out, errs := jsonx.ToJSON([]byte(d.text)); errs == nil {
							// the expected value is what the text says, rebuilt without the converter
							want = expectFromText(d.text, ch, string(out))
						}
					}
					if want != "" {
						g.add(fmt.Sprintf("doc %s %s buffer-boundary", hx.Hex([]byte(d.text)), hx.Hex([]byte(want))))
					}
					if o < 10000 {
						g.add(fmt.Sprintf("dec %d %s", hx.Pick(g.r, []int{1, 3, 4096, 4095}), hx.Hex([]byte(d.text))))
					}
					rep.Count("buffer-boundary")
				}
			}
		}
		// literal forms of big.Int.SetString that the lexer splits into two tokens
		for _, t := range []string{"0b1", "0B1", "0o7", "0O7", "0X1f", "1_000", "0x_1", "0_7", "0x1_f", "[0b1]", "{a: 0o7}", "-0b1", "1_", "0xg"} {
			g.add("tojson " + hx.Hex([]byte(t)))
			g.add("unm " + hx.Hex([]byte(t)))
			rep.Count("go-literal-corner")
		}
		for _, t := range rfcCorners {
			g.add("tojson " + hx.Hex([]byte(t)))
			g.add("unm " + hx.Hex([]byte(t)))
			g.add("plain " + hx.Hex([]byte(t)))
			rep.Count("rfc8259-corner")
		}
		// every boundary number under every spelling a few times
		for i := 0; i < 6; i++ {
			for _, x := range jx.BoundaryFloats {
				g.doc(x, false)
				g.doc(-x, i%2 == 0)
			}
			for _, x := range jx.BoundaryInts {
				g.doc(x, false)
			}
			for _, x := range jx.BoundaryUints {
				g.doc(x, false)
			}
		}
		for i := 0; i < 40; i++ { // integers beyond 64 bits
			n := new(big.Int).SetBytes(g.r.Bytes(9 + g.r.Intn(12)))
			if g.r.Bool() {
				n.Neg(n)
			}
			g.doc(n, false)
		}
		for i := 0; i < nleaf; i++ {
			switch g.r.Intn(4) {
			case 0, 1:
				g.doc(g.g.Number(), g.r.Intn(6) == 0)
			case 2:
				g.doc(g.g.Str(), g.r.Intn(6) == 0)
			default:
				n := 1 + g.r.Intn(4)
				var ids []interface{}
				for k := 0; k < n; k++ {
					ids = append(ids, hx.Pick(g.r, []string{"a", "b", "Field", "_x", "x9", "pkg", "v1", "truex", "nul"}))
				}
				g.doc(ids, false)
			}
		}
		for i := 0; i < ndoc; i++ {
			g.doc(g.g.Value(1+g.r.Intn(4)), false)
		}
		for i := 0; i < nplain; i++ {
			g.doc(g.g.Value(1+g.r.Intn(4)), true)
		}
		nmaybe, nconc := 600, 6
		if f.Thorough() {
			nmaybe, nconc = 20000, 60
		}
		g.maybeInputs(nmaybe)
		for i := 0; i < nconc; i++ {
			bs, _ := json.Marshal(g.g.Value(2))
			g.add(fmt.Sprintf("conc %d %s", 2+g.r.Intn(3), hx.Hex(bs)))
			rep.Count("isolation:concurrent")
		}
		// wide and shallow: more containers in one document than the parser's nesting limit
		wide := jx.Wide(10001)
		for _, k := range []string{"sibling-arrays", "sibling-objects", "mixed", "table", "fan-out", "object-of-arrays"} {
			g.doc(wide[k], k == "table")
			rep.Count("val:wide:" + k)
		}
		for d := 1; d <= 60; d += 1 + d/6 {
			g.doc(g.g.Deep(d), false)
		}
		ops = g.ops
	}

	impl := make([]string, len(ops))
	for i, op := range ops {
		impl[i] = c.runOp(op)
	}
	c.j.Clear()

	// only tojson/unm have a model answer
	var mops []string
	var midx []int
	for i, op := range ops {
		if strings.HasPrefix(op, "tojson ") || strings.HasPrefix(op, "unm ") {
			mops = append(mops, op)
			midx = append(midx, i)
		} else if ws := strings.Fields(op); len(ws) == 3 && ws[0] == "dec" {
			mops = append(mops, "unm "+ws[2]) // Decoder.Decode is Unmarshal without the More() check
			midx = append(midx, i)
		}
	}
	model, err := hx.RunDriver(f.Driver, nil, mops)
	if err != nil {
		rep.Note("driver failed: %v", err)
		rep.ModelAvailable = false
	} else if model != nil {
		for k, i := range midx {
			m, lp := jx.ModelLine(ops[i], model[k])
			if lp != nil {
				rep.Disagree("leaf-contract:"+lp.Kind, ops[i], impl[i], "the model accepted a literal that strconv rejects: "+lp.Lit)
				continue
			}
			if m != impl[i] {
				rep.Disagree(strings.Fields(ops[i])[0], ops[i], impl[i], m)
			}
		}
		rep.TracesValidated = len(mops)
	}
	acc, rej := 0, 0
	for i, op := range ops {
		if strings.HasPrefix(op, "tojson ") {
			if strings.HasPrefix(impl[i], "ok") {
				acc++
			} else {
				rej++
			}
		}
	}
	rep.Distribution["tojson_accepted"] = acc
	rep.Distribution["tojson_rejected"] = rej
	for i := 0; i < len(ops) && len(rep.Samples) < 12; i += 1 + len(ops)/12 {
		rep.Sample(map[string]string{"op": trunc(ops[i]), "impl": trunc(impl[i])})
	}
	rep.Write(f.Out)
}

func trunc(s string) string {
	if len(s) > 160 {
		return s[:160] + "..."
	}
	return s
}
