// Harness for C17: archive extraction never writes outside the destination;
// archives produced by the library's own ZipDir/ZipFile extract to the tree
// they were made from.
//
// Every op line is executed on the real code (ziputil.UnzipDir, ZipDir,
// ZipFile, dock.writeTarToDir through the verif export shim,
// tarutil.TarZipFile, and path/filepath for the path library of the model) in
// a private scratch root, the same lines go to the Lean driver, and the two
// answers are compared.  Independently of the model, the containment oracle
// snapshots the scratch root before and after each extraction: nothing outside
// the destination directory may be created, changed or removed.
//
// Abstract paths: the op lines name the destination as /w/o1/o2/sandbox/dest;
// /w is mapped to <work>/c17root.  Generated entry names climb at most four
// levels above the destination, so even an unguarded extractor stays inside
// the snapshotted root.
package main

import (
	"errors"
	"archive/tar"
	"archive/zip"
	"bytes"
	"fmt"
	"io"
	"log"
	"os"
	"path/filepath"
	"sort"
	"strconv"
	"strings"
	"syscall"
	"time"

	"shanhu.io/g/dock"
	"shanhu.io/g/errcode"
	"shanhu.io/g/tarutil"
	"shanhu.io/g/ziputil"
	"verif/harness/hx"
)

const (
	absRoot = "/w"
	absDest = "/w/o1/o2/sandbox/dest"
	destRel = "o1/o2/sandbox/dest"
	maxUp   = 4 // levels above the destination that stay inside the root
)

type ent struct {
	name    []byte
	kind    string
	perm    int
	content []byte
}

func fmtEnts(es []ent) string {
	if len(es) == 0 {
		return "-"
	}
	var xs []string
	for _, e := range es {
		xs = append(xs, fmt.Sprintf("%s:%s:%d:%s", hx.Hex(e.name), e.kind, e.perm, hx.Hex(e.content)))
	}
	return strings.Join(xs, ",")
}

func parseEnts(s string) ([]ent, bool) {
	if s == "-" || s == "" {
		return nil, s == "-"
	}
	var out []ent
	for _, x := range strings.Split(s, ",") {
		p := strings.Split(x, ":")
		if len(p) != 4 {
			return nil, false
		}
		perm, err := strconv.Atoi(p[2])
		if err != nil {
			return nil, false
		}
		out = append(out, ent{hx.UnHex(p[0]), p[1], perm, hx.UnHex(p[3])})
	}
	return out, true
}

func kvGet(ws []string, k string) (string, bool) {
	for _, w := range ws {
		if strings.HasPrefix(w, k+"=") {
			return w[len(k)+1:], true
		}
	}
	return "", false
}

type ctx struct {
	rep  *hx.Report
	j    *hx.Journal
	root string // real directory standing for /w
}

// real maps an abstract absolute path below /w to the scratch root.
func (c *ctx) real(abs string) (string, bool) {
	if abs != absRoot && !strings.HasPrefix(abs, absRoot+"/") {
		return "", false
	}
	cl := filepath.Clean(abs)
	if cl != absRoot && !strings.HasPrefix(cl, absRoot+"/") {
		return "", false
	}
	return c.root + strings.TrimPrefix(cl, absRoot), true
}

// snapshot lists everything below dir (not dir itself): rel path -> canonical entry.
func snapshot(dir string) map[string]string {
	out := map[string]string{}
	filepath.Walk(dir, func(p string, info os.FileInfo, err error) error {
		if err != nil || p == dir {
			return nil
		}
		rel := strings.TrimPrefix(p, dir+"/")
		h := hx.Hex([]byte(rel))
		switch {
		case info.IsDir():
			out[rel] = fmt.Sprintf("%s:d:%d", h, info.Mode().Perm())
		case info.Mode().IsRegular():
			bs, _ := os.ReadFile(p)
			out[rel] = fmt.Sprintf("%s:f:%d:%s", h, info.Mode().Perm(), hx.Hex(bs))
		default:
			out[rel] = fmt.Sprintf("%s:o:%d", h, info.Mode().Perm())
		}
		return nil
	})
	return out
}

func showSnap(m map[string]string) string {
	if len(m) == 0 {
		return "-"
	}
	xs := make([]string, 0, len(m))
	for _, v := range m {
		xs = append(xs, v)
	}
	sort.Strings(xs)
	return strings.Join(xs, ",")
}

type violation struct {
	key  string
	desc string
}

// outside compares two snapshots of the root and reports the paths outside
// inside (a path relative to the root) that were created, changed or removed.
func outside(before, after map[string]string, inside string) []string {
	var bad []string
	isIn := func(p string) bool { return p == inside || strings.HasPrefix(p, inside+"/") }
	for p, v := range after {
		if isIn(p) {
			continue
		}
		if w, ok := before[p]; !ok || w != v {
			bad = append(bad, p)
		}
	}
	for p := range before {
		if isIn(p) {
			continue
		}
		if _, ok := after[p]; !ok {
			bad = append(bad, p)
		}
	}
	sort.Strings(bad)
	return bad
}

func status(err error) string {
	switch {
	case err == nil:
		return "ok"
	case errcode.IsInvalidArg(err):
		return "refused"
	case errcode.IsInternal(err):
		return "unsupported"
	}
	return "oserr"
}

func (c *ctx) resetRoot() error {
	// directories extracted without owner bits would resist removal for a non-root user
	if os.Geteuid() != 0 {
		filepath.Walk(c.root, func(p string, info os.FileInfo, err error) error {
			if err == nil && info.IsDir() {
				os.Chmod(p, 0o700)
			}
			return nil
		})
	}
	if err := os.RemoveAll(c.root); err != nil {
		return err
	}
	return os.MkdirAll(c.root, 0o755)
}

// prepare builds the file system an extraction starts from.
func (c *ctx) prepare(dirAbs string, pre []ent) (realDest string, ok bool) {
	realDest, ok = c.real(dirAbs)
	if !ok || c.resetRoot() != nil {
		return "", false
	}
	parent := filepath.Dir(realDest)
	if os.MkdirAll(parent, 0o755) != nil {
		return "", false
	}
	for _, e := range pre {
		rel := filepath.Clean(string(e.name))
		if !filepath.IsLocal(rel) {
			return "", false
		}
		p := filepath.Join(parent, rel)
		if e.kind == "d" {
			if os.MkdirAll(p, os.FileMode(e.perm)) != nil {
				return "", false
			}
			continue
		}
		if os.MkdirAll(filepath.Dir(p), 0o755) != nil {
			return "", false
		}
		if os.WriteFile(p, e.content, os.FileMode(e.perm)) != nil || os.Chmod(p, os.FileMode(e.perm)) != nil {
			return "", false
		}
	}
	return realDest, true
}

func buildZip(es []ent) (*zip.Reader, error) {
	var buf bytes.Buffer
	zw := zip.NewWriter(&buf)
	for i, e := range es {
		fh := &zip.FileHeader{Name: string(e.name), Method: zip.Deflate}
		if i%2 == 1 {
			fh.Method = zip.Store
		}
		if e.kind == "d" {
			fh.SetMode(os.ModeDir | os.FileMode(e.perm))
		} else {
			fh.SetMode(os.FileMode(e.perm))
		}
		w, err := zw.CreateHeader(fh)
		if err != nil {
			return nil, err
		}
		if !strings.HasSuffix(string(e.name), "/") && len(e.content) > 0 {
			if _, err := w.Write(e.content); err != nil {
				return nil, err
			}
		}
	}
	if err := zw.Close(); err != nil {
		return nil, err
	}
	zr, err := zip.NewReader(bytes.NewReader(buf.Bytes()), int64(buf.Len()))
	if err != nil && err != zip.ErrInsecurePath {
		return nil, err
	}
	return zr, nil
}

// patchV7Dir turns the header block of a regular file named <x>X into one
// named <x>/ (a regular-file type flag with a trailing slash, which
// archive/tar's writer refuses to produce but its reader hands on as is).
func patchV7Dir(block []byte, n int) {
	block[n-1] = '/'
	for i := 148; i < 156; i++ {
		block[i] = ' '
	}
	sum := 0
	for _, b := range block[:512] {
		sum += int(b)
	}
	copy(block[148:156], fmt.Sprintf("%06o\x00 ", sum))
}

func buildTar(es []ent) ([]byte, error) {
	var buf bytes.Buffer
	tw := tar.NewWriter(&buf)
	for _, e := range es {
		name := string(e.name)
		h := &tar.Header{Name: name, Mode: int64(e.perm)}
		v7 := false
		switch e.kind {
		case "r":
			h.Typeflag = tar.TypeReg
			if strings.HasSuffix(name, "/") {
				// only expressible by patching; content must be empty then
				if len(name) > 90 || len(e.content) > 0 {
					return nil, fmt.Errorf("unsupported v7 directory entry")
				}
				v7 = true
				h.Name = name[:len(name)-1] + "X"
				h.Format = tar.FormatUSTAR
			} else {
				h.Size = int64(len(e.content))
			}
		case "d":
			h.Typeflag = tar.TypeDir
		case "l":
			// symbolic link; the content field of the entry is the link target
			h.Typeflag = tar.TypeSymlink
			h.Linkname = string(e.content)
		default:
			h.Typeflag = tar.TypeSymlink
			h.Linkname = "../elsewhere"
		}
		if err := tw.Flush(); err != nil {
			return nil, err
		}
		off := buf.Len()
		if err := tw.WriteHeader(h); err != nil {
			return nil, err
		}
		if v7 {
			if err := tw.Flush(); err != nil {
				return nil, err
			}
			if buf.Len() != off+512 {
				return nil, fmt.Errorf("v7 patch: unexpected header size")
			}
			patchV7Dir(buf.Bytes()[off:off+512], len(name))
		}
		if e.kind == "r" && !v7 && len(e.content) > 0 {
			if _, err := tw.Write(e.content); err != nil {
				return nil, err
			}
		}
	}
	if err := tw.Close(); err != nil {
		return nil, err
	}
	return buf.Bytes(), nil
}

// exec runs one op line on the implementation: canonical output plus a
// violation of the direct oracle, if any.
func (c *ctx) exec(line string) (string, *violation) {
	ws := strings.Fields(line)
	if len(ws) == 0 {
		return "bad-op", nil
	}
	switch ws[0] {
	case "clean":
		if len(ws) != 2 {
			return "bad-op", nil
		}
		return hx.Hex([]byte(filepath.Clean(string(hx.UnHex(ws[1]))))), nil
	case "join":
		if len(ws) != 3 {
			return "bad-op", nil
		}
		return hx.Hex([]byte(filepath.Join(string(hx.UnHex(ws[1])), string(hx.UnHex(ws[2]))))), nil
	case "islocal":
		if len(ws) != 2 {
			return "bad-op", nil
		}
		return strconv.FormatBool(filepath.IsLocal(string(hx.UnHex(ws[1])))), nil
	case "cdir":
		if len(ws) != 2 {
			return "bad-op", nil
		}
		return hx.Hex([]byte(filepath.Dir(filepath.Clean(string(hx.UnHex(ws[1])))))), nil
	case "unzip", "untar":
		return c.execExtract(ws)
	case "rt":
		return c.execRoundTrip(ws)
	case "rthist":
		return c.execRoundTripHistory(ws)
	case "firstfile":
		return c.execFirstFile(ws)
	case "rtfile":
		return c.execRoundTripFile(ws)
	case "tarzip":
		return c.execTarZip(ws)
	}
	return "bad-op", nil
}

func (c *ctx) execExtract(ws []string) (string, *violation) {
	dirHex, ok1 := kvGet(ws, "dir")
	preS, ok2 := kvGet(ws, "pre")
	entS, ok3 := kvGet(ws, "ents")
	if !ok1 || !ok2 || !ok3 {
		return "bad-op", nil
	}
	pre, okp := parseEnts(preS)
	es, oke := parseEnts(entS)
	if !okp || !oke {
		return "bad-op", nil
	}
	dirAbs := string(hx.UnHex(dirHex))
	realDest, ok := c.prepare(dirAbs, pre)
	if !ok {
		return "bad-pre", nil
	}
	inside := strings.TrimPrefix(realDest, c.root+"/")
	line := strings.Join(ws, " ")
	var err error
	var fdv *violation
	var before map[string]string
	if ws[0] == "unzip" {
		clearS, _ := kvGet(ws, "clear")
		zr, berr := buildZip(es)
		if berr != nil {
			return "bad-archive", nil
		}
		before = snapshot(c.root)
		c.j.Risky(line)
		err, fdv = c.guarded(ws, "UnzipDir", func() error { return ziputil.UnzipDir(realDest, zr, clearS == "1") })
	} else {
		bs, berr := buildTar(es)
		if berr != nil {
			return "bad-archive", nil
		}
		before = snapshot(c.root)
		c.j.Risky(line)
		err, fdv = c.guarded(ws, "writeTarToDir", func() error { return dock.VerifWriteTarToDir(bytes.NewReader(bs), realDest) })
	}
	after := snapshot(c.root)
	out := status(err) + " tree=" + showSnap(after)
	if fdv != nil {
		return out, fdv
	}
	if bad := outside(before, after, inside); len(bad) > 0 {
		what := "UnzipDir"
		if ws[0] == "untar" {
			what = "writeTarToDir"
		}
		return out, &violation{ws[0] + "-writes-outside-dest",
			fmt.Sprintf("%s into %s created or changed %q outside the destination (returned: %s)", what, dirAbs, bad, status(err))}
	}
	return out, nil
}

func treeOf(m map[string]string) string { return showSnap(m) }

// execFirstFile: dock.writeFirstFileAs (Cont.CopyOutFile) must write the named
// destination file only, whatever names the daemon's tar stream carries.
func (c *ctx) execFirstFile(ws []string) (string, *violation) {
	dirHex, ok1 := kvGet(ws, "dir")
	destHex, ok2 := kvGet(ws, "dest")
	preS, ok3 := kvGet(ws, "pre")
	entS, ok4 := kvGet(ws, "ents")
	if !ok1 || !ok2 || !ok3 || !ok4 {
		return "bad-op", nil
	}
	pre, okp := parseEnts(preS)
	es, oke := parseEnts(entS)
	if !okp || !oke {
		return "bad-op", nil
	}
	if _, ok := c.prepare(string(hx.UnHex(dirHex)), pre); !ok {
		return "bad-pre", nil
	}
	destAbs := string(hx.UnHex(destHex))
	target, ok := c.real(destAbs)
	if !ok {
		return "bad-op", nil
	}
	bs, berr := buildTar(es)
	if berr != nil {
		return "bad-archive", nil
	}
	inside := strings.TrimPrefix(target, c.root+"/")
	before := snapshot(c.root)
	c.j.Risky(strings.Join(ws, " "))
	err, fdv := c.guarded(ws, "writeFirstFileAs", func() error { return dock.VerifWriteFirstFileAs(bytes.NewReader(bs), target) })
	after := snapshot(c.root)
	st := status(err)
	if errcode.IsNotFound(err) {
		st = "notfound"
	}
	out := st + " tree=" + showSnap(after)
	if fdv != nil {
		return out, fdv
	}
	var bad []string
	for _, p := range outside(before, after, inside) {
		bad = append(bad, p)
	}
	for p, v := range after {
		// below the destination path nothing may appear either: the file is saved AS dest
		if strings.HasPrefix(p, inside+"/") && before[p] != v {
			bad = append(bad, p)
		}
	}
	if len(bad) > 0 {
		sort.Strings(bad)
		return out, &violation{"firstfile-writes-other-than-dest",
			fmt.Sprintf("writeFirstFileAs(tar, %s) created or changed %q, not only the destination file (returned: %s)", destAbs, bad, st)}
	}
	return out, nil
}

// buildTreeAt makes the tree below src (walk order), all files with the given mtime.
func buildTreeAt(src string, tree []ent, mtime time.Time) bool {
	for _, e := range tree {
		p := filepath.Join(src, string(e.name))
		if e.kind == "d" {
			if err := os.Mkdir(p, 0o700); err != nil {
				return false
			}
		} else if err := os.WriteFile(p, e.content, 0o600); err != nil {
			return false
		}
	}
	for i := len(tree) - 1; i >= 0; i-- {
		p := filepath.Join(src, string(tree[i].name))
		if os.Chmod(p, os.FileMode(tree[i].perm)) != nil || os.Chtimes(p, mtime, mtime) != nil {
			return false
		}
	}
	return true
}

// execRoundTripHistory: a tree is zipped and extracted; the tree is edited
// (same-size edits within the same second included) and zipped again, and that
// archive is extracted INTO the earlier extraction.  Every item of the second
// tree must come out with the second tree's content and mode.
func (c *ctx) execRoundTripHistory(ws []string) (string, *violation) {
	dirHex, ok1 := kvGet(ws, "dir")
	t1S, ok2 := kvGet(ws, "tree1")
	t2S, ok3 := kvGet(ws, "tree2")
	clearS, ok4 := kvGet(ws, "clear")
	if !ok1 || !ok2 || !ok3 || !ok4 {
		return "bad-op", nil
	}
	t1, oka := parseEnts(t1S)
	t2, okb := parseEnts(t2S)
	if !oka || !okb || len(t1) == 0 || len(t2) == 0 || string(t1[0].name) != "." || string(t2[0].name) != "." {
		return "bad-op", nil
	}
	dt := 0
	if v, ok := kvGet(ws, "dt"); ok {
		dt, _ = strconv.Atoi(v)
	}
	realDest, ok := c.prepare(string(hx.UnHex(dirHex)), nil)
	if !ok {
		return "bad-pre", nil
	}
	base := time.Date(2021, 3, 4, 5, 6, 8, 0, time.UTC)
	round := func(name string, tree []ent, mtime time.Time, clear bool) (string, *violation) {
		src := filepath.Join(c.root, name)
		if os.Mkdir(src, 0o700) != nil || !buildTreeAt(src, tree[1:], mtime) || os.Chmod(src, os.FileMode(tree[0].perm)) != nil {
			return "bad-tree", nil
		}
		os.Chtimes(src, mtime, mtime)
		var buf bytes.Buffer
		if err := ziputil.ZipDir(src, &buf); err != nil {
			return "zip-error", &violation{"roundtrip-zipdir-error", "ZipDir failed: " + err.Error()}
		}
		zr, err := zip.NewReader(bytes.NewReader(buf.Bytes()), int64(buf.Len()))
		if err != nil && err != zip.ErrInsecurePath {
			return "zip-unreadable", &violation{"roundtrip-zip-unreadable", "archive written by ZipDir is not readable: " + err.Error()}
		}
		err, fdv := c.guarded(ws, "UnzipDir", func() error { return ziputil.UnzipDir(realDest, zr, clear) })
		return status(err), fdv
	}
	c.j.Risky(strings.Join(ws, " "))
	st1, v := round("src1", t1, base, true)
	if v != nil || strings.HasPrefix(st1, "bad") || strings.HasPrefix(st1, "zip-") {
		return st1, v
	}
	st2, v := round("src2", t2, base.Add(time.Duration(dt)*time.Millisecond), clearS == "1")
	if v != nil || strings.HasPrefix(st2, "bad") || strings.HasPrefix(st2, "zip-") {
		return st2, v
	}
	got := snapshot(realDest)
	out := st1 + " " + st2 + " tree=" + treeOf(got)
	if st1 == "ok" && st2 == "ok" {
		want := snapshot(filepath.Join(c.root, "src2"))
		for p, w := range want {
			if got[p] != w {
				return out, &violation{"roundtrip-history-stale-content", fmt.Sprintf(
					"a tree was zipped and extracted, edited, zipped again and extracted into the earlier extraction (clear=%s, edit %d ms later): %q came out as %s, the archived item is %s",
					clearS, dt, p, got[p], w)}
			}
		}
		if clearS == "1" && treeOf(got) != treeOf(want) {
			return out, &violation{"roundtrip-differs", "UnzipDir(clear) of the second archive differs from the second tree"}
		}
	}
	return out, nil
}

// openFDs counts the descriptors of this process (-1 when /proc is not there).
func openFDs() int {
	es, err := os.ReadDir("/proc/self/fd")
	if err != nil {
		return -1
	}
	return len(es)
}

// guarded runs one extraction (or producer) call f with the descriptor oracle:
// with nofile=<n> in the op the soft RLIMIT_NOFILE is lowered to n around the
// call, so that an extractor that keeps one descriptor per entry open until it
// returns runs out of them; and the number of open descriptors after the call
// must be what it was before.
func (c *ctx) guarded(ws []string, what string, f func() error) (error, *violation) {
	var old syscall.Rlimit
	lowered := false
	if nf, ok := kvGet(ws, "nofile"); ok {
		n, err := strconv.ParseUint(nf, 10, 32)
		if err == nil && syscall.Getrlimit(syscall.RLIMIT_NOFILE, &old) == nil && n <= old.Max {
			lim := syscall.Rlimit{Cur: n, Max: old.Max}
			lowered = syscall.Setrlimit(syscall.RLIMIT_NOFILE, &lim) == nil
		}
		if !lowered {
			c.rep.Count("nofile-limit-not-set")
		}
	}
	before := openFDs()
	err := f()
	after := openFDs()
	if lowered {
		syscall.Setrlimit(syscall.RLIMIT_NOFILE, &old)
	}
	switch {
	case err != nil && (errors.Is(err, syscall.EMFILE) || errors.Is(err, syscall.ENFILE)):
		return err, &violation{"extraction-leaks-or-hoards-descriptors",
			what + " ran out of file descriptors (" + err.Error() + "): it keeps descriptors open in proportion to the number of entries"}
	case before >= 0 && after > before:
		// (fewer than before is no finding: finalizers of files the harness or an
		// earlier call dropped may run at any time)
		return err, &violation{"extraction-leaks-or-hoards-descriptors",
			fmt.Sprintf("%s returned with %d open file descriptors, %d were open before the call", what, after, before)}
	}
	return err, nil
}

// withDirSpelling runs f with the source directory spelled in one of the ways a
// caller may name it (the working directory is changed for the relative ones
// and restored afterwards).
func (c *ctx) withDirSpelling(spell, src string, f func(arg string) error) error {
	cwd, err := os.Getwd()
	if err != nil {
		return f(src)
	}
	defer os.Chdir(cwd)
	parent, base := filepath.Dir(src), filepath.Base(src)
	arg := src
	switch spell {
	case "", "abs":
	case "absslash":
		arg = src + "/"
	case "absdot":
		arg = src + "/."
	case "dot":
		os.Chdir(src)
		arg = "."
	case "dotslash":
		os.Chdir(src)
		arg = "./"
	case "updown":
		os.Chdir(src)
		arg = "../" + base
	case "rel":
		os.Chdir(parent)
		arg = base
	case "dotrel":
		os.Chdir(parent)
		arg = "./" + base
	case "relslash":
		os.Chdir(parent)
		arg = base + "/"
	case "reldot":
		os.Chdir(parent)
		arg = base + "/."
	case "dotdotrel":
		os.Chdir(parent)
		arg = base + "/../" + base
	default:
		return fmt.Errorf("unknown spelling %q", spell)
	}
	return f(arg)
}

var dirSpellings = []string{"abs", "absslash", "absdot", "dot", "dotslash", "updown", "rel", "dotrel", "relslash", "reldot", "dotdotrel"}

func (c *ctx) execRoundTrip(ws []string) (string, *violation) {
	dirHex, ok1 := kvGet(ws, "dir")
	treeS, ok2 := kvGet(ws, "tree")
	if !ok1 || !ok2 {
		return "bad-op", nil
	}
	tree, ok := parseEnts(treeS)
	if !ok || len(tree) == 0 || string(tree[0].name) != "." || tree[0].kind != "d" {
		return "bad-op", nil
	}
	realDest, ok := c.prepare(string(hx.UnHex(dirHex)), nil)
	if !ok {
		return "bad-pre", nil
	}
	src := filepath.Join(c.root, "src")
	for _, e := range tree {
		p := filepath.Join(src, string(e.name))
		if e.kind == "d" {
			if err := os.Mkdir(p, 0o700); err != nil {
				return "bad-tree", nil
			}
		} else if err := os.WriteFile(p, e.content, 0o600); err != nil {
			return "bad-tree", nil
		}
	}
	for i := len(tree) - 1; i >= 0; i-- {
		if err := os.Chmod(filepath.Join(src, string(tree[i].name)), os.FileMode(tree[i].perm)); err != nil {
			return "bad-tree", nil
		}
	}
	var buf bytes.Buffer
	c.j.Risky(strings.Join(ws, " "))
	spell, _ := kvGet(ws, "spell")
	if err := c.withDirSpelling(spell, src, func(arg string) error { return ziputil.ZipDir(arg, &buf) }); err != nil {
		return "zip-error", &violation{"roundtrip-zipdir-error", "ZipDir (directory spelled " + spell + ") failed on a tree of regular files and directories: " + err.Error()}
	}
	zr, err := zip.NewReader(bytes.NewReader(buf.Bytes()), int64(buf.Len()))
	if err != nil && err != zip.ErrInsecurePath {
		return "zip-unreadable", &violation{"roundtrip-zip-unreadable", "archive written by ZipDir is not readable: " + err.Error()}
	}
	var names []string
	for _, f := range zr.File {
		names = append(names, hx.Hex([]byte(f.Name)))
	}
	err = ziputil.UnzipDir(realDest, zr, true)
	got := snapshot(realDest)
	want := snapshot(src)
	// wf=true: the harness lists the tree in filepath.Walk order; the model answers
	// with its own judgement (treeOK, the hypothesis of the round-trip theorem)
	out := "wf=true names=" + strings.Join(names, ",") + " " + status(err) + " tree=" + treeOf(got)
	if err != nil {
		return out, &violation{"roundtrip-unzip-error", "UnzipDir refused or failed on an archive written by ZipDir: " + err.Error()}
	}
	if st, err2 := os.Stat(realDest); err2 != nil || !st.IsDir() || int(st.Mode().Perm()) != tree[0].perm {
		return out, &violation{"roundtrip-root-mode", "the extracted root directory does not have the permission bits of the original"}
	}
	if treeOf(got) != treeOf(want) {
		return out, &violation{"roundtrip-differs", "UnzipDir(ZipDir(tree)) differs from tree in paths, contents or permission bits: got " +
			treeOf(got) + " want " + treeOf(want)}
	}
	return out, nil
}

func (c *ctx) execRoundTripFile(ws []string) (string, *violation) {
	dirHex, ok1 := kvGet(ws, "dir")
	baseHex, ok2 := kvGet(ws, "base")
	permS, ok3 := kvGet(ws, "perm")
	contHex, ok4 := kvGet(ws, "content")
	if !ok1 || !ok2 || !ok3 || !ok4 {
		return "bad-op", nil
	}
	perm, _ := strconv.Atoi(permS)
	base := string(hx.UnHex(baseHex))
	content := hx.UnHex(contHex)
	realDest, ok := c.prepare(string(hx.UnHex(dirHex)), nil)
	if !ok || base == "" || strings.Contains(base, "/") || base == "." || base == ".." {
		return "bad-pre", nil
	}
	src := filepath.Join(c.root, "srcf")
	if os.Mkdir(src, 0o755) != nil {
		return "bad-pre", nil
	}
	p := filepath.Join(src, base)
	if os.WriteFile(p, content, 0o600) != nil || os.Chmod(p, os.FileMode(perm)) != nil {
		return "bad-pre", nil
	}
	var buf bytes.Buffer
	c.j.Risky(strings.Join(ws, " "))
	spell, _ := kvGet(ws, "spell")
	if err := c.withDirSpelling(spell, p, func(arg string) error { return ziputil.ZipFile(strings.TrimSuffix(strings.TrimSuffix(arg, "/."), "/"), &buf) }); err != nil {
		return "zip-error", &violation{"roundtrip-zipfile-error", "ZipFile failed: " + err.Error()}
	}
	zr, err := zip.NewReader(bytes.NewReader(buf.Bytes()), int64(buf.Len()))
	if err != nil && err != zip.ErrInsecurePath {
		return "zip-unreadable", &violation{"roundtrip-zip-unreadable", "archive written by ZipFile is not readable: " + err.Error()}
	}
	var names []string
	for _, f := range zr.File {
		names = append(names, hx.Hex([]byte(f.Name)))
	}
	err = ziputil.UnzipDir(realDest, zr, true)
	got := snapshot(realDest)
	want := snapshot(src)
	out := "names=" + strings.Join(names, ",") + " " + status(err) + " tree=" + treeOf(got)
	if err != nil {
		return out, &violation{"roundtrip-unzip-error", "UnzipDir refused or failed on an archive written by ZipFile: " + err.Error()}
	}
	if treeOf(got) != treeOf(want) {
		return out, &violation{"roundtrip-file-differs", "UnzipDir(ZipFile(f)) differs from f: got " + treeOf(got) + " want " + treeOf(want)}
	}
	return out, nil
}

func (c *ctx) execTarZip(ws []string) (string, *violation) {
	dirHex, ok1 := kvGet(ws, "dir")
	namesS, ok2 := kvGet(ws, "names")
	if !ok1 || !ok2 || c.resetRoot() != nil {
		return "bad-op", nil
	}
	dir := string(hx.UnHex(dirHex))
	var es []ent
	if namesS != "-" {
		for _, n := range strings.Split(namesS, ",") {
			es = append(es, ent{name: hx.UnHex(n), kind: "f", perm: 0o644, content: []byte("x")})
		}
	}
	var zbuf bytes.Buffer
	zw := zip.NewWriter(&zbuf)
	for _, e := range es {
		fh := &zip.FileHeader{Name: string(e.name), Method: zip.Store}
		fh.SetMode(os.FileMode(e.perm))
		w, err := zw.CreateHeader(fh)
		if err != nil {
			return "bad-archive", nil
		}
		if !strings.HasSuffix(string(e.name), "/") {
			w.Write(e.content)
		}
	}
	zw.Close()
	zp := filepath.Join(c.root, "in.zip")
	if os.WriteFile(zp, zbuf.Bytes(), 0o644) != nil {
		return "bad-archive", nil
	}
	var tbuf bytes.Buffer
	tw := tar.NewWriter(&tbuf)
	c.j.Risky(strings.Join(ws, " "))
	err := tarutil.TarZipFile(tw, zp, dir)
	tw.Flush()
	var got []string
	var raw []string
	tr := tar.NewReader(bytes.NewReader(append(tbuf.Bytes(), make([]byte, 1024)...)))
	for {
		h, e2 := tr.Next()
		if e2 != nil {
			break
		}
		got = append(got, hx.Hex([]byte(h.Name)))
		raw = append(raw, h.Name)
	}
	st := "ok"
	if err != nil {
		st = "error"
		if errcode.IsInvalidArg(err) {
			st = "refused"
		}
	}
	list := "-"
	if len(got) > 0 {
		list = strings.Join(got, ",")
	}
	out := st + " " + list
	base := ""
	if dir != "" {
		base = filepath.Clean(dir)
	}
	for _, n := range raw {
		okName := false
		switch {
		case base == "":
			okName = filepath.IsLocal(n)
		case base == ".":
			okName = filepath.IsLocal(n)
		default:
			rest := strings.TrimPrefix(n, base)
			okName = n == base || (strings.HasPrefix(n, base+"/") && filepath.IsLocal(strings.TrimPrefix(rest, "/")) && !strings.Contains("/"+rest+"/", "/../"))
		}
		if !okName {
			return out, &violation{"tarzip-name-outside-dir",
				fmt.Sprintf("TarZipFile(dir=%q) wrote the tar header name %q, which is not below dir", dir, n)}
		}
	}
	return out, nil
}

// ---------------------------------------------------------------- generators

var segPool = []string{"a", "b", "c", "dest", "dest2", "sib.txt", "o2", "..", "..", "..", ".", "", "...", "..a", ".h", "x y", "\xc3\xa9", "\xff",
	"..\\victim", "a\\b", "..\\..", "\\abs", "C:\\x", "sub\\..\\..\\sib.txt", "\\"}
var plainPool = []string{"a", "b", "c", "dest", "dest2", "f.txt", "...", "..a", ".h", "x y", "\xc3\xa9", "\xff", "A", "a.b.c", "-", "~",
	"a\\b.txt", "..\\x", "\\lead", "trail\\", "C:\\x"}

var crafted = []string{
	"a", "a/b/c", "../evil.txt", "../../evil", "../../../evil", "../../../../evil", "a/../../evil", "a/b/../../../evil",
	"a/../b", "a/b/../c", "a/..", "..", "a/../..", "./../evil", "/abs", "/etc/evil", "//abs", "/../evil", "/a/../../evil",
	".", "./", "./.", "././", "./a", "a/.", "a//b", "a/b/", "//a", "", "/", "a/", "../", "../dest2/x", "../dest/../destx",
	"../sib.txt", "../dest2", "..a/b", ".../x", "a/.../../..", "../dest/ok", "../../sandbox/dest/ok", "dest/../../evil",
}

// backslash forms: on a /-separated system `\` is an ordinary name byte, so
// `..\victim` is one plain element; every crafted name also appears with `\`
// instead of `/`, with mixed separators, and in the drive-letter form.
func init() {
	base := append([]string{}, crafted...)
	for _, n := range base {
		if strings.Contains(n, "/") {
			crafted = append(crafted, strings.ReplaceAll(n, "/", "\\"))
			crafted = append(crafted, strings.Replace(n, "/", "\\", 1))
		}
	}
	crafted = append(crafted, "..\\victim", "sub\\..\\..\\planted", "sub/..\\..\\planted", "\\abs", "C:\\x", "C:\\..\\..\\x", "a\\b.txt",
		"..\\sib.txt", "..\\dest2\\x", "ok/..\\..\\evil")
}

// upsAnySep is ups with `\` read as a separator too: how far a careless
// extractor that normalises separators would climb.
func upsAnySep(name string) int { return ups(strings.ReplaceAll(name, "\\", "/")) }

// ups counts the levels above the starting directory that the lexical walk
// of name reaches (0 for a name that stays inside).
func ups(name string) int {
	depth, up := 0, 0
	for _, s := range strings.Split(name, "/") {
		switch s {
		case "", ".":
		case "..":
			if depth > 0 {
				depth--
			} else {
				up++
			}
		default:
			depth++
		}
	}
	return up
}

func classOf(name string) string {
	switch {
	case strings.Contains(name, "\\"):
		if upsAnySep(name) > ups(name) {
			return "backslash-escaping-if-normalised"
		}
		return "backslash"
	case name == "":
		return "empty"
	case strings.HasPrefix(name, "/"):
		if ups(name) > 0 {
			return "absolute+escaping"
		}
		return "absolute"
	case ups(name) > 0:
		return "dotdot-escaping"
	case strings.Contains("/"+name+"/", "/../"):
		return "dotdot-inner"
	case strings.Trim(name, "./") == "":
		return "dot-only"
	case strings.Contains(name, "//") || strings.HasSuffix(name, "/"):
		return "empty-segments"
	case strings.Contains(name, "/"):
		return "nested"
	}
	return "plain"
}

type gen struct {
	r    *hx.Rand
	rep  *hx.Report
	ops  []string
	seen map[string]bool
}

func (g *gen) add(op string, nontrivial bool) {
	if g.seen[op] {
		return
	}
	g.seen[op] = true
	g.ops = append(g.ops, op)
	g.rep.Case(op, nontrivial)
}

func (g *gen) name() string {
	for {
		var n string
		if g.r.Intn(3) == 0 {
			n = hx.Pick(g.r, crafted)
		} else {
			k := 1 + g.r.Intn(5)
			var ss []string
			for i := 0; i < k; i++ {
				ss = append(ss, hx.Pick(g.r, segPool))
			}
			n = strings.Join(ss, "/")
			if g.r.Intn(6) == 0 {
				n = "/" + n
			}
			if g.r.Intn(5) == 0 {
				n += "/"
			}
		}
		if ups(n) <= maxUp && upsAnySep(n) <= maxUp && len(n) < 90 {
			return n
		}
	}
}

func (g *gen) content() []byte {
	switch g.r.Intn(6) {
	case 0:
		return nil
	case 1:
		return g.r.Bytes(1 + g.r.Intn(300))
	}
	return g.r.Bytes(1 + g.r.Intn(12))
}

func (g *gen) filePerm() int { return 0o600 | g.r.Intn(0o200) }
func (g *gen) dirPerm() int  { return 0o700 | g.r.Intn(0o100) }

var preStates = [][]ent{
	nil,
	{{[]byte("dest"), "d", 0o755, nil}},
	{{[]byte("dest"), "d", 0o750, nil}, {[]byte("dest/old.txt"), "f", 0o640, []byte("old")}, {[]byte("dest/a"), "f", 0o600, []byte("A")}},
	{{[]byte("sib.txt"), "f", 0o644, []byte("sibling")}, {[]byte("dest2"), "d", 0o755, nil}, {[]byte("dest2/x"), "f", 0o644, []byte("x2")}},
	{{[]byte("dest"), "d", 0o700, nil}, {[]byte("dest/b"), "d", 0o711, nil}, {[]byte("evil.txt"), "f", 0o600, []byte("mine")}},
}

// archive makes the entries of one hostile or benign archive.
func (g *gen) archive(tarKinds bool) []ent {
	n := 1 + g.r.Intn(5)
	var es []ent
	// two archives in five have local names only, so that whole archives are
	// extracted (collisions, nested creation) also by an extractor that refuses
	benign := g.r.Intn(5) < 2
	if benign {
		g.rep.Count("archive:local-names-only")
	} else {
		g.rep.Count("archive:any-names")
	}
	pick := func() string {
		for {
			nm := g.name()
			if !benign || filepath.IsLocal(nm) {
				return nm
			}
		}
	}
	for i := 0; i < n; i++ {
		var nm string
		if i > 0 && g.r.Intn(4) == 0 {
			// collide with an earlier entry: same name, below it, or a prefix of it
			prev := string(es[g.r.Intn(len(es))].name)
			switch g.r.Intn(3) {
			case 0:
				nm = prev
			case 1:
				nm = strings.TrimSuffix(prev, "/") + "/" + hx.Pick(g.r, plainPool)
			default:
				if j := strings.LastIndex(strings.TrimSuffix(prev, "/"), "/"); j > 0 {
					nm = prev[:j]
				} else {
					nm = prev
				}
			}
			if ups(nm) > maxUp || upsAnySep(nm) > maxUp || len(nm) >= 90 {
				nm = pick()
			}
			g.rep.Count("entry:collision")
		} else {
			nm = pick()
		}
		g.rep.Count("name:" + classOf(nm))
		e := ent{name: []byte(nm)}
		isDir := g.r.Intn(3) == 0
		if tarKinds {
			switch {
			case g.r.Intn(25) == 0:
				e.kind = "o"
			case isDir:
				e.kind = "d"
			default:
				e.kind = "r"
			}
			if strings.HasSuffix(nm, "/") && e.kind == "o" {
				e.kind = "d"
			}
			if e.kind == "r" && strings.HasSuffix(nm, "/") {
				g.rep.Count("entry:tar-reg-trailing-slash")
			}
		} else {
			e.kind = "f"
			if isDir {
				e.kind = "d"
				if g.r.Intn(3) != 0 && !strings.HasSuffix(nm, "/") {
					e.name = []byte(nm + "/")
				}
			}
		}
		if e.kind == "o" {
			e.perm = 0o777
			g.rep.Count("entry:tar-symlink")
		} else if e.kind == "d" || strings.HasSuffix(string(e.name), "/") {
			e.perm = g.dirPerm()
			g.rep.Count("entry:dir")
		} else {
			e.perm = g.filePerm()
			e.content = g.content()
			g.rep.Count("entry:file")
		}
		es = append(es, e)
	}
	return es
}

// symlinkChain makes a tar archive in which every link target is a local path
// by itself (no leading `..`, not absolute), but the links compose to a place
// above the destination: cur -> ., up -> cur/.., then an entry through `up`.
// An extractor that creates links must not follow them when it writes; the
// code as read refuses every link entry.  The chain climbs at most three
// levels, so even a careless extractor stays inside the snapshotted root.
func (g *gen) symlinkChain() []ent {
	names := []string{"cur", "up", "l3", "a", "lnk", "sub/l", ".h"}
	var es []ent
	if g.r.Intn(3) == 0 {
		es = append(es, ent{[]byte("sub"), "d", 0o755, nil})
	}
	k := 2 + g.r.Intn(2)
	perm := g.r.Intn(len(names))
	var links []string
	for i := 0; i < k; i++ {
		nm := names[(perm+i)%len(names)]
		var target string
		switch {
		case i == 0 && strings.Contains(nm, "/"):
			target = "."
		case i == 0:
			target = hx.Pick(g.r, []string{".", "./", "x/..", "."})
		default:
			target = links[i-1] + "/.."
			if g.r.Intn(4) == 0 {
				target = "./" + target
			}
		}
		links = append(links, nm)
		es = append(es, ent{[]byte(nm), "l", 0o777, []byte(target)})
	}
	if g.r.Intn(4) == 0 && len(es) >= 2 {
		// the later link first: it dangles when it is created
		n := len(es)
		es[n-1], es[n-2] = es[n-2], es[n-1]
	}
	last := links[len(links)-1]
	leaf := hx.Pick(g.r, []string{"x", "sib.txt", "evil.txt", "dest2/x", "newdir/f", "dest/../y"})
	if g.r.Intn(3) == 0 {
		es = append(es, ent{[]byte(last + "/" + leaf), "d", g.dirPerm(), nil})
	} else {
		es = append(es, ent{[]byte(last + "/" + leaf), "r", g.filePerm(), g.content()})
	}
	if g.r.Intn(3) == 0 {
		es = append(es, ent{[]byte(hx.Pick(g.r, plainPool)), "r", g.filePerm(), g.content()})
	}
	return es
}

// symlinkOps: crafted and random link chains, plus benign links that stay inside.
func (g *gen) symlinkOps(n int) {
	d := hx.Hex([]byte(absDest))
	l := func(name, target string) ent { return ent{[]byte(name), "l", 0o777, []byte(target)} }
	f := func(name string) ent { return ent{[]byte(name), "r", 0o644, []byte("via link")} }
	crafted := [][]ent{
		{l("cur", "."), l("up", "cur/.."), f("up/x")},
		{l("cur", "."), l("up", "cur/.."), f("up/sib.txt")},
		{l("cur", "."), l("up", "cur/.."), {[]byte("up/newdir"), "d", 0o755, nil}},
		{l("a", "."), l("b", "a/.."), l("c", "b/.."), f("c/x")},
		{l("l1", "l2/.."), l("l2", "."), f("l1/x")},
		{{[]byte("d"), "d", 0o755, nil}, l("d/l", "."), l("up", "d/l/../.."), f("up/x")},
		{l("in", "a"), {[]byte("a"), "d", 0o755, nil}, f("in/x")},
		{l("self", "."), f("self/self/x")},
		{l("up", ".."), f("up/x")},
	}
	for _, es := range crafted {
		for _, pre := range [][]ent{nil, preStates[3]} {
			g.add(fmt.Sprintf("untar dir=%s pre=%s ents=%s", d, fmtEnts(pre), fmtEnts(es)), true)
			g.rep.Count("op:untar-symlink-chain")
		}
	}
	for i := 0; i < n; i++ {
		g.add(fmt.Sprintf("untar dir=%s pre=%s ents=%s", d, fmtEnts(hx.Pick(g.r, preStates)), fmtEnts(g.symlinkChain())), true)
		g.rep.Count("op:untar-symlink-chain")
	}
}

func (g *gen) extractOps(n int) {
	for i := 0; i < n; i++ {
		pre := hx.Pick(g.r, preStates)
		if g.r.Bool() {
			g.add(fmt.Sprintf("unzip dir=%s clear=%d pre=%s ents=%s", hx.Hex([]byte(absDest)), g.r.Intn(2), fmtEnts(pre), fmtEnts(g.archive(false))), true)
			g.rep.Count("op:unzip")
		} else {
			g.add(fmt.Sprintf("untar dir=%s pre=%s ents=%s", hx.Hex([]byte(absDest)), fmtEnts(pre), fmtEnts(g.archive(true))), true)
			g.rep.Count("op:untar")
		}
	}
}

// smallScope enumerates every name of up to k segments over {a, .., ., empty}
// with and without leading/trailing slash, as one-entry archives of each kind.
func (g *gen) smallScope(k int) {
	alpha := []string{"a", "..", ".", ""}
	var rec func(prefix []string)
	emit := func(nm string) {
		if ups(nm) > maxUp {
			g.rep.Count("smallscope:skipped-too-many-ups")
			return
		}
		g.rep.Count("smallscope:name")
		g.add("islocal "+hx.Hex([]byte(nm)), true)
		g.add("clean "+hx.Hex([]byte(nm)), true)
		g.add(fmt.Sprintf("join %s %s", hx.Hex([]byte(absDest)), hx.Hex([]byte(nm))), true)
		pre := fmtEnts(preStates[3])
		d := hx.Hex([]byte(absDest))
		g.add(fmt.Sprintf("unzip dir=%s clear=0 pre=%s ents=%s", d, pre, fmtEnts([]ent{{[]byte(nm), "f", 0o644, []byte("z")}})), true)
		g.add(fmt.Sprintf("unzip dir=%s clear=0 pre=%s ents=%s", d, pre, fmtEnts([]ent{{[]byte(nm), "d", 0o755, nil}})), true)
		if !strings.HasSuffix(nm, "/") {
			g.add(fmt.Sprintf("untar dir=%s pre=%s ents=%s", d, pre, fmtEnts([]ent{{[]byte(nm), "r", 0o644, []byte("t")}})), true)
		}
		g.add(fmt.Sprintf("untar dir=%s pre=%s ents=%s", d, pre, fmtEnts([]ent{{[]byte(nm), "d", 0o755, nil}})), true)
	}
	rec = func(prefix []string) {
		if len(prefix) > 0 {
			base := strings.Join(prefix, "/")
			for _, nm := range []string{base, "/" + base, base + "/", "/" + base + "/"} {
				emit(nm)
			}
		}
		if len(prefix) == k {
			return
		}
		for _, a := range alpha {
			rec(append(append([]string{}, prefix...), a))
		}
	}
	rec(nil)
}

func (g *gen) pathOps(n int) {
	dirs := []string{absDest, absDest + "/", "/", "", ".", "rel/dir", "../up", "/w//x/./y/..", "a/b/../../.."}
	for _, nm := range crafted {
		for _, d := range dirs {
			g.add(fmt.Sprintf("join %s %s", hx.Hex([]byte(d)), hx.Hex([]byte(nm))), true)
		}
		g.add("clean "+hx.Hex([]byte(nm)), true)
		g.add("islocal "+hx.Hex([]byte(nm)), true)
		g.add("cdir "+hx.Hex([]byte(nm)), true)
	}
	for i := 0; i < n; i++ {
		k := 1 + g.r.Intn(7)
		var ss []string
		for j := 0; j < k; j++ {
			ss = append(ss, hx.Pick(g.r, segPool))
		}
		nm := strings.Join(ss, "/")
		if g.r.Intn(4) == 0 {
			nm = "/" + nm
		}
		if g.r.Intn(4) == 0 {
			nm += "/"
		}
		switch g.r.Intn(4) {
		case 0:
			g.add("clean "+hx.Hex([]byte(nm)), true)
		case 1:
			g.add("islocal "+hx.Hex([]byte(nm)), true)
		case 2:
			g.add("cdir "+hx.Hex([]byte(nm)), true)
		default:
			g.add(fmt.Sprintf("join %s %s", hx.Hex([]byte(hx.Pick(g.r, dirs))), hx.Hex([]byte(nm))), true)
		}
		g.rep.Count("op:path")
	}
}

// tree makes a random directory tree in filepath.Walk order.
func (g *gen) tree() []ent {
	out := []ent{{[]byte("."), "d", g.dirPerm(), nil}}
	var rec func(prefix string, depth int)
	rec = func(prefix string, depth int) {
		n := g.r.Intn(5)
		if depth == 0 {
			n = 1 + g.r.Intn(5)
		}
		names := map[string]bool{}
		for i := 0; i < n; i++ {
			names[hx.Pick(g.r, plainPool)] = true
		}
		var ord []string
		for k := range names {
			ord = append(ord, k)
		}
		sort.Strings(ord)
		for _, nm := range ord {
			p := nm
			if prefix != "" {
				p = prefix + "/" + nm
			}
			if depth < 3 && g.r.Intn(3) == 0 {
				out = append(out, ent{[]byte(p), "d", g.dirPerm(), nil})
				rec(p, depth+1)
			} else {
				c := g.content()
				if g.r.Intn(40) == 0 {
					c = bytes.Repeat(g.r.Bytes(16), 200+g.r.Intn(200))
				}
				out = append(out, ent{[]byte(p), "f", 0o400 | g.r.Intn(0o400), c})
			}
		}
	}
	rec("", 0)
	return out
}

func (g *gen) roundTripOps(n int) {
	d := hx.Hex([]byte(absDest))
	g.add(fmt.Sprintf("rt dir=%s tree=%s", d, fmtEnts([]ent{{[]byte("."), "d", 0o755, nil}})), true)
	for i := 0; i < n; i++ {
		t := g.tree()
		g.add(fmt.Sprintf("rt dir=%s tree=%s", d, fmtEnts(t)), true)
		g.rep.Count("op:roundtrip-dir")
		g.rep.Count(fmt.Sprintf("tree-size:%d0s", len(t)/10))
		if i%4 == 0 {
			g.add(fmt.Sprintf("rtfile dir=%s base=%s perm=%d content=%s", d, hx.Hex([]byte(hx.Pick(g.r, plainPool))),
				0o400|g.r.Intn(0o400), hx.Hex(g.content())), true)
			g.rep.Count("op:roundtrip-file")
		}
	}
}

// twins: dot-prefixed names next to their undotted twins; a producer that derives
// entry names by trimming the directory spelling confuses them for ZipDir(".").
var twinPool = []string{".hidden", "hidden", "..data", ".data", "data", ".config", "config", ".", "a", ".a", "..a", "...", "...."}

func (g *gen) twinTree() []ent {
	out := []ent{{[]byte("."), "d", g.dirPerm(), nil}}
	var rec func(prefix string, depth int)
	rec = func(prefix string, depth int) {
		names := map[string]bool{}
		for i := 0; i < 3+g.r.Intn(5); i++ {
			nm := hx.Pick(g.r, twinPool)
			if nm != "." {
				names[nm] = true
			}
		}
		var ord []string
		for k := range names {
			ord = append(ord, k)
		}
		sort.Strings(ord)
		for _, nm := range ord {
			p := nm
			if prefix != "" {
				p = prefix + "/" + nm
			}
			if depth < 2 && g.r.Intn(4) == 0 {
				out = append(out, ent{[]byte(p), "d", g.dirPerm(), nil})
				rec(p, depth+1)
			} else {
				out = append(out, ent{[]byte(p), "f", 0o400 | g.r.Intn(0o400), []byte(nm)})
			}
		}
	}
	rec("", 0)
	return out
}

// spellingOps: ZipDir/ZipFile called with every spelling of the directory.
func (g *gen) spellingOps(rounds int) {
	d := hx.Hex([]byte(absDest))
	for i := 0; i < rounds; i++ {
		t := g.twinTree()
		if i%3 == 2 {
			t = g.tree()
		}
		for _, sp := range dirSpellings {
			g.add(fmt.Sprintf("rt dir=%s tree=%s spell=%s", d, fmtEnts(t), sp), true)
			g.rep.Count("op:roundtrip-dir-spelling:" + sp)
		}
		base := hx.Pick(g.r, twinPool[:len(twinPool)-1])
		if base == "." {
			base = ".hidden"
		}
		for _, sp := range []string{"abs", "rel", "dotrel"} {
			g.add(fmt.Sprintf("rtfile dir=%s base=%s perm=%d content=%s spell=%s", d, hx.Hex([]byte(base)), 0o400|g.r.Intn(0o400), hx.Hex(g.content()), sp), true)
			g.rep.Count("op:roundtrip-file-spelling:" + sp)
		}
	}
}

// manyFilesOps: archives with more entries than the lowered descriptor limit.
func (g *gen) manyFilesOps(files int) {
	d := hx.Hex([]byte(absDest))
	tree := []ent{{[]byte("."), "d", 0o755, nil}}
	var zs, ts []ent
	for i := 0; i < files; i++ {
		nm := fmt.Sprintf("f%03d", i)
		c := []byte{byte(i), byte(i >> 8)}
		tree = append(tree, ent{[]byte(nm), "f", 0o644, c})
		zs = append(zs, ent{[]byte(nm), "f", 0o644, c})
		ts = append(ts, ent{[]byte(nm), "r", 0o644, c})
	}
	sort.Slice(tree[1:], func(a, b int) bool { return string(tree[1+a].name) < string(tree[1+b].name) })
	g.add(fmt.Sprintf("rt dir=%s tree=%s nofile=64", d, fmtEnts(tree)), true)
	g.add(fmt.Sprintf("unzip dir=%s clear=0 pre=- ents=%s nofile=64", d, fmtEnts(zs)), true)
	g.add(fmt.Sprintf("untar dir=%s pre=- ents=%s nofile=64", d, fmtEnts(ts)), true)
	g.rep.Count("op:many-files-under-low-nofile")
}

// historyOps: round-trip histories with same-size edits at the same second.
func (g *gen) historyOps(n int) {
	d := hx.Hex([]byte(absDest))
	for i := 0; i < n; i++ {
		t1 := g.tree()
		if i%3 == 0 {
			t1 = g.twinTree()
		}
		t2 := make([]ent, 0, len(t1)+1)
		edited := false
		for j, e := range t1 {
			e2 := ent{append([]byte{}, e.name...), e.kind, e.perm, append([]byte{}, e.content...)}
			if j > 0 && e.kind == "f" {
				switch g.r.Intn(5) {
				case 0, 1: // same size, other bytes
					if len(e2.content) == 0 {
						break
					}
					for k := range e2.content {
						e2.content[k] ^= byte(1 + g.r.Intn(255))
					}
					edited = true
					g.rep.Count("history:same-size-edit")
				case 2:
					e2.content = append(e2.content, 'x')
					g.rep.Count("history:other-size-edit")
				case 3:
					e2.perm = 0o400 | g.r.Intn(0o400)
					g.rep.Count("history:mode-edit")
				}
			}
			if j > 0 && e.kind == "f" && !strings.Contains(string(e.name), "/") && g.r.Intn(12) == 0 {
				g.rep.Count("history:removed")
				continue // removed from the second tree
			}
			t2 = append(t2, e2)
		}
		if !edited {
			for j := range t2 {
				if j > 0 && t2[j].kind == "f" && len(t2[j].content) > 0 {
					t2[j].content[0] ^= 0x55
					g.rep.Count("history:same-size-edit")
					break
				}
			}
		}
		dt := hx.Pick(g.r, []int{0, 500, 999, 1000, 2500})
		g.add(fmt.Sprintf("rthist dir=%s clear=%d tree1=%s tree2=%s dt=%d", d, g.r.Intn(2), fmtEnts(t1), fmtEnts(t2), dt), true)
		g.rep.Count("op:roundtrip-history")
	}
}

// firstFileOps: tar streams for Cont.CopyOutFile with hostile first-entry names;
// the destination is an existing file, a missing file, an existing directory,
// or a path whose parent is missing.
func (g *gen) firstFileOps(n int) {
	d := hx.Hex([]byte(absDest))
	pre := []ent{{[]byte("dest"), "d", 0o755, nil}, {[]byte("dest/out.txt"), "f", 0o640, []byte("old")}, {[]byte("dest/sub"), "d", 0o755, nil},
		{[]byte("sib.txt"), "f", 0o644, []byte("sibling")}, {[]byte("escaped.txt"), "f", 0o600, []byte("mine")}}
	dests := []string{absDest + "/out.txt", absDest + "/new.txt", absDest, absDest + "/sub", absDest + "/sub/", absDest + "/nodir/x", absDest + "/sub/../out.txt"}
	names := append([]string{"../escaped.txt", "../sib.txt", "a/../../escaped.txt", "/abs", "out.txt", "x", "sub/y", "..", ".", ""}, crafted...)
	for i := 0; i < n; i++ {
		var nm string
		if i < len(names)*2 {
			nm = names[i%len(names)]
		} else {
			nm = g.name()
		}
		if ups(nm) > maxUp || upsAnySep(nm) > maxUp || strings.HasSuffix(nm, "/") {
			continue
		}
		var es []ent
		if g.r.Intn(3) == 0 {
			es = append(es, ent{[]byte("lead"), "d", 0o755, nil})
		}
		if g.r.Intn(8) == 0 {
			es = append(es, ent{[]byte("lnk"), "o", 0o777, nil})
		}
		if g.r.Intn(12) != 0 {
			es = append(es, ent{[]byte(nm), "r", g.filePerm(), g.content()})
		}
		if g.r.Intn(3) == 0 {
			es = append(es, ent{[]byte(g.name()), "r", g.filePerm(), g.content()})
			if strings.HasSuffix(string(es[len(es)-1].name), "/") {
				es = es[:len(es)-1]
			}
		}
		dest := dests[i%len(dests)]
		g.add(fmt.Sprintf("firstfile dir=%s dest=%s pre=%s ents=%s", d, hx.Hex([]byte(dest)), fmtEnts(pre), fmtEnts(es)), true)
		g.rep.Count("op:firstfile")
	}
}

func (g *gen) tarZipOps(n int) {
	dirs := []string{"", "app", "app/sub", ".", "app/", "./app//x/.."}
	for i := 0; i < n; i++ {
		k := 1 + g.r.Intn(3)
		var ns []string
		for j := 0; j < k; j++ {
			nm := g.name()
			if strings.Contains(nm, "\xff") {
				nm = strings.ReplaceAll(nm, "\xff", "y")
			}
			ns = append(ns, hx.Hex([]byte(nm)))
		}
		g.add(fmt.Sprintf("tarzip dir=%s names=%s", hx.Hex([]byte(hx.Pick(g.r, dirs))), strings.Join(ns, ",")), true)
		g.rep.Count("op:tarzip")
	}
}

// ---------------------------------------------------------------- shrinking

// shrink minimises the entries and the pre-state of an extraction op that
// violates the oracle with the given key.
func (c *ctx) shrink(line, key string) string {
	ws := strings.Fields(line)
	if ws[0] != "unzip" && ws[0] != "untar" {
		return line
	}
	fails := func(l string) bool {
		_, v := c.exec(l)
		return v != nil && v.key == key
	}
	get := func(k string) []ent {
		s, _ := kvGet(ws, k)
		es, _ := parseEnts(s)
		return es
	}
	build := func(pre, es []ent) string {
		var out []string
		for _, w := range ws {
			switch {
			case strings.HasPrefix(w, "pre="):
				out = append(out, "pre="+fmtEnts(pre))
			case strings.HasPrefix(w, "ents="):
				out = append(out, "ents="+fmtEnts(es))
			case strings.HasPrefix(w, "clear="):
				out = append(out, "clear=0")
			default:
				out = append(out, w)
			}
		}
		return strings.Join(out, " ")
	}
	pre, es := get("pre"), get("ents")
	if !fails(build(pre, es)) {
		return line
	}
	for changed := true; changed; {
		changed = false
		for i := 0; i < len(es) && len(es) > 1; i++ {
			cand := append(append([]ent{}, es[:i]...), es[i+1:]...)
			if fails(build(pre, cand)) {
				es, changed = cand, true
				i--
			}
		}
		for i := 0; i < len(pre); i++ {
			cand := append(append([]ent{}, pre[:i]...), pre[i+1:]...)
			if fails(build(cand, es)) {
				pre, changed = cand, true
				i--
			}
		}
		for i := range es {
			if len(es[i].content) > 0 {
				cand := append([]ent{}, es...)
				cand[i].content = nil
				if fails(build(pre, cand)) {
					es, changed = cand, true
				}
			}
			// drop leading segments that are not needed
			segs := strings.Split(string(es[i].name), "/")
			for j := 0; j < len(segs) && len(segs) > 1; j++ {
				cs := append(append([]string{}, segs[:j]...), segs[j+1:]...)
				cand := append([]ent{}, es...)
				cand[i].name = []byte(strings.Join(cs, "/"))
				if ups(string(cand[i].name)) <= maxUp && fails(build(pre, cand)) {
					es, segs, changed = cand, cs, true
					j--
				}
			}
		}
	}
	return build(pre, es)
}

func main() {
	log.SetOutput(io.Discard)
	syscall.Umask(0)
	f := hx.ParseFlags()
	rep := hx.NewReport("C17", f)
	rep.Rule = "op lines: zip/tar archives of 1-5 entries (names from plain, nested, `..` at any depth, absolute, `.`-only, " +
		"empty segments, repeated separators, directory entries, collisions with earlier entries; arbitrary contents) extracted " +
		"into <root>/o1/o2/sandbox/dest over five pre-states with the whole root snapshotted before/after; every name of up to k " +
		"segments over {a, .., ., empty} as one-entry archives; ZipDir/ZipFile round trips of random trees under umask 0; " +
		"TarZipFile header names; filepath.Clean/Join/IsLocal/Dir against the model's path library; distinct = distinct op line; " +
		"non-trivial = every op (each runs the real code at least once)"
	work := f.Work
	if work == "" {
		var err error
		work, err = os.MkdirTemp("", "verif-c17-")
		if err != nil {
			fmt.Println(err)
			os.Exit(3)
		}
		defer os.RemoveAll(work)
	}
	c := &ctx{rep: rep, j: hx.NewJournal(f.Work), root: filepath.Join(work, "c17root")}
	defer os.RemoveAll(c.root)

	var ops []string
	if f.Replay != "" {
		var err error
		ops, err = hx.ReadReplayOps(f.Replay)
		if err != nil {
			fmt.Println("replay:", err)
			return
		}
		for _, op := range ops {
			rep.Case(op, true)
		}
	} else {
		for _, cs := range hx.CorpusOps("C17") {
			for _, op := range cs {
				ops = append(ops, op)
				rep.Case(op, true)
				rep.Count("corpus-op")
			}
		}
		g := &gen{r: hx.NewRand(f.Seed), rep: rep, seen: map[string]bool{}}
		for _, op := range ops {
			g.seen[op] = true
		}
		nx, np, nrt, ntz, k := 1500, 4000, 200, 300, 3
		if f.Thorough() {
			nx, np, nrt, ntz, k = 30000, 100000, 3000, 4000, 5
			rep.Exhaustive = true
		}
		g.smallScope(k)
		g.pathOps(np)
		g.extractOps(nx)
		g.symlinkOps(nx / 10)
		g.roundTripOps(nrt)
		g.spellingOps(nrt / 25)
		g.manyFilesOps(200)
		g.historyOps(nrt / 4)
		g.firstFileOps(nx / 5)
		g.tarZipOps(ntz)
		ops = append(ops, g.ops...)
		rep.Distribution["small_scope"] = fmt.Sprintf("every name of <= %d segments over {a,..,.,empty} x {leading slash} x {trailing slash}, "+
			"as file and as directory entry, zip and tar", k)
	}

	impl := make([]string, len(ops))
	shrunk := map[string]int{}
	for i, op := range ops {
		out, v := c.exec(op)
		impl[i] = out
		if verb := strings.Fields(op + " x")[0]; verb != "clean" && verb != "join" && verb != "islocal" && verb != "cdir" {
			for _, w := range strings.Fields(out + " x") {
				if !strings.HasPrefix(w, "names=") && !strings.HasPrefix(w, "wf=") {
					rep.Count("status:" + verb + ":" + w)
					break
				}
			}
		}
		if v != nil {
			rep.Count("oracle-failure:" + v.key)
			shrunk[v.key]++
			if shrunk[v.key] > 3 {
				continue // already minimised three inputs of this class
			}
			min := c.shrink(op, v.key)
			desc := v.desc
			if min != op {
				if _, v2 := c.exec(min); v2 != nil {
					desc = v2.desc
				}
			}
			rep.Fail(v.key, desc, []string{min})
		}
	}
	c.j.Clear()
	c.resetRoot()

	model, err := hx.RunDriver(f.Driver, nil, ops)
	if err != nil {
		rep.Note("driver failed: %v", err)
		rep.ModelAvailable = false
	} else if model != nil {
		for i := range ops {
			if impl[i] == "bad-archive" || impl[i] == "bad-pre" || impl[i] == "bad-tree" {
				rep.Count("skipped:" + impl[i])
				continue
			}
			if impl[i] != model[i] {
				rep.Disagree(strings.Fields(ops[i])[0], ops[i], impl[i], model[i])
			}
		}
		rep.TracesValidated = len(ops)
	}
	step := len(ops)/10 + 1
	for i := 0; i < len(ops); i += step {
		o, m := ops[i], impl[i]
		if len(o) > 300 {
			o = o[:300] + "..."
		}
		if len(m) > 300 {
			m = m[:300] + "..."
		}
		rep.Sample(map[string]string{"op": o, "impl": m})
	}
	rep.Write(f.Out)
}
