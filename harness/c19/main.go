// Harness for C19: package dags (cycle detection, closure, critical edges,
// layout, reverse).  Every op line is one graph and one entry point of the
// real package; the same lines go to the Lean driver and the outputs are
// compared after sorting everything that came out of a Go map.  Independently
// of the model, every result of the implementation is checked against textbook
// algorithms written here (DFS cycle test, BFS shortest cycle, Floyd-Warshall
// closure, transitive reduction, injectivity / left-to-right / bounds of the
// layout, reverse twice).
package main

import (
	"encoding/json"
	"fmt"
	"io"
	"log"
	"os"
	"os/exec"
	"runtime"
	"sort"
	"strconv"
	"strings"
	"sync"
	"time"

	"shanhu.io/g/dags"
	"verif/harness/hx"
)

// ---------------------------------------------------------------- graphs

// graph is the input of one op: keys in op-line order, adjacency lists as
// written (order and duplicates kept).  Node i is named by its zero padded
// decimal so that Go's string order is the numeric order, or, when the op
// carries a `names=<scheme>` word, by the i-th string of a sorted list of names
// whose concatenations collide ("1"+"23" == "12"+"3"): code that keys a set by
// concatenated names confuses such nodes, the model keys by node identity.
type graph struct {
	keys []int
	adj  map[int][]int
	sc   *scheme
}

// scheme is a sorted list of node names; ids beyond the list get "~%04d",
// which sorts after every listed name.
type scheme struct {
	id    string
	names []string
	idx   map[string]int
}

func newScheme(id string, names []string) *scheme {
	ns := append([]string(nil), names...)
	sort.Strings(ns)
	sc := &scheme{id: id, names: ns, idx: map[string]int{}}
	for i, n := range ns {
		sc.idx[n] = i
	}
	return sc
}

func allStrings(alphabet string, maxLen int) []string {
	var out []string
	cur := []string{""}
	for l := 1; l <= maxLen; l++ {
		var next []string
		for _, p := range cur {
			for _, ch := range alphabet {
				next = append(next, p+string(ch))
			}
		}
		out = append(out, next...)
		cur = next
	}
	return out
}

var schemes = func() map[string]*scheme {
	m := map[string]*scheme{}
	for _, sc := range []*scheme{
		newScheme("d4a", []string{"1", "12", "23", "3"}),
		newScheme("d4b", []string{"12", "123", "2", "3"}),
		newScheme("d4c", []string{"1", "11", "111", "2"}),
		newScheme("d4d", []string{"1", "12", "2", "21"}),
		newScheme("l4", []string{"a", "ab", "b", "ba"}),
		newScheme("d3", allStrings("123", 3)),
		newScheme("l2", allStrings("ab", 4)),
	} {
		m[sc.id] = sc
	}
	return m
}()

var smallSchemes = []string{"d4a", "d4b", "d4c", "d4d", "l4"}

func (sc *scheme) name(i int) string {
	if sc == nil {
		return fmt.Sprintf("%04d", i)
	}
	if i < len(sc.names) {
		return sc.names[i]
	}
	return fmt.Sprintf("~%04d", i)
}

func (sc *scheme) unname(s string) int {
	if sc != nil {
		if i, ok := sc.idx[s]; ok {
			return i
		}
		if !strings.HasPrefix(s, "~") {
			return -1
		}
		s = s[1:]
	}
	n, err := strconv.Atoi(s)
	if err != nil {
		return -1
	}
	return n
}

func (g *graph) words() string {
	var b strings.Builder
	if g.sc != nil {
		b.WriteString("names=" + g.sc.id)
		if len(g.keys) > 0 {
			b.WriteByte(' ')
		}
	}
	for i, k := range g.keys {
		if i > 0 {
			b.WriteByte(' ')
		}
		b.WriteString(strconv.Itoa(k))
		b.WriteByte(':')
		if len(g.adj[k]) == 0 {
			b.WriteByte('-')
		}
		for j, v := range g.adj[k] {
			if j > 0 {
				b.WriteByte(',')
			}
			b.WriteString(strconv.Itoa(v))
		}
	}
	return b.String()
}

func parseGraph(ws []string) (*graph, bool) {
	g := &graph{adj: map[int][]int{}}
	for _, w := range ws {
		if strings.HasPrefix(w, "names=") {
			sc, ok := schemes[w[6:]]
			if !ok {
				return nil, false
			}
			g.sc = sc
			continue
		}
		p := strings.Split(w, ":")
		if len(p) != 2 {
			return nil, false
		}
		k, err := strconv.Atoi(p[0])
		if err != nil || k < 0 {
			return nil, false
		}
		if _, dup := g.adj[k]; dup {
			return nil, false
		}
		var outs []int
		if p[1] != "-" {
			for _, x := range strings.Split(p[1], ",") {
				v, err := strconv.Atoi(x)
				if err != nil || v < 0 {
					return nil, false
				}
				outs = append(outs, v)
			}
		}
		g.keys = append(g.keys, k)
		g.adj[k] = outs
	}
	return g, true
}

func (g *graph) dags() *dags.Graph {
	m := make(map[string][]string, len(g.keys))
	for _, k := range g.keys {
		var outs []string
		for _, v := range g.adj[k] {
			outs = append(outs, g.sc.name(v))
		}
		m[g.sc.name(k)] = outs
	}
	return dags.NewGraph(m)
}

func (g *graph) nedges() int {
	n := 0
	for _, k := range g.keys {
		n += len(g.adj[k])
	}
	return n
}

// ---------------------------------------------------------------- textbook oracles

// facts computed by independent algorithms on the input graph
type truth struct {
	idx     map[int]int // key -> dense index
	n       int
	closed  bool
	edge    [][]bool
	acyclic bool
	minCyc  int      // 0 when acyclic
	reach   [][]bool // transitive closure (>= 1 edge), only when closed
}

func analyse(g *graph, wantReach bool) *truth {
	t := &truth{idx: map[int]int{}, n: len(g.keys), closed: true}
	for i, k := range g.keys {
		t.idx[k] = i
	}
	n := t.n
	t.edge = make([][]bool, n)
	succ := make([][]int, n)
	for i := range t.edge {
		t.edge[i] = make([]bool, n)
	}
	for i, k := range g.keys {
		for _, v := range g.adj[k] {
			j, ok := t.idx[v]
			if !ok {
				t.closed = false
				continue
			}
			if !t.edge[i][j] {
				t.edge[i][j] = true
				succ[i] = append(succ[i], j)
			}
		}
	}
	// DFS, three colours
	color := make([]int8, n)
	t.acyclic = true
	var dfs func(u int)
	dfs = func(u int) {
		color[u] = 1
		for _, v := range succ[u] {
			if color[v] == 1 {
				t.acyclic = false
			} else if color[v] == 0 {
				dfs(v)
			}
		}
		color[u] = 2
	}
	for u := 0; u < n; u++ {
		if color[u] == 0 {
			dfs(u)
		}
	}
	// shortest cycle: BFS from every node over the whole graph
	if !t.acyclic {
		best := 0
		dist := make([]int, n)
		queue := make([]int, 0, n)
		for s := 0; s < n; s++ {
			for i := range dist {
				dist[i] = -1
			}
			dist[s] = 0
			queue = append(queue[:0], s)
			for qi := 0; qi < len(queue); qi++ {
				u := queue[qi]
				if best != 0 && dist[u]+1 >= best {
					break
				}
				if t.edge[u][s] {
					best = dist[u] + 1
					break
				}
				for _, v := range succ[u] {
					if dist[v] < 0 {
						dist[v] = dist[u] + 1
						queue = append(queue, v)
					}
				}
			}
		}
		t.minCyc = best
	}
	if wantReach {
		// Floyd-Warshall
		r := make([][]bool, n)
		for i := range r {
			r[i] = append([]bool(nil), t.edge[i]...)
		}
		for k := 0; k < n; k++ {
			rk := r[k]
			for i := 0; i < n; i++ {
				if !r[i][k] {
					continue
				}
				ri := r[i]
				for j := 0; j < n; j++ {
					if rk[j] {
						ri[j] = true
					}
				}
			}
		}
		t.reach = r
	}
	return t
}

// ---------------------------------------------------------------- running ops on the implementation

type ctx struct {
	mu  sync.Mutex
	rep *hx.Report
	j   *hx.Journal
	// summed over the workers
	implS, driverS float64
	slowest        map[string]float64 // op kind -> slowest single op on the implementation
}

func (c *ctx) fail(key, desc, op string) {
	c.mu.Lock()
	defer c.mu.Unlock()
	c.rep.Fail(key, desc, []string{op})
}

// failsWith re-runs one op on a scratch report and says whether the oracle
// failure `key` shows again.
func failsWith(op, key string) bool {
	if strings.HasPrefix(op, "probe ") {
		return false // child-process probes are not shrunk
	}
	sc := &ctx{rep: hx.NewReport("C19", &hx.Flags{}), j: hx.NewJournal(""), slowest: map[string]float64{}}
	sc.runOp(op)
	for _, f := range sc.rep.OracleFailures {
		if f.Key == key {
			return true
		}
	}
	return false
}

// shrink removes nodes (delta debugging: halves, quarters, ..., single nodes),
// then single edges, while the same oracle failure shows.
func shrink(op, key string, limit time.Duration) string {
	ws := strings.Fields(op)
	g, ok := parseGraph(ws[1:])
	if !ok || len(g.keys) <= 3 {
		return op
	}
	t0 := time.Now()
	without := func(h *graph, drop map[int]bool) *graph {
		r := &graph{adj: map[int][]int{}, sc: h.sc}
		for _, k := range h.keys {
			if drop[k] {
				continue
			}
			r.keys = append(r.keys, k)
			var outs []int
			for _, v := range h.adj[k] {
				if !drop[v] {
					outs = append(outs, v)
				}
			}
			r.adj[k] = outs
		}
		return r
	}
	for chunk := (len(g.keys) + 1) / 2; chunk >= 1; chunk /= 2 {
		for i := 0; i < len(g.keys); {
			if time.Since(t0) > limit {
				return ws[0] + " " + g.words()
			}
			drop := map[int]bool{}
			for j := i; j < i+chunk && j < len(g.keys); j++ {
				drop[g.keys[j]] = true
			}
			h := without(g, drop)
			if len(h.keys) > 0 && failsWith(ws[0]+" "+h.words(), key) {
				g = h
			} else {
				i += chunk
			}
		}
	}
	for _, k := range g.keys {
		for j := 0; j < len(g.adj[k]); {
			if time.Since(t0) > limit {
				return ws[0] + " " + g.words()
			}
			old := g.adj[k]
			g.adj[k] = append(append([]int{}, old[:j]...), old[j+1:]...)
			if !failsWith(ws[0]+" "+g.words(), key) {
				g.adj[k] = old
				j++
			}
		}
	}
	return ws[0] + " " + g.words()
}

func (c *ctx) failed() bool {
	c.mu.Lock()
	defer c.mu.Unlock()
	return len(c.rep.OracleFailures) > 0
}

func (c *ctx) count(k string) {
	c.mu.Lock()
	c.rep.Count(k)
	c.mu.Unlock()
}

func sortedInts(xs []int) string {
	if len(xs) == 0 {
		return "-"
	}
	ys := append([]int(nil), xs...)
	sort.Ints(ys)
	var b strings.Builder
	for i, y := range ys {
		if i > 0 {
			b.WriteByte(',')
		}
		b.WriteString(strconv.Itoa(y))
	}
	return b.String()
}

func keysOf(sc *scheme, m map[string]*dags.MapNode) []int {
	xs := make([]int, 0, len(m))
	for k := range m {
		xs = append(xs, sc.unname(k))
	}
	return xs
}

// classify maps an error of CheckDAG / NewMap to the small enum; for a
// reported cycle it also returns the nodes.
func classify(sc *scheme, err error) (string, []int) {
	if err == nil {
		return "ok", nil
	}
	msg := err.Error()
	switch {
	case strings.HasPrefix(msg, "missing node"):
		return "missing", nil
	case strings.HasPrefix(msg, "graph has circle: "):
		var cyc []int
		for _, p := range strings.Split(strings.TrimPrefix(msg, "graph has circle: "), "->") {
			cyc = append(cyc, sc.unname(p))
		}
		return "circle " + strconv.Itoa(len(cyc)), cyc
	}
	return "error", nil
}

func guard(f func() string) (out string) {
	defer func() {
		if r := recover(); r != nil {
			out = "panic"
		}
	}()
	return f()
}

// result of one op on the implementation
type result struct {
	out    string
	cycles [][]int // distinct cycles reported over the repetitions (check ops)
}

func sameCycle(a, b []int) bool {
	if len(a) != len(b) {
		return false
	}
	for i := range a {
		if a[i] != b[i] {
			return false
		}
	}
	return true
}

// runOp executes one op line on the implementation, evaluates the direct
// oracle and returns the canonical output.
func (c *ctx) runOp(line string) result {
	ws := strings.Fields(line)
	if len(ws) == 0 {
		return result{out: "bad-op"}
	}
	g, ok := parseGraph(ws[1:])
	if !ok {
		return result{out: "bad-op"}
	}
	switch ws[0] {
	case "check":
		return c.opCheck(line, g)
	case "probe":
		return result{out: c.opProbe(line)}
	case "entries":
		return result{out: guardOp(c, line, func() string { return c.opEntries(line, g) })}
	case "aux":
		return result{out: guardOp(c, line, func() string { return c.opAux(line, g) })}
	case "bigcheck", "bigmap":
		return result{out: guardOp(c, line, func() string { return c.opBig(line, g, ws[0] == "bigmap") })}
	case "map":
		return result{out: guardOp(c, line, func() string { return c.opMap(line, g) })}
	case "layout":
		return result{out: guardOp(c, line, func() string { return c.opLayout(line, g, false) })}
	case "revlayout":
		return result{out: guardOp(c, line, func() string { return c.opLayout(line, g, true) })}
	case "rev":
		return result{out: guardOp(c, line, func() string { return showGraph(fromDags(g.sc, g.dags().Reverse())) })}
	case "rev2":
		return result{out: guardOp(c, line, func() string { return c.opRev2(line, g) })}
	}
	return result{out: "bad-op"}
}

func guardOp(c *ctx, line string, f func() string) string {
	out := guard(f)
	if out == "panic" {
		c.fail("panic:"+strings.Fields(line)[0], "the implementation panicked", line)
	}
	return out
}

func (c *ctx) opCheck(line string, g *graph) result { return c.opCheckN(line, g, 3) }

// opCheckN repeats CheckDAG on cyclic graphs: different map orders may report
// different cycles.
func (c *ctx) opCheckN(line string, g *graph, cyclicReps int) result {
	t := analyse(g, false)
	reps := 1
	if !t.acyclic && t.closed {
		reps = cyclicReps
	}
	var res result
	for r := 0; r < reps; r++ {
		var cyc []int
		out := guard(func() string {
			s, cy := classify(g.sc, dags.CheckDAG(g.dags()))
			cyc = cy
			return s
		})
		if out == "panic" {
			c.fail("panic:check", "CheckDAG panicked", line)
		}
		if r == 0 {
			res.out = out
		} else if out != res.out {
			c.fail("check-unstable", fmt.Sprintf("CheckDAG answered %q and %q for the same graph", res.out, out), line)
		}
		// direct oracle
		accepted := out == "ok"
		want := t.closed && t.acyclic
		switch {
		case accepted && !t.closed:
			c.fail("accept-dangling", "CheckDAG accepted a graph with an edge to a missing node", line)
		case accepted && !t.acyclic:
			c.fail("accept-cyclic", "CheckDAG accepted a cyclic graph", line)
		case !accepted && want:
			c.fail("reject-dag", "CheckDAG rejected an acyclic graph whose edge targets all exist: "+out, line)
		case !t.closed && out != "missing":
			c.fail("dangling-not-missing", "edge to a missing node reported as "+out, line)
		}
		if cyc != nil {
			if why := cycleDefect(g, t, cyc); why != "" {
				c.fail("cycle-"+why, fmt.Sprintf("reported cycle %v: %s (shortest cycle has %d nodes)", cyc, why, t.minCyc), line)
			}
			dup := false
			for _, o := range res.cycles {
				if sameCycle(o, cyc) {
					dup = true
				}
			}
			if !dup {
				res.cycles = append(res.cycles, cyc)
			}
		}
	}
	return res
}

// cycleDefect says what is wrong with a reported cycle ("" = nothing).
func cycleDefect(g *graph, t *truth, cyc []int) string {
	if len(cyc) == 0 {
		return "empty"
	}
	seen := map[int]bool{}
	for i, u := range cyc {
		iu, ok := t.idx[u]
		if !ok {
			return "not-real"
		}
		if seen[u] {
			return "not-simple"
		}
		seen[u] = true
		v := cyc[(i+1)%len(cyc)]
		iv, ok := t.idx[v]
		if !ok || !t.edge[iu][iv] {
			return "not-real"
		}
	}
	if len(cyc) != t.minCyc {
		return "not-min"
	}
	return ""
}

func (c *ctx) opMap(line string, g *graph) string {
	m, err := dags.NewMap(g.dags())
	if err != nil {
		s, _ := classify(g.sc, err)
		return s
	}
	t := analyse(g, true)
	if !t.closed || !t.acyclic {
		c.fail("accept-bad-map", "NewMap accepted a graph that is cyclic or has a dangling edge", line)
		return "ok-unexpected"
	}
	layer := map[int]int{}
	for i, l := range m.SortedLayers() {
		for _, nd := range l {
			layer[g.sc.unname(nd.Name)] = i
		}
	}
	keys := append([]int(nil), g.keys...)
	sort.Ints(keys)
	var b strings.Builder
	fmt.Fprintf(&b, "ok nl=%d ne=%d nc=%d", m.Nlayer, m.Nedge, m.Ncrit)
	ncrit := 0
	for _, k := range keys {
		nd := m.Nodes[g.sc.name(k)]
		if nd == nil {
			c.fail("map-node-lost", "a node of the graph is not in the map", line)
			return "node-lost"
		}
		l, ok := layer[k]
		if !ok {
			c.fail("map-node-unlayered", "a node is in no layer", line)
		}
		fmt.Fprintf(&b, " %d;%d;%s;%s;%s;%s;%s;%s", k, l, sortedInts(keysOf(g.sc, nd.Ins)), sortedInts(keysOf(g.sc, nd.Outs)),
			sortedInts(keysOf(g.sc, nd.AllIns)), sortedInts(keysOf(g.sc, nd.AllOuts)), sortedInts(keysOf(g.sc, nd.CritIns)), sortedInts(keysOf(g.sc, nd.CritOuts)))
		// direct oracle against the textbook facts
		i := t.idx[k]
		set := func(mm map[string]*dags.MapNode) []bool {
			r := make([]bool, t.n)
			for nm := range mm {
				if j, ok := t.idx[g.sc.unname(nm)]; ok {
					r[j] = true
				} else {
					c.fail("map-unknown-node", "a node set names a node that is not in the graph", line)
				}
			}
			return r
		}
		ins, outs, ai, ao, ci, co := set(nd.Ins), set(nd.Outs), set(nd.AllIns), set(nd.AllOuts), set(nd.CritIns), set(nd.CritOuts)
		for j := 0; j < t.n; j++ {
			kj := g.keys[j]
			if outs[j] != t.edge[i][j] || ins[j] != t.edge[j][i] {
				c.fail("ins-outs-wrong", fmt.Sprintf("Ins/Outs of %d differ from the graph's edges at %d", k, kj), line)
			}
			if ao[j] != t.reach[i][j] {
				c.fail("allouts-wrong", fmt.Sprintf("AllOuts of %d: %d is %v, reachable is %v", k, kj, ao[j], t.reach[i][j]), line)
			}
			if ai[j] != t.reach[j][i] {
				c.fail("allins-wrong", fmt.Sprintf("AllIns of %d: %d is %v, reaching is %v", k, kj, ai[j], t.reach[j][i]), line)
			}
			// transitive reduction: edge with no intermediate node
			red := func(a, z int) bool {
				if !t.edge[a][z] {
					return false
				}
				for w := 0; w < t.n; w++ {
					if w != a && w != z && t.reach[a][w] && t.reach[w][z] {
						return false
					}
				}
				return true
			}
			if co[j] != red(i, j) {
				c.fail("crit-wrong", fmt.Sprintf("CritOuts of %d: %d is %v, transitive reduction says %v", k, kj, co[j], red(i, j)), line)
			}
			if ci[j] != red(j, i) {
				c.fail("crit-wrong", fmt.Sprintf("CritIns of %d: %d is %v, transitive reduction says %v", k, kj, ci[j], red(j, i)), line)
			}
			if co[j] {
				ncrit++
			}
			if t.edge[j][i] {
				if lj, ok := layer[kj]; ok && !(lj < l) {
					c.fail("layer-not-mono", fmt.Sprintf("edge %d->%d but layers %d, %d", kj, k, lj, l), line)
				}
			}
		}
		if l < 0 || l >= m.Nlayer {
			c.fail("layer-out-of-range", fmt.Sprintf("layer %d of %d, Nlayer %d", l, k, m.Nlayer), line)
		}
	}
	if len(m.Nodes) != len(keys) {
		c.fail("map-extra-node", "the map has nodes the graph does not have", line)
	}
	if ncrit != m.Ncrit {
		c.fail("ncrit-wrong", fmt.Sprintf("Ncrit %d, critical edges %d", m.Ncrit, ncrit), line)
	}
	if m.Nedge != g.nedges() {
		c.fail("nedge-wrong", fmt.Sprintf("Nedge %d, adjacency entries %d", m.Nedge, g.nedges()), line)
	}
	return b.String()
}

func (c *ctx) opLayout(line string, g *graph, rev bool) string {
	var v *dags.MapView
	var err error
	if rev {
		_, v, err = dags.RevLayout(g.dags())
	} else {
		_, v, err = dags.Layout(g.dags())
	}
	if err != nil {
		s, _ := classify(g.sc, err)
		return s
	}
	t := analyse(g, false)
	if !t.acyclic || (!t.closed && !rev) {
		c.fail("accept-bad-layout", "Layout accepted a graph that is cyclic or has a dangling edge", line)
		return "ok-unexpected"
	}
	keys := append([]int(nil), g.keys...)
	if rev && !t.closed {
		// Graph.Reverse turns dangling targets into nodes
		seen := map[int]bool{}
		for _, k := range keys {
			seen[k] = true
		}
		for _, k := range g.keys {
			for _, x := range g.adj[k] {
				if !seen[x] {
					seen[x] = true
					keys = append(keys, x)
				}
			}
		}
	}
	sort.Ints(keys)
	var b strings.Builder
	fmt.Fprintf(&b, "ok w=%d h=%d", v.Width, v.Height)
	type pt struct{ x, y int }
	at := map[pt]int{}
	pos := map[int]pt{}
	for _, k := range keys {
		nv := v.Nodes[g.sc.name(k)]
		if nv == nil {
			c.fail("layout-node-lost", "a node of the graph has no coordinates", line)
			return "node-lost"
		}
		fmt.Fprintf(&b, " %d;%d;%d", k, nv.X, nv.Y)
		p := pt{nv.X, nv.Y}
		if o, dup := at[p]; dup {
			c.fail("layout-overlap", fmt.Sprintf("nodes %d and %d are both at (%d,%d)", o, k, p.x, p.y), line)
		}
		at[p] = k
		pos[k] = p
		if p.x < 0 || p.x >= v.Width || p.y < 0 || p.y >= v.Height {
			c.fail("layout-out-of-bounds", fmt.Sprintf("node %d at (%d,%d), width %d height %d", k, p.x, p.y, v.Width, v.Height), line)
		}
	}
	if len(v.Nodes) != len(keys) {
		c.fail("layout-extra-node", "the view has nodes the graph does not have", line)
	}
	for _, k := range g.keys {
		for _, x := range g.adj[k] {
			pk, px := pos[k], pos[x]
			// RevLayout lays out the reversed graph and mirrors it, so the
			// original edges run left to right there as well
			if !(pk.x < px.x) {
				key := "layout-edge-not-lr"
				if rev {
					key = "revlayout-edge-not-lr"
				}
				c.fail(key, fmt.Sprintf("edge %d->%d drawn from x=%d to x=%d", k, x, pk.x, px.x), line)
			}
		}
	}
	return b.String()
}

func fromDags(sc *scheme, d *dags.Graph) *graph {
	g := &graph{adj: map[int][]int{}}
	for k, vs := range d.Nodes {
		g.keys = append(g.keys, sc.unname(k))
		var outs []int
		for _, v := range vs {
			outs = append(outs, sc.unname(v))
		}
		g.adj[sc.unname(k)] = outs
	}
	sort.Ints(g.keys)
	return g
}

func showGraph(g *graph) string {
	if len(g.keys) == 0 {
		return "empty"
	}
	keys := append([]int(nil), g.keys...)
	sort.Ints(keys)
	h := &graph{keys: keys, adj: g.adj}
	return h.words()
}

func (c *ctx) opRev2(line string, g *graph) string {
	r2 := fromDags(g.sc, g.dags().Reverse().Reverse())
	t := analyse(g, false)
	if t.closed {
		// reversing twice gives the graph back (adjacency lists come back sorted)
		want := &graph{adj: map[int][]int{}}
		for _, k := range g.keys {
			want.keys = append(want.keys, k)
			outs := append([]int(nil), g.adj[k]...)
			sort.Ints(outs)
			want.adj[k] = outs
		}
		if showGraph(want) != showGraph(r2) {
			c.fail("reverse-twice", "Reverse().Reverse() is "+showGraph(r2)+", the graph is "+showGraph(want), line)
		}
	}
	return showGraph(r2)
}

// ---------------------------------------------------------------- every exported entry point

func verdictWord(sc *scheme, err error) string {
	s, _ := classify(sc, err)
	if i := strings.IndexByte(s, ' '); i > 0 {
		s = s[:i]
	}
	return s
}

// opEntries runs every exported function of the package that validates a
// graph and requires one verdict: accepted exactly when all edge targets
// exist and the graph is acyclic (RevLayout*: exactly when acyclic, since
// Graph.Reverse turns missing targets into nodes).  TopoSort's order is checked
// to be a permutation of the nodes with every edge forward.
func (c *ctx) opEntries(line string, g *graph) string {
	t := analyse(g, false)
	want := t.closed && t.acyclic
	wantWord := "ok"
	if !t.closed {
		wantWord = "missing"
	} else if !t.acyclic {
		wantWord = "circle"
	}
	judge := func(entry, got string, wantOK bool, wantW string) {
		switch {
		case got == "ok" && !wantOK:
			c.fail("entry-accepts-bad-graph:"+entry, entry+" accepted a graph that is cyclic or has an edge to a missing node (CheckDAG's answer would be "+wantW+")", line)
		case got != "ok" && wantOK:
			c.fail("entry-rejects-dag:"+entry, entry+" rejected an acyclic graph whose edge targets all exist: "+got, line)
		case got != wantW:
			c.fail("entry-verdict:"+entry, entry+" answered "+got+", expected "+wantW, line)
		}
	}
	var b strings.Builder
	put := func(entry, got string) { fmt.Fprintf(&b, "%s=%s ", entry, got) }

	v := verdictWord(g.sc, dags.CheckDAG(g.dags()))
	judge("CheckDAG", v, want, wantWord)
	put("check", v)

	_, err := dags.NewMap(g.dags())
	v = verdictWord(g.sc, err)
	judge("NewMap", v, want, wantWord)
	put("map", v)

	order, err := dags.TopoSort(g.dags())
	v = verdictWord(g.sc, err)
	judge("TopoSort", v, want, wantWord)
	if err == nil {
		pos := map[int]int{}
		var ids []string
		for i, nm := range order {
			id := g.sc.unname(nm)
			if _, dup := pos[id]; dup {
				c.fail("topo-order-repeats", "TopoSort lists a node twice", line)
			}
			pos[id] = i
			ids = append(ids, strconv.Itoa(id))
		}
		if len(order) != len(g.keys) {
			c.fail("topo-order-incomplete", fmt.Sprintf("TopoSort lists %d of %d nodes", len(order), len(g.keys)), line)
		}
		for _, k := range g.keys {
			pk, ok := pos[k]
			if !ok {
				c.fail("topo-order-incomplete", fmt.Sprintf("TopoSort does not list node %d", k), line)
				continue
			}
			for _, x := range g.adj[k] {
				if px, ok := pos[x]; ok && !(pk < px) {
					c.fail("topo-order-wrong", fmt.Sprintf("edge %d->%d but TopoSort puts %d at %d and %d at %d", k, x, k, pk, x, px), line)
				}
			}
		}
		if len(ids) == 0 {
			v = "ok:-"
		} else {
			v = "ok:" + strings.Join(ids, ",")
		}
	}
	put("topo", v)

	_, view, err := dags.Layout(g.dags())
	v = verdictWord(g.sc, err)
	judge("Layout", v, want, wantWord)
	put("layout", v)

	js, err := dags.LayoutJSON(g.dags())
	v = verdictWord(g.sc, err)
	judge("LayoutJSON", v, want, wantWord)
	put("layoutjson", v)
	if err == nil && view != nil {
		c.checkJSON("LayoutJSON", js, view, line)
	}

	revWord := "ok"
	if !t.acyclic {
		revWord = "circle"
	}
	_, rview, err := dags.RevLayout(g.dags())
	v = verdictWord(g.sc, err)
	judge("RevLayout", v, t.acyclic, revWord)
	put("revlayout", v)

	js, err = dags.RevLayoutJSON(g.dags())
	v = verdictWord(g.sc, err)
	judge("RevLayoutJSON", v, t.acyclic, revWord)
	put("revlayoutjson", v)
	if err == nil && rview != nil {
		c.checkJSON("RevLayoutJSON", js, rview, line)
	}
	return strings.TrimSpace(b.String())
}

// checkJSON: the JSON form carries the view's size, coordinates and critical lists.
func (c *ctx) checkJSON(entry string, js []byte, view *dags.MapView, line string) {
	var m dags.M
	if err := json.Unmarshal(js, &m); err != nil {
		c.fail("json-invalid:"+entry, entry+" produced invalid JSON: "+err.Error(), line)
		return
	}
	bad := m.Height != view.Height || m.Width != view.Width || len(m.Nodes) != len(view.Nodes)
	for nm, nv := range view.Nodes {
		n := m.Nodes[nm]
		if n == nil || n.X != nv.X || n.Y != nv.Y || n.F != nm ||
			strings.Join(n.Ins, ",") != strings.Join(nv.CritIns, ",") || strings.Join(n.Outs, ",") != strings.Join(nv.CritOuts, ",") {
			bad = true
		}
	}
	if bad {
		c.fail("json-differs:"+entry, entry+" differs from the view of the same layout", line)
	}
}

// opAux drives the exported functions that do not validate: Graph.Remove,
// SubGraph, Rename; on accepted graphs Closure (every node subset up to 4
// nodes), AllInsSorted, Map.SortedNodes, Map.Reverse, MapView.Reverse, Output.
func (c *ctx) opAux(line string, g *graph) string {
	t := analyse(g, true)
	sc := g.sc
	sortedCopy := func(xs []int) []int {
		ys := append([]int(nil), xs...)
		sort.Ints(ys)
		return ys
	}
	// Remove
	for _, r := range g.keys {
		want := &graph{adj: map[int][]int{}}
		for _, k := range g.keys {
			if k == r {
				continue
			}
			want.keys = append(want.keys, k)
			var outs []int
			for _, x := range g.adj[k] {
				if x != r {
					outs = append(outs, x)
				}
			}
			want.adj[k] = outs
		}
		if got := showGraph(fromDags(sc, g.dags().Remove(sc.name(r)))); got != showGraph(want) {
			c.fail("remove-wrong", fmt.Sprintf("Remove(%d) gives %s, expected %s", r, got, showGraph(want)), line)
		}
	}
	// SubGraph: nodes with an even id
	{
		keep := func(i int) bool { return i%2 == 0 }
		want := &graph{adj: map[int][]int{}}
		for _, k := range g.keys {
			if !keep(k) {
				continue
			}
			want.keys = append(want.keys, k)
			var outs []int
			for _, x := range g.adj[k] {
				if keep(x) && t.idx != nil {
					if _, isKey := t.idx[x]; isKey {
						outs = append(outs, x)
					}
				}
			}
			want.adj[k] = outs
		}
		got := showGraph(fromDags(sc, g.dags().SubGraph(func(s string) bool { return keep(sc.unname(s)) })))
		if got != showGraph(want) {
			c.fail("subgraph-wrong", "SubGraph(even ids) gives "+got+", expected "+showGraph(want), line)
		}
	}
	// Rename: append a letter (keeps the order); fails exactly when a target is missing
	{
		r, err := g.dags().Rename(func(s string) (string, error) { return s + "r", nil })
		if (err == nil) != t.closed {
			c.fail("rename-verdict", fmt.Sprintf("Rename error=%v on a graph with closed=%v", err, t.closed), line)
		}
		if err == nil {
			back, _ := r.Rename(func(s string) (string, error) { return strings.TrimSuffix(s, "r"), nil })
			want := &graph{adj: map[int][]int{}, keys: g.keys}
			for _, k := range g.keys {
				want.adj[k] = sortedCopy(g.adj[k])
			}
			if got := showGraph(fromDags(sc, back)); got != showGraph(want) {
				c.fail("rename-wrong", "Rename there and back gives "+got+", expected "+showGraph(want), line)
			}
		}
	}
	if !t.closed || !t.acyclic {
		return "aux-rejected"
	}
	m, err := dags.NewMap(g.dags())
	if err != nil {
		return "aux-newmap-" + verdictWord(sc, err)
	}
	layer := map[int]int{}
	for i, l := range m.SortedLayers() {
		for _, nd := range l {
			layer[sc.unname(nd.Name)] = i
		}
	}
	less := func(a, b int) bool {
		if layer[a] != layer[b] {
			return layer[a] < layer[b]
		}
		return sc.name(a) < sc.name(b)
	}
	// SortedNodes: by layer, then name
	{
		var got []int
		for _, nd := range m.SortedNodes() {
			got = append(got, sc.unname(nd.Name))
		}
		want := append([]int(nil), g.keys...)
		sort.Slice(want, func(i, j int) bool { return less(want[i], want[j]) })
		if fmt.Sprint(got) != fmt.Sprint(want) {
			c.fail("sortednodes-wrong", fmt.Sprintf("SortedNodes %v, expected %v", got, want), line)
		}
	}
	// AllInsSorted: the ancestors, by layer then name
	for _, k := range g.keys {
		var got, want []int
		for _, nd := range dags.AllInsSorted(m.Nodes[sc.name(k)]) {
			got = append(got, sc.unname(nd.Name))
		}
		for _, a := range g.keys {
			if t.reach[t.idx[a]][t.idx[k]] {
				want = append(want, a)
			}
		}
		sort.Slice(want, func(i, j int) bool { return less(want[i], want[j]) })
		if fmt.Sprint(got) != fmt.Sprint(want) {
			c.fail("allinssorted-wrong", fmt.Sprintf("AllInsSorted(%d) %v, expected %v", k, got, want), line)
		}
	}
	// Closure of every subset (graphs up to 4 nodes): the subset plus the nodes between two of its members
	if n := len(g.keys); n <= 4 {
		for mask := 1; mask < 1<<uint(n); mask++ {
			var sub []string
			in := map[int]bool{}
			for i, k := range g.keys {
				if mask>>uint(i)&1 == 1 {
					sub = append(sub, sc.name(k))
					in[k] = true
				}
			}
			want := map[int]bool{}
			for k := range in {
				want[k] = true
			}
			for _, x := range g.keys {
				below, above := false, false
				for k := range in {
					if t.reach[t.idx[x]][t.idx[k]] {
						below = true // x reaches a member
					}
					if t.reach[t.idx[k]][t.idx[x]] {
						above = true // a member reaches x
					}
				}
				if below && above {
					want[x] = true
				}
			}
			cm := dags.Closure(m, sub)
			ok := len(cm.Nodes) == len(want)
			for nm, nd := range cm.Nodes {
				id := sc.unname(nm)
				if !want[id] {
					ok = false
					continue
				}
				for _, y := range g.keys { // induced edges
					_, has := nd.Outs[sc.name(y)]
					if has != (want[y] && t.edge[t.idx[id]][t.idx[y]]) {
						ok = false
					}
				}
			}
			if !ok {
				c.fail("closure-wrong", fmt.Sprintf("Closure(%v) has nodes %v, expected the induced map on %v", sub, sortedCopy(keysOf(sc, cm.Nodes)), want), line)
			}
		}
	}
	// Map.Reverse: ins and outs swapped, layers mirrored; twice = identity
	{
		snap := func() string {
			var b strings.Builder
			ls := m.SortedLayers()
			for _, k := range sortedCopy(g.keys) {
				nd := m.Nodes[sc.name(k)]
				l := -1
				for i, lay := range ls {
					for _, x := range lay {
						if x == nd {
							l = i
						}
					}
				}
				fmt.Fprintf(&b, "%d;%d;%s;%s;%s;%s;%s;%s ", k, l, sortedInts(keysOf(sc, nd.Ins)), sortedInts(keysOf(sc, nd.Outs)),
					sortedInts(keysOf(sc, nd.AllIns)), sortedInts(keysOf(sc, nd.AllOuts)), sortedInts(keysOf(sc, nd.CritIns)), sortedInts(keysOf(sc, nd.CritOuts)))
			}
			return b.String()
		}
		before := snap()
		m.Reverse()
		mid := snap()
		var wantMid strings.Builder
		for _, w := range strings.Fields(before) {
			p := strings.Split(w, ";")
			l, _ := strconv.Atoi(p[1])
			fmt.Fprintf(&wantMid, "%s;%d;%s;%s;%s;%s;%s;%s ", p[0], m.Nlayer-1-l, p[3], p[2], p[5], p[4], p[7], p[6])
		}
		if mid != wantMid.String() {
			c.fail("map-reverse-wrong", "Map.Reverse gives "+mid+", expected "+wantMid.String(), line)
		}
		m.Reverse()
		if after := snap(); after != before {
			c.fail("map-reverse-twice", "Map.Reverse twice gives "+after+", the map was "+before, line)
		}
	}
	// MapView.Reverse and Output
	{
		v := dags.LayoutMap(m)
		v.AssignDisplayName(func(s string) string { return "d" + s })
		type p struct{ x, y int }
		before := map[string]p{}
		for nm, nv := range v.Nodes {
			before[nm] = p{nv.X, nv.Y}
		}
		top := v.IsTopDown
		v.Reverse()
		for nm, nv := range v.Nodes {
			if nv.X != v.Width-1-before[nm].x || nv.Y != before[nm].y {
				c.fail("view-reverse-wrong", "MapView.Reverse does not mirror X", line)
			}
		}
		if v.IsTopDown == top {
			c.fail("view-reverse-wrong", "MapView.Reverse does not flip IsTopDown", line)
		}
		out := dags.Output(v)
		bad := out.Height != v.Height || out.Width != v.Width || len(out.Nodes) != len(v.Nodes)
		for nm, nv := range v.Nodes {
			n := out.Nodes[nm]
			if n == nil || n.X != nv.X || n.Y != nv.Y || n.F != nm || n.N != "d"+nm {
				bad = true
			}
		}
		if bad {
			c.fail("output-wrong", "Output differs from the view", line)
		}
		v.Reverse()
		for nm, nv := range v.Nodes {
			if (p{nv.X, nv.Y}) != before[nm] {
				c.fail("view-reverse-twice", "MapView.Reverse twice does not restore the coordinates", line)
			}
		}
	}
	return "aux-ok"
}

// ---------------------------------------------------------------- very wide graphs (no model, sparse oracle)

// sparseFacts: closedness and acyclicity by an iterative three-colour DFS on
// adjacency lists (no n x n matrix), for graphs of tens of thousands of nodes.
func sparseFacts(g *graph) (closed, acyclic bool) {
	isKey := make(map[int]bool, len(g.keys))
	for _, k := range g.keys {
		isKey[k] = true
	}
	closed, acyclic = true, true
	color := make(map[int]int8, len(g.keys))
	type frame struct{ u, i int }
	for _, root := range g.keys {
		if color[root] != 0 {
			continue
		}
		stack := []frame{{root, 0}}
		color[root] = 1
		for len(stack) > 0 {
			f := &stack[len(stack)-1]
			outs := g.adj[f.u]
			if f.i >= len(outs) {
				color[f.u] = 2
				stack = stack[:len(stack)-1]
				continue
			}
			v := outs[f.i]
			f.i++
			if !isKey[v] {
				closed = false
				continue
			}
			switch color[v] {
			case 1:
				acyclic = false
			case 0:
				color[v] = 1
				stack = append(stack, frame{v, 0})
			}
		}
	}
	return
}

// opBig is CheckDAG (and NewMap with its layers) on a graph too large for the
// matrix oracles and for the model: accept/reject, reality of a reported cycle,
// layers strictly increasing along every edge.
func (c *ctx) opBig(line string, g *graph, withMap bool) string {
	closed, acyclic := sparseFacts(g)
	out, cyc := classify(g.sc, dags.CheckDAG(g.dags()))
	accepted := out == "ok"
	switch {
	case accepted && !closed:
		c.fail("accept-dangling", "CheckDAG accepted a graph with an edge to a missing node", line)
	case accepted && !acyclic:
		c.fail("accept-cyclic", fmt.Sprintf("CheckDAG accepted a cyclic graph of %d nodes", len(g.keys)), line)
	case !accepted && closed && acyclic:
		c.fail("reject-dag", "CheckDAG rejected an acyclic graph whose edge targets all exist: "+out, line)
	}
	if cyc != nil {
		has := func(u, v int) bool {
			for _, x := range g.adj[u] {
				if x == v {
					return true
				}
			}
			return false
		}
		seen := map[int]bool{}
		for i, u := range cyc {
			if seen[u] {
				c.fail("cycle-not-simple", fmt.Sprintf("reported cycle %v repeats a node", cyc), line)
			}
			seen[u] = true
			if !has(u, cyc[(i+1)%len(cyc)]) {
				c.fail("cycle-not-real", fmt.Sprintf("reported cycle %v: no edge %d->%d", cyc, u, cyc[(i+1)%len(cyc)]), line)
				break
			}
		}
	}
	if !withMap {
		return out
	}
	m, err := dags.NewMap(g.dags())
	if err != nil {
		s, _ := classify(g.sc, err)
		if s != out {
			c.fail("check-map-differ", "CheckDAG said "+out+", NewMap said "+s, line)
		}
		return out
	}
	if !closed || !acyclic {
		c.fail("accept-bad-map", fmt.Sprintf("NewMap accepted a graph of %d nodes that is cyclic or has a dangling edge", len(g.keys)), line)
		return "ok-unexpected"
	}
	layer := make(map[int]int, len(g.keys))
	for i, l := range m.SortedLayers() {
		for _, nd := range l {
			layer[g.sc.unname(nd.Name)] = i
		}
	}
	if len(layer) != len(g.keys) {
		c.fail("map-node-unlayered", fmt.Sprintf("%d of %d nodes are in a layer", len(layer), len(g.keys)), line)
	}
	for _, u := range g.keys {
		for _, v := range g.adj[u] {
			if !(layer[u] < layer[v]) {
				c.fail("layer-not-mono", fmt.Sprintf("edge %d->%d but layers %d, %d (graph of %d nodes)", u, v, layer[u], layer[v], len(g.keys)), line)
				return fmt.Sprintf("ok nl=%d", m.Nlayer)
			}
		}
	}
	return fmt.Sprintf("ok nl=%d", m.Nlayer)
}

// wideGraph: one hub with k spokes.  fanIn: every spoke -> hub, else hub -> every
// spoke.  variant 0: nothing else; 1: spoke -> spoke edges that put some spokes
// into deeper layers; 2: additionally a path that closes a cycle through the hub.
// ids are shuffled by `lab` (nil = identity), key order by `ord`.
func wideGraph(k int, fanIn bool, variant int, lab, ord []int) *graph {
	id := func(i int) int {
		if lab == nil {
			return i
		}
		return lab[i]
	}
	n := k + 2 // hub 0, spokes 1..k, extra k+1
	adj := make(map[int][]int, n)
	for i := 0; i < n; i++ {
		adj[id(i)] = nil
	}
	add := func(u, v int) { adj[id(u)] = append(adj[id(u)], id(v)) }
	for i := 1; i <= k; i++ {
		if fanIn {
			add(i, 0)
		} else {
			add(0, i)
		}
	}
	if variant >= 1 && k >= 4 {
		add(1, 2) // spoke 2 one layer deeper than the other spokes
		add(2, 3)
	}
	if variant == 2 {
		if fanIn {
			add(0, k+1) // hub -> extra -> spoke 1
			add(k+1, 1)
		} else {
			add(k, k+1) // spoke k -> extra -> hub
			add(k+1, 0)
		}
	} else if fanIn {
		add(0, k+1) // a successor of the hub: it must lie above every spoke
	} else {
		add(k+1, 0)
	}
	g := &graph{adj: adj}
	for i := 0; i < n; i++ {
		j := i
		if ord != nil {
			j = ord[i]
		}
		g.keys = append(g.keys, id(j))
	}
	return g
}

// ---------------------------------------------------------------- generators

type gen struct {
	r *hx.Rand
}

func fromMatrix(n int, bits uint64, dang uint64) *graph {
	g := &graph{adj: map[int][]int{}}
	for i := 0; i < n; i++ {
		g.keys = append(g.keys, i)
		var outs []int
		for j := 0; j < n; j++ {
			if bits>>(uint(i*n+j))&1 == 1 {
				outs = append(outs, j)
			}
		}
		if dang>>uint(i)&1 == 1 {
			outs = append(outs, 9)
		}
		g.adj[i] = outs
	}
	return g
}

// acyclicBits: adjacency matrix (row i = successors of i, n <= 8) without cycle
func acyclicBits(n int, rows []uint8) bool {
	alive := uint8(1<<uint(n) - 1)
	for alive != 0 {
		progress := false
		for i := 0; i < n; i++ {
			if alive>>uint(i)&1 == 1 && rows[i]&alive == 0 { // no successor left
				alive &^= 1 << uint(i)
				progress = true
			}
		}
		if !progress {
			return false
		}
	}
	return true
}

func (ge *gen) perm(n int) []int {
	p := make([]int, n)
	for i := range p {
		p[i] = i
	}
	for i := n - 1; i > 0; i-- {
		j := ge.r.Intn(i + 1)
		p[i], p[j] = p[j], p[i]
	}
	return p
}

// randomDAG: edges only forward in a random order of the names; p in 1/1000
func (ge *gen) randomDAG(n int, pm int) *graph {
	ord := ge.perm(n)
	g := &graph{adj: map[int][]int{}}
	g.keys = ge.perm(n)
	for a := 0; a < n; a++ {
		var outs []int
		for b := a + 1; b < n; b++ {
			if ge.r.Intn(1000) < pm {
				outs = append(outs, ord[b])
			}
		}
		// adjacency order as generated, sometimes shuffled, sometimes with a duplicate
		if len(outs) > 1 && ge.r.Intn(3) == 0 {
			q := ge.perm(len(outs))
			o2 := make([]int, len(outs))
			for i, x := range q {
				o2[i] = outs[x]
			}
			outs = o2
		}
		if len(outs) > 0 && ge.r.Intn(8) == 0 {
			outs = append(outs, outs[ge.r.Intn(len(outs))])
		}
		g.adj[ord[a]] = outs
	}
	return g
}

// layeredDAG: w nodes per layer, d layers, each node to k random nodes of later layers (mostly the next)
func (ge *gen) layeredDAG(w, d, k int) *graph {
	n := w * d
	names := ge.perm(n)
	g := &graph{adj: map[int][]int{}, keys: ge.perm(n)}
	for l := 0; l < d; l++ {
		for i := 0; i < w; i++ {
			u := names[l*w+i]
			seen := map[int]bool{}
			var outs []int
			for e := 0; e < k && l+1 < d; e++ {
				tl := l + 1
				if ge.r.Intn(4) == 0 {
					tl = l + 1 + ge.r.Intn(d-l-1)
				}
				v := names[tl*w+ge.r.Intn(w)]
				if !seen[v] {
					seen[v] = true
					outs = append(outs, v)
				}
			}
			g.adj[u] = outs
		}
	}
	return g
}

// rename maps the ids of g injectively into the ids of a naming scheme.
func (ge *gen) rename(g *graph, sc *scheme) *graph {
	p := ge.perm(len(sc.names))
	m := map[int]int{}
	next := 0
	id := func(x int) int {
		if y, ok := m[x]; ok {
			return y
		}
		if x >= 5000 || next >= len(p) { // dangling targets keep their id
			return x
		}
		m[x] = p[next]
		next++
		return m[x]
	}
	r := &graph{adj: map[int][]int{}, sc: sc}
	for _, k := range g.keys {
		r.keys = append(r.keys, id(k))
	}
	for _, k := range g.keys {
		var outs []int
		for _, v := range g.adj[k] {
			outs = append(outs, id(v))
		}
		r.adj[id(k)] = outs
	}
	return r
}

func (ge *gen) addBackEdges(g *graph, k int) {
	n := len(g.keys)
	for i := 0; i < k; i++ {
		u := g.keys[ge.r.Intn(n)]
		v := g.keys[ge.r.Intn(n)]
		g.adj[u] = append(g.adj[u], v)
	}
}

func (ge *gen) randomDigraph(n int, pm int) *graph {
	g := &graph{adj: map[int][]int{}, keys: ge.perm(n)}
	for a := 0; a < n; a++ {
		var outs []int
		for b := 0; b < n; b++ {
			if ge.r.Intn(1000) < pm {
				outs = append(outs, b)
			}
		}
		g.adj[a] = outs
	}
	return g
}

// ring with chords that keep the shortest cycle long
func (ge *gen) ring(n int, extra int) *graph {
	names := ge.perm(n)
	g := &graph{adj: map[int][]int{}, keys: ge.perm(n)}
	for i := 0; i < n; i++ {
		g.adj[names[i]] = []int{names[(i+1)%n]}
	}
	for e := 0; e < extra; e++ {
		a := ge.r.Intn(n - 1)
		b := a + 1 + ge.r.Intn(n-1-a) // forward chord: shortens the cycle but keeps one
		g.adj[names[a]] = append(g.adj[names[a]], names[b])
	}
	return g
}

// ---------------------------------------------------------------- batches

// batch runs ops on the implementation, pipes them (plus the derived member
// lines) to the driver, and diffs.
func (c *ctx) batch(driver string, ops []string, register bool) {
	impl := make([]string, len(ops))
	var memberOps []string
	tImpl := time.Now()
	slow := map[string]float64{}
	for i, op := range ops {
		t1 := time.Now()
		r := c.runOp(op)
		if d := time.Since(t1).Seconds(); d > slow[op[:strings.IndexByte(op+" ", ' ')]] {
			slow[op[:strings.IndexByte(op+" ", ' ')]] = d
		}
		impl[i] = r.out
		if len(r.cycles) > 0 {
			ws := strings.SplitN(op, " ", 2)
			rest := ""
			if len(ws) == 2 {
				rest = ws[1]
			}
			for _, cy := range r.cycles {
				var xs []string
				for _, x := range cy {
					xs = append(xs, strconv.Itoa(x))
				}
				memberOps = append(memberOps, "member "+strings.Join(xs, ",")+" "+rest)
			}
		}
	}
	var drvIdx []int // ops the model sees ("big..." ops are oracle-only)
	var all []string
	for i, op := range ops {
		if !strings.HasPrefix(op, "big") && !strings.HasPrefix(op, "aux ") && op != "aux" {
			drvIdx = append(drvIdx, i)
			all = append(all, op)
		}
	}
	all = append(all, memberOps...)
	dImpl := time.Since(tImpl).Seconds()
	tDrv := time.Now()
	model, err := hx.RunDriver(driver, nil, all)
	c.mu.Lock()
	defer c.mu.Unlock()
	c.implS += dImpl
	c.driverS += time.Since(tDrv).Seconds()
	for k, v := range slow {
		if v > c.slowest[k] {
			c.slowest[k] = v
		}
	}
	if register {
		for i, op := range ops {
			c.rep.Case(caseKey(op), true)
			kind := strings.SplitN(op, " ", 2)[0]
			out := impl[i]
			if j := strings.IndexByte(out, ' '); j > 0 {
				out = out[:j]
			}
			if kind == "rev" || kind == "rev2" {
				out = "graph"
			}
			c.rep.Count("op:" + kind + ":" + out)
		}
	} else {
		c.rep.Evaluations += len(ops)
	}
	if err != nil {
		c.rep.Note("driver failed: %v", err)
		c.rep.ModelAvailable = false
		return
	}
	if model == nil {
		return
	}
	for j, i := range drvIdx {
		if impl[i] != model[j] {
			c.rep.Disagree("dags", clip(ops[i]), clip(impl[i]), clip(model[j]))
		}
	}
	for i, op := range memberOps {
		if model[len(drvIdx)+i] != "yes" {
			c.rep.Disagree("dags-cycle", clip(op), "reported", model[len(drvIdx)+i])
		}
	}
	c.rep.TracesValidated += len(all)
	c.rep.Count("member-lines")
}

// caseKey is the canonical form of a case: the op line, or for very long lines
// its kind, length and FNV-1a hash.
func caseKey(op string) string {
	if len(op) <= 4096 {
		return op
	}
	h := uint64(14695981039346656037)
	for i := 0; i < len(op); i++ {
		h = (h ^ uint64(op[i])) * 1099511628211
	}
	return fmt.Sprintf("%s#len=%d#%016x", op[:strings.IndexByte(op, ' ')], len(op), h)
}

func clip(s string) string {
	if len(s) > 600 {
		return s[:600] + "..."
	}
	return s
}

// parallel runs f on chunks of the index range [0, n) with all cores.
func parallel(n, chunk int, f func(lo, hi int)) {
	workers := runtime.NumCPU()
	if workers > 16 {
		workers = 16
	}
	var wg sync.WaitGroup
	next := 0
	var mu sync.Mutex
	for w := 0; w < workers; w++ {
		wg.Add(1)
		go func() {
			defer wg.Done()
			for {
				mu.Lock()
				lo := next
				next += chunk
				mu.Unlock()
				if lo >= n {
					return
				}
				hi := lo + chunk
				if hi > n {
					hi = n
				}
				f(lo, hi)
			}
		}()
	}
	wg.Wait()
}

func opsFor(g *graph, t *truth, full bool) []string {
	w := g.words()
	ops := []string{"check " + w}
	if full && len(g.keys) <= 12 {
		ops = append(ops, "entries "+w) // every validating entry point must give the same verdict
	}
	if full && len(g.keys) <= 6 {
		ops = append(ops, "aux "+w) // the remaining exported functions against direct oracles
	}
	if t.closed && t.acyclic {
		ops = append(ops, "map "+w, "layout "+w)
		if full {
			ops = append(ops, "revlayout "+w, "rev2 "+w)
		}
	} else if full {
		ops = append(ops, "rev2 "+w)
		if !t.closed {
			ops = append(ops, "map "+w, "rev "+w)
		}
	}
	return ops
}

// ---------------------------------------------------------------- termination probe

// A graph on which a cycle search that does not mark visited nodes needs 2^d
// queue entries: d layers of two nodes, consecutive layers completely
// connected, one edge back from the last layer to the first.
func blowupGraph(d int) *graph {
	g := &graph{adj: map[int][]int{}}
	for l := 0; l < d; l++ {
		for i := 0; i < 2; i++ {
			u := 2*l + i
			g.keys = append(g.keys, u)
			if l+1 < d {
				g.adj[u] = []int{2*l + 2, 2*l + 3}
			} else if i == 0 {
				g.adj[u] = []int{0}
			} else {
				g.adj[u] = nil
			}
		}
	}
	return g
}

// probeChild runs one check op in a child process under a watchdog, so that a
// search that explodes cannot take the harness down.
func (c *ctx) probeChild(op string, limit time.Duration) (string, bool) {
	exe, err := os.Executable()
	if err != nil {
		return "no-exe", true
	}
	cmd := exec.Command(exe)
	cmd.Env = append(os.Environ(), "C19_CHILD_OP="+op, "GOMEMLIMIT=1GiB")
	var out strings.Builder
	cmd.Stdout = &out
	if err := cmd.Start(); err != nil {
		return "no-start", true
	}
	done := make(chan error, 1)
	go func() { done <- cmd.Wait() }()
	select {
	case <-done:
		return strings.TrimSpace(out.String()), true
	case <-time.After(limit):
		cmd.Process.Kill()
		<-done
		return "", false
	}
}

const probeLimit = 10 * time.Second

// opProbe is CheckDAG in a child process: "ok | missing | circle k | timeout".
func (c *ctx) opProbe(line string) string {
	got, ok := "", false
	for try := 0; try < 3 && !ok; try++ { // a time-based failure is re-run before it is reported
		got, ok = c.probeChild(line, probeLimit)
	}
	if !ok {
		g, _ := parseGraph(strings.Fields(line)[1:])
		c.fail("cycle-search-explodes", fmt.Sprintf("CheckDAG did not answer within %v (three attempts) on a cyclic graph of %d nodes: "+
			"the cycle search does not mark visited nodes and enumerates every path", probeLimit, len(g.keys)), line)
		return "timeout"
	}
	return got
}

// ---------------------------------------------------------------- main

func main() {
	log.SetOutput(io.Discard)
	if op := os.Getenv("C19_CHILD_OP"); op != "" {
		g, ok := parseGraph(strings.Fields(op)[1:])
		if !ok {
			fmt.Println("bad-op")
			return
		}
		s, _ := classify(g.sc, dags.CheckDAG(g.dags()))
		fmt.Println(s)
		return
	}
	f := hx.ParseFlags()
	rep := hx.NewReport("C19", f)
	rep.Rule = "one case = one op line = one entry point (CheckDAG, NewMap, Layout, RevLayout, Graph.Reverse) on one graph; " +
		"distinct = distinct op line (graphs are labelled: node names, key order and adjacency order matter); " +
		"non-trivial = every op (each runs the layering, and the cycle search or closure/critical/layout code, on at least one node), " +
		"except the 5-node exhaustive sweep of the thorough tier, which is counted in evaluations only"
	c := &ctx{rep: rep, j: hx.NewJournal(f.Work), slowest: map[string]float64{}}
	defer func() {
		rep.Distribution["impl_and_oracle_cpu_s"] = float64(int(c.implS*10)) / 10
		rep.Distribution["driver_cpu_s"] = float64(int(c.driverS*10)) / 10
		rep.Distribution["slowest_impl_op_s"] = c.slowest
		rep.Write(f.Out)
	}()

	if f.Replay != "" {
		ops, err := hx.ReadReplayOps(f.Replay)
		if err != nil {
			fmt.Println("replay:", err)
			return
		}
		c.batch(f.Driver, ops, true)
		return
	}

	for _, ops := range hx.CorpusOps("C19") {
		c.batch(f.Driver, ops, true)
		rep.Count("corpus-file")
	}

	ge := &gen{r: hx.NewRand(f.Seed)}
	thorough := f.Thorough()
	phases := map[string]float64{}
	tPhase := time.Now()
	mark := func(name string) {
		phases[name] = float64(int(time.Since(tPhase).Seconds()*10)) / 10
		tPhase = time.Now()
	}
	rep.Distribution["phase_s"] = phases

	// 1. exhaustive: all digraphs on <= 3 nodes, each node optionally with an edge to a missing node
	{
		var ops []string
		for n := 0; n <= 3; n++ {
			for bits := uint64(0); bits < 1<<uint(n*n); bits++ {
				for dang := uint64(0); dang < 1<<uint(n); dang++ {
					g := fromMatrix(n, bits, dang)
					ops = append(ops, opsFor(g, analyse(g, false), true)...)
					rep.Count(fmt.Sprintf("exhaustive-n%d", n))
				}
			}
		}
		parallel(len(ops), 2000, func(lo, hi int) { c.batch(f.Driver, ops[lo:hi], true) })
	}
	mark("exhaustive<=3")
	// 2. exhaustive: all 65 536 digraphs on 4 nodes (self-loops included)
	parallel(1<<16, 2048, func(lo, hi int) {
		var ops []string
		for bits := lo; bits < hi; bits++ {
			g := fromMatrix(4, uint64(bits), 0)
			ops = append(ops, opsFor(g, analyse(g, false), true)...)
			c.count("exhaustive-n4")
		}
		c.batch(f.Driver, ops, true)
	})
	rep.Exhaustive = true
	mark("exhaustive-4")
	// 2b. the same 65 536 digraphs under each set of four names whose
	//     concatenations collide (CheckDAG and the reported cycle)
	for _, sid := range smallSchemes {
		sc := schemes[sid]
		parallel(1<<16, 4096, func(lo, hi int) {
			ops := make([]string, 0, hi-lo)
			for bits := lo; bits < hi; bits++ {
				g := fromMatrix(4, uint64(bits), 0)
				g.sc = sc
				ops = append(ops, "check "+g.words())
			}
			c.batch(f.Driver, ops, true)
		})
		rep.Count("exhaustive-n4-names:" + sid)
	}
	mark("exhaustive-4-colliding-names")
	// 2c. wide graphs at the widths where narrow counters wrap: a hub with k
	//     predecessors (or successors), plain, with spokes in deeper layers, and
	//     with a cycle through the hub.  Up to 512 against the model; 2^16 +- 1
	//     against the sparse oracle only.
	if !c.failed() {
		var ops []string
		for _, k := range []int{255, 256, 257, 300, 511, 512} {
			for _, fanIn := range []bool{true, false} {
				for v := 0; v < 3; v++ {
					w := wideGraph(k, fanIn, v, nil, nil).words()
					ops = append(ops, "check "+w)
					switch {
					case v == 2:
					case thorough || (fanIn && (k == 257 || k == 300)):
						ops = append(ops, "map "+w, "layout "+w)
					default:
						ops = append(ops, "bigmap "+w)
					}
					rep.Count("wide-deterministic")
				}
			}
		}
		for _, k := range []int{65535, 65536, 65537} {
			for v := 0; v < 3; v++ {
				w := wideGraph(k, true, v, nil, nil).words()
				if v == 2 {
					ops = append(ops, "bigcheck "+w)
				} else {
					ops = append(ops, "bigmap "+w)
				}
				ops = append(ops, "bigcheck "+wideGraph(k, false, v, nil, nil).words())
				rep.Count("wide-deterministic-2^16")
			}
		}
		parallel(len(ops), 1, func(lo, hi int) { c.batch(f.Driver, ops[lo:hi], true) })
	}
	mark("wide")
	// 3. exhaustive: all 29 281 DAGs on 5 nodes (map, layout); all digraphs on 5 nodes in the thorough tier
	{
		var dagsBits []uint64
		n := 5
		for m := uint64(0); m < 1<<20; m++ {
			// spread the 20 off-diagonal bits into a 5x5 matrix
			var rows [5]uint8
			var bits uint64
			k := uint(0)
			for i := 0; i < n; i++ {
				for j := 0; j < n; j++ {
					if i == j {
						continue
					}
					if m>>k&1 == 1 {
						rows[i] |= 1 << uint(j)
						bits |= 1 << uint(i*n+j)
					}
					k++
				}
			}
			if acyclicBits(n, rows[:]) {
				dagsBits = append(dagsBits, bits)
			}
		}
		parallel(len(dagsBits), 1024, func(lo, hi int) {
			var ops []string
			for _, b := range dagsBits[lo:hi] {
				g := fromMatrix(5, b, 0)
				w := g.words()
				ops = append(ops, "map "+w, "layout "+w)
				c.count("exhaustive-dag-n5")
			}
			c.batch(f.Driver, ops, true)
		})
		mark("dags-5")
		if thorough && c.failed() {
			rep.Note("oracle failures already found in the exhaustive small scopes; the 5-node sweep and the enlarged random run are skipped")
			thorough = false
		}
		if thorough {
			// every graph: implementation against the textbook oracle; every 16th
			// graph (phase chosen by the seed) also against the model.  Chunks not
			// started within the budget are skipped and reported.
			budget := 8 * time.Minute
			tStart := time.Now()
			phase := int(f.Seed % 16)
			var swMu sync.Mutex
			covered, skipped := 0, 0
			parallel(1<<25, 1<<14, func(lo, hi int) {
				if time.Since(tStart) > budget {
					swMu.Lock()
					skipped += hi - lo
					swMu.Unlock()
					return
				}
				var ops []string
				for bits := lo; bits < hi; bits++ {
					g := fromMatrix(5, uint64(bits), 0)
					line := "check " + g.words()
					if bits%16 == phase {
						ops = append(ops, line)
					} else {
						c.opCheckN(line, g, 1)
					}
				}
				c.batch(f.Driver, ops, false)
				swMu.Lock()
				covered += hi - lo
				swMu.Unlock()
				c.mu.Lock()
				c.rep.Evaluations += hi - lo - len(ops)
				c.mu.Unlock()
			})
			rep.Distribution["exhaustive_n5_digraphs_checked"] = covered
			rep.Distribution["exhaustive_n5_digraphs_with_model"] = covered / 16
			if skipped > 0 {
				rep.Note("5-node sweep: %d of %d digraphs not reached within %v (machine load); the rest was checked", skipped, 1<<25, budget)
			} else {
				rep.Count("exhaustive-n5-all-digraphs")
			}
		}
	}

	mark("exhaustive-5")
	// 4. random graphs; every choice from the one PRNG, generated before any parallel work
	type job struct {
		class string
		g     *graph
	}
	var jobs []job
	add := func(class string, g *graph) { jobs = append(jobs, job{class, g}) }
	scale := 1
	if thorough {
		scale = 6
	}
	for i := 0; i < 1500*scale; i++ { // small DAGs, all densities
		add("dag-small", ge.randomDAG(6+ge.r.Intn(7), 100+ge.r.Intn(800)))
	}
	for i := 0; i < 1500*scale; i++ { // small digraphs, mostly cyclic
		add("digraph-small", ge.randomDigraph(5+ge.r.Intn(6), 50+ge.r.Intn(400)))
	}
	for i := 0; i < 60*scale; i++ { // sparse DAGs to a few hundred nodes
		n := 20 + ge.r.Intn(281)
		add("dag-sparse", ge.randomDAG(n, 1+2000/n+ge.r.Intn(1+6000/n)))
	}
	for i := 0; i < 40*scale; i++ { // dense DAGs
		add("dag-dense", ge.randomDAG(10+ge.r.Intn(50), 300+ge.r.Intn(700)))
	}
	for i := 0; i < 60*scale; i++ { // layered DAGs: long critical edges, pushTight and the lanes at work
		w, d := 1+ge.r.Intn(6), 2+ge.r.Intn(12)
		add("dag-layered", ge.layeredDAG(w, d, 1+ge.r.Intn(3)))
	}
	for i := 0; i < 60*scale; i++ { // DAG plus a few random extra edges: usually one or two long cycles
		var g *graph
		if ge.r.Bool() {
			n := 10 + ge.r.Intn(190)
			g = ge.randomDAG(n, 1+1500/n+ge.r.Intn(1+3000/n))
		} else {
			g = ge.layeredDAG(1+ge.r.Intn(3), 2+ge.r.Intn(9), 1+ge.r.Intn(2))
		}
		ge.addBackEdges(g, 1+ge.r.Intn(3))
		add("dag-plus-back-edges", g)
	}
	for i := 0; i < 30*scale; i++ { // one long cycle with forward chords
		n := 3 + ge.r.Intn(298)
		add("ring", ge.ring(n, ge.r.Intn(4)))
	}
	for i := 0; i < 30*scale; i++ { // sparse and dense digraphs
		n := 10 + ge.r.Intn(291)
		add("digraph-sparse", ge.randomDigraph(n, 1+ge.r.Intn(1+1500/n)))
	}
	for i := 0; i < 10*scale; i++ {
		add("digraph-dense", ge.randomDigraph(10+ge.r.Intn(90), 200+ge.r.Intn(800)))
	}
	for i := 0; i < 40*scale; i++ { // dangling targets in larger graphs
		g := ge.randomDAG(5+ge.r.Intn(60), 100+ge.r.Intn(300))
		u := g.keys[ge.r.Intn(len(g.keys))]
		g.adj[u] = append(g.adj[u], 5000+ge.r.Intn(3))
		add("dangling", g)
	}
	// names whose concatenations collide: half of the small random graphs are renamed
	for i := range jobs {
		g := jobs[i].g
		if len(g.keys) <= 12 && (jobs[i].class == "dag-small" || jobs[i].class == "digraph-small") && ge.r.Bool() {
			jobs[i].g = ge.rename(g, schemes[hx.Pick(ge.r, []string{"d3", "l2"})])
			jobs[i].class += "-colliding-names"
		}
	}
	for i := 0; i < 2500*scale; i++ { // few edges: one or two cycles, so that one missed visit changes the answer
		g := ge.randomDigraph(4+ge.r.Intn(6), 60+ge.r.Intn(200))
		add("digraph-small-colliding-names", ge.rename(g, schemes[hx.Pick(ge.r, []string{"d3", "l2"})]))
	}
	// wide graphs: counters and sets with hundreds of entries per node
	for i := 0; i < 8*scale; i++ {
		k := 200 + ge.r.Intn(400)
		if ge.r.Intn(3) == 0 {
			k = hx.Pick(ge.r, []int{254, 255, 256, 257, 258, 511, 512, 513})
		}
		lab := ge.perm(k + 2)
		g := wideGraph(k, ge.r.Intn(4) != 0, ge.r.Intn(3), lab, ge.perm(k+2))
		for e := ge.r.Intn(4); e > 0; e-- { // a few more edges between spokes
			a, b := 1+ge.r.Intn(k), 1+ge.r.Intn(k)
			if a < b { // only from lower to higher spoke index: the variant stays (a)cyclic
				g.adj[lab[a]] = append(g.adj[lab[a]], lab[b])
			}
		}
		add("wide", g)
	}
	sizes := map[string]int{}
	for _, jb := range jobs {
		n := len(jb.g.keys)
		b := "n<=12"
		switch {
		case n > 200:
			b = "n>200"
		case n > 100:
			b = "n<=200"
		case n > 50:
			b = "n<=100"
		case n > 12:
			b = "n<=50"
		}
		sizes[b]++
		rep.Count("class:" + jb.class)
	}
	rep.Distribution["random_graph_sizes"] = sizes
	// large graphs one per batch (they dominate the run time), small ones in bulk
	var large, small []job
	for _, jb := range jobs {
		if len(jb.g.keys) > 40 {
			large = append(large, jb)
		} else {
			small = append(small, jb)
		}
	}
	sort.SliceStable(large, func(a, b int) bool { return len(large[a].g.keys) > len(large[b].g.keys) })
	randBudget := 60 * time.Second
	if thorough {
		randBudget = 10 * time.Minute
	}
	tRand := time.Now()
	skippedJobs := 0
	runJobs := func(js []job, chunk int) {
		parallel(len(js), chunk, func(lo, hi int) {
			if time.Since(tRand) > randBudget {
				c.mu.Lock()
				skippedJobs += hi - lo
				c.mu.Unlock()
				return
			}
			var ops []string
			for _, jb := range js[lo:hi] {
				ops = append(ops, opsFor(jb.g, analyse(jb.g, false), true)...)
			}
			c.batch(f.Driver, ops, true)
		})
	}
	runJobs(small, 64)
	runJobs(large, 1)
	if skippedJobs > 0 {
		rep.Note("%d of %d random graphs not reached within %v (machine load)", skippedJobs, len(jobs), randBudget)
	}

	mark("random")
	// 5. termination of the cycle search on graphs whose shortest cycle is long
	//    (run in a child process under a watchdog)
	for _, d := range []int{12, 28} {
		c.batch(f.Driver, []string{"probe " + blowupGraph(d).words()}, true)
		rep.Count("termination-probe")
	}
	mark("termination-probe")
	// minimise the witnesses of oracle failures found on larger graphs
	for i := range rep.OracleFailures {
		f := &rep.OracleFailures[i]
		if len(f.Ops) == 1 && len(strings.Fields(f.Ops[0])) > 6 {
			f.Ops[0] = shrink(f.Ops[0], f.Key, 8*time.Second)
		}
	}
	mark("shrink")
	c.j.Clear()
	for i := 0; i < len(jobs) && i < 2000; i += 211 {
		op := "check " + jobs[i].g.words()
		rep.Sample(map[string]string{"class": jobs[i].class, "op": clip(op), "impl": clip(c.runOp(op).out)})
	}
}
