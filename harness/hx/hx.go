// Package hx has what every property harness shares: one PRNG, the report
// written for ./check, the pipe to the Lean driver, and the differ.
package hx

import (
	"bufio"
	"bytes"
	"encoding/hex"
	"encoding/json"
	"flag"
	"fmt"
	"os"
	"os/exec"
	"sort"
	"strings"
	"time"
)

// Rand is SplitMix64; every random choice of a run derives from one state.
type Rand struct{ s uint64 }

func NewRand(seed uint64) *Rand {
	// scramble the seed so that consecutive seeds give unrelated streams
	z := seed + 0x632BE59BD9B4E019
	z = (z ^ (z >> 30)) * 0xBF58476D1CE4E5B9
	z = (z ^ (z >> 27)) * 0x94D049BB133111EB
	return &Rand{s: z ^ (z >> 31)}
}

func (r *Rand) U64() uint64 {
	r.s += 0x9E3779B97F4A7C15
	z := r.s
	z = (z ^ (z >> 30)) * 0xBF58476D1CE4E5B9
	z = (z ^ (z >> 27)) * 0x94D049BB133111EB
	return z ^ (z >> 31)
}

func (r *Rand) Intn(n int) int {
	if n <= 0 {
		return 0
	}
	return int(r.U64() % uint64(n))
}

func (r *Rand) Bool() bool { return r.U64()&1 == 1 }

func (r *Rand) Bytes(n int) []byte {
	b := make([]byte, n)
	for i := range b {
		b[i] = byte(r.U64())
	}
	return b
}

// Pick returns one of xs.
func Pick[T any](r *Rand, xs []T) T { return xs[r.Intn(len(xs))] }

// Hex is the line-protocol encoding of bytes ("-" for empty).
func Hex(b []byte) string {
	if len(b) == 0 {
		return "-"
	}
	return hex.EncodeToString(b)
}

func UnHex(s string) []byte {
	if s == "-" {
		return nil
	}
	b, _ := hex.DecodeString(s)
	return b
}

// Disagreement is one line on which model and implementation differ.
type Disagreement struct {
	Stream string `json:"stream"`
	Op     string `json:"op"`
	Impl   string `json:"impl"`
	Model  string `json:"model"`
}

// OracleFailure is a direct violation of the property observed on the
// implementation, independent of the model.
type OracleFailure struct {
	Key  string   `json:"key"` // canonical key matched against known_findings.txt
	Desc string   `json:"desc"`
	Ops  []string `json:"ops"`
}

// Report is what a harness hands to ./check.
type Report struct {
	Property           string                 `json:"property"`
	Seed               uint64                 `json:"seed"`
	Tier               string                 `json:"tier"`
	Evaluations        int                    `json:"evaluations"`
	DistinctNontrivial int                    `json:"distinct_nontrivial"`
	Rule               string                 `json:"rule"`
	Samples            []interface{}          `json:"samples"`
	Distribution       map[string]interface{} `json:"distribution"`
	TracesValidated    int                    `json:"traces_validated_against_impl"`
	Disagreements      []Disagreement         `json:"disagreements"`
	DisagreementCount  int                    `json:"disagreement_count"`
	OracleFailures     []OracleFailure        `json:"oracle_failures"`
	Notes              []string               `json:"notes"`
	ModelAvailable     bool                   `json:"model_available"`
	WallS              float64                `json:"wall_s"`
	Exhaustive         bool                   `json:"exhaustive"`

	// FailEvents counts every call of Fail (also repeated keys); harnesses use it to stop early.
	FailEvents int `json:"-"`

	start    time.Time
	distinct map[string]bool
	counts   map[string]int
	failKeys map[string]bool
}

// Flags common to all harnesses.
type Flags struct {
	Driver string
	Seed   uint64
	Tier   string
	Out    string
	Replay string
	Work   string
}

func ParseFlags() *Flags {
	f := new(Flags)
	flag.StringVar(&f.Driver, "driver", "", "path of the compiled Lean driver (empty: model unavailable)")
	flag.Uint64Var(&f.Seed, "seed", 1, "seed")
	flag.StringVar(&f.Tier, "tier", "quick", "quick|thorough")
	flag.StringVar(&f.Out, "out", "", "report path")
	flag.StringVar(&f.Replay, "replay", "", "replay file (ops to re-run)")
	flag.StringVar(&f.Work, "work", "", "private scratch directory")
	flag.Parse()
	return f
}

func (f *Flags) Thorough() bool { return f.Tier == "thorough" }

func NewReport(prop string, f *Flags) *Report {
	return &Report{
		Property: prop, Seed: f.Seed, Tier: f.Tier,
		Distribution:   map[string]interface{}{},
		ModelAvailable: f.Driver != "",
		start:          time.Now(),
		distinct:       map[string]bool{},
		counts:         map[string]int{},
		failKeys:       map[string]bool{},
	}
}

// Count bumps a named counter of the input distribution.
func (r *Report) Count(k string) { r.counts[k]++ }

// Case records one explored case; canon is its canonical form, nontrivial
// says whether it counts under the stated rule.
func (r *Report) Case(canon string, nontrivial bool) {
	r.Evaluations++
	if nontrivial && !r.distinct[canon] {
		r.distinct[canon] = true
	}
}

func (r *Report) Sample(x interface{}) {
	if len(r.Samples) < 12 {
		r.Samples = append(r.Samples, x)
	}
}

func (r *Report) Note(format string, a ...interface{}) {
	r.Notes = append(r.Notes, fmt.Sprintf(format, a...))
}

func (r *Report) Disagree(stream, op, impl, model string) {
	r.DisagreementCount++
	if len(r.Disagreements) < 50 {
		r.Disagreements = append(r.Disagreements, Disagreement{stream, op, impl, model})
	}
}

// Fail records an oracle failure once per key (keeping the shortest ops).
func (r *Report) Fail(key, desc string, ops []string) {
	r.FailEvents++
	if r.failKeys[key] {
		for i := range r.OracleFailures {
			if r.OracleFailures[i].Key == key && len(strings.Join(ops, "\n")) < len(strings.Join(r.OracleFailures[i].Ops, "\n")) {
				r.OracleFailures[i].Ops = ops
				r.OracleFailures[i].Desc = desc
			}
		}
		return
	}
	r.failKeys[key] = true
	r.OracleFailures = append(r.OracleFailures, OracleFailure{key, desc, ops})
}

func (r *Report) Write(path string) {
	r.DistinctNontrivial = len(r.distinct)
	keys := make([]string, 0, len(r.counts))
	for k := range r.counts {
		keys = append(keys, k)
	}
	sort.Strings(keys)
	cm := map[string]int{}
	for _, k := range keys {
		cm[k] = r.counts[k]
	}
	r.Distribution["counts"] = cm
	r.WallS = time.Since(r.start).Seconds()
	if r.Disagreements == nil {
		r.Disagreements = []Disagreement{}
	}
	if r.OracleFailures == nil {
		r.OracleFailures = []OracleFailure{}
	}
	if r.Notes == nil {
		r.Notes = []string{}
	}
	if r.Samples == nil {
		r.Samples = []interface{}{}
	}
	bs, _ := json.MarshalIndent(r, "", " ")
	if path == "" {
		os.Stdout.Write(bs)
		return
	}
	if err := os.WriteFile(path, bs, 0o644); err != nil {
		fmt.Fprintln(os.Stderr, "write report:", err)
		os.Exit(3)
	}
}

// RunDriver pipes lines through the Lean driver and returns one output line
// per input line.  An empty driver path yields nil (model unavailable).
func RunDriver(driver string, args []string, lines []string) ([]string, error) {
	if driver == "" {
		return nil, nil
	}
	cmd := exec.Command(driver, args...)
	var in bytes.Buffer
	for _, l := range lines {
		in.WriteString(l)
		in.WriteByte('\n')
	}
	cmd.Stdin = &in
	var out, errb bytes.Buffer
	cmd.Stdout = &out
	cmd.Stderr = &errb
	if err := cmd.Run(); err != nil {
		return nil, fmt.Errorf("driver: %v: %s", err, errb.String())
	}
	var res []string
	sc := bufio.NewScanner(&out)
	sc.Buffer(make([]byte, 1<<20), 1<<28)
	for sc.Scan() {
		res = append(res, sc.Text())
	}
	if len(res) != len(lines) {
		return res, fmt.Errorf("driver answered %d lines for %d ops", len(res), len(lines))
	}
	return res, nil
}

// Diff compares implementation and model line by line.
func (r *Report) Diff(stream string, ops, impl, model []string) {
	if model == nil {
		return
	}
	for i := range ops {
		if i >= len(model) || i >= len(impl) {
			break
		}
		if impl[i] != model[i] {
			r.Disagree(stream, ops[i], impl[i], model[i])
		}
	}
	r.TracesValidated += len(ops)
}

// Journal remembers the operation in flight so that a crash of the harness
// process itself can be attributed.
type Journal struct{ path string }

func NewJournal(work string) *Journal {
	if work == "" {
		return &Journal{}
	}
	return &Journal{path: work + "/journal"}
}

func (j *Journal) Risky(op string) {
	if j.path != "" {
		os.WriteFile(j.path, []byte(op), 0o644)
	}
}

func (j *Journal) Clear() {
	if j.path != "" {
		os.Remove(j.path)
	}
}

// ReadReplayOps loads the ops of a replay file.
func ReadReplayOps(path string) ([]string, error) {
	bs, err := os.ReadFile(path)
	if err != nil {
		return nil, err
	}
	var v struct {
		Ops []string `json:"ops"`
	}
	if err := json.Unmarshal(bs, &v); err != nil {
		return nil, err
	}
	return v.Ops, nil
}

// CorpusOps loads /verif/corpus/<ID>/*.ops (one op per line, '#' comments),
// sorted by file name.  Minimised past failures run first on every run.
func CorpusOps(id string) [][]string {
	dir := os.Getenv("VERIF_DIR")
	if dir == "" {
		dir = "/verif"
	}
	ents, err := os.ReadDir(dir + "/corpus/" + id)
	if err != nil {
		return nil
	}
	var out [][]string
	for _, e := range ents {
		if !strings.HasSuffix(e.Name(), ".ops") {
			continue
		}
		bs, err := os.ReadFile(dir + "/corpus/" + id + "/" + e.Name())
		if err != nil {
			continue
		}
		var ops []string
		for _, l := range strings.Split(string(bs), "\n") {
			l = strings.TrimSpace(l)
			if l != "" && !strings.HasPrefix(l, "#") {
				ops = append(ops, l)
			}
		}
		out = append(out, ops)
	}
	return out
}

// WithTimeout runs fn in a goroutine and reports whether it returned within d.
// A function that never returns leaks its goroutine; use it for observations
// ("did not return"), not for clean-up.
func WithTimeout(d time.Duration, fn func()) bool {
	done := make(chan struct{})
	go func() {
		defer close(done)
		fn()
	}()
	select {
	case <-done:
		return true
	case <-time.After(d):
		return false
	}
}

// RepoDir is the repository under test (for harnesses that need source files).
func RepoDir() string {
	if d := os.Getenv("VERIF_REPO"); d != "" {
		return d
	}
	return "/repo"
}

// Perm returns a pseudo-random permutation of 0..n-1.
func (r *Rand) Perm(n int) []int {
	p := make([]int, n)
	for i := range p {
		p[i] = i
	}
	for i := n - 1; i > 0; i-- {
		j := r.Intn(i + 1)
		p[i], p[j] = p[j], p[i]
	}
	return p
}
