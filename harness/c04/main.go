// Harness for C04: loss or shutdown of an endpoint never strands a caller.
//
// Part 1 forces the race windows of the transport with the verif schedule
// points (park a goroutine at a named point, cut the connection, let the serve
// loop exit, release) and checks with a watchdog that every caller and the
// reader return; the same event sequences run on the Lean model, whose
// quiescent states are compared.  Part 2 tears down a whole proxy (server,
// endpoint, multiplexed front connections) at different moments and checks
// that front clients see the end of their streams, the name is unregistered,
// ServeFront returns after cancel, Accept/Close return on the endpoint side
// and no sniproxy goroutine is left.
package main

import (
	"context"
	"fmt"
	"io"
	"log"
	"net"
	"net/http"
	"net/http/httptest"
	"runtime"
	"sort"
	"strings"
	"sync"
	"time"

	"github.com/gorilla/websocket"
	"shanhu.io/g/aries"
	"shanhu.io/g/sniproxy"
	"verif/harness/hx"
	"verif/harness/snix"
)

const watchdog = 6 * time.Second
const queueCap = 128 // capacity of transport.calls (the model takes it from the regenerated facts)

// sched parks goroutines at schedule points.
type sched struct {
	mu      sync.Mutex
	parks   map[string]chan struct{} // key -> release channel
	reached map[string]chan struct{}
	seen    map[string]int
	seenCh  chan string
}

func newSched() *sched {
	s := &sched{parks: map[string]chan struct{}{}, reached: map[string]chan struct{}{}, seen: map[string]int{}, seenCh: make(chan string, 4096)}
	sniproxy.VerifSetHook(s.hook)
	return s
}

func (s *sched) stop() { sniproxy.VerifSetHook(nil); s.releaseAll() }

func key(ev sniproxy.VerifEvent) []string {
	return []string{ev.Point, ev.Point + "/" + ev.Tag}
}

func (s *sched) hook(ev sniproxy.VerifEvent) {
	s.mu.Lock()
	var rel chan struct{}
	for _, k := range key(ev) {
		s.seen[k]++
		if c, ok := s.parks[k]; ok {
			rel = c
			if r, ok := s.reached[k]; ok {
				select {
				case <-r:
				default:
					close(r)
				}
			}
			break
		}
	}
	s.mu.Unlock()
	select {
	case s.seenCh <- ev.Point + "/" + ev.Tag:
	default:
	}
	if rel != nil {
		<-rel
	}
}

// park arranges that goroutines reaching key block until release(key).
func (s *sched) park(k string) {
	s.mu.Lock()
	defer s.mu.Unlock()
	s.parks[k] = make(chan struct{})
	s.reached[k] = make(chan struct{})
}

func (s *sched) waitReached(k string, d time.Duration) bool {
	s.mu.Lock()
	r := s.reached[k]
	s.mu.Unlock()
	select {
	case <-r:
		return true
	case <-time.After(d):
		return false
	}
}

func (s *sched) release(k string) {
	s.mu.Lock()
	defer s.mu.Unlock()
	if c, ok := s.parks[k]; ok {
		close(c)
		delete(s.parks, k)
	}
}

func (s *sched) releaseAll() {
	s.mu.Lock()
	defer s.mu.Unlock()
	for k, c := range s.parks {
		close(c)
		delete(s.parks, k)
	}
}

func (s *sched) waitSeen(k string, n int, d time.Duration) bool {
	deadline := time.Now().Add(d)
	for time.Now().Before(deadline) {
		s.mu.Lock()
		c := s.seen[k]
		s.mu.Unlock()
		if c >= n {
			return true
		}
		time.Sleep(time.Millisecond)
	}
	return false
}

// transportGoroutines counts goroutines inside the transport / tunnel code.
func sniGoroutines(filter string) (int, string) {
	buf := make([]byte, 1<<22)
	n := runtime.Stack(buf, true)
	cnt := 0
	var first string
	for _, g := range strings.Split(string(buf[:n]), "\n\n") {
		if strings.Contains(g, filter) && !strings.Contains(g, "harness/c04") {
			cnt++
			if first == "" {
				first = g
			}
		}
	}
	return cnt, first
}

type caller struct {
	kind   string // hello | read | write | close
	result string
}

// startCaller launches one blocking operation and records how it ended.
func startCaller(p *snix.Peer, i int, kind string, results []string, wg *sync.WaitGroup, mu *sync.Mutex) {
	wg.Add(1)
	go func() {
		defer wg.Done()
		var err error
		switch kind {
		case "hello":
			_, err = p.Client.Hello(context.Background(), fmt.Sprintf("tag%d", i))
		case "read":
			_, err = p.Client.Tunnel(uint64(100 + i)).Read(make([]byte, 16))
		case "write":
			_, err = p.Client.Tunnel(uint64(100 + i)).Write([]byte("x"))
		case "close":
			err = p.Client.Tunnel(uint64(100 + i)).Close()
		}
		mu.Lock()
		if err == nil {
			results[i] = "ok"
		} else {
			results[i] = snix.ErrClass(err)
		}
		mu.Unlock()
	}()
}

func tagOf(i int, kind string) string {
	switch kind {
	case "hello":
		return fmt.Sprintf("h:tag%d", i)
	case "read":
		return fmt.Sprintf("r:%d", 100+i)
	case "write":
		return fmt.Sprintf("w:%d:1", 100+i)
	default:
		return fmt.Sprintf("c:%d", 100+i)
	}
}

func typOf(kind string) int {
	switch kind {
	case "hello":
		return 1
	case "read":
		return 4
	case "write":
		return 3
	default:
		return 6
	}
}

// raceScenario: see the scenario names in genRace.
type raceScenario struct {
	name    string
	pending int      // callers already sent and unanswered at the fault
	late    []string // kinds of the callers that race with the serve loop's exit
}

func (r raceScenario) canon() string {
	return fmt.Sprintf("%s pending=%d late=%s", r.name, r.pending, strings.Join(r.late, ","))
}

func (r raceScenario) ops() []string { return []string{"race " + r.canon()} }

func parseRace(op string) (raceScenario, bool) {
	ws := strings.Fields(op)
	if len(ws) != 4 || ws[0] != "race" {
		return raceScenario{}, false
	}
	var r raceScenario
	r.name = ws[1]
	fmt.Sscanf(ws[2], "pending=%d", &r.pending)
	l := strings.TrimPrefix(ws[3], "late=")
	if l != "" {
		r.late = strings.Split(l, ",")
	}
	return r, true
}

// runRace returns (results, model lines, goroutine-leak description, skipped)
func runRace(sc raceScenario) (res []string, model []string, leak string, skipped string) {
	s := newSched()
	defer s.stop()
	p, err := snix.NewPeer()
	if err != nil {
		return nil, nil, "", "peer: " + err.Error()
	}
	closed := false
	defer func() {
		if !closed {
			p.Close(5 * time.Second)
		}
	}()
	n := sc.pending + len(sc.late)
	results := make([]string, n)
	for i := range results {
		results[i] = "stuck"
	}
	kinds := make([]string, n)
	var mu sync.Mutex
	var wg sync.WaitGroup
	typs := []string{}
	for i := 0; i < n; i++ {
		if i < sc.pending {
			kinds[i] = []string{"hello", "read", "write", "close"}[i%4]
		} else {
			kinds[i] = sc.late[i-sc.pending]
		}
		typs = append(typs, fmt.Sprint(typOf(kinds[i])))
	}
	model = append(model, "init typ="+strings.Join(typs, ","))
	// phase 1: pending callers are sent and stay unanswered
	for i := 0; i < sc.pending; i++ {
		startCaller(p, i, kinds[i], results, &wg, &mu)
		if _, ok := p.NextReq(10 * time.Second); !ok {
			return nil, nil, "", "pending request did not arrive"
		}
		model = append(model, fmt.Sprintf("ev check %d", i), fmt.Sprintf("ev enqueue %d", i), "ev take")
	}
	late := func(i int) string { return tagOf(i, kinds[i]) }
	switch sc.name {
	case "enqueue-after-exit":
		// late callers pass the shutdown check, then the loop exits, then they enqueue
		for i := sc.pending; i < n; i++ {
			s.park("caller.checked/" + late(i))
			startCaller(p, i, kinds[i], results, &wg, &mu)
			if !s.waitReached("caller.checked/"+late(i), 10*time.Second) {
				return nil, nil, "", "late caller did not reach its schedule point"
			}
			model = append(model, fmt.Sprintf("ev check %d", i))
		}
		p.Sever()
		if !s.waitSeen("serve.done", 1, 10*time.Second) {
			return nil, nil, "", "serve loop did not exit after the cut"
		}
		model = append(model, "ev sever", "ev readerdie", "ev readerr", "ev exit")
		for i := sc.pending; i < n; i++ {
			s.release("caller.checked/" + late(i))
		}
		model = append(model, "quiesce")
	case "left-in-queue":
		// the loop has chosen its read-error arm; callers enqueue before it runs its exit
		s.park("serve.read-err")
		p.Sever()
		if !s.waitReached("serve.read-err", 10*time.Second) {
			return nil, nil, "", "serve loop did not reach its read-error arm"
		}
		model = append(model, "ev sever", "ev readerdie", "ev readerr")
		for i := sc.pending; i < n; i++ {
			startCaller(p, i, kinds[i], results, &wg, &mu)
			if !s.waitSeen("caller.queued/"+late(i), 1, 10*time.Second) {
				return nil, nil, "", "late caller did not enqueue"
			}
			model = append(model, fmt.Sprintf("ev check %d", i), fmt.Sprintf("ev enqueue %d", i))
		}
		s.release("serve.read-err")
		model = append(model, "ev exit", "quiesce")
	case "mistyped-then-cut":
		// every pending call gets a reply of the wrong type, then the connection is cut
		for i := 0; i < sc.pending; i++ {
			f := snix.ReplyFrame(uint64(i), uint8(typOf(kinds[i])+1), 0, snix.StrBody("x"))
			p.Send(f)
			model = append(model, "reply cap=16 "+hx.Hex(f))
		}
		if !s.waitSeen("reader.fetch-got", sc.pending, 10*time.Second) {
			return nil, nil, "", "replies not consumed"
		}
		time.Sleep(5 * time.Millisecond)
		p.Sever()
		model = append(model, "ev sever")
		if !s.waitSeen("serve.done", 1, 10*time.Second) {
			return nil, nil, "", "serve loop did not exit after the cut"
		}
		for i := sc.pending; i < n; i++ {
			startCaller(p, i, kinds[i], results, &wg, &mu)
		}
		model = append(model, "quiesce") // late callers start (check) and are refused in the model's run too
	case "reader-blocked-on-fetch":
		// a reply is in the reader's hands when the loop exits on a failed write
		if sc.pending == 0 {
			return nil, nil, "", "needs a pending call"
		}
		s.park("reader.frame")
		f := snix.ReplyFrame(0, uint8(typOf(kinds[0])), 0, snix.StrBody("late"))
		p.Send(f)
		if !s.waitReached("reader.frame", 10*time.Second) {
			return nil, nil, "", "reader did not reach its schedule point"
		}
		p.CConn.SetWriteDeadline(time.Now().Add(-time.Second))
		i := sc.pending
		if len(sc.late) == 0 {
			return nil, nil, "", "needs a late caller"
		}
		startCaller(p, i, kinds[i], results, &wg, &mu)
		if !s.waitSeen("serve.done", 1, 10*time.Second) {
			return nil, nil, "", "serve loop did not exit on the failed write"
		}
		model = append(model, fmt.Sprintf("ev check %d", i), fmt.Sprintf("ev enqueue %d", i), "ev sendfail", "ev exit")
		// the model's frame arrives now (the reader was parked before its fetch)
		model = append(model, fmt.Sprintf("ev frame 0 %d 1", typOf(kinds[0])))
		s.release("reader.frame")
		for k := sc.pending + 1; k < n; k++ {
			startCaller(p, k, kinds[k], results, &wg, &mu)
			model = append(model, fmt.Sprintf("ev check %d", k))
		}
		model = append(model, "ev sever", "quiesce")
		time.Sleep(20 * time.Millisecond)
		p.Sever()
	case "queue-full":
		// the serve loop is busy answering a fetch while callers fill the 128-slot queue;
		// further callers block in asyncCall's enqueue; then the loop exits on a failed write
		s.park("serve.fetch")
		f := snix.ReplyFrame(1<<50, 1, 0, snix.StrBody("nobody"))
		p.Send(f)
		if !s.waitReached("serve.fetch", 10*time.Second) {
			return nil, nil, "", "serve loop did not reach its fetch arm"
		}
		model = append(model, fmt.Sprintf("ev frame %d 1 1", uint64(1)<<50))
		for i := sc.pending; i < n; i++ {
			startCaller(p, i, kinds[i], results, &wg, &mu)
			if i-sc.pending < queueCap {
				if !s.waitSeen("caller.queued/"+late(i), 1, 10*time.Second) {
					return nil, nil, "", "caller did not enqueue"
				}
				model = append(model, fmt.Sprintf("ev check %d", i), fmt.Sprintf("ev enqueue %d", i))
			} else {
				if !s.waitSeen("caller.checked/"+late(i), 1, 10*time.Second) {
					return nil, nil, "", "caller did not reach enqueue"
				}
				model = append(model, fmt.Sprintf("ev check %d", i))
			}
		}
		time.Sleep(10 * time.Millisecond) // let the overflow callers block in the enqueue select
		p.CConn.SetWriteDeadline(time.Now().Add(-time.Second))
		s.release("serve.fetch")
		if !s.waitSeen("serve.done", 1, 10*time.Second) {
			return nil, nil, "", "serve loop did not exit on the failed write"
		}
		model = append(model, "ev fetch", "ev sendfail", "ev exit", "ev sever", "quiesce")
		p.Sever()
	case "graceful-close":
		// ServeBackName's deferred Close (shutdown call) with an unresponsive peer
		go p.Client.Close()
		for i := sc.pending; i < n; i++ {
			startCaller(p, i, kinds[i], results, &wg, &mu)
		}
		// endpointClient.Close waits at most 3 s, then closes the connection
		model = nil // timing-dependent interleaving: oracle only
	default:
		return nil, nil, "", "unknown scenario"
	}
	ok := hx.WithTimeout(watchdog, wg.Wait)
	if !ok {
		ok = hx.WithTimeout(watchdog, wg.Wait)
	}
	mu.Lock()
	res = append([]string{}, results...)
	mu.Unlock()
	s.releaseAll()
	closed = true
	if !p.Close(watchdog) {
		leak = "serve loop / peer reader still running after both ends were closed"
	}
	// goroutines of the transport must be gone
	deadline := time.Now().Add(watchdog)
	for {
		c, first := sniGoroutines("sniproxy.(*transport)")
		if c == 0 {
			break
		}
		if time.Now().After(deadline) {
			head := strings.Split(first, "\n")
			if len(head) > 8 {
				head = head[:8]
			}
			leak = fmt.Sprintf("%d goroutine(s) still inside the transport %v after teardown: %s", c, watchdog, strings.Join(head, " | "))
			break
		}
		time.Sleep(10 * time.Millisecond)
	}
	if model != nil {
		model = append(model, "summary")
	}
	return res, model, leak, ""
}

func genRace(r *hx.Rand) raceScenario {
	names := []string{"enqueue-after-exit", "left-in-queue", "mistyped-then-cut", "reader-blocked-on-fetch", "graceful-close", "queue-full"}
	sc := raceScenario{name: hx.Pick(r, names), pending: r.Intn(4)}
	if sc.name == "queue-full" {
		sc.pending = 0
		k := queueCap + 1 + r.Intn(3)
		for i := 0; i < k; i++ {
			sc.late = append(sc.late, hx.Pick(r, []string{"hello", "read", "write", "close"}))
		}
		return sc
	}
	nl := r.Intn(4)
	if sc.name == "enqueue-after-exit" || sc.name == "left-in-queue" || sc.name == "reader-blocked-on-fetch" {
		nl = 1 + r.Intn(3)
	}
	if sc.name == "reader-blocked-on-fetch" && sc.pending == 0 {
		sc.pending = 1
	}
	if sc.name == "mistyped-then-cut" && sc.pending == 0 {
		sc.pending = 1 + r.Intn(3)
	}
	for i := 0; i < nl; i++ {
		sc.late = append(sc.late, hx.Pick(r, []string{"hello", "read", "write", "close"}))
	}
	return sc
}

// ---- part 2: whole-proxy teardown ----

type proxyScenario struct {
	fault   string // sever | kick | endpoint-close | cancel
	tunnels int
	mode    string // legacy | siding
}

func (p proxyScenario) canon() string {
	return fmt.Sprintf("proxy fault=%s tunnels=%d mode=%s", p.fault, p.tunnels, p.mode)
}

func parseProxy(op string) (proxyScenario, bool) {
	ws := strings.Fields(op)
	if len(ws) != 4 || ws[0] != "proxy" {
		return proxyScenario{}, false
	}
	var p proxyScenario
	p.fault = strings.TrimPrefix(ws[1], "fault=")
	fmt.Sscanf(ws[2], "tunnels=%d", &p.tunnels)
	p.mode = strings.TrimPrefix(ws[3], "mode=")
	return p, true
}

type trackDialer struct {
	mu    sync.Mutex
	conns []net.Conn
}

func (t *trackDialer) dial(ctx context.Context, network, addr string) (net.Conn, error) {
	var d net.Dialer
	c, err := d.DialContext(ctx, network, addr)
	if err == nil {
		t.mu.Lock()
		t.conns = append(t.conns, c)
		t.mu.Unlock()
	}
	return c, err
}

func (t *trackDialer) severFirst() {
	t.mu.Lock()
	defer t.mu.Unlock()
	if len(t.conns) > 0 {
		if tc, ok := t.conns[0].(*net.TCPConn); ok {
			tc.SetLinger(0)
		}
		t.conns[0].Close()
	}
}

// runSideOrphan (side modes): the endpoint answers a side dial with success but the side connection never
// arrives (its handshake went to a newer endpoint under the same name, or the peer deviates); then the control
// connection is lost.  The dial was in flight and depended on that endpoint: it must return.
func runSideOrphan(sc proxyScenario) (problems []string, skipped string) {
	p, err := snix.NewPeerOpt(&sniproxy.Options{Siding: true, DialWithAddr: sc.mode == "siding-addr"})
	if err != nil {
		return nil, "peer: " + err.Error()
	}
	defer p.Close(5 * time.Second)
	n := sc.tunnels + 1
	done := make(chan error, n)
	for i := 0; i < n; i++ {
		go func() {
			c, err := p.Client.Dial(context.Background(), "192.0.2.9:1000") // the serving context is not cancelled
			if err == nil {
				c.Close()
			}
			done <- err
		}()
	}
	for i := 0; i < n; i++ {
		r, ok := p.NextReq(5 * time.Second)
		if !ok {
			return nil, "dial request not received"
		}
		// dialResponse{session, nil}: "the side connection is established" — it is not
		p.Send(snix.ReplyFrame(r.ID, r.Typ, 0, append(snix.U64(uint64(i+1)), snix.U64(0)...)))
	}
	time.Sleep(100 * time.Millisecond)
	p.Sever()
	for i := 0; i < n; i++ {
		select {
		case <-done:
		case <-time.After(watchdog + 6*time.Second):
			problems = append(problems, fmt.Sprintf("a dial through the endpoint (answered, side connection never delivered) still blocked %v after the control connection was lost", watchdog+6*time.Second))
			return problems, ""
		}
	}
	return problems, ""
}

// runSideHandshakeHung (side mode, endpoint with its own websocket dialer): the proxy asks for a side connection,
// never answers the endpoint's side handshake, and then drops the control connection.  Accept must return.
func runSideHandshakeHung(sc proxyScenario) (problems []string, skipped string) {
	fp, err := snix.NewFakeProxyOpt(&sniproxy.Options{Siding: true, DialWithAddr: true}, true)
	if err != nil {
		return nil, "fake proxy: " + err.Error()
	}
	defer fp.Close()
	acceptReturned := make(chan error, 1)
	go func() {
		for {
			c, err := fp.EP.Accept()
			if err != nil {
				acceptReturned <- err
				return
			}
			c.Close()
		}
	}()
	for i := 0; i <= sc.tunnels; i++ {
		// dialSide2Request{session, key, token, tcpAddr}
		body := append(append(snix.U64(uint64(i)), snix.U64(77)...), append(snix.StrBody("tok"), snix.StrBody("192.0.2.1:9")...)...)
		fp.Request(uint64(i+1), 9, body)
	}
	time.Sleep(200 * time.Millisecond)
	fp.Conn.UnderlyingConn().Close()
	select {
	case <-acceptReturned:
	case <-time.After(watchdog + 12*time.Second): // the side dial has its own 5 s bound
		problems = append(problems, "Endpoint.Accept did not return after the proxy left a side handshake unanswered and dropped the control connection")
	}
	return problems, ""
}

// runEpFault: a real endpoint with open sessions (an application blocked reading each, a read request
// outstanding on each) gets something it cannot serve from the proxy side, or loses the connection.
func runEpFault(sc proxyScenario) (problems []string, skipped string) {
	base, _ := sniGoroutines("shanhu.io/g/sniproxy")
	fp, err := snix.NewFakeProxy()
	if err != nil {
		return nil, "fake proxy: " + err.Error()
	}
	defer fp.Close()
	n := sc.tunnels + 1
	type appConn struct {
		c    net.Conn
		done chan struct{}
	}
	var amu sync.Mutex
	var apps []*appConn
	acceptReturned := make(chan error, 1)
	go func() {
		for {
			c, err := fp.EP.Accept()
			if err != nil {
				acceptReturned <- err
				return
			}
			a := &appConn{c: c, done: make(chan struct{})}
			amu.Lock()
			apps = append(apps, a)
			amu.Unlock()
			go func() { io.Copy(io.Discard, a.c); close(a.done) }()
		}
	}()
	for i := 0; i < n; i++ {
		if err := fp.Request(uint64(i+1), 2, nil); err != nil { // msgDial
			return nil, "dial request: " + err.Error()
		}
		r, ok := fp.NextReply(5 * time.Second)
		if !ok || len(r) < 18 {
			return nil, "no dial reply"
		}
		session := r[10:18]
		// a read request that stays outstanding (the application writes nothing)
		fp.Request(uint64(100+i), 4, append(append([]byte{}, session...), snix.U64(1024)...))
	}
	time.Sleep(50 * time.Millisecond)
	closedByHarness := false
	switch sc.fault {
	case "epfault-silent":
		// the proxy side does not react to anything: Close gives up waiting after its 5 s and must still
		// take everything down
		closedByHarness = true
		if !hx.WithTimeout(watchdog+12*time.Second, func() { fp.EP.Close() }) {
			problems = append(problems, "Endpoint.Close did not return after "+sc.fault)
		}
	case "epfault-text":
		fp.Conn.WriteMessage(websocket.TextMessage, []byte("not a frame"))
	case "epfault-short":
		fp.Conn.WriteMessage(websocket.BinaryMessage, []byte{1, 2, 3})
	case "epfault-cut":
		fp.Conn.UnderlyingConn().Close()
	}
	amu.Lock()
	as := append([]*appConn{}, apps...)
	amu.Unlock()
	if len(as) != n {
		return nil, fmt.Sprintf("only %d of %d sessions were accepted", len(as), n)
	}
	for i, a := range as {
		select {
		case <-a.done:
		case <-time.After(watchdog + 6*time.Second):
			problems = append(problems, fmt.Sprintf("read on accepted connection %d still blocked 12 s after the endpoint's serve loop ended (%s)", i, sc.fault))
		}
	}
	select {
	case <-acceptReturned:
	case <-time.After(watchdog + 6*time.Second):
		problems = append(problems, "Endpoint.Accept did not return after "+sc.fault)
	}
	if !closedByHarness && !hx.WithTimeout(watchdog+6*time.Second, func() { fp.EP.Close() }) {
		problems = append(problems, "Endpoint.Close did not return after "+sc.fault)
	}
	for _, a := range as {
		a.c.Close()
	}
	fp.Close()
	deadline := time.Now().Add(watchdog + 6*time.Second)
	for {
		cnt, first := sniGoroutines("shanhu.io/g/sniproxy")
		if cnt <= base {
			break
		}
		if time.Now().After(deadline) {
			head := strings.Split(first, "\n")
			if len(head) > 10 {
				head = head[:10]
			}
			problems = append(problems, fmt.Sprintf("%d sniproxy goroutine(s) left after teardown: %s", cnt-base, strings.Join(head, " | ")))
			break
		}
		time.Sleep(20 * time.Millisecond)
	}
	return problems, ""
}

func runProxy(sc proxyScenario) (problems []string, skipped string) {
	if sc.fault == "side-handshake-hung" {
		if sc.mode == "legacy" {
			return nil, "side dials exist in the side modes only"
		}
		return runSideHandshakeHung(sc)
	}
	if sc.fault == "side-dial-orphaned" {
		if sc.mode == "legacy" {
			return nil, "side dials exist in the side modes only"
		}
		return runSideOrphan(sc)
	}
	if strings.HasPrefix(sc.fault, "epfault-") {
		if sc.mode != "legacy" {
			return nil, "epfault scenarios use the multiplexed (legacy) mode"
		}
		return runEpFault(sc)
	}
	base, _ := sniGoroutines("shanhu.io/g/sniproxy")
	opt := &sniproxy.Options{Siding: sc.mode != "legacy", DialWithAddr: sc.mode == "siding-addr"}
	var cbMu sync.Mutex
	connects, disconnects := 0, 0
	srv := sniproxy.NewServer(&sniproxy.ServerConfig{
		Lookup: func(domain string) (*sniproxy.Dest, error) {
			if domain == "a.test" {
				return &sniproxy.Dest{Name: "epA"}, nil
			}
			return nil, fmt.Errorf("unknown")
		},
		OnConnect:    func(string) int64 { cbMu.Lock(); connects++; cbMu.Unlock(); return 7 },
		OnDisconnect: func(string, int64) { cbMu.Lock(); disconnects++; cbMu.Unlock() },
	})
	ts := httptest.NewServer(aries.Func(func(c *aries.C) error {
		c.User = "epA"
		return srv.ServeBack(c)
	}))
	defer ts.Close()
	lis, err := net.Listen("tcp", "127.0.0.1:0")
	if err != nil {
		return nil, "listen: " + err.Error()
	}
	ctx, cancel := context.WithCancel(context.Background())
	defer cancel()
	frontDone := make(chan struct{})
	go func() { srv.ServeFront(ctx, lis); close(frontDone) }()

	td := &trackDialer{}
	dialEP := func() (*sniproxy.Endpoint, error) {
		return sniproxy.Dial(ctx, &sniproxy.StaticRouter{Host: ts.Listener.Addr().String()},
			&sniproxy.DialOption{WithoutTLS: true, TunnelOptions: opt,
				Dialer: &websocket.Dialer{NetDialContext: td.dial, ReadBufferSize: 64 << 10, WriteBufferSize: 64 << 10}})
	}
	var hung *websocket.Conn // fault "kick-hung": the first endpoint is a peer that never answers
	hungClosed := make(chan struct{})
	// the scripted peer writes from its reader goroutine (acknowledgements) and from the scenario; a websocket
	// connection takes one writer at a time
	var hungMu sync.Mutex
	hungWrite := func(bs []byte) {
		hungMu.Lock()
		defer hungMu.Unlock()
		hung.WriteMessage(websocket.BinaryMessage, bs)
	}
	if sc.fault == "kick-hung" || sc.fault == "kick-hung-hinted" || sc.fault == "graceful-silent" || sc.fault == "fatal-frame" {
		u := "ws" + strings.TrimPrefix(ts.URL, "http") + "/"
		hung, _, err = websocket.DefaultDialer.Dial(u, nil)
		if err != nil {
			return nil, "dial hung endpoint: " + err.Error()
		}
		go func() {
			for {
				_, bs, err := hung.ReadMessage()
				if err != nil {
					close(hungClosed)
					return
				}
				if sc.fault == "graceful-silent" && len(bs) >= 9 && bs[8] == 0 {
					// it acknowledges the shutdown call — and then stays connected and silent
					hungWrite(append(append([]byte{}, bs[:8]...), 0, 0))
				}
			}
		}()
		for i := 0; srv.VerifEndpointPtr("epA") == 0; i++ {
			if i > 2000 {
				return nil, "hung endpoint never registered"
			}
			time.Sleep(time.Millisecond)
		}
		if sc.fault == "kick-hung-hinted" {
			// the peer announces that it wants to stop (shutdown hint) and then goes silent: the proxy's own
			// graceful shutdown is already under way, and never completes, when the newer endpoint arrives
			hungWrite(append(snix.U64(0), 7, 0))
			time.Sleep(100 * time.Millisecond)
		}
		hello := snix.ClientHello("a.test")
		var fronts []net.Conn
		for i := 0; i < sc.tunnels+1; i++ {
			c, err := net.Dial("tcp", lis.Addr().String())
			if err != nil {
				return nil, "front dial: " + err.Error()
			}
			c.Write(hello) // the proxy's Dial call through the hung endpoint stays pending
			fronts = append(fronts, c)
		}
		time.Sleep(50 * time.Millisecond)
		var ep2 *sniproxy.Endpoint
		if sc.fault == "graceful-silent" {
			// no newer endpoint: the peer itself asks to stop
			hungWrite(append(snix.U64(0), 7, 0))
		} else if sc.fault == "fatal-frame" {
			// serving ends on a protocol error while the socket is perfectly healthy: a reply carrying an error
			// code; the proxy must still release the connection, or the endpoint behind it waits for ever
			hungWrite(append(snix.U64(1<<40), 1, 9))
		} else {
			ep2, err = dialEP() // a newer connection under the same name kicks the hung one
			if err != nil {
				return nil, "dial kicking endpoint: " + err.Error()
			}
			defer ep2.Close()
		}
		select {
		case <-hungClosed:
		case <-time.After(watchdog + 6*time.Second):
			problems = append(problems, "kicked endpoint's control connection still open 12 s after the kick (graceful shutdown unanswered)")
		}
		for i, c := range fronts {
			c.SetReadDeadline(time.Now().Add(watchdog + 6*time.Second))
			_, err := io.Copy(io.Discard, c)
			if ne, ok := err.(net.Error); ok && ne.Timeout() {
				problems = append(problems, fmt.Sprintf("front connection %d waiting on the kicked endpoint still open 12 s after the kick", i))
			}
			c.Close()
		}
		hung.Close()
		if ep2 != nil {
			ep2.Close()
		}
		cancel()
		select {
		case <-frontDone:
		case <-time.After(watchdog + 6*time.Second):
			problems = append(problems, "ServeFront did not return after cancel")
		}
		ts.CloseClientConnections()
		return problems, ""
	}
	ep, err := dialEP()
	if err != nil {
		return nil, "dial endpoint: " + err.Error()
	}
	if sc.fault == "sever-backlog" && sc.mode != "legacy" {
		// side connections are websockets of their own: they are not multiplexed over the control
		// connection and legitimately outlive it, so this scenario only concerns the legacy mode
		return nil, "sever-backlog applies to the legacy (multiplexed) mode only"
	}
	if sc.fault == "sever-backlog" {
		// the application is slow to accept: dials queue up in the endpoint (10 buffered, the rest parked
		// in sendAccept); the tunnel is lost; then the application accepts what was handed to it
		for i := 0; srv.VerifEndpointPtr("epA") == 0; i++ {
			if i > 2000 {
				return nil, "endpoint never registered"
			}
			time.Sleep(time.Millisecond)
		}
		hello := snix.ClientHello("a.test")
		var fronts []net.Conn
		for i := 0; i < 12+sc.tunnels; i++ {
			c, err := net.Dial("tcp", lis.Addr().String())
			if err != nil {
				return nil, "front dial: " + err.Error()
			}
			c.Write(hello)
			fronts = append(fronts, c)
		}
		time.Sleep(300 * time.Millisecond)
		td.severFirst()
		time.Sleep(300 * time.Millisecond)
		var got []net.Conn
		for errs := 0; errs < 60 && len(got) < len(fronts); {
			ch := make(chan net.Conn, 1)
			go func() {
				c, err := ep.Accept()
				if err != nil {
					ch <- nil
					return
				}
				ch <- c
			}()
			select {
			case c := <-ch:
				if c == nil {
					errs++
					time.Sleep(5 * time.Millisecond)
				} else {
					got = append(got, c)
				}
			case <-time.After(watchdog + 6*time.Second):
				problems = append(problems, "Endpoint.Accept did not return after the tunnel was lost")
				errs = 1000
			}
		}
		var rw sync.WaitGroup
		var pmu sync.Mutex
		for i, c := range got {
			rw.Add(1)
			go func(i int, c net.Conn) {
				defer rw.Done()
				c.SetReadDeadline(time.Now().Add(watchdog + 6*time.Second))
				_, err := io.Copy(io.Discard, c)
				if ne, ok := err.(net.Error); ok && ne.Timeout() {
					pmu.Lock()
					problems = append(problems, fmt.Sprintf("read on accepted connection %d (handed over around the loss of the tunnel) still blocked 12 s later", i))
					pmu.Unlock()
				}
				c.Close()
			}(i, c)
		}
		rw.Wait()
		for _, c := range fronts {
			c.Close()
		}
		hx.WithTimeout(watchdog+6*time.Second, func() { ep.Close() })
		cancel()
		select {
		case <-frontDone:
		case <-time.After(watchdog + 6*time.Second):
			problems = append(problems, "ServeFront did not return after cancel")
		}
		ts.CloseClientConnections()
		return problems, ""
	}
	// endpoint application: echo
	var appWg sync.WaitGroup
	acceptReturned := make(chan error, 1)
	go func() {
		for {
			c, err := ep.Accept()
			if err != nil {
				acceptReturned <- err
				return
			}
			appWg.Add(1)
			go func() { defer appWg.Done(); io.Copy(c, c); c.Close() }()
		}
	}()
	// wait for registration
	for i := 0; srv.VerifEndpointPtr("epA") == 0; i++ {
		if i > 2000 {
			return nil, "endpoint never registered"
		}
		time.Sleep(time.Millisecond)
	}
	// front connections through the tunnel
	hello := snix.ClientHello("a.test")
	var fronts []net.Conn
	for i := 0; i < sc.tunnels; i++ {
		c, err := net.Dial("tcp", lis.Addr().String())
		if err != nil {
			return nil, "front dial: " + err.Error()
		}
		fronts = append(fronts, c)
		c.Write(hello)
		buf := make([]byte, len(hello))
		c.SetReadDeadline(time.Now().Add(10 * time.Second))
		if _, err := io.ReadFull(c, buf); err != nil {
			// this connection is not being served (that is another property's business); the teardown of
			// what has been set up so far is still checked
			c.SetReadDeadline(time.Time{})
			break
		}
		c.SetReadDeadline(time.Time{})
	}
	// fault
	var ep2 *sniproxy.Endpoint
	switch sc.fault {
	case "sever":
		td.severFirst()
	case "kick":
		ep2, err = dialEP()
		if err != nil {
			return nil, "dial second endpoint: " + err.Error()
		}
		defer ep2.Close()
	case "endpoint-close":
		go ep.Close()
	case "cancel":
		cancel()
	}
	// observations
	if sc.fault != "cancel" || true {
		for i, c := range fronts {
			c.SetReadDeadline(time.Now().Add(watchdog + 6*time.Second))
			_, err := io.Copy(io.Discard, c)
			if ne, ok := err.(net.Error); ok && ne.Timeout() {
				if sc.mode == "legacy" || sc.fault == "cancel" {
					problems = append(problems, fmt.Sprintf("front connection %d still open %v after %s", i, watchdog+6*time.Second, sc.fault))
				}
			}
			c.Close()
		}
	}
	if sc.fault == "sever" || sc.fault == "endpoint-close" {
		ok := false
		for i := 0; i < 12000; i++ {
			if srv.VerifEndpointPtr("epA") == 0 {
				ok = true
				break
			}
			time.Sleep(time.Millisecond)
		}
		if !ok {
			problems = append(problems, "name still registered 12 s after "+sc.fault)
		}
	}
	if sc.fault != "cancel" {
		select {
		case <-acceptReturned:
		case <-time.After(watchdog + 6*time.Second):
			problems = append(problems, "Endpoint.Accept did not return after "+sc.fault)
		}
		if !hx.WithTimeout(watchdog+6*time.Second, func() { ep.Close() }) {
			problems = append(problems, "Endpoint.Close did not return after "+sc.fault)
		}
	} else {
		ep.Close()
	}
	if ep2 != nil {
		ep2.Close()
	}
	cancel()
	select {
	case <-frontDone:
	case <-time.After(watchdog + 6*time.Second):
		problems = append(problems, "ServeFront did not return after cancel")
	}
	ts.CloseClientConnections()
	hx.WithTimeout(watchdog, appWg.Wait)
	// callbacks pair up and goroutines are gone
	deadline := time.Now().Add(watchdog + 6*time.Second)
	for {
		cbMu.Lock()
		c, d := connects, disconnects
		cbMu.Unlock()
		n, first := sniGoroutines("shanhu.io/g/sniproxy")
		if c == d && n <= base {
			break
		}
		if time.Now().After(deadline) {
			if c != d {
				problems = append(problems, fmt.Sprintf("%d connect notifications, %d disconnect notifications", c, d))
			}
			if n > base {
				head := strings.Split(first, "\n")
				if len(head) > 10 {
					head = head[:10]
				}
				problems = append(problems, fmt.Sprintf("%d sniproxy goroutine(s) left after teardown: %s", n-base, strings.Join(head, " | ")))
			}
			break
		}
		time.Sleep(20 * time.Millisecond)
	}
	return problems, ""
}

// problemClass maps an observation of runProxy to the vocabulary of the teardown models.
func problemClass(pr string) string {
	switch {
	case strings.Contains(pr, "front connection") && strings.Contains(pr, "still open"):
		return "front-open"
	case strings.Contains(pr, "name still registered"):
		return "registered"
	case strings.Contains(pr, "Endpoint.Accept did not return"):
		return "accept-blocked"
	case strings.Contains(pr, "Endpoint.Close did not return"):
		return "close-blocked"
	case strings.Contains(pr, "ServeFront did not return"):
		return "servefront-not-returned"
	case strings.Contains(pr, "connect notifications"):
		return "disconnect-count"
	case strings.Contains(pr, "goroutine(s) left"):
		return "goroutines-left"
	case strings.Contains(pr, "control connection still open"):
		return "ctl-open"
	case strings.Contains(pr, "read on accepted connection"):
		return "session-open"
	case strings.Contains(pr, "a dial through the endpoint") && strings.Contains(pr, "still blocked"):
		return "dial-blocked"
	}
	return "other"
}

func setString(m map[string]bool) string {
	var ks []string
	for k := range m {
		ks = append(ks, k)
	}
	sort.Strings(ks)
	if len(ks) == 0 {
		return "nothing"
	}
	return strings.Join(ks, ",")
}

func main() {
	log.SetOutput(io.Discard)
	http.DefaultTransport.(*http.Transport).DisableKeepAlives = true
	f := hx.ParseFlags()
	rep := hx.NewReport("C04", f)
	rep.Rule = "race scenarios (forced with schedule points: enqueue after serve exit, call left in the queue at exit, mistyped reply then cut, " +
		"reader holding a frame when the loop exits on a failed write, graceful close with an unresponsive peer) x pending calls 0..3 x late callers " +
		"(hello / tunnel read / write / close); whole-proxy teardown (sever, kick, endpoint close, cancel) x multiplexed front connections x mode; " +
		"distinct = distinct scenario; all are non-trivial (each cuts or shuts down a live tunnel)"
	r := hx.NewRand(f.Seed)
	var ops []string
	if f.Replay != "" {
		var err error
		ops, err = hx.ReadReplayOps(f.Replay)
		if err != nil {
			fmt.Println("replay:", err)
			return
		}
	} else {
		for _, c := range hx.CorpusOps("C04") {
			ops = append(ops, c...)
		}
		nr, np := 24, 4
		if f.Thorough() {
			nr, np = 600, 60
		}
		// every scenario kind at least once, then random
		for _, name := range []string{"enqueue-after-exit", "left-in-queue", "mistyped-then-cut", "reader-blocked-on-fetch", "graceful-close"} {
			sc := raceScenario{name: name, pending: 1, late: []string{"read", "hello"}}
			ops = append(ops, sc.ops()...)
		}
		{
			sc := raceScenario{name: "queue-full"}
			for i := 0; i < queueCap+2; i++ {
				sc.late = append(sc.late, []string{"read", "hello", "write", "close"}[i%4])
			}
			ops = append(ops, sc.ops()...)
		}
		for i := 0; i < nr; i++ {
			ops = append(ops, genRace(r).ops()...)
		}
		for _, fault := range []string{"sever", "kick", "endpoint-close", "cancel", "kick-hung", "sever-backlog", "epfault-text", "epfault-short", "epfault-cut", "epfault-silent", "kick-hung-hinted"} {
			ops = append(ops, proxyScenario{fault, 2, "legacy"}.canon())
		}
		ops = append(ops, proxyScenario{"side-dial-orphaned", 1, "siding"}.canon(), proxyScenario{"side-dial-orphaned", 0, "siding-addr"}.canon())
		ops = append(ops, proxyScenario{"side-handshake-hung", 1, "siding-addr"}.canon(), proxyScenario{"graceful-silent", 1, "legacy"}.canon(), proxyScenario{"fatal-frame", 1, "legacy"}.canon())
		// many idle multiplexed connections (each keeps a read outstanding at the endpoint) when the tunnel goes
		ops = append(ops, proxyScenario{"sever", 130, "legacy"}.canon())
		if f.Thorough() {
			ops = append(ops, proxyScenario{"endpoint-close", 300, "legacy"}.canon(), proxyScenario{"kick", 130, "legacy"}.canon())
		}
		for i := 0; i < np; i++ {
			ops = append(ops, proxyScenario{hx.Pick(r, []string{"sever", "kick", "endpoint-close", "cancel", "kick-hung", "sever-backlog", "epfault-text", "epfault-short", "epfault-cut", "epfault-silent", "kick-hung-hinted"}), r.Intn(4), hx.Pick(r, []string{"legacy", "legacy", "siding"})}.canon())
		}
	}
	var lines []string
	type span struct {
		from, to int
		op       string
		stuck    []int
	}
	var spans []span
	type tdSpan struct {
		at   int
		op   string
		impl map[string]bool
	}
	var tdSpans []tdSpan
	seen := map[string]bool{}
	failedKind := map[string]bool{} // once a scenario kind has produced a violation, do not spend watchdogs on it again
	budget := 150 * time.Second
	if f.Thorough() {
		budget = 25 * time.Minute
	}
	t0 := time.Now()
	for _, op := range ops {
		if seen[op] {
			continue
		}
		seen[op] = true
		if time.Since(t0) > budget {
			rep.Note("time budget reached after %d scenarios", rep.Evaluations)
			break
		}
		if ws := strings.Fields(op); len(ws) > 1 && failedKind[ws[0]+" "+ws[1]] {
			continue
		}
		if sc, ok := parseRace(op); ok {
			var res, model []string
			var leak, skipped string
			for attempt := 0; attempt < 3; attempt++ { // a time-based failure is re-run before it is reported
				res, model, leak, skipped = runRace(sc)
				bad := leak != ""
				for _, x := range res {
					if x == "stuck" {
						bad = true
					}
				}
				if !bad || skipped != "" {
					break
				}
			}
			if skipped != "" {
				rep.Note("skipped %s: %s", op, skipped)
				rep.Count("skipped")
				continue
			}
			rep.Case(op, true)
			rep.Count("race:" + sc.name)
			var stuck []int
			for i, x := range res {
				if x == "stuck" {
					stuck = append(stuck, i)
				}
			}
			if len(stuck) > 0 || leak != "" {
				failedKind["race "+sc.name] = true
			}
			if len(stuck) > 0 {
				rep.Fail("stranded:"+sc.name, fmt.Sprintf("callers %v did not return within %v (x3) after the connection was lost", stuck, 2*watchdog), []string{op})
			}
			if leak != "" {
				rep.Fail("goroutine-left:"+sc.name, leak, []string{op})
			}
			if model != nil {
				spans = append(spans, span{len(lines), len(lines) + len(model), op, stuck})
				lines = append(lines, model...)
			}
			rep.Sample(map[string]interface{}{"op": op, "results": res})
		} else if sc, ok := parseProxy(op); ok {
			var problems []string
			var skipped string
			for attempt := 0; attempt < 3; attempt++ {
				problems, skipped = runProxy(sc)
				if len(problems) == 0 || skipped != "" {
					break
				}
			}
			if skipped != "" {
				rep.Note("skipped %s: %s", op, skipped)
				rep.Count("skipped")
				continue
			}
			rep.Case(op, true)
			rep.Count("proxy:" + sc.fault + ":" + sc.mode)
			if len(problems) > 0 {
				failedKind["proxy fault="+sc.fault] = true
			}
			for _, pr := range problems {
				k := "teardown:" + sc.fault + ":" + strings.Join(strings.Fields(pr)[:2], "-")
				rep.Fail(k, pr, []string{op})
			}
			if sc.mode == "legacy" || sc.fault == "side-dial-orphaned" {
				// second-layer models: what do they predict is left undone for this scenario?
				cls := map[string]bool{}
				for _, pr := range problems {
					cls[problemClass(pr)] = true
				}
				tdSpans = append(tdSpans, tdSpan{len(lines), op, cls})
				lines = append(lines, fmt.Sprintf("teardown fault=%s tunnels=%d seed=%d", sc.fault, sc.tunnels, f.Seed))
			}
		}
	}
	model, err := hx.RunDriver(f.Driver, nil, lines)
	if err != nil {
		rep.Note("driver failed: %v", err)
		rep.ModelAvailable = false
	} else if model != nil {
		for _, sp := range spans {
			rejected := ""
			for i := sp.from; i < sp.to; i++ {
				if strings.HasPrefix(model[i], "rejected") || model[i] == "bad-op" {
					rejected = lines[i] + " -> " + model[i]
				}
			}
			sum := model[sp.to-1]
			implStuck := fmt.Sprint(sp.stuck)
			if len(sp.stuck) == 0 {
				implStuck = "[]"
			}
			mStuck := ""
			for _, w := range strings.Fields(sum) {
				if strings.HasPrefix(w, "stuck=") {
					mStuck = strings.ReplaceAll(strings.TrimPrefix(w, "stuck="), ",", "")
				}
			}
			// the summary prints a Lean list "[a, b]"; normalise both
			mStuck = strings.ReplaceAll(sum[strings.Index(sum, "stuck=")+6:], ",", "")
			mStuck = mStuck[:strings.Index(mStuck, "]")+1]
			if rejected != "" {
				rep.Disagree("transport-race", sp.op, "impl events", "model rejected: "+rejected)
			} else if mStuck != implStuck {
				rep.Disagree("transport-race", sp.op, "stuck="+implStuck, "stuck="+mStuck+" ("+sum+")")
			}
			rep.TracesValidated++
		}
		for _, sp := range tdSpans {
			out := model[sp.at]
			mcls := map[string]bool{}
			for _, w := range strings.FieldsFunc(out, func(r rune) bool { return r == ' ' || r == '[' || r == ']' }) {
				for _, pre := range []string{"after-fault=", "final="} {
					if strings.HasPrefix(w, pre) {
						for _, c := range strings.Split(strings.TrimPrefix(w, pre), ",") {
							if c != "" {
								mcls[c] = true
							}
						}
					}
				}
			}
			if strings.Contains(out, "bad-op") || strings.Contains(out, "setup-rejected") {
				rep.Disagree("teardown-model", sp.op, "scenario ran", "model: "+out)
			} else if setString(mcls) != setString(sp.impl) {
				rep.Disagree("teardown-model", sp.op, "left undone: "+setString(sp.impl), "left undone: "+setString(mcls)+" ("+out+")")
			}
			rep.TracesValidated++
		}
	}
	rep.Write(f.Out)
}
