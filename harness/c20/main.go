// Harness for C20: aries routing.  Drives the real Mux, trie.Trie, C (route
// splitting), Router, ServiceSet and HostMux in-process with tagged handlers
// and httptest recorders, pipes the same op lines to the Lean driver, compares
// which handler ran, and evaluates the direct oracle (a brute-force
// longest-prefix scan / the tier rules) on the implementation.
//
// Op lines (see lean/Drv/C20.lean for the grammar):
//
//	mux regs=<K>:<hex>:<tag>,... paths=<hex>,...
//	seg adds=<route>:<hex>,... finds=<route>,...
//	route <hex>
//	router idx=<tag|-> def=<tag|-> regs=<K>:<hex>:<tag>,... reqs=<method>:<path>:<pos>,...
//	svc mode=.. path=.. user=.. level=.. adm=.. auth=.. setup=.. res=.. guest=.. usr=.. admin=.. signin=..
//	host sets=<hex>:<tag>,... reqs=<hex>,...
package main

import (
	"fmt"
	"hash/fnv"
	"io"
	"log"
	"net/http"
	"net/http/httptest"
	"net/url"
	"os"
	"runtime"
	"sort"
	"strconv"
	"strings"
	"sync"

	"shanhu.io/g/aries"
	"shanhu.io/g/trie"
	"verif/harness/hx"
)

// ---------------------------------------------------------------- helpers

func hexs(s string) string  { return hx.Hex([]byte(s)) }
func unhex(s string) string { return string(hx.UnHex(s)) }

func listOf(s string) []string {
	if s == "_" || s == "" {
		return nil
	}
	return strings.Split(s, ",")
}

func showList(xs []string) string {
	if len(xs) == 0 {
		return "_"
	}
	return strings.Join(xs, ",")
}

func kv(ws []string, k string) (string, bool) {
	for _, w := range ws {
		if strings.HasPrefix(w, k+"=") {
			return w[len(k)+1:], true
		}
	}
	return "", false
}

func parseRoute(s string) []string {
	if s == "_" {
		return nil
	}
	var out []string
	for _, p := range strings.Split(s, ".") {
		out = append(out, unhex(p))
	}
	return out
}

func showRoute(r []string) string {
	if len(r) == 0 {
		return "_"
	}
	var xs []string
	for _, s := range r {
		xs = append(xs, hexs(s))
	}
	return strings.Join(xs, ".")
}

var baseReqs = map[string]*http.Request{}
var baseMu sync.Mutex

// newReq builds the request through httptest once per method and then sets
// URL.Path and Host directly, so that every byte string can be a path
// (net/http request parsing is outside the property).
func newReq(method, path, host string) *http.Request {
	baseMu.Lock()
	b := baseReqs[method]
	if b == nil {
		m := method
		if m == "" {
			m = "GET"
		}
		b = httptest.NewRequest(m, "http://example.com/", nil)
		b.Method = method
		baseReqs[method] = b
	}
	baseMu.Unlock()
	r := new(http.Request)
	*r = *b
	r.URL = &url.URL{Path: path}
	r.Host = host
	if len(extraHdr) > 0 {
		r.Header = http.Header{}
		for k, v := range b.Header {
			r.Header[k] = v
		}
		for _, kv := range extraHdr {
			// Add (not Set): the same name may be given twice; a literal "Host"
			// header next to Request.Host is the "duplicate Host" case
			r.Header.Add(kv[0], kv[1])
		}
	}
	return r
}

// extraHdr: extra request headers of the op in flight.  Ops that carry
// `hdr=` run one at a time (see flush), so a package variable is enough.
var extraHdr [][2]string

func parseHdr(s string) [][2]string {
	var out [][2]string
	for _, e := range listOf(s) {
		p := strings.Split(e, ":")
		if len(p) == 2 {
			out = append(out, [2]string{unhex(p[0]), unhex(p[1])})
		}
	}
	return out
}

func hdrSuffix() string {
	if len(extraHdr) == 0 {
		return ""
	}
	var xs []string
	for _, x := range extraHdr {
		xs = append(xs, hexs(x[0])+":"+hexs(x[1]))
	}
	return " hdr=" + strings.Join(xs, ",")
}

func hasHdr(op string) bool { return strings.Contains(op, " hdr=") }

func stripHdr(ws []string) []string {
	var out []string
	for _, w := range ws {
		if !strings.HasPrefix(w, "hdr=") {
			out = append(out, w)
		}
	}
	return out
}

type env struct {
	mu  sync.Mutex
	rep *hx.Report
}

func (e *env) fail(key, desc string, ops []string) {
	e.mu.Lock()
	e.rep.Fail(key, desc, ops)
	e.mu.Unlock()
}

func (e *env) count(k string) {
	e.mu.Lock()
	e.rep.Count(k)
	e.mu.Unlock()
}

// ---------------------------------------------------------------- mux

type muxReg struct {
	kind, s string
	tag     int
}

func parseMuxRegs(s string) ([]muxReg, bool) {
	var out []muxReg
	for _, e := range listOf(s) {
		p := strings.Split(e, ":")
		if len(p) != 3 {
			return nil, false
		}
		t, err := strconv.Atoi(p[2])
		if err != nil {
			return nil, false
		}
		out = append(out, muxReg{p[0], unhex(p[1]), t})
	}
	return out, true
}

func showMuxRegs(rs []muxReg) string {
	var xs []string
	for _, r := range rs {
		xs = append(xs, fmt.Sprintf("%s:%s:%d", r.kind, hexs(r.s), r.tag))
	}
	return showList(xs)
}

func tagFunc(tag int) aries.Func {
	return func(c *aries.C) error {
		fmt.Fprintf(c.Resp, "%d", tag)
		return nil
	}
}

// muxImpl registers on a real Mux and serves every path.
func muxImpl(regs []muxReg, paths []string) (regOut, routeOut []string) {
	m := aries.NewMux()
	for _, r := range regs {
		var err error
		switch r.kind {
		case "P":
			err = m.Prefix(r.s, tagFunc(r.tag))
		case "E":
			err = m.Exact(r.s, tagFunc(r.tag))
		default:
			err = m.Dir(r.s, tagFunc(r.tag))
		}
		if err == nil {
			regOut = append(regOut, "ok")
		} else {
			regOut = append(regOut, "dup")
		}
	}
	for _, p := range paths {
		w := httptest.NewRecorder()
		c := aries.NewContext(w, newReq("GET", p, "h"))
		err := m.Serve(c)
		switch {
		case err == aries.Miss:
			routeOut = append(routeOut, "miss")
		case err == nil:
			routeOut = append(routeOut, w.Body.String())
		default:
			routeOut = append(routeOut, "err")
		}
	}
	return
}

// muxSpec is the direct oracle: exact match first, otherwise a brute-force
// scan for the longest registered string prefix; first registration wins,
// Dir(s) = Exact(trim s) then Prefix(trim s + "/").
func muxSpec(regs []muxReg, paths []string) (regOut, routeOut []string) {
	exact := map[string]int{}
	type pf struct {
		s   string
		tag int
	}
	var prefixes []pf
	addExact := func(s string, t int) bool {
		if _, ok := exact[s]; ok {
			return false
		}
		exact[s] = t
		return true
	}
	addPrefix := func(s string, t int) bool {
		if s == "" {
			return false
		}
		for _, p := range prefixes {
			if p.s == s {
				return false
			}
		}
		prefixes = append(prefixes, pf{s, t})
		return true
	}
	for _, r := range regs {
		ok := false
		switch r.kind {
		case "P":
			ok = addPrefix(r.s, r.tag)
		case "E":
			ok = addExact(r.s, r.tag)
		default:
			s := r.s
			if s != "/" {
				s = strings.TrimSuffix(s, "/")
				ok = addExact(s, r.tag) && addPrefix(s+"/", r.tag)
			} else {
				ok = addExact(s, r.tag) && addPrefix(s, r.tag)
			}
		}
		if ok {
			regOut = append(regOut, "ok")
		} else {
			regOut = append(regOut, "dup")
		}
	}
	for _, p := range paths {
		if t, ok := exact[p]; ok {
			routeOut = append(routeOut, strconv.Itoa(t))
			continue
		}
		best, bestTag := -1, 0
		for _, q := range prefixes {
			if len(q.s) <= len(p) && p[:len(q.s)] == q.s && len(q.s) > best {
				best, bestTag = len(q.s), q.tag
			}
		}
		if best < 0 {
			routeOut = append(routeOut, "miss")
		} else {
			routeOut = append(routeOut, strconv.Itoa(bestTag))
		}
	}
	return
}

func (e *env) runMux(ws []string) string {
	rs, _ := kv(ws, "regs")
	ps, _ := kv(ws, "paths")
	regs, ok := parseMuxRegs(rs)
	if !ok {
		return "bad-op"
	}
	var paths []string
	for _, p := range listOf(ps) {
		paths = append(paths, unhex(p))
	}
	ro, so := muxImpl(regs, paths)
	wro, wso := muxSpec(regs, paths)
	for i := range ro {
		if ro[i] != wro[i] {
			sub := e.shrinkMux(regs[:i+1], nil, func(r []muxReg, _ []string) bool {
				a, _ := muxImpl(r, nil)
				b, _ := muxSpec(r, nil)
				return len(a) > 0 && a[len(a)-1] != b[len(b)-1]
			})
			e.fail("mux-registration-result", fmt.Sprintf("registration %d (%s %q) returned %s, a map-based mux returns %s",
				i, regs[i].kind, regs[i].s, ro[i], wro[i]), []string{"mux regs=" + showMuxRegs(sub) + " paths=_"})
			break
		}
	}
	for i := range so {
		if so[i] != wso[i] {
			p := paths[i]
			sub := e.shrinkMux(regs, []string{p}, func(r []muxReg, q []string) bool {
				_, a := muxImpl(r, q)
				_, b := muxSpec(r, q)
				return a[0] != b[0]
			})
			_, a := muxImpl(sub, []string{p})
			_, b := muxSpec(sub, []string{p})
			e.fail("mux-"+classify(a[0], b[0]), fmt.Sprintf("path %q ran handler %s, the longest registered prefix / exact match is %s (registrations in order: %s)",
				p, a[0], b[0], showMuxRegs(sub)), []string{"mux regs=" + showMuxRegs(sub) + " paths=" + hexs(p)})
			break
		}
	}
	if len(regs) >= 3 && allOK(ro) {
		rev := make([]muxReg, len(regs))
		for i, g := range regs {
			rev[len(regs)-1-i] = g
		}
		if ro2, so2 := muxImpl(rev, paths); allOK(ro2) {
			for i := range so {
				if so[i] != so2[i] {
					e.fail("mux-order-dependent", fmt.Sprintf("path %q: registered in the given order handler %s ran, registered in reverse order %s (registrations: %s)",
						paths[i], so[i], so2[i], showMuxRegs(regs)), []string{"mux regs=" + showMuxRegs(regs) + " paths=" + hexs(paths[i]), "mux regs=" + showMuxRegs(rev) + " paths=" + hexs(paths[i])})
					break
				}
			}
		}
	}
	return "reg=" + showList(ro) + " route=" + showList(so)
}

func classify(got, want string) string {
	switch {
	case want == "miss":
		return "handler-ran-without-registered-prefix"
	case got == "miss":
		return "registered-prefix-missed"
	default:
		return "not-longest-match"
	}
}

// shrinkMux greedily drops registrations while the failure persists.
func (e *env) shrinkMux(regs []muxReg, paths []string, bad func([]muxReg, []string) bool) []muxReg {
	cur := append([]muxReg{}, regs...)
	for changed := true; changed; {
		changed = false
		for i := 0; i < len(cur); i++ {
			cand := append(append([]muxReg{}, cur[:i]...), cur[i+1:]...)
			if len(cand) > 0 && safeBad(func() bool { return bad(cand, paths) }) {
				cur = cand
				changed = true
				break
			}
		}
	}
	return cur
}

func safeBad(f func() bool) (r bool) {
	defer func() {
		if recover() != nil {
			r = false
		}
	}()
	return f()
}

// ---------------------------------------------------------------- package trie

type segAdd struct {
	route []string
	value string
}

func (e *env) runSeg(ws []string) string {
	as, _ := kv(ws, "adds")
	fs, _ := kv(ws, "finds")
	var adds []segAdd
	for _, a := range listOf(as) {
		p := strings.Split(a, ":")
		if len(p) != 2 {
			return "bad-op"
		}
		adds = append(adds, segAdd{parseRoute(p[0]), unhex(p[1])})
	}
	var finds [][]string
	for _, f := range listOf(fs) {
		finds = append(finds, parseRoute(f))
	}
	t := trie.New()
	spec := map[string]string{}
	key := func(r []string) string { return strconv.Itoa(len(r)) + "\x00" + strings.Join(r, "\x00") }
	var ao, fo []string
	line := strings.Join(ws, " ")
	for _, a := range adds {
		res := func() (s string) {
			defer func() {
				if recover() != nil {
					s = "panic"
				}
			}()
			if t.Add(a.route, a.value) {
				return "added"
			}
			return "conflict"
		}()
		want := "panic"
		if a.value != "" {
			if _, ok := spec[key(a.route)]; ok {
				want = "conflict"
			} else {
				want = "added"
				spec[key(a.route)] = a.value
			}
		}
		if res != want {
			e.fail("seg-add-result", fmt.Sprintf("trie.Add(%q, %q) gave %s, a map gives %s", a.route, a.value, res, want), []string{"seg " + line})
		}
		ao = append(ao, res)
	}
	for _, f := range finds {
		m, v := t.Find(f)
		ex := t.FindExact(f)
		// brute force: longest registered prefix of f
		wn, wv := 0, ""
		for k := len(f); k >= 0; k-- {
			if x, ok := spec[key(f[:k])]; ok {
				wn, wv = k, x
				break
			}
		}
		wex := spec[key(f)]
		okMatch := len(m) == wn && v == wv
		for i := range m {
			if i < len(f) && m[i] != f[i] {
				okMatch = false
			}
		}
		if !okMatch || ex != wex {
			e.fail("seg-not-longest-match", fmt.Sprintf("trie.Find(%q) = (%q, %q), FindExact = %q; longest registered prefix has %d segments and value %q, exact %q",
				f, m, v, ex, wn, wv, wex), []string{"seg adds=" + as + " finds=" + showRoute(f)})
		}
		fo = append(fo, fmt.Sprintf("%d:%s:%s", len(m), hexs(v), hexs(ex)))
	}
	return "add=" + showList(ao) + " find=" + showList(fo)
}

// ---------------------------------------------------------------- route walk

func splitSegs(p string) []string {
	var segs []string
	cur := ""
	for i := 0; i < len(p); i++ {
		if p[i] == '/' {
			if cur != "" {
				segs = append(segs, cur)
			}
			cur = ""
		} else {
			cur += string(p[i])
		}
	}
	if cur != "" {
		segs = append(segs, cur)
	}
	return segs
}

func (e *env) runRoute(ws []string) string {
	if len(ws) != 1 {
		return "bad-op"
	}
	p := unhex(ws[0])
	w := httptest.NewRecorder()
	c := aries.NewContext(w, newReq("GET", p, "h"))
	segs := splitSegs(p)
	var steps []string
	dir := 0
	if c.PathIsDir() {
		dir = 1
	}
	if c.PathIsDir() != strings.HasSuffix(p, "/") {
		e.fail("route-isdir", fmt.Sprintf("PathIsDir(%q) = %v", p, c.PathIsDir()), []string{"route " + ws[0]})
	}
	for i := 0; i < len(p)+2; i++ {
		rel, cur, rr := c.Rel(), c.Current(), c.RelRoute()
		steps = append(steps, hexs(rel)+"|"+hexs(cur)+"|"+showRoute(rr))
		// oracle: remainder after i segments
		var wantRest []string
		if i < len(segs) {
			wantRest = segs[i:]
		}
		wantCur := ""
		if len(wantRest) > 0 {
			wantCur = wantRest[0]
		}
		if rel != strings.Join(wantRest, "/") || cur != wantCur || strings.Join(rr, "\x00") != strings.Join(wantRest, "\x00") || len(rr) != len(wantRest) {
			e.fail("route-split", fmt.Sprintf("path %q after %d shifts: Rel=%q Current=%q RelRoute=%q, want remainder %q", p, i, rel, cur, rr, wantRest), []string{"route " + ws[0]})
		}
		if rel == "" {
			break
		}
		c.ShiftRoute(1)
	}
	// the assumption about net/http: a path that starts with "/" survives request parsing
	if strings.HasPrefix(p, "/") {
		func() {
			defer func() { recover() }()
			r := httptest.NewRequest("GET", p, nil)
			if r.URL.Path == p {
				e.count("route:httptest-parse-same-path")
			} else {
				e.count("route:httptest-parse-different-path")
			}
		}()
	}
	return fmt.Sprintf("dir=%d walk=%s", dir, strings.Join(steps, ";"))
}

// ---------------------------------------------------------------- router

type rReg struct {
	kind   string // F, D, M
	method string
	path   string
	tag    int
}

type rReq struct {
	method, path string
	pos          int
}

func parseRouterRegs(s string) ([]rReg, bool) {
	var out []rReg
	for _, e := range listOf(s) {
		p := strings.Split(e, ":")
		if len(p) != 3 {
			return nil, false
		}
		t, err := strconv.Atoi(p[2])
		if err != nil {
			return nil, false
		}
		r := rReg{path: unhex(p[1]), tag: t}
		switch {
		case p[0] == "F" || p[0] == "D":
			r.kind = p[0]
		case strings.HasPrefix(p[0], "M"):
			r.kind = "M"
			r.method = unhex(p[0][1:])
		default:
			return nil, false
		}
		out = append(out, r)
	}
	return out, true
}

func showRouterRegs(rs []rReg) string {
	var xs []string
	for _, r := range rs {
		k := r.kind
		if k == "M" {
			k = "M" + hexs(r.method)
		}
		xs = append(xs, fmt.Sprintf("%s:%s:%d", k, hexs(r.path), r.tag))
	}
	return showList(xs)
}

func showReqs(qs []rReq) string {
	var xs []string
	for _, q := range qs {
		xs = append(xs, fmt.Sprintf("%s:%s:%d", hexs(q.method), hexs(q.path), q.pos))
	}
	return showList(xs)
}

func optTag(s string) int {
	if s == "-" {
		return -1
	}
	t, _ := strconv.Atoi(s)
	return t
}

func showOptTag(t int) string {
	if t < 0 {
		return "-"
	}
	return strconv.Itoa(t)
}

// relFunc writes role, tag, Rel() and the route position the handler sees.
func relFunc(role string, tag int) aries.Func {
	return func(c *aries.C) error {
		total := len(splitSegs(c.Path))
		fmt.Fprintf(c.Resp, "%s%d@%s@%d", role, tag, hexs(c.Rel()), total-len(c.RelRoute()))
		return nil
	}
}

func routerImpl(idx, def int, regs []rReg, reqs []rReq) (regOut, out []string) {
	r := aries.NewRouter()
	if idx >= 0 {
		r.Index(relFunc("i", idx))
	}
	if def >= 0 {
		r.Default(relFunc("d", def))
	}
	for _, g := range regs {
		res := func() (s string) {
			defer func() {
				if x := recover(); x != nil {
					s = "panicTrie"
					if str, ok := x.(string); ok && strings.Contains(str, "empty route") {
						s = "panicEmpty"
					}
				}
			}()
			var err error
			switch g.kind {
			case "F":
				err = r.File(g.path, relFunc("n", g.tag))
			case "D":
				err = r.Dir(g.path, relFunc("n", g.tag))
			default:
				err = r.MethodFile(g.method, g.path, relFunc("n", g.tag))
			}
			if err != nil {
				return "dup"
			}
			return "ok"
		}()
		regOut = append(regOut, res)
	}
	for _, q := range reqs {
		res := func() (s string) {
			defer func() {
				if recover() != nil {
					s = "panic"
				}
			}()
			w := httptest.NewRecorder()
			c := aries.NewContext(w, newReq(q.method, q.path, "h"))
			if q.pos > 0 {
				c.ShiftRoute(q.pos)
			}
			err := r.Serve(c)
			switch {
			case err == aries.Miss:
				return "miss"
			case err == nil:
				return w.Body.String()
			default:
				return "badmethod"
			}
		}()
		out = append(out, res)
	}
	return
}

// routerSpec is the direct oracle: brute-force longest segment-wise prefix.
func routerSpec(idx, def int, regs []rReg, reqs []rReq) (regOut, out []string) {
	type node struct {
		segs []string
		reg  rReg
	}
	var nodes []node
	for _, g := range regs {
		segs := splitSegs(g.path)
		if len(segs) == 0 {
			regOut = append(regOut, "panicEmpty")
			continue
		}
		dup := false
		for _, n := range nodes {
			if strings.Join(n.segs, "/") == strings.Join(segs, "/") {
				dup = true
			}
		}
		if dup {
			regOut = append(regOut, "dup")
			continue
		}
		nodes = append(nodes, node{segs, g})
		regOut = append(regOut, "ok")
	}
	for _, q := range reqs {
		all := splitSegs(q.path)
		pos := q.pos
		if pos > len(all) {
			pos = len(all)
		}
		rest := all[pos:]
		notFound := func(p int) string {
			if def < 0 {
				return "miss"
			}
			return fmt.Sprintf("d%d@%s@%d", def, hexs(strings.Join(all[p:], "/")), p)
		}
		if len(rest) == 0 {
			if idx < 0 {
				out = append(out, notFound(pos))
			} else {
				out = append(out, fmt.Sprintf("i%d@-@%d", idx, pos))
			}
			continue
		}
		best := -1
		for i, n := range nodes {
			if len(n.segs) > len(rest) {
				continue
			}
			ok := true
			for k := range n.segs {
				if n.segs[k] != rest[k] {
					ok = false
				}
			}
			if ok && (best < 0 || len(n.segs) > len(nodes[best].segs)) {
				best = i
			}
		}
		if best < 0 {
			out = append(out, notFound(pos))
			continue
		}
		n := nodes[best]
		np := pos + len(n.segs)
		complete := len(n.segs) == len(rest) && !strings.HasSuffix(q.path, "/")
		if n.reg.kind == "D" || complete {
			if n.reg.kind == "M" && n.reg.method != "" && n.reg.method != q.method {
				out = append(out, "badmethod")
			} else {
				out = append(out, fmt.Sprintf("n%d@%s@%d", n.reg.tag, hexs(strings.Join(all[np:], "/")), np))
			}
		} else {
			out = append(out, notFound(np))
		}
	}
	return
}

func (e *env) runRouter(ws []string) string {
	is, _ := kv(ws, "idx")
	ds, _ := kv(ws, "def")
	rs, _ := kv(ws, "regs")
	qs, _ := kv(ws, "reqs")
	idx, def := optTag(is), optTag(ds)
	regs, ok := parseRouterRegs(rs)
	if !ok {
		return "bad-op"
	}
	var reqs []rReq
	for _, q := range listOf(qs) {
		p := strings.Split(q, ":")
		if len(p) != 3 {
			return "bad-op"
		}
		pos, _ := strconv.Atoi(p[2])
		reqs = append(reqs, rReq{unhex(p[0]), unhex(p[1]), pos})
	}
	ro, so := routerImpl(idx, def, regs, reqs)
	wro, wso := routerSpec(idx, def, regs, reqs)
	mk := func(regs []rReg, reqs []rReq) string {
		return fmt.Sprintf("router idx=%s def=%s regs=%s reqs=%s", showOptTag(idx), showOptTag(def), showRouterRegs(regs), showReqs(reqs))
	}
	for i := range ro {
		if ro[i] != wro[i] {
			e.fail("router-registration-result", fmt.Sprintf("registration %d (%s %q) returned %s, expected %s", i, regs[i].kind, regs[i].path, ro[i], wro[i]),
				[]string{mk(regs[:i+1], nil)})
			break
		}
	}
	for i := range so {
		if so[i] != wso[i] {
			q := []rReq{reqs[i]}
			cur := append([]rReg{}, regs...)
			bad := func(r []rReg) bool {
				return safeBad(func() bool {
					_, a := routerImpl(idx, def, r, q)
					_, b := routerSpec(idx, def, r, q)
					return a[0] != b[0]
				})
			}
			for changed := true; changed; {
				changed = false
				for k := 0; k < len(cur); k++ {
					cand := append(append([]rReg{}, cur[:k]...), cur[k+1:]...)
					if bad(cand) {
						cur, changed = cand, true
						break
					}
				}
			}
			_, a := routerImpl(idx, def, cur, q)
			_, b := routerSpec(idx, def, cur, q)
			key := "router-not-longest-match"
			switch {
			case strings.HasPrefix(a[0], "n") && !strings.HasPrefix(b[0], "n"):
				key = "router-served-without-complete-match"
			case !strings.HasPrefix(a[0], "n") && strings.HasPrefix(b[0], "n"):
				key = "router-registered-route-missed"
			case strings.HasPrefix(a[0], "n") && strings.HasPrefix(b[0], "n") && strings.SplitN(a[0], "@", 2)[0] == strings.SplitN(b[0], "@", 2)[0]:
				key = "router-wrong-remainder"
			}
			e.fail(key, fmt.Sprintf("%s %q (shifted %d): router did %s, the longest segment-wise match rule gives %s (routes in order: %s)",
				q[0].method, q[0].path, q[0].pos, a[0], b[0], showRouterRegs(cur)), []string{mk(cur, q)})
			break
		}
	}
	// direct oracle for order independence: a duplicate-free registration list
	// must decide every request alike when registered in reverse order
	if len(regs) >= 3 && allOK(ro) {
		rev := make([]rReg, len(regs))
		for i, g := range regs {
			rev[len(regs)-1-i] = g
		}
		_, so2 := routerImpl(idx, def, rev, reqs)
		for i := range so {
			if so[i] != so2[i] {
				e.fail("router-order-dependent", fmt.Sprintf("%s %q: registered in the given order the router did %s, registered in reverse order %s (routes: %s)",
					reqs[i].method, reqs[i].path, so[i], so2[i], showRouterRegs(regs)), []string{mk(regs, []rReq{reqs[i]}), mk(rev, []rReq{reqs[i]})})
				break
			}
		}
	}
	return "reg=" + showList(ro) + " serve=" + showList(so)
}

func allOK(rs []string) bool {
	for _, r := range rs {
		if r != "ok" {
			return false
		}
	}
	return true
}

// ---------------------------------------------------------------- nested routers behind a scribbling handler

// relRouteFunc is relFunc plus the RelRoute() the handler sees.
func relRouteFunc(role string, tag int) aries.Func {
	return func(c *aries.C) error {
		total := len(splitSegs(c.Path))
		rr := c.RelRoute()
		fmt.Fprintf(c.Resp, "%s%d@%s@%d@%s", role, tag, hexs(c.Rel()), total-len(rr), showRoute(rr))
		return nil
	}
}

func buildRouterImpl(idx, def int, regs []rReg, mk func(string, int) aries.Func) *aries.Router {
	r := aries.NewRouter()
	if idx >= 0 {
		r.Index(mk("i", idx))
	}
	if def >= 0 {
		r.Default(mk("d", def))
	}
	for _, g := range regs {
		func() {
			defer func() { recover() }()
			switch g.kind {
			case "F":
				r.File(g.path, mk("n", g.tag))
			case "D":
				r.Dir(g.path, mk("n", g.tag))
			default:
				r.MethodFile(g.method, g.path, mk("n", g.tag))
			}
		}()
	}
	return r
}

// scribble does what a careless handler may do with the values the context
// accessors hand out: it overwrites and appends to the slice RelRoute()
// returned (strings returned by Rel/Current/Path are immutable in Go; they are
// read and re-sliced only).
func scribble(c *aries.C, kind string) {
	if kind == "none" {
		return
	}
	parts := c.RelRoute()
	_ = c.Rel() + c.Current() + c.Path
	switch kind {
	case "a": // build a key: first segment + a fixed name (append may write into spare capacity)
		if len(parts) > 0 {
			key := append(parts[:1], "b")
			_ = strings.Join(key, "/")
		}
	case "u": // overwrite every element
		for i := range parts {
			parts[i] = "b"
		}
	case "l": // normalise in place
		for i := range parts {
			parts[i] = strings.ToLower(strings.ToUpper(parts[i]) + "")
			if parts[i] == "a" {
				parts[i] = "ab"
			}
		}
	case "t": // reuse the backing array as a scratch buffer
		buf := parts[:0]
		for i := 0; i < cap(parts); i++ {
			buf = append(buf, "a")
		}
	}
	// a second look must not see the scribbles either
	again := c.RelRoute()
	for i := range again {
		again[i] = "a"
	}
}

func nestImpl(mode, outer, scr string, idx, def int, regs []rReg, reqs []rReq) []string {
	inner := buildRouterImpl(idx, def, regs, relRouteFunc)
	reached := false
	var top aries.Service
	if mode == "tier" {
		run := new(ssRun)
		top = &aries.ServiceSet{
			Auth: &authImpl{r: run, serve: tierSpec{kind: "miss"}, setup: "keep"},
			Guest: aries.Func(func(c *aries.C) error {
				scribble(c, scr)
				return aries.Miss
			}),
			User: inner,
		}
	} else {
		o := aries.NewRouter()
		func() {
			defer func() { recover() }()
			o.Dir(outer, func(c *aries.C) error {
				reached = true
				scribble(c, scr)
				return inner.Serve(c)
			})
		}()
		top = o
	}
	var out []string
	for _, q := range reqs {
		res := func() (s string) {
			defer func() {
				if recover() != nil {
					s = "panic"
				}
			}()
			reached = false
			w := httptest.NewRecorder()
			c := aries.NewContext(w, newReq(q.method, q.path, "h"))
			c.User = "u"
			if q.pos > 0 {
				c.ShiftRoute(q.pos)
			}
			err := top.Serve(c)
			switch {
			case err == aries.Miss && mode != "tier" && !reached:
				return "outer-miss" // the outer router never ran the directory handler
			case err == aries.Miss:
				return "miss"
			case err == nil:
				return w.Body.String()
			default:
				return "badmethod"
			}
		}()
		out = append(out, res)
	}
	return out
}

// nestSpec: the scribbling is irrelevant; the inner router decides on the
// segments of the original path after the outer directory consumed its own.
func nestSpec(mode, outer string, idx, def int, regs []rReg, reqs []rReq) []string {
	osegs := splitSegs(outer)
	var out []string
	for _, q := range reqs {
		all := splitSegs(q.path)
		pos := q.pos
		if pos > len(all) {
			pos = len(all)
		}
		if mode != "tier" {
			rest := all[pos:]
			ok := len(osegs) > 0 && len(osegs) <= len(rest)
			for i := range osegs {
				if ok && rest[i] != osegs[i] {
					ok = false
				}
			}
			if !ok {
				out = append(out, "outer-miss")
				continue
			}
			pos += len(osegs)
		}
		_, b := routerSpec(idx, def, regs, []rReq{{q.method, q.path, pos}})
		r := b[0]
		if p := strings.Split(r, "@"); len(p) == 3 {
			np, _ := strconv.Atoi(p[2])
			r += "@" + showRoute(all[np:])
		}
		out = append(out, r)
	}
	return out
}

func (e *env) runNest(ws []string) string {
	get := func(k string) string { v, _ := kv(ws, k); return v }
	mode, outer, scr := get("mode"), unhex(get("outer")), get("scr")
	idx, def := optTag(get("idx")), optTag(get("def"))
	regs, ok := parseRouterRegs(get("regs"))
	if !ok {
		return "bad-op"
	}
	var reqs []rReq
	for _, q := range listOf(get("reqs")) {
		p := strings.Split(q, ":")
		if len(p) != 3 {
			return "bad-op"
		}
		pos, _ := strconv.Atoi(p[2])
		reqs = append(reqs, rReq{unhex(p[0]), unhex(p[1]), pos})
	}
	got := nestImpl(mode, outer, scr, idx, def, regs, reqs)
	want := nestSpec(mode, outer, idx, def, regs, reqs)
	mk := func(regs []rReg, reqs []rReq) string {
		return fmt.Sprintf("nest mode=%s outer=%s scr=%s idx=%s def=%s regs=%s reqs=%s", mode, hexs(outer), scr,
			showOptTag(idx), showOptTag(def), showRouterRegs(regs), showReqs(reqs))
	}
	for i := range got {
		if got[i] != want[i] {
			q := []rReq{reqs[i]}
			cur := append([]rReg{}, regs...)
			bad := func(r []rReg) bool {
				return safeBad(func() bool {
					return nestImpl(mode, outer, scr, idx, def, r, q)[0] != nestSpec(mode, outer, idx, def, r, q)[0]
				})
			}
			for changed := true; changed; {
				changed = false
				for k := 0; k < len(cur); k++ {
					cand := append(append([]rReg{}, cur[:k]...), cur[k+1:]...)
					if bad(cand) {
						cur, changed = cand, true
						break
					}
				}
			}
			a := nestImpl(mode, outer, scr, idx, def, cur, q)[0]
			b := nestSpec(mode, outer, idx, def, cur, q)[0]
			// does the same request, without the scribbling handler, behave?
			key := "nested-router-wrong-decision"
			if nestImpl(mode, outer, "none", idx, def, cur, q)[0] == b {
				key = "route-slice-aliased"
			}
			e.fail(key, fmt.Sprintf("%s %q: a handler wrote to the slice RelRoute() returned (kind %s) and delegated to a nested router, which then did %s; on the segments of the request path the decision is %s (inner routes: %s)",
				q[0].method, q[0].path, scr, a, b, showRouterRegs(cur)), []string{mk(cur, q)})
			break
		}
	}
	return "serve=" + showList(got)
}

// ---------------------------------------------------------------- routers as tiers: fall-through after Miss

// chainFunc: handlers with tags 70..79 return Miss, the others nil; every
// invocation is recorded with what the handler sees.
func chainFunc(log *[]string) func(string, int) aries.Func {
	return func(role string, tag int) aries.Func {
		return func(c *aries.C) error {
			total := len(splitSegs(c.Path))
			rr := c.RelRoute()
			*log = append(*log, fmt.Sprintf("%s%d@%s@%d@%s", role, tag, hexs(c.Rel()), total-len(rr), showRoute(rr)))
			if tag >= 70 && tag < 80 {
				return aries.Miss
			}
			return nil
		}
	}
}

func chainImpl(defs [3]int, regs [3][]rReg, reqs []rReq) []string {
	var log []string
	mk := chainFunc(&log)
	s := &aries.ServiceSet{
		Auth:     &authImpl{r: new(ssRun), serve: tierSpec{kind: "miss"}, setup: "keep"},
		Resource: buildRouterImpl(-1, defs[0], regs[0], mk),
		Guest:    buildRouterImpl(-1, defs[1], regs[1], mk),
		User:     buildRouterImpl(-1, defs[2], regs[2], mk),
	}
	var out []string
	for _, q := range reqs {
		log = nil
		res := func() (o string) {
			defer func() {
				if recover() != nil {
					o = "panic"
				}
			}()
			c := aries.NewContext(httptest.NewRecorder(), newReq(q.method, q.path, "h"))
			c.User = "u"
			if q.pos > 0 {
				c.ShiftRoute(q.pos)
			}
			err := s.Serve(c)
			switch {
			case err == aries.Miss:
				return "miss"
			case err == nil:
				return "ok"
			}
			return "err"
		}()
		inv := "-"
		if len(log) > 0 {
			inv = strings.Join(log, "|")
		}
		out = append(out, inv+">"+res)
	}
	return out
}

// chainSpec is the direct oracle, written from the property text: every tier
// decides on the request's own path (the position the service set was handed);
// a handler runs only if it is registered, in its own router, for the longest
// segment-wise prefix of that path; a tier that misses changes nothing for the
// next one.
func chainSpec(defs [3]int, regs [3][]rReg, reqs []rReq) []string {
	var out []string
	for _, q := range reqs {
		all := splitSegs(q.path)
		var inv []string
		res := "miss"
		for t := 0; t < 3; t++ {
			_, b := routerSpec(-1, defs[t], regs[t], []rReq{q})
			r := b[0]
			if r == "badmethod" {
				res = "err"
				break
			}
			if r == "miss" {
				continue
			}
			p := strings.Split(r, "@")
			np, _ := strconv.Atoi(p[2])
			inv = append(inv, r+"@"+showRoute(all[np:]))
			tag, _ := strconv.Atoi(p[0][1:])
			if tag >= 70 && tag < 80 {
				continue
			}
			res = "ok"
			break
		}
		is := "-"
		if len(inv) > 0 {
			is = strings.Join(inv, "|")
		}
		out = append(out, is+">"+res)
	}
	return out
}

func (e *env) runChain(ws []string) string {
	get := func(k string) string { v, _ := kv(ws, k); return v }
	var defs [3]int
	var regs [3][]rReg
	for i := 0; i < 3; i++ {
		defs[i] = optTag(get(fmt.Sprintf("d%d", i+1)))
		r, ok := parseRouterRegs(get(fmt.Sprintf("r%d", i+1)))
		if !ok {
			return "bad-op"
		}
		regs[i] = r
	}
	var reqs []rReq
	for _, q := range listOf(get("reqs")) {
		p := strings.Split(q, ":")
		if len(p) != 3 {
			return "bad-op"
		}
		pos, _ := strconv.Atoi(p[2])
		reqs = append(reqs, rReq{unhex(p[0]), unhex(p[1]), pos})
	}
	got := chainImpl(defs, regs, reqs)
	want := chainSpec(defs, regs, reqs)
	mk := func(regs [3][]rReg, reqs []rReq) string {
		return fmt.Sprintf("chain d1=%s d2=%s d3=%s r1=%s r2=%s r3=%s reqs=%s", showOptTag(defs[0]), showOptTag(defs[1]), showOptTag(defs[2]),
			showRouterRegs(regs[0]), showRouterRegs(regs[1]), showRouterRegs(regs[2]), showReqs(reqs))
	}
	for i := range got {
		if got[i] != want[i] {
			q := []rReq{reqs[i]}
			cur := regs
			bad := func(r [3][]rReg) bool {
				return safeBad(func() bool { return chainImpl(defs, r, q)[0] != chainSpec(defs, r, q)[0] })
			}
			for changed := true; changed; {
				changed = false
				for t := 0; t < 3 && !changed; t++ {
					for k := 0; k < len(cur[t]); k++ {
						cand := cur
						cand[t] = append(append([]rReg{}, cur[t][:k]...), cur[t][k+1:]...)
						if bad(cand) {
							cur, changed = cand, true
							break
						}
					}
				}
			}
			e.fail("tier-fallthrough-sees-shifted-route", fmt.Sprintf("%s %q through a service set whose tiers are routers (resource: %s; guest: %s; user: %s): handlers invoked > outcome = %s; deciding every tier on the request's own path gives %s — a router that returns Miss leaves the route position shifted, so the next tier matches on a suffix of the path",
				q[0].method, q[0].path, showRouterRegs(cur[0]), showRouterRegs(cur[1]), showRouterRegs(cur[2]), chainImpl(defs, cur, q)[0], chainSpec(defs, cur, q)[0]), []string{mk(cur, q)})
			break
		}
	}
	return "serve=" + showList(got)
}

// ---------------------------------------------------------------- service set

type tierSpec struct {
	kind  string // nil miss ok err missset
	user  string
	level int
}

func parseTier(s string) (tierSpec, bool) {
	switch s {
	case "nil", "miss", "ok", "err":
		return tierSpec{kind: s}, true
	}
	p := strings.Split(s, ":")
	if len(p) == 3 && p[0] == "missset" {
		l, err := strconv.Atoi(p[2])
		return tierSpec{"missset", unhex(p[1]), l}, err == nil
	}
	return tierSpec{}, false
}

type traceEnt struct {
	tier, user string
	level      int
}

type ssRun struct {
	trace       []traceEnt
	setupFailed bool
}

var errTier = fmt.Errorf("tier error")
var errSetup = fmt.Errorf("setup error")

func (r *ssRun) svc(name string, t tierSpec) aries.Service {
	if t.kind == "nil" {
		return nil
	}
	return aries.Func(func(c *aries.C) error {
		r.trace = append(r.trace, traceEnt{name, c.User, c.UserLevel})
		switch t.kind {
		case "ok":
			return nil
		case "err":
			return errTier
		case "missset":
			c.User, c.UserLevel = t.user, t.level
		}
		return aries.Miss
	})
}

type authImpl struct {
	r     *ssRun
	serve tierSpec
	setup string
}

func (a *authImpl) Serve(c *aries.C) error {
	return a.r.svc("authServe", a.serve).Serve(c)
}

func (a *authImpl) Setup(c *aries.C) error {
	a.r.trace = append(a.r.trace, traceEnt{"authSetup", c.User, c.UserLevel})
	if a.setup == "err" {
		a.r.setupFailed = true
		return errSetup
	}
	if p := strings.Split(a.setup, ":"); len(p) == 3 && (p[0] == "set" || p[0] == "seterr") {
		l, _ := strconv.Atoi(p[2])
		c.User, c.UserLevel = unhex(p[1]), l
		if p[0] == "seterr" { // an Auth that applies the claims before it verifies them
			a.r.setupFailed = true
			return errSetup
		}
	}
	return nil
}

func predOf(s string) (func(c *aries.C) bool, func(user string, level int) bool) {
	var f func(user string, level int) bool
	switch s {
	case "default":
		return nil, func(u string, l int) bool { return u != "" && l > 0 }
	case "true":
		f = func(string, int) bool { return true }
	case "false":
		f = func(string, int) bool { return false }
	case "lvl2":
		f = func(_ string, l int) bool { return l >= 2 }
	case "anon":
		f = func(u string, _ int) bool { return u == "" }
	case "usera":
		f = func(u string, _ int) bool { return u == "a" }
	default:
		return nil, nil
	}
	return func(c *aries.C) bool { return f(c.User, c.UserLevel) }, f
}

func (e *env) runSvc(ws []string) string {
	get := func(k string) string { v, _ := kv(ws, k); return v }
	mode, path, user := get("mode"), unhex(get("path")), unhex(get("user"))
	level, err := strconv.Atoi(get("level"))
	if err != nil {
		return "bad-op"
	}
	pred, predPure := predOf(get("adm"))
	if predPure == nil {
		return "bad-op"
	}
	run := new(ssRun)
	var tiers [6]tierSpec
	for i, k := range []string{"auth", "res", "guest", "usr", "admin", "signin"} {
		t, ok := parseTier(get(k))
		if !ok {
			return "bad-op"
		}
		tiers[i] = t
	}
	s := &aries.ServiceSet{
		Resource: run.svc("resource", tiers[1]),
		Guest:    run.svc("guest", tiers[2]),
		User:     run.svc("user", tiers[3]),
		Admin:    run.svc("admin", tiers[4]),
		IsAdmin:  pred,
	}
	if tiers[0].kind != "nil" {
		s.Auth = &authImpl{r: run, serve: tiers[0], setup: get("setup")}
	}
	if tiers[5].kind != "nil" {
		f := run.svc("signin", tiers[5])
		s.InternalSignIn = func(c *aries.C) error { return f.Serve(c) }
	}
	w := httptest.NewRecorder()
	c := aries.NewContext(w, newReq("GET", path, "h"))
	c.User, c.UserLevel = user, level
	out := func() (o string) {
		defer func() {
			if recover() != nil {
				o = "panic"
			}
		}()
		var err error
		if mode == "internal" {
			err = s.ServeInternal(c)
		} else {
			err = s.Serve(c)
		}
		switch {
		case err == aries.Miss:
			return "miss"
		case err == aries.NeedSignIn:
			return "needsignin"
		case err != nil:
			return "err"
		case w.Code == http.StatusFound && w.Header().Get("Location") == "/":
			return "redirect"
		}
		return "ok"
	}()
	line := "svc " + strings.Join(ws, " ")
	var tr []string
	// direct oracle: the tier rules of the property
	// from the text: a request whose Auth.Setup failed is not dispatched to any tier
	if run.setupFailed {
		after := false
		for _, t := range run.trace {
			if t.tier == "authSetup" {
				after = true
			} else if after {
				e.fail("served-after-failed-auth-setup", fmt.Sprintf("Auth.Setup returned an error (leaving c.User=%q, level %d) and the %s tier was invoked all the same; outcome %s",
					c.User, c.UserLevel, t.tier, out), []string{line})
				break
			}
		}
		if out != "err" && out != "panic" {
			e.fail("served-after-failed-auth-setup", fmt.Sprintf("Auth.Setup returned an error and the service set answered %s instead of that error", out), []string{line})
		}
	}
	gateAdmin := false // internal: value of the admin predicate when the gate was passed
	for i, t := range run.trace {
		tr = append(tr, fmt.Sprintf("%s@%s@%d", t.tier, hexs(t.user), t.level))
		if mode != "internal" {
			if t.tier == "user" && t.user == "" {
				e.fail("tier-user-invoked-for-anonymous", "ServiceSet.Serve invoked the user tier with an empty c.User", []string{line})
			}
			if t.tier == "admin" && !predPure(t.user, t.level) {
				e.fail("tier-admin-invoked-for-non-admin", fmt.Sprintf("ServiceSet.Serve invoked the admin tier for user %q level %d, who is not an admin", t.user, t.level), []string{line})
			}
		} else if t.tier == "guest" || t.tier == "user" || t.tier == "admin" {
			// the gate is evaluated after the resource tier: on the context
			// the first gated tier receives
			first := true
			for _, p := range run.trace[:i] {
				if p.tier == "guest" || p.tier == "user" || p.tier == "admin" {
					first = false
				}
			}
			if first {
				gateAdmin = predPure(t.user, t.level)
			}
			if !gateAdmin {
				e.fail("tier-internal-invoked-for-non-admin", fmt.Sprintf("ServeInternal invoked the %s tier although the admin predicate rejects user %q level %d", t.tier, t.user, t.level), []string{line})
			}
		}
	}
	return "trace=" + showList(tr) + " out=" + out
}

// ---------------------------------------------------------------- host mux

func (e *env) runHost(ws []string) string {
	ss, _ := kv(ws, "sets")
	qs, _ := kv(ws, "reqs")
	hm := aries.NewHostMux()
	spec := map[string]string{}
	for _, s := range listOf(ss) {
		p := strings.Split(s, ":")
		if len(p) != 2 {
			return "bad-op"
		}
		t, _ := strconv.Atoi(p[1])
		hm.Set(unhex(p[0]), tagFunc(t))
		spec[unhex(p[0])] = p[1]
	}
	var out []string
	for _, q := range listOf(qs) {
		host := unhex(q)
		w := httptest.NewRecorder()
		c := aries.NewContext(w, newReq("GET", "/", host))
		err := hm.Serve(c)
		got := "miss"
		if err == nil {
			got = w.Body.String()
		} else if err != aries.Miss {
			got = "err"
		}
		want, ok := spec[host]
		if !ok {
			want = "miss"
		}
		if got != want {
			e.fail("host-wrong-service", fmt.Sprintf("host %q was served by %s, the service bound to exactly this host is %s", host, got, want),
				[]string{"host sets=" + ss + " reqs=" + q + hdrSuffix()})
		}
		out = append(out, got)
	}
	return "serve=" + showList(out)
}

// ---------------------------------------------------------------- dispatch

// runOp executes one op.  An op with `hdr=<name>:<value>,...` is executed with
// these extra request headers and once more without them: routing reads the
// path, the method and Request.Host only, so both runs must give the same
// result (the model has no headers at all and answers for both).
func (e *env) runOp(line string) string {
	if !hasHdr(line) {
		return e.runOp1(line)
	}
	ws := strings.Fields(line)
	h, _ := kv(ws, "hdr")
	base := strings.Join(stripHdr(ws), " ")
	want := e.runOp1(base)
	extraHdr = parseHdr(h)
	got := e.runOp1(base)
	extraHdr = nil
	if got != want {
		var hs []string
		for _, x := range parseHdr(h) {
			hs = append(hs, fmt.Sprintf("%s: %s", x[0], x[1]))
		}
		e.fail("dispatch-depends-on-untrusted-header", fmt.Sprintf("with the extra request header(s) [%s] the dispatch changed from %s to %s (op: %s); routing must depend on path, method and Host only",
			strings.Join(hs, "; "), clip(want), clip(got), clip(base)), []string{line})
	}
	return got
}

func (e *env) runOp1(line string) (out string) {
	defer func() {
		if x := recover(); x != nil {
			out = "panic"
			e.fail("harness-op-panicked", fmt.Sprintf("op panicked: %v", x), []string{line})
		}
	}()
	ws := strings.Fields(line)
	if len(ws) == 0 {
		return "bad-op"
	}
	switch ws[0] {
	case "mux":
		return e.runMux(ws[1:])
	case "seg":
		return e.runSeg(ws[1:])
	case "route":
		return e.runRoute(ws[1:])
	case "router":
		return e.runRouter(ws[1:])
	case "nest":
		return e.runNest(ws[1:])
	case "chain":
		return e.runChain(ws[1:])
	case "svc":
		return e.runSvc(ws[1:])
	case "host":
		return e.runHost(ws[1:])
	}
	return "bad-op"
}

// ---------------------------------------------------------------- generators

var alphabet = []string{"a", "b", "/"}

// strs returns all strings over the alphabet with lo <= len <= hi.
func strs(lo, hi int) []string {
	var out []string
	level := []string{""}
	for n := 0; n <= hi; n++ {
		if n >= lo {
			out = append(out, level...)
		}
		var next []string
		for _, s := range level {
			for _, a := range alphabet {
				next = append(next, s+a)
			}
		}
		level = next
	}
	return out
}

func hexList(xs []string) string {
	var hs []string
	for _, x := range xs {
		hs = append(hs, hexs(x))
	}
	return showList(hs)
}

// seqs calls f with every sequence of k pairwise different indices < n.
func seqs(n, k int, f func(ix []int)) {
	ix := make([]int, 0, k)
	used := make([]bool, n)
	var rec func()
	rec = func() {
		if len(ix) == k {
			f(ix)
			return
		}
		for i := 0; i < n; i++ {
			if used[i] {
				continue
			}
			used[i] = true
			ix = append(ix, i)
			rec()
			ix = ix[:len(ix)-1]
			used[i] = false
		}
	}
	rec()
}

// tuples calls f with every k-tuple of indices < n (repetition allowed).
func tuples(n, k int, f func(ix []int)) {
	ix := make([]int, k)
	var rec func(d int)
	rec = func(d int) {
		if d == k {
			f(ix)
			return
		}
		for i := 0; i < n; i++ {
			ix[d] = i
			rec(d + 1)
		}
	}
	rec(0)
}

type sink struct {
	e      *env
	driver string
	buf    []string
	stream string
	chunk  int
	total  int
	sample int
	stop   bool // set once a failure was seen: the remaining generators are skipped
	reqs   map[string]int
}

func (s *sink) add(op string) {
	if s.stop {
		return
	}
	s.buf = append(s.buf, op)
	if len(s.buf) >= s.chunk {
		s.flush()
	}
}

// flush executes the buffered ops on the implementation (in parallel: every
// op is self-contained), pipes them to the driver, and diffs.
func (s *sink) flush() {
	ops := s.buf
	s.buf = nil
	if len(ops) == 0 {
		return
	}
	nw := runtime.NumCPU()
	if nw > 8 {
		nw = 8
	}
	if nw < 1 {
		nw = 1
	}
	for _, op := range ops {
		if hasHdr(op) {
			nw = 1 // extraHdr is a package variable
			break
		}
	}
	impl := make([]string, len(ops))
	var model [][]string = make([][]string, nw)
	var merr = make([]error, nw)
	var wg sync.WaitGroup
	per := (len(ops) + nw - 1) / nw
	for w := 0; w < nw; w++ {
		lo, hi := w*per, (w+1)*per
		if lo > len(ops) {
			lo = len(ops)
		}
		if hi > len(ops) {
			hi = len(ops)
		}
		wg.Add(1)
		go func(w, lo, hi int) {
			defer wg.Done()
			for i := lo; i < hi; i++ {
				impl[i] = s.e.runOp(ops[i])
			}
		}(w, lo, hi)
		if s.driver != "" && lo < hi {
			wg.Add(1)
			go func(w, lo, hi int) {
				defer wg.Done()
				model[w], merr[w] = hx.RunDriver(s.driver, nil, ops[lo:hi])
			}(w, lo, hi)
		}
	}
	wg.Wait()
	rep := s.e.rep
	for w := 0; w < nw; w++ {
		lo := w * per
		if merr[w] != nil {
			rep.Note("driver failed on stream %s: %v", s.stream, merr[w])
			rep.ModelAvailable = false
			continue
		}
		for i, m := range model[w] {
			if impl[lo+i] != m {
				rep.Disagree(s.stream, ops[lo+i], clip(impl[lo+i]), clip(m))
			}
			rep.TracesValidated++
		}
	}
	for i, op := range ops {
		h := fnv.New64a()
		h.Write([]byte(op))
		nontrivial := !strings.HasPrefix(op, "mux") && !strings.HasPrefix(op, "router") ||
			strings.ContainsAny(strings.SplitN(impl[i], " ", 2)[len(strings.SplitN(impl[i], " ", 2))-1], "0123456789")
		rep.Case(strconv.FormatUint(h.Sum64(), 36), nontrivial)
		rep.Count("ops:" + s.stream)
		if s.reqs == nil {
			s.reqs = map[string]int{}
		}
		s.reqs[s.stream] += 1 + strings.Count(op[strings.LastIndex(op, "=")+1:], ",")
		if s.total%s.sample == 0 {
			rep.Sample(map[string]string{"op": clip(op), "impl": clip(impl[i])})
		}
		s.total++
	}
	if len(rep.OracleFailures) > 0 || rep.DisagreementCount > 0 {
		s.stop = true
	}
}

func clip(s string) string {
	if len(s) > 600 {
		return s[:600] + "..."
	}
	return s
}

func genMux(s *sink, r *hx.Rand, thorough bool) {
	pool := strs(0, 3) // 40 strings incl. ""
	paths := hexList(strs(0, 4))
	maxSet := 3
	if thorough {
		maxSet = 4
	}
	// every set of <= maxSet prefixes in every insertion order
	s.stream = "mux-prefix-exhaustive"
	for k := 1; k <= maxSet; k++ {
		seqs(len(pool), k, func(ix []int) {
			if s.stop {
				return
			}
			var regs []muxReg
			for t, i := range ix {
				regs = append(regs, muxReg{"P", pool[i], t + 1})
			}
			s.add("mux regs=" + showMuxRegs(regs) + " paths=" + paths)
		})
	}
	s.flush()
	// every sequence of <= 2 (3) registrations of any kind, repetition allowed
	s.stream = "mux-kinds-exhaustive"
	kinds := []string{"P", "E", "D"}
	maxK := 2
	kpool := pool
	for k := 1; k <= maxK; k++ {
		tuples(len(kpool)*3, k, func(ix []int) {
			if s.stop {
				return
			}
			var regs []muxReg
			for t, i := range ix {
				regs = append(regs, muxReg{kinds[i%3], kpool[i/3], t + 1})
			}
			s.add("mux regs=" + showMuxRegs(regs) + " paths=" + paths)
		})
	}
	{
		// every triple of Prefix / Exact / Dir registrations (all orders, duplicates included)
		// over strings that are each other's Dir bases and Dir prefixes
		small := []string{"a", "a/", "/", "ab", "a/b", "b", "b/", "/a"}
		if thorough {
			small = strs(1, 2)
		}
		tuples(len(small)*3, 3, func(ix []int) {
			if s.stop {
				return
			}
			var regs []muxReg
			for t, i := range ix {
				regs = append(regs, muxReg{kinds[i%3], small[i/3], t + 1})
			}
			s.add("mux regs=" + showMuxRegs(regs) + " paths=" + paths)
		})
	}
	s.flush()
	// random larger sets: many shared prefixes, longer strings
	s.stream = "mux-random"
	n := 1500
	if thorough {
		n = 60000
	}
	for i := 0; i < n && !s.stop; i++ {
		cnt := 4 + r.Intn(28)
		var regs []muxReg
		var words []string
		for k := 0; k < cnt; k++ {
			var w string
			if len(words) > 0 && r.Intn(3) != 0 {
				// extend, truncate or perturb an earlier word: shared prefixes and splits
				w = hx.Pick(r, words)
				switch r.Intn(4) {
				case 0:
					w = w[:r.Intn(len(w)+1)]
				case 1:
					w += randWord(r, 1+r.Intn(3))
				case 2:
					w = w[:r.Intn(len(w)+1)] + randWord(r, 1+r.Intn(2))
				}
			} else {
				w = randWord(r, r.Intn(8))
			}
			words = append(words, w)
			kind := "P"
			if r.Intn(5) == 0 {
				kind = hx.Pick(r, kinds)
			}
			regs = append(regs, muxReg{kind, w, k + 1})
		}
		var ps []string
		for k := 0; k < 40; k++ {
			w := hx.Pick(r, words)
			switch r.Intn(4) {
			case 0:
				w = w[:r.Intn(len(w)+1)]
			case 1:
				w += randWord(r, 1+r.Intn(3))
			case 2:
				w = randWord(r, r.Intn(9))
			}
			ps = append(ps, w)
		}
		s.add("mux regs=" + showMuxRegs(regs) + " paths=" + hexList(ps))
	}
	s.flush()
}

func randWord(r *hx.Rand, n int) string {
	b := make([]byte, n)
	for i := range b {
		b[i] = alphabet[r.Intn(3)][0]
	}
	return string(b)
}

func genSeg(s *sink, r *hx.Rand, thorough bool) {
	s.stream = "segtrie-exhaustive"
	segs := []string{"a", "b", ""}
	var routes [][]string
	var level [][]string = [][]string{nil}
	for n := 0; n <= 4; n++ {
		if n <= 3 {
			routes = append(routes, level...)
		}
		var next [][]string
		for _, rt := range level {
			for _, sg := range segs {
				next = append(next, append(append([]string{}, rt...), sg))
			}
		}
		if n == 4 {
			break
		}
		level = next
	}
	// routes: all with <= 3 segments (40); finds: all with <= 4 segments
	var finds []string
	for _, rt := range routes {
		finds = append(finds, showRoute(rt))
	}
	for _, rt := range level {
		finds = append(finds, showRoute(rt))
	}
	fs := showList(finds)
	small := routes[:13] // <= 2 segments
	emit := func(pool [][]string, k int) {
		tuples(len(pool), k, func(ix []int) {
			if s.stop {
				return
			}
			var as []string
			for t, i := range ix {
				as = append(as, fmt.Sprintf("%s:%s", showRoute(pool[i]), hexs(fmt.Sprintf("v%d", t))))
			}
			s.add("seg adds=" + showList(as) + " finds=" + fs)
		})
	}
	emit(routes, 1)
	emit(routes, 2)
	if thorough {
		emit(routes, 3)
		emit(small, 4)
	} else {
		emit(small, 3)
	}
	s.add("seg adds=" + showRoute([]string{"a"}) + ":-," + showRoute([]string{"a"}) + ":" + hexs("v") + " finds=" + fs)
	s.flush()
	s.stream = "segtrie-random"
	n := 400
	if thorough {
		n = 20000
	}
	for i := 0; i < n; i++ {
		words := []string{"a", "b", "ab", "", "c"}
		cnt := 3 + r.Intn(20)
		var as []string
		var rts [][]string
		for k := 0; k < cnt; k++ {
			var rt []string
			if len(rts) > 0 && r.Intn(2) == 0 {
				rt = append(rt, hx.Pick(r, rts)...)
				if r.Bool() && len(rt) > 0 {
					rt = rt[:r.Intn(len(rt)+1)]
				}
			}
			for m := r.Intn(4); m > 0; m-- {
				rt = append(rt, hx.Pick(r, words))
			}
			rts = append(rts, rt)
			as = append(as, fmt.Sprintf("%s:%s", showRoute(rt), hexs(fmt.Sprintf("v%d", k))))
		}
		var fl []string
		for k := 0; k < 30; k++ {
			rt := append([]string{}, hx.Pick(r, rts)...)
			if r.Bool() && len(rt) > 0 {
				rt = rt[:r.Intn(len(rt)+1)]
			}
			for m := r.Intn(3); m > 0; m-- {
				rt = append(rt, hx.Pick(r, words))
			}
			fl = append(fl, showRoute(rt))
		}
		s.add("seg adds=" + showList(as) + " finds=" + showList(fl))
	}
	s.flush()
}

func genRoute(s *sink, thorough bool) {
	s.stream = "route-split"
	n := 6
	if thorough {
		n = 9
	}
	for _, p := range strs(0, n) {
		s.add("route " + hexs(p))
	}
	s.flush()
}

func routerReqs(paths []string, methods []string) []rReq {
	var out []rReq
	for _, p := range paths {
		for _, m := range methods {
			out = append(out, rReq{m, p, 0})
		}
		if len(splitSegs(p)) >= 2 {
			out = append(out, rReq{methods[0], p, 1})
		}
	}
	return out
}

func genRouter(s *sink, r *hx.Rand, thorough bool) {
	pool := strs(0, 3)
	kinds := []rReg{{kind: "F"}, {kind: "D"}, {kind: "M", method: "GET"}, {kind: "M", method: "POST"}}
	extra := []string{"/a/b/", "a/b/a", "a/b/b", "a//b/", "/a//b", "b/a/a", "a/a/a", "/a/a/a", "/a/b/a/", "ab/a/", "/ab/b", "a/ab/", "/b/a/b"}
	paths := append(strs(0, 4), extra...)
	reqs := showReqs(routerReqs(paths, []string{"GET", "POST"}))
	reqsGet := showReqs(routerReqs(paths, []string{"GET"}))
	mkReg := func(i int, pl []string, ks []rReg, tag int) rReg {
		g := ks[i%len(ks)]
		g.path = pl[i/len(ks)]
		g.tag = tag
		return g
	}
	idxdef := func(n int) (int, int) {
		switch n % 4 {
		case 0:
			return -1, -1
		case 1:
			return 90, -1
		case 2:
			return -1, 91
		}
		return 90, 91
	}
	s.stream = "router-exhaustive"
	cnt := 0
	emit := func(pl []string, ks []rReg, k int, rq string) {
		tuples(len(pl)*len(ks), k, func(ix []int) {
			if s.stop {
				return
			}
			var regs []rReg
			for t, i := range ix {
				regs = append(regs, mkReg(i, pl, ks, t+1))
			}
			idx, def := idxdef(cnt)
			cnt++
			s.add(fmt.Sprintf("router idx=%s def=%s regs=%s reqs=%s", showOptTag(idx), showOptTag(def), showRouterRegs(regs), rq))
		})
	}
	// no route at all: index / default only
	for i := 0; i < 4; i++ {
		idx, def := idxdef(i)
		s.add(fmt.Sprintf("router idx=%s def=%s regs=_ reqs=%s", showOptTag(idx), showOptTag(def), reqs))
	}
	// every sequence of <= 2 registrations (all strings, all kinds; repetition = duplicates)
	emit(pool, kinds, 1, reqs)
	emit(pool, kinds, 2, reqs)
	// every sequence of 3 over representatives of every canonical route shape
	reps := []string{"a", "b", "ab", "a/a", "a/b", "b/a", "a/", "/b", "aa"}
	emit(reps, kinds[:3], 3, reqsGet)
	// mixed Dir/File sets under shared prefixes, three levels deep, in every order:
	// every sequence of 3 (thorough: 4) pairwise different (shape, kind) items
	{
		shapes := []string{"a", "a/b", "a/b/c", "a/c", "a/b/a", "b", "/b/a/"}
		fd := kinds[:2]
		var dp []string
		for _, x := range []string{"a", "b", "c"} {
			dp = append(dp, x)
			for _, y := range []string{"a", "b", "c"} {
				dp = append(dp, x+"/"+y)
				for _, z := range []string{"a", "b", "c"} {
					dp = append(dp, x+"/"+y+"/"+z, x+"/"+y+"/"+z+"/a")
				}
			}
		}
		var deep []string
		for _, p := range dp {
			deep = append(deep, "/"+p, p+"/")
		}
		rq := showReqs(routerReqs(deep, []string{"GET"}))
		k := 3
		if thorough {
			k = 4
		}
		seqs(len(shapes)*len(fd), k, func(ix []int) {
			if s.stop {
				return
			}
			var regs []rReg
			for t, i := range ix {
				regs = append(regs, mkReg(i, shapes, fd, t+1))
			}
			idx, def := idxdef(cnt)
			cnt++
			s.add(fmt.Sprintf("router idx=%s def=%s regs=%s reqs=%s", showOptTag(idx), showOptTag(def), showRouterRegs(regs), rq))
		})
	}
	if thorough {
		emit(pool, kinds[:2], 3, reqsGet)
		emit(reps[:7], kinds[:3], 4, reqsGet)
	}
	s.flush()
	s.stream = "router-random"
	n := 1200
	if thorough {
		n = 50000
	}
	words := []string{"a", "b", "ab", "c", "aa"}
	for i := 0; i < n && !s.stop; i++ {
		c := 3 + r.Intn(25)
		var regs []rReg
		var rts [][]string
		for k := 0; k < c; k++ {
			var rt []string
			if len(rts) > 0 && r.Intn(2) == 0 {
				rt = append(rt, hx.Pick(r, rts)...)
				if r.Bool() {
					rt = rt[:r.Intn(len(rt)+1)]
				}
			}
			for m := 1 + r.Intn(3); m > 0 && len(rt) < 6; m-- {
				rt = append(rt, hx.Pick(r, words))
			}
			rts = append(rts, rt)
			g := hx.Pick(r, kinds)
			g.path = decorate(r, rt)
			g.tag = k + 1
			regs = append(regs, g)
		}
		var qs []rReq
		for k := 0; k < 40; k++ {
			rt := append([]string{}, hx.Pick(r, rts)...)
			if r.Intn(3) == 0 {
				rt = rt[:r.Intn(len(rt)+1)]
			}
			for m := r.Intn(3); m > 0; m-- {
				rt = append(rt, hx.Pick(r, words))
			}
			q := rReq{hx.Pick(r, []string{"GET", "POST", "PUT", ""}), decorate(r, rt), 0}
			if r.Intn(6) == 0 {
				q.pos = r.Intn(len(rt) + 2)
			}
			qs = append(qs, q)
		}
		idx, def := idxdef(r.Intn(4))
		s.add(fmt.Sprintf("router idx=%s def=%s regs=%s reqs=%s", showOptTag(idx), showOptTag(def), showRouterRegs(regs), showReqs(qs)))
	}
	s.flush()
}

// decorate joins segments with leading / trailing / repeated slashes.
func decorate(r *hx.Rand, rt []string) string {
	var b strings.Builder
	if r.Intn(4) != 0 {
		b.WriteString("/")
	}
	if r.Intn(8) == 0 {
		b.WriteString("/")
	}
	for i, s := range rt {
		if i > 0 {
			b.WriteString("/")
			if r.Intn(8) == 0 {
				b.WriteString("/")
			}
		}
		b.WriteString(s)
	}
	if r.Intn(3) == 0 {
		b.WriteString("/")
		if r.Intn(6) == 0 {
			b.WriteString("/")
		}
	}
	return b.String()
}

func genSvc(s *sink, r *hx.Rand, thorough bool) {
	s.stream = "tiers-exhaustive"
	modes := []string{"serve", "internal"}
	paths := []string{"/", "/x"}
	users := []string{"", "a", "b"}
	levels := []int{0, 1}
	adms := []string{"default", "true", "false", "lvl2", "anon", "usera"}
	auths := []string{"miss", "nil"}
	setups := []string{"keep", "set:" + hexs("a") + ":1", "set:-:5", "err", "seterr:" + hexs("a") + ":1"}
	tk := []string{"miss", "ok"}
	signins := []string{"nil"}
	if thorough {
		levels = []int{-1, 0, 1, 2}
		auths = []string{"miss", "nil", "ok", "err"}
		setups = append(setups, "seterr:"+hexs("a")+":0", "seterr:-:3", "set:"+hexs("a")+":0", "set:-:0")
		tk = []string{"nil", "miss", "ok", "err"}
		signins = []string{"nil", "ok"}
	}
	line := func(mode, path, user string, level int, adm, auth, setup, res, guest, usr, admin, signin string) string {
		return fmt.Sprintf("svc mode=%s path=%s user=%s level=%d adm=%s auth=%s setup=%s res=%s guest=%s usr=%s admin=%s signin=%s",
			mode, hexs(path), hexs(user), level, adm, auth, setup, res, guest, usr, admin, signin)
	}
	for _, mode := range modes {
		for _, path := range paths {
			for _, user := range users {
				for _, level := range levels {
					for _, adm := range adms {
						for _, auth := range auths {
							for _, setup := range setups {
								for _, signin := range signins {
									tuples(len(tk), 4, func(ix []int) {
										if s.stop {
											return
										}
										s.add(line(mode, path, user, level, adm, auth, setup, tk[ix[0]], tk[ix[1]], tk[ix[2]], tk[ix[3]], signin))
									})
								}
							}
						}
					}
				}
			}
		}
	}
	s.flush()
	s.stream = "tiers-random"
	n := 30000
	if thorough {
		n = 300000
	}
	allT := []string{"nil", "miss", "ok", "err", "missset:-:0", "missset:" + hexs("a") + ":0", "missset:" + hexs("a") + ":3", "missset:-:3", "miss", "miss"}
	allSetup := []string{"keep", "err", "seterr:" + hexs("a") + ":2", "seterr:" + hexs("b") + ":0", "seterr:-:1", "set:" + hexs("a") + ":1", "set:-:5", "set:" + hexs("a") + ":0", "set:-:0", "set:" + hexs("b") + ":2"}
	for i := 0; i < n; i++ {
		s.add(line(hx.Pick(r, modes), hx.Pick(r, paths), hx.Pick(r, users), hx.Pick(r, []int{-1, 0, 1, 2}), hx.Pick(r, adms),
			hx.Pick(r, []string{"miss", "miss", "miss", "nil", "ok", "err", "missset:" + hexs("b") + ":1"}), hx.Pick(r, allSetup),
			hx.Pick(r, allT), hx.Pick(r, allT), hx.Pick(r, allT), hx.Pick(r, allT), hx.Pick(r, []string{"nil", "ok", "err"})))
	}
	s.flush()
}

// genNest: directory handlers (and a guest tier) that scribble over what
// RelRoute() returned before a nested router looks at the rest of the path.
func genNest(s *sink, r *hx.Rand, thorough bool) {
	s.stream = "nested-scribble"
	outers := []string{"a", "b", "a/b"}
	scrs := []string{"a", "u", "l", "t"}
	pool := []string{"a", "b", "ab", "a/b", "b/a", "b/b", "a/a"}
	kinds := []rReg{{kind: "F"}, {kind: "D"}}
	n := 4
	if thorough {
		n = 5
		kinds = append(kinds, rReg{kind: "M", method: "GET"})
	}
	var paths []string
	for _, p := range strs(1, n) {
		if len(splitSegs(p)) >= 1 {
			paths = append(paths, p)
		}
	}
	paths = append(paths, "/a/b/a/b", "/a/a/b/", "b/a/b/b", "/a/b/b/a/", "a//b//a", "/b/b/a/a")
	reqs := showReqs(routerReqs(paths, []string{"GET"}))
	cnt := 0
	for k := 1; k <= 2; k++ {
		tuples(len(pool)*len(kinds), k, func(ix []int) {
			if s.stop {
				return
			}
			var regs []rReg
			for t, i := range ix {
				g := kinds[i%len(kinds)]
				g.path, g.tag = pool[i/len(kinds)], t+1
				regs = append(regs, g)
			}
			rs := showRouterRegs(regs)
			for _, scr := range scrs {
				def := "-"
				if cnt%3 == 0 {
					def = "91"
				}
				cnt++
				outer := outers[cnt%len(outers)]
				if thorough {
					for _, o := range outers {
						s.add(fmt.Sprintf("nest mode=dir outer=%s scr=%s idx=- def=%s regs=%s reqs=%s", hexs(o), scr, def, rs, reqs))
					}
				} else {
					s.add(fmt.Sprintf("nest mode=dir outer=%s scr=%s idx=- def=%s regs=%s reqs=%s", hexs(outer), scr, def, rs, reqs))
				}
				if k == 1 || thorough || cnt%4 == 0 {
					s.add(fmt.Sprintf("nest mode=tier outer=- scr=%s idx=90 def=%s regs=%s reqs=%s", scr, def, rs, reqs))
				}
			}
		})
	}
	s.flush()
}

// genChain: two or three routers as the tiers of one service set; the earlier
// ones miss after matching part of the path (a file that is not a complete
// match, a directory or default handler that returns Miss, no match at all).
func genChain(s *sink, r *hx.Rand, thorough bool) {
	s.stream = "tier-fallthrough"
	pool := []string{"a", "b", "a/b", "b/a", "a/a"}
	type item struct {
		kind string
		tag  int
	}
	items := []item{{"F", 1}, {"D", 1}, {"D", 71}}
	if thorough {
		pool = append(pool, "ab", "b/b", "a/b/a")
	}
	var paths []string
	for _, p := range strs(1, 5) {
		if n := len(splitSegs(p)); n >= 1 && !strings.HasPrefix(p, "//") {
			paths = append(paths, p)
		}
	}
	reqs := showReqs(routerReqs(paths, []string{"GET"}))
	n := len(pool) * len(items)
	mkReg := func(i, tag int) rReg {
		it := items[i%len(items)]
		t := tag
		if it.tag >= 70 {
			t = it.tag + tag%5
		}
		return rReg{kind: it.kind, path: pool[i/len(items)], tag: t}
	}
	cnt := 0
	// one registration in the first router, one or two in the second
	for i := 0; i < n; i++ {
		for j := 0; j < n; j++ {
			if s.stop {
				return
			}
			d1 := "-"
			if cnt%5 == 0 {
				d1 = "75"
			}
			cnt++
			r1 := showRouterRegs([]rReg{mkReg(i, 1)})
			r2 := showRouterRegs([]rReg{mkReg(j, 2)})
			s.add(fmt.Sprintf("chain d1=%s d2=- d3=- r1=%s r2=%s r3=_ reqs=%s", d1, r1, r2, reqs))
			if thorough || (i+j)%3 == 0 {
				for k := 0; k < n; k += 2 {
					r3 := showRouterRegs([]rReg{mkReg(k, 3)})
					s.add(fmt.Sprintf("chain d1=%s d2=- d3=91 r1=%s r2=%s r3=%s reqs=%s", d1, r1, r2, r3, reqs))
				}
			}
		}
	}
	s.flush()
}

// genHeaders: the same requests with extra, client-controlled headers that
// name bound and unbound hosts, other paths and other methods.
func genHeaders(s *sink, r *hx.Rand, thorough bool) {
	s.flush()
	s.stream = "untrusted-headers"
	hosts := []string{"a.com", "A.com", "b.com", "a.com:80", "", "c.com"}
	hostHdrs := []string{"X-Forwarded-Host", "X-Forwarded-For", "X-Forwarded-Proto", "Forwarded", "X-Real-IP", "Host",
		"X-Original-URL", "X-Rewrite-URL", "X-Host", "X-Forwarded-Server", "X-HTTP-Host-Override"}
	h1 := func(k, v string) string { return hexs(k) + ":" + hexs(v) }
	var hostSets []string
	for _, k := range hostHdrs {
		for _, v := range []string{"a.com", "b.com", "c.com", "A.com"} {
			val := v
			if k == "Forwarded" {
				val = "for=1.2.3.4;host=" + v + ";proto=https"
			}
			if k == "X-Forwarded-Proto" {
				val = "https"
			}
			hostSets = append(hostSets, h1(k, val))
		}
	}
	hostSets = append(hostSets, h1("X-Forwarded-Host", "b.com")+","+h1("Host", "b.com")+","+h1("X-Forwarded-For", "b.com"),
		h1("Host", "a.com")+","+h1("Host", "b.com"))
	reqs := hexList(append(append([]string{}, hosts...), "A.COM"))
	var bind [][]string
	for _, a := range hosts[:4] {
		bind = append(bind, []string{a})
		for _, b := range hosts[:4] {
			if a != b {
				bind = append(bind, []string{a, b})
			}
		}
	}
	for _, bs := range bind {
		var ss []string
		for t, h := range bs {
			ss = append(ss, fmt.Sprintf("%s:%d", hexs(h), t+1))
		}
		for _, hd := range hostSets {
			if s.stop {
				return
			}
			s.add("host sets=" + showList(ss) + " reqs=" + reqs + " hdr=" + hd)
		}
	}
	// path- and method-carrying headers against Mux, Router, nested routers, router tiers, tiers
	var pathSets []string
	for _, k := range []string{"X-Original-URL", "X-Rewrite-URL", "X-Forwarded-Prefix", "X-Forwarded-Path", "X-Forwarded-Uri", "X-Forwarded-Host", "Host", "Forwarded"} {
		for _, v := range []string{"/a", "/b/a", "/", "a/b/"} {
			pathSets = append(pathSets, h1(k, v))
		}
	}
	for _, k := range []string{"X-HTTP-Method-Override", "X-Method-Override", "X-HTTP-Method"} {
		for _, v := range []string{"POST", "GET"} {
			pathSets = append(pathSets, h1(k, v))
		}
	}
	pathSets = append(pathSets, h1("X-Forwarded-Proto", "https"), h1("X-Forwarded-For", "127.0.0.1"), h1("X-Real-IP", "127.0.0.1"),
		h1("X-Original-URL", "/b")+","+h1("X-HTTP-Method-Override", "POST")+","+h1("X-Forwarded-Host", "a.com"))
	paths := hexList(strs(0, 3))
	rq := showReqs(routerReqs(append(strs(0, 3), "/a/b", "/b/a", "/a/b/", "/b/a/x"), []string{"GET", "POST"}))
	base := []string{
		"mux regs=P:2f61:1,E:2f62:2,D:2f622f61:3,P:61:4,E:2f:5 paths=" + paths + ",2f622f61,2f622f612f78",
		"mux regs=D:2f:1,P:2f62:2,E:61:3 paths=" + paths,
		"router idx=90 def=91 regs=F:61:1,D:622f61:2,M474554:62:3,M504f5354:612f62:4 reqs=" + rq,
		"router idx=- def=- regs=D:61:1,F:612f62:2,F:62:3 reqs=" + rq,
		"nest mode=dir outer=61 scr=u idx=- def=- regs=F:62:1,D:61:2 reqs=" + rq,
		"nest mode=tier outer=- scr=a idx=90 def=- regs=F:62:1,M504f5354:61:2 reqs=" + rq,
		"chain d1=- d2=- d3=91 r1=F:61:1 r2=F:62:2,D:622f61:72 r3=M474554:612f62:3 reqs=" + rq,
	}
	for _, adm := range []string{"default", "anon", "usera"} {
		for _, path := range []string{"/", "/x"} {
			for _, mode := range []string{"serve", "internal"} {
				base = append(base, fmt.Sprintf("svc mode=%s path=%s user=%s level=1 adm=%s auth=miss setup=keep res=miss guest=miss usr=ok admin=ok signin=nil",
					mode, hexs(path), hexs("a"), adm),
					fmt.Sprintf("svc mode=%s path=%s user=- level=0 adm=%s auth=nil setup=keep res=miss guest=miss usr=ok admin=ok signin=nil",
						mode, hexs(path), adm))
			}
		}
	}
	for _, b := range base {
		for _, hd := range pathSets {
			if s.stop {
				return
			}
			s.add(b + " hdr=" + hd)
		}
	}
	s.flush()
}

// genDots: request paths whose segments are ".", "..", "...", "%2e%2e", "a."
// next to ordinary ones.  Routing is on the raw segments: nothing resolves
// them, so "/b/../a/x" is under "b" (if anything), never under "a".
func genDots(s *sink, r *hx.Rand, thorough bool) {
	s.flush()
	s.stream = "dot-segments"
	segs := []string{"a", "b", ".", "..", "...", "%2e%2e", "a."}
	depth := 3
	if thorough {
		depth = 4
	}
	var rel []string
	level := []string{""}
	for d := 1; d <= depth; d++ {
		var next []string
		for _, p := range level {
			for _, sg := range segs {
				q := sg
				if p != "" {
					q = p + "/" + sg
				}
				next = append(next, q)
			}
		}
		rel = append(rel, next...)
		level = next
	}
	var paths []string
	for i, p := range rel {
		paths = append(paths, "/"+p)
		if i%3 == 0 {
			paths = append(paths, "/"+p+"/")
		}
		if i%7 == 0 {
			paths = append(paths, p)
		}
	}
	paths = append(paths, "/..", "/../", "/a/..//b", "//../a", "/a/./b/../../b", "/.", "/./")
	rq := showReqs(routerReqs(paths, []string{"GET"}))
	mp := hexList(paths)
	pool := []string{"a", "b", "a/b", "b/a", "..", "a/..", "."}
	kinds := []rReg{{kind: "F"}, {kind: "D"}}
	for k := 1; k <= 2; k++ {
		tuples(len(pool)*2, k, func(ix []int) {
			if s.stop {
				return
			}
			var regs []rReg
			for t, i := range ix {
				g := kinds[i%2]
				g.path, g.tag = pool[i/2], t+1
				regs = append(regs, g)
			}
			rs := showRouterRegs(regs)
			s.add(fmt.Sprintf("router idx=90 def=- regs=%s reqs=%s", rs, rq))
			if k == 1 {
				s.add(fmt.Sprintf("nest mode=dir outer=%s scr=a idx=- def=91 regs=%s reqs=%s", hexs("b"), rs, rq))
				s.add(fmt.Sprintf("chain d1=- d2=- d3=- r1=%s r2=F:62:2,D:612f62:3 r3=D:61:4 reqs=%s", rs, rq))
			}
		})
	}
	mpool := []string{"/a", "/a/", "/b/", "/a/b", "/..", "/a/..", "/.", "a", "/"}
	mk := []string{"P", "E", "D"}
	for k := 1; k <= 2; k++ {
		tuples(len(mpool)*3, k, func(ix []int) {
			if s.stop {
				return
			}
			var regs []muxReg
			for t, i := range ix {
				regs = append(regs, muxReg{mk[i%3], mpool[i/3], t + 1})
			}
			s.add("mux regs=" + showMuxRegs(regs) + " paths=" + mp)
		})
	}
	// ServiceSet: ServeInternal compares c.Path with "/"; the tiers are routers in `chain` above
	for _, p := range []string{"/.", "/./", "/..", "/a/..", "/a/../", "//", "/%2e%2e", "/x/.."} {
		for _, mode := range []string{"serve", "internal"} {
			for _, u := range []string{"", "a"} {
				s.add(fmt.Sprintf("svc mode=%s path=%s user=%s level=0 adm=default auth=miss setup=keep res=miss guest=ok usr=ok admin=ok signin=ok",
					mode, hexs(p), hexs(u)))
			}
		}
	}
	// HostMux: host names are compared as they are
	hs := []string{"a.com", "a.com.", ".", "..", "a.com/..", "a.com/../b.com", "b.com", "%2e%2e"}
	for i, a := range hs {
		for j, b := range hs {
			if i != j {
				s.add(fmt.Sprintf("host sets=%s:1,%s:2 reqs=%s", hexs(a), hexs(b), hexList(hs)))
			}
		}
	}
	s.flush()
}

func genHost(s *sink) {
	s.stream = "hostmux-exhaustive"
	hosts := []string{"a.com", "A.com", "b.com", "a.com:80", "", "a.com."}
	reqs := hexList(append(append([]string{}, hosts...), "A.COM", "c.com"))
	for k := 1; k <= 3; k++ {
		tuples(len(hosts), k, func(ix []int) {
			var ss []string
			for t, i := range ix {
				ss = append(ss, fmt.Sprintf("%s:%d", hexs(hosts[i]), t+1))
			}
			s.add("host sets=" + showList(ss) + " reqs=" + reqs)
		})
	}
	s.add("host sets=_ reqs=" + reqs)
	s.flush()
}

func main() {
	log.SetOutput(io.Discard)
	f := hx.ParseFlags()
	rep := hx.NewReport("C20", f)
	rep.Rule = "one case = one op line = (a registration sequence in one insertion order, a list of requests) or one tier configuration; " +
		"distinct = distinct op line (64-bit hash); non-trivial = for mux/router lines at least one request reaches a registered handler, every other line"
	e := &env{rep: rep}
	s := &sink{e: e, driver: f.Driver, chunk: 20000, sample: 9973}

	if f.Replay != "" {
		ops, err := hx.ReadReplayOps(f.Replay)
		if err != nil {
			fmt.Println("replay:", err)
			return
		}
		s.stream = "replay"
		for _, op := range ops {
			s.add(op)
		}
		s.flush()
		rep.Write(f.Out)
		return
	}
	s.stream = "corpus"
	if os.Getenv("VERIF_NO_CORPUS") == "" { // self-validation of the generators runs without the corpus
		for _, ops := range hx.CorpusOps("C20") {
			for _, op := range ops {
				s.add(op)
			}
		}
	}
	s.flush()

	r := hx.NewRand(f.Seed)
	th := f.Thorough()
	// first the quick scopes of every stream, so that a defect in any
	// component shows up early even when the run was escalated; the thorough
	// tier then adds its larger scopes (which include the quick ones again)
	genRoute(s, false)
	genHost(s)
	genSeg(s, r, false)
	genSvc(s, r, false)
	genMux(s, r, false)
	genRouter(s, r, false)
	genNest(s, r, false)
	genChain(s, r, false)
	genHeaders(s, r, false)
	genDots(s, r, false)
	if th {
		genRoute(s, true)
		genSeg(s, r, true)
		genSvc(s, r, true)
		genRouter(s, r, true)
		genNest(s, r, true)
		genChain(s, r, true)
		genDots(s, r, true)
		genMux(s, r, true)
	}
	rep.Exhaustive = !s.stop
	if s.stop {
		rep.Note("a failure was found: generation stopped after the failing chunk, the scopes below were not completed")
	}
	rep.Distribution["requests_or_items_per_stream"] = s.reqs
	keys := make([]string, 0)
	for k := range baseReqs {
		keys = append(keys, k)
	}
	sort.Strings(keys)
	rep.Note("exhaustive scopes: mux = every set of <= %d prefixes over {a,b,/}^<=3 in every order x all paths of length <= 4; "+
		"router = every sequence of <= 2 registrations over all 40 strings x 4 kinds, every triple over 9 route shapes x 3 kinds, x 134 paths x methods; "+
		"tiers = full product of the listed parameters; random streams on top (seed %d); request methods used: %s",
		map[bool]int{false: 3, true: 4}[th], f.Seed, strings.Join(keys, " "))
	rep.Write(f.Out)
}
