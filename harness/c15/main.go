// Harness for C15: one live endpoint per name; newest wins; callbacks pair up.
// Real Server + real endpoints (sniproxy.Dial); the registry's schedule points
// (inside Server.mu) and the OnConnect/OnDisconnect callbacks give the event
// trace, which the Lean registry model must accept step by step; look-ups are
// compared at quiescent points.
package main

import (
	"context"
	"fmt"
	"io"
	"log"
	"net"
	"net/http"
	"net/http/httptest"
	"runtime"
	"sort"
	"strconv"
	"strings"
	"sync"
	"time"

	"github.com/gorilla/websocket"
	"shanhu.io/g/aries"
	"shanhu.io/g/sniproxy"
	"verif/harness/hx"
	"verif/harness/snix"
)

func goid() uint64 {
	var buf [64]byte
	n := runtime.Stack(buf[:], false)
	f := strings.Fields(string(buf[:n]))
	id, _ := strconv.ParseUint(f[1], 10, 64)
	return id
}

type recorder struct {
	mu         sync.Mutex
	lines      []string        // driver lines
	expect     []string        // what the implementation observed for that line ("" = only acceptance)
	epOfPtr    map[uintptr]int // registry identity -> model endpoint id
	epOfGo     map[uint64]int  // goroutine -> lifecycle it runs
	ptrOfEp    map[int]uintptr
	nextSess   int
	nextEp     int
	pendKick   string
	parks      map[string]chan struct{}
	parked     []chan struct{} // kick parks in use
	jitter     *hx.Rand
	unmapTry   map[int]int // ep -> index of its unmap line
	conn, disc map[int]int
}

func (r *recorder) add(line, expect string) int {
	r.lines = append(r.lines, line)
	r.expect = append(r.expect, expect)
	return len(r.lines) - 1
}

func (r *recorder) hook(ev sniproxy.VerifEvent) {
	if !strings.HasPrefix(ev.Point, "server.") {
		return
	}
	if ev.Point == "server.unmap-enter" { // outside the lock: shake the interleaving
		r.mu.Lock()
		d := time.Duration(r.jitter.Intn(3000)) * time.Microsecond
		c := r.parks["unmap-enter:"+ev.Name]
		r.mu.Unlock()
		if c != nil {
			<-c
		}
		time.Sleep(d)
		return
	}
	if ev.Point == "server.kick" {
		// hold the first kicker of a chosen name between its look-up and its map write for a while:
		// a connection that arrives meanwhile must wait for it (or the kick would miss one of the two)
		r.mu.Lock()
		c := r.parks["kick:"+ev.Name]
		if c != nil {
			delete(r.parks, "kick:"+ev.Name)
			r.parked = append(r.parked, c)
		}
		r.mu.Unlock()
		if c != nil {
			select {
			case <-c:
			case <-time.After(400 * time.Millisecond):
			}
		}
	}
	r.mu.Lock()
	defer r.mu.Unlock()
	nm := strings.TrimPrefix(ev.Name, epPrefix)
	switch ev.Point {
	case "server.kick":
		r.pendKick = fmt.Sprint(r.epOfPtr[ev.Ptr])
	case "server.map":
		// ids count the map events; an address can be reused by a later endpoint client once
		// the earlier one is garbage, so the pointer maps to the latest lifecycle that used it
		id := r.nextEp
		r.nextEp++
		r.epOfPtr[ev.Ptr] = id
		r.ptrOfEp[id] = ev.Ptr
		r.epOfGo[goid()] = id
		k := r.pendKick
		if k == "" {
			k = "-"
		}
		r.pendKick = ""
		r.add("upgrade name="+nm, fmt.Sprintf("ep=%d kicked=%s", id, k))
	case "server.unmap-try":
		id := r.epOfPtr[ev.Ptr]
		r.unmapTry[id] = r.add(fmt.Sprintf("unmap ep=%d", id), "deleted=0")
	case "server.unmap-del":
		id := r.epOfPtr[ev.Ptr]
		r.expect[r.unmapTry[id]] = "deleted=1"
	}
}

// specLookup is the property itself: a name resolves to the most recently mapped
// lifecycle for it, unless that one has already run its unmap (then to nothing).
func (r *recorder) specLookup(nm string) string {
	last := -1
	id := 0
	for _, l := range r.lines {
		if strings.HasPrefix(l, "upgrade name=") {
			if l == "upgrade name="+nm {
				last = id
			}
			id++
		}
	}
	if last < 0 {
		return "none"
	}
	if _, ran := r.unmapTry[last]; ran {
		return "none"
	}
	return fmt.Sprintf("ep=%d", last)
}

func (r *recorder) onConnect(name string) int64 {
	r.mu.Lock()
	id, ok := r.epOfGo[goid()]
	s := r.nextSess // the first session value is 0: a session value like any other
	r.nextSess++
	if ok {
		r.add(fmt.Sprintf("connect ep=%d sess=%d", id, s), "ok")
		r.conn[s]++
	} else {
		r.add("connect ep=999999 sess=0", "ok") // OnConnect for a request that was not accepted as an endpoint connection
		r.conn[s]++
	}
	c := r.parks["connect:"+name]
	d := time.Duration(r.jitter.Intn(2000)) * time.Microsecond
	r.mu.Unlock()
	if c != nil {
		select {
		case <-c:
		case <-time.After(3 * time.Second): // never hold a callback for ever
		}
	}
	time.Sleep(d)
	return int64(s)
}

func (r *recorder) onDisconnect(name string, sess int64) {
	r.mu.Lock()
	id, ok := r.epOfGo[goid()]
	if !ok {
		id = 999999
	}
	r.add(fmt.Sprintf("disconnect ep=%d sess=%d", id, sess), "ok")
	r.disc[int(sess)]++
	d := time.Duration(r.jitter.Intn(2000)) * time.Microsecond
	r.mu.Unlock()
	time.Sleep(d)
}

type trackDialer struct {
	mu    sync.Mutex
	conns []net.Conn
}

func (t *trackDialer) dial(ctx context.Context, network, addr string) (net.Conn, error) {
	var d net.Dialer
	c, err := d.DialContext(ctx, network, addr)
	if err == nil {
		t.mu.Lock()
		t.conns = append(t.conns, c)
		t.mu.Unlock()
	}
	return c, err
}

// scenario: "life name=<n> end=<close|sever|leave> delay=<us>" per lifecycle, started in order with delays;
// "kickwhileconnecting name=<n>" parks the first lifecycle of the name inside OnConnect until the second has mapped.
type scenario struct{ lines []string }

// endpoint names carry upper-case letters and punctuation: the registry's keys are the names as given
const epPrefix = "Site-Ep."

func gen(r *hx.Rand, big bool) scenario {
	var ls []string
	if r.Intn(4) == 0 {
		ls = append(ls, fmt.Sprintf("kickwhileconnecting name=%d", r.Intn(2)))
	}
	if r.Intn(4) == 0 {
		ls = append(ls, fmt.Sprintf("holdunmap name=%d", r.Intn(2)))
	}
	if r.Intn(4) == 0 {
		ls = append(ls, fmt.Sprintf("holdkick name=%d", r.Intn(2)))
	}
	hungAt := -1
	if r.Intn(5) == 0 {
		hungAt = r.Intn(2)
	}
	k := 2 + r.Intn(5)
	if big {
		k = 2 + r.Intn(12)
	}
	for i := 0; i < k; i++ {
		if r.Intn(6) == 0 {
			ls = append(ls, fmt.Sprintf("plainget name=%d", r.Intn(2)))
		}
		if r.Intn(3) == 0 {
			// a front connection looks the name up while endpoints come and go (name 2 never has one)
			ls = append(ls, fmt.Sprintf("front name=%d", r.Intn(3)))
		}
		end := hx.Pick(r, []string{"close", "sever", "leave", "leave"})
		if i == hungAt {
			end = hx.Pick(r, []string{"hung", "hung-hinted"}) // a peer that completes the handshake and then never answers anything
		}
		ls = append(ls, fmt.Sprintf("life name=%d end=%s delay=%d", r.Intn(2), end, r.Intn(3000)))
	}
	return scenario{ls}
}

func kvs(ws []string, k string) string {
	for _, w := range ws {
		if strings.HasPrefix(w, k+"=") {
			return w[len(k)+1:]
		}
	}
	return ""
}

func run(sc scenario, seed uint64, rep *hx.Report) (lines, expect []string, skipped string) {
	rec := &recorder{epOfPtr: map[uintptr]int{}, epOfGo: map[uint64]int{}, ptrOfEp: map[int]uintptr{}, parks: map[string]chan struct{}{},
		jitter: hx.NewRand(seed), unmapTry: map[int]int{}, conn: map[int]int{}, disc: map[int]int{}}
	sniproxy.VerifSetHook(rec.hook)
	defer sniproxy.VerifSetHook(nil)
	srv := sniproxy.NewServer(&sniproxy.ServerConfig{OnConnect: rec.onConnect, OnDisconnect: rec.onDisconnect,
		// endpoints of name 1 use side connections, and the token provider is down: every front dial through
		// them fails at once — which says nothing about whether the endpoint is still connected
		SideToken: func(string) (string, error) { return "", fmt.Errorf("token provider down") },
		Lookup: func(domain string) (*sniproxy.Dest, error) {
			return &sniproxy.Dest{Name: epPrefix + strings.TrimSuffix(domain, ".test")}, nil
		}})
	frontLis, err := net.Listen("tcp", "127.0.0.1:0")
	if err != nil {
		return nil, nil, "listen: " + err.Error()
	}
	fctx, fcancel := context.WithCancel(context.Background())
	defer fcancel()
	go srv.ServeFront(fctx, frontLis)
	// the registry may be consulted by anybody at any time: a look-up that does not come back means its lock is held
	lookupPtr := func(name string) (uintptr, bool) {
		var p uintptr
		ok := hx.WithTimeout(10*time.Second, func() { p = srv.VerifEndpointPtr(name) })
		return p, ok
	}
	ts := httptest.NewServer(aries.Func(func(c *aries.C) error {
		// the endpoint name is given explicitly and differs from the authenticated user
		c.User = "user-" + strings.TrimPrefix(c.Path, "/")
		return srv.ServeBackName(c, epPrefix+strings.TrimPrefix(c.Path, "/"))
	}))
	defer ts.Close()
	ctx := context.Background()
	type life struct {
		ep  *sniproxy.Endpoint
		td  *trackDialer
		end string
	}
	var lives []life
	var hungs []*websocket.Conn
	var holdName, kickName string
	for _, l := range sc.lines {
		ws := strings.Fields(l)
		switch ws[0] {
		case "kickwhileconnecting":
			kickName = epPrefix + kvs(ws, "name")
			rec.mu.Lock()
			rec.parks["connect:"+kickName] = make(chan struct{})
			rec.mu.Unlock()
		case "holdkick":
			rec.mu.Lock()
			rec.parks["kick:"+epPrefix+kvs(ws, "name")] = make(chan struct{})
			rec.mu.Unlock()
		case "holdunmap":
			holdName = epPrefix + kvs(ws, "name")
			rec.mu.Lock()
			rec.parks["unmap-enter:"+holdName] = make(chan struct{})
			rec.mu.Unlock()
		case "front":
			if c, err := net.Dial("tcp", frontLis.Addr().String()); err == nil {
				c.Write(snix.ClientHello(kvs(ws, "name") + ".test"))
				c.SetReadDeadline(time.Now().Add(300 * time.Millisecond))
				io.Copy(io.Discard, c)
				c.Close()
			}
			if _, ok := lookupPtr(epPrefix + "0"); !ok {
				rep.Fail("registry-lock-held", "after a front connection looked a name up, a look-up of ep0 did not return within 10 s", sc.lines)
				return nil, nil, "registry lock held"
			}
		case "plainget":
			// a request that is not a websocket handshake: no endpoint connection is accepted
			resp, err := http.Get(ts.URL + "/" + kvs(ws, "name"))
			if err == nil {
				io.Copy(io.Discard, resp.Body)
				resp.Body.Close()
			}
		case "life":
			d, _ := strconv.Atoi(kvs(ws, "delay"))
			time.Sleep(time.Duration(d) * time.Microsecond)
			if kvs(ws, "end") == "hung" || kvs(ws, "end") == "hung-hinted" {
				u := "ws" + strings.TrimPrefix(ts.URL, "http") + "/" + kvs(ws, "name")
				hc, _, err := websocket.DefaultDialer.Dial(u, nil)
				if err != nil {
					return nil, nil, "dial hung peer: " + err.Error()
				}
				go func() {
					for {
						if _, _, err := hc.ReadMessage(); err != nil {
							return
						}
					}
				}()
				if kvs(ws, "end") == "hung-hinted" {
					// it announces that it wants to stop, and then never answers the shutdown call that follows
					hc.WriteMessage(websocket.BinaryMessage, []byte{0, 0, 0, 0, 0, 0, 0, 0, 7, 0})
					time.Sleep(50 * time.Millisecond)
				}
				hungs = append(hungs, hc)
				continue
			}
			td := &trackDialer{}
			dctx, dcancel := context.WithTimeout(ctx, 15*time.Second)
			var topt *sniproxy.Options
			if kvs(ws, "name") == "1" {
				topt = &sniproxy.Options{Siding: true}
			}
			ep, err := sniproxy.Dial(dctx, &sniproxy.StaticRouter{Host: ts.Listener.Addr().String()},
				&sniproxy.DialOption{Path: "/" + kvs(ws, "name"), WithoutTLS: true, TunnelOptions: topt,
					Dialer: &websocket.Dialer{NetDialContext: td.dial}})
			dcancel()
			if err != nil {
				return nil, nil, "dial: " + err.Error()
			}
			lives = append(lives, life{ep, td, kvs(ws, "end")})
			// a second lifecycle under the parked name releases the first one's OnConnect once it has mapped
			if kickName == epPrefix+kvs(ws, "name") {
				rec.mu.Lock()
				n := 0
				for _, x := range rec.lines {
					if x == "upgrade name="+kvs(ws, "name") {
						n++
					}
				}
				c := rec.parks["connect:"+kickName]
				if n >= 2 && c != nil {
					close(c)
					delete(rec.parks, "connect:"+kickName)
				}
				rec.mu.Unlock()
			}
			switch kvs(ws, "end") {
			case "close":
				go ep.Close()
			case "sever":
				go func() {
					time.Sleep(time.Duration(d) * time.Microsecond)
					td.mu.Lock()
					for _, c := range td.conns {
						c.Close()
					}
					td.mu.Unlock()
				}()
			}
		}
	}
	rec.mu.Lock()
	for k, c := range rec.parks {
		close(c)
		delete(rec.parks, k)
	}
	for _, c := range rec.parked {
		close(c)
	}
	rec.parked = nil
	rec.mu.Unlock()
	// quiescent point 1: the lifecycles that were left running; wait until the trace is stable
	stable := func() int {
		last, same := -1, 0
		for i := 0; i < 4000; i++ {
			rec.mu.Lock()
			n := len(rec.lines)
			rec.mu.Unlock()
			if n == last {
				same++
				if same > 150 {
					return n
				}
			} else {
				last, same = n, 0
			}
			time.Sleep(time.Millisecond)
		}
		return last
	}
	stable()
	// one live endpoint per name: whoever was replaced in the registry has been told to go and has gone
	// (a peer that does not answer the shutdown request is cut off when the request times out, 3 s)
	patience := 8 * time.Second // generous: only a violation ever waits this long
	if len(hungs) > 0 {
		patience = 15 * time.Second
	}
	liveOf := func() map[string][]int {
		rec.mu.Lock()
		defer rec.mu.Unlock()
		nameOf := map[int]string{}
		id := 0
		for _, l := range rec.lines {
			if strings.HasPrefix(l, "upgrade name=") {
				nameOf[id] = strings.TrimPrefix(l, "upgrade name=")
				id++
			}
		}
		gone := map[int]bool{}
		for _, l := range rec.lines {
			var e, ss int
			if n, _ := fmt.Sscanf(l, "disconnect ep=%d sess=%d", &e, &ss); n == 2 {
				gone[e] = true
			}
		}
		out := map[string][]int{}
		for e, nm := range nameOf {
			if !gone[e] {
				out[nm] = append(out[nm], e)
			}
		}
		return out
	}
	for t0 := time.Now(); ; time.Sleep(20 * time.Millisecond) {
		bad := ""
		for nm, es := range liveOf() {
			if len(es) > 1 {
				sort.Ints(es)
				bad = fmt.Sprintf("name ep%s has %d endpoint connections that were accepted and have not ended (%v): one of them was replaced in the registry without being shut down", nm, len(es), es)
			}
		}
		if bad == "" {
			break
		}
		if time.Since(t0) > patience {
			rep.Fail("two-live-endpoints-for-one-name", bad, sc.lines)
			break
		}
	}
	stable()
	for _, nm := range []string{"0", "1"} {
		ptr, ok := lookupPtr(epPrefix + nm) // (registry lock before recorder lock, as in the hooks)
		if !ok {
			rep.Fail("registry-lock-held", "a look-up of ep"+nm+" did not return within 10 s", sc.lines)
			return nil, nil, "registry lock held"
		}
		rec.mu.Lock()
		want := "none"
		if ptr != 0 {
			want = fmt.Sprintf("ep=%d", rec.epOfPtr[ptr])
		}
		if spec := rec.specLookup(nm); spec != want {
			rep.Fail("lookup-not-newest-live", fmt.Sprintf("name ep%s resolves to %s; the most recently connected endpoint that has not ended is %s", nm, want, spec), sc.lines)
		}
		rec.add("lookup name="+nm, want)
		rec.mu.Unlock()
	}
	// end everything
	for _, l := range lives {
		l.ep.Close()
	}
	for _, hc := range hungs {
		hc.Close()
	}
	ts.CloseClientConnections()
	stable()
	endPtr := map[string]uintptr{}
	for _, nm := range []string{"0", "1"} {
		p, ok := lookupPtr(epPrefix + nm)
		if !ok {
			rep.Fail("registry-lock-held", "a look-up of ep"+nm+" did not return within 10 s", sc.lines)
			return nil, nil, "registry lock held"
		}
		endPtr[nm] = p
	}
	rec.mu.Lock()
	defer rec.mu.Unlock()
	for _, nm := range []string{"0", "1"} {
		ptr := endPtr[nm]
		want := "none"
		if ptr != 0 {
			want = fmt.Sprintf("ep=%d", rec.epOfPtr[ptr])
			rep.Fail("ended-endpoint-still-registered", "after every endpoint ended, name ep"+nm+" still resolves", sc.lines)
		}
		rec.add("lookup name="+nm, want)
	}
	for s, c := range rec.conn {
		if c != 1 || rec.disc[s] != 1 {
			rep.Fail("callbacks-unpaired", fmt.Sprintf("session %d: %d connect and %d disconnect notifications", s, c, rec.disc[s]), sc.lines)
		}
	}
	for s := range rec.disc {
		if rec.conn[s] != 1 {
			rep.Fail("callbacks-unpaired", fmt.Sprintf("disconnect for session %d that was never reported by OnConnect", s), sc.lines)
		}
	}
	return append([]string{"reset"}, rec.lines...), append([]string{"ok"}, rec.expect...), ""
}

func main() {
	log.SetOutput(io.Discard)
	f := hx.ParseFlags()
	rep := hx.NewReport("C15", f)
	rep.Rule = "scenario = 2..7 (thorough ..13) endpoint lifecycles on two names started with random delays, each ended by Close, by cutting its TCP connection, " +
		"by a newer connection (kick) or at the end; optional parking of a still-connecting predecessor inside OnConnect and of a deferred unmap; " +
		"jitter at the schedule points; distinct = distinct scenario text; non-trivial = at least one name has two lifecycles"
	r := hx.NewRand(f.Seed)
	var scs []scenario
	if f.Replay != "" {
		ops, err := hx.ReadReplayOps(f.Replay)
		if err != nil {
			fmt.Println(err)
			return
		}
		scs = append(scs, scenario{ops})
	} else {
		for _, c := range hx.CorpusOps("C15") {
			scs = append(scs, scenario{c})
		}
		// the two forced situations, always: a third connection arriving while the second is between its
		// look-up and its map write; a kicked peer that never answers the shutdown request
		scs = append(scs,
			scenario{[]string{"holdkick name=0", "life name=0 end=leave delay=0", "life name=0 end=leave delay=0", "life name=0 end=leave delay=2000", "life name=1 end=close delay=0"}},
			scenario{[]string{"life name=1 end=hung delay=0", "life name=1 end=leave delay=500", "life name=0 end=sever delay=0"}},
			scenario{[]string{"life name=0 end=hung-hinted delay=0", "life name=0 end=leave delay=500"}})
		n := 25
		if f.Thorough() {
			n = 400
		}
		for i := 0; i < n; i++ {
			scs = append(scs, gen(r, f.Thorough()))
		}
	}
	var all, exp []string
	type span struct {
		from, to int
		sc       scenario
	}
	var spans []span
	t0 := time.Now()
	budget := 4 * time.Minute
	if f.Thorough() {
		budget = 25 * time.Minute
	}
	for i, sc := range scs {
		if rep.FailEvents >= 3 {
			rep.Note("stopping early: violations already recorded")
			break
		}
		if time.Since(t0) > budget {
			rep.Note("time budget reached after %d scenarios", i)
			break
		}
		lines, expect, skipped := run(sc, f.Seed*1000+uint64(i), rep)
		if skipped == "registry lock held" {
			rep.Note("stopped after scenario %d: the registry lock is held for ever", i)
			break
		}
		if skipped != "" {
			rep.Note("skipped: %s", skipped)
			continue
		}
		names := map[string]int{}
		for _, l := range sc.lines {
			if strings.HasPrefix(l, "life") {
				names[kvs(strings.Fields(l), "name")]++
			}
		}
		rep.Case(strings.Join(sc.lines, ";"), names["0"] > 1 || names["1"] > 1)
		for _, l := range sc.lines {
			if ws := strings.Fields(l); ws[0] != "life" {
				rep.Count("sched:" + ws[0])
			} else if strings.HasPrefix(kvs(ws, "end"), "hung") {
				rep.Count("sched:hung-peer")
			}
		}
		for _, l := range lines {
			rep.Count("ev:" + strings.Fields(l)[0])
		}
		spans = append(spans, span{len(all), len(all) + len(lines), sc})
		all = append(all, lines...)
		exp = append(exp, expect...)
		if i < 3 {
			rep.Sample(map[string]interface{}{"scenario": sc.lines, "trace": lines})
		}
	}
	model, err := hx.RunDriver(f.Driver, nil, all)
	if err != nil {
		rep.Note("driver failed: %v", err)
		rep.ModelAvailable = false
	} else if model != nil {
		for _, sp := range spans {
			for i := sp.from; i < sp.to; i++ {
				if model[i] != exp[i] {
					rep.Disagree("registry-trace", strings.Join(all[sp.from:i+1], " | "), exp[i], model[i])
					break
				}
			}
			rep.TracesValidated++
		}
	}
	rep.Write(f.Out)
}
