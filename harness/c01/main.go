// Harness for C01: proxied byte streams are transparent in every tunnel mode.
// Stage level: sideConn.Write frame sizes, sideConn.Read over scripted
// messages, tunnel.Read over scripted replies, the session pipe — each against
// the Lean model.  End to end: a real proxy in the three modes, payloads around
// every buffer boundary, random write splits and read sizes, both directions at
// once, then a close at either end.
package main

import (
	"bytes"
	"fmt"
	"io"
	"log"
	"net"
	"net/http"
	"net/http/httptest"
	"net/url"
	"strconv"
	"strings"
	"sync"
	"time"

	"github.com/gorilla/websocket"
	"shanhu.io/g/sniproxy"
	"verif/harness/hx"
	"verif/harness/snix"
)

type wsPair struct {
	a, b *websocket.Conn // a: the side under test; b: the scripted peer
	srv  *httptest.Server
}

func newWsPair() (*wsPair, error) {
	p := &wsPair{}
	ch := make(chan *websocket.Conn, 1)
	up := &websocket.Upgrader{ReadBufferSize: 64 << 10, WriteBufferSize: 64 << 10}
	p.srv = httptest.NewServer(http.HandlerFunc(func(w http.ResponseWriter, r *http.Request) {
		c, err := up.Upgrade(w, r, nil)
		if err == nil {
			ch <- c
		}
	}))
	a, _, err := (&websocket.Dialer{ReadBufferSize: 64 << 10, WriteBufferSize: 64 << 10}).Dial("ws"+strings.TrimPrefix(p.srv.URL, "http"), nil)
	if err != nil {
		return nil, err
	}
	p.a = a
	select {
	case p.b = <-ch:
	case <-time.After(5 * time.Second):
		return nil, fmt.Errorf("no peer")
	}
	return p, nil
}

func (p *wsPair) close() {
	p.a.UnderlyingConn().Close()
	p.b.UnderlyingConn().Close()
	p.srv.CloseClientConnections()
	go p.srv.Close()
}

func kvGet(ws []string, k string) string {
	for _, w := range ws {
		if strings.HasPrefix(w, k+"=") {
			return w[len(k)+1:]
		}
	}
	return ""
}

func list(s string) []string {
	if s == "-" || s == "" {
		return nil
	}
	return strings.Split(s, ",")
}

// runStage executes one stage op on the implementation.
func runStage(op string, rep *hx.Report) string {
	ws := strings.Fields(op)
	switch ws[0] {
	case "sidewrite":
		buf := hx.UnHex(ws[1])
		p, err := newWsPair()
		if err != nil {
			return "skip"
		}
		defer p.close()
		sc := sniproxy.VerifNewSideConn(p.a, "")
		var lens []string
		var got []byte
		done := make(chan struct{})
		go func() {
			defer close(done)
			for len(got) < len(buf) {
				t, b, err := p.b.ReadMessage()
				if err != nil || t != websocket.BinaryMessage {
					return
				}
				lens = append(lens, strconv.Itoa(len(b)))
				got = append(got, b...)
			}
		}()
		n, err := sc.Write(buf)
		if err != nil || n != len(buf) {
			return fmt.Sprintf("write-error n=%d", n)
		}
		select {
		case <-done:
		case <-time.After(10 * time.Second):
			return "timeout"
		}
		if !bytes.Equal(got, buf) {
			rep.Fail("side-write-altered", fmt.Sprintf("the frames of a %d-byte side write carry different bytes (first difference at %d)", len(buf), firstDiff(got, buf)), []string{op})
		}
		return strings.Join(lens, ",")
	case "sideread":
		p, err := newWsPair()
		if err != nil {
			return "skip"
		}
		defer p.close()
		sc := sniproxy.VerifNewSideConn(p.a, "")
		var want []byte
		ended := false
		for _, m := range list(kvGet(ws, "msgs")) {
			if m == "t" {
				p.b.WriteMessage(websocket.TextMessage, []byte("EOF"))
				ended = true
			} else {
				b := hx.UnHex(strings.TrimPrefix(m, "b:"))
				p.b.WriteMessage(websocket.BinaryMessage, b)
				if !ended {
					want = append(want, b...)
				}
			}
		}
		var outs []string
		var got []byte
		for _, ks := range list(kvGet(ws, "reads")) {
			k, _ := strconv.Atoi(ks)
			buf := make([]byte, k)
			sc.SetDeadline(time.Now().Add(5 * time.Second))
			n, err := sc.Read(buf)
			if err == io.EOF {
				outs = append(outs, "eof")
				break
			}
			if err != nil {
				outs = append(outs, "wait") // nothing more arrives: the read would block
				break
			}
			if n == 0 {
				rep.Fail("side-read-empty", "sideConn.Read returned 0 bytes and no error", []string{op})
			}
			outs = append(outs, "d:"+hx.Hex(buf[:n]))
			got = append(got, buf[:n]...)
		}
		if !bytes.HasPrefix(want, got) {
			rep.Fail("side-read-altered", fmt.Sprintf("side reads returned bytes that are not a prefix of the binary messages sent (difference at %d)", firstDiff(got, want)), []string{op})
		}
		return strings.Join(outs, ",")
	case "tunnelread":
		k, _ := strconv.Atoi(kvGet(ws, "k"))
		reply := hx.UnHex(kvGet(ws, "reply"))
		p, err := snix.NewPeer()
		if err != nil {
			return "skip"
		}
		defer p.Close(5 * time.Second)
		buf := make([]byte, k)
		type res struct {
			n   int
			err error
		}
		ch := make(chan res, 1)
		go func() {
			n, err := p.Client.Tunnel(9).Read(buf)
			ch <- res{n, err}
		}()
		req, ok := p.NextReq(10 * time.Second)
		if !ok {
			return "skip"
		}
		body := append(snix.U64(uint64(len(reply))), reply...)
		body = append(body, snix.U64(0)...) // nil remote error
		p.Send(snix.ReplyFrame(req.ID, req.Typ, 0, body))
		select {
		case r := <-ch:
			if r.err != nil {
				return "err"
			}
			if r.n > k {
				rep.Fail("tunnel-read-overreports", fmt.Sprintf("tunnel.Read reported %d bytes for a %d-byte buffer (io.Copy would slice out of range)", r.n, k), []string{op})
				return fmt.Sprintf("n=%d data=%s", r.n, hx.Hex(buf))
			}
			return fmt.Sprintf("n=%d data=%s", r.n, hx.Hex(buf[:r.n]))
		case <-time.After(10 * time.Second):
			return "timeout"
		}
	case "pipe":
		c1, c2 := net.Pipe()
		defer c1.Close()
		defer c2.Close()
		writes := list(kvGet(ws, "writes"))
		go func() {
			for _, w := range writes {
				c1.Write(hx.UnHex(w))
			}
			c1.Close()
		}()
		var outs []string
		for _, ks := range list(kvGet(ws, "reads")) {
			k, _ := strconv.Atoi(ks)
			buf := make([]byte, k)
			n, err := c2.Read(buf)
			if err != nil {
				break
			}
			outs = append(outs, hx.Hex(buf[:n]))
		}
		return strings.Join(outs, ",")
	}
	return "bad-op"
}

func firstDiff(a, b []byte) int {
	for i := 0; i < len(a) && i < len(b); i++ {
		if a[i] != b[i] {
			return i
		}
	}
	if len(a) < len(b) {
		return len(a)
	}
	return len(b)
}

// ---- end to end ----

// e2e op: "e2e mode=<m> up=<n> down=<n> seed=<s> close=<client|app|none>"
func runE2E(op string, rep *hx.Report) string {
	ws := strings.Fields(op)
	mode := kvGet(ws, "mode")
	up, _ := strconv.Atoi(kvGet(ws, "up"))
	down, _ := strconv.Atoi(kvGet(ws, "down"))
	seed, _ := strconv.ParseUint(kvGet(ws, "seed"), 10, 64)
	closer := kvGet(ws, "close")
	r := hx.NewRand(seed)
	rig, err := snix.NewRig(mode, nil, nil)
	if err != nil {
		return "skip " + err.Error()
	}
	defer rig.Close()
	if kvGet(ws, "rogue") != "" {
		rig.SideDialDelay = 150 * time.Millisecond // every side dial stays pending for a while
	}
	ep, err := rig.Endpoint("a")
	if err != nil {
		return "skip " + err.Error()
	}
	hello := snix.ClientHello("a.test")
	if hl, _ := strconv.Atoi(kvGet(ws, "hello")); hl > 0 {
		if p, ok := snix.PadHello(hello, hl); ok {
			hello = p
		}
	}
	if kvGet(ws, "rogue") != "" {
		// somebody who knows the endpoint's name and guesses session numbers keeps offering side connections
		// with wrong keys while real connections are being set up
		stopRogue := make(chan struct{})
		defer close(stopRogue)
		for g := 0; g < 3; g++ {
			go func() {
				for id := 0; ; id = (id + 1) % 40 {
					select {
					case <-stopRogue:
						return
					default:
					}
					u := fmt.Sprintf("ws://%s/a?side=%s", rig.TS.Listener.Addr().String(), url.QueryEscape(fmt.Sprintf(`{"ID":%d,"Key":12345}`, id)))
					if c, _, err := websocket.DefaultDialer.Dial(u, nil); err == nil {
						c.WriteMessage(websocket.BinaryMessage, []byte("bytes of the intruder"))
						time.Sleep(2 * time.Millisecond)
						c.Close()
					}
				}
			}()
		}
	}
	if kvGet(ws, "backlog") != "" {
		return runBacklog(op, rep, rig, ep, hello, mode)
	}
	if slow, _ := strconv.Atoi(kvGet(ws, "slowapp")); slow > 0 {
		return runSlowApp(op, rep, rig, ep, hello, mode, up, slow, seed)
	}
	if calls, _ := strconv.Atoi(kvGet(ws, "calls")); calls > 0 {
		age, _ := strconv.Atoi(kvGet(ws, "age"))
		return runLongLived(op, rep, rig, ep, hello, mode, calls, age)
	}
	if idle, _ := strconv.Atoi(kvGet(ws, "idle")); idle > 0 {
		return runIdle(op, rep, rig, ep, hello, mode, idle, up, down, seed)
	}
	if par, _ := strconv.Atoi(kvGet(ws, "par")); par > 1 {
		return runParallel(op, rep, rig, ep, hello, mode, par, up, down, seed)
	}
	upData := append(append([]byte{}, hello...), r.Bytes(up)...)
	downData := r.Bytes(down)
	fail := func(key, desc string) { rep.Fail(key+":"+mode, desc, []string{op}) }

	var wg sync.WaitGroup
	appGot := make(chan []byte, 1)
	appClosed := make(chan struct{})
	var appConn net.Conn
	accepted := make(chan struct{})
	wg.Add(1)
	go func() { // endpoint application
		defer wg.Done()
		c, err := ep.Accept()
		if err != nil {
			close(accepted)
			appGot <- nil
			return
		}
		appConn = c
		close(accepted)
		var w sync.WaitGroup
		w.Add(1)
		go func() { // app writes down
			defer w.Done()
			rr := hx.NewRand(seed + 1)
			d := downData
			for len(d) > 0 {
				n := 1 + rr.Intn(70000)
				if rr.Intn(3) == 0 {
					n = 1 + rr.Intn(5000)
				}
				if n > len(d) {
					n = len(d)
				}
				if _, err := c.Write(d[:n]); err != nil {
					return
				}
				d = d[n:]
			}
		}()
		var got []byte
		rr := hx.NewRand(seed + 2)
		for len(got) < len(upData) {
			buf := make([]byte, 1+rr.Intn(70000))
			c.SetReadDeadline(time.Now().Add(20 * time.Second))
			n, err := c.Read(buf)
			got = append(got, buf[:n]...)
			if !bytes.HasPrefix(upData, got) {
				break
			}
			if err != nil {
				break
			}
		}
		w.Wait()
		appGot <- got
		if closer == "app" {
			c.Close()
			close(appClosed)
			return
		}
		// wait for the client's close: later reads must end
		c.SetReadDeadline(time.Now().Add(20 * time.Second))
		_, err = io.Copy(io.Discard, c)
		if ne, ok := err.(net.Error); ok && ne.Timeout() {
			fail("read-blocks-after-peer-close", "the application's read was still blocked 20 s after the client closed")
		}
		c.Close()
		close(appClosed)
	}()

	cl, err := net.Dial("tcp", rig.Lis.Addr().String())
	if err != nil {
		return "skip " + err.Error()
	}
	defer cl.Close()
	wg.Add(1)
	go func() { // client writes up
		defer wg.Done()
		rr := hx.NewRand(seed + 3)
		d := upData
		first := true
		for len(d) > 0 {
			n := 1 + rr.Intn(70000)
			if first && rr.Intn(2) == 0 {
				n = 1 + rr.Intn(len(hello)) // split inside the ClientHello
			}
			first = false
			if n > len(d) {
				n = len(d)
			}
			if _, err := cl.Write(d[:n]); err != nil {
				return
			}
			d = d[n:]
		}
	}()
	var clGot []byte
	rr := hx.NewRand(seed + 4)
	for len(clGot) < len(downData) {
		buf := make([]byte, 1+rr.Intn(70000))
		cl.SetReadDeadline(time.Now().Add(20 * time.Second))
		n, err := cl.Read(buf)
		clGot = append(clGot, buf[:n]...)
		if !bytes.HasPrefix(downData, clGot) || err != nil {
			break
		}
	}
	if !bytes.HasPrefix(downData, clGot) {
		fail("down-stream-altered", fmt.Sprintf("client read bytes that are not a prefix of what the application wrote (difference at %d of %d)", firstDiff(clGot, downData), len(downData)))
	} else if len(clGot) < len(downData) {
		fail("down-stream-incomplete", fmt.Sprintf("both ends open, but the client received only %d of %d bytes within 20 s", len(clGot), len(downData)))
	}
	var got []byte
	select {
	case got = <-appGot:
	case <-time.After(30 * time.Second):
		fail("up-stream-incomplete", fmt.Sprintf("the application never received the connection (ClientHello record of %d bytes, %d payload bytes) within 30 s", len(hello), up))
		return "never-accepted"
	}
	select {
	case <-accepted:
	default:
	}
	if got == nil && appConn == nil {
		return "skip accept failed"
	}
	if !bytes.HasPrefix(upData, got) {
		fail("up-stream-altered", fmt.Sprintf("application read bytes that are not a prefix of what the client wrote, ClientHello first (difference at %d of %d)", firstDiff(got, upData), len(upData)))
	} else if len(got) < len(upData) {
		fail("up-stream-incomplete", fmt.Sprintf("both ends open, but the application received only %d of %d bytes within 20 s", len(got), len(upData)))
	}
	if closer == "app" {
		<-appClosed
		cl.SetReadDeadline(time.Now().Add(20 * time.Second))
		_, err := io.Copy(io.Discard, cl)
		if ne, ok := err.(net.Error); ok && ne.Timeout() {
			fail("read-blocks-after-peer-close", "the client's read was still blocked 20 s after the application closed")
		}
	} else {
		cl.Close()
		select {
		case <-appClosed:
		case <-time.After(25 * time.Second):
			fail("read-blocks-after-peer-close", "the application did not see the end of the stream after the client closed")
		}
	}
	hx.WithTimeout(10*time.Second, wg.Wait)
	return fmt.Sprintf("ok up=%d down=%d", len(got), len(clGot))
}

// runBacklog: the application is slow to accept; a dozen connections queue up at the endpoint; the endpoint is
// then replaced by a newer one (its tunnel goes away); the application finally accepts what it was handed.
// Every stream it gets must end: the bytes that did arrive, then end of stream — never a read that blocks for ever.
func runBacklog(op string, rep *hx.Report, rig *snix.Rig, ep *sniproxy.Endpoint, hello []byte, mode string) string {
	var fronts []net.Conn
	defer func() {
		for _, c := range fronts {
			c.Close()
		}
	}()
	for i := 0; i < 13; i++ {
		c, err := net.Dial("tcp", rig.Lis.Addr().String())
		if err != nil {
			return "skip " + err.Error()
		}
		fronts = append(fronts, c)
		c.Write(hello)
	}
	time.Sleep(300 * time.Millisecond)
	if _, err := rig.Endpoint("a"); err != nil { // the newer endpoint under the same name
		return "skip " + err.Error()
	}
	time.Sleep(300 * time.Millisecond)
	var got []net.Conn
	for errs := 0; errs < 40 && len(got) < len(fronts); {
		ch := make(chan net.Conn, 1)
		go func() {
			c, err := ep.Accept()
			if err != nil {
				ch <- nil
				return
			}
			ch <- c
		}()
		select {
		case c := <-ch:
			if c == nil {
				errs++
				time.Sleep(5 * time.Millisecond)
			} else {
				got = append(got, c)
			}
		case <-time.After(15 * time.Second):
			rep.Fail("stream-end-not-delivered:"+mode, "Accept on the replaced endpoint still blocked after 15 s", []string{op})
			return "failed"
		}
	}
	for i, c := range got {
		c.SetReadDeadline(time.Now().Add(15 * time.Second))
		data, err := io.ReadAll(c)
		c.Close()
		if ne, ok := err.(net.Error); ok && ne.Timeout() {
			rep.Fail("stream-end-not-delivered:"+mode, fmt.Sprintf("connection %d, handed to the application around the loss of its tunnel, delivered %d bytes and then neither data nor the end of the stream for 15 s", i, len(data)), []string{op})
			return "failed"
		}
		if !bytes.HasPrefix(hello, data) {
			rep.Fail("up-stream-altered:"+mode, fmt.Sprintf("connection %d delivered bytes that its client did not send", i), []string{op})
			return "failed"
		}
	}
	return fmt.Sprintf("ok backlog accepted=%d", len(got))
}

// runSlowApp: the application reads a little of what the client sent, pauses for `slow` seconds in the
// middle of a chunk, then reads on: however long the application takes, it must read exactly the
// client's bytes, once each.
func runSlowApp(op string, rep *hx.Report, rig *snix.Rig, ep *sniproxy.Endpoint, hello []byte, mode string, up, slow int, seed uint64) string {
	fail := func(key, desc string) { rep.Fail(key+":"+mode, desc, []string{op}) }
	data := append(append([]byte{}, hello...), hx.NewRand(seed*31+9).Bytes(up)...)
	res := make(chan string, 1)
	go func() {
		c, err := ep.Accept()
		if err != nil {
			res <- "never accepted"
			return
		}
		defer c.Close()
		c.SetDeadline(time.Now().Add(time.Duration(slow+40) * time.Second))
		got := make([]byte, 0, len(data))
		buf := make([]byte, 100)
		n, _ := c.Read(buf) // part of the first chunk only
		got = append(got, buf[:n]...)
		time.Sleep(time.Duration(slow) * time.Second)
		big := make([]byte, 8192)
		for len(got) < len(data) {
			n, err := c.Read(big)
			got = append(got, big[:n]...)
			if err != nil {
				break
			}
		}
		switch {
		case bytes.Equal(got, data):
			res <- "ok"
		case bytes.HasPrefix(data, got):
			res <- fmt.Sprintf("only %d of %d bytes arrived", len(got), len(data))
		default:
			res <- fmt.Sprintf("the bytes read differ from the bytes sent at offset %d of %d", firstDiff(got, data), len(data))
		}
	}()
	cl, err := net.Dial("tcp", rig.Lis.Addr().String())
	if err != nil {
		return "skip " + err.Error()
	}
	defer cl.Close()
	cl.SetDeadline(time.Now().Add(time.Duration(slow+40) * time.Second))
	go cl.Write(data)
	select {
	case r := <-res:
		if r != "ok" {
			key := "up-stream-altered"
			if strings.HasPrefix(r, "only") || r == "never accepted" {
				key = "up-stream-incomplete"
			}
			fail(key, fmt.Sprintf("an application that pauses %d s in the middle of a chunk: %s", slow, r))
			return "failed"
		}
	case <-time.After(time.Duration(slow+45) * time.Second):
		fail("up-stream-incomplete", "the application never finished reading")
		return "failed"
	}
	return "ok slowapp"
}

// runLongLived: connection A is opened and left idle; connection B then receives `calls` bytes that the
// application writes one at a time (in the multiplexed mode each is a call of its own on the shared
// transport); after that, and after `age` seconds of silence, both connections must still carry bytes
// faithfully in both directions.  Nothing about a connection may depend on how much the tunnel has
// been used or on how old the connection is.
func runLongLived(op string, rep *hx.Report, rig *snix.Rig, ep *sniproxy.Endpoint, hello []byte, mode string, calls, age int) string {
	fail := func(key, desc string) { rep.Fail(key+":"+mode, desc, []string{op}) }
	type side struct {
		c   net.Conn
		idx int
	}
	apps := make(chan side, 4)
	go func() {
		for {
			c, err := ep.Accept()
			if err != nil {
				return
			}
			go func() {
				c.SetDeadline(time.Now().Add(120 * time.Second))
				hb := make([]byte, len(hello)+1)
				if _, err := io.ReadFull(c, hb); err != nil || !bytes.Equal(hb[:len(hello)], hello) {
					c.Close()
					return
				}
				apps <- side{c, int(hb[len(hello)])}
			}()
		}
	}()
	open := func(i int) (net.Conn, net.Conn, bool) {
		cl, err := net.Dial("tcp", rig.Lis.Addr().String())
		if err != nil {
			return nil, nil, false
		}
		cl.SetDeadline(time.Now().Add(120 * time.Second))
		cl.Write(hello)
		cl.Write([]byte{byte(i)})
		select {
		case a := <-apps:
			if a.idx != i {
				fail("up-stream-altered", "the index byte after the ClientHello is another connection's")
				return cl, a.c, false
			}
			return cl, a.c, true
		case <-time.After(15 * time.Second):
			fail("up-stream-incomplete", fmt.Sprintf("the ClientHello of connection %d did not reach the application within 15 s", i))
			return cl, nil, false
		}
	}
	clA, appA, ok := open(0)
	if clA != nil {
		defer clA.Close()
	}
	if appA != nil {
		defer appA.Close()
	}
	if !ok {
		return "failed"
	}
	clB, appB, ok := open(1)
	if clB != nil {
		defer clB.Close()
	}
	if appB != nil {
		defer appB.Close()
	}
	if !ok {
		return "failed"
	}
	// the application trickles: one byte per write
	go func() {
		for i := 0; i < calls; i++ {
			if _, err := appB.Write([]byte{byte(i*7 + i>>8)}); err != nil {
				return
			}
		}
	}()
	got := make([]byte, calls)
	if n, err := io.ReadFull(clB, got); err != nil {
		fail("down-stream-incomplete", fmt.Sprintf("a connection that receives %d single-byte writes got %d bytes: %v", calls, n, err))
		return "failed"
	}
	for i := range got {
		if got[i] != byte(i*7+i>>8) {
			fail("down-stream-altered", fmt.Sprintf("byte %d of %d single-byte writes arrived altered", i, calls))
			return "failed"
		}
	}
	// an application may write nothing at all: that is not the end of its stream
	appA.Write([]byte{})
	appB.Write(nil)
	if age > 0 {
		time.Sleep(time.Duration(age) * time.Second)
	}
	// both connections, the idle one first, still work in both directions
	for k, p := range []struct {
		cl, app net.Conn
		name    string
	}{{clA, appA, "the connection that stayed idle meanwhile"}, {clB, appB, "the busy connection"}} {
		msg := []byte(fmt.Sprintf("after-%d-calls-and-%d-seconds-%d", calls, age, k))
		p.cl.Write(msg)
		buf := make([]byte, len(msg))
		p.app.SetReadDeadline(time.Now().Add(10 * time.Second))
		if n, err := io.ReadFull(p.app, buf); err != nil || !bytes.Equal(buf, msg) {
			fail("up-stream-incomplete", fmt.Sprintf("after %d calls on the tunnel and %d s, %s delivered %d of %d bytes upstream (%v)", calls, age, p.name, n, len(msg), err))
			return "failed"
		}
		p.app.Write(msg)
		p.cl.SetReadDeadline(time.Now().Add(10 * time.Second))
		if n, err := io.ReadFull(p.cl, buf); err != nil || !bytes.Equal(buf, msg) {
			fail("down-stream-incomplete", fmt.Sprintf("after %d calls on the tunnel and %d s, %s delivered %d of %d bytes downstream (%v)", calls, age, p.name, n, len(msg), err))
			return "failed"
		}
	}
	return fmt.Sprintf("ok calls=%d age=%d", calls, age)
}

// runIdle opens `idle` front connections one after the other, each of which delivers its ClientHello
// and then stays open without traffic, and then moves payloads in both directions over one more
// connection: connections that are merely open must not keep a later one from being served.
func runIdle(op string, rep *hx.Report, rig *snix.Rig, ep *sniproxy.Endpoint, hello []byte, mode string, idle, up, down int, seed uint64) string {
	fail := func(key, desc string) { rep.Fail(key+":"+mode, desc, []string{op}) }
	rr := hx.NewRand(seed*977 + 5)
	upData, downData := rr.Bytes(up), rr.Bytes(down)
	arrived := make([]chan struct{}, idle+1)
	for i := range arrived {
		arrived[i] = make(chan struct{})
	}
	stop := make(chan struct{})
	var appWg sync.WaitGroup
	activeDone := make(chan string, 1)
	go func() {
		for {
			c, err := ep.Accept()
			if err != nil {
				return
			}
			appWg.Add(1)
			go func() {
				defer appWg.Done()
				defer c.Close()
				c.SetDeadline(time.Now().Add(60 * time.Second))
				hb := make([]byte, len(hello)+1)
				if _, err := io.ReadFull(c, hb); err != nil || !bytes.Equal(hb[:len(hello)], hello) || int(hb[len(hello)]) > idle {
					return
				}
				i := int(hb[len(hello)])
				close(arrived[i])
				if i < idle {
					<-stop
					return
				}
				go c.Write(downData)
				got := make([]byte, len(upData))
				if _, err := io.ReadFull(c, got); err != nil {
					activeDone <- "short"
				} else if !bytes.Equal(got, upData) {
					activeDone <- "altered"
				} else {
					activeDone <- "ok"
				}
				<-stop
			}()
		}
	}()
	var conns []net.Conn
	defer func() {
		close(stop)
		for _, c := range conns {
			c.Close()
		}
		hx.WithTimeout(10*time.Second, appWg.Wait)
	}()
	open := func(i int) (net.Conn, bool) {
		cl, err := net.Dial("tcp", rig.Lis.Addr().String())
		if err != nil {
			return nil, false
		}
		conns = append(conns, cl)
		cl.SetDeadline(time.Now().Add(60 * time.Second))
		cl.Write(hello)
		cl.Write([]byte{byte(i)})
		select {
		case <-arrived[i]:
			return cl, true
		case <-time.After(15 * time.Second):
			fail("connection-starved", fmt.Sprintf("the ClientHello of connection %d did not reach the application within 15 s while %d earlier connections were open and idle", i, i))
			return cl, false
		}
	}
	for i := 0; i < idle; i++ {
		if _, ok := open(i); !ok {
			return fmt.Sprintf("starved at %d", i)
		}
	}
	cl, ok := open(idle)
	if !ok {
		return fmt.Sprintf("starved at %d", idle)
	}
	go cl.Write(upData)
	got := make([]byte, len(downData))
	if _, err := io.ReadFull(cl, got); err != nil {
		fail("down-stream-incomplete", fmt.Sprintf("with %d idle connections open, the active connection received fewer than %d bytes: %v", idle, len(downData), err))
	} else if !bytes.Equal(got, downData) {
		fail("down-stream-altered", fmt.Sprintf("with %d idle connections open, the active connection read altered bytes (difference at %d)", idle, firstDiff(got, downData)))
	}
	select {
	case r := <-activeDone:
		if r != "ok" {
			fail("up-stream-"+map[string]string{"short": "incomplete", "altered": "altered"}[r], fmt.Sprintf("with %d idle connections open, the active connection's upstream bytes arrived %s", idle, r))
		}
	case <-time.After(30 * time.Second):
		fail("up-stream-incomplete", fmt.Sprintf("with %d idle connections open, the active connection's upstream bytes did not arrive within 30 s", idle))
	}
	return fmt.Sprintf("ok idle=%d", idle)
}

// runParallel drives `par` front connections at once through one endpoint, each with its own
// payloads in both directions; every application-side connection learns which client it serves
// from an index byte that follows the ClientHello.
func runParallel(op string, rep *hx.Report, rig *snix.Rig, ep *sniproxy.Endpoint, hello []byte, mode string, par, up, down int, seed uint64) string {
	fail := func(key, desc string) { rep.Fail(key+":"+mode, desc, []string{op}) }
	ups := make([][]byte, par)
	downs := make([][]byte, par)
	for i := 0; i < par; i++ {
		rr := hx.NewRand(seed*131 + uint64(i))
		ups[i] = rr.Bytes(up)
		downs[i] = rr.Bytes(down)
	}
	var appWg sync.WaitGroup
	upDone := make([]chan struct{}, par) // closed when the application side has read all of stream i
	for i := range upDone {
		upDone[i] = make(chan struct{})
	}
	go func() {
		for {
			c, err := ep.Accept()
			if err != nil {
				return
			}
			appWg.Add(1)
			go func() {
				defer appWg.Done()
				defer c.Close()
				c.SetDeadline(time.Now().Add(40 * time.Second))
				hb := make([]byte, len(hello)+1)
				if _, err := io.ReadFull(c, hb); err != nil {
					fail("up-stream-incomplete", "application could not read the ClientHello of a parallel connection: "+err.Error())
					return
				}
				if !bytes.Equal(hb[:len(hello)], hello) {
					fail("up-stream-altered", fmt.Sprintf("a parallel connection's ClientHello arrived altered (difference at %d)", firstDiff(hb[:len(hello)], hello)))
					return
				}
				i := int(hb[len(hello)])
				if i >= par {
					fail("up-stream-altered", "index byte after the ClientHello is not one a client sent")
					return
				}
				done := make(chan struct{})
				go func() {
					defer close(done)
					d := downs[i]
					rr := hx.NewRand(seed + uint64(i) + 7)
					for len(d) > 0 {
						n := 1 + rr.Intn(40000)
						if n > len(d) {
							n = len(d)
						}
						if _, err := c.Write(d[:n]); err != nil {
							return
						}
						d = d[n:]
					}
				}()
				got := make([]byte, 0, len(ups[i]))
				buf := make([]byte, 32768)
				for len(got) < len(ups[i]) {
					n, err := c.Read(buf)
					got = append(got, buf[:n]...)
					if !bytes.HasPrefix(ups[i], got) {
						fail("up-stream-altered", fmt.Sprintf("with %d connections in parallel, the application of connection %d read bytes that are not what its client wrote (difference at %d of %d)", par, i, firstDiff(got, ups[i]), len(ups[i])))
						return
					}
					if err != nil {
						break
					}
				}
				if len(got) < len(ups[i]) {
					fail("up-stream-incomplete", fmt.Sprintf("with %d connections in parallel, connection %d delivered only %d of %d bytes upstream", par, i, len(got), len(ups[i])))
				}
				close(upDone[i])
				<-done
				// keep the connection open until the client has everything and closes
				io.Copy(io.Discard, c)
			}()
		}
	}()
	var wg sync.WaitGroup
	for i := 0; i < par; i++ {
		wg.Add(1)
		go func(i int) {
			defer wg.Done()
			cl, err := net.Dial("tcp", rig.Lis.Addr().String())
			if err != nil {
				return
			}
			defer cl.Close()
			cl.SetDeadline(time.Now().Add(40 * time.Second))
			wrote := make(chan struct{})
			go func() {
				defer close(wrote)
				cl.Write(hello)
				cl.Write([]byte{byte(i)})
				d := ups[i]
				rr := hx.NewRand(seed + uint64(i) + 11)
				for len(d) > 0 {
					n := 1 + rr.Intn(40000)
					if n > len(d) {
						n = len(d)
					}
					if _, err := cl.Write(d[:n]); err != nil {
						return
					}
					d = d[n:]
				}
			}()
			got := make([]byte, 0, len(downs[i]))
			buf := make([]byte, 32768)
			for len(got) < len(downs[i]) {
				n, err := cl.Read(buf)
				got = append(got, buf[:n]...)
				if !bytes.HasPrefix(downs[i], got) {
					fail("down-stream-altered", fmt.Sprintf("with %d connections in parallel, client %d read bytes that are not what its application wrote (difference at %d of %d)", par, i, firstDiff(got, downs[i]), len(downs[i])))
					return
				}
				if err != nil {
					break
				}
			}
			if len(got) < len(downs[i]) {
				fail("down-stream-incomplete", fmt.Sprintf("with %d connections in parallel, client %d received only %d of %d bytes", par, i, len(got), len(downs[i])))
			}
			// keep the connection open until everything written has been read at the other end
			<-wrote
			select {
			case <-upDone[i]:
			case <-time.After(40 * time.Second):
			}
		}(i)
	}
	hx.WithTimeout(60*time.Second, wg.Wait)
	hx.WithTimeout(20*time.Second, appWg.Wait)
	return fmt.Sprintf("ok par=%d", par)
}

func main() {
	log.SetOutput(io.Discard)
	f := hx.ParseFlags()
	rep := hx.NewReport("C01", f)
	rep.Rule = "stage ops (side write of 0..70000 bytes around 4096/8192 multiples; side read over scripted binary/empty/text messages x read sizes; " +
		"tunnel read over scripted replies shorter, equal and longer than the buffer; pipe reads) compared with the model; end-to-end runs of the real proxy in " +
		"legacy / siding / siding-addr with payloads 0 B..1 MiB (4 MiB thorough) around 4096, 32768 and 65536, random write splits (incl. inside the ClientHello) and read sizes, " +
		"both directions at once, then close by client or application; distinct = distinct op; all non-trivial"
	r := hx.NewRand(f.Seed)
	var ops []string
	if f.Replay != "" {
		var err error
		ops, err = hx.ReadReplayOps(f.Replay)
		if err != nil {
			fmt.Println(err)
			return
		}
	} else {
		for _, c := range hx.CorpusOps("C01") {
			ops = append(ops, c...)
		}
		sizes := []int{0, 1, 2, 4095, 4096, 4097, 8191, 8192, 8193, 12288, 12289, 65535, 65536, 65537}
		nst := 200
		if f.Thorough() {
			nst = 1500
		}
		for _, n := range sizes {
			ops = append(ops, "sidewrite "+hx.Hex(r.Bytes(n)))
		}
		for i := 0; i < nst; i++ {
			switch r.Intn(4) {
			case 0:
				ops = append(ops, "sidewrite "+hx.Hex(r.Bytes(r.Intn(20000))))
			case 1:
				var ms, ks []string
				for k := r.Intn(6); k > 0; k-- {
					switch r.Intn(5) {
					case 0:
						ms = append(ms, "b:-")
					default:
						ms = append(ms, "b:"+hx.Hex(r.Bytes(1+r.Intn(40))))
					}
				}
				ms = append(ms, "t")
				if r.Intn(3) == 0 {
					ms = append(ms, "b:"+hx.Hex(r.Bytes(3)))
				}
				for k := 1 + r.Intn(12); k > 0; k-- {
					ks = append(ks, fmt.Sprint(1+r.Intn(30)))
				}
				ops = append(ops, "sideread msgs="+strings.Join(ms, ",")+" reads="+strings.Join(ks, ","))
			case 2:
				k := hx.Pick(r, []int{0, 1, 16, 100, 4096})
				l := hx.Pick(r, []int{0, 1, k - 1, k, k + 1, k + 100, 2 * k})
				if l < 0 {
					l = 0
				}
				ops = append(ops, fmt.Sprintf("tunnelread k=%d reply=%s", k, hx.Hex(r.Bytes(l))))
			default:
				var wsb, ks []string
				for k := 1 + r.Intn(5); k > 0; k-- {
					wsb = append(wsb, hx.Hex(r.Bytes(1+r.Intn(20))))
				}
				for k := 1 + r.Intn(10); k > 0; k-- {
					ks = append(ks, fmt.Sprint(1+r.Intn(25)))
				}
				ops = append(ops, "pipe writes="+strings.Join(wsb, ",")+" reads="+strings.Join(ks, ","))
			}
		}
		esizes := []int{0, 1, 4095, 4096, 4097, 8192, 32767, 32768, 32769, 65535, 65536, 65537}
		ne := 45
		if f.Thorough() {
			ne = 240
			esizes = append(esizes, 1<<20, 1<<20+1, 4<<20)
		}
		for i := 0; i < ne; i++ {
			mode := []string{"legacy", "siding", "siding-addr"}[i%3]
			up, down := hx.Pick(r, esizes), hx.Pick(r, esizes)
			if i < 3 {
				up, down = 1<<20, 1<<20
			}
			ops = append(ops, fmt.Sprintf("e2e mode=%s up=%d down=%d seed=%d close=%s", mode, up, down, r.U64()%100000, hx.Pick(r, []string{"client", "app"})))
		}
		// several bulk connections at once through one endpoint (buffers shared between sessions would show here)
		for i, mode := range []string{"legacy", "siding", "siding-addr", "legacy"} {
			ops = append(ops, fmt.Sprintf("e2e mode=%s up=%d down=%d seed=%d close=client par=%d", mode, 200000+i, 300000+i, r.U64()%100000, 4+2*i))
		}
		// many connections multiplexed over one tunnel at once, most of them idle most of the time (a bound on
		// what the endpoint serves concurrently would starve the later ones: each idle connection has a read outstanding)
		ops = append(ops, fmt.Sprintf("e2e mode=legacy up=%d down=%d seed=%d close=client par=%d", 20000, 30000, r.U64()%100000, 40))
		for _, mode := range []string{"legacy", "siding"} {
			ops = append(ops, fmt.Sprintf("e2e mode=%s up=%d down=%d seed=%d close=client idle=%d", mode, 70000, 90000, r.U64()%100000, 40))
		}
		// a tunnel that has served more than 2^16 calls, and connections older than any plausible timeout constant
		for _, mode := range []string{"siding", "siding-addr"} {
			ops = append(ops, fmt.Sprintf("e2e mode=%s up=%d down=%d seed=%d close=client par=%d rogue=1", mode, 20000, 30000, r.U64()%100000, 24))
		}
		ops = append(ops, "e2e mode=legacy up=0 down=0 seed=1 close=client backlog=1")
		ops = append(ops, "e2e mode=legacy up=300000 down=0 seed=5 close=client slowapp=4")
		ops = append(ops, "e2e mode=legacy up=0 down=0 seed=1 close=client calls=70000 age=6")
		ops = append(ops, "e2e mode=siding up=0 down=0 seed=1 close=client calls=5000 age=6")
		if f.Thorough() {
			ops = append(ops, "e2e mode=legacy up=0 down=0 seed=1 close=client calls=300000 age=35")
		}
		if f.Thorough() {
			ops = append(ops, fmt.Sprintf("e2e mode=legacy up=%d down=%d seed=%d close=client idle=%d", 70000, 90000, r.U64()%100000, 200))
			ops = append(ops, fmt.Sprintf("e2e mode=legacy up=%d down=%d seed=%d close=client par=%d", 3000, 2000, r.U64()%100000, 140))
			ops = append(ops, fmt.Sprintf("e2e mode=siding up=%d down=%d seed=%d close=client par=%d", 3000, 2000, r.U64()%100000, 70))
		}
		// ClientHellos padded up to the record limit: the peeked hello must still reach the application whole
		for i, hl := range []int{4091, 4092, 16379, 16380, 16384} {
			ops = append(ops, fmt.Sprintf("e2e mode=%s up=%d down=%d seed=%d close=client hello=%d", []string{"legacy", "siding", "siding-addr"}[i%3], 1000, 1000, r.U64()%100000, hl))
		}
	}
	var stageOps, stageImpl []string
	t0 := time.Now()
	budget := 3 * time.Minute
	if f.Thorough() {
		budget = 20 * time.Minute
	}
	failedMode := map[string]bool{}
	for _, op := range ops {
		if time.Since(t0) > budget {
			rep.Note("time budget reached after %d ops", rep.Evaluations)
			break
		}
		if strings.HasPrefix(op, "e2e ") {
			mode := kvGet(strings.Fields(op), "mode")
			if failedMode[mode] {
				continue // a violation in this mode is already recorded; do not spend more watchdogs on it
			}
			nf := len(rep.OracleFailures)
			res := runE2E(op, rep)
			if strings.HasPrefix(res, "skip") {
				rep.Note("%s: %s", op, res)
				rep.Count("skipped")
				continue
			}
			if len(rep.OracleFailures) > nf {
				failedMode[mode] = true
			}
			rep.Case(op, true)
			rep.Count("e2e:" + kvGet(strings.Fields(op), "mode"))
			rep.Sample(map[string]string{"op": op, "impl": res})
			continue
		}
		res := runStage(op, rep)
		if res == "skip" || res == "timeout" {
			rep.Note("%s: %s", strings.Fields(op)[0], res)
			continue
		}
		rep.Case(op, true)
		rep.Count("stage:" + strings.Fields(op)[0])
		stageOps = append(stageOps, op)
		stageImpl = append(stageImpl, res)
	}
	model, err := hx.RunDriver(f.Driver, nil, stageOps)
	if err != nil {
		rep.Note("driver failed: %v", err)
		rep.ModelAvailable = false
	} else if model != nil {
		for i, op := range stageOps {
			m := model[i]
			if strings.HasPrefix(op, "sideread") {
				// compare up to the first eof / wait (after the end of the stream the real read blocks)
				var cut []string
				for _, x := range strings.Split(m, ",") {
					cut = append(cut, x)
					if x == "eof" || x == "wait" {
						break
					}
				}
				m = strings.Join(cut, ",")
			}
			if m != stageImpl[i] {
				o := op
				if len(o) > 300 {
					o = o[:300] + "…"
				}
				rep.Disagree("stream-stage", o, stageImpl[i], m)
			}
		}
		rep.TracesValidated = len(stageOps)
	}
	rep.Write(f.Out)
}
