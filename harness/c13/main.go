// Harness for C13: sniproxy wire codec.  Drives the real encoder/decoder and
// the two frame entry points through the verif export shim, pipes the same op
// lines to the Lean driver (whose layouts are regenerated from the source),
// compares, and evaluates the direct oracle (round trip, no panic, bounded
// allocation) on the implementation.
package main

import (
	"bytes"
	"context"
	"encoding/binary"
	"fmt"
	"io"
	"log"
	"os"
	"sort"
	"strconv"
	"strings"
	"testing/iotest"
	"time"

	"shanhu.io/g/sniproxy"
	"verif/harness/hx"
	"verif/harness/snix"
)

// field kinds per struct, in declaration order: n integer, b bytes, e remote error
var kinds = map[string]string{
	"helloRequest": "b", "helloResponse": "b", "dialRequest": "", "dialResponse": "ne",
	"dialSideRequest": "nnb", "dialSide2Request": "nnbb", "readRequest": "nn", "readResponse": "be",
	"writeRequest": "nb", "writeResponse": "ne", "statusRequest": "n", "statusResponse": "nnn",
	"closeRequest": "n", "closeResponse": "e",
}

var reqOf = map[uint8]string{1: "helloRequest", 2: "dialRequest", 3: "writeRequest", 4: "readRequest",
	6: "closeRequest", 8: "dialSideRequest", 9: "dialSide2Request"}
var respOf = map[uint8]string{1: "helloResponse", 2: "dialResponse", 3: "writeResponse", 4: "readResponse",
	6: "closeResponse", 8: "dialResponse", 9: "dialResponse"}

var boundaryNums = []uint64{0, 1, 2, 7, 8, 9, 255, 256, 4095, 4096, 4097, 65535, 65536,
	1<<31 - 1, 1 << 31, 1 << 32, 1 << 40, 1 << 62, 1<<63 - 1, 1 << 63, 1<<63 + 1, 1<<64 - 1}

func showVal(v sniproxy.VerifVal) string {
	switch v.K {
	case 'n':
		return "n:" + strconv.FormatUint(v.N, 10)
	case 'b':
		return "b:" + hx.Hex(v.B)
	default:
		return "e:" + strconv.FormatUint(v.N, 10) + ":" + hx.Hex(v.B)
	}
}

func showVals(vs []sniproxy.VerifVal) string {
	var xs []string
	for _, v := range vs {
		xs = append(xs, showVal(v))
	}
	return strings.Join(xs, " ")
}

func parseVal(w string) (sniproxy.VerifVal, bool) {
	p := strings.Split(w, ":")
	switch {
	case len(p) == 2 && p[0] == "n":
		n, err := strconv.ParseUint(p[1], 10, 64)
		return sniproxy.VerifVal{K: 'n', N: n}, err == nil
	case len(p) == 2 && p[0] == "b":
		return sniproxy.VerifVal{K: 'b', B: hx.UnHex(p[1])}, true
	case len(p) == 3 && p[0] == "e":
		n, err := strconv.ParseUint(p[1], 10, 64)
		return sniproxy.VerifVal{K: 'e', N: n, B: hx.UnHex(p[2])}, err == nil
	}
	return sniproxy.VerifVal{}, false
}

func kvGet(ws []string, k string) string {
	for _, w := range ws {
		if strings.HasPrefix(w, k+"=") {
			return w[len(k)+1:]
		}
	}
	return ""
}

type ctx struct {
	rep   *hx.Report
	j     *hx.Journal
	quiet bool // a re-run under another reader shape: only the canonical output matters
}

// readerShapes: how the bytes of a frame and the end of the frame reach the decoder.  A websocket
// message reader (and any other io.Reader) may deliver data in pieces and may report io.EOF
// together with the last bytes; what a frame decodes to must not depend on it.
var readerShapes = []struct {
	name string
	wrap func(io.Reader) io.Reader
}{
	{"one-byte-reads", iotest.OneByteReader},
	{"eof-with-last-data", iotest.DataErrReader},
	{"half-reads", iotest.HalfReader},
	{"one-byte-reads+eof-with-last-data", func(r io.Reader) io.Reader { return iotest.DataErrReader(iotest.OneByteReader(r)) }},
}

// runOpShapes executes the op with the plain reader (that result is compared with the model and
// feeds the oracles) and again under every other reader shape.
func (c *ctx) runOpShapes(line string) string {
	out := c.runOp(line)
	if c.quiet || !(strings.HasPrefix(line, "dec ") || strings.HasPrefix(line, "srv ") || strings.HasPrefix(line, "cli ")) {
		return out
	}
	q := &ctx{rep: c.rep, j: c.j, quiet: true}
	for _, sh := range readerShapes {
		sniproxy.VerifWrapReader = sh.wrap
		got := q.runOp(line)
		sniproxy.VerifWrapReader = nil
		c.rep.Count("reader-shape:" + sh.name)
		if got != out {
			c.rep.Fail("decode-depends-on-reader:"+sh.name+":"+strings.Fields(line)[0],
				fmt.Sprintf("the same bytes decode to %q when read from a plain reader and to %q when the reader delivers them as %s", out, got, sh.name), []string{line})
			break
		}
	}
	return out
}

const allocSlack = 96 << 10

// runOp executes one op line on the implementation and returns its canonical
// output; it also evaluates the direct oracle.
func (c *ctx) fail(key, desc string, ops []string) {
	if !c.quiet {
		c.rep.Fail(key, desc, ops)
	}
}

func (c *ctx) runOp(line string) string {
	ws := strings.Fields(line)
	if len(ws) == 0 {
		return "bad-op"
	}
	switch ws[0] {
	case "enc":
		var vs []sniproxy.VerifVal
		for _, w := range ws[2:] {
			v, ok := parseVal(w)
			if !ok {
				return "bad-op"
			}
			vs = append(vs, v)
		}
		bs, err := sniproxy.VerifEncode(ws[1], vs)
		if err != nil {
			return "bad-op"
		}
		return hx.Hex(bs)
	case "dec":
		capBuf, _ := strconv.Atoi(kvGet(ws, "cap"))
		body := hx.UnHex(ws[len(ws)-1])
		c.j.Risky(line)
		r := sniproxy.VerifDecode(ws[1], capBuf, body)
		switch r.Outcome {
		case "panic":
			c.fail("decode-panic", "decoding a frame body panicked: "+r.Detail, []string{line})
			return "panic"
		case "ok":
			c.checkAlloc("decode-alloc", r.Alloc, len(body), capBuf, line)
			return fmt.Sprintf("ok consumed=%d vals=[%s]", r.Consumed, showVals(r.Vals))
		case "truncated":
			c.checkAlloc("decode-alloc", r.Alloc, len(body), capBuf, line)
			return fmt.Sprintf("truncated consumed=%d", r.Consumed)
		case "tail":
			c.checkAlloc("decode-alloc", r.Alloc, len(body), capBuf, line)
			return fmt.Sprintf("tail %d consumed=%d", r.Tail, r.Consumed)
		}
		if r.Detail == "EOF" {
			// a clean io.EOF from the decoder is what callers treat as the graceful end of a stream
			c.fail("truncation-reported-as-eof", "a frame body that ends early is reported as a clean io.EOF instead of an unexpected-EOF error", []string{line})
		}
		return "error " + r.Detail
	case "srvseq":
		// several frames decoded on one endpoint server; fields are read after the last one
		var frames [][]byte
		for _, h := range strings.Split(ws[len(ws)-1], ",") {
			frames = append(frames, hx.UnHex(h))
		}
		c.j.Risky(line)
		res, p := sniproxy.VerifServerFrames(frames)
		if p != "" {
			c.fail("srv-panic", "startCall panicked: "+p, []string{line})
			return "panic"
		}
		var outs []string
		for i, r := range res {
			switch r.Outcome {
			case "request":
				outs = append(outs, fmt.Sprintf("request id=%d typ=%d vals=[%s]", r.ID, r.Typ, showVals(r.Vals)))
			case "unknownType":
				outs = append(outs, fmt.Sprintf("unknownType id=%d typ=%d", r.ID, r.Typ))
			default:
				outs = append(outs, r.Outcome)
			}
			// direct oracle: each request still holds what its own frame carried
			o, id, typ, vals, _ := sniproxy.VerifServerFrame(frames[i])
			if o != r.Outcome && !(strings.HasPrefix(o, "panic") || strings.HasPrefix(r.Outcome, "panic")) {
				c.fail("frame-result-depends-on-earlier-frames", fmt.Sprintf("frame %d of a sequence decoded on one server is %s; the same frame decoded first on a fresh server is %s", i, r.Outcome, o), []string{line})
			}
			if o == "request" && r.Outcome == "request" && (id != r.ID || typ != r.Typ || showVals(vals) != showVals(r.Vals)) {
				c.fail("request-altered-by-later-frame", fmt.Sprintf("request %d of a sequence decoded on one server holds [%s] after the later frames were decoded; its own frame carries [%s]", i, showVals(r.Vals), showVals(vals)), []string{line})
			}
		}
		return strings.Join(outs, " ; ")
	case "srv":
		frame := hx.UnHex(ws[len(ws)-1])
		c.j.Risky(line)
		out, id, typ, vals, alloc := sniproxy.VerifServerFrame(frame)
		if strings.HasPrefix(out, "panic") {
			c.fail("srv-panic", "startCall panicked: "+out, []string{line})
			return "panic"
		}
		c.checkAlloc("srv-alloc", alloc, len(frame), 0, line)
		switch out {
		case "request":
			return fmt.Sprintf("request id=%d typ=%d vals=[%s]", id, typ, showVals(vals))
		case "unknownType":
			return fmt.Sprintf("unknownType id=%d typ=%d", id, typ)
		}
		return out
	case "cli":
		capBuf, _ := strconv.Atoi(kvGet(ws, "cap"))
		pend := map[uint64]uint8{}
		if p := kvGet(ws, "pend"); p != "-" && p != "" {
			for _, e := range strings.Split(p, ",") {
				ab := strings.Split(e, ":")
				if len(ab) != 2 {
					return "bad-op"
				}
				a, _ := strconv.ParseUint(ab[0], 10, 64)
				b, _ := strconv.ParseUint(ab[1], 10, 8)
				pend[a] = uint8(b)
			}
		}
		frame := hx.UnHex(ws[len(ws)-1])
		c.j.Risky(line)
		r := sniproxy.VerifClientFrame(pend, capBuf, frame)
		switch {
		case r.Panic != "":
			c.fail("cli-panic", "handleMessage panicked: "+r.Panic, []string{line})
			return "panic"
		case strings.HasPrefix(r.Err, "got error: "):
			return "fatal errcode=" + strings.TrimPrefix(r.Err, "got error: ")
		case r.Hint:
			return "shutdownHint"
		case !r.Fetched && r.Err == "":
			return "ignoredShort"
		case r.Fetched && !r.Found:
			return fmt.Sprintf("discard id=%d", r.FetchedID)
		case r.Found && !r.Completed, r.Completed && strings.HasPrefix(r.CompletedErr, "response type"):
			// the call was taken out of the pending table and its type differs; whether the
			// call is then failed (repaired tree) or dropped (pinned tree) is C03/C04's subject
			return fmt.Sprintf("mistyped id=%d", r.FetchedID)
		case r.Completed && r.CompletedErr != "":
			return fmt.Sprintf("completeErr id=%d", r.FetchedID)
		case r.Completed:
			if respOf[pend[r.FetchedID]] == "readResponse" && len(r.Vals) > 0 && len(r.Vals[0].B) <= capBuf && !r.InPlace {
				c.fail("read-reply-not-in-callers-buffer", fmt.Sprintf("a read reply of %d bytes that fits the %d-byte buffer supplied by the caller was decoded into another slice (tunnel.Read returns the count and expects the bytes in its buffer)", len(r.Vals[0].B), capBuf), []string{line})
			}
			return fmt.Sprintf("complete id=%d vals=[%s]", r.FetchedID, showVals(r.Vals))
		}
		return "error " + r.Err
	case "readalloc":
		v, _ := strconv.ParseUint(kvGet(ws, "v"), 10, 64)
		c.j.Risky(line)
		out, n, alloc := sniproxy.VerifHandleRead(v, 64)
		if strings.HasPrefix(out, "panic") {
			c.fail("read-panic", "handleRead panicked: "+out, []string{line})
			return "panic"
		}
		if alloc > (4<<20)+allocSlack {
			c.fail("read-alloc", fmt.Sprintf("handleRead allocated %d bytes for one request", alloc), []string{line})
		}
		return fmt.Sprintf("impl %s n=%d alloc=%d", out, n, alloc)
	}
	return "bad-op"
}

func (c *ctx) checkAlloc(key string, alloc uint64, received, capBuf int, line string) {
	if c.quiet {
		return
	}
	// io.ReadAll grows its buffer geometrically (x1.25 once large): the slices it allocates on the
	// way add up to about six times the bytes read; "in proportion" is a constant factor, so 8x.
	bound := uint64(8*received+capBuf) + allocSlack
	if alloc > bound {
		c.rep.Fail(key, fmt.Sprintf("decoding %d received bytes allocated %d bytes (bound %d)", received, alloc, bound), []string{line})
	}
}

// canon makes the two outputs of one op comparable.
func canon(op, impl, model string) (string, string) {
	if strings.HasPrefix(op, "readalloc") {
		// model: "alloc A" | "panic"; impl: "impl ok n=K alloc=M" | "impl rerr ..." | "panic"
		if model == "panic" || impl == "panic" {
			return impl, model
		}
		var a uint64
		fmt.Sscanf(model, "alloc %d", &a)
		var st string
		var n int
		var m uint64
		fmt.Sscanf(impl, "impl %s n=%d alloc=%d", &st, &n, &m)
		want := int(a)
		if want > 64 {
			want = 64
		}
		if m <= a+allocSlack && n == want {
			return "alloc-ok", "alloc-ok"
		}
		return impl, model
	}
	return impl, model
}

func u64le(v uint64) []byte {
	var b [8]byte
	binary.LittleEndian.PutUint64(b[:], v)
	return b[:]
}

type gen struct {
	r    *hx.Rand
	big  bool
	ops  []string
	rep  *hx.Report
	seen map[string]bool
}

func (g *gen) add(op string, nontrivial bool) {
	if g.seen[op] {
		return
	}
	g.seen[op] = true
	g.ops = append(g.ops, op)
	g.rep.Case(op, nontrivial)
}

func (g *gen) num() uint64 {
	if g.r.Intn(3) == 0 {
		return g.r.U64() >> uint(g.r.Intn(64))
	}
	return hx.Pick(g.r, boundaryNums)
}

func (g *gen) bytesLen() int {
	ls := []int{0, 1, 2, 7, 8, 9, 15, 16, 17, 31, 32, 33, 55, 56, 57, 63, 64, 65, 71, 72, 73, 127, 128, 129, 255, 256, 257, 511, 512, 513, 1023, 1024, 1025}
	if g.big {
		ls = append(ls, 4095, 4096, 4097, 65535, 65536, 65537, 1<<20+3)
	} else {
		ls = append(ls, 4096, 4097)
	}
	switch g.r.Intn(3) {
	case 0:
		return g.r.Intn(40)
	case 1:
		return g.r.Intn(160) // every small length: inline buffers and fast paths have their edges somewhere here
	}
	return hx.Pick(g.r, ls)
}

func (g *gen) vals(ty string) []sniproxy.VerifVal {
	var vs []sniproxy.VerifVal
	for _, k := range kinds[ty] {
		switch k {
		case 'n':
			vs = append(vs, sniproxy.VerifVal{K: 'n', N: g.num()})
		case 'b':
			vs = append(vs, sniproxy.VerifVal{K: 'b', B: g.r.Bytes(g.bytesLen())})
		case 'e':
			if g.r.Intn(3) == 0 {
				vs = append(vs, sniproxy.VerifVal{K: 'e'})
			} else {
				code := uint64(1 + g.r.Intn(11))
				if g.r.Intn(4) == 0 {
					code = g.num()
					if code == 0 {
						code = 255
					}
				}
				vs = append(vs, sniproxy.VerifVal{K: 'e', N: code, B: g.r.Bytes(g.r.Intn(30))})
			}
		}
	}
	return vs
}

// fieldOffsets returns the offsets of every u64 (value or length prefix) in
// the encoding of vs.
func fieldOffsets(vs []sniproxy.VerifVal) []int {
	var offs []int
	o := 0
	for _, v := range vs {
		switch v.K {
		case 'n':
			offs = append(offs, o)
			o += 8
		case 'b':
			offs = append(offs, o)
			o += 8 + len(v.B)
		case 'e':
			offs = append(offs, o)
			o += 8
			if v.N != 0 {
				offs = append(offs, o)
				o += 8 + len(v.B)
			}
		}
	}
	return offs
}

// tailWant: for generated "body + k extra bytes" decode ops, k
var tailWant = map[string]int{}

func (g *gen) frameOps(ty string, vs []sniproxy.VerifVal) {
	g.add("enc "+ty+" "+showVals(vs), true)
	body, err := sniproxy.VerifEncode(ty, vs)
	if err != nil {
		return
	}
	caps := []int{0, len(body), 32 << 10}
	capBuf := hx.Pick(g.r, caps)
	dec := func(b []byte, nt bool) {
		g.add(fmt.Sprintf("dec %s cap=%d %s", ty, capBuf, hx.Hex(b)), nt)
	}
	dec(body, true)
	g.rep.Count("frame:" + ty)
	// prefixes
	if len(body) <= 48 || g.big && len(body) <= 400 {
		for k := 0; k < len(body); k++ {
			dec(body[:k], true)
			g.rep.Count("prefix")
		}
	} else {
		ks := map[int]bool{0: true, 1: true, 7: true, 8: true, 9: true, len(body) - 1: true, len(body) - 8: true, len(body) - 9: true}
		for _, o := range fieldOffsets(vs) {
			ks[o] = true
			ks[o+7] = true
			ks[o+8] = true
			ks[o+9] = true
		}
		for i := 0; i < 6; i++ {
			ks[g.r.Intn(len(body))] = true
		}
		var ord []int
		for k := range ks {
			if k >= 0 && k < len(body) {
				ord = append(ord, k)
			}
		}
		sort.Ints(ord)
		for _, k := range ord {
			dec(body[:k], true)
			g.rep.Count("prefix")
		}
	}
	// tails: a well-formed body followed by k more bytes must be reported as "k trailing bytes"
	for _, tail := range [][]byte{{0}, g.r.Bytes(1 + g.r.Intn(1500))} {
		b := append(append([]byte{}, body...), tail...)
		dec(b, true)
		tailWant[fmt.Sprintf("dec %s cap=%d %s", ty, capBuf, hx.Hex(b))] = len(tail)
	}
	g.rep.Count("tail")
	// announced lengths and values overwritten
	for _, o := range fieldOffsets(vs) {
		for i := 0; i < 3; i++ {
			m := append([]byte{}, body...)
			copy(m[o:], u64le(hx.Pick(g.r, boundaryNums)))
			dec(m, true)
			g.rep.Count("overwrite-u64")
		}
	}
}

func (g *gen) garbage(n int) {
	tys := sniproxy.VerifMessageNames()
	for i := 0; i < n; i++ {
		var b []byte
		switch g.r.Intn(4) {
		case 0:
			b = g.r.Bytes(g.r.Intn(40))
		case 1:
			b = append(u64le(hx.Pick(g.r, boundaryNums)), g.r.Bytes(g.r.Intn(20))...)
		case 2:
			b = append(u64le(g.r.U64()%64), g.r.Bytes(g.r.Intn(64))...)
		default:
			b = append(append(u64le(g.r.U64()), u64le(hx.Pick(g.r, boundaryNums))...), g.r.Bytes(g.r.Intn(12))...)
		}
		ty := hx.Pick(g.r, tys)
		g.add(fmt.Sprintf("dec %s cap=%d %s", ty, hx.Pick(g.r, []int{0, 16, 4096}), hx.Hex(b)), true)
		g.rep.Count("garbage-dec")
	}
}

func (g *gen) srvOps(n int) {
	for i := 0; i < n; i++ {
		typ := uint8(g.r.Intn(12))
		if g.r.Intn(8) == 0 {
			typ = uint8(g.r.Intn(256))
		}
		var body []byte
		if ty, ok := reqOf[typ]; ok && g.r.Intn(4) != 0 {
			body, _ = sniproxy.VerifEncode(ty, g.vals(ty))
			switch g.r.Intn(6) {
			case 0:
				if len(body) > 0 {
					body = body[:g.r.Intn(len(body))]
				}
			case 1:
				body = append(body, g.r.Bytes(1+g.r.Intn(5))...)
			case 2:
				if len(body) >= 8 {
					o := g.r.Intn(len(body)-7) &^ 7
					copy(body[o:], u64le(hx.Pick(g.r, boundaryNums)))
				}
			}
		} else {
			body = g.r.Bytes(g.r.Intn(24))
		}
		frame := append(append(u64le(g.num()), typ), body...)
		if g.r.Intn(10) == 0 {
			frame = frame[:g.r.Intn(len(frame)+1)]
		}
		g.add("srv "+hx.Hex(frame), true)
		if typ < 12 {
			g.rep.Count(fmt.Sprintf("srv-typ:%d", typ))
		} else {
			g.rep.Count("srv-typ:other")
		}
	}
}

func (g *gen) cliOps(n int) {
	codes := []uint8{0, 1, 2, 3, 4, 6, 8, 9}
	for i := 0; i < n; i++ {
		np := g.r.Intn(4)
		pend := map[uint64]uint8{}
		var ids []uint64
		for k := 0; k < np; k++ {
			id := uint64(g.r.Intn(6))
			if _, dup := pend[id]; dup {
				continue
			}
			pend[id] = hx.Pick(g.r, codes)
			ids = append(ids, id)
		}
		sort.Slice(ids, func(a, b int) bool { return ids[a] < ids[b] })
		var ps []string
		for _, id := range ids {
			ps = append(ps, fmt.Sprintf("%d:%d", id, pend[id]))
		}
		p := strings.Join(ps, ",")
		if p == "" {
			p = "-"
		}
		id := uint64(g.r.Intn(7))
		typ := hx.Pick(g.r, codes)
		if c, ok := pend[id]; ok && g.r.Intn(3) != 0 {
			typ = c
		}
		if g.r.Intn(12) == 0 {
			typ = 7 // shutdown hint
		}
		if g.r.Intn(12) == 0 {
			typ = uint8(g.r.Intn(256))
		}
		errcode := uint8(0)
		if g.r.Intn(10) == 0 {
			errcode = uint8(1 + g.r.Intn(255))
		}
		var body []byte
		if ty, ok := respOf[typ]; ok && g.r.Intn(5) != 0 {
			body, _ = sniproxy.VerifEncode(ty, g.vals(ty))
			switch g.r.Intn(6) {
			case 0:
				if len(body) > 0 {
					body = body[:g.r.Intn(len(body))]
				}
			case 1:
				body = append(body, g.r.Bytes(1+g.r.Intn(5))...)
			case 2:
				if len(body) >= 8 {
					copy(body[0:], u64le(hx.Pick(g.r, boundaryNums)))
				}
			}
		} else {
			body = g.r.Bytes(g.r.Intn(20))
		}
		frame := append(append(append(u64le(id), typ), errcode), body...)
		if g.r.Intn(10) == 0 {
			frame = frame[:g.r.Intn(11)]
		}
		capBuf := hx.Pick(g.r, []int{0, 8, 4096})
		g.add(fmt.Sprintf("cli pend=%s cap=%d %s", p, capBuf, hx.Hex(frame)), true)
		g.rep.Count("cli")
	}
}

func main() {
	log.SetOutput(io.Discard)
	f := hx.ParseFlags()
	rep := hx.NewReport("C13", f)
	rep.Rule = "op lines: enc/dec of every message struct with boundary and random field values, every/selected prefixes, " +
		"tails, overwritten length prefixes, garbage bodies, server and client frame entry points, handleRead sizes; " +
		"distinct = distinct op line; non-trivial = every op (each decodes or encodes at least one frame)"
	c := &ctx{rep: rep, j: hx.NewJournal(f.Work)}

	var ops []string
	if f.Replay != "" {
		var err error
		ops, err = hx.ReadReplayOps(f.Replay)
		if err != nil {
			fmt.Println("replay:", err)
			return
		}
		for _, op := range ops {
			rep.Case(op, true)
		}
	} else {
		g := &gen{r: hx.NewRand(f.Seed), big: f.Thorough(), rep: rep, seen: map[string]bool{}}
		rounds := 6
		ngarb, nsrv, ncli := 1500, 1500, 1200
		if f.Thorough() {
			rounds, ngarb, nsrv, ncli = 60, 60000, 30000, 8000
		}
		for _, ty := range sniproxy.VerifMessageNames() {
			if sniproxy.VerifArity(ty) != len(kinds[ty]) {
				rep.Note("shim arity of %s differs from harness table", ty)
			}
			for i := 0; i < rounds; i++ {
				g.frameOps(ty, g.vals(ty))
			}
		}
		g.garbage(ngarb)
		g.srvOps(nsrv)
		g.cliOps(ncli)
		for i := 0; i < nsrv/10; i++ {
			var hs []string
			for k := 2 + g.r.Intn(4); k > 0; k-- {
				ty := hx.Pick(g.r, []string{"writeRequest", "writeRequest", "helloRequest", "dialSide2Request", "readRequest"})
				codes := map[string]uint8{"writeRequest": 3, "helloRequest": 1, "dialSide2Request": 9, "readRequest": 4}
				body, _ := sniproxy.VerifEncode(ty, g.vals(ty))
				fr := append(append(u64le(uint64(g.r.Intn(100))), codes[ty]), body...)
				// what one frame leaves behind must not matter to the next: unknown types with a body, cut
				// frames, frames with trailing bytes and runts are mixed in
				switch g.r.Intn(8) {
				case 0:
					hs = append(hs, hx.Hex(append(append(u64le(uint64(g.r.Intn(100))), byte(10+g.r.Intn(240))), g.r.Bytes(1+g.r.Intn(12))...)))
				case 1:
					hs = append(hs, hx.Hex(fr[:g.r.Intn(len(fr))]))
				case 2:
					hs = append(hs, hx.Hex(append(append([]byte{}, fr...), g.r.Bytes(1+g.r.Intn(5))...)))
				}
				hs = append(hs, hx.Hex(fr))
			}
			g.add("srvseq "+strings.Join(hs, ","), true)
			g.rep.Count("srvseq")
		}
		for _, v := range boundaryNums {
			g.add(fmt.Sprintf("readalloc v=%d", v), true)
		}
		ops = g.ops
	}

	// golden vectors: the byte layout deployed peers expect (frozen from the pinned tree)
	if f.Replay == "" {
		dir := os.Getenv("VERIF_DIR")
		if dir == "" {
			dir = "/verif"
		}
		if bs, err := os.ReadFile(dir + "/corpus/C13/golden.vec"); err == nil {
			for _, l := range strings.Split(string(bs), "\n") {
				p := strings.Split(strings.TrimSpace(l), " => ")
				if len(p) != 2 {
					continue
				}
				got := c.runOp(p[0])
				rep.Count("golden-vector")
				rep.Case("golden "+p[0], true)
				ws := strings.Fields(p[0])
				if got != p[1] {
					rep.Fail("wire-layout-changed:"+ws[1], fmt.Sprintf("%s encodes to %s; deployed peers expect %s", p[0], got, p[1]), []string{p[0]})
					continue
				}
				d := c.runOp(fmt.Sprintf("dec %s cap=0 %s", ws[1], p[1]))
				want := fmt.Sprintf("ok consumed=%d vals=[%s]", len(hx.UnHex(p[1])), strings.Join(ws[2:], " "))
				if d != want {
					rep.Fail("wire-layout-changed:"+ws[1], fmt.Sprintf("the deployed encoding %s of %s decodes as %q", p[1], p[0], d), []string{"dec " + ws[1] + " cap=0 " + p[1]})
				}
			}
		} else {
			rep.Note("golden vectors not found: %v", err)
		}
	}

	// the requests the real client sends, per tunnel mode, must be frames the real server decodes as
	// requests (encoder call sites and decoder dispatch agree on code and layout)
	if f.Replay == "" || (len(ops) > 0 && strings.HasPrefix(ops[0], "clireq")) {
		modes := []string{"legacy", "siding", "siding-addr"}
		if f.Replay != "" {
			modes = nil
			for _, op := range ops {
				modes = append(modes, kvGet(strings.Fields(op), "mode"))
			}
			ops = nil
		}
		for _, mode := range modes {
			op := "clireq mode=" + mode
			rep.Case(op, true)
			rep.Count("clireq")
			opt := &sniproxy.Options{Siding: mode != "legacy", DialWithAddr: mode == "siding-addr"}
			p, err := snix.NewPeerOpt(opt)
			if err != nil {
				rep.Note("clireq: %v", err)
				continue
			}
			go func() {
				ctx, cancel := context.WithTimeout(context.Background(), 800*time.Millisecond)
				defer cancel()
				if conn, err := p.Client.Dial(ctx, "192.0.2.7:4321"); err == nil {
					conn.Close()
				}
			}()
			r, ok := p.NextReq(3 * time.Second)
			if !ok {
				rep.Fail("client-request-missing:"+mode, "Dial sent no request frame", []string{op})
				p.Close(2 * time.Second)
				continue
			}
			frame := append(append(snix.U64(r.ID), r.Typ), r.Body...)
			out, _, typ, vals, _ := sniproxy.VerifServerFrame(frame)
			want := map[string]uint8{"legacy": 2, "siding": 8, "siding-addr": 9}[mode]
			if out != "request" {
				rep.Fail("client-request-rejected-by-server:"+mode, fmt.Sprintf("the dial request the client sends in mode %s (type %d, %d body bytes) is not decoded as a request by the server: %s", mode, r.Typ, len(r.Body), out), []string{op})
			} else if typ != want || len(vals) != len(kinds[reqOf[want]]) {
				rep.Fail("client-request-rejected-by-server:"+mode, fmt.Sprintf("the dial request of mode %s has type %d with %d fields, deployed servers expect type %d with %d fields", mode, typ, len(vals), want, len(kinds[reqOf[want]])), []string{op})
			}
			p.Close(2 * time.Second)
		}
	}

	// what the deployed error codes MEAN: end of stream is code 10 on the wire, in both directions
	if f.Replay == "" || (len(ops) > 0 && strings.HasPrefix(ops[0], "eofcode")) {
		if f.Replay != "" {
			ops = nil
		}
		op := "eofcode"
		rep.Case(op, true)
		rep.Count("eofcode")
		if p, err := snix.NewPeer(); err == nil {
			type rr struct {
				n   int
				err error
			}
			done := make(chan rr, 1)
			go func() {
				n, err := p.Client.Tunnel(7).Read(make([]byte, 64))
				done <- rr{n, err}
			}()
			if r, ok := p.NextReq(3 * time.Second); ok {
				// the deployed encoding of readResponse{bytes: "", err: {10, "eof"}}
				p.Send(snix.ReplyFrame(r.ID, 4, 0, hx.UnHex("00000000000000000a000000000000000300000000000000656f66")))
				select {
				case x := <-done:
					if x.err != io.EOF || x.n != 0 {
						rep.Fail("deployed-eof-code-not-eof", fmt.Sprintf("a read reply carrying the deployed end-of-stream code 10 makes tunnel.Read return (%d, %v) instead of (0, io.EOF)", x.n, x.err), []string{op})
					}
				case <-time.After(3 * time.Second):
					rep.Fail("deployed-eof-code-not-eof", "tunnel.Read did not return on a reply carrying the end-of-stream code", []string{op})
				}
			}
			// a peer that answers a read with more bytes than were asked for
			done2 := make(chan rr, 1)
			go func() {
				n, err := p.Client.Tunnel(8).Read(make([]byte, 8))
				done2 <- rr{n, err}
			}()
			if r, ok := p.NextReq(3 * time.Second); ok {
				body, _ := sniproxy.VerifEncode("readResponse", []sniproxy.VerifVal{{K: 'b', B: bytes.Repeat([]byte("x"), 20)}, {K: 'e'}})
				p.Send(snix.ReplyFrame(r.ID, 4, 0, body))
				select {
				case x := <-done2:
					if x.n > 8 || (x.err == nil && x.n != 8 && x.n != 0) {
						rep.Fail("read-reports-more-than-its-buffer", fmt.Sprintf("tunnel.Read into an 8-byte buffer returned (%d, %v) for a 20-byte reply", x.n, x.err), []string{op})
					}
				case <-time.After(3 * time.Second):
				}
			}
			p.Close(2 * time.Second)
		}
		if fp, err := snix.NewFakeProxy(); err == nil {
			go func() {
				if c, err := fp.EP.Accept(); err == nil {
					c.Close() // the application ends the stream at once
				}
			}()
			fp.Request(1, 2, nil)
			if r, ok := fp.NextReply(3 * time.Second); ok && len(r) >= 18 {
				fp.Request(2, 4, append(append([]byte{}, r[10:18]...), snix.U64(64)...))
				if r2, ok := fp.NextReply(3 * time.Second); ok && len(r2) >= 26 {
					code := binary.LittleEndian.Uint64(r2[18:26])
					if code != 10 {
						rep.Fail("eof-sent-with-other-code", fmt.Sprintf("the endpoint reports the end of a stream with error code %d; deployed proxies turn only code 10 into io.EOF", code), []string{op})
					}
				}
			}
			fp.EP.Close()
			fp.Close()
		}
	}

	impl := make([]string, len(ops))
	for i, op := range ops {
		impl[i] = c.runOpShapes(op)
		if k, ok := tailWant[op]; ok && !strings.HasPrefix(impl[i], fmt.Sprintf("tail %d ", k)) {
			rep.Fail("trailing-bytes-not-reported:"+strings.Fields(op)[1], fmt.Sprintf("a well-formed %s followed by %d more bytes decodes as %q instead of reporting %d trailing bytes", strings.Fields(op)[1], k, impl[i], k), []string{op})
		}
	}
	c.j.Clear()

	// round-trip oracle on the implementation alone
	for i, op := range ops {
		if strings.HasPrefix(op, "enc ") && i+1 < len(ops) && strings.HasPrefix(ops[i+1], "dec ") &&
			strings.HasSuffix(ops[i+1], " "+impl[i]) {
			ws := strings.Fields(op)
			rep.Count("roundtrip-checked")
			want := strings.Join(ws[2:], " ")
			if !strings.HasPrefix(impl[i+1], "ok ") || !strings.HasSuffix(impl[i+1], "vals=["+want+"]") ||
				!strings.Contains(impl[i+1], fmt.Sprintf("consumed=%d ", len(hx.UnHex(impl[i])))) {
				rep.Fail("roundtrip:"+ws[1], "decode(encode(m)) differs from m or does not consume exactly the frame: "+impl[i+1], []string{op, ops[i+1]})
			}
		}
	}

	model, err := hx.RunDriver(f.Driver, nil, ops)
	if err != nil {
		rep.Note("driver failed: %v", err)
		rep.ModelAvailable = false
	} else if model != nil {
		for i := range ops {
			a, b := canon(ops[i], impl[i], model[i])
			if a != b {
				rep.Disagree("codec", ops[i], impl[i], model[i])
			}
		}
		rep.TracesValidated = len(ops)
	}
	for i := 0; i < len(ops) && i < 4000; i += 397 {
		rep.Sample(map[string]string{"op": ops[i], "impl": impl[i]})
	}
	rep.Write(f.Out)
}
