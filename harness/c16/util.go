package main

import (
	"context"
	"crypto"
	"crypto/rsa"
	"crypto/sha256"
	"sort"
)

type ctxT = context.Context

func sha256sum(b []byte) []byte {
	h := sha256.Sum256(b)
	return h[:]
}

func rsaVerify(k *rsaKey, digest, sig []byte) bool {
	if k == nil {
		return false
	}
	return rsa.VerifyPKCS1v15(k.pub, crypto.SHA256, digest, sig) == nil
}

func sortStrings(xs []string) { sort.Strings(xs) }
