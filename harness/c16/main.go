// Harness for C16: credentials (signer, sessions, time tokens, JWT HS256/RS256,
// claim checks, the gate, registration passcodes).
//
// Every op line is executed on the real code in-process; the same lines go to
// the Lean driver, whose cryptographic functions are the tables carried on the
// line (computed here with the real HMAC/SHA-256/RSA: the model is parametric
// in them).  Independently of the model, runOp evaluates the property's
// direct oracle on the implementation: whatever verifies must be bit-for-bit
// the canonical signing of the payload it returns (re-issued with the
// implementation's own signer), instants must lie on the right side of each
// boundary, and a passcode is accepted at most once, inside its window and
// never after more than ten wrong codes.
package main

import (
	"bytes"
	"context"
	"crypto"
	"crypto/hmac"
	"crypto/rsa"
	"crypto/sha256"
	"encoding/base64"
	"encoding/binary"
	"encoding/hex"
	"encoding/json"
	"fmt"
	"io"
	"log"
	"math"
	"math/big"
	"strconv"
	"strings"
	"time"

	"shanhu.io/g/errcode"
	"shanhu.io/g/identity"
	"shanhu.io/g/jwt"
	"shanhu.io/g/roles"
	"shanhu.io/g/rsautil"
	"shanhu.io/g/signer"
	"shanhu.io/g/signin/authgate"
	"shanhu.io/g/timeutil"
	"verif/harness/hx"
)

const roleName = "robot"

var bg = context.Background()

func kvGet(ws []string, k string) (string, bool) {
	for _, w := range ws {
		if strings.HasPrefix(w, k+"=") {
			return w[len(k)+1:], true
		}
	}
	return "", false
}

func kvHex(ws []string, k string) ([]byte, bool) {
	v, ok := kvGet(ws, k)
	if !ok {
		return nil, false
	}
	b := hx.UnHex(v)
	if b == nil {
		b = []byte{}
	}
	return b, true
}

func kvInt(ws []string, k string) (int64, bool) {
	v, ok := kvGet(ws, k)
	if !ok {
		return 0, false
	}
	n, err := strconv.ParseInt(v, 10, 64)
	if err != nil && k == "now" && extremeClock != nil {
		// a clock outside the int64 nanosecond range: tm() returns it, oracles use nowBig
		return 0, true
	}
	return n, err == nil
}

// Clock values that do not fit int64 nanoseconds (the zero time.Time, year 1,
// year 9999, time.Unix(1<<62, 0)) are written on the op line as decimal
// nanoseconds all the same (the model computes with unbounded integers);
// runOp turns them into a time.Time here.  nowBig is the instant of `now=` of
// the op being executed, for oracles that must not overflow.
var (
	extremeClock *time.Time
	nowBig       *big.Int
)

func setClock(ws []string) {
	extremeClock, nowBig = nil, nil
	v, ok := kvGet(ws, "now")
	if !ok {
		return
	}
	b, ok := new(big.Int).SetString(v, 10)
	if !ok {
		return
	}
	nowBig = b
	if b.IsInt64() {
		return
	}
	q, r := new(big.Int).DivMod(b, big.NewInt(1e9), new(big.Int))
	if !q.IsInt64() {
		nowBig = nil
		return
	}
	t := time.Unix(q.Int64(), r.Int64())
	if _, zero := kvGet(ws, "zero"); zero && t.Equal(time.Time{}) {
		t = time.Time{}
	}
	extremeClock = &t
}

// inWindowBig: now - |w| < t < now + |w|, computed exactly.
func inWindowBig(t, w int64) bool {
	if nowBig == nil {
		return false
	}
	aw := new(big.Int).Abs(big.NewInt(w))
	tb := big.NewInt(t)
	lo := new(big.Int).Sub(nowBig, aw)
	hi := new(big.Int).Add(nowBig, aw)
	return lo.Cmp(tb) < 0 && tb.Cmp(hi) < 0
}

// curRep selects how the clock value of the op being executed is represented
// (`rep=<n>` on the op line).  The property and the model speak about
// instants; the same instant handed over as a different time.Time value must
// give the same verdict.
var curRep int

var zone0530 = time.FixedZone("+0530", 5*3600+1800)

const nReps = 6

// tm is the instant `ns` nanoseconds after the Unix epoch in the current representation.
func tm(ns int64) time.Time {
	if extremeClock != nil {
		return *extremeClock
	}
	return tmRep(ns, curRep)
}

func tmRep(ns int64, rep int) time.Time {
	t := time.Unix(0, ns)
	switch rep {
	case 1:
		return t.UTC()
	case 2:
		return t.In(zone0530)
	case 3:
		return t.Local()
	case 4:
		// a wall-clock reading with its monotonic reading, shifted to the instant
		n := time.Now()
		if nowNs := n.UnixNano(); ns > math.MinInt64+nowNs {
			if m := n.Add(time.Duration(ns - nowNs)); m.UnixNano() == ns {
				return m
			}
		}
		return t
	case 5:
		return time.Unix(ns/1e9-1, ns%1e9+1e9).In(time.FixedZone("", 0))
	}
	return t
}

func stripPoke(line string) string {
	ws := strings.Fields(line)
	out := ws[:0:0]
	for _, w := range ws {
		if !strings.HasPrefix(w, "poke=") {
			out = append(out, w)
		}
	}
	return strings.Join(out, " ")
}

func repOf(ws []string) int {
	n, ok := kvInt(ws, "rep")
	if !ok || n < 0 || n >= nReps {
		return 0
	}
	return int(n)
}

// stripRep removes what the model does not look at: the representation of the
// clock value and the poking of objects handed out by accessors.
func stripRep(line string) string {
	ws := strings.Fields(line)
	out := ws[:0:0]
	for _, w := range ws {
		if !strings.HasPrefix(w, "rep=") && !strings.HasPrefix(w, "poke=") {
			out = append(out, w)
		}
	}
	return strings.Join(out, " ")
}

func hmacOf(k, d []byte) []byte {
	m := hmac.New(sha256.New, k)
	m.Write(d)
	return m.Sum(nil)
}

func le64(v int64) []byte {
	var b [8]byte
	binary.LittleEndian.PutUint64(b[:], uint64(v))
	return b[:]
}

func absI(w int64) int64 {
	if w < 0 {
		return -w
	}
	return w
}

// genuineHex returns the signed payload when text is exactly the lower-case
// hex of payload ++ HMAC(key, payload), nil otherwise.
func genuineHex(k, text []byte) []byte {
	bs, err := hex.DecodeString(string(text))
	if err != nil || len(bs) < 32 || hex.EncodeToString(bs) != string(text) {
		return nil
	}
	n := len(bs)
	if !bytes.Equal(bs[n-32:], hmacOf(k, bs[:n-32])) {
		return nil
	}
	if n == 32 {
		return []byte{}
	}
	return bs[:n-32]
}

type rsaKey struct {
	label string
	pri   *rsa.PrivateKey
	pub   *rsa.PublicKey
	pubS  string // authorized-key text, the `Key` of identity.PublicKey
	priS  string
}

type ctx struct {
	rep  *hx.Report
	j    *hx.Journal
	keys map[string]*rsaKey

	// passcode history in progress
	roles   *roles.Roles
	codes   []string
	hist    []string
	wrongs  int // refused attempts that reached the check since the last issue
	accepts int // accepted attempts since the last issue

	concCalls int64 // verifications done by the concurrent stream

	// scheduled interleavings (sched.go)
	pz        *pauser
	parked    *parkedCall
	last      *roles.VerifRoleState // record after the previous call
	scheduled bool                  // the history in progress paused a call

	noShrink bool
	noShadow bool // this context is itself the representation-free replay
	shrunk   map[string]bool
}

// failHist records a passcode oracle failure with the history shrunk to a
// minimal one that still fails the same way.
func (c *ctx) failHist(key, desc string, hist []string) {
	if !c.noShrink && !c.shrunk[key] {
		// shrink once per key; later hits of the same key are recorded as they are
		// (Report.Fail keeps the shortest)
		if c.shrunk == nil {
			c.shrunk = map[string]bool{}
		}
		c.shrunk[key] = true
		hist = shrinkHist(hist, key)
	}
	c.rep.Fail(key, desc, hist)
}

func histFails(ops []string, key string) bool {
	r := hx.NewReport("C16", &hx.Flags{})
	c2 := newCtx(r, &hx.Journal{})
	c2.noShrink = true
	for _, op := range ops {
		c2.runOp(op)
	}
	for _, f := range r.OracleFailures {
		if f.Key == key {
			return true
		}
	}
	return false
}

func shrinkHist(hist []string, key string) []string {
	cur := append([]string{}, hist...)
	for changed := true; changed; {
		changed = false
		for i := 1; i < len(cur); i++ {
			cand := append(append([]string{}, cur[:i]...), cur[i+1:]...)
			if histFails(cand, key) {
				cur = cand
				changed = true
				break
			}
		}
	}
	return cur
}

var parsedKeys map[string]*rsaKey // read-only after the first newCtx

func newCtx(rep *hx.Report, j *hx.Journal) *ctx {
	if parsedKeys == nil {
		parsedKeys = map[string]*rsaKey{}
		for i, tk := range testKeys {
			pri, err := rsautil.ParsePrivateKey([]byte(tk.Pri))
			if err != nil {
				panic(err)
			}
			label := fmt.Sprintf("k%d", i)
			parsedKeys[label] = &rsaKey{label: label, pri: pri, pub: &pri.PublicKey, pubS: tk.Pub, priS: tk.Pri}
		}
	}
	c := &ctx{rep: rep, j: j, keys: parsedKeys}
	c.resetRoles()
	return c
}

func (c *ctx) resetRoles() {
	c.drainParked()
	c.roles, c.pz = newPausableRoles()
	c.codes = nil
	c.hist = nil
	c.wrongs, c.accepts = 0, 0
	c.last = nil
	c.scheduled = false
}

// keyText is the key material the identity carries for a label.
func (c *ctx) keyText(label string) string {
	if k, ok := c.keys[label]; ok {
		return k.pubS
	}
	return "not a key: " + label
}

func rsaSign(k *rsaKey, data []byte) []byte {
	h := sha256.Sum256(data)
	sig, err := rsa.SignPKCS1v15(nil, k.pri, crypto.SHA256, h[:])
	if err != nil {
		panic(err)
	}
	return sig
}

// classifyText says how an accepted text differs from the canonical one; the
// result is the stable part of the oracle key.
func classifyHex(got, canon string) string {
	switch {
	case strings.ToLower(got) == canon && got != canon:
		return "uppercase-hex"
	case len(got) < len(canon):
		return "truncated"
	case len(got) > len(canon):
		return "extended"
	}
	return "altered"
}

func classifyJWT(got, canon string) string {
	if strings.ContainsAny(got, "\r\n") {
		return "newline"
	}
	if len(got) == len(canon) && len(got) > 0 && got[:len(got)-1] == canon[:len(canon)-1] {
		return "sig-trailing-bits"
	}
	gp, cp := strings.Split(got, "."), strings.Split(canon, ".")
	if len(gp) == 3 && len(cp) == 3 && gp[0] == cp[0] && gp[1] == cp[1] {
		return "sig-reencoded"
	}
	return "altered"
}

type keySpec struct {
	id, typ, label string
	na, nb         int64
}

func parseKeys(s string) ([]keySpec, bool) {
	var out []keySpec
	if s == "" || s == "." {
		return nil, true
	}
	for _, e := range strings.Split(s, ";") {
		p := strings.Split(e, "/")
		if len(p) != 5 {
			return nil, false
		}
		na, err1 := strconv.ParseInt(p[3], 10, 64)
		nb, err2 := strconv.ParseInt(p[4], 10, 64)
		if err1 != nil || err2 != nil {
			return nil, false
		}
		out = append(out, keySpec{string(hx.UnHex(p[0])), string(hx.UnHex(p[1])), string(hx.UnHex(p[2])), na, nb})
	}
	return out, true
}

func (c *ctx) card(ks []keySpec) *identity.Identity {
	id := new(identity.Identity)
	for _, k := range ks {
		id.PublicKeys = append(id.PublicKeys, &identity.PublicKey{
			ID: k.id, Type: k.typ, Alg: jwt.AlgRS256, Key: c.keyText(k.label),
			NotValidAfter: k.na, NotValidBefore: k.nb,
		})
	}
	return id
}

func showTok(t *jwt.Token) string {
	return fmt.Sprintf("ok alg=%s typ=%s kid=%s iat=%d exp=%d payload=%s sig=%s",
		hx.Hex([]byte(t.Header.Alg)), hx.Hex([]byte(t.Header.Typ)), hx.Hex([]byte(t.Header.KeyID)),
		t.ClaimSet.Iat, t.ClaimSet.Exp, hx.Hex(t.Payload), hx.Hex(t.Signature))
}

func parseClaims(s string) (*jwt.ClaimSet, bool) {
	if s == "nil" {
		return nil, true
	}
	p := strings.Split(s, "/")
	if len(p) != 5 && len(p) != 7 {
		return nil, false
	}
	c := &jwt.ClaimSet{Iss: string(hx.UnHex(p[0])), Scope: string(hx.UnHex(p[1])), Aud: string(hx.UnHex(p[2])),
		Typ: string(hx.UnHex(p[3])), Sub: string(hx.UnHex(p[4]))}
	if len(p) == 7 {
		var err1, err2 error
		c.Exp, err1 = strconv.ParseInt(p[5], 10, 64)
		c.Iat, err2 = strconv.ParseInt(p[6], 10, 64)
		if err1 != nil || err2 != nil {
			return nil, false
		}
	}
	return c, true
}

func asciiFields(s string) []string {
	return strings.FieldsFunc(s, func(r rune) bool { return r == ' ' || (r >= 9 && r <= 13) })
}

// jwtStages runs Decode, the verifier and CheckTime one by one (so that the
// stage that refused is known without reading error texts) and checks that
// DecodeAndVerify agrees with the composition.
func (c *ctx) jwtStages(tok string, v jwt.Verifier, now time.Time, line string) (string, *jwt.Token) {
	full, ferr := jwt.DecodeAndVerify(bg, tok, v, now)
	dec, err := jwt.Decode(tok)
	stage := "ok"
	switch {
	case err != nil:
		stage = "decodeErr"
	default:
		if err := v.Verify(bg, dec.Header, dec.Payload, dec.Signature, now); err != nil {
			stage = "verifyErr"
		} else if _, err := jwt.CheckTime(dec.ClaimSet, now); err != nil {
			stage = "timeErr"
		}
	}
	if (stage == "ok") != (ferr == nil) {
		c.rep.Fail("jwt-decodeandverify-inconsistent",
			fmt.Sprintf("DecodeAndVerify err=%v but Decode/Verify/CheckTime say %s", ferr, stage), []string{line})
		return "inconsistent", nil
	}
	if stage != "ok" {
		return stage, nil
	}
	// the caller changes a token it got back; verifying the same text again gives the same token
	if t2, err := jwt.DecodeAndVerify(bg, tok, v, now); err == nil {
		want := showTok(t2)
		t2.Header.Alg, t2.Header.Typ, t2.Header.KeyID = "x", "x", "x"
		t2.ClaimSet.Exp, t2.ClaimSet.Iat, t2.ClaimSet.Iss = 0, 1<<40, "x"
		for i := range t2.Payload {
			t2.Payload[i] ^= 0xff
		}
		for i := range t2.Signature {
			t2.Signature[i] ^= 0xff
		}
		if t3, err := jwt.DecodeAndVerify(bg, tok, v, now); err != nil || showTok(t3) != want {
			c.rep.Fail("verifier-state-reachable-through-accessor",
				"after the caller changed the token object returned by DecodeAndVerify, verifying the same text again gives another answer", []string{line})
		}
	}
	return "ok", full
}

// jwtTimeOracle: an accepted token is neither expired nor issued in the future.
func (c *ctx) jwtTimeOracle(t *jwt.Token, now int64, line string) {
	if tm(now).After(time.Unix(t.ClaimSet.Exp, 0)) {
		c.rep.Fail("jwt-accepted-expired", fmt.Sprintf("token with exp=%d accepted at now=%d ns", t.ClaimSet.Exp, now), []string{line})
	}
	// the grace period is the code's choice (regenerated into the model); the
	// oracle only insists that it is a grace, i.e. bounded (one hour)
	if !time.Unix(t.ClaimSet.Iat, 0).Add(-time.Hour).Before(tm(now)) {
		c.rep.Fail("jwt-accepted-future", fmt.Sprintf("token with iat=%d accepted at now=%d ns (more than an hour before)", t.ClaimSet.Iat, now), []string{line})
	}
}

func showState(st *roles.VerifRoleState, codes []string) string {
	if !st.Found {
		return "none"
	}
	id := "-"
	if st.KeyIDs != nil {
		id = "?"
		if len(st.KeyIDs) == 1 {
			id = st.KeyIDs[0]
		}
	}
	pc := "none"
	if st.HasCode {
		k := "?"
		for i, cd := range codes {
			if cd == st.Code {
				k = strconv.Itoa(i + 1)
			}
		}
		cons := 0
		if st.Consumed {
			cons = 1
		}
		pc = fmt.Sprintf("%s/%d/%d/%d/%d", k, st.Valid, st.Expire, cons, st.Tried)
	}
	d := 0
	if st.Disabled {
		d = 1
	}
	return fmt.Sprintf("d=%d id=%s pc=%s", d, id, pc)
}

func errClass(err error) string {
	switch {
	case err == nil:
		return "ok"
	case errcode.IsNotFound(err):
		return "notFound"
	case errcode.IsInvalidArg(err):
		return "invalidArg"
	case errcode.IsUnauthorized(err):
		return "unauthorized"
	}
	return "error"
}

// prepCall parses one call of the Roles API (symbolic claims are resolved now).
func (c *ctx) prepCall(ws []string) *pcCall {
	if len(ws) < 2 {
		return nil
	}
	plain := func(f func() error) *pcCall {
		return &pcCall{run: f, finish: func(error, *roles.VerifRoleState) {}}
	}
	switch ws[1] {
	case "create":
		t := tm(0)
		return plain(func() error { return c.roles.New(roleName, t) })
	case "remove":
		return plain(func() error { return c.roles.Remove(roleName) })
	case "disable":
		return plain(func() error { return c.roles.Disable(roleName) })
	case "enable":
		return plain(func() error { return c.roles.Enable(roleName) })
	case "issue":
		now, ok1 := kvInt(ws, "now")
		ex, ok2 := kvInt(ws, "expiry")
		if !ok1 || !ok2 {
			return nil
		}
		r := c.roles
		var code string
		at := tm(now)
		return &pcCall{
			run: func() error {
				r.SetPassCodeExpiry(time.Duration(ex))
				pc, e := r.NewPassCode(roleName, at)
				if e == nil {
					code = pc.Code
				}
				return e
			},
			finish: func(err error, _ *roles.VerifRoleState) {
				if err == nil {
					c.codes = append(c.codes, code)
					c.wrongs, c.accepts = 0, 0
					c.last = nil // a new code: nothing to compare the record with
				}
			},
		}
	case "setup":
		now, ok1 := kvInt(ws, "now")
		claimW, ok2 := kvGet(ws, "claim")
		idn, ok3 := kvInt(ws, "id")
		if !ok1 || !ok2 || !ok3 {
			return nil
		}
		claim := ""
		switch claimW {
		case "right":
			claim = "x"
			if n := len(c.codes); n > 0 {
				claim = c.codes[n-1]
			}
		case "old":
			claim = "y"
			if n := len(c.codes); n > 1 {
				claim = c.codes[n-2]
			}
		case "wrong":
			claim = "w"
			if n := len(c.codes); n > 0 {
				b := []byte(c.codes[n-1])
				b[len(b)-1] = '0' + (b[len(b)-1]-'0'+1)%10
				claim = string(b)
			}
		}
		r := c.roles
		id := &identity.Identity{PublicKeys: []*identity.PublicKey{{ID: strconv.FormatInt(idn, 10)}}}
		at := tm(now)
		return &pcCall{
			run: func() error { return r.SetupWithCode(roleName, id, claim, at) },
			finish: func(err error, before *roles.VerifRoleState) {
				switch {
				case err == nil:
					// the direct oracle of the passcode clause
					hist := append([]string{}, c.hist...)
					if c.accepts > 0 {
						if c.scheduled {
							c.failHist("passcode-reusable-after-concurrent-mutation",
								"a consumed passcode was accepted again: a mutation of the role record that overlapped the accepting call wrote back the record it had loaded before", hist)
						} else {
							c.failHist("passcode-accepted-twice", "a passcode was accepted a second time without being re-issued", hist)
						}
					}
					if c.wrongs > 10 {
						c.failHist("passcode-accepted-after-too-many-wrong",
							fmt.Sprintf("the right passcode was accepted after %d refused attempts on this code", c.wrongs), hist)
					}
					if before == nil || !before.HasCode {
						if !c.scheduled {
							c.failHist("passcode-accepted-without-code", "SetupWithCode succeeded although no passcode is stored", hist)
						}
					} else if !c.scheduled {
						// (with a paused call the record the call read is not the one read here)
						if now < before.Valid || now > before.Expire {
							c.failHist("passcode-accepted-outside-window",
								fmt.Sprintf("accepted at %d, window [%d, %d]", now, before.Valid, before.Expire), hist)
						}
						if before.Code != claim {
							c.failHist("passcode-accepted-wrong-code", "a code different from the stored one was accepted", hist)
						}
						if before.Disabled {
							c.failHist("passcode-accepted-disabled", "accepted for a disabled role", hist)
						}
					}
					c.accepts++
				case errcode.IsUnauthorized(err):
					c.wrongs++
				}
			},
		}
	}
	return nil
}

// recordOracle: between two calls the stored record never goes back: for the
// same code the attempt count does not decrease, a consumed code stays
// consumed and a registered identity stays registered.
func (c *ctx) recordOracle(st *roles.VerifRoleState) {
	prev := c.last
	c.last = st
	if prev == nil || st == nil || !prev.Found || !st.Found || !prev.HasCode || !st.HasCode || prev.Code != st.Code {
		return
	}
	hist := append([]string{}, c.hist...)
	if st.Tried < prev.Tried {
		c.failHist("passcode-tries-lost-after-concurrent-mutation",
			fmt.Sprintf("the stored attempt count went from %d down to %d without a new code being issued", prev.Tried, st.Tried), hist)
	}
	if prev.Consumed && !st.Consumed {
		c.failHist("passcode-unconsumed-after-concurrent-mutation",
			"a consumed passcode is stored as not consumed again without having been re-issued", hist)
	}
}

func (c *ctx) pcOp(ws []string, line string) string {
	if len(ws) < 2 {
		return "bad-op"
	}
	if ws[1] == "reset" {
		c.resetRoles()
		c.hist = []string{line}
		return "ok none"
	}
	state := func() string {
		st, serr := c.roles.VerifState(roleName)
		if serr != nil {
			return "state-error"
		}
		// what Get / GetPassCode hand out is not the stored record
		if r, err := c.roles.Get(roleName); err == nil && r != nil {
			r.Disabled, r.Name = !r.Disabled, "poked"
		}
		if pc, err := c.roles.GetPassCode(roleName); err == nil && pc != nil {
			pc.Code, pc.TriedTooManyTimes = "poked", true
			if pc.Valid != nil {
				pc.Valid.Sec += 1000
			}
			if pc.Expire != nil {
				pc.Expire.Sec += 1000
			}
		}
		if st2, err := c.roles.VerifState(roleName); err != nil || fmt.Sprintf("%+v", *st2) != fmt.Sprintf("%+v", *st) {
			c.failHist("verifier-state-reachable-through-accessor",
				"changing the objects returned by Roles.Get / GetPassCode changed the stored record", append([]string{}, c.hist...))
		}
		c.recordOracle(st)
		return showState(st, c.codes)
	}
	switch ws[1] {
	case "park":
		if len(ws) < 4 || c.parked != nil || !strings.HasPrefix(ws[2], "at=") {
			return "bad-op"
		}
		call := c.prepCall(append([]string{"pc"}, ws[3:]...))
		if call == nil {
			return "bad-op"
		}
		c.hist = append(c.hist, line)
		c.scheduled = true
		before, _ := c.roles.VerifState(roleName)
		parkedCh := c.pz.arm(ws[2][3:])
		pk := &parkedCall{call: call, done: make(chan error, 1)}
		go func() {
			defer func() {
				if r := recover(); r != nil {
					pk.done <- fmt.Errorf("panic: %v", r)
				}
			}()
			pk.done <- call.run()
		}()
		select {
		case <-parkedCh:
			c.parked = pk
			return "parked " + state()
		case err := <-pk.done:
			c.pz.disarm()
			call.finish(err, before)
			return "done " + errClass(err) + " " + state()
		case <-time.After(schedWatchdog):
			c.pz.disarm()
			return "stuck"
		}
	case "release":
		c.hist = append(c.hist, line)
		if c.parked == nil {
			return "none " + state()
		}
		pk := c.parked
		c.parked = nil
		before, _ := c.roles.VerifState(roleName)
		close(c.pz.release)
		select {
		case err := <-pk.done:
			pk.call.finish(err, before)
			return "released " + errClass(err) + " " + state()
		case <-time.After(schedWatchdog):
			return "stuck"
		}
	}
	call := c.prepCall(ws)
	if call == nil {
		return "bad-op"
	}
	c.hist = append(c.hist, line)
	before, _ := c.roles.VerifState(roleName)
	err := call.run()
	call.finish(err, before)
	return errClass(err) + " " + state()
}

// runOp executes one op line on the implementation, evaluates the direct
// oracle, and returns the canonical output compared with the model's.
func (c *ctx) runOp(line string) (out string) {
	// a Go panic in the code under test is an observation, not the end of the run
	defer func() {
		curRep = 0
		extremeClock = nil
		if r := recover(); r != nil {
			w := strings.Fields(line + " x")[0]
			c.rep.Fail("panic-"+w, fmt.Sprintf("the implementation panicked: %v", r), []string{line})
			out = "panic"
		}
	}()
	ws := strings.Fields(line)
	rep := repOf(ws)
	curRep = rep
	setClock(ws)
	out = c.runOp1(line)
	_, poked := kvGet(ws, "poke")
	if poked && len(ws) > 0 && ws[0] != "pc" {
		// What an accessor hands out (Header(), the identity of a card, a decoded token) is
		// not the verifier's state: changing it must not change any verdict.
		curRep = rep
		if out0 := c.runOp1(stripPoke(line)); out0 != out {
			c.rep.Fail("verifier-state-reachable-through-accessor",
				fmt.Sprintf("%s answers %q after the caller changed an object returned by an accessor of the verifier, and %q without that", ws[0], clip(out, 60), clip(out0, 60)),
				[]string{line})
		}
	}
	if rep == 0 || len(ws) == 0 || ws[0] == "conc" {
		return out
	}
	// The verdict depends on the instant only: the same op with the clock value
	// built by time.Unix must answer the same.
	curRep = 0
	if ws[0] == "pc" {
		if c.noShadow {
			return out
		}
		// stateful: replay the history so far, without representations, on a fresh record
		sh := newCtx(hx.NewReport("C16", &hx.Flags{}), &hx.Journal{})
		sh.noShrink, sh.noShadow = true, true
		out0 := ""
		for _, h := range c.hist {
			out0 = sh.runOp(stripRep(h))
		}
		sh.drainParked()
		if out0 != out {
			c.failHist("verdict-depends-on-time-representation",
				fmt.Sprintf("the last call answers %q with this representation of the instant and %q when every instant is given as time.Unix(0, ns)", out, out0),
				append([]string{}, c.hist...))
		}
		return out
	}
	if out0 := c.runOp1(stripRep(line)); out0 != out {
		c.rep.Fail("verdict-depends-on-time-representation",
			fmt.Sprintf("%s answers %q when the clock value is representation %d of the instant and %q when it is time.Unix(0, ns)", ws[0], clip(out, 60), rep, clip(out0, 60)),
			[]string{line})
	}
	return out
}

func (c *ctx) runOp1(line string) string {
	ws := strings.Fields(line)
	if len(ws) == 0 {
		return "bad-op"
	}
	L := []string{line}
	optb := func(ok bool, d []byte) string {
		if !ok {
			return "fail"
		}
		return "ok " + hx.Hex(d)
	}
	switch ws[0] {
	case "pc":
		return c.pcOp(ws, line)
	case "conc":
		return c.concOp(ws, line)
	case "hexdec":
		s, ok := kvHex(ws, "s")
		if !ok {
			return "bad-op"
		}
		b, err := hex.DecodeString(string(s))
		return optb(err == nil, b)
	case "b64dec":
		s, ok := kvHex(ws, "s")
		if !ok {
			return "bad-op"
		}
		b, err := base64.RawURLEncoding.DecodeString(string(s))
		return optb(err == nil, b)
	case "hexenc":
		b, _ := kvHex(ws, "b")
		return hx.Hex([]byte(hex.EncodeToString(b)))
	case "b64enc":
		b, _ := kvHex(ws, "b")
		return hx.Hex([]byte(base64.RawURLEncoding.EncodeToString(b)))
	case "sign":
		k, ok1 := kvHex(ws, "k")
		d, ok2 := kvHex(ws, "d")
		if !ok1 || !ok2 {
			return "bad-op"
		}
		return hx.Hex(signer.New(k).Sign(d))
	case "signhex":
		k, ok1 := kvHex(ws, "k")
		d, ok2 := kvHex(ws, "d")
		if !ok1 || !ok2 {
			return "bad-op"
		}
		return hx.Hex([]byte(signer.New(k).SignHex(d)))
	case "check":
		k, ok1 := kvHex(ws, "k")
		t, ok2 := kvHex(ws, "t")
		if !ok1 || !ok2 {
			return "bad-op"
		}
		s := signer.New(k)
		ok, d := s.Check(t)
		if ok {
			if canon := s.Sign(d); !bytes.Equal(canon, t) || !bytes.Equal(t, append(append([]byte{}, d...), hmacOf(k, d)...)) {
				c.rep.Fail("check-noncanonical-accepted", "Check accepted bytes that are not payload ++ HMAC(payload)", L)
			}
		}
		if n := len(t); !ok && n >= 32 && bytes.Equal(t[n-32:], hmacOf(k, t[:n-32])) {
			c.rep.Fail("check-genuine-refused", "Check refused payload ++ HMAC(payload) (the other direction of the iff)", L)
		}
		return optb(ok, d)
	case "checkhex":
		k, ok1 := kvHex(ws, "k")
		t, ok2 := kvHex(ws, "s")
		if !ok1 || !ok2 {
			return "bad-op"
		}
		s := signer.New(k)
		ok, d := s.CheckHex(string(t))
		if ok {
			if canon := s.SignHex(d); canon != string(t) {
				c.rep.Fail("checkhex-"+classifyHex(string(t), canon)+"-accepted",
					"CheckHex accepted a text that is not the lower-case hex of payload ++ HMAC(payload)", L)
			}
		}
		if !ok && genuineHex(k, t) != nil {
			c.rep.Fail("checkhex-genuine-refused", "CheckHex refused the lower-case hex of payload ++ HMAC(payload) (the other direction of the iff)", L)
		}
		return optb(ok, d)
	case "sessnew":
		k, ok1 := kvHex(ws, "k")
		mx, ok2 := kvInt(ws, "max")
		now, ok3 := kvInt(ws, "now")
		ttl, ok4 := kvInt(ws, "ttl")
		d, ok5 := kvHex(ws, "d")
		if !(ok1 && ok2 && ok3 && ok4 && ok5) {
			return "bad-op"
		}
		ss := signer.NewSessions(k, time.Duration(mx))
		ss.TimeFunc = func() time.Time { return tm(now) }
		tok, exp := ss.New(d, time.Duration(ttl))
		e := exp.UnixNano()
		if e-now > mx {
			c.rep.Fail("session-ttl-not-capped", fmt.Sprintf("lifetime %d ns granted, configured maximum %d ns", e-now, mx), L)
		}
		want := mx
		if ttl > 0 && ttl <= mx {
			want = ttl
		}
		if e-now != want {
			c.rep.Fail("session-lifetime-wrong", fmt.Sprintf("lifetime %d ns granted for request %d, maximum %d", e-now, ttl, mx), L)
		}
		return hx.Hex([]byte(tok)) + " exp=" + strconv.FormatInt(e, 10)
	case "sesscheck", "gatecheck":
		k, ok1 := kvHex(ws, "k")
		mx, ok2 := kvInt(ws, "max")
		now, ok3 := kvInt(ws, "now")
		t, ok4 := kvHex(ws, "s")
		if !(ok1 && ok2 && ok3 && ok4) {
			return "bad-op"
		}
		ss := signer.NewSessions(k, time.Duration(mx))
		ss.TimeFunc = func() time.Time { return tm(now) }
		d, left, ok := ss.Check(string(t))
		if ok {
			bs, err := hex.DecodeString(string(t))
			if err != nil || len(bs) < 40 {
				c.rep.Fail("session-undecodable-accepted", "Sessions.Check accepted a text that is not hex of at least 40 bytes", L)
			} else {
				body := bs[:len(bs)-32]
				e := int64(binary.LittleEndian.Uint64(body[:8]))
				if !(now < e) {
					c.rep.Fail("session-accepted-at-or-after-expiry", fmt.Sprintf("session with expiry %d accepted at %d", e, now), L)
				}
				if canon := signer.New(k).SignHex(body); canon != string(t) {
					c.rep.Fail("session-"+classifyHex(string(t), canon)+"-accepted",
						"Sessions.Check accepted a text that is not the canonical signing of expiry ++ payload", L)
				}
				if !bytes.Equal(d, body[8:]) {
					c.rep.Fail("session-payload-mismatch", "Sessions.Check returned a payload different from the signed one", L)
				}
			}
		}
		if body := genuineHex(k, t); !ok && len(body) >= 8 && now < int64(binary.LittleEndian.Uint64(body[:8])) {
			c.rep.Fail("session-genuine-refused", "Sessions.Check refused a genuine session before its expiry (the other direction of the iff)", L)
		}
		if ws[0] == "gatecheck" {
			g := authgate.New(&authgate.Config{Sessions: ss})
			info, err := g.CheckToken(string(t), authgate.TokenBearer)
			if err != nil {
				return "error"
			}
			if info.Valid != ok {
				c.rep.Fail("gate-valid-without-session", "Gate.CheckToken and Sessions.Check disagree", L)
			}
			if !info.Valid {
				return "invalid"
			}
			r := 0
			if info.NeedRefresh {
				r = 1
			}
			return fmt.Sprintf("valid user=%s refresh=%d", hx.Hex([]byte(info.User)), r)
		}
		if !ok {
			return "fail"
		}
		return fmt.Sprintf("ok %s left=%d", hx.Hex(d), int64(left))
	case "gatelife":
		life, ok1 := kvInt(ws, "life")
		ttl, ok2 := kvInt(ws, "ttl")
		if !ok1 || !ok2 {
			return "bad-op"
		}
		g := authgate.New(&authgate.Config{SessionKey: []byte("gate key"), SessionLifeTime: time.Duration(life)})
		t0 := time.Now()
		tok := g.Token("u", time.Duration(ttl))
		d := tok.Expire.Sub(t0)
		// the gate reads the wall clock itself: round to the minute (inputs are whole minutes)
		l := (d + 30*time.Second) / time.Minute * time.Minute
		info, err := g.CheckToken(tok.Token, authgate.TokenBearer)
		if err != nil || info.Valid != (l > 0) || (info.Valid && info.User != "u") {
			c.rep.Fail("gate-own-token-refused", "the gate does not accept the token it just issued", L)
		}
		return fmt.Sprintf("life=%d", int64(l))
	case "ttoken":
		k, ok1 := kvHex(ws, "k")
		now, ok2 := kvInt(ws, "now")
		if !ok1 || !ok2 {
			return "bad-op"
		}
		ts := signer.NewTimeSigner(k, time.Second)
		ts.TimeFunc = func() time.Time { return tm(now) }
		return hx.Hex([]byte(ts.Token()))
	case "tcheck":
		k, ok1 := kvHex(ws, "k")
		w, ok2 := kvInt(ws, "w")
		now, ok3 := kvInt(ws, "now")
		t, ok4 := kvHex(ws, "s")
		if !(ok1 && ok2 && ok3 && ok4) {
			return "bad-op"
		}
		ts := signer.NewTimeSigner(k, time.Duration(w))
		ts.TimeFunc = func() time.Time { return tm(now) }
		ok := ts.Check(string(t))
		if ok {
			bs, err := hex.DecodeString(string(t))
			if err != nil || len(bs) != 40 {
				c.rep.Fail("timetoken-malformed-accepted", "TimeSigner.Check accepted a text that is not hex of 8+32 bytes", L)
			} else {
				tt := int64(binary.LittleEndian.Uint64(bs[:8]))
				if !inWindowBig(tt, w) {
					c.rep.Fail("timetoken-outside-window", fmt.Sprintf("token time %d accepted at %s with window %d", tt, nowBig, w), L)
				}
				if canon := signer.New(k).SignHex(bs[:8]); canon != string(t) {
					c.rep.Fail("timetoken-"+classifyHex(string(t), canon)+"-accepted",
						"TimeSigner.Check accepted a text that is not the canonical signing of its timestamp", L)
				}
			}
			return "ok"
		}
		if body := genuineHex(k, t); len(body) == 8 {
			tt := int64(binary.LittleEndian.Uint64(body))
			if inWindowBig(tt, w) {
				c.rep.Fail("timetoken-genuine-refused", "TimeSigner.Check refused a genuine token strictly inside the window (the other direction of the iff)", L)
			}
		}
		return "fail"
	case "rsat":
		lb, ok1 := kvHex(ws, "pub")
		w, ok2 := kvInt(ws, "w")
		now, ok3 := kvInt(ws, "now")
		data, ok4 := kvHex(ws, "data")
		hash, ok5 := kvHex(ws, "hash")
		sig, ok6 := kvHex(ws, "sig")
		key := c.keys[string(lb)]
		if !(ok1 && ok2 && ok3 && ok4 && ok5 && ok6) || key == nil {
			return "bad-op"
		}
		rs := signer.NewRSATimeSigner(key.pub, time.Duration(w))
		rs.TimeFunc = func() time.Time { return tm(now) }
		err := rs.Check(&signer.SignedRSABlock{Data: data, Hash: hash, Sig: sig})
		if err == nil {
			if len(data) < 8 {
				c.rep.Fail("rsatime-short-accepted", "block with less than 8 data bytes accepted", L)
			} else {
				tt := int64(binary.LittleEndian.Uint64(data[:8]))
				if !inWindowBig(tt, w) {
					c.rep.Fail("rsatime-outside-window", fmt.Sprintf("block time %d accepted at %s with window %d", tt, nowBig, w), L)
				}
				h := sha256.Sum256(data)
				if !bytes.Equal(h[:], hash) || !bytes.Equal(sig, rsaSign(key, data)) {
					c.rep.Fail("rsatime-noncanonical-accepted", "accepted block is not (data, SHA-256(data), PKCS#1 v1.5 signature of it)", L)
				}
			}
			return "ok"
		}
		return "fail"
	case "chal":
		k, ok1 := kvHex(ws, "k")
		now, ok2 := kvInt(ws, "now")
		w, ok3 := kvInt(ws, "w")
		t, ok4 := kvHex(ws, "t")
		if !(ok1 && ok2 && ok3 && ok4) {
			return "bad-op"
		}
		s := signer.New(k)
		ch, err := s.CheckChallenge(t, tm(now), time.Duration(w))
		if err == nil {
			ok, d := s.Check(t)
			if !ok || !bytes.Equal(s.Sign(d), t) {
				c.rep.Fail("challenge-noncanonical-accepted", "CheckChallenge accepted bytes that are not payload ++ HMAC(payload)", L)
			} else if ch == nil {
				c.rep.Fail("challenge-nil-accepted", "CheckChallenge returned neither a challenge nor an error", L)
			} else {
				ct := timeutil.Time(ch.T)
				if tm(now).Before(ct) || tm(now).After(ct.Add(time.Duration(w))) {
					c.rep.Fail("challenge-outside-window", "challenge accepted outside [T, T+w]", L)
				}
			}
			return "ok"
		}
		if errcode.IsInvalidArg(err) {
			return "rejected"
		}
		return "invalid"
	case "jwths":
		k, ok1 := kvHex(ws, "k")
		kid, ok2 := kvHex(ws, "kid")
		now, ok3 := kvInt(ws, "now")
		tok, ok4 := kvHex(ws, "tok")
		if !(ok1 && ok2 && ok3 && ok4) {
			return "bad-op"
		}
		v := jwt.NewHS256(k, string(kid))
		if pk, ok := kvGet(ws, "poke"); ok {
			f := strings.Split(pk, "/")
			if len(f) != 3 {
				return "bad-op"
			}
			// the caller of Header() changes what it got (twice: a copy handed out later is changed too)
			for i := 0; i < 2; i++ {
				if h, err := v.Header(bg); err == nil && h != nil {
					h.Alg, h.Typ, h.KeyID = string(hx.UnHex(f[0])), string(hx.UnHex(f[1])), string(hx.UnHex(f[2]))
				}
			}
		}
		st, t := c.jwtStages(string(tok), v, tm(now), line)
		if t == nil {
			return st
		}
		p := strings.Split(string(tok), ".")
		if len(p) != 3 {
			c.rep.Fail("jwt-malformed-accepted", "token without exactly three segments accepted", L)
			return showTok(t)
		}
		canon := p[0] + "." + p[1] + "." + base64.RawURLEncoding.EncodeToString(hmacOf(k, []byte(p[0]+"."+p[1])))
		if canon != string(tok) {
			c.rep.Fail("jwt-hs256-"+classifyJWT(string(tok), canon)+"-accepted",
				"accepted token is not header.claims.base64url(HMAC(header.claims))", L)
		}
		if t.Header.Alg != jwt.AlgHS256 || t.Header.Typ != jwt.DefaultType || t.Header.KeyID != string(kid) {
			c.rep.Fail("jwt-hs256-header-not-pinned", fmt.Sprintf("token with header %+v accepted by the HS256 verifier for kid %q", *t.Header, kid), L)
		}
		c.jwtTimeOracle(t, now, line)
		return showTok(t)
	case "jwtrs", "self":
		now, ok1 := kvInt(ws, "now")
		keysS, ok2 := kvGet(ws, "keys")
		tok, ok3 := kvHex(ws, "tok")
		ks, ok4 := parseKeys(keysS)
		if !(ok1 && ok2 && ok3 && ok4) {
			return "bad-op"
		}
		var card identity.Card = c.card(ks)
		if _, ok := kvGet(ws, "poke"); ok {
			// the card is an identity core; the caller changes the identity it handed out
			core := buildCore(c, ks, time.Now)
			if id, err := core.Identity(bg); err == nil && id != nil {
				for _, pk := range id.PublicKeys {
					pk.ID, pk.Type, pk.Key, pk.NotValidAfter, pk.NotValidBefore = "poked", "poked", "poked", 1<<40, 0
				}
				id.PublicKeys = append(id.PublicKeys, &identity.PublicKey{ID: "main", Type: "ssh-rsa", Key: c.keyText("k0"), NotValidAfter: 1 << 40})
			}
			card = core
		}
		v := identity.NewJWTVerifier(card)
		st, t := c.jwtStages(string(tok), v, tm(now), line)
		if ws[0] == "self" {
			user, ok5 := kvHex(ws, "user")
			host, ok6 := kvHex(ws, "host")
			if !ok5 || !ok6 {
				return "bad-op"
			}
			full, ferr := identity.VerifySelfToken(bg, string(tok), string(user), string(host), card, tm(now))
			if t != nil {
				cerr := jwt.CheckClaimSet(t.ClaimSet, &jwt.ClaimSet{Iss: identity.Self, Sub: string(user), Aud: string(host)})
				if cerr != nil {
					st, t = "claimErr", nil
				}
			}
			if ferr == nil {
				cl := full.ClaimSet
				if cl == nil || cl.Iss != identity.Self || (len(user) > 0 && cl.Sub != string(user)) || (len(host) > 0 && cl.Aud != string(host)) {
					c.rep.Fail("selftoken-claims-mismatch", "self token with other issuer/subject/audience accepted", L)
				}
				if st == "decodeErr" || st == "verifyErr" || st == "timeErr" {
					c.rep.Fail("selftoken-inconsistent", "VerifySelfToken accepted a token that Decode/Verify/CheckTime refuse ("+st+")", L)
					return "inconsistent"
				}
				t = full
			} else if t != nil {
				// refused although every stage passes: only a disagreement with the model
				return "refused"
			}
		}
		if t == nil {
			return st
		}
		p := strings.Split(string(tok), ".")
		var found *keySpec
		for i := range ks {
			if ks[i].id == t.Header.KeyID {
				found = &ks[i]
				break
			}
		}
		switch {
		case len(p) != 3:
			c.rep.Fail("jwt-malformed-accepted", "token without exactly three segments accepted", L)
		case t.Header.Alg != jwt.AlgRS256:
			c.rep.Fail("jwt-rs256-alg-not-pinned", "token with alg "+t.Header.Alg+" accepted by the RS256 verifier", L)
		case found == nil:
			c.rep.Fail("jwt-rs256-unknown-key-accepted", "token signed with a key id the identity does not have was accepted", L)
		case found.typ != "ssh-rsa":
			c.rep.Fail("jwt-rs256-key-type-accepted", "key of type "+found.typ+" accepted", L)
		case found.nb > 0 && tm(now).Before(time.Unix(found.nb, 0)):
			c.rep.Fail("jwt-rs256-key-not-yet-valid-accepted", "key accepted before NotValidBefore", L)
		case tm(now).After(time.Unix(found.na, 0)):
			c.rep.Fail("jwt-rs256-key-expired-accepted", "key accepted after NotValidAfter", L)
		case c.keys[found.label] == nil:
			c.rep.Fail("jwt-rs256-unparsable-key-accepted", "unparsable key accepted", L)
		default:
			sig := rsaSign(c.keys[found.label], []byte(p[0]+"."+p[1]))
			canon := p[0] + "." + p[1] + "." + base64.RawURLEncoding.EncodeToString(sig)
			if canon != string(tok) {
				c.rep.Fail("jwt-rs256-"+classifyJWT(string(tok), canon)+"-accepted",
					"accepted token is not header.claims.base64url(RS256 signature of header.claims)", L)
			}
		}
		c.jwtTimeOracle(t, now, line)
		return showTok(t)
	case "claims":
		cs, ok1 := kvGet(ws, "c")
		ts, ok2 := kvGet(ws, "t")
		cl, ok3 := parseClaims(cs)
		tp, ok4 := parseClaims(ts)
		if !(ok1 && ok2 && ok3 && ok4) {
			return "bad-op"
		}
		err := jwt.CheckClaimSet(cl, tp)
		if err == nil {
			bad := cl == nil
			if cl != nil && tp != nil {
				bad = (tp.Iss != "" && cl.Iss != tp.Iss) || (tp.Aud != "" && cl.Aud != tp.Aud) ||
					(tp.Typ != "" && cl.Typ != tp.Typ) || (tp.Sub != "" && cl.Sub != tp.Sub)
				if tp.Scope != "" {
					have := map[string]bool{}
					for _, f := range asciiFields(cl.Scope) {
						have[f] = true
					}
					for _, f := range asciiFields(tp.Scope) {
						if !have[f] {
							bad = true
						}
					}
				}
			}
			if bad {
				c.rep.Fail("claims-mismatch-accepted", "CheckClaimSet accepted claims that do not match the template", L)
			}
			return "ok"
		}
		return "fail"
	}
	return "bad-op"
}

// ---- JSON tables for the driver (JSON field decoding is a parameter of the model) ----

func hjEntry(seg string) string {
	bs, err := base64.RawURLEncoding.DecodeString(seg)
	if err != nil {
		return ""
	}
	h := new(jwt.Header)
	if json.Unmarshal(bs, h) != nil {
		return ""
	}
	return fmt.Sprintf("%s:%s/%s/%s", hx.Hex(bs), hx.Hex([]byte(h.Alg)), hx.Hex([]byte(h.Typ)), hx.Hex([]byte(h.KeyID)))
}

func cjEntry(seg string) string {
	bs, err := base64.RawURLEncoding.DecodeString(seg)
	if err != nil {
		return ""
	}
	cl := new(jwt.ClaimSet)
	if json.Unmarshal(bs, cl) != nil {
		return ""
	}
	m := map[string]interface{}{}
	if json.Unmarshal(bs, &m) != nil {
		return ""
	}
	return fmt.Sprintf("%s:%s", hx.Hex(bs), showClaims(cl, true))
}

func showClaims(c *jwt.ClaimSet, times bool) string {
	if c == nil {
		return "nil"
	}
	s := fmt.Sprintf("%s/%s/%s/%s/%s", hx.Hex([]byte(c.Iss)), hx.Hex([]byte(c.Scope)), hx.Hex([]byte(c.Aud)),
		hx.Hex([]byte(c.Typ)), hx.Hex([]byte(c.Sub)))
	if times {
		s += fmt.Sprintf("/%d/%d", c.Exp, c.Iat)
	}
	return s
}

func main() {
	log.SetOutput(io.Discard)
	f := hx.ParseFlags()
	rep := hx.NewReport("C16", f)
	rep.Rule = "op lines: issue/verify of signed blobs, hex blobs, sessions, gate tokens, time tokens, RSA time blocks, challenges, " +
		"HS256/RS256/self JWTs with every single-bit mutation, every prefix and byte-class extensions of issued tokens, clocks at " +
		"each boundary -2..+2 ns and +-1 s (at -1/0/+1 ns also with the instant as .UTC(), .In(+05:30), .Local(), a monotonic time.Now()-derived value and a normalised time.Unix(sec, nsec) in a zero-offset zone), claim templates over all field subsets, passcode histories up to 16 ops (one in three with a call paused at a store operation of a pausable KV and released later), " +
		"and `conc` lines: 4..16 goroutines verifying genuine tokens and forgeries on one shared Signer/Sessions/TimeSigner/Gate/HS256; " +
		"distinct = distinct op line (a passcode op counts with its history prefix); non-trivial = every op except codec-only lines"
	c := newCtx(rep, hx.NewJournal(f.Work))

	var sampleOps, sampleOut []string
	seenStream := map[string]int{}
	process := func(b opBatch) {
		c.resetRoles()
		impl := make([]string, len(b.ops))
		hprefix := ""
		for i, op := range b.ops {
			impl[i] = c.runOp(op)
			key := op
			if strings.HasPrefix(op, "pc ") {
				if op == "pc reset" {
					hprefix = ""
				}
				// a passcode op counts with its history: chain the digests
				hd := sha256.Sum256([]byte(hprefix + "|" + op))
				hprefix = string(hd[:16])
				key = hprefix
			}
			// (distinctness is counted on a 96-bit digest of the canonical form to bound memory)
			dg := sha256.Sum256([]byte(key))
			rep.Case(string(dg[:12]), !strings.HasPrefix(op, "hex") && !strings.HasPrefix(op, "b64"))
			rep.Count("stream:" + b.stream)
			rep.Count("out:" + b.stream + ":" + outClass(impl[i]))
		}
		model, err := hx.RunDriver(f.Driver, nil, b.ops)
		if err != nil {
			rep.Note("driver failed on stream %s: %v", b.stream, err)
			rep.ModelAvailable = false
		} else {
			rep.Diff(b.stream, b.ops, impl, model)
		}
		if seenStream[b.stream] < 2 {
			seenStream[b.stream]++
			for i := 0; i < len(b.ops); i += 1 + len(b.ops)/2 {
				sampleOps = append(sampleOps, b.stream+": "+clip(b.ops[i], 300))
				sampleOut = append(sampleOut, clip(impl[i], 200))
			}
		}
	}
	if f.Replay != "" {
		ops, err := hx.ReadReplayOps(f.Replay)
		if err != nil {
			fmt.Println("replay:", err)
			return
		}
		process(opBatch{"replay", ops})
	} else {
		for _, ops := range hx.CorpusOps("C16") {
			process(opBatch{"corpus", ops})
		}
		g := newGen(hx.NewRand(f.Seed), f.Thorough(), rep, c, process)
		g.all()
	}
	rep.Distribution["concurrent_verifications"] = c.concCalls
	c.j.Clear()
	for i := 0; i < len(sampleOps); i += 1 + len(sampleOps)/10 {
		rep.Sample(map[string]string{"op": sampleOps[i], "impl": sampleOut[i]})
	}
	rep.Exhaustive = false
	rep.Write(f.Out)
}

var outClasses = map[string]bool{"ok": true, "fail": true, "valid": true, "invalid": true, "rejected": true,
	"decodeErr": true, "verifyErr": true, "timeErr": true, "claimErr": true, "notFound": true, "invalidArg": true,
	"unauthorized": true, "bad-op": true, "error": true, "inconsistent": true}

func outClass(out string) string {
	w := strings.Fields(out + " x")[0]
	if outClasses[w] {
		return w
	}
	return "value"
}

func clip(s string, n int) string {
	if len(s) > n {
		return s[:n] + "..."
	}
	return s
}
