package main

// The concurrent stream.  Everything else in this harness verifies one token
// at a time; here N goroutines verify on ONE shared Signer / Sessions /
// TimeSigner / Gate / HS256 verifier, mixing genuine tokens with forgeries
// built from genuine parts (genuine MAC over another payload, genuine payload
// with the MAC of another payload, tokens of a second key).  Per call the
// direct oracle is: no forgery ever verifies; every genuine token verifies
// and returns exactly its own payload; concurrent signing yields the
// canonical token.  No assertion depends on timing: the budget only bounds
// how long the goroutines run.

import (
	"bytes"
	"encoding/base64"
	"encoding/hex"
	"fmt"
	"runtime"
	"strings"
	"sync"
	"sync/atomic"
	"time"

	"shanhu.io/g/jwt"
	"shanhu.io/g/signer"
	"shanhu.io/g/signin/authgate"
	"verif/harness/hx"
)

type concCase struct {
	tok     []byte // bytes or text presented
	genuine bool
	payload []byte // what a genuine token must return
	class   string
}

type concResult struct {
	calls    int64
	bad      string            // "bad-op" for an unusable line
	seen     map[string]string // violated expectation class -> first observation
	badClass string
}

// concRun runs one concurrent experiment and returns what it saw.
func concRun(kind string, k []byte, n int, budget time.Duration, seed uint64) concResult {
	if runtime.GOMAXPROCS(0) < 4 {
		runtime.GOMAXPROCS(4)
	}
	r := hx.NewRand(seed)
	k2 := append(append([]byte{}, k...), 0x5a)
	const now = int64(1_700_000_000_000_000_000)
	fixed := func() time.Time { return tm(now) }

	sg := signer.New(k)
	ss := signer.NewSessions(k, time.Hour)
	ss.TimeFunc = fixed
	ts := signer.NewTimeSigner(k, time.Minute)
	ts.TimeFunc = fixed
	gate := authgate.New(&authgate.Config{Sessions: ss})
	hs := jwt.NewHS256(k, "kid")

	// payloads of equal and of different lengths
	var pls [][]byte
	for _, s := range []string{"alice", "admin", "bobby", "al", "administrator", ""} {
		pls = append(pls, []byte(s))
	}
	pls = append(pls, r.Bytes(64), r.Bytes(64), r.Bytes(5))

	var cases []concCase
	add := func(tok []byte, genuine bool, payload []byte, class string) {
		cases = append(cases, concCase{tok, genuine, payload, class})
	}
	switch kind {
	case "check", "checkhex":
		enc := func(b []byte) []byte {
			if kind == "checkhex" {
				return []byte(hex.EncodeToString(b))
			}
			return b
		}
		for i, d := range pls {
			add(enc(append(append([]byte{}, d...), hmacOf(k, d)...)), true, d, "genuine")
			add(enc(append(append([]byte{}, d...), hmacOf(k2, d)...)), false, nil, "second-key")
			for j, e := range pls {
				if i != j {
					// payload e under the genuine MAC of d
					add(enc(append(append([]byte{}, e...), hmacOf(k, d)...)), false, nil, "genuine-mac-other-payload")
				}
			}
		}
	case "sess", "gate":
		exp := le64(now + int64(time.Hour))
		for i, d := range pls {
			body := append(append([]byte{}, exp...), d...)
			add([]byte(hex.EncodeToString(append(append([]byte{}, body...), hmacOf(k, body)...))), true, d, "genuine")
			add([]byte(hex.EncodeToString(append(append([]byte{}, body...), hmacOf(k2, body)...))), false, nil, "second-key")
			for j, e := range pls {
				if i != j {
					fb := append(append([]byte{}, exp...), e...)
					add([]byte(hex.EncodeToString(append(append([]byte{}, fb...), hmacOf(k, body)...))), false, nil, "genuine-mac-other-payload")
				}
			}
			// a later expiry under the genuine MAC
			fb := append(le64(now+int64(1000*time.Hour)), d...)
			add([]byte(hex.EncodeToString(append(append([]byte{}, fb...), hmacOf(k, body)...))), false, nil, "genuine-mac-other-expiry")
		}
	case "time":
		times := []int64{now, now + 1, now - int64(30*time.Second), now + int64(59*time.Second)}
		for i, t := range times {
			b := le64(t)
			add([]byte(hex.EncodeToString(append(append([]byte{}, b...), hmacOf(k, b)...))), true, nil, "genuine")
			add([]byte(hex.EncodeToString(append(append([]byte{}, b...), hmacOf(k2, b)...))), false, nil, "second-key")
			for j, u := range times {
				if i != j {
					add([]byte(hex.EncodeToString(append(le64(u), hmacOf(k, b)...))), false, nil, "genuine-mac-other-payload")
				}
			}
		}
	case "jwths":
		var toks []string
		for i := range pls[:6] {
			cl := &jwt.ClaimSet{Iss: "iss", Aud: "aud", Sub: fmt.Sprintf("user%d", i), Iat: now/1e9 - 10, Exp: now/1e9 + 3600}
			t, err := jwt.EncodeAndSign(bg, cl, hs)
			if err != nil {
				return concResult{seen: map[string]string{"genuine-refused": "issue failed: " + err.Error()}}
			}
			toks = append(toks, t)
		}
		for i, t := range toks {
			p := strings.Split(t, ".")
			add([]byte(t), true, []byte(p[0]+"."+p[1]), "genuine")
			add([]byte(p[0]+"."+p[1]+"."+base64.RawURLEncoding.EncodeToString(hmacOf(k2, []byte(p[0]+"."+p[1])))), false, nil, "second-key")
			for j, u := range toks {
				if i != j {
					q := strings.Split(u, ".")
					add([]byte(q[0]+"."+q[1]+"."+p[2]), false, nil, "genuine-mac-other-payload")
				}
			}
		}
	default:
		return concResult{badClass: "bad-op"}
	}

	// one verification; a panic inside the code under test is an observation
	verify := func(c *concCase) (ok bool, payload []byte, panicked string) {
		defer func() {
			if r := recover(); r != nil {
				ok, payload, panicked = false, nil, fmt.Sprint(r)
			}
		}()
		switch kind {
		case "check":
			ok, payload = sg.Check(c.tok)
		case "checkhex":
			ok, payload = sg.CheckHex(string(c.tok))
		case "sess":
			payload, _, ok = ss.Check(string(c.tok))
		case "gate":
			info, err := gate.CheckToken(string(c.tok), authgate.TokenBearer)
			if err == nil && info != nil && info.Valid {
				ok, payload = true, []byte(info.User)
			}
		case "time":
			ok = ts.Check(string(c.tok))
		case "jwths":
			t, err := jwt.DecodeAndVerify(bg, string(c.tok), hs, tm(now))
			if err == nil {
				ok, payload = true, t.Payload
			}
		}
		return
	}

	var (
		wg    sync.WaitGroup
		stop  atomic.Bool
		calls atomic.Int64
		mu    sync.Mutex
		res   = concResult{seen: map[string]string{}}
	)
	// A verified forgery ends the experiment; the weaker observations (a refused
	// genuine token, a panic, a non-canonical signature) are recorded and the
	// goroutines go on, so that the decisive observation is still looked for.
	report := func(class, msg string) {
		mu.Lock()
		if _, ok := res.seen[class]; !ok {
			res.seen[class] = msg
		}
		mu.Unlock()
		if class == "forgery-accepted" || class == "wrong-payload" {
			stop.Store(true)
		}
	}
	deadline := time.Now().Add(budget)
	var genuineIdx, forgedIdx []int
	for i := range cases {
		if cases[i].genuine {
			genuineIdx = append(genuineIdx, i)
		} else {
			forgedIdx = append(forgedIdx, i)
		}
	}
	for g := 0; g < n; g++ {
		wg.Add(1)
		gr := hx.NewRand(seed*1000003 + uint64(g) + 1)
		role := g % 4 // 0,1: genuine only; 2: forgeries only; 3: mixed, with signing
		go func() {
			defer wg.Done()
			cnt := int64(0)
			defer func() { calls.Add(cnt) }()
			for i := 0; !stop.Load(); i++ {
				if i&0xff == 0 && time.Now().After(deadline) {
					return
				}
				var c *concCase
				switch {
				case role <= 1:
					c = &cases[hx.Pick(gr, genuineIdx)]
				case role == 2:
					c = &cases[hx.Pick(gr, forgedIdx)]
				default:
					c = &cases[gr.Intn(len(cases))]
					if (kind == "check" || kind == "checkhex") && gr.Intn(4) == 0 {
						// concurrent signing must give the canonical token
						d := hx.Pick(gr, pls)
						want := append(append([]byte{}, d...), hmacOf(k, d)...)
						got := func() (b []byte) {
							defer func() { recover() }()
							return sg.Sign(d)
						}()
						cnt++
						if !bytes.Equal(got, want) {
							report("sign-noncanonical", fmt.Sprintf("Sign(%q) under concurrent use returned %x, canonical is %x", d, got, want))
						}
						continue
					}
				}
				ok, payload, pan := verify(c)
				cnt++
				switch {
				case pan != "":
					report("panic", "verification panicked under concurrent use: "+pan)
				case ok && !c.genuine:
					report("forgery-accepted", fmt.Sprintf("a forged token (%s) verified while genuine tokens were being verified on the same object; returned payload %q", c.class, payload))
					return
				case !ok && c.genuine:
					report("genuine-refused", "a genuine token was refused while other tokens were being verified on the same object")
				case ok && c.payload != nil && !bytes.Equal(payload, c.payload):
					report("wrong-payload", fmt.Sprintf("a genuine token verified but returned payload %q instead of %q", payload, c.payload))
					return
				}
			}
		}()
	}
	wg.Wait()
	res.calls = calls.Load()
	return res
}

// concOp executes a `conc` op line.
func (c *ctx) concOp(ws []string, line string) string {
	kind, ok1 := kvGet(ws, "kind")
	k, ok2 := kvHex(ws, "k")
	n, ok3 := kvInt(ws, "n")
	ms, ok4 := kvInt(ws, "ms")
	seed, ok5 := kvInt(ws, "seed")
	if !(ok1 && ok2 && ok3 && ok4 && ok5) || n < 1 || n > 64 || ms < 1 || ms > 60000 {
		return "bad-op"
	}
	r := concRun(kind, k, int(n), time.Duration(ms)*time.Millisecond, uint64(seed))
	c.rep.Count("conc:calls:" + kind)
	c.concCalls += r.calls
	if r.badClass == "bad-op" {
		return "bad-op"
	}
	if len(r.seen) == 0 {
		return "ok"
	}
	// Re-run the observation (fresh objects) before reporting.  What was seen is a
	// verified forgery / refused genuine token / panic, which no load can excuse
	// (no expectation depends on timing), so it is reported either way; the
	// description says how often it recurred.
	again := map[string]int{}
	for i := 0; i < 3; i++ {
		r2 := concRun(kind, k, int(n), time.Duration(ms)*time.Millisecond, uint64(seed)+uint64(i)+1)
		for cl, msg := range r2.seen {
			again[cl]++
			if _, ok := r.seen[cl]; !ok {
				r.seen[cl] = msg
			}
		}
	}
	out := ""
	var also []string
	for _, cl := range []string{"forgery-accepted", "wrong-payload", "sign-noncanonical", "genuine-refused", "panic"} {
		if _, ok := r.seen[cl]; ok {
			if out == "" {
				out = cl
			} else {
				also = append(also, cl)
			}
		}
	}
	// one failure per kind, keyed by the most decisive observation
	c.rep.Fail("concurrent-"+kind+"-"+out,
		fmt.Sprintf("%s (%d concurrent calls in the first run; seen again in %d of 3 re-runs; also seen: %s)",
			r.seen[out], r.calls, again[out], strings.Join(also, ", ")), []string{line})
	return out
}
