package main

// Generators.  Every random choice derives from one hx.Rand; tokens are issued
// by the implementation itself and then mutated.

import (
	"encoding/base64"
	"encoding/hex"
	"encoding/json"
	"fmt"
	"strings"
	"time"

	"shanhu.io/g/identity"
	"shanhu.io/g/jwt"
	"shanhu.io/g/signer"
	"verif/harness/hx"
)

type opBatch struct {
	stream string
	ops    []string
}

type gen struct {
	r    *hx.Rand
	big  bool
	rep  *hx.Report
	c    *ctx
	cur  *opBatch
	emit func(b opBatch) // runs a finished batch (implementation, model, diff)
}

func newGen(r *hx.Rand, big bool, rep *hx.Report, c *ctx, emit func(opBatch)) *gen {
	return &gen{r: r, big: big, rep: rep, c: c, emit: emit}
}

// stream starts a new batch; the previous one is run and released.
func (g *gen) stream(name string) {
	g.flush()
	g.cur = &opBatch{stream: name}
}

func (g *gen) flush() {
	if g.cur != nil && len(g.cur.ops) > 0 {
		g.emit(*g.cur)
	}
	g.cur = nil
}

func (g *gen) add(op string) { g.cur.ops = append(g.cur.ops, op) }

func (g *gen) n(quick, thorough int) int {
	if g.big {
		return thorough
	}
	return quick
}

// byte classes appended to / inserted into issued tokens
var extBytes = []byte{0x00, '\n', '\r', ' ', '0', '9', 'a', 'f', 'g', 'A', 'F', 'G', '=', '.', '-', '_', 0x7f, 0x80, 0xff}

func macsOf(k []byte, datas ...[]byte) string {
	var es []string
	seen := map[string]bool{}
	for _, d := range datas {
		if d == nil {
			continue
		}
		key := hx.Hex(d)
		if seen[key] {
			continue
		}
		seen[key] = true
		es = append(es, key+":"+hx.Hex(hmacOf(k, d)))
	}
	if len(es) == 0 {
		return "macs=."
	}
	return "macs=" + strings.Join(es, ",")
}

// dataPart is what Check would MAC for the raw token bs (nil when too short).
func dataPart(bs []byte) []byte {
	if len(bs) < 32 {
		return nil
	}
	d := bs[:len(bs)-32]
	if d == nil || len(d) == 0 {
		return []byte{}
	}
	return d
}

func dataPartHex(text []byte) []byte {
	bs, err := hex.DecodeString(string(text))
	if err != nil {
		return nil
	}
	return dataPart(bs)
}

// mutations of a byte string: every single-bit flip, every proper prefix,
// one-byte extensions at the end, at the front and in the middle, dropped byte.
func (g *gen) mutations(t []byte, each func(m []byte, kind string)) {
	for i := 0; i < len(t)*8; i++ {
		m := append([]byte{}, t...)
		m[i/8] ^= 1 << uint(i%8)
		each(m, "bitflip")
	}
	for k := 0; k < len(t); k++ {
		each(append([]byte{}, t[:k]...), "prefix")
	}
	for _, b := range extBytes {
		each(append(append([]byte{}, t...), b), "extend")
		each(append([]byte{b}, t...), "prepend")
		if len(t) > 1 {
			p := 1 + g.r.Intn(len(t)-1)
			m := append(append(append([]byte{}, t[:p]...), b), t[p:]...)
			each(m, "insert")
		}
	}
	for i := 0; i < 4 && len(t) > 0; i++ {
		p := g.r.Intn(len(t))
		each(append(append([]byte{}, t[:p]...), t[p+1:]...), "drop")
	}
	each(append(append([]byte{}, t...), t...), "double")
}

var keyLens = []int{0, 1, 16, 32, 63, 64, 65, 100}
var dataLens = []int{0, 1, 7, 8, 9, 31, 32, 33, 64, 100}

func (g *gen) key() []byte  { return g.r.Bytes(hx.Pick(g.r, keyLens)) }
func (g *gen) data() []byte { return g.r.Bytes(hx.Pick(g.r, dataLens)) }

// ---- codecs alone (the Lean model of encoding/hex and encoding/base64) ----

func (g *gen) codecs() {
	g.stream("codec")
	hexAlpha := []byte("0123456789abcdefABCDEFgG \n")
	b64Alpha := []byte("ABCDEFGHIJKLMNOPQRSTUVWXYZabcdefghijklmnopqrstuvwxyz0123456789-_-_=+/\n\r .")
	for i := 0; i < g.n(1500, 40000); i++ {
		b := g.r.Bytes(g.r.Intn(12))
		g.add("hexenc b=" + hx.Hex(b))
		g.add("b64enc b=" + hx.Hex(b))
		h := []byte(hex.EncodeToString(b))
		s := []byte(base64.RawURLEncoding.EncodeToString(b))
		for j := 0; j < 3; j++ {
			hm := append([]byte{}, h...)
			sm := append([]byte{}, s...)
			switch g.r.Intn(5) {
			case 0:
			case 1:
				if len(hm) > 0 {
					hm[g.r.Intn(len(hm))] = hx.Pick(g.r, hexAlpha)
				}
				if len(sm) > 0 {
					sm[g.r.Intn(len(sm))] = hx.Pick(g.r, b64Alpha)
				}
			case 2:
				hm = append(hm, hx.Pick(g.r, hexAlpha))
				sm = append(sm, hx.Pick(g.r, b64Alpha))
			case 3:
				if len(hm) > 0 {
					hm = hm[:g.r.Intn(len(hm))]
				}
				if len(sm) > 0 {
					sm = sm[:g.r.Intn(len(sm))]
				}
			case 4:
				hm = g.r.Bytes(g.r.Intn(6))
				sm = nil
				for k := g.r.Intn(9); k > 0; k-- {
					sm = append(sm, hx.Pick(g.r, b64Alpha))
				}
			}
			g.add("hexdec s=" + hx.Hex(hm))
			g.add("b64dec s=" + hx.Hex(sm))
		}
	}
	// every last character of 2- and 3-character quanta (all trailing-bit patterns)
	for _, pre := range []string{"", "AAAA", "abcd0123"} {
		for _, c1 := range b64Alpha[:64] {
			g.add("b64dec s=" + hx.Hex([]byte(pre+"A"+string(c1))))
			g.add("b64dec s=" + hx.Hex([]byte(pre+"AA"+string(c1))))
		}
	}
}

// ---- Signer ----

func (g *gen) signerOps() {
	g.stream("signer")
	combos := g.n(6, 150)
	for i := 0; i < combos; i++ {
		k, d := g.key(), g.data()
		if i == 0 {
			d = []byte{} // the empty payload: token is exactly one MAC long
		}
		s := signer.New(k)
		tok := s.Sign(d)
		g.add(fmt.Sprintf("sign k=%s d=%s %s", hx.Hex(k), hx.Hex(d), macsOf(k, d)))
		chk := func(t []byte, kind string) {
			g.add(fmt.Sprintf("check k=%s t=%s %s", hx.Hex(k), hx.Hex(t), macsOf(k, dataPart(t))))
			g.rep.Count("signer:" + kind)
		}
		chk(tok, "issued")
		g.mutations(tok, chk)
		// the same payload under another key; MAC of another payload; MAC alone; data alone
		k2 := append(append([]byte{}, k...), 1)
		chk(signer.New(k2).Sign(d), "other-key")
		d2 := append(append([]byte{}, d...), 0)
		chk(append(append([]byte{}, d...), hmacOf(k, d2)...), "other-mac")
		chk(hmacOf(k, d), "mac-only")
		chk(d, "data-only")
		chk(append(hmacOf(k, d), d...), "swapped")

		text := []byte(s.SignHex(d))
		g.add(fmt.Sprintf("signhex k=%s d=%s %s", hx.Hex(k), hx.Hex(d), macsOf(k, d)))
		chx := func(t []byte, kind string) {
			g.add(fmt.Sprintf("checkhex k=%s s=%s %s", hx.Hex(k), hx.Hex(t), macsOf(k, dataPartHex(t))))
			g.rep.Count("signhex:" + kind)
		}
		chx(text, "issued")
		g.mutations(text, chx)
		chx([]byte(strings.ToUpper(string(text))), "upper-all")
		for j := 0; j < 6; j++ {
			m := append([]byte{}, text...)
			for p := range m {
				if g.r.Intn(3) == 0 && m[p] >= 'a' && m[p] <= 'f' {
					m[p] -= 32
				}
			}
			chx(m, "upper-some")
		}
		chx([]byte(signer.New(k2).SignHex(d)), "other-key")
	}
}

// ---- Sessions, gate ----

var clockOffsets = []int64{-1e9, -2, -1, 0, 1, 2, 1e9}

// extremeNows: clocks far from any token time, as decimal nanoseconds: the zero
// time.Time, year 1 built with time.Unix, year 9999, time.Unix(1<<62, 0), and
// the ends of the int64 nanosecond range (Time.Sub saturates from 2^63 ns on).
var extremeNows = []string{
	"-62135596800000000000 zero=1", "-62135596800000000000", "253402300799000000000",
	"4611686018427387904000000000", "-9223372036854775808", "9223372036854775807",
	"-5000000000000000000", "-7523372036854775809", "-7523372036854775807",
}

var extremeTimes = []int64{-1 << 63, 1<<63 - 1, -5e18, 5e18, 0}

// reps calls f with the `rep=` suffixes to try at a boundary instant: at the
// instant itself and one nanosecond either side every representation, elsewhere none.
func reps(off int64, f func(suffix string)) {
	f("")
	if off >= -1 && off <= 1 {
		for r := 1; r < nReps; r++ {
			f(fmt.Sprintf(" rep=%d", r))
		}
	}
}

func (g *gen) sessionOps() {
	g.stream("sessions")
	maxes := []int64{0, -1e9, 1, 1e9, 3600e9, 7 * 24 * 3600e9, 1 << 61}
	nows := []int64{0, 1, 1_700_000_000_123_456_789, 1 << 62}
	for i := 0; i < g.n(40, 1500); i++ {
		k, d := g.key(), g.data()
		mx := hx.Pick(g.r, maxes)
		now := hx.Pick(g.r, nows)
		ttls := []int64{-1, 0, 1, mx - 1, mx, mx + 1, mx / 2, 2 * mx, 1 << 62}
		ttl := hx.Pick(g.r, ttls)
		if i < len(ttls) {
			ttl = ttls[i]
		}
		ss := signer.NewSessions(k, time.Duration(mx))
		ss.TimeFunc = func() time.Time { return tm(now) }
		tok, expT := ss.New(d, time.Duration(ttl))
		exp := expT.UnixNano()
		body := append(le64(exp), d...)
		g.add(fmt.Sprintf("sessnew k=%s max=%d now=%d ttl=%d d=%s %s", hx.Hex(k), mx, now, ttl, hx.Hex(d), macsOf(k, body)))
		sfx := ""
		chk := func(t []byte, at int64, op string) {
			g.add(fmt.Sprintf("%s k=%s max=%d now=%d s=%s %s%s", op, hx.Hex(k), mx, at, hx.Hex(t), macsOf(k, dataPartHex(t)), sfx))
		}
		// the clock swept across the expiry instant and the issue instant
		for _, off := range clockOffsets {
			reps(off, func(x string) {
				sfx = x
				chk([]byte(tok), exp+off, "sesscheck")
				chk([]byte(tok), exp+off, "gatecheck")
				chk([]byte(tok), now+off, "sesscheck")
				g.rep.Count("sessions:clock")
			})
		}
		sfx = ""
		if i%4 == 0 { // issuing with another representation of the same instant gives the same token
			for r := 1; r < nReps; r++ {
				g.add(fmt.Sprintf("sessnew k=%s max=%d now=%d ttl=%d d=%s %s rep=%d", hx.Hex(k), mx, now, ttl, hx.Hex(d), macsOf(k, body), r))
			}
		}
		// refresh boundary of the gate: left = ttl/5 -1, 0, +1
		if mx > 5 {
			for _, off := range []int64{-1, 0, 1} {
				chk([]byte(tok), exp-mx/5+off, "gatecheck")
			}
		}
		// an already expired expiry and a far one, signed with the right key
		for _, e := range []int64{now - 1, now, now + 1, -1, 0, 1<<63 - 1, -1 << 63} {
			b := append(le64(e), d...)
			chk([]byte(signer.New(k).SignHex(b)), now, "sesscheck")
		}
		// too short to hold a timestamp
		for n := 0; n < 8; n++ {
			chk([]byte(signer.New(k).SignHex(g.r.Bytes(n))), now, "sesscheck")
		}
		if i < g.n(5, 120) {
			at := exp - 1
			g.mutations([]byte(tok), func(m []byte, kind string) {
				chk(m, at, "sesscheck")
				g.rep.Count("sessions:" + kind)
			})
			chk([]byte(strings.ToUpper(tok)), at, "sesscheck")
			chk([]byte(strings.ToUpper(tok)), at, "gatecheck")
		}
	}
	// the gate's own default lifetime and cap (whole minutes; it reads the wall clock)
	for _, life := range []int64{0, -60e9, 60e9, 3600e9, 7 * 24 * 3600e9, 30 * 24 * 3600e9} {
		for _, ttl := range []int64{0, -60e9, 60e9, 120e9, 3600e9, 8 * 24 * 3600e9} {
			g.add(fmt.Sprintf("gatelife life=%d ttl=%d", life, ttl))
		}
	}
}

// ---- time tokens, RSA time blocks, challenges ----

func (g *gen) timeOps() {
	g.stream("timetokens")
	ws := []int64{0, 1, -1, 2, 1e9, -1e9, 30e9, 3600e9}
	for i := 0; i < g.n(24, 800); i++ {
		k := g.key()
		w := ws[i%len(ws)]
		t := hx.Pick(g.r, []int64{0, 1_700_000_000_000_000_000, 1 << 61, 5})
		ts := signer.NewTimeSigner(k, time.Duration(w))
		ts.TimeFunc = func() time.Time { return tm(t) }
		tok := ts.Token()
		g.add(fmt.Sprintf("ttoken k=%s now=%d %s", hx.Hex(k), t, macsOf(k, le64(t))))
		sfx := ""
		chk := func(m []byte, at int64) {
			g.add(fmt.Sprintf("tcheck k=%s w=%d now=%d s=%s %s%s", hx.Hex(k), w, at, hx.Hex(m), macsOf(k, dataPartHex(m)), sfx))
		}
		aw := absI(w)
		for _, base := range []int64{t - aw, t, t + aw} {
			for _, off := range clockOffsets {
				reps(off, func(x string) {
					sfx = x
					chk([]byte(tok), base+off)
					g.rep.Count("timetokens:clock")
				})
			}
		}
		sfx = ""
		if i%4 == 0 {
			for r := 1; r < nReps; r++ {
				g.add(fmt.Sprintf("ttoken k=%s now=%d %s rep=%d", hx.Hex(k), t, macsOf(k, le64(t)), r))
			}
		}
		if i%3 == 0 {
			// clocks centuries away from the token time, and token times at the ends of the range
			chkX := func(m []byte, at string, ww int64) {
				g.add(fmt.Sprintf("tcheck k=%s w=%d now=%s s=%s %s", hx.Hex(k), ww, at, hx.Hex(m), macsOf(k, dataPartHex(m))))
				g.rep.Count("timetokens:extreme")
			}
			for _, at := range extremeNows {
				for _, ww := range []int64{w, 0, 1<<63 - 1} {
					chkX([]byte(tok), at, ww)
				}
			}
			for _, tt := range extremeTimes {
				xt := []byte(signer.New(k).SignHex(le64(tt)))
				chkX(xt, fmt.Sprint(int64(1_700_000_000_000_000_000)), w)
				chkX(xt, fmt.Sprint(tt), w)
				chkX(xt, hx.Pick(g.r, extremeNows), w)
				chkX(xt, hx.Pick(g.r, extremeNows), 0)
			}
		}
		// a payload that is longer or shorter than a timestamp
		for _, n := range []int{0, 7, 9, 16} {
			b := append(le64(t), g.r.Bytes(8)...)[:n]
			chk([]byte(signer.New(k).SignHex(b)), t)
		}
		if i < g.n(4, 100) && aw > 0 {
			g.mutations([]byte(tok), func(m []byte, kind string) {
				chk(m, t)
				g.rep.Count("timetokens:" + kind)
			})
			chk([]byte(strings.ToUpper(tok)), t)
		}
	}

	g.stream("rsatime")
	// what RSASignTime issues has the shape the harness builds below
	if blk, err := signer.RSASignTime(g.c.keys["k0"].pri); err == nil {
		tt := blk.Data
		if len(tt) != 8 || hx.Hex(blk.Sig) != hx.Hex(rsaSign(g.c.keys["k0"], tt)) {
			g.rep.Note("RSASignTime does not issue (8-byte time, sha256, PKCS#1 v1.5 signature)")
		}
	}
	for i := 0; i < g.n(3, 12); i++ {
		key := g.c.keys[fmt.Sprintf("k%d", i%3)]
		w := hx.Pick(g.r, []int64{1, 1e9, -30e9})
		t := hx.Pick(g.r, []int64{1_700_000_000_000_000_000, 0, 1 << 60})
		data := le64(t)
		sfx := ""
		chk := func(lbl string, at int64, data, hash, sig []byte) {
			h := sha256sum(data)
			vs := "0"
			if rsaVerify(g.c.keys[lbl], hash, sig) {
				vs = "1"
			}
			g.add(fmt.Sprintf("rsat pub=%s w=%d now=%d data=%s hash=%s sig=%s shas=%s:%s vs=%s:%s:%s:%s%s",
				hx.Hex([]byte(lbl)), w, at, hx.Hex(data), hx.Hex(hash), hx.Hex(sig),
				hx.Hex(data), hx.Hex(h), hx.Hex([]byte(lbl)), hx.Hex(hash), hx.Hex(sig), vs, sfx))
		}
		hash := sha256sum(data)
		sig := rsaSign(key, data)
		aw := absI(w)
		for _, base := range []int64{t - aw, t, t + aw} {
			for _, off := range clockOffsets {
				reps(off, func(x string) {
					sfx = x
					chk(key.label, base+off, data, hash, sig)
				})
			}
		}
		sfx = ""
		for _, at := range extremeNows {
			for _, ww := range []int64{w, 0} {
				g.add(fmt.Sprintf("rsat pub=%s w=%d now=%s data=%s hash=%s sig=%s shas=%s:%s vs=%s:%s:%s:1",
					hx.Hex([]byte(key.label)), ww, at, hx.Hex(data), hx.Hex(hash), hx.Hex(sig),
					hx.Hex(data), hx.Hex(hash), hx.Hex([]byte(key.label)), hx.Hex(hash), hx.Hex(sig)))
			}
		}
		chk("k"+fmt.Sprint((i+1)%3), t, data, hash, sig) // another key
		long := append(append([]byte{}, data...), 7)
		chk(key.label, t, long, hash, sig)
		chk(key.label, t, long, sha256sum(long), sig)
		chk(key.label, t, long, sha256sum(long), rsaSign(key, long)) // genuinely signed longer data
		chk(key.label, t, data[:7], sha256sum(data[:7]), rsaSign(key, data[:7]))
		if i < g.n(1, 3) {
			g.mutations(data, func(m []byte, kind string) { chk(key.label, t, m, hash, sig) })
			g.mutations(hash, func(m []byte, kind string) { chk(key.label, t, data, m, sig) })
			g.mutations(sig, func(m []byte, kind string) { chk(key.label, t, data, hash, m) })
		}
	}

	g.stream("challenge")
	for i := 0; i < g.n(12, 120); i++ {
		k := g.key()
		s := signer.New(k)
		t := hx.Pick(g.r, []int64{1_700_000_000_000_000_000, 1_700_000_000_999_999_999, 0, 5})
		w := hx.Pick(g.r, []int64{0, 1, 1e9, 30e9})
		signed, _, err := s.NewSignedChallenge(tm(t), &detReader{g.r})
		if err != nil {
			continue
		}
		sfx := ""
		chk := func(bs []byte, at int64) {
			ct := "ct=."
			if ok, d := s.Check(bs); ok {
				ch := new(challengeT)
				json.Unmarshal(d, ch)
				if ch.T != nil {
					ct = fmt.Sprintf("ct=%s:%d", hx.Hex(d), ch.T.Sec*1e9+ch.T.Nano)
				} else {
					ct = fmt.Sprintf("ct=%s:nil", hx.Hex(d))
				}
			}
			g.add(fmt.Sprintf("chal k=%s now=%d w=%d t=%s %s %s%s", hx.Hex(k), at, w, hx.Hex(bs), macsOf(k, dataPart(bs)), ct, sfx))
		}
		for _, base := range []int64{t, t + w} {
			for _, off := range clockOffsets {
				reps(off, func(x string) {
					sfx = x
					chk(signed, base+off)
				})
			}
		}
		sfx = ""
		for _, at := range extremeNows {
			ct := "ct=."
			if ok, d := s.Check(signed); ok {
				ct = fmt.Sprintf("ct=%s:%d", hx.Hex(d), t)
			}
			g.add(fmt.Sprintf("chal k=%s now=%s w=%d t=%s %s %s", hx.Hex(k), at, w, hx.Hex(signed), macsOf(k, dataPart(signed)), ct))
		}
		chk(s.Sign([]byte(`{"N":"x"}`)), t)         // no timestamp
		chk(s.Sign([]byte(`not json`)), t)          // MAC right, JSON wrong
		chk(s.Sign([]byte(`{"T":{"Sec":"a"}}`)), t) // MAC right, JSON type error
		if i < g.n(2, 10) {
			g.mutations(signed, func(m []byte, kind string) { chk(m, t) })
		}
	}
}

type challengeT struct {
	N string
	T *struct {
		Sec  int64
		Nano int64
	}
}

type detReader struct{ r *hx.Rand }

func (d *detReader) Read(p []byte) (int, error) {
	copy(p, d.r.Bytes(len(p)))
	return len(p), nil
}

// ---- JWT ----

// rawSigner issues tokens with an arbitrary header (to test header pinning).
type rawSigner struct {
	h   jwt.Header
	sig func(data []byte) []byte
}

func (s *rawSigner) Header(context ctxT) (*jwt.Header, error) { h := s.h; return &h, nil }
func (s *rawSigner) Sign(context ctxT, _ *jwt.Header, data []byte) ([]byte, error) {
	return s.sig(data), nil
}

func (g *gen) claims(iat, exp int64) *jwt.ClaimSet {
	words := []string{"", "a", "robot", "shanhu.io", ".", "h8liu", "x y", "admin"}
	c := &jwt.ClaimSet{Iss: hx.Pick(g.r, words), Aud: hx.Pick(g.r, words), Sub: hx.Pick(g.r, words),
		Typ: hx.Pick(g.r, []string{"", "", "access"}), Scope: hx.Pick(g.r, []string{"", "", "read write", "a"}),
		Iat: iat, Exp: exp}
	if g.r.Intn(4) == 0 {
		c.Extra = map[string]interface{}{"n": 1, "s": "v"}
	}
	return c
}

func jwtTables(tok string, k []byte) string {
	p := strings.Split(tok, ".")
	if len(p) != 3 {
		return "hj=. cj=. macs=."
	}
	hj, cj := hjEntry(p[0]), cjEntry(p[1])
	if hj == "" {
		hj = "."
	}
	if cj == "" {
		cj = "."
	}
	s := "hj=" + hj + " cj=" + cj
	if k != nil {
		s += " " + macsOf(k, []byte(p[0]+"."+p[1]))
	}
	return s
}

// jwtMutations: the generic ones plus what is specific to the three-segment
// text: a different last signature character with the same significant bits
// (non-zero trailing bits), line breaks inside each segment, padding.
func (g *gen) jwtMutations(tok string, each func(m string, kind string)) {
	g.mutations([]byte(tok), func(m []byte, kind string) { each(string(m), kind) })
	p := strings.Split(tok, ".")
	if len(p) != 3 {
		return
	}
	const alpha = "ABCDEFGHIJKLMNOPQRSTUVWXYZabcdefghijklmnopqrstuvwxyz0123456789-_"
	for seg := 0; seg < 3; seg++ {
		s := p[seg]
		if len(s) == 0 {
			continue
		}
		last := strings.IndexByte(alpha, s[len(s)-1])
		for _, c := range []byte(alpha) {
			v := strings.IndexByte(alpha, c)
			same := false
			switch len(s) % 4 {
			case 2:
				same = v>>4 == last>>4
			case 3:
				same = v>>2 == last>>2
			}
			if same && v != last {
				q := append([]string{}, p...)
				q[seg] = s[:len(s)-1] + string(c)
				each(strings.Join(q, "."), fmt.Sprintf("trailing-bits-seg%d", seg))
			}
		}
		for _, nl := range []string{"\n", "\r", "\r\n", "=", "==", " "} {
			q := append([]string{}, p...)
			q[seg] = s + nl
			each(strings.Join(q, "."), fmt.Sprintf("append-seg%d", seg))
			q[seg] = s[:len(s)/2] + nl + s[len(s)/2:]
			each(strings.Join(q, "."), fmt.Sprintf("insert-seg%d", seg))
			q[seg] = nl + s
			each(strings.Join(q, "."), fmt.Sprintf("prepend-seg%d", seg))
		}
	}
	// segments reordered, repeated, dropped; standard instead of url alphabet
	each(p[1]+"."+p[0]+"."+p[2], "swap")
	each(p[0]+"."+p[1], "two-parts")
	each(tok+"."+p[2], "four-parts")
	each(p[0]+"."+p[1]+".", "empty-sig")
	each(p[0]+".."+p[2], "empty-claims")
	each(strings.NewReplacer("-", "+", "_", "/").Replace(tok), "std-alphabet")
}

// nearBoundary returns at-b when at is within one nanosecond of a boundary b, and 2 otherwise.
func nearBoundary(at int64, bs ...int64) int64 {
	for _, b := range bs {
		if d := at - b; d >= -1 && d <= 1 {
			return d
		}
	}
	return 2
}

func (g *gen) jwtTimes(iat, exp int64) []int64 {
	var out []int64
	for _, base := range []int64{(iat - 300) * 1e9, iat * 1e9, exp * 1e9} {
		for _, off := range clockOffsets {
			out = append(out, base+off)
		}
	}
	return out
}

func (g *gen) jwtHS() {
	g.stream("jwt-hs256")
	for i := 0; i < g.n(10, 300); i++ {
		k := g.key()
		kid := hx.Pick(g.r, []string{"", "k1", "key-2023"})
		iat := hx.Pick(g.r, []int64{1_700_000_000, 0, 1000, 1 << 33}) // iat*1e9 stays inside int64
		exp := iat + hx.Pick(g.r, []int64{300, 1, 0, 86400, -10})
		cl := g.claims(iat, exp)
		hs := jwt.NewHS256(k, kid)
		tok, err := jwt.EncodeAndSign(bg, cl, hs)
		if err != nil {
			continue
		}
		sfx := ""
		chk := func(t string, vk []byte, vkid string, at int64) {
			g.add(fmt.Sprintf("jwths k=%s kid=%s now=%d tok=%s %s%s", hx.Hex(vk), hx.Hex([]byte(vkid)), at, hx.Hex([]byte(t)), jwtTables(t, vk), sfx))
		}
		mid := (iat*1e9 + exp*1e9) / 2
		for _, at := range g.jwtTimes(iat, exp) {
			reps(nearBoundary(at, (iat-300)*1e9, iat*1e9, exp*1e9), func(x string) {
				sfx = x
				chk(tok, k, kid, at)
				g.rep.Count("jwt-hs256:clock")
			})
		}
		sfx = ""
		for _, at := range extremeNows {
			g.add(fmt.Sprintf("jwths k=%s kid=%s now=%s tok=%s %s", hx.Hex(k), hx.Hex([]byte(kid)), at, hx.Hex([]byte(tok)), jwtTables(tok, k)))
		}
		// header pinning: other kid at the verifier; other headers in the token, MAC right
		chk(tok, k, kid+"x", mid)
		chk(tok, append(append([]byte{}, k...), 0), kid, mid)
		for _, h := range []jwt.Header{
			{Alg: "HS256", Typ: "JWS", KeyID: kid}, {Alg: "none", Typ: "JWT", KeyID: kid},
			{Alg: "RS256", Typ: "JWT", KeyID: kid}, {Alg: "HS256", Typ: "", KeyID: kid},
			{Alg: "HS256", Typ: "JWT", KeyID: kid + "0"}, {Alg: "hs256", Typ: "JWT", KeyID: kid},
			{Alg: "HS256", Typ: "jwt", KeyID: kid},
		} {
			t2, err := jwt.EncodeAndSign(bg, cl, &rawSigner{h: h, sig: func(d []byte) []byte { return hmacOf(k, d) }})
			if err == nil {
				chk(t2, k, kid, mid)
				g.rep.Count("jwt-hs256:header")
			}
		}
		// what Header() hands out is changed by the caller (a Signer wrapper setting its own kid/typ/alg):
		// the verifier stays pinned to what it was built with
		for _, pk := range []jwt.Header{
			{Alg: "HS256", Typ: "JWT", KeyID: kid + "2"}, {Alg: "none", Typ: "JWT", KeyID: kid},
			{Alg: "HS256", Typ: "", KeyID: kid}, {Alg: "RS256", Typ: "JWS", KeyID: "other"},
		} {
			sfx = fmt.Sprintf(" poke=%s/%s/%s", hx.Hex([]byte(pk.Alg)), hx.Hex([]byte(pk.Typ)), hx.Hex([]byte(pk.KeyID)))
			chk(tok, k, kid, mid)
			// a token whose header is the poked one, MAC right: refused by the verifier for `kid`
			if t2, err := jwt.EncodeAndSign(bg, cl, &rawSigner{h: pk, sig: func(d []byte) []byte { return hmacOf(k, d) }}); err == nil {
				chk(t2, k, kid, mid)
			}
			g.rep.Count("jwt-hs256:poke")
		}
		sfx = ""
		// alg none with empty signature
		t3, _ := jwt.EncodeAndSign(bg, cl, &rawSigner{h: jwt.Header{Alg: "none", Typ: "JWT", KeyID: kid}, sig: func([]byte) []byte { return nil }})
		chk(t3, k, kid, mid)
		if i < g.n(3, 60) {
			g.jwtMutations(tok, func(m, kind string) {
				chk(m, k, kid, mid)
				g.rep.Count("jwt-hs256:" + kind)
			})
		}
	}
}

type fixedStore struct{ bs []byte }

func (s *fixedStore) Check() (bool, error)     { return true, nil }
func (s *fixedStore) Save(v interface{}) error { b, err := json.Marshal(v); s.bs = b; return err }
func (s *fixedStore) Load(v interface{}) error { return json.Unmarshal(s.bs, v) }

// core builds an identity core (the issuing side) holding the given keys.
func (g *gen) core(ks []keySpec, now func() time.Time) identity.Core { return buildCore(g.c, ks, now) }

func buildCore(c *ctx, ks []keySpec, now func() time.Time) identity.Core {
	type priv struct{ ID, Key string }
	var data struct {
		Identity    *identity.Identity
		PrivateKeys []priv
	}
	data.Identity = c.card(ks)
	for _, k := range ks {
		if rk := c.keys[k.label]; rk != nil {
			data.PrivateKeys = append(data.PrivateKeys, priv{k.id, rk.priS})
		}
	}
	bs, _ := json.Marshal(data)
	return identity.NewSimpleCore(&fixedStore{bs}, now)
}

func keysArg(ks []keySpec) string {
	if len(ks) == 0 {
		return "keys=."
	}
	var es []string
	for _, k := range ks {
		es = append(es, fmt.Sprintf("%s/%s/%s/%d/%d", hx.Hex([]byte(k.id)), hx.Hex([]byte(k.typ)), hx.Hex([]byte(k.label)), k.na, k.nb))
	}
	return "keys=" + strings.Join(es, ";")
}

// rsTables: what the model needs to follow jwtVerifier.Verify on this token.
func (g *gen) rsTables(tok string, ks []keySpec) string {
	s := jwtTables(tok, nil)
	var kp []string
	seen := map[string]bool{}
	for _, k := range ks {
		if !seen[k.label] {
			seen[k.label] = true
			b := "0"
			if g.c.keys[k.label] != nil {
				b = "1"
			}
			kp = append(kp, hx.Hex([]byte(k.label))+":"+b)
		}
	}
	if len(kp) == 0 {
		s += " kp=."
	} else {
		s += " kp=" + strings.Join(kp, ",")
	}
	p := strings.Split(tok, ".")
	if len(p) != 3 {
		return s + " shas=. vs=."
	}
	payload := []byte(p[0] + "." + p[1])
	digest := sha256sum(payload)
	s += " shas=" + hx.Hex(payload) + ":" + hx.Hex(digest)
	sig, err := base64.RawURLEncoding.DecodeString(p[2])
	if err != nil {
		return s + " vs=."
	}
	var vs []string
	for lbl := range seen {
		if rk := g.c.keys[lbl]; rk != nil {
			b := "0"
			if rsaVerify(rk, digest, sig) {
				b = "1"
			}
			vs = append(vs, fmt.Sprintf("%s:%s:%s:%s", hx.Hex([]byte(lbl)), hx.Hex(digest), hx.Hex(sig), b))
		}
	}
	sortStrings(vs)
	if len(vs) == 0 {
		return s + " vs=."
	}
	return s + " vs=" + strings.Join(vs, ",")
}

func (g *gen) jwtRS() {
	g.stream("jwt-rs256")
	for i := 0; i < g.n(6, 80); i++ {
		iat := hx.Pick(g.r, []int64{1_700_000_000, 1_000_000})
		life := hx.Pick(g.r, []int64{300, 3600})
		exp := iat + life
		mid := iat*1e9 + life*1e9/2
		// the signing key is the last one; its validity brackets the token's life or cuts into it
		nb := hx.Pick(g.r, []int64{0, iat - 1000, iat + 10, -5})
		na := hx.Pick(g.r, []int64{exp + 1000, exp - 10, iat + 100})
		if i < g.n(2, 12) { // the tokens whose mutations are swept verify at `mid`
			nb, na = hx.Pick(g.r, []int64{0, iat - 1000}), exp+1000
		}
		ks := []keySpec{
			{"old", "ssh-rsa", "k1", iat + 50, 0},
			{"main", "ssh-rsa", fmt.Sprintf("k%d", i%3), na, nb},
		}
		if g.r.Intn(3) == 0 { // a second key with the same id further down (never reached)
			ks = append([]keySpec{{"main", "ssh-rsa", fmt.Sprintf("k%d", (i+1)%3), na, nb}}, ks...)
			ks[len(ks)-1].label = ks[0].label
		}
		issueAt := iat*1e9 + 20e9
		if nb > 0 && issueAt < nb*1e9 {
			issueAt = nb * 1e9
		}
		core := g.core(ks, func() time.Time { return tm(issueAt) })
		user, host := hx.Pick(g.r, []string{"robot", "h8liu"}), hx.Pick(g.r, []string{"shanhu.io", "example.com"})
		var tok string
		var err error
		self := g.r.Intn(2) == 0
		if self {
			cfg := &identity.SignConfig{User: user, Domain: host, Issuer: identity.Self, Time: tm(iat * 1e9), Expiry: time.Duration(life) * time.Second}
			tok, err = identity.SignToken(bg, core, cfg)
		} else {
			tok, err = jwt.EncodeAndSign(bg, g.claims(iat, exp), identity.NewJWTSigner(core))
		}
		if err != nil {
			g.rep.Count("jwt-rs256:issue-refused")
			continue
		}
		sfx := ""
		chk := func(t string, vks []keySpec, at int64) {
			g.add(fmt.Sprintf("jwtrs now=%d %s tok=%s %s%s", at, keysArg(vks), hx.Hex([]byte(t)), g.rsTables(t, vks), sfx))
		}
		chkSelf := func(t string, vks []keySpec, at int64, u, h string) {
			g.add(fmt.Sprintf("self now=%d %s user=%s host=%s tok=%s %s%s", at, keysArg(vks), hx.Hex([]byte(u)), hx.Hex([]byte(h)),
				hx.Hex([]byte(t)), g.rsTables(t, vks), sfx))
		}
		times := g.jwtTimes(iat, exp)
		for _, b := range []int64{nb * 1e9, na * 1e9} {
			for _, off := range clockOffsets {
				times = append(times, b+off)
			}
		}
		for _, at := range times {
			reps(nearBoundary(at, (iat-300)*1e9, iat*1e9, exp*1e9, nb*1e9, na*1e9), func(x string) {
				sfx = x
				chk(tok, ks, at)
				if self && x != "" {
					chkSelf(tok, ks, at, user, host)
				}
				g.rep.Count("jwt-rs256:clock")
			})
		}
		sfx = ""
		if self {
			for _, uh := range [][2]string{{user, host}, {user + "x", host}, {user, host + "x"}, {"", host}, {user, ""}, {"", ""}} {
				chkSelf(tok, ks, mid, uh[0], uh[1])
			}
			chkSelf(tok, ks, exp*1e9+1, user, host)
		} else {
			chkSelf(tok, ks, mid, user, host)
		}
		for _, at := range extremeNows {
			g.add(fmt.Sprintf("jwtrs now=%s %s tok=%s %s", at, keysArg(ks), hx.Hex([]byte(tok)), g.rsTables(tok, ks)))
		}
		// the identity handed out by the card is changed by the caller: the verifier's next look-up is unaffected
		sfx = " poke=1"
		chk(tok, ks, mid)
		chk(tok, ks, exp*1e9+1)
		if self {
			chkSelf(tok, ks, mid, user, host)
		}
		sfx = ""
		// key rules: unknown id, other type, validity moved, key material of another key, no keys, unparsable key
		main := ks[len(ks)-1]
		variants := [][]keySpec{
			{},
			{{"other", "ssh-rsa", main.label, main.na, main.nb}},
			{{"main", "ssh-ed25519", main.label, main.na, main.nb}},
			{{"main", "", main.label, main.na, main.nb}},
			{{"main", "ssh-rsa", "k" + fmt.Sprint((i+1)%3), main.na, main.nb}},
			{{"main", "ssh-rsa", "junk", main.na, main.nb}},
			{{"main", "ssh-rsa", main.label, iat, 0}},
			{{"main", "ssh-rsa", main.label, 0, 0}},
			{{"main", "ssh-rsa", main.label, exp + 5000, exp + 10}},
			{{"main", "ssh-ed25519", main.label, main.na, main.nb}, {"main", "ssh-rsa", main.label, main.na, main.nb}},
		}
		for _, v := range variants {
			chk(tok, v, mid)
			g.rep.Count("jwt-rs256:keyrule")
		}
		// a genuine RSA signature under a header that does not say RS256
		if rk := g.c.keys[main.label]; rk != nil {
			for _, alg := range []string{"HS256", "none", "rs256", ""} {
				t2, err := jwt.EncodeAndSign(bg, g.claims(iat, exp), &rawSigner{h: jwt.Header{Alg: alg, Typ: "JWT", KeyID: "main"},
					sig: func(d []byte) []byte { return rsaSign(rk, d) }})
				if err == nil {
					chk(t2, []keySpec{{"main", "ssh-rsa", main.label, exp + 1000, 0}}, mid)
					g.rep.Count("jwt-rs256:alg")
				}
			}
		}
		// an HS256 token whose key is the public key text (algorithm confusion)
		pubText := []byte(g.c.keyText(main.label))
		if t2, err := jwt.EncodeAndSign(bg, g.claims(iat, exp), jwt.NewHS256(pubText, "main")); err == nil {
			chk(t2, ks, mid)
		}
		if i < g.n(2, 12) {
			g.jwtMutations(tok, func(m, kind string) {
				chk(m, ks, mid)
				g.rep.Count("jwt-rs256:" + kind)
			})
		}
	}
}

// ---- claim templates ----

func (g *gen) claimOps() {
	g.stream("claims")
	g.add("claims c=nil t=nil")
	g.add("claims c=nil t=" + showClaims(&jwt.ClaimSet{Iss: "a"}, false))
	base := &jwt.ClaimSet{Iss: "iss", Aud: "aud", Typ: "typ", Sub: "sub", Scope: "read write admin"}
	g.add("claims c=" + showClaims(base, false) + " t=nil")
	// every subset of template fields, each matching or not
	for mask := 0; mask < 32; mask++ {
		for bad := 0; bad < 32; bad++ {
			if bad&^mask != 0 {
				continue
			}
			t := &jwt.ClaimSet{}
			set := func(bit int, good, wrong string) string {
				if mask&bit == 0 {
					return ""
				}
				if bad&bit != 0 {
					return wrong
				}
				return good
			}
			t.Iss = set(1, "iss", "isS")
			t.Aud = set(2, "aud", "aud ")
			t.Typ = set(4, "typ", "ty")
			t.Sub = set(8, "sub", "sub0")
			t.Scope = set(16, "admin  read", "read root")
			g.add("claims c=" + showClaims(base, false) + " t=" + showClaims(t, false))
			g.rep.Count("claims:subset")
		}
	}
	scopes := []string{"", "a", "a b", "b a", " a  b ", "a\tb\nc", "ab", "a b c", "c", "A", "a a"}
	for _, cs := range scopes {
		for _, ts := range scopes {
			g.add("claims c=" + showClaims(&jwt.ClaimSet{Scope: cs}, false) + " t=" + showClaims(&jwt.ClaimSet{Scope: ts}, false))
		}
	}
	words := []string{"", "a", "b", "a ", "."}
	for i := 0; i < g.n(300, 5000); i++ {
		c := &jwt.ClaimSet{Iss: hx.Pick(g.r, words), Aud: hx.Pick(g.r, words), Typ: hx.Pick(g.r, words), Sub: hx.Pick(g.r, words), Scope: hx.Pick(g.r, scopes)}
		t := &jwt.ClaimSet{Iss: hx.Pick(g.r, words), Aud: hx.Pick(g.r, words), Typ: hx.Pick(g.r, words), Sub: hx.Pick(g.r, words), Scope: hx.Pick(g.r, scopes)}
		g.add("claims c=" + showClaims(c, false) + " t=" + showClaims(t, false))
	}
}

// ---- passcode histories ----

const t0 = int64(1_700_000_000_000_000_000)

func (g *gen) passOps() {
	g.stream("passcode")
	hist := func(ops ...string) {
		if len(g.cur.ops) > 150000 {
			g.stream("passcode")
		}
		g.add("pc reset")
		for _, o := range ops {
			g.add("pc " + o)
		}
		g.rep.Count("passcode:histories")
	}
	setup := func(at int64, claim string) string {
		return fmt.Sprintf("setup now=%d claim=%s id=%d", at, claim, 1+g.r.Intn(3))
	}
	issue := func(at, exp int64) string { return fmt.Sprintf("issue now=%d expiry=%d", at, exp) }
	const ten = int64(600e9)
	// n refused attempts, then the right code
	for _, n := range []int{0, 1, 8, 9, 10, 11, 12, 13} {
		for _, kind := range []string{"wrong", "old", "empty", "late"} {
			ops := []string{"create", issue(t0-1000e9, ten), issue(t0, ten)}
			for i := 0; i < n; i++ {
				switch kind {
				case "late":
					ops = append(ops, setup(t0+ten+1, "right"))
				default:
					ops = append(ops, setup(t0+int64(i), kind))
				}
			}
			ops = append(ops, setup(t0+5, "right"), setup(t0+6, "right"))
			hist(ops...)
		}
	}
	// the validity window at 1 ns, for several expiries
	for _, ex := range []int64{ten, 0, -5, 1, 3600e9} {
		exc := ex
		if exc < 0 {
			exc = 0
		}
		for _, base := range []int64{t0 - 60e9, t0, t0 + exc} {
			for _, off := range clockOffsets {
				reps(off, func(x string) {
					hist("create", issue(t0, ex)+x, setup(base+off, "right")+x, setup(base+off+1, "right"))
				})
			}
		}
	}
	// scheduled interleavings: a call paused at a store operation while others complete
	for _, at := range []string{"get", "set", "mutate"} {
		for _, parked := range []string{"enable", "disable", setup(t0+5, "right"), setup(t0+5, "wrong"), issue(t0+1, ten)} {
			for _, mid := range [][]string{
				{setup(t0+6, "right")},
				{setup(t0+6, "wrong"), setup(t0+7, "right")},
				{setup(t0+6, "wrong"), setup(t0+7, "wrong"), setup(t0+8, "wrong")},
				{"disable"},
				{issue(t0+2, ten), setup(t0+6, "right")},
			} {
				ops := []string{"create", issue(t0, ten), "park at=" + at + " " + parked}
				ops = append(ops, mid...)
				ops = append(ops, "release", setup(t0+9, "right"), setup(t0+10, "right"), setup(t0+11, "old"))
				hist(ops...)
				g.rep.Count("passcode:scheduled")
			}
		}
	}
	// random histories up to length 16
	for i := 0; i < g.n(1500, 120000); i++ {
		n := 2 + g.r.Intn(15)
		now := t0
		lastIssue := t0
		ex := ten
		ops := []string{}
		if g.r.Intn(8) != 0 {
			ops = append(ops, "create")
		}
		for len(ops) < n {
			switch g.r.Intn(20) {
			case 0:
				ops = append(ops, "create")
			case 1:
				if g.r.Intn(3) == 0 {
					ops = append(ops, "remove")
				} else {
					ops = append(ops, "create")
				}
			case 2, 3:
				ops = append(ops, "disable")
			case 4, 5:
				ops = append(ops, "enable")
			case 6, 7, 8:
				ex = hx.Pick(g.r, []int64{ten, ten, 0, 1, -1, 3600e9})
				lastIssue = now
				ops = append(ops, issue(now, ex))
			default:
				exc := ex
				if exc < 0 {
					exc = 0
				}
				at := now
				switch g.r.Intn(6) {
				case 0:
					at = lastIssue - 60e9 + hx.Pick(g.r, clockOffsets)
				case 1:
					at = lastIssue + exc + hx.Pick(g.r, clockOffsets)
				}
				claim := hx.Pick(g.r, []string{"right", "right", "right", "wrong", "wrong", "old", "empty"})
				o := setup(at, claim)
				if g.r.Intn(5) == 0 {
					o += fmt.Sprintf(" rep=%d", 1+g.r.Intn(nReps-1))
				}
				ops = append(ops, o)
			}
			if g.r.Intn(4) == 0 {
				now += hx.Pick(g.r, []int64{1, 1e9, 60e9, 300e9, 601e9})
			}
		}
		// one call in three histories is paused at a store operation and released later (or never)
		if g.r.Intn(3) == 0 && len(ops) > 2 {
			i := 1 + g.r.Intn(len(ops)-1)
			if o := ops[i]; o != "create" && o != "remove" {
				ops[i] = "park at=" + hx.Pick(g.r, []string{"get", "set", "mutate"}) + " " + o
				if j := i + 1 + g.r.Intn(len(ops)-i); j < len(ops) {
					ops = append(ops[:j], append([]string{"release"}, ops[j:]...)...)
				}
				g.rep.Count("passcode:scheduled")
			}
		}
		hist(ops...)
	}
	if g.big {
		// every history of length <= 6 over a small alphabet
		alpha := []string{"create", "disable", "enable", issue(t0, ten), setup(t0, "right"), setup(t0, "wrong"),
			setup(t0+ten+1, "right"), "remove"}
		var rec func(prefix []string, depth int)
		rec = func(prefix []string, depth int) {
			if len(prefix) > 0 {
				hist(prefix...)
			}
			if depth == 0 {
				return
			}
			for _, a := range alpha {
				rec(append(append([]string{}, prefix...), a), depth-1)
			}
		}
		rec(nil, 6)
	}
}

// ---- concurrent verification on shared objects ----

func (g *gen) concOps() {
	g.stream("concurrent")
	kinds := []string{"check", "checkhex", "sess", "gate", "time", "jwths"}
	ms := g.n(500, 2500) // quick: 6 x 0.5 s
	for i, kind := range kinds {
		n := []int{8, 4, 16, 8, 4, 8}[i]
		if g.big {
			n = hx.Pick(g.r, []int{4, 8, 16})
		}
		g.add(fmt.Sprintf("conc kind=%s n=%d ms=%d seed=%d k=%s", kind, n, ms, g.r.Intn(1<<30), hx.Hex(g.r.Bytes(17))))
	}
	if g.big {
		for _, kind := range kinds {
			g.add(fmt.Sprintf("conc kind=%s n=16 ms=%d seed=%d k=%s", kind, ms, g.r.Intn(1<<30), hx.Hex(g.key())))
		}
	}
}

func (g *gen) all() {
	g.concOps()
	g.codecs()
	g.signerOps()
	g.sessionOps()
	g.timeOps()
	g.jwtHS()
	g.jwtRS()
	g.claimOps()
	g.passOps()
	g.flush()
}
