package main

// Deterministic interleavings of the passcode record.  The Roles object under
// test runs over a KV whose Get / Set / Mutate operations the harness can
// pause: `pc park at=<get|set|mutate> <call>` starts a call of the Roles API in
// its own goroutine and lets it run until its next store operation of that
// kind (after a Get has returned, before a Set or a Mutate is executed), where
// it waits; the main goroutine then runs other calls to completion; `pc
// release` lets the waiting call finish.  With every mutation of a role done
// inside ONE KV.Mutate (the store's own atomicity) a call never reaches a
// separate Get or Set, and waiting in front of Mutate is just a later call.
// If a mutation is a load followed by a store, the schedule makes its stale
// store overwrite what completed in between: a consumed code comes back, an
// attempt count goes down.

import (
	"sync"
	"time"

	"shanhu.io/g/pisces"
	"shanhu.io/g/roles"
)

type pauser struct {
	mu      sync.Mutex
	armed   string
	parked  chan struct{}
	release chan struct{}
}

// arm makes the next store operation of kind `at` wait; one shot.
func (p *pauser) arm(at string) (parked chan struct{}) {
	p.mu.Lock()
	defer p.mu.Unlock()
	p.armed = at
	p.parked = make(chan struct{})
	p.release = make(chan struct{})
	return p.parked
}

func (p *pauser) disarm() {
	p.mu.Lock()
	p.armed = ""
	p.mu.Unlock()
}

func (p *pauser) point(at string) {
	p.mu.Lock()
	if p.armed != at {
		p.mu.Unlock()
		return
	}
	p.armed = ""
	pk, rl := p.parked, p.release
	p.mu.Unlock()
	close(pk)
	<-rl
}

// newPausableRoles builds a Roles over a memory KV with pausable operations.
func newPausableRoles() (*roles.Roles, *pauser) {
	base := pisces.NewMemKV()
	orig := pisces.VerifOps(base)
	p := new(pauser)
	ops := *orig
	ops.Get = func(k string) ([]byte, error) {
		bs, err := orig.Get(k)
		p.point("get")
		return bs, err
	}
	ops.Set = func(k string, bs []byte) error {
		p.point("set")
		return orig.Set(k, bs)
	}
	ops.Mutate = func(k string, f func([]byte) ([]byte, error)) error {
		p.point("mutate")
		return orig.Mutate(k, f)
	}
	return roles.VerifNewWithKV(pisces.VerifNewKVWithOps(&ops, pisces.VerifOrdered(base))), p
}

// pcCall is one call of the Roles API, prepared on the main goroutine.
type pcCall struct {
	run    func() error
	finish func(err error, before *roles.VerifRoleState) // bookkeeping and oracle, main goroutine
}

type parkedCall struct {
	call *pcCall
	done chan error
}

const schedWatchdog = 20 * time.Second

// drainParked lets a call that is still waiting finish (end of a history).
func (c *ctx) drainParked() {
	if c.parked == nil {
		return
	}
	close(c.pz.release)
	select {
	case <-c.parked.done:
	case <-time.After(schedWatchdog):
	}
	c.parked = nil
}
