module verif/harness

go 1.23

require (
	github.com/gorilla/websocket v1.5.1
	golang.org/x/sys v0.14.0
	modernc.org/sqlite v1.27.0
	shanhu.io/g v0.0.0
)

require (
	github.com/dustin/go-humanize v1.0.1 // indirect
	github.com/google/uuid v1.4.0 // indirect
	github.com/mattn/go-isatty v0.0.20 // indirect
	github.com/remyoudompheng/bigfft v0.0.0-20230129092748-24d4a6f8daec // indirect
	golang.org/x/crypto v0.15.0 // indirect
	golang.org/x/net v0.18.0 // indirect
	golang.org/x/term v0.14.0 // indirect
	modernc.org/libc v1.32.0 // indirect
	modernc.org/mathutil v1.6.0 // indirect
	modernc.org/memory v1.7.2 // indirect
)

replace shanhu.io/g => /repo
