module verif/harness

go 1.23

require shanhu.io/g v0.0.0

require (
	github.com/gorilla/websocket v1.5.1 // indirect
	golang.org/x/crypto v0.15.0 // indirect
	golang.org/x/net v0.18.0 // indirect
	golang.org/x/sys v0.14.0 // indirect
	golang.org/x/term v0.14.0 // indirect
)

replace shanhu.io/g => /repo
