// Harness for C12: caco3 name and pattern resolution.  Drives the real
// makeRelPath / makePath / dirFilePath / newFileSet (export shim, tag verif),
// the real path.Clean / Join / Match and filepath.Glob the model relies on, and
// the real Builder on scratch workspaces; pipes the same op lines to the Lean
// driver, compares, and evaluates the direct oracles on the implementation:
// resolved names are plain and stay inside the package / workspace, a file set
// lists exactly explicit + selected - ignored, a directory ignore covers only
// files beneath it, a build changes nothing outside <root>/out.
package main

import (
	"bytes"
	"crypto/sha256"
	"encoding/hex"
	"encoding/json"
	"fmt"
	"io"
	"io/fs"
	"log"
	"os"
	"path"
	"path/filepath"
	"sort"
	"strconv"
	"strings"
	"syscall"
	"time"

	"shanhu.io/g/caco3"
	"shanhu.io/g/lexing"
	"verif/harness/hx"
)

// ---------- line protocol ----------

func hs(s string) string { return hx.Hex([]byte(s)) }

func hl(l []string) string {
	if len(l) == 0 {
		return "."
	}
	xs := make([]string, len(l))
	for i, s := range l {
		xs[i] = hs(s)
	}
	return strings.Join(xs, ",")
}

func unhs(w string) string { return string(hx.UnHex(w)) }

func unhl(w string) []string {
	if w == "." || w == "" {
		return nil
	}
	var out []string
	for _, x := range strings.Split(w, ",") {
		out = append(out, unhs(x))
	}
	return out
}

func kv(ws []string, k string) (string, bool) {
	for _, w := range ws {
		if strings.HasPrefix(w, k+"=") {
			return w[len(k)+1:], true
		}
	}
	return "", false
}

type fsetOp struct {
	kind  string // fset | build
	p     string
	tree  []string
	name  string
	files []string
	sel   []string
	ign   []string
	inc   []string
	tree2 []string // rebuild only: the source tree at the time of the second Build on the same Builder
	pre   string // build only: what sits at the rule's output path before the build (dangling|file|dir|inside|fifo)
}

func (o *fsetOp) line() string {
	l := fmt.Sprintf("%s p=%s tree=%s name=%s files=%s sel=%s ign=%s inc=%s", o.kind, hs(o.p), hl(o.tree),
		hs(o.name), hl(o.files), hl(o.sel), hl(o.ign), hl(o.inc))
	if o.pre != "" {
		l += " pre=" + o.pre
	}
	if o.kind == "rebuild" {
		l += " tree2=" + hl(o.tree2)
	}
	return l
}

func parseFsetOp(ws []string) (*fsetOp, bool) {
	o := &fsetOp{kind: ws[0]}
	get := func(k string) (string, bool) { return kv(ws[1:], k) }
	var ok [7]bool
	var p, t, n, f, s, i, c string
	p, ok[0] = get("p")
	t, ok[1] = get("tree")
	n, ok[2] = get("name")
	f, ok[3] = get("files")
	s, ok[4] = get("sel")
	i, ok[5] = get("ign")
	c, ok[6] = get("inc")
	for _, b := range ok {
		if !b {
			return nil, false
		}
	}
	o.p, o.tree, o.name, o.files, o.sel, o.ign, o.inc = unhs(p), unhl(t), unhs(n), unhl(f), unhl(s), unhl(i), unhl(c)
	o.pre, _ = get("pre")
	if t2, ok := get("tree2"); ok {
		o.tree2 = unhl(t2)
	}
	return o, true
}

// ---------- plain-path predicate (the oracle's own, not the model's) ----------

func plainPath(x string) bool {
	if x == "" {
		return true
	}
	for _, s := range strings.Split(x, "/") {
		if s == "" || s == "." || s == ".." {
			return false
		}
	}
	return true
}

func segs(x string) []string {
	if x == "" {
		return nil
	}
	return strings.Split(x, "/")
}

// underSegs: a is a segment-wise prefix of b
func underSegs(a, b []string) bool {
	if len(a) > len(b) {
		return false
	}
	for i := range a {
		if a[i] != b[i] {
			return false
		}
	}
	return true
}

// ---------- scratch trees ----------

type ctx struct {
	rep  *hx.Report
	j    *hx.Journal
	work string

	treeKey string
	treeDir string // parent of the workspace root
	nTrees  int

	shrunk map[string]int
}

func (c *ctx) root() string { return filepath.Join(c.treeDir, "ws") }

// materialise creates <work>/tN/ws/src/<files> (N fresh per tree) and a decoy
// outside the workspace.
func (c *ctx) materialise(tree []string) (string, bool) {
	key := strings.Join(tree, "\x00")
	if key == c.treeKey && c.treeDir != "" {
		return c.root(), true
	}
	if c.treeDir != "" {
		os.RemoveAll(c.treeDir)
	}
	c.nTrees++
	c.treeDir = filepath.Join(c.work, fmt.Sprintf("t%d", c.nTrees))
	c.treeKey = key
	src := filepath.Join(c.root(), "src")
	if err := os.MkdirAll(src, 0o755); err != nil {
		return "", false
	}
	os.WriteFile(filepath.Join(c.treeDir, "outside.txt"), []byte("outside"), 0o644)
	os.WriteFile(filepath.Join(c.root(), "secret.txt"), []byte("just outside the source root"), 0o644)
	for _, f := range tree {
		if !plainPath(f) || f == "" {
			c.treeKey = "\x01invalid"
			return "", false
		}
		fp := filepath.Join(src, filepath.FromSlash(f))
		if err := os.MkdirAll(filepath.Dir(fp), 0o755); err != nil {
			c.treeKey = "\x01invalid"
			return "", false
		}
		if st, err := os.Lstat(fp); err == nil && st.IsDir() {
			c.treeKey = "\x01invalid"
			return "", false
		}
		if err := os.WriteFile(fp, []byte("x:"+f), 0o644); err != nil {
			c.treeKey = "\x01invalid"
			return "", false
		}
	}
	return c.root(), true
}

func (c *ctx) dropTree() {
	if c.treeDir != "" {
		os.RemoveAll(c.treeDir)
	}
	c.treeDir, c.treeKey = "", "\x01invalid"
}

func relList(src string, ms []string) ([]string, bool) {
	var out []string
	for _, m := range ms {
		r, err := filepath.Rel(src, m)
		if err != nil {
			return nil, false
		}
		out = append(out, filepath.ToSlash(r))
	}
	return out, true
}

// ---------- snapshots for the containment oracle ----------

type snapEnt struct {
	mode fs.FileMode
	size int64
	mt   int64
	sum  string
}

func snapshot(dir string) map[string]snapEnt {
	m := map[string]snapEnt{}
	filepath.WalkDir(dir, func(p string, d fs.DirEntry, err error) error {
		if err != nil {
			return nil
		}
		info, err := os.Lstat(p)
		if err != nil {
			return nil
		}
		e := snapEnt{mode: info.Mode()}
		if info.Mode().IsRegular() {
			e.size = info.Size()
			e.mt = info.ModTime().UnixNano()
			if bs, err := os.ReadFile(p); err == nil {
				h := sha256.Sum256(bs)
				e.sum = hex.EncodeToString(h[:8])
			}
		}
		rel, _ := filepath.Rel(dir, p)
		m[rel] = e
		return nil
	})
	return m
}

// changedOutside lists the paths created, removed or modified between two
// snapshots that are not under allowed (a relative directory).
func changedOutside(before, after map[string]snapEnt, allowed string) []string {
	var out []string
	in := func(p string) bool { return p == allowed || strings.HasPrefix(p, allowed+"/") }
	for p, a := range after {
		if in(p) {
			continue
		}
		b, ok := before[p]
		if !ok {
			out = append(out, "created:"+p)
		} else if a.mode.IsRegular() && (a != b) {
			out = append(out, "modified:"+p)
		} else if a.mode.Type() != b.mode.Type() {
			out = append(out, "retyped:"+p)
		}
	}
	for p := range before {
		if _, ok := after[p]; !ok && !in(p) {
			out = append(out, "removed:"+p)
		}
	}
	sort.Strings(out)
	return out
}

// outsidePackageDir: what a build created under <root>/out that is neither the
// cache nor beneath out/<package>/ (directories on the way to it are fine)
func outsidePackageDir(before, after map[string]snapEnt, pkg string) []string {
	var out []string
	if pkg == "" {
		return nil
	}
	for p, a := range after {
		if _, ok := before[p]; ok || !strings.HasPrefix(p, "ws/out/") {
			continue
		}
		rel := strings.TrimPrefix(p, "ws/out/")
		switch {
		case strings.HasPrefix(rel, "CACHE"):
		case strings.HasPrefix(rel, pkg+"/"):
		case a.mode.IsDir() && (rel == pkg || strings.HasPrefix(pkg, rel+"/")):
		default:
			out = append(out, "out/"+rel)
		}
	}
	sort.Strings(out)
	return out
}

// ---------- the oracle's own reading of a file set ----------

var builtinNames = map[string]bool{".gitignore": true, "COPYING": true, "tags": true, ".DS_Store": true}

// treeEntries: every file and every directory of the tree (relative names), files flagged
func treeEntries(tree []string) (files map[string]bool, dirs map[string]bool) {
	files, dirs = map[string]bool{}, map[string]bool{"": true}
	for _, f := range tree {
		files[f] = true
		s := segs(f)
		for i := 1; i < len(s); i++ {
			dirs[strings.Join(s[:i], "/")] = true
		}
	}
	return
}

// specSelect: what one select should pick, by the property's reading; ok=false
// when the case is outside what the oracle can judge (malformed pattern,
// nothing selected, missing directory).
func specSelect(tree []string, p, sel string) (names []string, ok bool) {
	files, dirs := treeEntries(tree)
	if strings.HasSuffix(sel, "/**") || sel == "**" {
		dir := p
		if sel != "**" {
			dir = caco3.VerifMakeRelPath(p, strings.TrimSuffix(sel, "/**"))
		}
		if files[dir] {
			b := path.Base(dir)
			if builtinNames[b] || strings.HasSuffix(b, ".caco3") {
				return nil, false
			}
			return []string{dir}, true
		}
		if !dirs[dir] {
			return nil, false
		}
		ds := segs(dir)
		for f := range files {
			fsg := segs(f)
			if !underSegs(ds, fsg) || len(fsg) == len(ds) {
				continue
			}
			skip := false
			if len(ds) > 0 && ds[len(ds)-1] == ".git" {
				skip = true
			}
			for _, s := range fsg[len(ds) : len(fsg)-1] {
				if s == ".git" {
					skip = true
				}
			}
			b := fsg[len(fsg)-1]
			if builtinNames[b] || strings.HasSuffix(b, ".caco3") {
				skip = true
			}
			if !skip {
				names = append(names, f)
			}
		}
		return names, len(names) > 0
	}
	pat := caco3.VerifMakeRelPath(p, sel)
	ps := segs(pat)
	all := []string{}
	for f := range files {
		all = append(all, f)
	}
	for d := range dirs {
		all = append(all, d)
	}
	for _, e := range all {
		es := segs(e)
		if len(es) != len(ps) {
			continue
		}
		m := true
		for i := range ps {
			ok, err := path.Match(ps[i], es[i])
			if err != nil {
				return nil, false
			}
			if !ok {
				m = false
				break
			}
		}
		if m {
			if e == "" {
				e = "."
			}
			names = append(names, e)
		}
	}
	return names, len(names) > 0
}

// specIgnored: ignored by the property's reading; sibling reports that a
// directory ignore is a string prefix but not a segment prefix of the name.
func specIgnored(p string, ign []string, name string) (ignored, sibling bool) {
	for _, i := range ign {
		r := caco3.VerifMakeRelPath(p, i)
		if strings.HasSuffix(i, "/") {
			ds, ns := segs(r), segs(name)
			if underSegs(ds, ns) && len(ds) < len(ns) {
				ignored = true
			} else if strings.HasPrefix(name, r) {
				sibling = true
			}
			continue
		}
		if ok, err := path.Match(r, name); err == nil && ok {
			ignored = true
		}
	}
	return
}

func specFileSet(o *fsetOp) (want []string, sibling map[string]bool, ok bool) {
	set := map[string]bool{}
	sibling = map[string]bool{}
	for _, f := range o.files {
		set[caco3.VerifMakePath(o.p, f)] = true
	}
	for _, s := range o.sel {
		names, ok := specSelect(o.tree, o.p, s)
		if !ok {
			return nil, nil, false
		}
		for _, n := range names {
			ig, sib := specIgnored(o.p, o.ign, n)
			if ig {
				continue
			}
			if sib {
				sibling[n] = true
			}
			set[n] = true
		}
	}
	for n := range set {
		want = append(want, n)
	}
	sort.Strings(want)
	return want, sibling, true
}

// ---------- executing ops on the implementation ----------

func matchStr(ok bool, err error) string {
	if err != nil {
		return "bad"
	}
	if ok {
		return "yes"
	}
	return "no"
}

// judgeFset runs newFileSet through the shim and evaluates the oracles.
// It returns the canonical output and, if an oracle failed, its key and text.
func (c *ctx) judgeFset(o *fsetOp) (out, key, desc string) {
	root, ok := c.materialise(o.tree)
	if !ok {
		return "bad-tree", "", ""
	}
	r := &caco3.FileSet{Name: o.name, Files: o.files, Select: o.sel, Ignore: o.ign, Include: o.inc}
	v, err, pmsg := safeNewFileSet(root, o.p, r)
	if pmsg != "" {
		return "panic", "newfileset-panic", fmt.Sprintf(
			"newFileSet panicked (%s) for a file_set in package %q with Files %q Select %q Ignore %q", pmsg, o.p, o.files, o.sel, o.ign)
	}
	if err != nil {
		return "err", "", ""
	}
	out = fmt.Sprintf("ok name=%s files=%s inc=%s out=%s", hs(v.Name), hl(v.Files), hl(v.Includes), hs(v.Out))

	// names are plain and inside the package
	pp := segs(o.p)
	if !plainPath(v.Name) || !underSegs(pp, segs(v.Name)) {
		return out, "rule-name-escapes-package", fmt.Sprintf("file_set %q in package %q is named %q", o.name, o.p, v.Name)
	}
	for _, d := range v.Deps {
		if !plainPath(d) {
			isInc := false
			for _, i := range v.Includes {
				if i == d {
					isInc = true
				}
			}
			if isInc {
				src := caco3.VerifSrc(root, d)
				return out, "include-name-unresolved", fmt.Sprintf(
					"Include %q of a file_set in package %q becomes the dependency %q as written (not resolved, not clean); the loader stats %q for it",
					d, o.p, d, src)
			}
			return out, "dep-not-plain", fmt.Sprintf("dependency %q of file_set %q is not a clean relative path", d, v.Name)
		}
	}
	for i, inc := range o.inc {
		if i < len(v.Includes) && !path.IsAbs(inc) && !underSegs(pp, segs(v.Includes[i])) {
			return out, "include-name-unresolved", fmt.Sprintf(
				"relative Include %q of a file_set in package %q becomes the dependency %q, which is not inside the package",
				inc, o.p, v.Includes[i])
		}
	}
	for _, f := range v.Files {
		sp := caco3.VerifSrc(root, f)
		srcDir := filepath.Join(root, "src")
		if sp != srcDir && !strings.HasPrefix(sp, srcDir+"/") {
			return out, "file-outside-src", fmt.Sprintf("file %q of file_set %q resolves to %q outside %q", f, v.Name, sp, srcDir)
		}
	}
	op := caco3.VerifOut(root, v.Out)
	if !strings.HasPrefix(op, filepath.Join(root, "out")+"/") {
		return out, "out-outside-out", fmt.Sprintf("output %q resolves to %q", v.Out, op)
	}

	// exactness
	want, sibling, ok := specFileSet(o)
	if ok {
		got := map[string]bool{}
		for _, f := range v.Files {
			got[f] = true
		}
		wantSet := map[string]bool{}
		for _, w := range want {
			wantSet[w] = true
			if !got[w] {
				if sibling[w] && c.listedWithoutIgnores(root, o, w) {
					return out, "dir-ignore-sibling-prefix", fmt.Sprintf(
						"file_set in package %q with Select %q, Ignore %q drops %q, which is selected and not beneath an ignored directory (its name only starts with the directory's name)",
						o.p, o.sel, o.ign, w)
				}
				return out, "fileset-missing", fmt.Sprintf("file_set in %q with Files %q Select %q Ignore %q does not list %q", o.p, o.files, o.sel, o.ign, w)
			}
		}
		for _, f := range v.Files {
			if !wantSet[f] {
				return out, "fileset-extra", fmt.Sprintf("file_set in %q with Files %q Select %q Ignore %q lists %q, which is neither named, nor selected and not ignored", o.p, o.files, o.sel, o.ign, f)
			}
		}
		if !sort.StringsAreSorted(v.Files) {
			return out, "fileset-unsorted", "file list is not sorted"
		}
	}
	return out, "", ""
}

// safeNewFileSet: a panic inside newFileSet is an observation, not the end of the check
func safeNewFileSet(root, p string, r *caco3.FileSet) (v *caco3.VerifFileSet, err error, pmsg string) {
	defer func() {
		if x := recover(); x != nil {
			pmsg = fmt.Sprint(x)
		}
	}()
	v, err = caco3.VerifNewFileSet(root, p, r)
	return
}

// listedWithoutIgnores: the same rule without its Ignore list does list w
// (so the ignores, not the selection, dropped it)
func (c *ctx) listedWithoutIgnores(root string, o *fsetOp, w string) bool {
	v, err, pmsg := safeNewFileSet(root, o.p, &caco3.FileSet{Name: o.name, Files: o.files, Select: o.sel})
	if err != nil || pmsg != "" {
		return false
	}
	for _, f := range v.Files {
		if f == w {
			return true
		}
	}
	return false
}

func quote(s string) string { return strconv.Quote(s) }

func quoteList(l []string) string {
	xs := make([]string, len(l))
	for i, s := range l {
		xs[i] = quote(s)
	}
	return "[" + strings.Join(xs, ", ") + "]"
}

func jsonxSafe(ss ...string) bool {
	for _, s := range ss {
		for _, ch := range []byte(s) {
			if ch < 0x20 || ch > 0x7e {
				return false
			}
		}
	}
	return true
}

// judgeBuild builds one file_set rule with the real Builder and evaluates the
// containment oracle on the scratch parent directory.
func (c *ctx) judgeBuild(o *fsetOp) (out, key, desc string) {
	all := append(append(append([]string{o.p, o.name}, o.files...), o.sel...), o.ign...)
	if !jsonxSafe(all...) || len(o.inc) > 0 || !plainPath(o.p) {
		return "bad-op", "", ""
	}
	c.treeKey = "\x01invalid" // always a fresh workspace: builds write into it
	root, ok := c.materialise(o.tree)
	c.treeKey = "\x01invalid"
	if !ok {
		return "bad-tree", "", ""
	}
	ws := fmt.Sprintf("repo_map { Src: {%s: \"x\"} }\n", quote(o.p))
	os.WriteFile(filepath.Join(root, "WORKSPACE.caco3"), []byte(ws), 0o644)
	var b strings.Builder
	fmt.Fprintf(&b, "file_set {\n    Name: %s,\n", quote(o.name))
	if len(o.files) > 0 {
		fmt.Fprintf(&b, "    Files: %s,\n", quoteList(o.files))
	}
	if len(o.sel) > 0 {
		fmt.Fprintf(&b, "    Select: %s,\n", quoteList(o.sel))
	}
	if len(o.ign) > 0 {
		fmt.Fprintf(&b, "    Ignore: %s,\n", quoteList(o.ign))
	}
	b.WriteString("}\n")
	bf := filepath.Join(root, "BUILD.caco3")
	if o.p != "" {
		bf = filepath.Join(root, "src", filepath.FromSlash(o.p), "BUILD.caco3")
		os.MkdirAll(filepath.Dir(bf), 0o755)
	}
	os.WriteFile(bf, []byte(b.String()), 0o644)

	target := caco3.VerifMakeRelPath(o.p, o.name)
	outPath := filepath.Join(root, "out", filepath.FromSlash(target)+".fileset")
	if o.pre != "" { // something already sits where the rule writes its output
		os.MkdirAll(filepath.Dir(outPath), 0o755)
		switch o.pre {
		case "dangling":
			os.Symlink(filepath.Join(c.treeDir, "escaped.txt"), outPath)
		case "file":
			os.Symlink(filepath.Join(c.treeDir, "outside.txt"), outPath)
		case "dir":
			os.MkdirAll(filepath.Join(c.treeDir, "outdir"), 0o755)
			os.Symlink(filepath.Join(c.treeDir, "outdir"), outPath)
		case "inside":
			os.Symlink(filepath.Join(root, "escaped-into-root.txt"), outPath)
		case "fifo":
			syscall.Mkfifo(outPath, 0o644)
		default:
			return "bad-op", "", ""
		}
	}
	before := snapshot(c.treeDir)
	c.j.Risky(o.line())
	builder, err := caco3.NewBuilder(root, &caco3.Config{Root: root})
	if err != nil {
		return "err-builder", "", ""
	}
	if _, errs := builder.ReadWorkspace(); errs != nil {
		return "err-workspace", "", ""
	}
	var pmsg string
	var errs []*lexing.Error
	returned := hx.WithTimeout(20*time.Second, func() {
		defer func() {
			if x := recover(); x != nil {
				pmsg = fmt.Sprint(x)
			}
		}()
		errs = builder.Build([]string{target})
	})
	if !returned {
		// release a writer blocked on a FIFO, then report
		if f, err := os.OpenFile(outPath, os.O_RDONLY|syscall.O_NONBLOCK, 0); err == nil {
			time.Sleep(200 * time.Millisecond)
			f.Close()
		}
		c.j.Clear()
		return "hang", "output-written-through-special-file", fmt.Sprintf(
			"building file_set %q did not return: the %s left at its output path was written to instead of being replaced", o.name, o.pre)
	}
	if pmsg != "" {
		c.j.Clear()
		return "panic", "build-panic", fmt.Sprintf("building file_set %q in package %q panicked: %s", o.name, o.p, pmsg)
	}
	c.j.Clear()
	after := snapshot(c.treeDir)
	if ch := changedOutside(before, after, "ws/out"); len(ch) > 0 {
		if o.pre != "" {
			return "changed", "output-written-through-symlink", fmt.Sprintf(
				"building file_set %q with a %s symlink left at its output path wrote through the link, outside <root>/out: %s", o.name, o.pre, strings.Join(ch, " "))
		}
		return "changed", "write-outside-out", fmt.Sprintf(
			"building file_set %q in package %q changed the file system outside <root>/out: %s", o.name, o.p, strings.Join(ch, " "))
	}
	if bad := outsidePackageDir(before, after, o.p); len(bad) > 0 {
		return "misplaced", "output-outside-package-dir", fmt.Sprintf(
			"building file_set %q declared in package %q wrote %s, outside <root>/out/%s/", o.name, o.p, strings.Join(bad, " "), o.p)
	}
	if errs != nil {
		return "err", "", ""
	}
	if target == o.p {
		return "unnamed-built", "rule-named-as-its-package", fmt.Sprintf(
			"file_set %q in package %q resolves to the package itself (it has no name) but was built", o.name, o.p)
	}
	bs, err := os.ReadFile(filepath.Join(root, "out", filepath.FromSlash(target)+".fileset"))
	if err != nil {
		return "no-fileset", "fileset-not-written", fmt.Sprintf("build of %q succeeded but %s.fileset is not in <root>/out", target, target)
	}
	var list []struct{ Name string }
	if len(bytes.TrimSpace(bs)) > 0 {
		if err := json.Unmarshal(bs, &list); err != nil {
			return "bad-fileset", "fileset-not-json", err.Error()
		}
	}
	var names []string
	for _, e := range list {
		names = append(names, e.Name)
	}
	out = "built files=" + hl(names)
	// exactness on what was written
	fo := *o
	want, sibling, ok := specFileSet(&fo)
	if ok {
		got := map[string]bool{}
		for _, n := range names {
			got[n] = true
		}
		for _, w := range want {
			if !got[w] {
				if sibling[w] && c.listedWithoutIgnores(root, o, w) {
					return out, "dir-ignore-sibling-prefix", fmt.Sprintf(
						"%s.fileset built from Select %q, Ignore %q lacks %q, which is selected and not beneath an ignored directory", target, o.sel, o.ign, w)
				}
				return out, "fileset-missing", fmt.Sprintf("%s.fileset lacks %q", target, w)
			}
		}
		if len(want) != len(names) {
			return out, "fileset-extra", fmt.Sprintf("%s.fileset lists %q, expected %q", target, names, want)
		}
	}
	return out, "", ""
}

func (c *ctx) runOp(line string) string {
	ws := strings.Fields(line)
	if len(ws) == 0 {
		return "bad-op"
	}
	switch ws[0] {
	case "clean":
		if len(ws) != 2 {
			return "bad-op"
		}
		return hs(path.Clean(unhs(ws[1])))
	case "join":
		if len(ws) != 2 {
			return "bad-op"
		}
		return hs(path.Join(unhl(ws[1])...))
	case "rel", "mk":
		pw, ok1 := kv(ws[1:], "p")
		fw, ok2 := kv(ws[1:], "f")
		if !ok1 || !ok2 {
			return "bad-op"
		}
		p, f := unhs(pw), unhs(fw)
		var r string
		if ws[0] == "rel" {
			r = caco3.VerifMakeRelPath(p, f)
		} else {
			r = caco3.VerifMakePath(p, f)
		}
		// direct oracles
		if !plainPath(r) {
			c.rep.Fail(ws[0]+"-not-plain", fmt.Sprintf("%s(%q, %q) = %q is not a clean relative path without . or .. segments", ws[0], p, f, r), []string{line})
		} else {
			if (ws[0] == "rel" || !path.IsAbs(f)) && plainPath(p) && !underSegs(segs(p), segs(r)) {
				c.rep.Fail(ws[0]+"-escapes-package", fmt.Sprintf("%s(%q, %q) = %q is outside package %q", ws[0], p, f, r, p), []string{line})
			}
		}
		const root = "/r"
		for _, sd := range []struct{ dir, got string }{{"/r/src", caco3.VerifSrc(root, r)}, {"/r/out", caco3.VerifOut(root, r)}} {
			if sd.got != sd.dir && !strings.HasPrefix(sd.got, sd.dir+"/") {
				c.rep.Fail("resolved-name-outside-tree", fmt.Sprintf("%s(%q, %q) = %q is placed at %q, outside %q", ws[0], p, f, r, sd.got, sd.dir), []string{line})
			}
		}
		return hs(r)
	case "dfp":
		dw, ok1 := kv(ws[1:], "d")
		pw, ok2 := kv(ws[1:], "ps")
		if !ok1 || !ok2 {
			return "bad-op"
		}
		d, ps := unhs(dw), unhl(pw)
		got := caco3.VerifDirFilePath(d, ps...)
		// direct oracle: a plain name is placed at exactly <dir>/<name>
		var parts []string
		plain := strings.HasPrefix(d, "/") && plainPath(strings.TrimPrefix(d, "/")) && d != "/"
		for _, x := range ps {
			if !plainPath(x) {
				plain = false
			}
			if x != "" {
				parts = append(parts, x)
			}
		}
		if plain {
			want := d
			if len(parts) > 0 {
				want = d + "/" + strings.Join(parts, "/")
			}
			if got != want {
				c.rep.Fail("resolved-name-misplaced", fmt.Sprintf("dirFilePath(%q, %q) = %q, the plain name belongs at %q", d, ps, got, want), []string{line})
			}
		}
		return hs(got)
	case "subdirs":
		pw, ok1 := kv(ws[1:], "p")
		dw, ok2 := kv(ws[1:], "dirs")
		if !ok1 || !ok2 {
			return "bad-op"
		}
		pk, dirs := unhs(pw), unhl(dw)
		got := caco3.VerifSubBuildDirs(pk, &caco3.SubBuilds{Dirs: dirs})
		if len(got) != len(dirs) {
			c.rep.Fail("subbuild-dirs-invented", fmt.Sprintf("sub_builds %q in package %q names %d directories: %q", dirs, pk, len(got), got), []string{line})
		}
		for _, g := range got {
			if !plainPath(g) || (plainPath(pk) && !underSegs(segs(pk), segs(g))) {
				c.rep.Fail("subbuild-dir-escapes-package", fmt.Sprintf("sub_builds %q in package %q reads the build file of %q, outside the package", dirs, pk, g), []string{line})
			}
		}
		return hl(got)
	case "match", "fmatch":
		pw, ok1 := kv(ws[1:], "pat")
		nw, ok2 := kv(ws[1:], "name")
		if !ok1 || !ok2 {
			return "bad-op"
		}
		if ws[0] == "match" {
			return matchStr(path.Match(unhs(pw), unhs(nw)))
		}
		return matchStr(filepath.Match(unhs(pw), unhs(nw)))
	case "glob":
		tw, ok1 := kv(ws[1:], "tree")
		pw, ok2 := kv(ws[1:], "pat")
		if !ok1 || !ok2 || !plainPath(unhs(pw)) {
			return "bad-op"
		}
		root, ok := c.materialise(unhl(tw))
		if !ok {
			return "bad-tree"
		}
		src := filepath.Join(root, "src")
		ms, err := filepath.Glob(caco3.VerifSrc(root, unhs(pw)))
		if err != nil {
			return "bad"
		}
		rl, ok := relList(src, ms)
		if !ok {
			return "bad-rel"
		}
		return "ok " + hl(rl)
	case "walk":
		tw, ok1 := kv(ws[1:], "tree")
		dw, ok2 := kv(ws[1:], "d")
		if !ok1 || !ok2 || !plainPath(unhs(dw)) {
			return "bad-op"
		}
		root, ok := c.materialise(unhl(tw))
		if !ok {
			return "bad-tree"
		}
		src := filepath.Join(root, "src")
		ms, err := caco3.VerifListAllFiles(caco3.VerifSrc(root, unhs(dw)))
		if err != nil {
			return "err"
		}
		rl, ok := relList(src, ms)
		if !ok {
			return "bad-rel"
		}
		sort.Strings(rl)
		return "ok " + hl(rl)
	case "buildinc":
		return c.runBuildInc(line, ws)
	case "dbuild":
		return c.runDockerBuildLoad(line, ws)
	case "fset", "build", "rebuild":
		o, ok := parseFsetOp(ws)
		if !ok || !plainPath(o.p) {
			return "bad-op"
		}
		judge := c.judgeFset
		if o.kind == "build" {
			judge = c.judgeBuild
		}
		if o.kind == "rebuild" {
			judge = c.judgeRebuild
		}
		out, key, desc := judge(o)
		if key != "" {
			min := o
			if c.shrunk[key] < 2 {
				c.shrunk[key]++
				min = c.shrink(o, key, judge)
			}
			c.rep.Fail(key, desc, []string{min.line()})
		}
		return out
	}
	return "bad-op"
}

// judgeRebuild: two Builds of one file_set rule on ONE Builder, with sources added
// and removed in between; each .fileset lists what the tree holds at that time.
func (c *ctx) judgeRebuild(o *fsetOp) (out, key, desc string) {
	all := append(append(append([]string{o.p, o.name}, o.files...), o.sel...), o.ign...)
	if !jsonxSafe(all...) || len(o.inc) > 0 || !plainPath(o.p) || o.p == "" {
		return "bad-op", "", ""
	}
	c.treeKey = "\x01invalid"
	root, ok := c.materialise(o.tree)
	c.treeKey = "\x01invalid"
	if !ok {
		return "bad-tree", "", ""
	}
	os.WriteFile(filepath.Join(root, "WORKSPACE.caco3"), []byte(fmt.Sprintf("repo_map { Src: {%s: \"x\"} }\n", quote(o.p))), 0o644)
	var b strings.Builder
	fmt.Fprintf(&b, "file_set {\n    Name: %s,\n", quote(o.name))
	if len(o.files) > 0 {
		fmt.Fprintf(&b, "    Files: %s,\n", quoteList(o.files))
	}
	if len(o.sel) > 0 {
		fmt.Fprintf(&b, "    Select: %s,\n", quoteList(o.sel))
	}
	if len(o.ign) > 0 {
		fmt.Fprintf(&b, "    Ignore: %s,\n", quoteList(o.ign))
	}
	b.WriteString("}\n")
	bf := filepath.Join(root, "src", filepath.FromSlash(o.p), "BUILD.caco3")
	os.MkdirAll(filepath.Dir(bf), 0o755)
	os.WriteFile(bf, []byte(b.String()), 0o644)
	target := caco3.VerifMakeRelPath(o.p, o.name)
	builder, err := caco3.NewBuilder(root, &caco3.Config{Root: root})
	if err != nil {
		return "err-builder", "", ""
	}
	if _, errs := builder.ReadWorkspace(); errs != nil {
		return "err-workspace", "", ""
	}
	src := filepath.Join(root, "src")
	var answers []string
	for round, tree := range [][]string{o.tree, o.tree2} {
		if round == 1 { // sources removed and added between the two Builds
			now := map[string]bool{}
			for _, f := range tree {
				now[f] = true
			}
			for _, f := range o.tree {
				if !now[f] && !strings.HasSuffix(f, "BUILD.caco3") {
					fp := filepath.Join(src, filepath.FromSlash(f))
					os.Remove(fp)
					for d := filepath.Dir(fp); d != src && os.Remove(d) == nil; d = filepath.Dir(d) {
					}
				}
			}
			for _, f := range tree {
				fp := filepath.Join(src, filepath.FromSlash(f))
				if _, err := os.Lstat(fp); err != nil {
					os.MkdirAll(filepath.Dir(fp), 0o755)
					os.WriteFile(fp, []byte("x:"+f), 0o644)
				}
			}
		}
		c.j.Risky(o.line())
		errs := builder.Build([]string{target})
		c.j.Clear()
		if errs != nil {
			answers = append(answers, "err")
			continue
		}
		bs, err := os.ReadFile(filepath.Join(root, "out", filepath.FromSlash(target)+".fileset"))
		if err != nil {
			return "no-fileset", "fileset-not-written", fmt.Sprintf("build %d of %q succeeded but its .fileset is missing", round+1, target)
		}
		var list []struct{ Name string }
		if len(bytes.TrimSpace(bs)) > 0 {
			if err := json.Unmarshal(bs, &list); err != nil {
				return "bad-fileset", "fileset-not-json", err.Error()
			}
		}
		var names []string
		got := map[string]bool{}
		for _, e := range list {
			names = append(names, e.Name)
			got[e.Name] = true
		}
		answers = append(answers, "built files="+hl(names))
		fo := *o
		fo.tree = tree
		if want, _, ok := specFileSet(&fo); ok {
			wantSet := map[string]bool{}
			for _, w := range want {
				wantSet[w] = true
				if !got[w] && key == "" {
					key, desc = "fileset-stale-after-source-change", fmt.Sprintf(
						"Build %d on the same Builder (Select %q, Ignore %q): %s.fileset does not list %q, which is in the source tree now (listed: %q)", round+1, o.sel, o.ign, target, w, names)
				}
			}
			for _, n := range names {
				if !wantSet[n] && key == "" {
					key, desc = "fileset-stale-after-source-change", fmt.Sprintf(
						"Build %d on the same Builder (Select %q, Ignore %q): %s.fileset lists %q, which is not selected in the source tree as it is now", round+1, o.sel, o.ign, target, n)
				}
			}
		}
	}
	return strings.Join(answers, " ;; "), key, desc
}

// runBuildInc: a file set that includes 1-3 other file sets of its package, built
// by the real Builder; the written .fileset lists exactly the union, each once.
//   buildinc p=<s> tree=<list> sets=<files+files;files+...> files=<list>
func (c *ctx) runBuildInc(line string, ws []string) string {
	pw, ok1 := kv(ws[1:], "p")
	tw, ok2 := kv(ws[1:], "tree")
	sw, ok3 := kv(ws[1:], "sets")
	fw, ok4 := kv(ws[1:], "files")
	if !ok1 || !ok2 || !ok3 || !ok4 {
		return "bad-op"
	}
	pk, tree, files := unhs(pw), unhl(tw), unhl(fw)
	var sets [][]string
	if sw != "." {
		for _, x := range strings.Split(sw, ";") {
			var l []string
			if x != "." {
				for _, y := range strings.Split(x, "+") {
					l = append(l, unhs(y))
				}
			}
			sets = append(sets, l)
		}
	}
	all := append([]string{pk}, files...)
	for _, l := range sets {
		all = append(all, l...)
	}
	if !jsonxSafe(all...) || !plainPath(pk) || pk == "" {
		return "bad-op"
	}
	c.treeKey = "\x01invalid"
	root, ok := c.materialise(tree)
	c.treeKey = "\x01invalid"
	if !ok {
		return "bad-tree"
	}
	os.WriteFile(filepath.Join(root, "WORKSPACE.caco3"), []byte(fmt.Sprintf("repo_map { Src: {%s: \"x\"} }\n", quote(pk))), 0o644)
	var b strings.Builder
	var incs []string
	want := map[string]bool{}
	for i, l := range sets {
		fmt.Fprintf(&b, "file_set {\n    Name: \"i%d\",\n    Files: %s,\n}\n", i, quoteList(l))
		incs = append(incs, pk+"/i"+strconv.Itoa(i)) // Include names are used as written: root-relative
		for _, f := range l {
			want[caco3.VerifMakePath(pk, f)] = true
		}
	}
	for _, f := range files {
		want[caco3.VerifMakePath(pk, f)] = true
	}
	b.WriteString("file_set {\n    Name: \"zzset\",\n")
	if len(files) > 0 {
		fmt.Fprintf(&b, "    Files: %s,\n", quoteList(files))
	}
	if len(incs) > 0 {
		fmt.Fprintf(&b, "    Include: %s,\n", quoteList(incs))
	}
	b.WriteString("}\n")
	bf := filepath.Join(root, "src", filepath.FromSlash(pk), "BUILD.caco3")
	os.MkdirAll(filepath.Dir(bf), 0o755)
	os.WriteFile(bf, []byte(b.String()), 0o644)
	c.j.Risky(line)
	builder, err := caco3.NewBuilder(root, &caco3.Config{Root: root})
	if err != nil {
		return "err-builder"
	}
	if _, errs := builder.ReadWorkspace(); errs != nil {
		return "err-workspace"
	}
	errs := builder.Build([]string{pk + "/zzset"})
	c.j.Clear()
	if errs != nil {
		return "err"
	}
	bs, err := os.ReadFile(filepath.Join(root, "out", filepath.FromSlash(pk), "zzset.fileset"))
	if err != nil {
		c.rep.Fail("fileset-not-written", "the build succeeded but zzset.fileset is missing", []string{line})
		return "no-fileset"
	}
	var list []struct{ Name string }
	if len(bytes.TrimSpace(bs)) > 0 {
		if err := json.Unmarshal(bs, &list); err != nil {
			return "bad-fileset"
		}
	}
	var names []string
	seen := map[string]bool{}
	for _, e := range list {
		if seen[e.Name] {
			c.rep.Fail("fileset-duplicate-entry", fmt.Sprintf("a file set with Files %q including file sets %q lists %q twice", files, sets, e.Name), []string{line})
		}
		seen[e.Name] = true
		names = append(names, e.Name)
	}
	for w := range want {
		if !seen[w] {
			c.rep.Fail("fileset-missing", fmt.Sprintf("a file set with Files %q including file sets with files %q does not list %q (listed: %q)", files, sets, w, names), []string{line})
		}
	}
	for n := range seen {
		if !want[n] {
			c.rep.Fail("fileset-extra", fmt.Sprintf("a file set with Files %q including file sets with files %q lists %q", files, sets, n), []string{line})
		}
	}
	return "built files=" + hl(names)
}

// runDockerBuildLoad: a docker_build rule loaded (not executed; no docker needed):
// its dependencies, the Dockerfile in particular, are names inside <root>/src.
//   dbuild p=<s> tree=<list> name=<s> df=<s>     (df empty: no Dockerfile field)
func (c *ctx) runDockerBuildLoad(line string, ws []string) string {
	pw, ok1 := kv(ws[1:], "p")
	tw, ok2 := kv(ws[1:], "tree")
	nw, ok3 := kv(ws[1:], "name")
	dw, ok4 := kv(ws[1:], "df")
	if !ok1 || !ok2 || !ok3 || !ok4 {
		return "bad-op"
	}
	pk, tree, name, df := unhs(pw), unhl(tw), unhs(nw), unhs(dw)
	if !jsonxSafe(pk, name, df) || !plainPath(pk) || pk == "" {
		return "bad-op"
	}
	c.treeKey = "\x01invalid"
	root, ok := c.materialise(tree)
	c.treeKey = "\x01invalid"
	if !ok {
		return "bad-tree"
	}
	// decoys outside <root>/src at the places a climbing name would reach
	for _, d := range []string{filepath.Join(root, "img"), filepath.Join(c.treeDir, "img"), filepath.Join(root, "src", "img"), root, c.treeDir} {
		os.MkdirAll(d, 0o755)
		os.WriteFile(filepath.Join(d, "Dockerfile"), []byte("FROM scratch\n"), 0o644)
	}
	os.WriteFile(filepath.Join(root, "WORKSPACE.caco3"), []byte(fmt.Sprintf("repo_map { Src: {%s: \"x\"} }\n", quote(pk))), 0o644)
	rule := fmt.Sprintf("docker_build {\n    Name: %s,\n", quote(name))
	if df != "" {
		rule += fmt.Sprintf("    Dockerfile: %s,\n", quote(df))
	}
	rule += "}\n"
	bf := filepath.Join(root, "src", filepath.FromSlash(pk), "BUILD.caco3")
	os.MkdirAll(filepath.Dir(bf), 0o755)
	os.WriteFile(bf, []byte(rule), 0o644)
	target := caco3.VerifMakeRelPath(pk, name)
	c.j.Risky(line)
	_, loaded, errs := caco3.VerifLoad(root, []string{target})
	c.j.Clear()
	srcDir := filepath.Join(root, "src")
	for _, e := range errs {
		// `stat "<path>": ...`: a dependency looked up outside the source tree
		if i := strings.Index(e, "stat \""); i >= 0 {
			rest := e[i+6:]
			if j := strings.Index(rest, "\""); j >= 0 {
				if f := rest[:j]; f != srcDir && !strings.HasPrefix(f, srcDir+"/") {
					c.rep.Fail("source-looked-up-outside-src", fmt.Sprintf("docker_build %q in package %q (Dockerfile %q): the loader looks for a source at %q, outside %q", name, pk, df, f, srcDir), []string{line})
				}
			}
		}
	}
	if errs != nil {
		return "err"
	}
	var deps []string
	for _, n := range loaded {
		if !plainPath(n.Name) {
			c.rep.Fail("source-registered-outside-src", fmt.Sprintf("docker_build %q in package %q (Dockerfile %q) registers the node %q, which is %q, outside %q", name, pk, df, n.Name, caco3.VerifSrc(root, n.Name), srcDir), []string{line})
		}
		if n.Name == target {
			deps = append([]string{}, n.Deps...)
		}
	}
	sort.Strings(deps)
	return "ok deps=" + hl(deps)
}

// shrink removes tree files, selects, ignores, explicit files and includes
// one at a time while the same oracle key keeps failing.
func (c *ctx) shrink(o *fsetOp, key string, judge func(*fsetOp) (string, string, string)) *fsetOp {
	cur := *o
	fields := func(t *fsetOp) []*[]string {
		return []*[]string{&t.tree, &t.sel, &t.ign, &t.files, &t.inc}
	}
	for changed := true; changed; {
		changed = false
		for fi := range fields(&cur) {
			for i := 0; i < len(*fields(&cur)[fi]); i++ {
				t := cur
				old := *fields(&cur)[fi]
				nl := append(append([]string{}, old[:i]...), old[i+1:]...)
				*fields(&t)[fi] = nl
				if _, k, _ := judge(&t); k == key {
					cur = t
					changed = true
					i--
				}
			}
		}
	}
	return &cur
}

// ---------- generators ----------

type gen struct {
	r    *hx.Rand
	rep  *hx.Report
	ops  []string
	seen map[string]bool
}

func (g *gen) add(op string, nontrivial bool) {
	if g.seen[op] {
		return
	}
	g.seen[op] = true
	g.ops = append(g.ops, op)
	g.rep.Case(op, nontrivial)
}

// all strings made of 1..n segments of the alphabet, joined by "/"
func segStrings(alpha []string, n int) []string {
	var out []string
	var rec func(prefix []string)
	rec = func(prefix []string) {
		if len(prefix) > 0 {
			out = append(out, strings.Join(prefix, "/"))
		}
		if len(prefix) == n {
			return
		}
		for _, a := range alpha {
			rec(append(append([]string{}, prefix...), a))
		}
	}
	rec(nil)
	return out
}

func odd(f string) bool {
	if path.IsAbs(f) {
		return true
	}
	for _, s := range strings.Split(f, "/") {
		if s == "" || s == "." || s == ".." {
			return true
		}
	}
	return false
}

var plainPkgs = []string{"", "p", "p/q", "a", "a/b"}
var dirtyPkgs = []string{"/p", "p/", "p/../q", "..", "./p", "p//q", "../p"}

func (g *gen) pathOps(maxSeg int, thorough bool) {
	alpha := []string{"a", "b", ".", "..", ""}
	names := segStrings(alpha, maxSeg)
	extra := segStrings([]string{"a", "..", "", "...", ".a", "a.", "..a"}, 3)
	names = append(names, extra...)
	for _, f := range names {
		nt := odd(f)
		g.add("clean "+hs(f), nt)
		g.rep.Count("clean")
		for _, p := range plainPkgs {
			g.add(fmt.Sprintf("rel p=%s f=%s", hs(p), hs(f)), nt)
			g.add(fmt.Sprintf("mk p=%s f=%s", hs(p), hs(f)), nt)
			g.rep.Count("rel+mk:plain-package")
		}
		g.rep.Count(fmt.Sprintf("name-segments:%d", strings.Count(f, "/")+1))
	}
	// dirty package paths and joins on a smaller name set
	small := segStrings(alpha, 3)
	if thorough {
		small = segStrings(alpha, 4)
	}
	for _, f := range small {
		for _, p := range dirtyPkgs {
			g.add(fmt.Sprintf("rel p=%s f=%s", hs(p), hs(f)), true)
			g.add(fmt.Sprintf("mk p=%s f=%s", hs(p), hs(f)), true)
			g.rep.Count("rel+mk:dirty-package")
		}
		for _, p := range []string{"", "p", "/", "p/q", "..", "/p"} {
			g.add("join "+hl([]string{p, f}), true)
			g.add("join "+hl([]string{"/", p, f}), true)
			g.add("join "+hl([]string{f, p, ""}), true)
			g.add(fmt.Sprintf("dfp d=%s ps=%s", hs("/r/src"), hl([]string{p, f})), true)
			g.rep.Count("join+dfp")
		}
		g.add(fmt.Sprintf("dfp d=%s ps=%s", hs("/r/src"), hl([]string{f})), true)
		g.add(fmt.Sprintf("dfp d=%s ps=%s", hs("/r/out"), hl([]string{f, "BUILD.caco3"})), true)
	}
	g.add(fmt.Sprintf("dfp d=%s ps=.", hs("/r/src")), true)
}

func (g *gen) randomPathOps(n int) {
	alpha := []string{"a", "b", "c", ".", "..", "", "...", ".a", "a.b", "..a", "a..", "x y"}
	for i := 0; i < n; i++ {
		k := 5 + g.r.Intn(8)
		var ss []string
		for j := 0; j < k; j++ {
			ss = append(ss, hx.Pick(g.r, alpha))
		}
		f := strings.Join(ss, "/")
		p := hx.Pick(g.r, append(append([]string{}, plainPkgs...), dirtyPkgs...))
		g.add("clean "+hs(f), true)
		g.add(fmt.Sprintf("rel p=%s f=%s", hs(p), hs(f)), true)
		g.add(fmt.Sprintf("mk p=%s f=%s", hs(p), hs(f)), true)
		g.add(fmt.Sprintf("dfp d=%s ps=%s", hs("/r/src"), hl([]string{p, f})), true)
		g.rep.Count("random-long-name")
	}
}

func allStrings(alpha string, n int) []string {
	out := []string{""}
	prev := []string{""}
	for l := 1; l <= n; l++ {
		var cur []string
		for _, s := range prev {
			for i := 0; i < len(alpha); i++ {
				cur = append(cur, s+string(alpha[i]))
			}
		}
		out = append(out, cur...)
		prev = cur
	}
	return out
}

func (g *gen) matchOps(patLen int, nrand int) {
	pats := allStrings(`ab*?[]-^\/`, patLen)
	names := allStrings("ab/", 3)
	names = append(names, "-", "a-", "]", "^", "ba-b", "abab", "aab", "\\", "a\\")
	for _, p := range pats {
		for _, n := range names {
			g.add(fmt.Sprintf("match pat=%s name=%s", hs(p), hs(n)), true)
			g.add(fmt.Sprintf("fmatch pat=%s name=%s", hs(p), hs(n)), true)
		}
	}
	g.rep.Count(fmt.Sprintf("match:patterns<=%d x names", patLen))
	for i := 0; i < nrand; i++ {
		var p, n string
		for k := g.r.Intn(9); k > 0; k-- {
			p += string(`aabbc*?[]-^\/.`[g.r.Intn(14)])
		}
		for k := g.r.Intn(7); k > 0; k-- {
			n += string("aabbc/.-"[g.r.Intn(8)])
		}
		g.add(fmt.Sprintf("match pat=%s name=%s", hs(p), hs(n)), true)
		g.add(fmt.Sprintf("fmatch pat=%s name=%s", hs(p), hs(n)), true)
		g.rep.Count("match:random")
	}
}

// candidate files of package "p": names that are prefixes of siblings' names
var candidates = []string{"foo", "foo.txt", "foobar/x", "foo/bar", "foo/b.txt", "a.txt", "sub/tags", "sub/.git/c", "sub/y.caco3"}

func consistent(tree []string) bool {
	files, dirs := treeEntries(tree)
	for f := range files {
		if dirs[f] {
			return false
		}
	}
	return true
}

func allTrees(pkg string) [][]string {
	var out [][]string
	for m := 0; m < 1<<len(candidates); m++ {
		var t []string
		for i, c := range candidates {
			if m&(1<<i) != 0 {
				t = append(t, path.Join(pkg, c))
			}
		}
		if consistent(t) {
			sort.Strings(t)
			out = append(out, t)
		}
	}
	return out
}

var selects = []string{"*", "**", "foo*", "foo/**", "*.txt", "*/*", "foo/*", "f?o", "[e-g]oo*", "foo", "nosuch", "sub/**", "./foo/../*", "/foo*",
	// globs that merely end in ** (no slash before it), ** in front and in the middle: ordinary globs, not recursive selects
	"foo**", "fo**", "sub/t**", "foo/b**", "**.txt", "*/**/*", "nos**"}
var ignores = []string{"foo/", "foo", "*.txt", "foo*", "foobar/", "./", "foo/b*", "[", "*/x", "fo/", "sub/", "/foo/", "foo/bar/"}
var fileLists = [][]string{nil, {"foo.txt"}, {"../x", "/abs/y"}, {"foo/bar", "./a.txt"}, {"foobar/x"}}
var globExtra = []string{`fo\o`, `[`, `foo*/[`, `*/[`, `f[`, `\`, `foo\`, `*/\`, `[a-`, `foo/[b]*`, `*o*/*`, `?oo`, `*/*/*`, `sub/.*`, `sub/.git`, `[^f]*`, `*[^t]`}

func (g *gen) fsetOp(kind, p string, tree []string, name string, files, sel, ign, inc []string) {
	o := &fsetOp{kind: kind, p: p, tree: tree, name: name, files: files, sel: sel, ign: ign, inc: inc}
	g.add(o.line(), len(tree) > 0 && (len(sel) > 0 || len(ign) > 0))
}

func (g *gen) pickSome(from []string, max int) []string {
	n := g.r.Intn(max + 1)
	var out []string
	for i := 0; i < n; i++ {
		out = append(out, hx.Pick(g.r, from))
	}
	return out
}

func (g *gen) treeOps(thorough bool, nbuild int) {
	const p = "p"
	trees := allTrees(p)
	g.rep.Count(fmt.Sprintf("trees:%d", len(trees)))
	perTree := 12
	if thorough {
		perTree = 150
	}
	for _, t := range trees {
		// every single select x every single ignore
		for _, s := range selects {
			g.add(fmt.Sprintf("glob tree=%s pat=%s", hl(t), hs(caco3.VerifMakeRelPath(p, s))), len(t) > 0)
			for _, i := range ignores {
				g.fsetOp("fset", p, t, "s", nil, []string{s}, []string{i}, nil)
				g.rep.Count("fset:select-x-ignore")
			}
		}
		if thorough {
			for _, s := range append(append([]string{}, selects[:8]...), "foo**", "sub/t**") {
				for a := 0; a < len(ignores); a++ {
					for b := a + 1; b < len(ignores); b++ {
						g.fsetOp("fset", p, t, "s", nil, []string{s}, []string{ignores[a], ignores[b]}, nil)
						g.rep.Count("fset:select-x-ignore-pair")
					}
				}
			}
		}
		for _, e := range globExtra {
			g.add(fmt.Sprintf("glob tree=%s pat=%s", hl(t), hs(caco3.VerifMakeRelPath(p, e))), len(t) > 0)
			g.rep.Count("glob:extra-pattern")
		}
		for _, d := range []string{"", "p", "p/foo", "p/sub", "p/nosuch", "p/foo.txt", "p/sub/.git", "p/sub/tags"} {
			g.add(fmt.Sprintf("walk tree=%s d=%s", hl(t), hs(d)), len(t) > 0)
			g.rep.Count("walk")
		}
		for k := 0; k < perTree; k++ {
			sel := g.pickSome(selects, 2)
			if g.r.Intn(6) == 0 {
				sel = append(sel, hx.Pick(g.r, globExtra))
			}
			g.fsetOp("fset", p, t, hx.Pick(g.r, []string{"s", "../s", "/s", "x/../../s", "foo"}),
				hx.Pick(g.r, fileLists), sel, g.pickSome(ignores, 3), nil)
			g.rep.Count("fset:random-combination")
		}
	}
	// includes (as written vs resolved), other packages
	for _, inc := range [][]string{{"p/t"}, {"t"}, {"./t"}, {"../p/t"}, {"/p/t"}, {"../../../outside.txt"}, {"p//t", "p/t/"}} {
		for _, pk := range []string{"p", "", "p/q"} {
			g.fsetOp("fset", pk, []string{"p/foo.txt", "p/q/z.txt"}, "s", []string{"foo.txt"}, nil, nil, inc)
			g.rep.Count("fset:include")
		}
	}
	for _, pk := range []string{"", "p/q", "a"} {
		for _, t := range [][]string{{"p/q/foo.txt", "p/q/foo/bar", "p/q/foobar/x", "a/foo.txt", "a/foobar/x", "a/foo/bar", "foo.txt", "foobar/x", "foo/bar"}} {
			for _, s := range selects {
				for _, i := range ignores {
					g.fsetOp("fset", pk, t, "s", nil, []string{s}, []string{i}, nil)
					g.rep.Count("fset:other-package")
				}
			}
		}
	}
	// real builds
	names := []string{"zzset", "../../zz", "/abs/zz", "a/../../zz", ".", ""}
	for k := 0; k < nbuild; k++ {
		t := append([]string{}, hx.Pick(g.r, trees)...)
		pk := p
		t = append(t, pk+"/BUILD.caco3")
		sort.Strings(t)
		name := names[0]
		if g.r.Intn(4) == 0 {
			name = hx.Pick(g.r, names)
		}
		sel := g.pickSome(selects, 2)
		var files []string
		if g.r.Intn(3) == 0 {
			files = hx.Pick(g.r, fileLists)
		}
		if len(sel) == 0 && len(files) == 0 {
			sel = []string{"**"}
		}
		g.fsetOp("build", pk, t, name, files, sel, g.pickSome(ignores, 2), nil)
		g.rep.Count("build")
	}
}

// ignore lists of 3-5 patterns with malformed ones at every position, over trees
// in which files are matched by exactly one of the later patterns: a malformed
// pattern is skipped, the patterns after it still apply, for every file
func (g *gen) malformedIgnores(thorough bool) {
	const p = "p"
	good := []string{"foo", "*.txt", "a.txt", "foo*", "foobar/x", "sub/*", "foo/b*", "z*"}
	bad := []string{"[", "[a", "\\"}
	trees := [][]string{
		{"p/a.txt", "p/foo", "p/foo.txt", "p/foobar/x", "p/sub/tags"},
		{"p/foo.txt", "p/foo/b.txt", "p/foo/bar", "p/foobar/x", "p/a.txt"},
		{"p/foo", "p/z1"},
		{"p/a.txt"},
	}
	sels := []string{"*", "**", "*/*"}
	emit := func(ign []string) {
		for _, t := range trees {
			for _, s := range sels {
				g.fsetOp("fset", p, t, "s", nil, []string{s}, ign, nil)
				g.rep.Count("fset:malformed-ignore-lists")
			}
		}
	}
	// length 3: one malformed pattern at every position x every ordered pair of good ones
	for pos := 0; pos < 3; pos++ {
		for _, b := range bad {
			for i, a := range good[:6] {
				for j, c := range good[:6] {
					if i == j {
						continue
					}
					l := []string{a, c}
					l = append(l[:pos], append([]string{b}, l[pos:]...)...)
					emit(append([]string{}, l...))
				}
			}
		}
	}
	// length 4-5: one or two malformed patterns at random positions
	n := 150
	if thorough {
		n = 3000
	}
	for k := 0; k < n; k++ {
		ln := 4 + g.r.Intn(2)
		l := make([]string, ln)
		for i := range l {
			l[i] = hx.Pick(g.r, good)
		}
		l[g.r.Intn(ln)] = hx.Pick(g.r, bad)
		if g.r.Intn(3) == 0 {
			l[g.r.Intn(ln)] = hx.Pick(g.r, bad)
		}
		emit(l)
	}
}

// selects that climb with leading ".." segments (and "x/../.."), from packages
// at depth 1-3, with sibling packages, a file at the source root and a file just
// outside the source root in the fixture: a select never leaves its package
func (g *gen) climbingSelects() {
	tree := []string{"p/a.go", "p/q/b.go", "p/q/r/c.go", "p/qq/e.go", "pp/d.go", "top.go", "p/secret.txt"}
	tails := []string{"*", "*.go", "*/*.go", "pp/*.go", "qq/*", "q/*.go", "secret.txt", "src/top.go", "**", "p/**"}
	for _, pk := range []string{"p", "p/q", "p/q/r"} {
		for k := 1; k <= 4; k++ {
			up := strings.Repeat("../", k)
			for _, t := range tails {
				for _, sel := range []string{up + t, "x/../" + up + t, "./" + up + t, "/" + up + t} {
					g.fsetOp("fset", pk, tree, "s", nil, []string{sel}, nil, nil)
					g.fsetOp("fset", pk, tree, "s", []string{"a.go"}, []string{sel, "*"}, []string{"../*"}, nil)
					g.rep.Count("fset:climbing-select")
				}
			}
		}
		for _, sel := range []string{"..", "x/../..", "../..", "x/../../*", "q/../../*.go", "../../../secret.txt", "../../../../outside.txt"} {
			g.fsetOp("fset", pk, tree, "s", nil, []string{sel}, nil, nil)
			g.rep.Count("fset:climbing-select")
		}
	}
	for _, sel := range []string{"../pp/*.go", "../../secret.txt", "../top.go", "../*"} {
		t := append(append([]string{}, tree...), "p/BUILD.caco3")
		sort.Strings(t)
		g.fsetOp("build", "p", t, "zzset", nil, []string{sel, "*.go"}, nil, nil)
		g.rep.Count("build:climbing-select")
	}
}

// something already sits at the output path of the rule: a dangling symlink to
// outside the workspace, a symlink to an existing outside file, to a directory,
// to a place in the root, a FIFO; the build replaces it and writes nothing elsewhere
func (g *gen) staleOutputs() {
	tree := []string{"p/BUILD.caco3", "p/a.txt", "p/foo/b.txt"}
	for _, pre := range []string{"dangling", "file", "dir", "inside", "fifo"} {
		for _, name := range []string{"zzset", "sub/zz", "../../zz"} {
			o := &fsetOp{kind: "build", p: "p", tree: tree, name: name, sel: []string{"**"}, pre: pre}
			g.add(o.line(), true)
			g.rep.Count("build:stale-object-at-output:" + pre)
		}
		o := &fsetOp{kind: "build", p: "p", tree: tree, name: "zzset", files: []string{"a.txt"}, pre: pre}
		g.add(o.line(), true)
	}
}

// files named exactly like the built-in exclusions of recursive selects, with
// siblings sorting before and after them: only the excluded file is left out
func (g *gen) exclusionSiblings() {
	excl := []string{".gitignore", "COPYING", "tags", ".DS_Store", ".git"}
	sibs := []string{"-a", ".a", "A", "D", "a", "m", "u", "z", "~z"}
	for _, x := range excl {
		for _, where := range []string{"p/d", "p", "p/d/e"} {
			var t []string
			for _, s := range sibs {
				t = append(t, where+"/"+s)
			}
			if x == ".git" {
				t = append(t, where+"/.git/config") // a directory: skipped as a whole
			} else {
				t = append(t, where+"/"+x)
			}
			t = append(t, "p/zz/after.txt")
			sort.Strings(t)
			for _, sel := range []string{"**", "d/**", "d/e/**", "*", "d/*"} {
				g.fsetOp("fset", "p", t, "s", nil, []string{sel}, nil, nil)
			}
			for _, d := range []string{"p", "p/d", "p/d/e", ""} {
				g.add(fmt.Sprintf("walk tree=%s d=%s", hl(t), hs(d)), true)
			}
			g.rep.Count("fset+walk:excluded-name-with-siblings")
		}
	}
	// all of them in one directory
	t := []string{"p/d/.DS_Store", "p/d/.gitignore", "p/d/COPYING", "p/d/tags", "p/d/A", "p/d/a", "p/d/z", "p/d/.a", "p/d/x.caco3", "p/d/y"}
	sort.Strings(t)
	g.fsetOp("fset", "p", t, "s", nil, []string{"**"}, nil, nil)
	g.fsetOp("build", "p", append([]string{"p/BUILD.caco3"}, t...), "zzset", nil, []string{"d/**"}, nil, nil)
	g.add(fmt.Sprintf("walk tree=%s d=%s", hl(t), hs("p/d")), true)
}

// names that start with a dot (.env, .ci/x, ..data, ...) at the top level of the
// source and output trees: as sources, in selects, as rule names / outputs, as
// sub-build directories
func (g *gen) dotNames() {
	names := []string{".env", ".ci/x", "..data", "...", ".a/.b", "..a/b", "a/.b", ".e", "..", ".", ".../x", "./.env", "/.env", "//..data"}
	for _, n := range names {
		for _, d := range []string{"/r/src", "/r/out"} {
			g.add(fmt.Sprintf("dfp d=%s ps=%s", hs(d), hl([]string{n})), true)
			g.add(fmt.Sprintf("dfp d=%s ps=%s", hs(d), hl([]string{"", n})), true)
			g.add(fmt.Sprintf("dfp d=%s ps=%s", hs(d), hl([]string{n, "BUILD.caco3"})), true)
			g.add(fmt.Sprintf("dfp d=%s ps=%s", hs(d), hl([]string{"p", n})), true)
		}
		for _, p := range []string{"", "p", ".p", "..p/q"} {
			g.add(fmt.Sprintf("rel p=%s f=%s", hs(p), hs(n)), true)
			g.add(fmt.Sprintf("mk p=%s f=%s", hs(p), hs(n)), true)
			g.add(fmt.Sprintf("subdirs p=%s dirs=%s", hs(p), hl([]string{n})), true)
		}
		g.rep.Count("dot-names:paths")
	}
	for _, p := range []string{"", "p", "p/q", ".p"} {
		for _, dirs := range [][]string{{"q"}, {"q", "r"}, {".", "", "x/.."}, {"../q", "/q", "q/r", ".q"}, nil} {
			g.add(fmt.Sprintf("subdirs p=%s dirs=%s", hs(p), hl(dirs)), true)
			g.rep.Count("subdirs")
		}
	}
	tree := []string{"...", "..data", ".ci/x", ".e2", ".env", "ci/x", "data", "env", "p/.env", "p/env"}
	sels := []string{".e*", ".*", "**", ".ci/*", ".ci/**", "..d*", "*", "...", ".env", "p/.e*", "*/.e*"}
	for _, sel := range sels {
		g.fsetOp("fset", "", tree, "s", nil, []string{sel}, nil, nil)
		g.fsetOp("fset", "", tree, ".ci/zz", []string{".env"}, []string{sel}, []string{".e2", ".ci/"}, nil)
		g.fsetOp("fset", "p", tree, "s", nil, []string{strings.TrimPrefix(sel, "p/")}, nil, nil)
		g.add(fmt.Sprintf("glob tree=%s pat=%s", hl(tree), hs(caco3.VerifMakeRelPath("", sel))), true)
		g.rep.Count("dot-names:file-sets")
	}
	for _, d := range []string{"", ".ci", "p", "..data"} {
		g.add(fmt.Sprintf("walk tree=%s d=%s", hl(tree), hs(d)), true)
	}
	for _, name := range []string{"zz", ".ci/zz", "..zz", ".zz"} {
		g.fsetOp("build", "", tree, name, []string{".env", "..data"}, []string{".e*"}, nil, nil)
		g.fsetOp("build", "", tree, name, nil, []string{".ci/**", "..."}, nil, nil)
		g.rep.Count("dot-names:builds")
	}
}

// file sets that include two and three other file sets, each with two or more files
func (g *gen) includedSets() {
	tree := []string{"p/BUILD.caco3", "p/a1.txt", "p/a2.txt", "p/b1.txt", "p/b2.txt", "p/c1.txt", "p/c2.txt", "p/c3.txt", "p/own.txt"}
	enc := func(sets [][]string) string {
		if len(sets) == 0 {
			return "."
		}
		var xs []string
		for _, l := range sets {
			if len(l) == 0 {
				xs = append(xs, ".")
				continue
			}
			var ys []string
			for _, f := range l {
				ys = append(ys, hs(f))
			}
			xs = append(xs, strings.Join(ys, "+"))
		}
		return strings.Join(xs, ";")
	}
	A, B, C := []string{"a1.txt", "a2.txt"}, []string{"b1.txt", "b2.txt"}, []string{"c1.txt", "c2.txt", "c3.txt"}
	combos := [][][]string{{A}, {A, B}, {B, A}, {A, B, C}, {C, A, B}, {A, A}, {A, {"a2.txt", "b1.txt"}}, {C, {"c3.txt"}}, {{"a1.txt"}, B}, {A, nil, B}, nil,
		{{"./a1.txt", "../p/a2.txt"}, {"/p/b1.txt", "b2.txt"}}}
	for _, sets := range combos {
		for _, files := range [][]string{nil, {"own.txt"}, {"a1.txt", "own.txt"}} {
			g.add(fmt.Sprintf("buildinc p=%s tree=%s sets=%s files=%s", hs("p"), hl(tree), enc(sets), hl(files)), true)
			g.rep.Count("buildinc:included-file-sets")
		}
	}
}

// docker_build rules (loaded, not executed): names with .., ./ and absolute-looking
// names, with and without a Dockerfile field; every dependency stays inside src
func (g *gen) dockerBuilds() {
	const p = "shanhu.io/proj/dockers"
	tree := []string{p + "/BUILD.caco3", p + "/img/Dockerfile", p + "/img2/Dockerfile", p + "/Dockerfile", p + "/other/df", "shanhu.io/proj/Dockerfile"}
	names := []string{"img", "./img", "img/", "../img", "../../img", "../../../img", "../../../../img", "../../../../../img", "/img", "x/../img",
		"img2", "a/../../img", "/../../img", "nofile", ".", "img/sub"}
	dfs := []string{"", "img/Dockerfile", "Dockerfile", "../Dockerfile", "../../../../Dockerfile", "/Dockerfile", "other/df", "/shanhu.io/proj/Dockerfile", "nosuch"}
	for _, n := range names {
		for _, df := range dfs {
			if df != "" && n != "img" && n != "../../../../img" {
				continue
			}
			g.add(fmt.Sprintf("dbuild p=%s tree=%s name=%s df=%s", hs(p), hl(tree), hs(n), hs(df)), true)
			g.rep.Count("dbuild:docker_build-names")
		}
	}
	for _, pk := range []string{"a/b/x-dockers", "a/dockers"} {
		t := []string{pk + "/BUILD.caco3", pk + "/img/Dockerfile"}
		for _, n := range []string{"img", "../img", "../../../../img", "../../../img/x"} {
			g.add(fmt.Sprintf("dbuild p=%s tree=%s name=%s df=-", hs(pk), hl(t), hs(n)), true)
		}
	}
}

// rule names that resolve to the package itself (".", "..", "x/..", "/", "./",
// "a/../..", "") in packages at depth 0-2: such a rule has no name
func (g *gen) unnamedRules() {
	for _, pk := range []string{"", "p", "p/q"} {
		tree := []string{"a.txt"}
		if pk != "" {
			tree = []string{pk + "/BUILD.caco3", pk + "/a.txt", "p/z.txt"}
		}
		sort.Strings(tree)
		for _, name := range []string{".", "..", "x/..", "/", "./", "a/../..", "", "../..", "//", "x", "./x", "../x"} {
			g.fsetOp("build", pk, tree, name, nil, []string{"**"}, nil, nil)
			g.fsetOp("build", pk, tree, name, []string{"a.txt"}, nil, nil, nil)
			g.rep.Count("build:names-resolving-to-the-package")
		}
	}
}

// two Builds on one Builder with sources added and removed in between
func (g *gen) rebuilds(n int) {
	const p = "p"
	pool := []string{"p/a.txt", "p/b.txt", "p/foo/c.txt", "p/foo/d.txt", "p/foo/deep/e.txt", "p/new/f.txt", "p/foo.txt"}
	sels := [][]string{{"**"}, {"foo/**"}, {"*"}, {"*.txt", "foo/**"}, {"foo/*"}, {"**", "foo/**"}}
	pick := func() []string {
		t := []string{"p/BUILD.caco3", "p/keep.txt", "p/foo/keep.txt"}
		for _, f := range pool {
			if g.r.Bool() {
				t = append(t, f)
			}
		}
		sort.Strings(t)
		return t
	}
	add := func(t1, t2, sel, ign []string) {
		o := &fsetOp{kind: "rebuild", p: p, tree: t1, tree2: t2, name: "zzset", sel: sel, ign: ign}
		g.add(o.line(), true)
		g.rep.Count("rebuild:sources-changed-between-builds")
	}
	base := []string{"p/BUILD.caco3", "p/a.txt", "p/foo/c.txt", "p/foo/keep.txt", "p/keep.txt"}
	for _, sel := range sels {
		add(base, append(append([]string{}, base...), "p/foo/new.txt", "p/new.txt"), sel, nil) // added
		add(base, []string{"p/BUILD.caco3", "p/foo/keep.txt", "p/keep.txt"}, sel, nil)          // removed
		add(base, base, sel, nil)                                                                // unchanged
		add(base, []string{"p/BUILD.caco3", "p/a.txt", "p/foo/keep.txt", "p/foo/other.txt", "p/keep.txt"}, sel, []string{"foo/k*"})
	}
	for i := 0; i < n; i++ {
		var ign []string
		if g.r.Intn(3) == 0 {
			ign = []string{hx.Pick(g.r, []string{"foo/", "*.txt", "foo/deep/", "a.txt"})}
		}
		add(pick(), pick(), hx.Pick(g.r, sels), ign)
	}
}

func main() {
	log.SetOutput(io.Discard)
	f := hx.ParseFlags()
	rep := hx.NewReport("C12", f)
	rep.Rule = "op lines: clean/join/rel/mk/dfp on every name of <= N segments over {a, b, ., .., empty} (leading, trailing, repeated slashes) x package paths, " +
		"path.Match/filepath.Match on every pattern x name over small alphabets, glob/walk/fset on every consistent tree over " +
		"{foo, foo.txt, foobar/x, foo/bar, foo/b.txt, a.txt, sub/tags, sub/.git/c, sub/y.caco3} x select x ignore, real builds; " +
		"distinct = distinct op line; non-trivial = the name has an empty, '.', '..' segment or is absolute / the tree is not empty and a select or ignore is present"
	work := f.Work
	if work == "" {
		d, err := os.MkdirTemp("", "verif-c12-")
		if err != nil {
			fmt.Println(err)
			os.Exit(3)
		}
		work = d
		defer os.RemoveAll(d)
	}
	work = filepath.Join(work, "c12scratch")
	os.MkdirAll(work, 0o755)
	defer os.RemoveAll(work)
	c := &ctx{rep: rep, j: hx.NewJournal(f.Work), work: work, shrunk: map[string]int{}}

	var ops []string
	if f.Replay != "" {
		var err error
		ops, err = hx.ReadReplayOps(f.Replay)
		if err != nil {
			fmt.Println("replay:", err)
			os.Exit(3)
		}
		for _, op := range ops {
			rep.Case(op, true)
		}
	} else {
		g := &gen{r: hx.NewRand(f.Seed), rep: rep, seen: map[string]bool{}}
		for _, cops := range hx.CorpusOps("C12") {
			for _, op := range cops {
				g.add(op, true)
				rep.Count("corpus")
			}
		}
		if f.Thorough() {
			g.pathOps(5, true)
			g.randomPathOps(20000)
			g.matchOps(4, 100000)
			g.treeOps(true, 1200)
			g.malformedIgnores(true)
			g.climbingSelects()
			g.unnamedRules()
			g.rebuilds(600)
			g.staleOutputs()
			g.exclusionSiblings()
			g.dotNames()
			g.includedSets()
			g.dockerBuilds()
		} else {
			g.pathOps(4, false)
			g.randomPathOps(2000)
			g.matchOps(3, 8000)
			g.treeOps(false, 120)
			g.malformedIgnores(false)
			g.climbingSelects()
			g.unnamedRules()
			g.rebuilds(40)
			g.staleOutputs()
			g.exclusionSiblings()
			g.dotNames()
			g.includedSets()
			g.dockerBuilds()
		}
		rep.Exhaustive = true
		ops = g.ops
	}

	impl := make([]string, len(ops))
	for i, op := range ops {
		impl[i] = c.runOp(op)
	}
	c.dropTree()
	c.j.Clear()

	model, err := hx.RunDriver(f.Driver, nil, ops)
	if err != nil {
		rep.Note("driver failed: %v", err)
		rep.ModelAvailable = false
	} else if model != nil {
		rep.Diff("paths", ops, impl, model)
	}
	for i := 0; i < len(ops); i += 1 + len(ops)/11 {
		rep.Sample(map[string]string{"op": ops[i], "impl": impl[i]})
	}
	rep.Write(f.Out)
}
