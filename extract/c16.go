package main

// Gen/Creds.lean: the facts the C16 model and theorems depend on, read from
// signer, jwt, identity, roles, timeutil and signin/authgate on every run:
// constants (timestampLen, grace period, passCodeMaxTries, window/buffer and
// default lifetimes, algorithm and key-type strings) and the shape of the
// comparisons whose exact form the property pins (length check, expiry
// test, window test, header pinning, canonical re-encoding, attempt counter
// persistence).

import (
	"fmt"
	"go/ast"
	"go/token"
	"sort"
	"strconv"
	"strings"
)

func init() {
	register("Creds", genCreds)
	trackedFuncs["C16"] = []tracked{
		{"signer", "", "New"}, {"signer", "Signer", "hash"}, {"signer", "Signer", "Sign"}, {"signer", "Signer", "SignHex"},
		{"signer", "Signer", "Check"}, {"signer", "Signer", "CheckHex"}, {"signer", "Signer", "CheckJSON"},
		{"signer", "Signer", "CheckChallenge"},
		{"signer", "Sessions", "New"}, {"signer", "Sessions", "Check"}, {"signer", "", "NewSessions"},
		{"signer", "", "refreshTTL"}, {"signer", "Sessions", "NeedRefresh"},
		{"signer", "", "signTime"}, {"signer", "", "NewTimeSigner"}, {"signer", "TimeSigner", "Check"},
		{"signer", "", "inWindow"}, {"signer", "", "now"}, {"signer", "RSATimeSigner", "Check"},
		{"signer", "", "NewRSATimeSigner"},
		{"jwt", "", "Decode"}, {"jwt", "", "Verify"}, {"jwt", "", "DecodeAndVerify"}, {"jwt", "", "CheckTime"},
		{"jwt", "", "CheckClaimSet"}, {"jwt", "", "checkHeader"}, {"jwt", "HS256", "Verify"},
		{"jwt", "HS256", "mac"}, {"jwt", "", "decodeSegmentBytes"}, {"jwt", "", "decodeSegment"},
		{"jwt", "", "decodeClaimSet"},
		{"identity", "jwtVerifier", "Verify"}, {"identity", "", "publicKeyValid"},
		{"identity", "", "publicKeyFromCard"}, {"identity", "", "FindPublicKey"},
		{"identity", "", "VerifySelfToken"},
		{"roles", "", "checkPassCode"}, {"roles", "Roles", "NewPassCode"}, {"roles", "Roles", "SetupWithCode"},
		{"roles", "Roles", "mutate"}, {"roles", "Roles", "setDisabled"}, {"roles", "Roles", "SetPassCodeExpiry"},
		{"roles", "passCode", "public"}, {"roles", "", "subtleStringEq"},
		{"jwt", "", "encodeSegmentBytes"}, {"identity", "Identity", "Identity"},
		{"timeutil", "", "NewTimestamp"}, {"timeutil", "Timestamp", "Time"},
		{"signin/authgate", "", "New"}, {"signin/authgate", "Gate", "CheckToken"}, {"signin/authgate", "Gate", "Token"},
		{"pisces", "KV", "Mutate"}, {"pisces", "memKV", "mutate"},
	}
}

var c16DurEnv = map[string]int64{
	"time.Nanosecond": 1, "time.Microsecond": 1e3, "time.Millisecond": 1e6, "time.Second": 1e9,
	"time.Minute": 60e9, "time.Hour": 3600e9,
}

// c16Eval evaluates integer / duration constant expressions with selectors.
func c16Eval(e ast.Expr, env map[string]int64) (int64, bool) {
	switch x := e.(type) {
	case *ast.BasicLit:
		if x.Kind == token.INT {
			v, err := strconv.ParseInt(x.Value, 0, 64)
			return v, err == nil
		}
	case *ast.Ident:
		v, ok := env[x.Name]
		return v, ok
	case *ast.SelectorExpr:
		if id, ok := x.X.(*ast.Ident); ok {
			v, ok := env[id.Name+"."+x.Sel.Name]
			return v, ok
		}
	case *ast.ParenExpr:
		return c16Eval(x.X, env)
	case *ast.UnaryExpr:
		v, ok := c16Eval(x.X, env)
		if ok && x.Op == token.SUB {
			return -v, true
		}
		if ok && x.Op == token.ADD {
			return v, true
		}
	case *ast.BinaryExpr:
		a, ok1 := c16Eval(x.X, env)
		b, ok2 := c16Eval(x.Y, env)
		if !ok1 || !ok2 {
			return 0, false
		}
		switch x.Op {
		case token.ADD:
			return a + b, true
		case token.SUB:
			return a - b, true
		case token.MUL:
			return a * b, true
		case token.QUO:
			if b != 0 {
				return a / b, true
			}
		}
	case *ast.CallExpr: // conversions such as time.Duration(0)
		if len(x.Args) == 1 {
			return c16Eval(x.Args[0], env)
		}
	}
	return 0, false
}

// c16Consts evaluates the package-level and function-local constant
// declarations of a package (integers/durations and strings).
func c16Consts(p *pkg, prefix string, env map[string]int64, strs map[string]string) {
	var names []string
	for n := range p.files {
		names = append(names, n)
	}
	sort.Strings(names)
	for pass := 0; pass < 3; pass++ {
		for _, n := range names {
			ast.Inspect(p.files[n], func(nd ast.Node) bool {
				gd, ok := nd.(*ast.GenDecl)
				if !ok || gd.Tok != token.CONST {
					return true
				}
				for _, s := range gd.Specs {
					vs := s.(*ast.ValueSpec)
					for i, nm := range vs.Names {
						if i >= len(vs.Values) {
							continue
						}
						if bl, ok := vs.Values[i].(*ast.BasicLit); ok && bl.Kind == token.STRING {
							if sv, err := strconv.Unquote(bl.Value); err == nil {
								strs[nm.Name] = sv
								strs[prefix+"."+nm.Name] = sv
							}
							continue
						}
						if v, ok := c16Eval(vs.Values[i], env); ok {
							env[nm.Name] = v
							env[prefix+"."+nm.Name] = v
						}
					}
				}
				return true
			})
		}
	}
}

func c16Find(n ast.Node, f func(ast.Node) bool) bool {
	found := false
	ast.Inspect(n, func(x ast.Node) bool {
		if found || x == nil {
			return false
		}
		if f(x) {
			found = true
			return false
		}
		return true
	})
	return found
}

func c16IsCall(e ast.Expr, recv, name string) (*ast.CallExpr, bool) {
	c, ok := e.(*ast.CallExpr)
	if !ok {
		return nil, false
	}
	switch f := c.Fun.(type) {
	case *ast.SelectorExpr:
		if f.Sel.Name != name {
			return nil, false
		}
		if recv == "*" {
			return c, true
		}
		if id, ok := f.X.(*ast.Ident); ok && id.Name == recv {
			return c, true
		}
	case *ast.Ident:
		if recv == "" && f.Name == name {
			return c, true
		}
	}
	return nil, false
}

// c16ReencodeCompare: the body compares the result of a call to enc (e.g.
// hex.EncodeToString, encodeSegmentBytes) with something, using == or !=.
func c16ReencodeCompare(body ast.Node, encs ...string) bool {
	return c16Find(body, func(x ast.Node) bool {
		be, ok := x.(*ast.BinaryExpr)
		if !ok || (be.Op != token.NEQ && be.Op != token.EQL) {
			return false
		}
		for _, side := range []ast.Expr{be.X, be.Y} {
			for _, enc := range encs {
				if _, ok := c16IsCall(side, "*", enc); ok {
					return true
				}
				if _, ok := c16IsCall(side, "", enc); ok {
					return true
				}
			}
		}
		return false
	})
}

func leanBool(b bool) string {
	if b {
		return "true"
	}
	return "false"
}

func genCreds(repo string, fs facts) (string, error) {
	load := func(dir string) (*pkg, error) {
		p, err := loadPkg(repo, dir)
		if err != nil {
			return nil, fmt.Errorf("load %s: %v", dir, err)
		}
		return p, nil
	}
	sg, err := load("signer")
	if err != nil {
		return "", err
	}
	jw, err := load("jwt")
	if err != nil {
		return "", err
	}
	idp, err := load("identity")
	if err != nil {
		return "", err
	}
	rl, err := load("roles")
	if err != nil {
		return "", err
	}
	tu, err := load("timeutil")
	if err != nil {
		return "", err
	}
	ag, err := load("signin/authgate")
	if err != nil {
		return "", err
	}

	env := map[string]int64{}
	for k, v := range c16DurEnv {
		env[k] = v
	}
	strs := map[string]string{}
	c16Consts(tu, "timeutil", env, strs)
	c16Consts(sg, "signer", env, strs)
	c16Consts(jw, "jwt", env, strs)
	c16Consts(idp, "identity", env, strs)
	c16Consts(rl, "roles", env, strs)

	// A fact that cannot be read (renamed constant, rewritten function) falls
	// back to the golden value the model was written against and is listed in
	// facts["creds_fallback"]; the correspondence run is then the tie for it.
	var misses []string
	miss := func(f string, a ...interface{}) { misses = append(misses, fmt.Sprintf(f, a...)) }
	need := func(p *pkg, recv, name string) (*ast.FuncDecl, error) {
		fd := p.fn(recv, name)
		if fd == nil || fd.Body == nil {
			miss("%s: function %s.%s not found", p.dir, recv, name)
			return &ast.FuncDecl{Name: ast.NewIdent(name), Type: &ast.FuncType{Params: &ast.FieldList{}}, Body: &ast.BlockStmt{}}, nil
		}
		return fd, nil
	}
	out := map[string]interface{}{}

	// ---- signer ----
	tsLen, ok := env["signer.timestampLen"]
	if !ok {
		miss("signer: constant timestampLen not found")
		tsLen = 8
	}
	out["timestampLen"] = tsLen

	chk, err := need(sg, "Signer", "Check")
	if err != nil {
		return "", err
	}
	lenOp, macSize := "", int64(-1)
	ast.Inspect(chk.Body, func(x ast.Node) bool {
		is, ok := x.(*ast.IfStmt)
		if !ok || lenOp != "" {
			return true
		}
		be, ok := is.Cond.(*ast.BinaryExpr)
		if !ok {
			return true
		}
		if id, ok := be.X.(*ast.Ident); ok && id.Name == "n" {
			rhs := sg.src(be.Y)
			switch rhs {
			case "sha256.Size":
				macSize = 32
			default:
				if v, ok := c16Eval(be.Y, env); ok {
					macSize = v
				}
			}
			lenOp = be.Op.String()
		}
		return true
	})
	if lenOp == "" || macSize < 0 {
		miss("signer.Signer.Check: length test `n < sha256.Size` not found")
		lenOp, macSize = "<", 32
	}
	// every slice bound must use the same size expression
	sameSize := true
	ast.Inspect(chk.Body, func(x ast.Node) bool {
		se, ok := x.(*ast.SliceExpr)
		if !ok {
			return true
		}
		for _, b := range []ast.Expr{se.Low, se.High} {
			if b != nil && sg.src(b) != "n-sha256.Size" && sg.src(b) != "n - sha256.Size" {
				sameSize = false
			}
		}
		return true
	})
	macFull := c16Find(chk.Body, func(x ast.Node) bool {
		c, ok := c16IsCall(asExpr(x), "hmac", "Equal")
		if !ok || len(c.Args) != 2 {
			return false
		}
		_, a := c.Args[0].(*ast.Ident)
		_, b := c.Args[1].(*ast.Ident)
		return a && b
	})
	hashFn, err := need(sg, "Signer", "hash")
	if err != nil {
		return "", err
	}
	macIsHmacSha256 := strings.Contains(sg.src(hashFn.Body), "hmac.New(sha256.New, s.key)")
	out["macSize"] = macSize
	out["checkLenOp"] = lenOp
	out["macSplitConsistent"] = sameSize
	out["macCompareFull"] = macFull
	out["macIsHmacSha256"] = macIsHmacSha256

	// Verification must be a function of (key, token) alone: the objects shared
	// between concurrent requests (Signer, and with it Sessions, TimeSigner,
	// Gate; HS256) must not carry a hash/HMAC state that calls mutate.
	holdsState := func(p *pkg, typ string) (bool, []string) {
		var fields []string
		bad := false
		for _, f := range p.files {
			ast.Inspect(f, func(x ast.Node) bool {
				ts, ok := x.(*ast.TypeSpec)
				if !ok || ts.Name.Name != typ {
					return true
				}
				st, ok := ts.Type.(*ast.StructType)
				if !ok {
					return true
				}
				for _, fl := range st.Fields.List {
					t := p.src(fl.Type)
					for _, n := range fl.Names {
						fields = append(fields, n.Name+" "+t)
					}
					if strings.Contains(t, "hash.") || strings.Contains(t, "hmac.") || strings.Contains(t, "sha256.") ||
						strings.Contains(t, "bytes.Buffer") {
						bad = true
					}
				}
				return true
			})
		}
		sort.Strings(fields)
		return bad, fields
	}
	b1, f1 := holdsState(sg, "Signer")
	b2, f2 := holdsState(jw, "HS256")
	out["signerFields"] = f1
	out["hs256Fields"] = f2
	out["verifierHoldsHashState"] = b1 || b2 || (len(f1) > 0 && !macIsHmacSha256 && strings.Contains(sg.src(hashFn.Body), "Reset()"))

	chx, err := need(sg, "Signer", "CheckHex")
	if err != nil {
		return "", err
	}
	out["hexCanonical"] = c16ReencodeCompare(chx.Body, "EncodeToString")

	snew, err := need(sg, "Sessions", "New")
	if err != nil {
		return "", err
	}
	ttlCapped := c16Find(snew.Body, func(x ast.Node) bool {
		is, ok := x.(*ast.IfStmt)
		if !ok {
			return false
		}
		c := strings.ReplaceAll(sg.src(is.Cond), " ", "")
		return c == "ttl<=0||ttl>s.ttl" && strings.Contains(sg.src(is.Body), "ttl = s.ttl")
	})
	out["ttlCapped"] = ttlCapped

	schk, err := need(sg, "Sessions", "Check")
	if err != nil {
		return "", err
	}
	var sessConds []string
	ast.Inspect(schk.Body, func(x ast.Node) bool {
		if is, ok := x.(*ast.IfStmt); ok {
			sessConds = append(sessConds, sg.src(is.Cond))
		}
		return true
	})
	rejectAtExpiry := false
	for _, c := range sessConds {
		if strings.ReplaceAll(c, " ", "") == "!timeNow.Before(expire)" {
			rejectAtExpiry = true
		}
	}
	out["sessionConds"] = sessConds
	out["sessionRejectAtExpiry"] = rejectAtExpiry

	inw, err := need(sg, "", "inWindow")
	if err != nil {
		return "", err
	}
	inwSrc := strings.Join(strings.Fields(sg.src(inw.Body)), " ")
	out["inWindowBody"] = inwSrc
	out["windowStrict"] = strings.Contains(inwSrc, "tstart := tnow.Add(-w)") &&
		strings.Contains(inwSrc, "tend := tnow.Add(w)") &&
		strings.Contains(inwSrc, "return t.After(tstart) && t.Before(tend)")

	tchk, err := need(sg, "TimeSigner", "Check")
	if err != nil {
		return "", err
	}
	out["timeTokenExactLen"] = c16Find(tchk.Body, func(x ast.Node) bool {
		is, ok := x.(*ast.IfStmt)
		return ok && strings.ReplaceAll(sg.src(is.Cond), " ", "") == "len(bs)!=timestampLen"
	})

	// ---- jwt ----
	ct, err := need(jw, "", "CheckTime")
	if err != nil {
		return "", err
	}
	shift, haveShift := int64(0), false
	ast.Inspect(ct.Body, func(x ast.Node) bool {
		as, ok := x.(*ast.AssignStmt)
		if !ok || len(as.Lhs) != 1 || len(as.Rhs) != 1 {
			return true
		}
		if id, ok := as.Lhs[0].(*ast.Ident); !ok || id.Name != "issued" {
			return true
		}
		if c, ok := c16IsCall(as.Rhs[0], "*", "Add"); ok && len(c.Args) == 1 {
			if v, ok := c16Eval(c.Args[0], env); ok {
				shift, haveShift = v, true
			}
		} else if _, ok := c16IsCall(as.Rhs[0], "time", "Unix"); ok {
			shift, haveShift = 0, true
		}
		return true
	})
	if !haveShift {
		miss("jwt.CheckTime: `issued := time.Unix(claims.Iat, 0).Add(...)` not found")
		shift = -300e9
	}
	var ctConds []string
	ast.Inspect(ct.Body, func(x ast.Node) bool {
		if is, ok := x.(*ast.IfStmt); ok {
			ctConds = append(ctConds, strings.ReplaceAll(jw.src(is.Cond), " ", ""))
		}
		return true
	})
	out["jwtIssuedShiftNs"] = shift
	out["jwtTimeConds"] = ctConds
	out["jwtTimeCondsAsModelled"] = len(ctConds) == 2 && ctConds[0] == "!issued.Before(now)" && ctConds[1] == "now.After(expires)"

	ch, err := need(jw, "", "checkHeader")
	if err != nil {
		return "", err
	}
	var pinned []string
	ast.Inspect(ch.Body, func(x ast.Node) bool {
		is, ok := x.(*ast.IfStmt)
		if !ok {
			return true
		}
		be, ok := is.Cond.(*ast.BinaryExpr)
		if !ok || be.Op != token.NEQ {
			return true
		}
		a, ok1 := be.X.(*ast.SelectorExpr)
		b, ok2 := be.Y.(*ast.SelectorExpr)
		if ok1 && ok2 && a.Sel.Name == b.Sel.Name && jw.src(a.X) == "got" && jw.src(b.X) == "want" {
			// the branch must refuse
			if c16Find(is.Body, func(y ast.Node) bool { _, r := y.(*ast.ReturnStmt); return r }) {
				pinned = append(pinned, a.Sel.Name)
			}
		}
		return true
	})
	sort.Strings(pinned)
	out["headerPinned"] = pinned

	hsv, err := need(jw, "HS256", "Verify")
	if err != nil {
		return "", err
	}
	out["hs256ChecksHeader"] = c16Find(hsv.Body, func(x ast.Node) bool {
		_, ok := c16IsCall(asExpr(x), "", "checkHeader")
		return ok
	})
	out["hs256MacCompareFull"] = c16Find(hsv.Body, func(x ast.Node) bool {
		c, ok := c16IsCall(asExpr(x), "hmac", "Equal")
		if !ok || len(c.Args) != 2 {
			return false
		}
		_, a := c.Args[0].(*ast.Ident)
		_, b := c.Args[1].(*ast.Ident)
		return a && b
	})

	dsb, err := need(jw, "", "decodeSegmentBytes")
	if err != nil {
		return "", err
	}
	out["b64Canonical"] = c16ReencodeCompare(dsb.Body, "EncodeToString", "encodeSegmentBytes")

	for _, k := range []string{"AlgRS256", "AlgHS256", "DefaultType"} {
		v, ok := strs["jwt."+k]
		if !ok {
			miss("jwt: string constant %s not found", k)
			v = map[string]string{"AlgRS256": "RS256", "AlgHS256": "HS256", "DefaultType": "JWT"}[k]
		}
		out[k] = v
	}

	// ---- identity ----
	for _, k := range []string{"rsaKeyType", "Self"} {
		v, ok := strs["identity."+k]
		if !ok {
			miss("identity: string constant %s not found", k)
			v = map[string]string{"rsaKeyType": "ssh-rsa", "Self": "."}[k]
		}
		out[k] = v
	}
	pkv, err := need(idp, "", "publicKeyValid")
	if err != nil {
		return "", err
	}
	var pkConds []string
	ast.Inspect(pkv.Body, func(x ast.Node) bool {
		if is, ok := x.(*ast.IfStmt); ok {
			pkConds = append(pkConds, strings.ReplaceAll(idp.src(is.Cond), " ", ""))
		}
		return true
	})
	out["keyValidConds"] = pkConds
	out["keyValidAsModelled"] = len(pkConds) == 3 && pkConds[0] == "k.NotValidBefore>0" &&
		pkConds[1] == "now.Before(time.Unix(k.NotValidBefore,0))" && pkConds[2] == "now.After(time.Unix(k.NotValidAfter,0))"

	// ---- roles ----
	maxTries, ok := env["roles.passCodeMaxTries"]
	if !ok {
		miss("roles: constant passCodeMaxTries not found")
		maxTries = 10
	}
	out["passCodeMaxTries"] = maxTries
	cpc, err := need(rl, "", "checkPassCode")
	if err != nil {
		return "", err
	}
	rejectFrom := int64(-1)
	ast.Inspect(cpc.Body, func(x ast.Node) bool {
		is, ok := x.(*ast.IfStmt)
		if !ok {
			return true
		}
		be, ok := is.Cond.(*ast.BinaryExpr)
		if !ok || rl.src(be.X) != "code.Tried" {
			return true
		}
		v, ok := c16Eval(be.Y, env)
		if !ok {
			return true
		}
		switch be.Op {
		case token.GTR:
			rejectFrom = v + 1
		case token.GEQ:
			rejectFrom = v
		}
		return true
	})
	if rejectFrom < 0 {
		miss("roles.checkPassCode: test of code.Tried against the limit not found")
		rejectFrom = 11
	}
	out["triesRejectFrom"] = rejectFrom
	var pcConds []string
	ast.Inspect(cpc.Body, func(x ast.Node) bool {
		if is, ok := x.(*ast.IfStmt); ok {
			pcConds = append(pcConds, strings.ReplaceAll(rl.src(is.Cond), " ", ""))
		}
		return true
	})
	out["passCodeConds"] = pcConds
	hasCond := func(c string) bool {
		for _, x := range pcConds {
			if x == c {
				return true
			}
		}
		return false
	}
	out["passCodeWindowAsModelled"] = hasCond("now.Before(valid)") && hasCond("now.After(expire)") && hasCond("code.Consumed")

	swc, err := need(rl, "Roles", "SetupWithCode")
	if err != nil {
		return "", err
	}
	swcSrc := rl.src(swc.Body)
	out["consumedSet"] = strings.Contains(swcSrc, "r.PassCode.Consumed = true")
	out["triedCounted"] = strings.Contains(swcSrc, "r.PassCode.Tried++")
	// Does a failed check leave the callback with an error (nothing stored)?
	persist := false
	foundCheck := false
	ast.Inspect(swc.Body, func(x ast.Node) bool {
		is, ok := x.(*ast.IfStmt)
		if !ok || is.Init == nil {
			return true
		}
		as, ok := is.Init.(*ast.AssignStmt)
		if !ok || len(as.Rhs) != 1 {
			return true
		}
		if _, ok := c16IsCall(as.Rhs[0], "", "checkPassCode"); !ok {
			return true
		}
		foundCheck = true
		// last statement of the branch
		if n := len(is.Body.List); n > 0 {
			if rs, ok := is.Body.List[n-1].(*ast.ReturnStmt); ok && len(rs.Results) == 1 {
				if id, ok := rs.Results[0].(*ast.Ident); ok && id.Name == "nil" {
					persist = true
				}
			}
		}
		return true
	})
	if !foundCheck {
		miss("roles.Roles.SetupWithCode: `if err := checkPassCode(...)` not found")
		persist = true
	}
	out["persistTries"] = persist

	// Every mutation of a role record is one KV.Mutate (the store's atomic
	// read-modify-write), not a Get followed by a Set.
	rmu, err := need(rl, "Roles", "mutate")
	if err != nil {
		return "", err
	}
	viaMutate := c16Find(rmu.Body, func(x ast.Node) bool {
		c, ok := x.(*ast.CallExpr)
		if !ok {
			return false
		}
		se, ok := c.Fun.(*ast.SelectorExpr)
		return ok && se.Sel.Name == "Mutate" && rl.src(se.X) == "b.t"
	})
	separateStore := c16Find(rmu.Body, func(x ast.Node) bool {
		c, ok := x.(*ast.CallExpr)
		if !ok {
			return false
		}
		se, ok := c.Fun.(*ast.SelectorExpr)
		return ok && (se.Sel.Name == "Set" || se.Sel.Name == "Replace" || se.Sel.Name == "Emplace") && rl.src(se.X) == "b.t"
	})
	if len(rmu.Body.List) == 0 {
		viaMutate, separateStore = true, false // fallback (already listed as a miss)
	}
	out["rolesMutateAtomic"] = viaMutate && !separateStore
	callers := 0
	for _, name := range []string{"setDisabled", "NewPassCode", "SetupWithCode"} {
		if fd := rl.fn("Roles", name); fd != nil && fd.Body != nil {
			if c16Find(fd.Body, func(x ast.Node) bool {
				c, ok := x.(*ast.CallExpr)
				if !ok {
					return false
				}
				se, ok := c.Fun.(*ast.SelectorExpr)
				return ok && se.Sel.Name == "mutate" && rl.src(se.X) == "b"
			}) {
				callers++
			}
		}
	}
	out["rolesMutators"] = callers

	npc, err := need(rl, "Roles", "NewPassCode")
	if err != nil {
		return "", err
	}
	buf, ok := env["buffer"]
	if !ok || !strings.Contains(rl.src(npc.Body), "now.Add(-buffer)") {
		miss("roles.Roles.NewPassCode: `const buffer` / `now.Add(-buffer)` not found")
		buf = 60e9
	}
	out["passCodeBufferNs"] = buf
	nwn, err := need(rl, "", "NewWithName")
	if err != nil {
		return "", err
	}
	defExp, haveDef := int64(0), false
	ast.Inspect(nwn.Body, func(x ast.Node) bool {
		kv, ok := x.(*ast.KeyValueExpr)
		if !ok {
			return true
		}
		if id, ok := kv.Key.(*ast.Ident); ok && id.Name == "passCodeExpiry" {
			if v, ok := c16Eval(kv.Value, env); ok {
				defExp, haveDef = v, true
			}
		}
		return true
	})
	if !haveDef {
		miss("roles.NewWithName: default passCodeExpiry not found")
		defExp = 600e9
	}
	out["passCodeDefaultExpiryNs"] = defExp

	// ---- gate ----
	gn, err := need(ag, "", "New")
	if err != nil {
		return "", err
	}
	week, haveWeek := int64(0), false
	ast.Inspect(gn.Body, func(x ast.Node) bool {
		is, ok := x.(*ast.IfStmt)
		if !ok || strings.ReplaceAll(ag.src(is.Cond), " ", "") != "sessionLifeTime<=0" {
			return true
		}
		for _, st := range is.Body.List {
			if as, ok := st.(*ast.AssignStmt); ok && len(as.Rhs) == 1 {
				if v, ok := c16Eval(as.Rhs[0], env); ok {
					week, haveWeek = v, true
				}
			}
		}
		return true
	})
	if !haveWeek {
		miss("authgate.New: default session lifetime not found")
		week = 7 * 24 * 3600e9
	}
	out["gateDefaultLifetimeNs"] = week

	fs["creds"] = out
	if len(misses) > 0 {
		fs["creds_fallback"] = misses
	}

	var b strings.Builder
	b.WriteString("namespace PubModel.Gen.Creds\n\n")
	nat := func(name, doc string) {
		fmt.Fprintf(&b, "/-- %s -/\ndef %s : Nat := %d\n", doc, name, out[name])
	}
	itg := func(name, doc string) {
		v := out[name].(int64)
		if v < 0 {
			fmt.Fprintf(&b, "/-- %s -/\ndef %s : Int := -%d\n", doc, name, -v)
		} else {
			fmt.Fprintf(&b, "/-- %s -/\ndef %s : Int := %d\n", doc, name, v)
		}
	}
	bl := func(name, doc string) {
		fmt.Fprintf(&b, "/-- %s -/\ndef %s : Bool := %s\n", doc, name, leanBool(out[name].(bool)))
	}
	str := func(name, doc string) {
		fmt.Fprintf(&b, "/-- %s -/\ndef %s : String := %s\n", doc, name, leanStr(out[name].(string)))
	}
	nat("timestampLen", "signer: const timestampLen")
	nat("macSize", "signer.Signer.Check: the size compared with and split off (sha256.Size = 32)")
	str("checkLenOp", "signer.Signer.Check: `n <op> size` refuses")
	bl("macSplitConsistent", "signer.Signer.Check: data and MAC are cut at n - sha256.Size")
	bl("macCompareFull", "signer.Signer.Check: hmac.Equal on the two whole slices")
	bl("macIsHmacSha256", "signer.Signer.hash: hmac.New(sha256.New, s.key)")
	bl("verifierHoldsHashState", "signer.Signer or jwt.HS256 keeps a hash/HMAC state in a field (shared by concurrent verifications)")
	bl("hexCanonical", "signer.Signer.CheckHex compares the re-encoded bytes with the presented text")
	bl("ttlCapped", "signer.Sessions.New: `if ttl <= 0 || ttl > s.ttl { ttl = s.ttl }`")
	bl("sessionRejectAtExpiry", "signer.Sessions.Check: refuses when `!timeNow.Before(expire)`")
	bl("windowStrict", "signer.inWindow: t.After(tnow.Add(-w)) && t.Before(tnow.Add(w))")
	bl("timeTokenExactLen", "signer.TimeSigner.Check: `len(bs) != timestampLen` refuses")
	itg("jwtIssuedShiftNs", "jwt.CheckTime: what is added to iat before comparing with now")
	bl("jwtTimeCondsAsModelled", "jwt.CheckTime refuses on `!issued.Before(now)` and on `now.After(expires)`")
	fmt.Fprintf(&b, "/-- jwt.checkHeader: fields whose mismatch refuses -/\ndef headerPinned : List String := [%s]\n",
		strings.Join(mapStr(pinned, leanStr), ", "))
	bl("hs256ChecksHeader", "jwt.HS256.Verify calls checkHeader")
	bl("hs256MacCompareFull", "jwt.HS256.Verify: hmac.Equal on the two whole slices")
	bl("b64Canonical", "jwt.decodeSegmentBytes compares the re-encoded bytes with the presented text")
	str("AlgRS256", "jwt.AlgRS256")
	str("AlgHS256", "jwt.AlgHS256")
	str("DefaultType", "jwt.DefaultType")
	str("rsaKeyType", "identity.rsaKeyType")
	str("Self", "identity.Self")
	bl("keyValidAsModelled", "identity.publicKeyValid: NotValidBefore > 0 && now.Before(nvb) refuses; now.After(nva) refuses")
	nat("passCodeMaxTries", "roles: const passCodeMaxTries")
	nat("triesRejectFrom", "roles.checkPassCode: smallest value of Tried that is refused")
	bl("passCodeWindowAsModelled", "roles.checkPassCode: consumed, now.Before(valid), now.After(expire) refuse")
	bl("consumedSet", "roles.SetupWithCode sets Consumed on success")
	bl("triedCounted", "roles.SetupWithCode increments Tried before checking")
	bl("persistTries", "roles.SetupWithCode: a failed check does not abort the Mutate (the counter is stored)")
	bl("rolesMutateAtomic", "roles.Roles.mutate runs the callback inside b.t.Mutate and does no separate store")
	itg("passCodeBufferNs", "roles.NewPassCode: const buffer")
	itg("passCodeDefaultExpiryNs", "roles.NewWithName: default passCodeExpiry")
	itg("gateDefaultLifetimeNs", "authgate.New: lifetime when SessionLifeTime <= 0")
	b.WriteString("\nend PubModel.Gen.Creds\n")
	return b.String(), nil
}

func asExpr(n ast.Node) ast.Expr {
	if e, ok := n.(ast.Expr); ok {
		return e
	}
	return nil
}

func mapStr(xs []string, f func(string) string) []string {
	var out []string
	for _, x := range xs {
		out = append(out, f(x))
	}
	return out
}
