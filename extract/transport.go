package main

import (
	"fmt"
	"go/ast"
	"go/token"
	"strings"
)

// Gen/Transport.lean: which variant of the transport the source is (the model
// has one flag `fx`; it is true only if every repaired piece is present) and
// the queue capacities.

func init() {
	register("Transport", genTransport)
	trackedFuncs["C03"] = []tracked{
		{"sniproxy", "transport", "serve"}, {"sniproxy", "transport", "handleMessage"},
		{"sniproxy", "transport", "asyncCall"}, {"sniproxy", "transport", "call"},
		{"sniproxy", "transport", "serveRead"}, {"sniproxy", "", "newCallExchange"},
		{"sniproxy", "", "sendExchangeReq"}, {"sniproxy", "", "newTransport"},
	}
	trackedFuncs["C04"] = []tracked{
		{"sniproxy", "transport", "serve"}, {"sniproxy", "transport", "handleMessage"},
		{"sniproxy", "transport", "asyncCall"}, {"sniproxy", "transport", "call"},
		{"sniproxy", "transport", "shutdown"}, {"sniproxy", "transport", "startShutdown"},
		{"sniproxy", "endpointClient", "Close"}, {"sniproxy", "Server", "ServeBackName"},
		{"sniproxy", "Endpoint", "Accept"}, {"sniproxy", "Endpoint", "Close"},
		{"sniproxy", "Endpoint", "sendAccept"}, {"sniproxy", "endpointServer", "serve"},
		{"sniproxy", "endpointServer", "cleanup"}, {"sniproxy", "proxy", "serve"},
		{"sniproxy", "proxy", "hostConn"}, {"netutil", "", "JoinConn"},
		{"sniproxy", "tunnel", "Read"}, {"sniproxy", "tunnel", "Write"}, {"sniproxy", "tunnel", "Close"},
	}
}

func selectHas(p *pkg, sel *ast.SelectStmt, want string) bool {
	for _, c := range sel.Body.List {
		cc := c.(*ast.CommClause)
		if cc.Comm != nil && strings.Contains(p.src(cc.Comm), want) {
			return true
		}
	}
	return false
}

func genTransport(repo string, fs facts) (string, error) {
	p, err := loadPkg(repo, "sniproxy")
	if err != nil {
		return "", err
	}
	need := func(recv, name string) (*ast.FuncDecl, error) {
		fd := p.fn(recv, name)
		if fd == nil {
			return nil, fmt.Errorf("%s.%s not found", recv, name)
		}
		return fd, nil
	}
	serve, err := need("transport", "serve")
	if err != nil {
		return "", err
	}
	async, err := need("transport", "asyncCall")
	if err != nil {
		return "", err
	}
	call, err := need("transport", "call")
	if err != nil {
		return "", err
	}
	hm, err := need("transport", "handleMessage")
	if err != nil {
		return "", err
	}
	nt, err := need("", "newTransport")
	if err != nil {
		return "", err
	}

	sendErrReported := false
	ast.Inspect(serve, func(n ast.Node) bool {
		is, ok := n.(*ast.IfStmt)
		if !ok || is.Init == nil || !strings.Contains(p.src(is.Init), "tr.send(c)") {
			return true
		}
		for _, st := range is.Body.List {
			if as, ok := st.(*ast.AssignStmt); ok && p.src(as.Lhs[0]) == "c.err" && p.src(as.Rhs[0]) == "err" {
				sendErrReported = true
			}
		}
		return true
	})
	enqueueSel := false
	ast.Inspect(async, func(n ast.Node) bool {
		if sel, ok := n.(*ast.SelectStmt); ok && selectHas(p, sel, "tr.calls <-") && selectHas(p, sel, "<-tr.serveDone") {
			enqueueSel = true
		}
		return true
	})
	callSel := false
	ast.Inspect(call, func(n ast.Node) bool {
		if sel, ok := n.(*ast.SelectStmt); ok && selectHas(p, sel, "<-done") && selectHas(p, sel, "<-tr.serveDone") {
			callSel = true
		}
		return true
	})
	// handleMessage: the fetch send and the fetch receive both sit in selects with a serveDone arm
	fetchSendSel, fetchRecvSel, bareSend, bareRecv := false, false, false, false
	ast.Inspect(hm, func(n ast.Node) bool {
		switch x := n.(type) {
		case *ast.SelectStmt:
			if selectHas(p, x, "tr.pendingFetch <-") && selectHas(p, x, "<-tr.serveDone") {
				fetchSendSel = true
			}
			if selectHas(p, x, "<-ch") && selectHas(p, x, "<-tr.serveDone") {
				fetchRecvSel = true
			}
			return false
		case *ast.SendStmt:
			if strings.Contains(p.src(x), "tr.pendingFetch <-") {
				bareSend = true
			}
		case *ast.UnaryExpr:
			if x.Op == token.ARROW && p.src(x.X) == "ch" {
				bareRecv = true
			}
		}
		return true
	})
	mistypedCompletes := false
	ast.Inspect(hm, func(n ast.Node) bool {
		is, ok := n.(*ast.IfStmt)
		if !ok || !strings.Contains(p.src(is.Cond), "ex.typ != typ") {
			return true
		}
		for _, st := range is.Body.List {
			if strings.Contains(p.src(st), "ex.done()") {
				mistypedCompletes = true
			}
		}
		return true
	})
	callsCap, fetchCap := int64(-1), int64(-1)
	ast.Inspect(nt, func(n ast.Node) bool {
		kv, ok := n.(*ast.KeyValueExpr)
		if !ok {
			return true
		}
		if c, ok := kv.Value.(*ast.CallExpr); ok && len(c.Args) == 2 {
			if id, ok := c.Fun.(*ast.Ident); ok && id.Name == "make" {
				if v, ok := evalInt(c.Args[1], 0, nil); ok {
					switch p.src(kv.Key) {
					case "calls":
						callsCap = v
					case "pendingFetch":
						fetchCap = v
					}
				}
			}
		}
		return true
	})
	if callsCap < 0 || fetchCap < 0 {
		return "", fmt.Errorf("newTransport: channel capacities not found")
	}
	readerSel := fetchSendSel && fetchRecvSel && !bareSend && !bareRecv
	fx := sendErrReported && enqueueSel && callSel && readerSel && mistypedCompletes
	var b strings.Builder
	b.WriteString("namespace PubModel.Gen.Transport\n\n")
	fmt.Fprintf(&b, "/-- serve: a failed request write sets the call's error before completing it -/\ndef sendErrReported : Bool := %v\n", sendErrReported)
	fmt.Fprintf(&b, "/-- asyncCall: the enqueue select has a `<-tr.serveDone` arm -/\ndef enqueueSelectsServeDone : Bool := %v\n", enqueueSel)
	fmt.Fprintf(&b, "/-- call: the wait select has a `<-tr.serveDone` arm -/\ndef callSelectsServeDone : Bool := %v\n", callSel)
	fmt.Fprintf(&b, "/-- handleMessage: fetch send and fetch receive both select on `<-tr.serveDone` -/\ndef readerSelectsServeDone : Bool := %v\n", readerSel)
	fmt.Fprintf(&b, "/-- handleMessage: a reply of the wrong type completes (fails) its call -/\ndef mistypedCompletes : Bool := %v\n", mistypedCompletes)
	b.WriteString("/-- the model's variant flag: the repaired transport needs every piece -/\n")
	b.WriteString("def fx : Bool := sendErrReported && enqueueSelectsServeDone && callSelectsServeDone && readerSelectsServeDone && mistypedCompletes\n")
	fmt.Fprintf(&b, "def callsCap : Nat := %d\ndef fetchCap : Nat := %d\n", callsCap, fetchCap)
	b.WriteString("\nend PubModel.Gen.Transport\n")
	fs["transport.fx"] = fx
	fs["transport.callsCap"] = callsCap
	return b.String(), nil
}
