package main

import (
	"fmt"
	"go/ast"
	"strings"
)

// Gen/Registry.lean: shape facts about Server.upgrade / unmap / ServeBackName.

func init() {
	register("Registry", genRegistry)
	trackedFuncs["C15"] = []tracked{
		{"sniproxy", "Server", "upgrade"}, {"sniproxy", "Server", "unmap"},
		{"sniproxy", "Server", "endpoint"}, {"sniproxy", "Server", "ServeBackName"},
		{"sniproxy", "endpointClient", "Close"},
	}
}

func genRegistry(repo string, fs facts) (string, error) {
	p, err := loadPkg(repo, "sniproxy")
	if err != nil {
		return "", err
	}
	unmap := p.fn("Server", "unmap")
	upgrade := p.fn("Server", "upgrade")
	sbn := p.fn("Server", "ServeBackName")
	if unmap == nil || upgrade == nil || sbn == nil {
		return "", fmt.Errorf("Server.unmap/upgrade/ServeBackName not found")
	}
	// unmap: every delete(s.endpoints, …) sits inside `if s.endpoints[name] == ep`
	cond := true
	sawDelete := false
	var walk func(n ast.Node, guarded bool)
	walk = func(n ast.Node, guarded bool) {
		ast.Inspect(n, func(m ast.Node) bool {
			switch x := m.(type) {
			case *ast.IfStmt:
				g := guarded || strings.ReplaceAll(p.src(x.Cond), " ", "") == "s.endpoints[name]==ep"
				walk(x.Body, g)
				if x.Else != nil {
					walk(x.Else, guarded)
				}
				return false
			case *ast.CallExpr:
				if id, ok := x.Fun.(*ast.Ident); ok && id.Name == "delete" && strings.Contains(p.src(x), "s.endpoints") {
					sawDelete = true
					if !guarded {
						cond = false
					}
				}
			}
			return true
		})
	}
	walk(unmap.Body, false)
	locked := func(fd *ast.FuncDecl) bool {
		// s.mu.Lock() and defer s.mu.Unlock() appear before the first use of s.endpoints
		lockPos, unlockPos, usePos := -1, -1, -1
		for i, st := range fd.Body.List {
			src := p.src(st)
			if lockPos < 0 && strings.Contains(src, "s.mu.Lock()") {
				lockPos = i
			}
			if unlockPos < 0 && strings.HasPrefix(src, "defer s.mu.Unlock()") {
				unlockPos = i
			}
			if usePos < 0 && strings.Contains(src, "s.endpoints") {
				usePos = i
			}
		}
		return lockPos >= 0 && unlockPos >= 0 && usePos > lockPos && usePos > unlockPos
	}
	unmapCond := cond && sawDelete && locked(unmap)
	upgradeLocked := locked(upgrade)
	// ServeBackName: a deferred func with s.unmap(name, ep) then ep.Close(); a deferred onDisconnect
	// registered after the onConnect call
	deferUnmap, deferDisc, connectPos, discPos := false, false, -1, -1
	for i, st := range sbn.Body.List {
		src := p.src(st)
		if ds, ok := st.(*ast.DeferStmt); ok {
			d := p.src(ds)
			if strings.Contains(d, "s.unmap(name, ep)") && strings.Contains(d, "ep.Close()") &&
				strings.Index(d, "s.unmap(name, ep)") < strings.Index(d, "ep.Close()") {
				deferUnmap = true
			}
			if strings.Contains(d, "s.onDisconnect(name, session)") {
				deferDisc = true
				discPos = i
			}
		}
		if strings.Contains(src, "s.onConnect(name)") && connectPos < 0 {
			connectPos = i
		}
	}
	defers := deferUnmap && deferDisc && connectPos >= 0 && discPos > connectPos
	var b strings.Builder
	b.WriteString("namespace PubModel.Gen.Registry\n\n")
	fmt.Fprintf(&b, "/-- unmap deletes only inside `if s.endpoints[name] == ep`, under the lock -/\ndef unmapConditional : Bool := %v\n", unmapCond)
	fmt.Fprintf(&b, "/-- upgrade does its kick + map inside one critical section -/\ndef upgradeUnderLock : Bool := %v\n", upgradeLocked)
	fmt.Fprintf(&b, "/-- ServeBackName defers unmap-then-Close and, after OnConnect, OnDisconnect(name, session) -/\ndef defersUnmapAndDisconnect : Bool := %v\n", defers)
	b.WriteString("\nend PubModel.Gen.Registry\n")
	fs["registry.unmapConditional"] = unmapCond
	return b.String(), nil
}
