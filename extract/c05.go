package main

import (
	"fmt"
	"go/ast"
	"go/token"
	"regexp"
	"sort"
	"strconv"
	"strings"
)

// Gen/Pisces.lean (C05): the data part of the pisces KV backends.
//
//   - MaxKeyLen and the comparison kvMapKey applies to it;
//   - per backend method of sqlite3KV and psqlKV: the SQL statement texts (the
//     string literals handed to fmt.Sprintf, concatenated) and the argument
//     lists of the X/Q/Q1 calls that bind them;
//   - whether memKV.replace updates an existing entry in place (keeps its class);
//   - whether the SQL paths of SetBytes/AppendBytes map a nil slice to an empty one.
//
// The Lean Sql model was written against the golden texts in
// PubModel/C05/Golden.lean; a textual difference is reported (facts, driver
// `meta` line) and escalates the differential run through the function hashes,
// it is not a failure by itself.

func init() {
	register("Pisces", genPisces)
	kvMethods := []string{"mapKey", "Clear", "AddClass", "SetClass", "Add", "Remove", "GetBytes", "Get", "Has", "Emplace",
		"Replace", "AppendBytes", "SetBytes", "Set", "Mutate", "Count", "Walk", "WalkClass", "WalkPartial", "WalkPartialClass"}
	var ts []tracked
	for _, m := range kvMethods {
		ts = append(ts, tracked{"pisces", "KV", m})
	}
	for _, m := range backendMethods {
		ts = append(ts, tracked{"pisces", "memKV", m}, tracked{"pisces", "sqlite3KV", m}, tracked{"pisces", "psqlKV", m})
	}
	for _, m := range []string{"keys", "classKeys", "walkKeys"} {
		ts = append(ts, tracked{"pisces", "memKV", m})
	}
	for _, m := range []string{"setBytes", "bytes", "appendBytes"} {
		ts = append(ts, tracked{"pisces", "memEntry", m})
	}
	for _, m := range []string{"kvMapKey", "keyHash", "newMemEntry", "sortKeys", "partialKeys", "sqlResError", "sqlIterRows", "sqlOrderStr"} {
		ts = append(ts, tracked{"pisces", "", m})
	}
	ts = append(ts, tracked{"pisces", "Iter", "doWalk"})
	trackedFuncs["C05"] = ts
}

var backendMethods = []string{"clear", "add", "get", "has", "set", "setClass", "mutate", "remove", "emplace", "replace",
	"appendBytes", "walk", "walkClass", "walkPartial", "walkPartialClass", "count"}

// strConcat evaluates "a" + `b` + ... of string literals.
func strConcat(e ast.Expr) (string, bool) {
	switch x := e.(type) {
	case *ast.BasicLit:
		if x.Kind != token.STRING {
			return "", false
		}
		s, err := strconv.Unquote(x.Value)
		return s, err == nil
	case *ast.ParenExpr:
		return strConcat(x.X)
	case *ast.BinaryExpr:
		if x.Op != token.ADD {
			return "", false
		}
		a, ok1 := strConcat(x.X)
		b, ok2 := strConcat(x.Y)
		return a + b, ok1 && ok2
	}
	return "", false
}

type sqlMethod struct {
	texts []string   // statement texts, in source order
	binds [][]string // arguments after the query of every X/Q/Q1 call, as source text
	tx    []string   // transaction calls in source order: Begin, Rollback(defer), Commit
}

func sqlFacts(p *pkg, recv, name string) (*sqlMethod, error) {
	fd := p.fn(recv, name)
	if fd == nil {
		return nil, fmt.Errorf("%s.%s not found", recv, name)
	}
	m := &sqlMethod{}
	ast.Inspect(fd.Body, func(n ast.Node) bool {
		c, ok := n.(*ast.CallExpr)
		if !ok {
			return true
		}
		sel, ok := c.Fun.(*ast.SelectorExpr)
		if !ok {
			return true
		}
		switch sel.Sel.Name {
		case "Sprintf":
			if id, ok := sel.X.(*ast.Ident); ok && id.Name == "fmt" && len(c.Args) > 0 {
				if s, ok := strConcat(c.Args[0]); ok {
					// format arguments other than the table name are part of the text
					var extra []string
					for _, a := range c.Args[1:] {
						extra = append(extra, p.src(a))
					}
					m.texts = append(m.texts, s+" <- "+strings.Join(extra, ", "))
				} else {
					m.texts = append(m.texts, "?unparsed "+p.src(c.Args[0]))
				}
			}
		case "X", "Q", "Q1":
			var as []string
			as = append(as, p.src(sel.X)+"."+sel.Sel.Name)
			for _, a := range c.Args[1:] {
				as = append(as, p.src(a))
			}
			m.binds = append(m.binds, as)
		case "Begin", "Commit", "Rollback":
			m.tx = append(m.tx, sel.Sel.Name)
		}
		return true
	})
	if len(m.texts) == 0 {
		return nil, fmt.Errorf("%s.%s: no SQL text found", recv, name)
	}
	return m, nil
}

var psqlPlaceholder = regexp.MustCompile(`\$[0-9]+`)

func leanStrList(xs []string) string {
	var ys []string
	for _, x := range xs {
		ys = append(ys, leanStr(x))
	}
	return "[" + strings.Join(ys, ", ") + "]"
}

// nilGuarded reports whether the []byte parameter of the method reaches the
// X call only through a function (or a preceding statement) that replaces nil
// by an empty slice.
func nilGuarded(p *pkg, recv, name string) (bool, error) {
	fd := p.fn(recv, name)
	if fd == nil {
		return false, fmt.Errorf("%s.%s not found", recv, name)
	}
	param := ""
	for _, f := range fd.Type.Params.List {
		if at, ok := f.Type.(*ast.ArrayType); ok && at.Len == nil {
			if id, ok := at.Elt.(*ast.Ident); ok && id.Name == "byte" && len(f.Names) == 1 {
				param = f.Names[0].Name
			}
		}
	}
	if param == "" {
		return false, fmt.Errorf("%s.%s: no []byte parameter", recv, name)
	}
	// shape 1: `if bs == nil { bs = []byte{} }` (or len(bs) == 0) before the call
	reassigned := false
	for _, st := range fd.Body.List {
		ifs, ok := st.(*ast.IfStmt)
		if !ok {
			continue
		}
		if !strings.Contains(p.src(ifs.Cond), param) {
			continue
		}
		for _, s2 := range ifs.Body.List {
			if as, ok := s2.(*ast.AssignStmt); ok && len(as.Lhs) == 1 && p.src(as.Lhs[0]) == param {
				reassigned = true
			}
		}
	}
	if reassigned {
		return true, nil
	}
	// shape 2: the argument is f(bs) where f returns a non-nil slice for nil
	guarded, bare := false, false
	ast.Inspect(fd.Body, func(n ast.Node) bool {
		c, ok := n.(*ast.CallExpr)
		if !ok {
			return true
		}
		sel, ok := c.Fun.(*ast.SelectorExpr)
		if !ok || sel.Sel.Name != "X" {
			return true
		}
		for _, a := range c.Args[1:] {
			if id, ok := a.(*ast.Ident); ok && id.Name == param {
				bare = true
			}
			if call, ok := a.(*ast.CallExpr); ok && len(call.Args) == 1 && p.src(call.Args[0]) == param {
				if fid, ok := call.Fun.(*ast.Ident); ok {
					if g := p.fn("", fid.Name); g != nil && strings.Contains(p.src(g.Body), "== nil") &&
						strings.Contains(p.src(g.Body), "[]byte{}") {
						guarded = true
					}
				}
			}
		}
		return true
	})
	return guarded && !bare, nil
}

func genPisces(repo string, fs facts) (string, error) {
	p, err := loadPkg(repo, "pisces")
	if err != nil {
		return "", err
	}
	consts := p.consts()
	maxKeyLen, ok := consts["MaxKeyLen"]
	if !ok {
		return "", fmt.Errorf("const MaxKeyLen not found")
	}
	// the comparison in kvMapKey
	mk := p.fn("", "kvMapKey")
	if mk == nil {
		return "", fmt.Errorf("kvMapKey not found")
	}
	cmpOp, cmpRhs, cmpLhs := "", "", ""
	ast.Inspect(mk.Body, func(n ast.Node) bool {
		if be, ok := n.(*ast.BinaryExpr); ok && cmpOp == "" {
			switch be.Op {
			case token.GTR, token.GEQ, token.LSS, token.LEQ, token.EQL, token.NEQ:
				cmpOp, cmpLhs, cmpRhs = be.Op.String(), p.src(be.X), p.src(be.Y)
			}
		}
		return true
	})
	if cmpOp == "" {
		return "", fmt.Errorf("kvMapKey: no length comparison found")
	}
	limit := int64(-1)
	if v, ok := consts[cmpRhs]; ok {
		limit = v
	} else if v, err := strconv.ParseInt(cmpRhs, 0, 64); err == nil {
		limit = v
	}

	// memKV.replace: does it update an existing entry in place?
	rep := p.fn("memKV", "replace")
	if rep == nil {
		return "", fmt.Errorf("memKV.replace not found")
	}
	keeps := false
	ast.Inspect(rep.Body, func(n ast.Node) bool {
		if c, ok := n.(*ast.CallExpr); ok {
			if sel, ok := c.Fun.(*ast.SelectorExpr); ok && sel.Sel.Name == "setBytes" {
				keeps = true
			}
		}
		return true
	})

	guard := true
	guardDetail := map[string]bool{}
	for _, rm := range [][2]string{{"sqlite3KV", "set"}, {"sqlite3KV", "appendBytes"}, {"psqlKV", "set"}, {"psqlKV", "appendBytes"}} {
		g, err := nilGuarded(p, rm[0], rm[1])
		if err != nil {
			return "", err
		}
		guardDetail[rm[0]+"."+rm[1]] = g
		if !g && rm[0] == "sqlite3KV" {
			guard = false
		}
	}

	var b strings.Builder
	b.WriteString("namespace PubModel.Gen.Pisces\n\n")
	fmt.Fprintf(&b, "/-- `const MaxKeyLen` -/\ndef maxKeyLen : Nat := %d\n\n", maxKeyLen)
	fmt.Fprintf(&b, "/-- the test in `kvMapKey` that rejects a key: `%s %s %s` -/\n", cmpLhs, cmpOp, cmpRhs)
	fmt.Fprintf(&b, "def keyLenLhs : String := %s\ndef keyLenOp : String := %s\ndef keyLenLimit : Int := %d\n\n", leanStr(cmpLhs), leanStr(cmpOp), limit)
	fmt.Fprintf(&b, "/-- `memKV.replace` updates the bytes of an existing entry (keeps its class) -/\ndef memReplaceKeeps : Bool := %v\n\n", keeps)
	fmt.Fprintf(&b, "/-- `sqlite3KV.set` and `sqlite3KV.appendBytes` bind a nil slice as an empty blob -/\ndef sqlNilGuard : Bool := %v\n\n", guard)
	fmt.Fprintf(&b, "/-- the same for `psqlKV` -/\ndef psqlNilGuard : Bool := %v\n\n", guardDetail["psqlKV.set"] && guardDetail["psqlKV.appendBytes"])

	all := map[string]map[string]*sqlMethod{}
	for _, recv := range []string{"sqlite3KV", "psqlKV"} {
		all[recv] = map[string]*sqlMethod{}
		for _, m := range backendMethods {
			sm, err := sqlFacts(p, recv, m)
			if err != nil {
				return "", err
			}
			all[recv][m] = sm
		}
	}
	emit := func(defName, recv string, norm bool) {
		fmt.Fprintf(&b, "def %s : List (String × List String × List (List String) × List String) := [\n", defName)
		for i, m := range backendMethods {
			sm := all[recv][m]
			texts := sm.texts
			binds := sm.binds
			if norm {
				texts = nil
				for _, t := range sm.texts {
					texts = append(texts, psqlPlaceholder.ReplaceAllString(t, "?"))
				}
			}
			var bl []string
			for _, bs := range binds {
				bl = append(bl, leanStrList(bs))
			}
			sep := ","
			if i == len(backendMethods)-1 {
				sep = ""
			}
			fmt.Fprintf(&b, "  (%s, %s, [%s], %s)%s\n", leanStr(m), leanStrList(texts), strings.Join(bl, ", "), leanStrList(sm.tx), sep)
		}
		b.WriteString("]\n\n")
	}
	b.WriteString("/-- method, statement texts (` <- ` separates the fmt arguments), bound arguments per call, transaction calls -/\n")
	emit("sqlite", "sqlite3KV", false)
	b.WriteString("/-- `psqlKV` with `$n` placeholders rewritten to `?` -/\n")
	emit("psqlNorm", "psqlKV", true)
	b.WriteString("end PubModel.Gen.Pisces\n")

	ff := map[string]interface{}{
		"maxKeyLen": maxKeyLen, "keyLenTest": cmpLhs + " " + cmpOp + " " + cmpRhs,
		"memReplaceKeeps": keeps, "nilGuard": guardDetail,
	}
	st := map[string][]string{}
	var diff []string
	for _, m := range backendMethods {
		st[m] = all["sqlite3KV"][m].texts
		var pn []string
		for _, t := range all["psqlKV"][m].texts {
			pn = append(pn, psqlPlaceholder.ReplaceAllString(t, "?"))
		}
		if strings.Join(pn, "\n") != strings.Join(st[m], "\n") {
			diff = append(diff, m)
		}
	}
	sort.Strings(diff)
	ff["sqliteTexts"] = st
	ff["psqlDiffersFromSqlite"] = diff
	fs["pisces"] = ff
	return b.String(), nil
}
