package main

import (
	"fmt"
	"go/ast"
	"go/token"
	"sort"
	"strconv"
	"strings"
)

// Gen/JsonxVal.lean: the data part of the JSONx value model (C07, C09):
// keyword set, operator set, what LexNumber accepts after e/E, how the
// printer gets and formats numbers, whether parseValue parses a float under a
// leading sign, whether encodeBasic converts Go-style integer literals.

func init() {
	register("JsonxVal", genJsonxVal)
	fns := []tracked{
		{"lexing", "", "LexNumber"}, {"lexing", "", "LexString"}, {"lexing", "", "lexEscape"},
		{"lexing", "", "digitVal"}, {"lexing", "", "LexRawString"}, {"lexing", "", "LexIdent"},
		{"lexing", "", "IsIdentLetter"}, {"lexing", "", "IsDigit"}, {"lexing", "", "IsLetter"},
		{"lexing", "", "IsHexDigit"}, {"lexing", "", "IsWhite"}, {"lexing", "", "LexComment"},
		{"lexing", "", "lexLineComment"}, {"lexing", "", "lexBlockComment"},
		{"lexing", "Lexer", "Token"}, {"lexing", "Lexer", "SkipWhite"}, {"lexing", "Keyworder", "Token"},
		{"lexing", "Remover", "Token"}, {"lexing", "Parser", "Errs"}, {"lexing", "Parser", "Shift"},
		{"jsonx", "", "lexOperator"}, {"jsonx", "", "lexJSONX"}, {"jsonx", "", "tokener"},
		{"jsonx", "semiInserter", "Token"}, {"jsonx", "", "newParser"},
		{"jsonx", "parser", "seeOp"}, {"jsonx", "parser", "expectOp"}, {"jsonx", "parser", "enterNested"},
		{"jsonx", "", "parseValue"}, {"jsonx", "", "parseObjectEntries"}, {"jsonx", "", "parseListEntries"},
		{"jsonx", "", "parseIdentList"}, {"jsonx", "", "parseStringValue"}, {"jsonx", "", "parseFloatValue"},
		{"jsonx", "", "encodeBasic"}, {"jsonx", "", "encodeObject"}, {"jsonx", "", "encodeList"},
		{"jsonx", "", "encodeIdentList"}, {"jsonx", "", "encodeValue"}, {"jsonx", "", "encodeJSON"},
		{"jsonx", "", "ToJSON"}, {"jsonx", "Decoder", "Decode"}, {"jsonx", "Decoder", "More"},
		{"jsonx", "", "unmarshalFile"},
	}
	printer := []tracked{
		{"jsonx", "printer", "write"}, {"jsonx", "printer", "writeString"}, {"jsonx", "printer", "writeArray"},
		{"jsonx", "printer", "writeArrayItems"}, {"jsonx", "printer", "writeObject"},
		{"jsonx", "printer", "writeObjectItems"}, {"jsonx", "", "isIdent"}, {"jsonx", "", "Fprint"},
		{"jsonx", "", "Marshal"}, {"fmtutil", "Printer", "Write"}, {"fmtutil", "Printer", "writeBytes"},
	}
	trackedFuncs["C07"] = append(append([]tracked{}, fns...), printer...)
	trackedFuncs["C09"] = append(append([]tracked{}, fns...), tracked{"jsonx", "", "ReadFile"})
}

func c07RuneLit(e ast.Expr) (rune, bool) {
	b, ok := e.(*ast.BasicLit)
	if !ok || b.Kind != token.CHAR {
		return 0, false
	}
	s, err := strconv.Unquote(b.Value)
	if err != nil {
		return 0, false
	}
	rs := []rune(s)
	if len(rs) != 1 {
		return 0, false
	}
	return rs[0], true
}

func c07LeanChars(rs []rune) string {
	var xs []string
	for _, r := range rs {
		xs = append(xs, fmt.Sprintf("Char.ofNat %d", r))
	}
	return "[" + strings.Join(xs, ", ") + "]"
}

func c07ContainsCall(n ast.Node, name string) bool {
	found := false
	ast.Inspect(n, func(x ast.Node) bool {
		c, ok := x.(*ast.CallExpr)
		if !ok {
			return true
		}
		switch f := c.Fun.(type) {
		case *ast.Ident:
			if f.Name == name {
				found = true
			}
		case *ast.SelectorExpr:
			if f.Sel.Name == name {
				found = true
			}
		}
		return true
	})
	return found
}

func genJsonxVal(repo string, fs facts) (string, error) {
	jx, err := loadPkg(repo, "jsonx")
	if err != nil {
		return "", err
	}
	lx, err := loadPkg(repo, "lexing")
	if err != nil {
		return "", err
	}

	// 1. keywords
	var keywords []string
	for _, f := range jx.files {
		for _, d := range f.Decls {
			gd, ok := d.(*ast.GenDecl)
			if !ok || gd.Tok != token.VAR {
				continue
			}
			for _, s := range gd.Specs {
				vs := s.(*ast.ValueSpec)
				if len(vs.Names) != 1 || vs.Names[0].Name != "keywords" || len(vs.Values) != 1 {
					continue
				}
				_, name, args, ok := callSel(vs.Values[0])
				if !ok || name != "KeywordSet" {
					return "", fmt.Errorf("keywords is not a lexing.KeywordSet(...) call")
				}
				for _, a := range args {
					b, ok := a.(*ast.BasicLit)
					if !ok || b.Kind != token.STRING {
						return "", fmt.Errorf("keywords: non-literal argument")
					}
					s, err := strconv.Unquote(b.Value)
					if err != nil {
						return "", err
					}
					keywords = append(keywords, s)
				}
			}
		}
	}
	if keywords == nil {
		return "", fmt.Errorf("var keywords not found")
	}

	// 2. operators: the case lists of lexOperator's switch
	var operators []rune
	hasComment, hasSemi := false, false
	fd := jx.fn("", "lexOperator")
	if fd == nil {
		return "", fmt.Errorf("lexOperator not found")
	}
	var sw *ast.SwitchStmt
	for _, st := range fd.Body.List {
		if s, ok := st.(*ast.SwitchStmt); ok {
			sw = s
		}
	}
	if sw == nil {
		return "", fmt.Errorf("lexOperator: no switch")
	}
	for _, st := range sw.Body.List {
		cc := st.(*ast.CaseClause)
		var rs []rune
		for _, e := range cc.List {
			r, ok := c07RuneLit(e)
			if !ok {
				return "", fmt.Errorf("lexOperator: case label %q is not a rune literal", jx.src(e))
			}
			rs = append(rs, r)
		}
		switch {
		case cc.List == nil: // default
			if len(cc.Body) != 1 || jx.src(cc.Body[0]) != "return nil" {
				return "", fmt.Errorf("lexOperator: default arm is not `return nil`")
			}
		case len(cc.Body) == 0:
			operators = append(operators, rs...)
		case c07ContainsCall(cc, "LexComment") && len(rs) == 1 && rs[0] == '/':
			hasComment = true
		case len(rs) == 1 && rs[0] == ';' && strings.Contains(jx.src(cc), "MakeToken(tokSemi)"):
			hasSemi = true
		default:
			return "", fmt.Errorf("lexOperator: unexpected arm %q", jx.src(cc))
		}
	}

	// 3. LexNumber: what follows e/E
	fd = lx.fn("", "LexNumber")
	if fd == nil {
		return "", fmt.Errorf("LexNumber not found")
	}
	var expSigns []rune
	foundExp := false
	ast.Inspect(fd, func(n ast.Node) bool {
		is, ok := n.(*ast.IfStmt)
		if !ok {
			return true
		}
		c := lx.src(is.Cond)
		if !(strings.Contains(c, "'e'") && strings.Contains(c, "'E'")) {
			return true
		}
		for _, st := range is.Body.List {
			in, ok := st.(*ast.IfStmt)
			if !ok || !c07ContainsCall(in.Cond, "IsDigit") {
				continue
			}
			foundExp = true
			ast.Inspect(in.Cond, func(m ast.Node) bool {
				be, ok := m.(*ast.BinaryExpr)
				if ok && be.Op == token.EQL {
					if r, ok := c07RuneLit(be.Y); ok {
						expSigns = append(expSigns, r)
					}
				}
				return true
			})
		}
		return false
	})
	if !foundExp {
		return "", fmt.Errorf("LexNumber: exponent branch not recognised")
	}

	// 4/5. printer
	fd = jx.fn("", "Fprint")
	if fd == nil {
		return "", fmt.Errorf("Fprint not found")
	}
	useNumberDec := c07ContainsCall(fd, "UseNumber")
	wr := jx.fn("printer", "write")
	if wr == nil {
		return "", fmt.Errorf("printer.write not found")
	}
	numberCase := false
	var fmtByte rune
	ast.Inspect(wr, func(n ast.Node) bool {
		switch x := n.(type) {
		case *ast.CaseClause:
			for _, e := range x.List {
				if jx.src(e) == "json.Number" {
					numberCase = true
				}
			}
		case *ast.CallExpr:
			if sel, ok := x.Fun.(*ast.SelectorExpr); ok && sel.Sel.Name == "FormatFloat" && len(x.Args) == 4 {
				if r, ok := c07RuneLit(x.Args[1]); ok {
					fmtByte = r
				}
			}
		}
		return true
	})
	if useNumberDec != numberCase {
		return "", fmt.Errorf("printer: UseNumber decoding (%v) and a json.Number arm (%v) do not go together", useNumberDec, numberCase)
	}
	if fmtByte == 0 {
		return "", fmt.Errorf("printer.write: FormatFloat call not recognised")
	}

	// 6. parseValue: float under a leading sign
	fd = jx.fn("", "parseValue")
	if fd == nil {
		return "", fmt.Errorf("parseValue not found")
	}
	signArm, signedFloat := false, false
	ast.Inspect(fd, func(n ast.Node) bool {
		cc, ok := n.(*ast.CaseClause)
		if !ok || len(cc.List) != 1 {
			return true
		}
		if jx.src(cc.List[0]) == `p.seeOp("+", "-")` {
			signArm = true
			for _, st := range cc.Body {
				if c07ContainsCall(st, "parseFloatValue") {
					signedFloat = true
				}
			}
		}
		return true
	})
	if !signArm {
		return "", fmt.Errorf("parseValue: sign arm not recognised")
	}

	// 7. encodeBasic: integer literals converted?
	fd = jx.fn("", "encodeBasic")
	if fd == nil {
		return "", fmt.Errorf("encodeBasic not found")
	}
	intArm, intConv := false, false
	ast.Inspect(fd, func(n ast.Node) bool {
		cc, ok := n.(*ast.CaseClause)
		if !ok {
			return true
		}
		for _, e := range cc.List {
			if jx.src(e) == "tokInt" && len(cc.List) == 1 {
				intArm = true
				if c07ContainsCall(cc, "SetString") {
					intConv = true
				}
			}
		}
		return true
	})
	if !intArm {
		return "", fmt.Errorf("encodeBasic: tokInt arm not recognised")
	}

	// 8. nesting limit of the recursive descent (const maxNestingDepth, checked by enterNested)
	depthLimit := "none"
	if v, ok := jx.consts()["maxNestingDepth"]; ok && jx.fn("parser", "enterNested") != nil {
		depthLimit = fmt.Sprintf("some %d", v)
	}

	// 9. the depth counter is balanced: p.depth++ only in enterNested, and every arm of
	// parseValue that enters a level also leaves it (p.depth--) exactly once
	depthOf := func(e ast.Expr) bool {
		sel, ok := e.(*ast.SelectorExpr)
		return ok && sel.Sel.Name == "depth"
	}
	countDepth := func(n ast.Node) (incs, decs, other int) {
		ast.Inspect(n, func(x ast.Node) bool {
			switch st := x.(type) {
			case *ast.IncDecStmt:
				if depthOf(st.X) {
					if st.Tok == token.INC {
						incs++
					} else {
						decs++
					}
				}
			case *ast.AssignStmt:
				for _, l := range st.Lhs {
					if depthOf(l) {
						other++
					}
				}
			}
			return true
		})
		return
	}
	depthBalanced, nestedArms := true, 0
	for _, f := range jx.funcs() {
		if f.Body == nil {
			continue
		}
		incs, decs, other := countDepth(f.Body)
		switch {
		case f.Name.Name == "enterNested" && recvName(f) == "parser":
			if incs != 1 || decs != 0 || other != 0 {
				depthBalanced = false
			}
		case f.Name.Name == "parseValue":
			if incs != 0 || other != 0 {
				depthBalanced = false
			}
			ast.Inspect(f.Body, func(x ast.Node) bool {
				cc, ok := x.(*ast.CaseClause)
				if !ok {
					return true
				}
				_, d, _ := countDepth(cc)
				enters := 0
				if c07ContainsCall(cc, "enterNested") {
					enters = 1
					nestedArms++
				}
				if d != enters {
					depthBalanced = false
				}
				return false
			})
		default:
			if incs != 0 || decs != 0 || other != 0 {
				depthBalanced = false
			}
		}
	}
	if (depthLimit == "none") != (nestedArms == 0) {
		depthBalanced = false
	}

	// 10. parseObjectEntries: which token types are admitted as an object key
	var keyTokens []string
	if fd := jx.fn("", "parseObjectEntries"); fd != nil {
		found := false
		ast.Inspect(fd, func(n ast.Node) bool {
			is, ok := n.(*ast.IfStmt)
			if !ok || found {
				return !found
			}
			un, ok := is.Cond.(*ast.UnaryExpr)
			if !ok || un.Op != token.NOT || !strings.Contains(jx.src(is.Body), "expectObjectEntry") {
				return true
			}
			found = true
			ast.Inspect(un.X, func(m ast.Node) bool {
				if c, ok := m.(*ast.CallExpr); ok {
					if sel, ok := c.Fun.(*ast.SelectorExpr); ok && sel.Sel.Name == "See" && len(c.Args) == 1 {
						keyTokens = append(keyTokens, jx.src(c.Args[0]))
					}
				}
				return true
			})
			return false
		})
		if !found {
			return "", fmt.Errorf("parseObjectEntries: key admission test not recognised")
		}
	} else {
		return "", fmt.Errorf("parseObjectEntries not found")
	}
	sort.Strings(keyTokens)

	var b strings.Builder
	b.WriteString("import PubModel.C07.Basic\nnamespace PubModel.Gen.JsonxVal\nopen PubModel.C07\n\n")
	var kw []string
	for _, k := range keywords {
		kw = append(kw, leanStr(k))
	}
	fmt.Fprintf(&b, "/-- jsonx/lex.go `var keywords` -/\ndef keywords : List String := [%s]\n\n", strings.Join(kw, ", "))
	fmt.Fprintf(&b, "/-- jsonx/lex.go lexOperator: runes of the plain-operator arm -/\ndef operators : List Char := %s\n\n", c07LeanChars(operators))
	fmt.Fprintf(&b, "/-- lexOperator has the `/` arm calling LexComment and the `;` arm making tokSemi -/\ndef commentArm : Bool := %v\ndef semiArm : Bool := %v\n\n", hasComment, hasSemi)
	fmt.Fprintf(&b, "/-- lexing/number.go LexNumber: runes other than digits consumed right after e/E -/\ndef expSigns : List Char := %s\n\n", c07LeanChars(expSigns))
	fmt.Fprintf(&b, "/-- jsonx/parse_value.go: the sign arm calls parseFloatValue -/\ndef signedFloat : Bool := %v\n\n", signedFloat)
	fmt.Fprintf(&b, "/-- jsonx/print.go: Fprint decodes with UseNumber and write has a json.Number arm -/\ndef useNumber : Bool := %v\n\n", useNumberDec)
	fmt.Fprintf(&b, "/-- jsonx/print.go: format byte of the FormatFloat call -/\ndef fmtByte : Char := Char.ofNat %d\n\n", fmtByte)
	fmt.Fprintf(&b, "/-- jsonx/encode.go encodeBasic: the tokInt arm converts with big.Int.SetString -/\ndef intConv : Bool := %v\n\n", intConv)
	fmt.Fprintf(&b, "/-- jsonx/parse_value.go: nesting of objects and lists beyond this is reported as jsonx.tooDeep -/\ndef maxNestingDepth : Option Nat := %s\n\n", depthLimit)
	fmt.Fprintf(&b, "/-- the nesting counter is balanced: incremented only by enterNested, and each of the %d arms of parseValue that enters a level decrements it exactly once -/\ndef depthBalanced : Bool := %v\n\n", nestedArms, depthBalanced)
	var kt []string
	for _, k := range keyTokens {
		kt = append(kt, leanStr(k))
	}
	fmt.Fprintf(&b, "/-- jsonx/parse_value.go parseObjectEntries: token types admitted as an object key (sorted) -/\ndef keyTokenTypes : List String := [%s]\n\n", strings.Join(kt, ", "))
	b.WriteString("def cfg : Cfg :=\n  { keywords := keywords.map String.toList, operators := operators, expSigns := expSigns,\n    signedFloat := signedFloat, useNumber := useNumber, fmtByte := fmtByte, intConv := intConv }\n\n")
	b.WriteString("end PubModel.Gen.JsonxVal\n")

	fs["jsonx.keywords"] = keywords
	fs["jsonx.operators"] = string(operators)
	fs["jsonx.expSigns"] = string(expSigns)
	fs["jsonx.signedFloat"] = signedFloat
	fs["jsonx.useNumber"] = useNumberDec
	fs["jsonx.fmtByte"] = string(fmtByte)
	fs["jsonx.intConv"] = intConv
	fs["jsonx.maxNestingDepth"] = depthLimit
	fs["jsonx.depthBalanced"] = depthBalanced
	fs["jsonx.keyTokenTypes"] = keyTokens
	return b.String(), nil
}
