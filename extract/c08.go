package main

import (
	"fmt"
	"go/ast"
	"go/token"
	"sort"
	"strconv"
	"strings"
)

// Gen/Jsonx.lean: the facts of lexing/jsonx/strtoken that the C08 model is
// parameterised by: the loop condition of Parser.SkipErrStmt (as an
// expression tree), the error cap, the separator parseSeries skips to, whether
// the entry loops break in error state, the exponent signs of LexNumber, the
// keyword set, the token type codes.
//
// The condition of SkipErrStmt and the error cap must be readable (else the
// Gen file fails to elaborate).  The other facts fall back to the values the
// model was written against when the source no longer has the expected shape;
// the fallback is recorded in facts["C08.fallback"], the tracked hashes
// escalate the harness, and the correspondence is then the tie.

func init() {
	register("Jsonx", genJsonx)
	trackedFuncs["C08"] = []tracked{
		{"lexing", "Parser", "Next"}, {"lexing", "Parser", "See"}, {"lexing", "Parser", "Accept"},
		{"lexing", "Parser", "Shift"}, {"lexing", "Parser", "Expect"}, {"lexing", "Parser", "InError"},
		{"lexing", "Parser", "BailOut"}, {"lexing", "Parser", "SkipErrStmt"}, {"lexing", "Parser", "Errs"},
		{"lexing", "", "NewParser"},
		{"lexing", "ErrorList", "Add"}, {"lexing", "ErrorList", "AddAll"}, {"lexing", "ErrorList", "BailOut"},
		{"lexing", "ErrorList", "Errs"}, {"lexing", "", "NewErrorList"},
		{"lexing", "Lexer", "Next"}, {"lexing", "Lexer", "SkipWhite"}, {"lexing", "Lexer", "MakeToken"},
		{"lexing", "Lexer", "Token"}, {"lexing", "Lexer", "Errs"}, {"lexing", "Lexer", "Ended"},
		{"lexing", "", "NewLexer"},
		{"lexing", "lexScanner", "next"}, {"lexing", "lexScanner", "accept"},
		{"lexing", "runeScanner", "scan"}, {"lexing", "runeScanner", "pos"},
		{"lexing", "", "LexComment"}, {"lexing", "", "lexLineComment"}, {"lexing", "", "lexBlockComment"},
		{"lexing", "", "LexString"}, {"lexing", "", "lexEscape"}, {"lexing", "", "LexRawString"},
		{"lexing", "", "digitVal"}, {"lexing", "", "LexNumber"}, {"lexing", "", "LexIdent"},
		{"lexing", "", "IsIdentLetter"}, {"lexing", "", "IsWhite"}, {"lexing", "", "IsDigit"},
		{"lexing", "", "IsHexDigit"}, {"lexing", "", "IsLetter"},
		{"lexing", "Remover", "Token"}, {"lexing", "Keyworder", "Token"}, {"lexing", "Recorder", "Token"},
		{"lexing", "", "TokenAll"},
		{"jsonx", "", "lexOperator"}, {"jsonx", "", "lexJSONX"}, {"jsonx", "", "tokener"},
		{"jsonx", "semiInserter", "Token"}, {"jsonx", "", "newParser"},
		{"jsonx", "parser", "seeOp"}, {"jsonx", "parser", "expectOp"},
		{"jsonx", "", "parseTypeName"}, {"jsonx", "", "parseSeries"},
		{"jsonx", "", "parseStringValue"}, {"jsonx", "", "parseFloatValue"},
		{"jsonx", "", "parseObjectEntries"}, {"jsonx", "", "parseListEntries"},
		{"jsonx", "", "parseIdentList"}, {"jsonx", "", "parseValue"}, {"jsonx", "parser", "enterNested"},
		{"jsonx", "", "ToJSON"}, {"jsonx", "Decoder", "Decode"}, {"jsonx", "Decoder", "More"},
		{"jsonx", "Decoder", "DecodeSeries"}, {"jsonx", "", "unmarshalFile"},
		{"strtoken", "", "isBareRune"}, {"strtoken", "", "lexBare"}, {"strtoken", "", "lexShell"},
		{"strtoken", "", "Parse"},
	}
}

// c08Cond translates the condition of the skip loop into the model's BExp.
func c08Cond(p *pkg, e ast.Expr, sepParam string) (string, error) {
	switch x := e.(type) {
	case *ast.ParenExpr:
		return c08Cond(p, x.X, sepParam)
	case *ast.UnaryExpr:
		if x.Op == token.NOT {
			s, err := c08Cond(p, x.X, sepParam)
			if err != nil {
				return "", err
			}
			return "(.not " + s + ")", nil
		}
	case *ast.BinaryExpr:
		if x.Op == token.LAND || x.Op == token.LOR {
			a, err := c08Cond(p, x.X, sepParam)
			if err != nil {
				return "", err
			}
			b, err := c08Cond(p, x.Y, sepParam)
			if err != nil {
				return "", err
			}
			op := ".and"
			if x.Op == token.LOR {
				op = ".or"
			}
			return "(" + op + " " + a + " " + b + ")", nil
		}
	case *ast.Ident:
		if x.Name == "true" {
			return ".tt", nil
		}
		if x.Name == "false" {
			return ".ff", nil
		}
	case *ast.CallExpr:
		_, name, args, ok := callSel(x)
		if ok && name == "See" && len(args) == 1 {
			if id, ok := args[0].(*ast.Ident); ok {
				if id.Name == sepParam {
					return ".seeSep", nil
				}
				if id.Name == "EOF" {
					return ".seeEof", nil
				}
			}
		}
	}
	return "", fmt.Errorf("SkipErrStmt: loop condition %q is not a Boolean combination of See(sep), See(EOF)", p.src(e))
}

func c08HasCall(n ast.Node, name string) bool {
	found := false
	ast.Inspect(n, func(m ast.Node) bool {
		if c, ok := m.(*ast.CallExpr); ok {
			if _, nm, _, ok := callSel(c); ok && nm == name {
				found = true
			}
		}
		return !found
	})
	return found
}

// c08LoopBreaksInError: the first for-loop of fd has, at the top level of its
// body, `if <cond calling InError> { break | return }`.
func c08LoopBreaksInError(fd *ast.FuncDecl) (bool, bool) {
	if fd == nil || fd.Body == nil {
		return false, false
	}
	var loop *ast.ForStmt
	ast.Inspect(fd.Body, func(m ast.Node) bool {
		if f, ok := m.(*ast.ForStmt); ok && loop == nil {
			loop = f
		}
		return loop == nil
	})
	if loop == nil {
		return false, false
	}
	for _, st := range loop.Body.List {
		ifs, ok := st.(*ast.IfStmt)
		if !ok || !c08HasCall(ifs.Cond, "InError") {
			continue
		}
		if _, neg := ifs.Cond.(*ast.UnaryExpr); neg {
			continue
		}
		for _, b := range ifs.Body.List {
			switch x := b.(type) {
			case *ast.BranchStmt:
				if x.Tok == token.BREAK {
					return true, true
				}
			case *ast.ReturnStmt:
				return true, true
			}
		}
	}
	return false, true
}

func c08Runes(s string) string {
	var xs []string
	for _, r := range s {
		xs = append(xs, strconv.Itoa(int(r)))
	}
	return "[" + strings.Join(xs, ", ") + "]"
}

func c08CharLit(e ast.Expr) (rune, bool) {
	bl, ok := e.(*ast.BasicLit)
	if !ok || bl.Kind != token.CHAR {
		return 0, false
	}
	s, err := strconv.Unquote(bl.Value)
	if err != nil || len([]rune(s)) != 1 {
		return 0, false
	}
	return []rune(s)[0], true
}

func c08Disjuncts(e ast.Expr) []ast.Expr {
	switch x := e.(type) {
	case *ast.ParenExpr:
		return c08Disjuncts(x.X)
	case *ast.BinaryExpr:
		if x.Op == token.LOR {
			return append(c08Disjuncts(x.X), c08Disjuncts(x.Y)...)
		}
	}
	return []ast.Expr{e}
}

// c08IntConsts evaluates const blocks including unary minus (EOF = -1 - iota).
func c08IntConsts(p *pkg) map[string]int64 {
	out := map[string]int64{}
	var ev func(e ast.Expr, iota int64) (int64, bool)
	ev = func(e ast.Expr, iota int64) (int64, bool) {
		switch x := e.(type) {
		case *ast.UnaryExpr:
			if v, ok := ev(x.X, iota); ok {
				if x.Op == token.SUB {
					return -v, true
				}
				if x.Op == token.ADD {
					return v, true
				}
			}
			return 0, false
		case *ast.BinaryExpr:
			a, ok1 := ev(x.X, iota)
			b, ok2 := ev(x.Y, iota)
			if ok1 && ok2 {
				switch x.Op {
				case token.ADD:
					return a + b, true
				case token.SUB:
					return a - b, true
				case token.MUL:
					return a * b, true
				}
			}
			return 0, false
		case *ast.ParenExpr:
			return ev(x.X, iota)
		}
		return evalInt(e, iota, out)
	}
	var names []string
	for n := range p.files {
		names = append(names, n)
	}
	sort.Strings(names)
	for _, n := range names {
		for _, d := range p.files[n].Decls {
			gd, ok := d.(*ast.GenDecl)
			if !ok || gd.Tok != token.CONST {
				continue
			}
			var last ast.Expr
			for i, s := range gd.Specs {
				vs := s.(*ast.ValueSpec)
				if len(vs.Values) > 0 {
					last = vs.Values[0]
				}
				if last == nil || len(vs.Names) != 1 {
					continue
				}
				if v, ok := ev(last, int64(i)); ok {
					out[vs.Names[0].Name] = v
				}
			}
		}
	}
	return out
}

func jc0(p *pkg) map[string]int64 { return c08IntConsts(p) }

func genJsonx(repo string, fs facts) (string, error) {
	lx, err := loadPkg(repo, "lexing")
	if err != nil {
		return "", err
	}
	jx, err := loadPkg(repo, "jsonx")
	if err != nil {
		return "", err
	}
	var fallback []string
	f := facts{}

	// --- SkipErrStmt loop condition (must be readable) ---
	skip := lx.fn("Parser", "SkipErrStmt")
	if skip == nil {
		return "", fmt.Errorf("lexing.Parser.SkipErrStmt not found")
	}
	sepParam := paramName(skip)
	var loop *ast.ForStmt
	nLoops := 0
	ast.Inspect(skip.Body, func(m ast.Node) bool {
		if fl, ok := m.(*ast.ForStmt); ok {
			nLoops++
			if loop == nil {
				loop = fl
			}
		}
		return true
	})
	if loop == nil || nLoops != 1 || loop.Init != nil || loop.Post != nil {
		return "", fmt.Errorf("SkipErrStmt: expected exactly one plain for-loop")
	}
	cond := ".tt"
	if loop.Cond != nil {
		cond, err = c08Cond(lx, loop.Cond, sepParam)
		if err != nil {
			return "", err
		}
	}
	// the loop body must be a single p.Next() (or Shift)
	if len(loop.Body.List) != 1 || !(c08HasCall(loop.Body, "Next") || c08HasCall(loop.Body, "Shift")) {
		return "", fmt.Errorf("SkipErrStmt: loop body %q is not a single Next()", lx.src(loop.Body))
	}
	f["skipCond"] = lx.src(loop.Cond)

	// --- error cap ---
	errMax := int64(-1)
	if nel := lx.fn("", "NewErrorList"); nel != nil {
		ast.Inspect(nel.Body, func(m ast.Node) bool {
			as, ok := m.(*ast.AssignStmt)
			if !ok || len(as.Lhs) != 1 || len(as.Rhs) != 1 {
				return true
			}
			if se, ok := as.Lhs[0].(*ast.SelectorExpr); ok && se.Sel.Name == "Max" {
				if v, ok := evalInt(as.Rhs[0], 0, lx.consts()); ok {
					errMax = v
				}
			}
			return true
		})
	}
	if errMax < 0 {
		return "", fmt.Errorf("NewErrorList: assignment to Max not found")
	}
	f["errMax"] = errMax

	// --- separator parseSeries skips to ---
	seps := map[string]bool{}
	if ps := jx.fn("", "parseSeries"); ps != nil {
		ast.Inspect(ps.Body, func(m ast.Node) bool {
			if c, ok := m.(*ast.CallExpr); ok {
				if _, nm, args, ok := callSel(c); ok && nm == "SkipErrStmt" && len(args) == 1 {
					seps[jx.src(args[0])] = true
				}
			}
			return true
		})
	}
	var sepNames []string
	for s := range seps {
		sepNames = append(sepNames, s)
	}
	sort.Strings(sepNames)
	f["seriesSeps"] = sepNames

	// --- entry loops break in error state ---
	listBreaks, ok := c08LoopBreaksInError(jx.fn("", "parseListEntries"))
	if !ok {
		fallback = append(fallback, "parseListEntries")
		listBreaks = true
	}
	objBreaks, ok := c08LoopBreaksInError(jx.fn("", "parseObjectEntries"))
	if !ok {
		fallback = append(fallback, "parseObjectEntries")
		objBreaks = true
	}
	f["listBreaks"], f["objBreaks"] = listBreaks, objBreaks

	// --- parseValue: float under a leading sign is converted ---
	signedFloat := false
	signRecursive := false // the sign case calls parseValue for its operand
	if pv := jx.fn("", "parseValue"); pv != nil {
		found := false
		ast.Inspect(pv.Body, func(m ast.Node) bool {
			cc, ok := m.(*ast.CaseClause)
			if !ok {
				return true
			}
			for _, e := range cc.List {
				if c, ok := e.(*ast.CallExpr); ok {
					if _, nm, args, ok := callSel(c); ok && nm == "seeOp" && len(args) == 2 {
						found = true
						for _, st := range cc.Body {
							if c08HasCall(st, "parseFloatValue") {
								signedFloat = true
							}
							if c08HasCall(st, "parseValue") {
								signRecursive = true
							}
						}
					}
				}
			}
			return true
		})
		if !found {
			fallback = append(fallback, "parseValue sign case")
		}
	} else {
		fallback = append(fallback, "parseValue")
	}
	f["signedFloatParsed"] = signedFloat
	f["signCaseCallsParseValue"] = signRecursive

	// --- nesting depth limit: a constant N, a guard function whose first
	// statement is `if p.depth >= N { report; return false }` followed by
	// p.depth++, called first thing in both bracket cases of parseValue, which
	// decrement the depth again.  Anything else = no limit. ---
	depthLimit := int64(-1)
	if pv := jx.fn("", "parseValue"); pv != nil {
		guards := map[string]int{}
		decs := 0
		ast.Inspect(pv.Body, func(m ast.Node) bool {
			cc, ok := m.(*ast.CaseClause)
			if !ok {
				return true
			}
			bracket := false
			for _, e := range cc.List {
				if c, ok := e.(*ast.CallExpr); ok {
					if _, nm, args, ok := callSel(c); ok && nm == "seeOp" && len(args) == 1 {
						if a := jx.src(args[0]); a == `"{"` || a == `"["` {
							bracket = true
						}
					}
				}
			}
			if !bracket || len(cc.Body) == 0 {
				return true
			}
			if ifs, ok := cc.Body[0].(*ast.IfStmt); ok && ifs.Init == nil {
				if u, ok := ifs.Cond.(*ast.UnaryExpr); ok && u.Op == token.NOT {
					if c, ok := u.X.(*ast.CallExpr); ok {
						if _, nm, args, ok := callSel(c); ok && len(args) == 0 && len(ifs.Body.List) == 1 {
							if _, isRet := ifs.Body.List[0].(*ast.ReturnStmt); isRet {
								guards[nm]++
							}
						}
					}
				}
			}
			for _, st := range cc.Body {
				if ids, ok := st.(*ast.IncDecStmt); ok && ids.Tok == token.DEC && strings.HasSuffix(jx.src(ids.X), ".depth") {
					decs++
				}
			}
			return true
		})
		for g, n := range guards {
			if n != 2 || decs != 2 {
				continue
			}
			gf := jx.fn("parser", g)
			if gf == nil || len(gf.Body.List) < 2 {
				continue
			}
			ifs, ok := gf.Body.List[0].(*ast.IfStmt)
			if !ok {
				continue
			}
			be, ok := ifs.Cond.(*ast.BinaryExpr)
			if !ok || be.Op != token.GEQ || !strings.HasSuffix(jx.src(be.X), ".depth") {
				continue
			}
			v, ok := evalInt(be.Y, 0, jc0(jx))
			if !ok || v < 0 {
				continue
			}
			retFalse := false
			if n := len(ifs.Body.List); n > 0 {
				if r, ok := ifs.Body.List[n-1].(*ast.ReturnStmt); ok && len(r.Results) == 1 && jx.src(r.Results[0]) == "false" {
					retFalse = c08HasCall(ifs.Body, "CodeErrorfHere") || c08HasCall(ifs.Body, "CodeErrorf") || c08HasCall(ifs.Body, "Errorf") || c08HasCall(ifs.Body, "ErrorfHere")
				}
			}
			inc := false
			if ids, ok := gf.Body.List[1].(*ast.IncDecStmt); ok && ids.Tok == token.INC && strings.HasSuffix(jx.src(ids.X), ".depth") {
				inc = true
			}
			if retFalse && inc {
				depthLimit = v
			}
		}
	}
	if depthLimit >= 0 {
		f["depthLimit"] = depthLimit
	} else {
		f["depthLimit"] = "none"
	}

	// --- semiInserter.Token is a loop: it does not call itself (a frame per dropped line break otherwise) ---
	semiSelfCall := false
	if st := jx.fn("semiInserter", "Token"); st != nil {
		recv := ""
		if len(st.Recv.List) > 0 && len(st.Recv.List[0].Names) > 0 {
			recv = st.Recv.List[0].Names[0].Name
		}
		ast.Inspect(st.Body, func(m ast.Node) bool {
			if c, ok := m.(*ast.CallExpr); ok {
				if se, ok := c.Fun.(*ast.SelectorExpr); ok && se.Sel.Name == "Token" {
					if id, ok := se.X.(*ast.Ident); ok && id.Name == recv {
						semiSelfCall = true
					}
				}
			}
			return true
		})
	} else {
		fallback = append(fallback, "semiInserter.Token")
	}
	f["semiInserterTokenCallsItself"] = semiSelfCall

	// --- LexNumber exponent signs ---
	signs := []rune{}
	signsFound := false
	if ln := lx.fn("", "LexNumber"); ln != nil {
		ast.Inspect(ln.Body, func(m ast.Node) bool {
			ifs, ok := m.(*ast.IfStmt)
			if !ok || signsFound {
				return true
			}
			ds := c08Disjuncts(ifs.Cond)
			hasDigit := false
			var cs []rune
			okShape := true
			for _, d := range ds {
				if c, ok := d.(*ast.CallExpr); ok {
					if _, nm, _, ok := callSel(c); ok && nm == "IsDigit" {
						hasDigit = true
						continue
					}
				}
				if be, ok := d.(*ast.BinaryExpr); ok && be.Op == token.EQL {
					if r, ok := c08CharLit(be.Y); ok {
						cs = append(cs, r)
						continue
					}
				}
				okShape = false
			}
			if hasDigit && okShape {
				signs = cs
				signsFound = true
			}
			return true
		})
	}
	if !signsFound {
		fallback = append(fallback, "LexNumber exponent sign")
		signs = []rune{'-'}
	}
	var signNums []string
	for _, r := range signs {
		signNums = append(signNums, strconv.Itoa(int(r)))
	}
	f["expSigns"] = string(signs)

	// --- keywords ---
	var kws []string
	kwFound := false
	for _, file := range jx.files {
		for _, d := range file.Decls {
			gd, ok := d.(*ast.GenDecl)
			if !ok || gd.Tok != token.VAR {
				continue
			}
			for _, s := range gd.Specs {
				vs := s.(*ast.ValueSpec)
				if len(vs.Names) == 1 && vs.Names[0].Name == "keywords" && len(vs.Values) == 1 {
					if c, ok := vs.Values[0].(*ast.CallExpr); ok {
						kwFound = true
						for _, a := range c.Args {
							if bl, ok := a.(*ast.BasicLit); ok && bl.Kind == token.STRING {
								if s, err := strconv.Unquote(bl.Value); err == nil {
									kws = append(kws, s)
								}
							}
						}
					}
				}
			}
		}
	}
	if !kwFound {
		fallback = append(fallback, "keywords")
		kws = []string{"true", "false", "null"}
	}
	f["keywords"] = kws
	var kwLean []string
	for _, k := range kws {
		kwLean = append(kwLean, c08Runes(k))
	}

	// --- token type codes ---
	lc, jc := c08IntConsts(lx), c08IntConsts(jx)
	type nv struct {
		n string
		v int64
	}
	var codes []nv
	for _, n := range []string{"EOF", "Comment", "Illegal"} {
		v, ok := lc[n]
		if !ok {
			return "", fmt.Errorf("lexing.%s: constant not found", n)
		}
		codes = append(codes, nv{n, v})
	}
	for _, n := range []string{"tokKeyword", "tokIdent", "tokString", "tokInt", "tokFloat", "tokOperator", "tokSemi", "tokEndl"} {
		v, ok := jc[n]
		if !ok {
			return "", fmt.Errorf("jsonx.%s: constant not found", n)
		}
		codes = append(codes, nv{n, v})
	}
	var codeLean []string
	cm := map[string]int64{}
	for _, c := range codes {
		codeLean = append(codeLean, fmt.Sprintf("(%s, %d)", leanStr(c.n), c.v))
		cm[c.n] = c.v
	}
	f["tokenCodes"] = cm
	if len(fallback) > 0 {
		f["fallback"] = fallback
	}
	fs["C08"] = f

	b2 := func(b bool) string {
		if b {
			return "true"
		}
		return "false"
	}
	var sepLean []string
	for _, s := range sepNames {
		sepLean = append(sepLean, leanStr(s))
	}
	var b strings.Builder
	b.WriteString("import PubModel.C08.Entry\n")
	b.WriteString("namespace PubModel.Gen.Jsonx\nopen PubModel.C08\n\n")
	fmt.Fprintf(&b, "/-- loop condition of lexing.Parser.SkipErrStmt: `%s` -/\n", lx.src(loop.Cond))
	fmt.Fprintf(&b, "def skipCond : BExp := %s\n\n", cond)
	fmt.Fprintf(&b, "/-- ErrorList.Max set by NewErrorList -/\ndef errMax : Nat := %d\n\n", errMax)
	fmt.Fprintf(&b, "/-- the separators parseSeries passes to SkipErrStmt -/\ndef seriesSeps : List String := [%s]\n\n", strings.Join(sepLean, ", "))
	fmt.Fprintf(&b, "def listBreaks : Bool := %s\ndef objBreaks : Bool := %s\n", b2(listBreaks), b2(objBreaks))
	fmt.Fprintf(&b, "def signedFloatParsed : Bool := %s\n\n", b2(signedFloat))
	fmt.Fprintf(&b, "/-- runes LexNumber accepts after e/E besides a digit -/\ndef expSigns : List Nat := [%s]\n\n", strings.Join(signNums, ", "))
	fmt.Fprintf(&b, "/-- jsonx.keywords -/\ndef keywords : List (List Nat) := [%s]\n\n", strings.Join(kwLean, ", "))
	fmt.Fprintf(&b, "/-- token type codes (lexing.EOF/Comment/Illegal, jsonx tok*) -/\ndef tokenCodes : List (String × Int) := [%s]\n\n", strings.Join(codeLean, ", "))
	if depthLimit >= 0 {
		fmt.Fprintf(&b, "/-- nesting limit of parseValue (jsonx.maxNestingDepth) -/\ndef depthLimit : Option Nat := some %d\n\n", depthLimit)
	} else {
		b.WriteString("/-- parseValue has no nesting limit -/\ndef depthLimit : Option Nat := none\n\n")
	}
	fmt.Fprintf(&b, "/-- semiInserter.Token calls itself (instead of looping) -/\ndef semiTokenCallsItself : Bool := %s\n\n", b2(semiSelfCall))
	fmt.Fprintf(&b, "/-- the sign case of parseValue calls parseValue for its operand -/\ndef signRecursive : Bool := %s\n\n", b2(signRecursive))
	b.WriteString("def cfg : Cfg := ⟨errMax, skipCond, signedFloatParsed, listBreaks, objBreaks, depthLimit, signRecursive⟩\n")
	b.WriteString("def lexCfg : LexCfg := ⟨expSigns, keywords⟩\n\n")
	b.WriteString("end PubModel.Gen.Jsonx\n")
	return b.String(), nil
}
