package main

import (
	"fmt"
	"go/ast"
	"go/token"
	"strconv"
	"strings"
)

// Gen/Routing.lean: name policy list, mailbox match, order of policy and dial.

func init() {
	register("Routing", genRouting)
	trackedFuncs["C02"] = []tracked{
		{"sniproxy", "Server", "dial"}, {"sniproxy", "Server", "endpoint"}, {"sniproxy", "", "isRejectedDomain"},
		{"sniproxy", "proxy", "hostConn"}, {"sniproxy", "connMailBox", "match"}, {"sniproxy", "connMailBox", "deliver"},
		{"sniproxy", "connMailOffice", "newBox"}, {"sniproxy", "connMailOffice", "deliver"}, {"sniproxy", "connMailOffice", "remove"},
		{"sniproxy", "sessionID", "next"}, {"sniproxy", "connections", "add"}, {"sniproxy", "connections", "get"},
		{"sniproxy", "endpointClient", "Dial"}, {"sniproxy", "endpointServer", "handleDial"},
		{"sniproxy", "endpointServer", "handleDialSide2"}, {"sniproxy", "Server", "serveBackSide"},
	}
}

func genRouting(repo string, fs facts) (string, error) {
	p, err := loadPkg(repo, "sniproxy")
	if err != nil {
		return "", err
	}
	rej := p.fn("", "isRejectedDomain")
	mt := p.fn("connMailBox", "match")
	hc := p.fn("proxy", "hostConn")
	dial := p.fn("Server", "dial")
	if rej == nil || mt == nil || hc == nil || dial == nil {
		return "", fmt.Errorf("isRejectedDomain / connMailBox.match / hostConn / Server.dial not found")
	}
	var sufs []string
	ast.Inspect(rej, func(n ast.Node) bool {
		if cl, ok := n.(*ast.CompositeLit); ok {
			for _, e := range cl.Elts {
				if bl, ok := e.(*ast.BasicLit); ok && bl.Kind == token.STRING {
					if s, err := strconv.Unquote(bl.Value); err == nil {
						sufs = append(sufs, s)
					}
				}
			}
		}
		return true
	})
	emptyAndIP := strings.Contains(p.src(rej), `name == ""`) && strings.Contains(p.src(rej), "net.ParseIP(name)")
	ms := strings.ReplaceAll(p.src(mt.Body), " ", "")
	matchKey := strings.Contains(ms, "b.key.ID==k.ID&&b.key.Key==k.Key") || strings.Contains(ms, "b.key.Key==k.Key&&b.key.ID==k.ID")
	hs := p.src(hc.Body)
	i1, i2 := strings.Index(hs, "isRejectedDomain(hello.ServerName)"), strings.Index(hs, "p.dialer.dial(")
	rejectFirst := i1 >= 0 && i2 > i1 && emptyAndIP
	ds := p.src(dial.Body)
	usesDest := strings.Contains(ds, "s.endpoint(dest.Name)") && strings.Contains(ds, "s.lookup(domain)")
	var b strings.Builder
	b.WriteString("namespace PubModel.Gen.Routing\n")
	b.WriteString("/-- suffixes rejected by isRejectedDomain -/\ndef rejectedSuffixes : List String := [")
	for i, s := range sufs {
		if i > 0 {
			b.WriteString(", ")
		}
		b.WriteString(strconv.Quote(s))
	}
	b.WriteString("]\n")
	fmt.Fprintf(&b, "/-- connMailBox.match compares id and key -/\ndef matchComparesKey : Bool := %v\n", matchKey)
	fmt.Fprintf(&b, "/-- hostConn applies the name policy (empty, IP literal, suffixes) before it dials -/\ndef rejectBeforeDial : Bool := %v\n", rejectFirst)
	fmt.Fprintf(&b, "/-- Server.dial looks the server name up and dials the endpoint registered under the returned name -/\ndef dialUsesDestName : Bool := %v\n", usesDest)
	b.WriteString("end PubModel.Gen.Routing\n")
	fs["routing.suffixes"] = sufs
	return b.String(), nil
}
