package main

import (
	"fmt"
	"go/ast"
	"go/token"
	"sort"
	"strings"
)

// Gen/Wire.lean: sniproxy message layouts, type codes, dispatch tables.

func init() { register("Wire", genWire) }

func callSel(e ast.Expr) (recv, name string, args []ast.Expr, ok bool) {
	c, ok := e.(*ast.CallExpr)
	if !ok {
		return
	}
	switch f := c.Fun.(type) {
	case *ast.SelectorExpr:
		if id, ok2 := f.X.(*ast.Ident); ok2 {
			return id.Name, f.Sel.Name, c.Args, true
		}
		// s.x.y(...)
		return "?", f.Sel.Name, c.Args, true
	case *ast.Ident:
		return "", f.Name, c.Args, true
	}
	return "", "", nil, false
}

func paramName(fd *ast.FuncDecl) string {
	if len(fd.Type.Params.List) == 0 || len(fd.Type.Params.List[0].Names) == 0 {
		return ""
	}
	return fd.Type.Params.List[0].Names[0].Name
}

func encFields(p *pkg, fd *ast.FuncDecl) ([]string, error) {
	enc := paramName(fd)
	var out []string
	for _, st := range fd.Body.List {
		es, ok := st.(*ast.ExprStmt)
		if !ok {
			return nil, fmt.Errorf("%s.encodeTo: unexpected statement %q", recvName(fd), p.src(st))
		}
		recv, name, args, ok := callSel(es.X)
		if !ok {
			return nil, fmt.Errorf("%s.encodeTo: unexpected expression %q", recvName(fd), p.src(st))
		}
		switch {
		case recv == "" && name == "encodeRemoteErr":
			out = append(out, "rerr")
		case recv == enc && enc != "" && len(args) == 1:
			kind := name
			if name == "u64" {
				if _, n2, _, ok := callSel(args[0]); ok && n2 == "uint64" {
					kind = "int"
				}
			}
			switch kind {
			case "u8", "u64", "int", "bytes", "str":
				out = append(out, kind)
			default:
				return nil, fmt.Errorf("%s.encodeTo: unknown encoder method %s", recvName(fd), name)
			}
		default:
			return nil, fmt.Errorf("%s.encodeTo: unexpected call %q", recvName(fd), p.src(st))
		}
	}
	return out, nil
}

func decFields(p *pkg, fd *ast.FuncDecl) ([]string, error) {
	dec := paramName(fd)
	var out []string
	for _, st := range fd.Body.List {
		as, ok := st.(*ast.AssignStmt)
		if !ok || len(as.Lhs) != 1 || len(as.Rhs) != 1 || as.Tok != token.ASSIGN {
			return nil, fmt.Errorf("%s.decodeFrom: unexpected statement %q", recvName(fd), p.src(st))
		}
		rhs := as.Rhs[0]
		conv := ""
		if r, n, args, ok := callSel(rhs); ok && r == "" && (n == "int" || n == "uint64" || n == "string") && len(args) == 1 {
			conv = n
			rhs = args[0]
		}
		recv, name, args, ok := callSel(rhs)
		if !ok {
			return nil, fmt.Errorf("%s.decodeFrom: unexpected rhs %q", recvName(fd), p.src(st))
		}
		switch {
		case recv == "" && name == "decodeRemoteErr":
			out = append(out, "rerr")
		case recv == dec && dec != "":
			kind := name
			if name == "u64" && conv == "int" {
				kind = "int"
			} else if conv != "" {
				return nil, fmt.Errorf("%s.decodeFrom: conversion %s around %s", recvName(fd), conv, name)
			}
			if name == "bytes" {
				if len(args) == 1 {
					if id, ok := args[0].(*ast.Ident); ok && id.Name == "nil" {
						kind = "bytes"
					} else if p.src(args[0]) == p.src(as.Lhs[0]) {
						kind = "bytesInto"
					} else {
						return nil, fmt.Errorf("%s.decodeFrom: bytes into foreign buffer", recvName(fd))
					}
				}
			}
			switch kind {
			case "u8", "u64", "int", "bytes", "bytesInto", "str":
				out = append(out, kind)
			default:
				return nil, fmt.Errorf("%s.decodeFrom: unknown decoder method %s", recvName(fd), name)
			}
		default:
			return nil, fmt.Errorf("%s.decodeFrom: unexpected call %q", recvName(fd), p.src(st))
		}
	}
	return out, nil
}

func leanSchema(fs []string) string {
	var xs []string
	for _, f := range fs {
		xs = append(xs, "."+f)
	}
	return "[" + strings.Join(xs, ", ") + "]"
}

// newType finds T in `new(T)` or `&T{...}`.
func newType(e ast.Expr) string {
	switch x := e.(type) {
	case *ast.CallExpr:
		if id, ok := x.Fun.(*ast.Ident); ok && id.Name == "new" && len(x.Args) == 1 {
			if t, ok := x.Args[0].(*ast.Ident); ok {
				return t.Name
			}
		}
	case *ast.UnaryExpr:
		if cl, ok := x.X.(*ast.CompositeLit); ok {
			if t, ok := cl.Type.(*ast.Ident); ok {
				return t.Name
			}
		}
	}
	return ""
}

func genWire(repo string, fs facts) (string, error) {
	p, err := loadPkg(repo, "sniproxy")
	if err != nil {
		return "", err
	}
	consts := p.consts()

	type layout struct{ enc, dec []string }
	types := map[string]*layout{}
	for _, fd := range p.funcs() {
		r := recvName(fd)
		if r == "" || r == "remoteErr" || r == "endpointExchange" {
			continue
		}
		if fd.Name.Name == "encodeTo" {
			l, err := encFields(p, fd)
			if err != nil {
				return "", err
			}
			if types[r] == nil {
				types[r] = &layout{}
			}
			types[r].enc = l
		}
		if fd.Name.Name == "decodeFrom" {
			l, err := decFields(p, fd)
			if err != nil {
				return "", err
			}
			if types[r] == nil {
				types[r] = &layout{}
			}
			types[r].dec = l
		}
	}
	var tnames []string
	for n := range types {
		tnames = append(tnames, n)
	}
	sort.Strings(tnames)

	// message and error codes, in value order
	type cv struct {
		n string
		v int64
	}
	var msgs, errsC []cv
	for n, v := range consts {
		if strings.HasPrefix(n, "msg") {
			msgs = append(msgs, cv{n, v})
		}
		if strings.HasPrefix(n, "err") && n != "errcode" {
			errsC = append(errsC, cv{n, v})
		}
	}
	sort.Slice(msgs, func(i, j int) bool {
		if msgs[i].v != msgs[j].v {
			return msgs[i].v < msgs[j].v
		}
		return msgs[i].n < msgs[j].n
	})
	sort.Slice(errsC, func(i, j int) bool {
		if errsC[i].v != errsC[j].v {
			return errsC[i].v < errsC[j].v
		}
		return errsC[i].n < errsC[j].n
	})

	// server request switch
	type sr struct{ code, typ string }
	var srvReq []sr
	if fd := p.fn("", "newRequestMessage"); fd != nil {
		ast.Inspect(fd, func(n ast.Node) bool {
			cc, ok := n.(*ast.CaseClause)
			if !ok || len(cc.List) == 0 {
				return true
			}
			typ := ""
			okArm := false
			for _, st := range cc.Body {
				if rs, ok := st.(*ast.ReturnStmt); ok && len(rs.Results) == 2 {
					typ = newType(rs.Results[0])
					if id, ok := rs.Results[1].(*ast.Ident); ok && id.Name == "true" {
						okArm = true
					}
				}
			}
			if !okArm {
				return true
			}
			for _, e := range cc.List {
				if id, ok := e.(*ast.Ident); ok {
					srvReq = append(srvReq, sr{id.Name, typ})
				}
			}
			return true
		})
	} else {
		return "", fmt.Errorf("newRequestMessage not found")
	}
	// server reply types: serveCall arms `x.resp = s.handleX(...)` -> result type of handleX
	var srvResp []sr
	if fd := p.fn("endpointServer", "serveCall"); fd != nil {
		ast.Inspect(fd, func(n ast.Node) bool {
			cc, ok := n.(*ast.CaseClause)
			if !ok || len(cc.List) == 0 {
				return true
			}
			typ := ""
			for _, st := range cc.Body {
				as, ok := st.(*ast.AssignStmt)
				if !ok || len(as.Rhs) != 1 {
					continue
				}
				if p.src(as.Lhs[0]) != "x.resp" {
					continue
				}
				if _, name, _, ok := callSel(as.Rhs[0]); ok {
					if h := p.fn("endpointServer", name); h != nil && h.Type.Results != nil && len(h.Type.Results.List) == 1 {
						t := h.Type.Results.List[0].Type
						if s, ok := t.(*ast.StarExpr); ok {
							t = s.X
						}
						if id, ok := t.(*ast.Ident); ok {
							typ = id.Name
						}
					}
				}
			}
			for _, e := range cc.List {
				if id, ok := e.(*ast.Ident); ok {
					srvResp = append(srvResp, sr{id.Name, typ})
				}
			}
			return true
		})
	} else {
		return "", fmt.Errorf("serveCall not found")
	}

	// client call sites: tr.call(ctx, msgX, req, resp)
	type cc3 struct{ code, req, resp, where string }
	var cli []cc3
	for _, fd := range p.funcs() {
		if fd.Body == nil {
			continue
		}
		vars := map[string]string{}
		ast.Inspect(fd.Body, func(n ast.Node) bool {
			switch x := n.(type) {
			case *ast.AssignStmt:
				if len(x.Lhs) == 1 && len(x.Rhs) == 1 {
					if id, ok := x.Lhs[0].(*ast.Ident); ok {
						if t := newType(x.Rhs[0]); t != "" {
							vars[id.Name] = t
						}
					}
				}
			case *ast.CallExpr:
				if sel, ok := x.Fun.(*ast.SelectorExpr); ok && sel.Sel.Name == "call" && len(x.Args) == 4 {
					code := p.src(x.Args[1])
					if !strings.HasPrefix(code, "msg") {
						return true
					}
					get := func(e ast.Expr) string {
						if id, ok := e.(*ast.Ident); ok {
							if id.Name == "nil" {
								return ""
							}
							return vars[id.Name]
						}
						return newType(e)
					}
					cli = append(cli, cc3{code, get(x.Args[2]), get(x.Args[3]), recvName(fd) + "." + fd.Name.Name})
				}
			}
			return true
		})
	}
	sort.Slice(cli, func(i, j int) bool {
		if cli[i].code != cli[j].code {
			return cli[i].code < cli[j].code
		}
		return cli[i].where < cli[j].where
	})

	// decoder.bytes: does it allocate the announced length?
	prealloc := false
	if fd := p.fn("decoder", "bytes"); fd != nil {
		ast.Inspect(fd, func(n ast.Node) bool {
			if c, ok := n.(*ast.CallExpr); ok {
				if id, ok := c.Fun.(*ast.Ident); ok && id.Name == "make" {
					prealloc = true
				}
			}
			return true
		})
	} else {
		return "", fmt.Errorf("decoder.bytes not found")
	}

	// handleRead: is the allocation guarded against negative and clamped?
	clamp := "none"
	if fd := p.fn("endpointServer", "handleRead"); fd != nil {
		var makeArg string
		ast.Inspect(fd, func(n ast.Node) bool {
			if c, ok := n.(*ast.CallExpr); ok {
				if id, ok := c.Fun.(*ast.Ident); ok && id.Name == "make" && len(c.Args) >= 2 {
					makeArg = p.src(c.Args[1])
				}
			}
			return true
		})
		negGuard, clampC := false, int64(-1)
		ast.Inspect(fd, func(n ast.Node) bool {
			is, ok := n.(*ast.IfStmt)
			if !ok {
				return true
			}
			be, ok := is.Cond.(*ast.BinaryExpr)
			if !ok || p.src(be.X) != makeArg {
				return true
			}
			if be.Op == token.LSS && p.src(be.Y) == "0" {
				for _, st := range is.Body.List {
					if _, ok := st.(*ast.ReturnStmt); ok {
						negGuard = true
					}
				}
			}
			if be.Op == token.GTR {
				if v, ok := evalInt(be.Y, 0, consts); ok && len(is.Body.List) == 1 {
					if as, ok := is.Body.List[0].(*ast.AssignStmt); ok && p.src(as.Lhs[0]) == makeArg && p.src(as.Rhs[0]) == p.src(be.Y) {
						clampC = v
					}
				}
			}
			return true
		})
		if makeArg != "" && makeArg != "req.maxRead" && negGuard && clampC >= 0 {
			clamp = fmt.Sprintf("some %d", clampC)
		}
	} else {
		return "", fmt.Errorf("handleRead not found")
	}

	var b strings.Builder
	b.WriteString("import PubModel.C13.Model\nnamespace PubModel.Gen.Wire\nopen PubModel.C13\n\n")
	b.WriteString("/-- type name, fields written by encodeTo, fields read by decodeFrom -/\n")
	b.WriteString("def types : List (String × Schema × Schema) := [\n")
	for i, n := range tnames {
		sep := ","
		if i == len(tnames)-1 {
			sep = ""
		}
		fmt.Fprintf(&b, "  (%s, %s, %s)%s\n", leanStr(n), leanSchema(types[n].enc), leanSchema(types[n].dec), sep)
	}
	b.WriteString("]\n\n")
	pr := func(name string, xs []cv) {
		fmt.Fprintf(&b, "def %s : List (String × Nat) := [", name)
		for i, x := range xs {
			if i > 0 {
				b.WriteString(", ")
			}
			fmt.Fprintf(&b, "(%s, %d)", leanStr(x.n), x.v)
		}
		b.WriteString("]\n\n")
	}
	pr("msgCodes", msgs)
	pr("errCodes", errsC)
	prs := func(name string, xs []sr) {
		fmt.Fprintf(&b, "def %s : List (String × String) := [", name)
		for i, x := range xs {
			if i > 0 {
				b.WriteString(", ")
			}
			fmt.Fprintf(&b, "(%s, %s)", leanStr(x.code), leanStr(x.typ))
		}
		b.WriteString("]\n\n")
	}
	b.WriteString("/-- newRequestMessage: accepted type code -> request struct (\"\" = no body) -/\n")
	prs("serverReq", srvReq)
	b.WriteString("/-- serveCall: type code -> reply struct produced by the handler (\"\" = no body) -/\n")
	prs("serverResp", srvResp)
	b.WriteString("/-- client call sites: type code, request struct encoded, reply struct decoded -/\n")
	b.WriteString("def clientCalls : List (String × String × String) := [")
	for i, x := range cli {
		if i > 0 {
			b.WriteString(", ")
		}
		fmt.Fprintf(&b, "(%s, %s, %s)", leanStr(x.code), leanStr(x.req), leanStr(x.resp))
	}
	b.WriteString("]\n\n")
	fmt.Fprintf(&b, "/-- decoder.bytes contains a `make` (allocates the announced length) -/\ndef decoderPrealloc : Bool := %v\n\n", prealloc)
	fmt.Fprintf(&b, "/-- handleRead: negative sizes refused and the buffer clamped to this many bytes -/\ndef readClamp : Option Nat := %s\n\n", clamp)
	b.WriteString("end PubModel.Gen.Wire\n")

	fs["wire.types"] = len(tnames)
	fs["wire.decoderPrealloc"] = prealloc
	fs["wire.readClamp"] = clamp
	return b.String(), nil
}
