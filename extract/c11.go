package main

// C11: facts about caco3's loader read from the source:
//   * the rule type table of makeBuildFileNode,
//   * AST shape facts the hand model relies on: loader.readBuildFile skips a
//     directory it has already read; load1 pushes on the tracer first, pops
//     on return, consults `loaded`, and marks a node loaded only after its
//     dependencies; register rejects empty and duplicate names; buildNode
//     consults and fills its memo and recurses into dependencies before the
//     BUILD line; loadNodes and readBuildFile sort directories;
//   * the name that enters each rule type's digest (`makeDigest` in every
//     `meta`): the model has no cache and treats every node as its own cache
//     key, which is sound only if the digest covers the package-qualified
//     node name (two rules with the same local name in different packages
//     must not share an action digest).
// Output: lean/PubModel/Gen/Caco3Loader.lean.

import (
	"fmt"
	"go/ast"
	"go/token"
	"sort"
	"strings"
)

func init() {
	trackedFuncs["C11"] = []tracked{
		{"caco3", "loader", "register"}, {"caco3", "loader", "load"}, {"caco3", "loader", "load1"},
		{"caco3", "loader", "registerOuts"}, {"caco3", "loader", "readBuildFile"}, {"caco3", "", "loadNodes"},
		{"caco3", "loadTracer", "push"}, {"caco3", "loadTracer", "pop"}, {"caco3", "", "readBuildFile"},
		{"caco3", "", "newSubBuilds"}, {"caco3", "", "newBundle"}, {"caco3", "bundle", "meta"},
		{"caco3", "Builder", "buildNode"}, {"caco3", "Builder", "buildNodes"}, {"caco3", "Builder", "Build"},
		{"caco3", "fileSet", "meta"}, {"caco3", "", "makeDigest"}, {"caco3", "", "buildNodeDigest"},
		{"lexing", "ErrorList", "Add"}, {"lexing", "Parser", "SkipErrStmt"}, {"jsonx", "", "parseSeries"},
	}
	register("Caco3Loader", genCaco3Loader)
}

// stmtIndex: position of the first top-level statement of body whose source contains all needles
func stmtIndex(p *pkg, body *ast.BlockStmt, needles ...string) int {
	for i, s := range body.List {
		src := p.src(s)
		ok := true
		for _, n := range needles {
			if !strings.Contains(src, n) {
				ok = false
			}
		}
		if ok {
			return i
		}
	}
	return -1
}

func genCaco3Loader(repo string, fs facts) (string, error) {
	p, err := loadPkg(repo, "caco3")
	if err != nil {
		return "", err
	}
	consts := map[string]string{}
	for _, f := range p.files {
		for _, d := range f.Decls {
			gd, ok := d.(*ast.GenDecl)
			if !ok || gd.Tok != token.CONST {
				continue
			}
			for _, s := range gd.Specs {
				vs := s.(*ast.ValueSpec)
				for i, n := range vs.Names {
					if i < len(vs.Values) {
						if v, ok := strLit(vs.Values[i]); ok {
							consts[n.Name] = v
						}
					}
				}
			}
		}
	}

	// rule type table
	mk := p.fn("", "makeBuildFileNode")
	if mk == nil {
		return "", fmt.Errorf("makeBuildFileNode not found")
	}
	var ruleTypes [][2]string
	ast.Inspect(mk.Body, func(n ast.Node) bool {
		cc, ok := n.(*ast.CaseClause)
		if !ok || len(cc.List) != 1 || len(cc.Body) != 1 {
			return true
		}
		id, ok := cc.List[0].(*ast.Ident)
		if !ok {
			return true
		}
		ret, ok := cc.Body[0].(*ast.ReturnStmt)
		if !ok || len(ret.Results) != 1 {
			return true
		}
		call, ok := ret.Results[0].(*ast.CallExpr)
		if !ok || p.src(call.Fun) != "new" || len(call.Args) != 1 {
			return true
		}
		ruleTypes = append(ruleTypes, [2]string{consts[id.Name], p.src(call.Args[0])})
		return true
	})
	if len(ruleTypes) == 0 {
		return "", fmt.Errorf("makeBuildFileNode: no rule type recognised")
	}
	sort.Slice(ruleTypes, func(i, j int) bool { return ruleTypes[i][0] < ruleTypes[j][0] })

	shape := map[string]bool{}
	var notes []string

	// loader.readBuildFile: visited set
	if fd := p.fn("loader", "readBuildFile"); fd != nil {
		param := ""
		if len(fd.Type.Params.List) == 1 && len(fd.Type.Params.List[0].Names) == 1 {
			param = fd.Type.Params.List[0].Names[0].Name
		}
		field := ""
		// first statement: if l.<field>[p] { return }
		if len(fd.Body.List) >= 2 {
			if ifs, ok := fd.Body.List[0].(*ast.IfStmt); ok && ifs.Init == nil && ifs.Else == nil &&
				len(ifs.Body.List) == 1 && p.src(ifs.Body.List[0]) == "return" {
				if ix, ok := ifs.Cond.(*ast.IndexExpr); ok && p.src(ix.Index) == param {
					field = p.src(ix.X)
				}
			}
			if field != "" && p.src(fd.Body.List[1]) == field+"["+param+"] = true" {
				shape["dedupDirs"] = true
			}
		}
		src := p.src(fd.Body)
		shape["subDirsSorted"] = strings.Contains(src, "sort.Strings(subDirs)")
		// nodes of the file are registered before the recursion into sub directories
		ri := stmtIndex(p, fd.Body, "l.register(n)")
		si := stmtIndex(p, fd.Body, "l.readBuildFile(d)")
		shape["registerBeforeSubDirs"] = ri >= 0 && si > ri
	} else {
		notes = append(notes, "loader.readBuildFile not found")
	}

	// loader.load1
	if fd := p.fn("loader", "load1"); fd != nil {
		b := fd.Body
		pushI := stmtIndex(p, b, "if !l.tracer.push(name)", "return nil")
		popI := stmtIndex(p, b, "defer l.tracer.pop()")
		memoI := stmtIndex(p, b, "l.loaded[name]; ok", "return n")
		shape["pushFirst"] = pushI == 0
		shape["popDeferred"] = popI == 1
		shape["loadedConsulted"] = memoI == 2
		// inside `if ok { ... }`: load deps, then mark loaded
		after := false
		ast.Inspect(b, func(n ast.Node) bool {
			ifs, ok := n.(*ast.IfStmt)
			if !ok || p.src(ifs.Cond) != "ok" {
				return true
			}
			li := stmtIndex(p, ifs.Body, "l.load(n.deps, pos)")
			mi := stmtIndex(p, ifs.Body, "l.loaded[name] = n")
			if li >= 0 && mi > li {
				after = true
			}
			return false
		})
		shape["loadedAfterDeps"] = after
	} else {
		notes = append(notes, "loader.load1 not found")
	}

	// loadTracer
	if fd := p.fn("loadTracer", "push"); fd != nil {
		src := p.src(fd.Body)
		shape["pushRejectsOnStack"] = stmtIndex(p, fd.Body, "if t.m[name]", "return false") == 0 &&
			strings.Contains(src, "t.m[name] = true")
	}
	if fd := p.fn("loadTracer", "pop"); fd != nil {
		src := p.src(fd.Body)
		shape["popRemovesTop"] = strings.Contains(src, "delete(t.m, last)") && strings.Contains(src, "t.trace[:n-1]")
	}

	// loader.register
	if fd := p.fn("loader", "register"); fd != nil {
		e := stmtIndex(p, fd.Body, `if n.name == ""`, "return")
		d := stmtIndex(p, fd.Body, "l.nodes[n.name]; ok", "redeclared", "return")
		s := stmtIndex(p, fd.Body, "l.nodes[n.name] = n")
		shape["registerRejectsEmpty"] = e == 0
		shape["registerRejectsDup"] = d == 1 && s > d
	}

	// loadNodes
	if fd := p.fn("", "loadNodes"); fd != nil {
		src := p.src(fd.Body)
		shape["repoDirsSorted"] = strings.Contains(src, "sort.Strings(dirs)")
		r := stmtIndex(p, fd.Body, "l.readBuildFile(dir)")
		e := stmtIndex(p, fd.Body, "errs := l.Errs(); errs != nil", "return nil, nil, errs")
		l := stmtIndex(p, fd.Body, "nodes := l.load(names, nil)")
		shape["errorsStopBeforeLoad"] = r >= 0 && e > r && l > e
		last := -1
		for i, s := range fd.Body.List {
			if strings.Contains(p.src(s), "errs := l.Errs(); errs != nil") {
				last = i
			}
		}
		shape["errorsStopAfterLoad"] = last > l && l >= 0
	}

	// Builder.buildNode
	if fd := p.fn("Builder", "buildNode"); fd != nil {
		m := stmtIndex(p, fd.Body, "ctx.built[n.name]; ok", "return digest, nil")
		s := stmtIndex(p, fd.Body, "defer func() { ctx.built[n.name] = digest }()")
		d := stmtIndex(p, fd.Body, "for _, dep := range n.deps", "b.buildNode(ctx, depNode)")
		l := stmtIndex(p, fd.Body, `log.Printf("BUILD %s", n.name)`)
		shape["buildMemoConsulted"] = m == 0
		shape["buildMemoFilled"] = s > m && s >= 0
		shape["depsBeforeBuild"] = d >= 0 && l > d
	}

	// Builder.buildNodes: a source-file target is skipped, the loop goes on
	if fd := p.fn("Builder", "buildNodes"); fd != nil {
		ast.Inspect(fd.Body, func(n ast.Node) bool {
			ifs, ok := n.(*ast.IfStmt)
			if !ok || p.src(ifs.Cond) != "n.typ == nodeSrc" || len(ifs.Body.List) == 0 {
				return true
			}
			shape["srcTargetContinues"] = p.src(ifs.Body.List[len(ifs.Body.List)-1]) == "continue"
			return false
		})
	}

	// jsonx / lexing: error recovery consumes input, also beyond the error cap
	if lp, err := loadPkg(repo, "lexing"); err == nil {
		if fd := lp.fn("ErrorList", "Add"); fd != nil {
			j := stmtIndex(lp, fd.Body, "lst.inJail = true")
			c := stmtIndex(lp, fd.Body, "len(lst.errs) >= lst.Max", "return")
			// stmtIndex matches the first statement containing the text; the jail statement must be a plain assignment
			plain := j >= 0 && lp.src(fd.Body.List[j]) == "lst.inJail = true"
			shape["errorJailBeforeCap"] = plain && c >= 0 && j < c
		}
		if fd := lp.fn("Parser", "SkipErrStmt"); fd != nil {
			src := lp.src(fd.Body)
			shape["skipErrStmtAdvances"] = strings.Contains(src, "p.Next()") && stmtIndex(lp, fd.Body, "if !p.InError()", "return false") == 0 &&
				strings.Contains(src, "p.BailOut()")
		}
	} else {
		notes = append(notes, "lexing: "+err.Error())
	}
	if jp, err := loadPkg(repo, "jsonx"); err == nil {
		if fd := jp.fn("", "parseSeries"); fd != nil {
			ok := false
			ast.Inspect(fd.Body, func(n ast.Node) bool {
				ifs, isIf := n.(*ast.IfStmt)
				if isIf && jp.src(ifs.Cond) == "name == nil" && len(ifs.Body.List) == 2 &&
					jp.src(ifs.Body.List[0]) == "p.SkipErrStmt(tokSemi)" && jp.src(ifs.Body.List[1]) == "continue" {
					ok = true
				}
				return true
			})
			shape["parseSeriesSkipsBadStatement"] = ok
		}
	} else {
		notes = append(notes, "jsonx: "+err.Error())
	}

	// the name argument of makeDigest in every meta method
	fl := newFlow(p)
	var digestNames [][3]string
	for _, fd := range p.funcs() {
		if fd.Name.Name != "meta" || fd.Recv == nil || fd.Body == nil {
			continue
		}
		sc := fl.newScope(fd)
		ast.Inspect(fd.Body, func(n ast.Node) bool {
			call, ok := n.(*ast.CallExpr)
			if !ok || p.src(call.Fun) != "makeDigest" || len(call.Args) != 3 {
				return true
			}
			arg := p.src(call.Args[1])
			cls := fl.classify(sc, call.Args[1], 0)
			if arg == sc.recvVar+".name" && cls == clResolved {
				cls = "qualified"
			}
			digestNames = append(digestNames, [3]string{recvName(fd), arg, cls})
			return true
		})
	}
	sort.Slice(digestNames, func(i, j int) bool { return digestNames[i][0] < digestNames[j][0] })
	if len(digestNames) == 0 {
		notes = append(notes, "no makeDigest call found in a meta method")
	}

	var keys []string
	for _, k := range []string{"dedupDirs", "subDirsSorted", "registerBeforeSubDirs", "pushFirst", "popDeferred", "loadedConsulted",
		"loadedAfterDeps", "pushRejectsOnStack", "popRemovesTop", "registerRejectsEmpty", "registerRejectsDup",
		"repoDirsSorted", "errorsStopBeforeLoad", "errorsStopAfterLoad", "buildMemoConsulted", "buildMemoFilled", "depsBeforeBuild", "srcTargetContinues",
		"errorJailBeforeCap", "skipErrStmtAdvances", "parseSeriesSkipsBadStatement"} {
		keys = append(keys, k)
	}

	var b strings.Builder
	b.WriteString("namespace PubModel.Gen.Caco3Loader\n\n")
	b.WriteString("/-- makeBuildFileNode: rule type name -> struct decoded -/\n")
	b.WriteString("def ruleTypes : List (String × String) := [")
	for i, r := range ruleTypes {
		if i > 0 {
			b.WriteString(", ")
		}
		fmt.Fprintf(&b, "(%s, %s)", leanStr(r[0]), leanStr(r[1]))
	}
	b.WriteString("]\n\n")
	for _, k := range keys {
		fmt.Fprintf(&b, "def %s : Bool := %v\n", k, shape[k])
	}
	b.WriteString("\n/-- rule type, name argument of makeDigest in its meta, class (\"qualified\" = the receiver's own\n    package-qualified node name, which flows from makeRelPath) -/\n")
	b.WriteString("def digestNames : List (String × String × String) := [")
	for i, d := range digestNames {
		if i > 0 {
			b.WriteString(", ")
		}
		fmt.Fprintf(&b, "(%s, %s, %s)", leanStr(d[0]), leanStr(d[1]), leanStr(d[2]))
	}
	b.WriteString("]\n")
	b.WriteString("\nend PubModel.Gen.Caco3Loader\n")
	fs["caco3_digest_names"] = digestNames
	fs["caco3_rule_types"] = ruleTypes
	fs["caco3_loader_shape"] = shape
	if len(notes) > 0 {
		return "", fmt.Errorf("%s", strings.Join(notes, "; "))
	}
	return b.String(), nil
}
