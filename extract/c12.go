package main

// C12: facts about caco3's name resolution read from the source:
//   * the built-in exclusions of listAllFiles (recursive selects),
//   * the AST shape of the directory-ignore test and of the Include field in
//     newFileSet,
//   * the call-site table: every call of env.src / env.out / env.prepareOut in
//     the package with the origin class of its arguments, computed by a small
//     go/ast data flow (locals, range variables, struct fields through the
//     composite literals and assignments that fill them, transparent helper
//     functions), and the origin class of name/deps/outs of every rule's meta.
// Output: lean/PubModel/Gen/Caco3Paths.lean.

import (
	"fmt"
	"go/ast"
	"go/token"
	"sort"
	"strconv"
	"strings"
)

func init() {
	trackedFuncs["C12"] = []tracked{
		{"caco3", "", "makeRelPath"}, {"caco3", "", "makePath"}, {"caco3", "", "dirFilePath"},
		{"caco3", "env", "src"}, {"caco3", "env", "out"}, {"caco3", "env", "prepareOut"},
		{"caco3", "", "newFileSet"}, {"caco3", "", "listAllFiles"}, {"caco3", "", "fileSetOut"},
		{"caco3", "fileSet", "meta"}, {"caco3", "", "newBundle"}, {"caco3", "", "newSubBuilds"},
	}
	register("Caco3Paths", genCaco3Paths)
}

// ---- data flow ----

const (
	clNone     = ""
	clLit      = "lit"
	clResolved = "resolved"
)

func isUnres(c string) bool { return c != clNone && c != clLit && c != clResolved }

func reasons(c string) []string {
	if !isUnres(c) {
		return nil
	}
	return strings.Split(strings.TrimPrefix(c, "unresolved:"), "; ")
}

func joinClass(a, b string) string {
	if isUnres(a) || isUnres(b) {
		set := map[string]bool{}
		for _, r := range append(reasons(a), reasons(b)...) {
			set[r] = true
		}
		var l []string
		for r := range set {
			l = append(l, r)
		}
		sort.Strings(l)
		return "unresolved:" + strings.Join(l, "; ")
	}
	if a == clResolved || b == clResolved {
		return clResolved
	}
	if a == clLit || b == clLit {
		return clLit
	}
	return clNone
}

type scope struct {
	fd       *ast.FuncDecl
	recvVar  string
	recvType string
	params   map[string]string // name -> type name ("" if not a named/pointer-to-named type)
	bound    map[string]string // param -> class (calls of transparent helpers)
	busy     map[string]bool
}

type flow struct {
	p       *pkg
	funcs   map[string]*ast.FuncDecl // plain functions by name
	consts  map[string]bool
	structs map[string]bool
	fieldCl map[string]string
	fieldIn map[string]bool
	fieldTy map[string]string // "T.f" -> struct type name of the field (through pointers)
}

func typeName(e ast.Expr) string {
	switch t := e.(type) {
	case *ast.StarExpr:
		return typeName(t.X)
	case *ast.Ident:
		return t.Name
	}
	return ""
}

func newFlow(p *pkg) *flow {
	f := &flow{p: p, funcs: map[string]*ast.FuncDecl{}, consts: map[string]bool{}, structs: map[string]bool{},
		fieldCl: map[string]string{}, fieldIn: map[string]bool{}, fieldTy: map[string]string{}}
	for _, fd := range p.funcs() {
		if fd.Recv == nil {
			f.funcs[fd.Name.Name] = fd
		}
	}
	for _, file := range p.files {
		for _, d := range file.Decls {
			gd, ok := d.(*ast.GenDecl)
			if !ok {
				continue
			}
			for _, s := range gd.Specs {
				switch v := s.(type) {
				case *ast.ValueSpec:
					if gd.Tok == token.CONST {
						for _, n := range v.Names {
							f.consts[n.Name] = true
						}
					}
				case *ast.TypeSpec:
					if st, ok := v.Type.(*ast.StructType); ok {
						f.structs[v.Name.Name] = true
						for _, fl := range st.Fields.List {
							for _, n := range fl.Names {
								f.fieldTy[v.Name.Name+"."+n.Name] = typeName(fl.Type)
							}
						}
					}
				}
			}
		}
	}
	return f
}

func (f *flow) newScope(fd *ast.FuncDecl) *scope {
	sc := &scope{fd: fd, params: map[string]string{}, bound: map[string]string{}, busy: map[string]bool{}}
	if fd.Recv != nil && len(fd.Recv.List) > 0 {
		if len(fd.Recv.List[0].Names) > 0 {
			sc.recvVar = fd.Recv.List[0].Names[0].Name
		}
		sc.recvType = recvName(fd)
	}
	if fd.Type.Params != nil {
		for _, fl := range fd.Type.Params.List {
			for _, n := range fl.Names {
				sc.params[n.Name] = typeName(fl.Type)
			}
		}
	}
	return sc
}

func exported(n string) bool { return n != "" && n[0] >= 'A' && n[0] <= 'Z' }

// varType: the struct type of a variable, if it can be seen syntactically
func (f *flow) varType(sc *scope, name string) string {
	if name == sc.recvVar {
		return sc.recvType
	}
	if t, ok := sc.params[name]; ok {
		return t
	}
	t := ""
	ast.Inspect(sc.fd.Body, func(n ast.Node) bool {
		as, ok := n.(*ast.AssignStmt)
		if !ok || len(as.Lhs) != len(as.Rhs) {
			return true
		}
		for i, l := range as.Lhs {
			id, ok := l.(*ast.Ident)
			if !ok || id.Name != name {
				continue
			}
			r := as.Rhs[i]
			if u, ok := r.(*ast.UnaryExpr); ok && u.Op == token.AND {
				r = u.X
			}
			switch v := r.(type) {
			case *ast.CompositeLit:
				if tn := typeName(v.Type); tn != "" {
					t = tn
				}
			case *ast.CallExpr:
				if id, ok := v.Fun.(*ast.Ident); ok && id.Name == "new" && len(v.Args) == 1 {
					t = typeName(v.Args[0])
				}
			}
		}
		return true
	})
	return t
}

// exprType: the struct type of x or x.f.g, if it can be seen syntactically
func (f *flow) exprType(sc *scope, e ast.Expr) string {
	switch x := e.(type) {
	case *ast.Ident:
		return f.varType(sc, x.Name)
	case *ast.SelectorExpr:
		if t := f.exprType(sc, x.X); t != "" {
			return f.fieldTy[t+"."+x.Sel.Name]
		}
	case *ast.ParenExpr:
		return f.exprType(sc, x.X)
	case *ast.StarExpr:
		return f.exprType(sc, x.X)
	}
	return ""
}

// sources of a local variable inside the function
func (f *flow) localSources(sc *scope, obj *ast.Object) (srcs []ast.Expr, found bool) {
	name := obj.Name
	same := func(id *ast.Ident) bool { return id.Name == name && id.Obj == obj }
	ast.Inspect(sc.fd.Body, func(n ast.Node) bool {
		switch s := n.(type) {
		case *ast.AssignStmt:
			for i, l := range s.Lhs {
				switch lv := l.(type) {
				case *ast.Ident:
					if !same(lv) {
						continue
					}
					found = true
					if len(s.Rhs) == len(s.Lhs) {
						srcs = append(srcs, s.Rhs[i])
					} else if len(s.Rhs) == 1 && i == 0 {
						srcs = append(srcs, s.Rhs[0])
					} else if len(s.Rhs) == 1 {
						srcs = append(srcs, &ast.Ident{Name: "nil"}) // error / ok results
					}
				case *ast.IndexExpr: // m[k] = v : the map is its key set
					if id, ok := lv.X.(*ast.Ident); ok && same(id) {
						found = true
						srcs = append(srcs, lv.Index)
					}
				}
			}
		case *ast.DeclStmt:
			if gd, ok := s.Decl.(*ast.GenDecl); ok && gd.Tok == token.VAR {
				for _, sp := range gd.Specs {
					vs := sp.(*ast.ValueSpec)
					for i, n := range vs.Names {
						if !same(n) {
							continue
						}
						found = true
						if i < len(vs.Values) {
							srcs = append(srcs, vs.Values[i])
						}
					}
				}
			}
		case *ast.RangeStmt:
			for _, kv := range []ast.Expr{s.Key, s.Value} {
				if id, ok := kv.(*ast.Ident); ok && same(id) {
					found = true
					srcs = append(srcs, s.X)
				}
			}
		}
		return true
	})
	return
}

var transparentPkgFuncs = map[string]bool{
	"strutil.SortedList": true, "strutil.MakeSet": true, "path.Join": true, "filepath.ToSlash": true,
}

func (f *flow) classify(sc *scope, e ast.Expr, depth int) string {
	if depth > 60 {
		return "unresolved:depth"
	}
	switch x := e.(type) {
	case nil:
		return clNone
	case *ast.BasicLit:
		return clLit
	case *ast.ParenExpr:
		return f.classify(sc, x.X, depth+1)
	case *ast.UnaryExpr:
		return f.classify(sc, x.X, depth+1)
	case *ast.BinaryExpr:
		return joinClass(f.classify(sc, x.X, depth+1), f.classify(sc, x.Y, depth+1))
	case *ast.CompositeLit:
		c := clNone
		for _, el := range x.Elts {
			if kv, ok := el.(*ast.KeyValueExpr); ok {
				c = joinClass(c, f.classify(sc, kv.Key, depth+1))
			} else {
				c = joinClass(c, f.classify(sc, el, depth+1))
			}
		}
		return c
	case *ast.Ident:
		switch x.Name {
		case "nil", "true", "false", "_":
			return clNone
		}
		if f.consts[x.Name] {
			return clLit
		}
		if c, ok := sc.bound[x.Name]; ok {
			return c
		}
		if x.Obj == nil {
			return "unresolved:identifier " + x.Name
		}
		key := fmt.Sprintf("%s@%p", x.Name, x.Obj)
		if sc.busy[key] {
			return clNone
		}
		sc.busy[key] = true
		defer delete(sc.busy, key)
		srcs, found := f.localSources(sc, x.Obj)
		if !found {
			if _, ok := sc.params[x.Name]; ok {
				return "unresolved:parameter " + x.Name
			}
			return "unresolved:identifier " + x.Name
		}
		c := clNone
		for _, s := range srcs {
			c = joinClass(c, f.classify(sc, s, depth+1))
		}
		return c
	case *ast.SelectorExpr:
		t := f.exprType(sc, x.X)
		if t == "" || !f.structs[t] {
			return "unresolved:" + f.p.src(x)
		}
		if exported(x.Sel.Name) {
			return "unresolved:decoded field " + t + "." + x.Sel.Name
		}
		return f.fieldClass(t, x.Sel.Name, depth+1)
	case *ast.CallExpr:
		switch fn := x.Fun.(type) {
		case *ast.Ident:
			switch fn.Name {
			case "makeRelPath", "makePath":
				return clResolved
			case "append":
				c := clNone
				for _, a := range x.Args {
					c = joinClass(c, f.classify(sc, a, depth+1))
				}
				return c
			case "make", "new", "len":
				return clNone
			case "string":
				if len(x.Args) == 1 {
					return f.classify(sc, x.Args[0], depth+1)
				}
			}
			if fn.Name == "listAllFiles" && len(x.Args) == 1 { // entries found beneath the argument
				return f.classify(sc, x.Args[0], depth+1)
			}
			if callee, ok := f.funcs[fn.Name]; ok {
				return f.classifyCall(sc, callee, x, depth+1)
			}
		case *ast.SelectorExpr:
			fs := f.p.src(fn)
			// names found on disk beneath env.src(x) carry the class of x
			if fs == "filepath.Rel" && len(x.Args) == 2 {
				return f.classify(sc, x.Args[1], depth+1)
			}
			if (fn.Sel.Name == "src" || fn.Sel.Name == "out") && (f.p.src(fn.X) == "env" || strings.HasSuffix(f.p.src(fn.X), ".env")) {
				c := clNone
				for _, a := range x.Args {
					c = joinClass(c, f.classify(sc, a, depth+1))
				}
				return c
			}
			if transparentPkgFuncs[fs] || fs == "filepath.Glob" {
				c := clNone
				for _, a := range x.Args {
					c = joinClass(c, f.classify(sc, a, depth+1))
				}
				return c
			}
		}
		return "unresolved:call " + f.p.src(x.Fun)
	}
	return "unresolved:" + f.p.src(e)
}

// classifyCall: the first result of a package function, in terms of the
// classes of the actual arguments (string-valued helpers such as fileSetOut,
// dockerSumOut, referenceFileSetOut)
func (f *flow) classifyCall(sc *scope, callee *ast.FuncDecl, call *ast.CallExpr, depth int) string {
	if callee.Body == nil || callee.Type.Results == nil {
		return "unresolved:call " + callee.Name.Name
	}
	csc := f.newScope(callee)
	i := 0
	for _, fl := range callee.Type.Params.List {
		for _, n := range fl.Names {
			if i < len(call.Args) {
				if _, isEllipsis := fl.Type.(*ast.Ellipsis); isEllipsis {
					c := clNone
					for _, a := range call.Args[i:] {
						c = joinClass(c, f.classify(sc, a, depth+1))
					}
					csc.bound[n.Name] = c
				} else {
					csc.bound[n.Name] = f.classify(sc, call.Args[i], depth+1)
				}
			}
			i++
		}
	}
	c := clNone
	nret := 0
	ast.Inspect(callee.Body, func(n ast.Node) bool {
		if _, ok := n.(*ast.FuncLit); ok {
			return false
		}
		if r, ok := n.(*ast.ReturnStmt); ok && len(r.Results) > 0 {
			nret++
			c = joinClass(c, f.classify(csc, r.Results[0], depth+1))
		}
		return true
	})
	if nret == 0 {
		return "unresolved:call " + callee.Name.Name
	}
	return c
}

// fieldClass: join over everything the package stores into T.field
func (f *flow) fieldClass(t, field string, depth int) string {
	key := t + "." + field
	if c, ok := f.fieldCl[key]; ok {
		return c
	}
	if f.fieldIn[key] {
		return clNone
	}
	f.fieldIn[key] = true
	defer delete(f.fieldIn, key)
	c := clNone
	n := 0
	for _, fd := range f.p.funcs() {
		if fd.Body == nil {
			continue
		}
		sc := f.newScope(fd)
		ast.Inspect(fd.Body, func(nd ast.Node) bool {
			switch v := nd.(type) {
			case *ast.CompositeLit:
				if typeName(v.Type) != t {
					return true
				}
				for _, el := range v.Elts {
					kv, ok := el.(*ast.KeyValueExpr)
					if !ok {
						continue
					}
					if id, ok := kv.Key.(*ast.Ident); ok && id.Name == field {
						n++
						c = joinClass(c, f.classify(sc, kv.Value, depth+1))
					}
				}
			case *ast.AssignStmt:
				for i, l := range v.Lhs {
					se, ok := l.(*ast.SelectorExpr)
					if !ok || se.Sel.Name != field || len(v.Rhs) != len(v.Lhs) {
						continue
					}
					id, ok := se.X.(*ast.Ident)
					if !ok || f.varType(sc, id.Name) != t {
						continue
					}
					n++
					c = joinClass(c, f.classify(sc, v.Rhs[i], depth+1))
				}
			}
			return true
		})
	}
	if n == 0 {
		c = "unresolved:field " + key + " is never assigned"
	}
	f.fieldCl[key] = c
	return c
}

// ---- the facts ----

type callSite struct{ file, fn, callee, args, class string }

func (f *flow) callSites() []callSite {
	var out []callSite
	var names []string
	for n := range f.p.files {
		names = append(names, n)
	}
	sort.Strings(names)
	for _, fname := range names {
		for _, d := range f.p.files[fname].Decls {
			fd, ok := d.(*ast.FuncDecl)
			if !ok || fd.Body == nil {
				continue
			}
			sc := f.newScope(fd)
			fn := fd.Name.Name
			if r := recvName(fd); r != "" {
				fn = r + "." + fn
			}
			ast.Inspect(fd.Body, func(n ast.Node) bool {
				call, ok := n.(*ast.CallExpr)
				if !ok {
					return true
				}
				se, ok := call.Fun.(*ast.SelectorExpr)
				if !ok {
					return true
				}
				switch se.Sel.Name {
				case "src", "out", "prepareOut":
				default:
					return true
				}
				recv := f.p.src(se.X)
				if !(recv == "env" || strings.HasSuffix(recv, ".env") || (recv == sc.recvVar && sc.recvType == "env")) {
					return true
				}
				var args []string
				c := clNone
				for _, a := range call.Args {
					args = append(args, f.p.src(a))
					c = joinClass(c, f.classify(sc, a, 0))
				}
				if call.Ellipsis.IsValid() && sc.recvType == "env" {
					c = "forward" // env.prepareOut(ps...) -> e.out(ps...)
				}
				if c == clNone {
					c = clLit
				}
				out = append(out, callSite{fname, fn, se.Sel.Name, strings.Join(args, ", "), c})
				return true
			})
		}
	}
	return out
}

// metaFields: class of name / deps / outs in the buildRuleMeta literal of every meta method
func (f *flow) metaFields() [][3]string {
	var out [][3]string
	for _, fd := range f.p.funcs() {
		if fd.Name.Name != "meta" || fd.Recv == nil || fd.Body == nil {
			continue
		}
		sc := f.newScope(fd)
		ast.Inspect(fd.Body, func(n ast.Node) bool {
			cl, ok := n.(*ast.CompositeLit)
			if !ok || typeName(cl.Type) != "buildRuleMeta" {
				return true
			}
			for _, el := range cl.Elts {
				kv, ok := el.(*ast.KeyValueExpr)
				if !ok {
					continue
				}
				id, ok := kv.Key.(*ast.Ident)
				if !ok {
					continue
				}
				switch id.Name {
				case "name", "deps", "outs":
					c := f.classify(sc, kv.Value, 0)
					if c == clNone {
						c = clLit
					}
					out = append(out, [3]string{recvName(fd), id.Name, c})
				}
			}
			return true
		})
	}
	if c := f.fieldClass("subBuilds", "dirs", 0); true {
		if c == clNone {
			c = clLit
		}
		out = append(out, [3]string{"subBuilds", "dirs", c})
	}
	sort.Slice(out, func(i, j int) bool {
		if out[i][0] != out[j][0] {
			return out[i][0] < out[j][0]
		}
		return out[i][1] < out[j][1]
	})
	return out
}

func strLit(e ast.Expr) (string, bool) {
	bl, ok := e.(*ast.BasicLit)
	if !ok || bl.Kind != token.STRING {
		return "", false
	}
	s, err := strconv.Unquote(bl.Value)
	return s, err == nil
}

// exclusions of listAllFiles: directory names skipped, file names and suffixes never listed
func listAllExclusions(p *pkg) (names, suffixes, dirs []string, err error) {
	fd := p.fn("", "listAllFiles")
	if fd == nil {
		return nil, nil, nil, fmt.Errorf("listAllFiles not found")
	}
	ast.Inspect(fd.Body, func(n ast.Node) bool {
		switch s := n.(type) {
		case *ast.IfStmt:
			// if name == "<dir>" { return filepath.SkipDir }
			if be, ok := s.Cond.(*ast.BinaryExpr); ok && be.Op == token.EQL {
				if v, ok := strLit(be.Y); ok && strings.Contains(p.src(s.Body), "SkipDir") {
					dirs = append(dirs, v)
				}
			}
			// if strings.HasSuffix(name, "<suffix>") { return nil }
			if ce, ok := s.Cond.(*ast.CallExpr); ok && p.src(ce.Fun) == "strings.HasSuffix" && len(ce.Args) == 2 {
				if v, ok := strLit(ce.Args[1]); ok {
					suffixes = append(suffixes, v)
				}
			}
		case *ast.CaseClause:
			allLit := len(s.List) > 0
			var vs []string
			for _, e := range s.List {
				v, ok := strLit(e)
				if !ok {
					allLit = false
				}
				vs = append(vs, v)
			}
			if allLit && len(s.Body) == 1 && p.src(s.Body[0]) == "return nil" {
				names = append(names, vs...)
			}
		}
		return true
	})
	if len(dirs) == 0 && len(names) == 0 && len(suffixes) == 0 {
		return nil, nil, nil, fmt.Errorf("listAllFiles: no exclusion recognised")
	}
	return
}

// the condition under which newFileSet's ignore closure treats a name as
// covered by an ignored directory
func dirIgnoreShape(p *pkg) (shape, src string) {
	fd := p.fn("", "newFileSet")
	if fd == nil {
		return "missing", ""
	}
	shape = "unknown"
	ast.Inspect(fd.Body, func(n ast.Node) bool {
		rs, ok := n.(*ast.RangeStmt)
		if !ok || p.src(rs.X) != "ignoreDirs" {
			return true
		}
		v, _ := rs.Value.(*ast.Ident)
		if v == nil || len(rs.Body.List) != 1 {
			return false
		}
		ifs, ok := rs.Body.List[0].(*ast.IfStmt)
		if !ok || ifs.Init != nil || ifs.Else != nil || p.src(ifs.Body) != "{\n\treturn true\n}" {
			return false
		}
		src = p.src(ifs.Cond)
		i := v.Name
		switch src {
		case "strings.HasPrefix(name, " + i + ")":
			shape = "bare-prefix"
		case "strings.HasPrefix(name, " + i + "+\"/\")":
			shape = "prefix-slash"
		case i + " == \"\" || strings.HasPrefix(name, " + i + "+\"/\")":
			shape = "prefix-slash-root"
		}
		return false
	})
	// the directories themselves must be resolved names
	ok := false
	ast.Inspect(fd.Body, func(n ast.Node) bool {
		as, isAs := n.(*ast.AssignStmt)
		if isAs && len(as.Lhs) == 1 && p.src(as.Lhs[0]) == "ignoreDirs" &&
			p.src(as.Rhs[0]) == "append(ignoreDirs, makeRelPath(p, ignore))" {
			ok = true
		}
		return true
	})
	if !ok {
		shape = "unknown"
	}
	return
}

// the test that makes a select recursive, as written in newFileSet's select loop
func recursiveSelectTest(p *pkg) string {
	fd := p.fn("", "newFileSet")
	if fd == nil {
		return "missing"
	}
	out := "unknown"
	ast.Inspect(fd.Body, func(n ast.Node) bool {
		rs, ok := n.(*ast.RangeStmt)
		if !ok || p.src(rs.X) != "r.Select" {
			return true
		}
		for _, st := range rs.Body.List {
			if ifs, ok := st.(*ast.IfStmt); ok && strings.Contains(p.src(ifs.Body), "listAllFiles") {
				out = p.src(ifs.Cond)
				break
			}
		}
		return false
	})
	return out
}

// the function Builder.Build resolves the requested targets with
func targetResolver(p *pkg) string {
	fd := p.fn("Builder", "Build")
	if fd == nil {
		return "missing"
	}
	out := "unknown"
	ast.Inspect(fd.Body, func(n ast.Node) bool {
		rs, ok := n.(*ast.RangeStmt)
		if !ok || p.src(rs.X) != "rules" {
			return true
		}
		ast.Inspect(rs.Body, func(m ast.Node) bool {
			if call, ok := m.(*ast.CallExpr); ok && len(call.Args) == 2 && p.src(call.Args[0]) == "w" {
				out = p.src(call.Fun)
			}
			return true
		})
		return false
	})
	return out
}

func genCaco3Paths(repo string, fs facts) (string, error) {
	p, err := loadPkg(repo, "caco3")
	if err != nil {
		return "", err
	}
	names, suffixes, dirs, err := listAllExclusions(p)
	if err != nil {
		return "", err
	}
	shape, shapeSrc := dirIgnoreShape(p)
	f := newFlow(p)
	sites := f.callSites()
	if len(sites) == 0 {
		return "", fmt.Errorf("no call site of env.src/env.out/env.prepareOut found")
	}
	metas := f.metaFields()
	if len(metas) == 0 {
		return "", fmt.Errorf("no buildRuleMeta literal found")
	}
	incl := f.fieldClass("fileSet", "includes", 0)
	inclShape := "unknown"
	switch {
	case incl == clResolved:
		inclShape = "makePath"
	case strings.Contains(incl, "Include"):
		inclShape = "raw"
	}

	strList := func(l []string) string {
		q := make([]string, len(l))
		for i, s := range l {
			q[i] = leanStr(s)
		}
		return "[" + strings.Join(q, ", ") + "]"
	}
	var b strings.Builder
	b.WriteString("namespace PubModel.Gen.Caco3Paths\n\n")
	b.WriteString("/-- listAllFiles: file names a recursive select never lists -/\n")
	fmt.Fprintf(&b, "def exclNames : List String := %s\n", strList(names))
	b.WriteString("/-- listAllFiles: file name suffixes a recursive select never lists -/\n")
	fmt.Fprintf(&b, "def exclSuffixes : List String := %s\n", strList(suffixes))
	b.WriteString("/-- listAllFiles: directories a recursive select does not enter -/\n")
	fmt.Fprintf(&b, "def skipDirs : List String := %s\n\n", strList(dirs))
	fmt.Fprintf(&b, "/-- newFileSet: shape of the directory-ignore test; source: `%s` -/\n", strings.ReplaceAll(shapeSrc, "-/", "- /"))
	fmt.Fprintf(&b, "def dirIgnoreShape : String := %s\n", leanStr(shape))
	b.WriteString("/-- newFileSet: what is stored in fileSet.includes (\"raw\" = r.Include as written, \"makePath\" = resolved) -/\n")
	fmt.Fprintf(&b, "def includeShape : String := %s\n\n", leanStr(inclShape))
	b.WriteString("/-- newFileSet: the condition under which a select is a recursive listing instead of a glob -/\n")
	fmt.Fprintf(&b, "def recursiveSelectTest : String := %s\n\n", leanStr(recursiveSelectTest(p)))
	b.WriteString("/-- Builder.Build: the function that resolves the requested targets against the work dir -/\n")
	fmt.Fprintf(&b, "def targetResolver : String := %s\n\n", leanStr(targetResolver(p)))
	b.WriteString("/-- every call of env.src / env.out / env.prepareOut: file, function, callee, arguments, origin class of the arguments\n")
	b.WriteString("    (\"lit\", \"resolved\" = flows from makePath/makeRelPath, \"forward\", or \"unresolved:<why>\") -/\n")
	b.WriteString("def callSites : List (String × String × String × String × String) := [\n")
	for i, s := range sites {
		sep := ","
		if i == len(sites)-1 {
			sep = ""
		}
		fmt.Fprintf(&b, "  (%s, %s, %s, %s, %s)%s\n", leanStr(s.file), leanStr(s.fn), leanStr(s.callee), leanStr(s.args), leanStr(s.class), sep)
	}
	b.WriteString("]\n\n")
	b.WriteString("/-- origin class of name / deps / outs of every rule's buildRuleMeta: rule type, field, class -/\n")
	b.WriteString("def ruleMeta : List (String × String × String) := [\n")
	for i, m := range metas {
		sep := ","
		if i == len(metas)-1 {
			sep = ""
		}
		fmt.Fprintf(&b, "  (%s, %s, %s)%s\n", leanStr(m[0]), leanStr(m[1]), leanStr(m[2]), sep)
	}
	b.WriteString("]\n\nend PubModel.Gen.Caco3Paths\n")

	var siteFacts []string
	for _, s := range sites {
		siteFacts = append(siteFacts, fmt.Sprintf("%s %s %s(%s): %s", s.file, s.fn, s.callee, s.args, s.class))
	}
	fs["caco3_call_sites"] = siteFacts
	fs["caco3_rule_meta"] = metas
	fs["caco3_listall_exclusions"] = map[string][]string{"names": names, "suffixes": suffixes, "dirs": dirs}
	fs["caco3_dir_ignore_shape"] = shape
	fs["caco3_include_shape"] = inclShape
	fs["caco3_target_resolver"] = targetResolver(p)
	fs["caco3_recursive_select_test"] = recursiveSelectTest(p)
	return b.String(), nil
}
