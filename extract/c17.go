package main

import (
	"fmt"
	"go/ast"
	"go/token"
	"strings"
)

// Gen/C17Facts.lean: the shape of the three places that turn an archive entry
// name into a destination (ziputil.UnzipDir, dock.writeTarToDir,
// tarutil.TarZipFile) and of the two zip producers (ZipDir, ZipFile).
//
// For each extractor: is there, before the name is joined or used in any
// file-system call, a top-level `if !filepath.IsLocal(<the joined name>) {
// ... return <error> }`; do all file-system calls of the loop take the joined
// path (or its filepath.Dir).  The Lean model takes these booleans as the
// `guard` argument of unzipTarget/untarTarget/tarZipName, and the containment
// theorems need `guard = true` (obligations in PubModel/C17/Obligations.lean).

func init() {
	trackedFuncs["C17"] = []tracked{
		{"ziputil", "", "UnzipDir"}, {"ziputil", "", "ZipDir"}, {"ziputil", "", "ZipFile"},
		{"dock", "", "writeTarToDir"}, {"dock", "", "createFile"}, {"dock", "", "writeFirstFileAs"},
		{"tarutil", "", "TarZipFile"}, {"tarutil", "", "copyZipFile"},
	}
	register("C17Facts", genC17Facts)
}

type c17Site struct {
	Guard    bool     `json:"guard"`
	JoinArg  string   `json:"join_arg"`
	GuardArg string   `json:"guard_arg"`
	WritesOK bool     `json:"writes_use_joined_path"`
	Writes   []string `json:"writes"`
	Note     string   `json:"note,omitempty"`
}

func c17IsCall(e ast.Expr, pkgName, fn string) (*ast.CallExpr, bool) {
	c, ok := e.(*ast.CallExpr)
	if !ok {
		return nil, false
	}
	sel, ok := c.Fun.(*ast.SelectorExpr)
	if !ok || sel.Sel.Name != fn {
		return nil, false
	}
	id, ok := sel.X.(*ast.Ident)
	if !ok || id.Name != pkgName {
		return nil, false
	}
	return c, true
}

// c17Sink reports whether call writes to the file system (or, for the tar
// re-encoder, emits a header) and which argument carries the path.
func c17Sink(c *ast.CallExpr) (name string, pathArg int, ok bool) {
	switch f := c.Fun.(type) {
	case *ast.SelectorExpr:
		if id, isID := f.X.(*ast.Ident); isID && id.Name == "os" {
			switch f.Sel.Name {
			case "MkdirAll", "Mkdir", "Create", "OpenFile", "WriteFile", "Symlink", "Link", "Rename", "Chmod", "Remove":
				return "os." + f.Sel.Name, 0, true
			}
		}
		if f.Sel.Name == "WriteHeader" {
			return "WriteHeader", -1, true
		}
	case *ast.Ident:
		if f.Name == "createFile" {
			return "createFile", 1, true
		}
	}
	return "", 0, false
}

func c17Analyze(p *pkg, fd *ast.FuncDecl) c17Site {
	var site c17Site
	if fd == nil {
		site.Note = "function not found"
		return site
	}
	var body []ast.Stmt
	for _, st := range fd.Body.List {
		switch l := st.(type) {
		case *ast.RangeStmt:
			body = l.Body.List
		case *ast.ForStmt:
			body = l.Body.List
		}
		if body != nil {
			break
		}
	}
	if body == nil {
		site.Note = "no entry loop found"
		return site
	}

	// single-assignment aliases  x := <expr>  anywhere in the loop body
	alias := map[string]string{}
	for _, st := range body {
		ast.Inspect(st, func(n ast.Node) bool {
			as, ok := n.(*ast.AssignStmt)
			if ok && as.Tok == token.DEFINE && len(as.Lhs) == 1 && len(as.Rhs) == 1 {
				if id, ok := as.Lhs[0].(*ast.Ident); ok {
					alias[id.Name] = p.src(as.Rhs[0])
				}
			}
			return true
		})
	}
	resolve := func(e ast.Expr) string {
		s := p.src(e)
		if id, ok := e.(*ast.Ident); ok {
			if a, ok := alias[id.Name]; ok && !strings.Contains(a, ".Join(") {
				return a
			}
		}
		return s
	}

	// the join, its variable, and the first top-level statement that joins or writes
	joinVar, firstUse := "", -1
	for i, st := range body {
		uses := false
		ast.Inspect(st, func(n ast.Node) bool {
			c, ok := n.(*ast.CallExpr)
			if !ok {
				return true
			}
			jc, isJoin := c17IsCall(c, "filepath", "Join")
			if !isJoin {
				jc, isJoin = c17IsCall(c, "path", "Join")
			}
			if isJoin && len(jc.Args) == 2 && site.JoinArg == "" {
				site.JoinArg = resolve(jc.Args[1])
				uses = true
			}
			if _, _, ok := c17Sink(c); ok {
				uses = true
			}
			return true
		})
		if as, ok := st.(*ast.AssignStmt); ok && len(as.Lhs) == 1 && len(as.Rhs) == 1 && joinVar == "" {
			if _, isJoin := c17IsCall(as.Rhs[0], "filepath", "Join"); isJoin {
				if id, ok := as.Lhs[0].(*ast.Ident); ok {
					joinVar = id.Name
				}
			}
		}
		if uses && firstUse < 0 {
			firstUse = i
		}
	}
	if site.JoinArg == "" {
		site.Note = "no Join(dir, name) found"
		return site
	}

	// the refusal branch
	for i, st := range body {
		if firstUse >= 0 && i >= firstUse {
			break
		}
		is, ok := st.(*ast.IfStmt)
		if !ok || is.Init != nil || is.Else != nil {
			continue
		}
		not, ok := is.Cond.(*ast.UnaryExpr)
		if !ok || not.Op != token.NOT {
			continue
		}
		lc, ok := c17IsCall(not.X, "filepath", "IsLocal")
		if !ok || len(lc.Args) != 1 || len(is.Body.List) == 0 {
			continue
		}
		ret, ok := is.Body.List[len(is.Body.List)-1].(*ast.ReturnStmt)
		if !ok || len(ret.Results) == 0 {
			continue
		}
		if id, ok := ret.Results[len(ret.Results)-1].(*ast.Ident); ok && id.Name == "nil" {
			continue
		}
		site.GuardArg = resolve(lc.Args[0])
		if site.GuardArg == site.JoinArg {
			site.Guard = true
			break
		}
	}

	// every file-system call takes the joined path or its Dir
	site.WritesOK = true
	for _, st := range body {
		ast.Inspect(st, func(n ast.Node) bool {
			c, ok := n.(*ast.CallExpr)
			if !ok {
				return true
			}
			name, arg, ok := c17Sink(c)
			if !ok || arg < 0 || arg >= len(c.Args) {
				return true
			}
			e := c.Args[arg]
			s := p.src(e)
			if id, isID := e.(*ast.Ident); isID && id.Name != joinVar {
				if a, ok := alias[id.Name]; ok {
					s = a
				}
			}
			site.Writes = append(site.Writes, name+"("+s+")")
			if joinVar == "" || (s != joinVar && s != "filepath.Dir("+joinVar+")") {
				site.WritesOK = false
			}
			return true
		})
	}
	return site
}

// c17SetModeArgs lists the arguments of every <h>.SetMode(...) call in fd.
func c17SetModeArgs(p *pkg, fd *ast.FuncDecl) []string {
	var out []string
	if fd == nil {
		return out
	}
	alias := map[string]string{}
	ast.Inspect(fd, func(n ast.Node) bool {
		switch x := n.(type) {
		case *ast.AssignStmt:
			if x.Tok == token.DEFINE && len(x.Lhs) == 1 && len(x.Rhs) == 1 {
				if id, ok := x.Lhs[0].(*ast.Ident); ok {
					alias[id.Name] = p.src(x.Rhs[0])
				}
			}
		case *ast.CallExpr:
			if sel, ok := x.Fun.(*ast.SelectorExpr); ok && sel.Sel.Name == "SetMode" && len(x.Args) == 1 {
				s := p.src(x.Args[0])
				if a, ok := alias[s]; ok {
					s = a
				}
				out = append(out, s)
			}
		}
		return true
	})
	return out
}

func c17Bool(b bool) string {
	if b {
		return "true"
	}
	return "false"
}

func genC17Facts(repo string, fs facts) (string, error) {
	zp, err := loadPkg(repo, "ziputil")
	if err != nil {
		return "", err
	}
	dp, err := loadPkg(repo, "dock")
	if err != nil {
		return "", err
	}
	tp, err := loadPkg(repo, "tarutil")
	if err != nil {
		return "", err
	}
	unzip := c17Analyze(zp, zp.fn("", "UnzipDir"))
	untar := c17Analyze(dp, dp.fn("", "writeTarToDir"))
	tarzip := c17Analyze(tp, tp.fn("", "TarZipFile"))
	for name, s := range map[string]c17Site{"UnzipDir": unzip, "writeTarToDir": untar, "TarZipFile": tarzip} {
		if s.Note != "" {
			return "", fmt.Errorf("%s: %s", name, s.Note)
		}
	}

	// ZipDir writes one header per walked item with the item's mode; ZipFile likewise
	zipDirModes := c17SetModeArgs(zp, zp.fn("", "ZipDir"))
	zipDirKeeps := len(zipDirModes) == 2 && zipDirModes[0] == "info.Mode()" && zipDirModes[1] == "info.Mode()"
	zipFileModes := c17SetModeArgs(zp, zp.fn("", "ZipFile"))
	zipFileKeeps := len(zipFileModes) == 1 && zipFileModes[0] == "info.Mode()"

	// UnzipDir applies the entry's mode to directories (MkdirAll) and files (Chmod)
	unzipMode := false
	if fd := zp.fn("", "UnzipDir"); fd != nil {
		src := p2src(zp, fd)
		unzipMode = strings.Contains(src, "mod := f.Mode()") && strings.Contains(src, "os.MkdirAll(name, mod)") &&
			strings.Contains(src, "fout.Chmod(mod)")
	}

	// writeFirstFileAs(r, file): every file-system call takes the parameter `file` itself
	firstDestOnly := false
	var firstWrites []string
	if fd := dp.fn("", "writeFirstFileAs"); fd != nil && len(fd.Type.Params.List) == 2 && len(fd.Type.Params.List[1].Names) == 1 {
		param := fd.Type.Params.List[1].Names[0].Name
		firstDestOnly = true
		n := 0
		ast.Inspect(fd, func(x ast.Node) bool {
			c, ok := x.(*ast.CallExpr)
			if !ok {
				return true
			}
			name, arg, ok := c17Sink(c)
			if !ok || arg < 0 || arg >= len(c.Args) {
				return true
			}
			n++
			firstWrites = append(firstWrites, name+"("+dp.src(c.Args[arg])+")")
			if id, isID := c.Args[arg].(*ast.Ident); !isID || id.Name != param {
				firstDestOnly = false
			}
			return true
		})
		if n == 0 {
			firstDestOnly = false
		}
	}

	fs["C17"] = map[string]interface{}{
		"writeFirstFileAs.writes": firstWrites,
		"UnzipDir": unzip, "writeTarToDir": untar, "TarZipFile": tarzip,
		"ZipDir.SetMode": zipDirModes, "ZipFile.SetMode": zipFileModes, "UnzipDir.applies_mode": unzipMode,
	}

	var b strings.Builder
	b.WriteString("namespace PubModel.Gen.C17Facts\n\n")
	w := func(doc, name string, v bool) {
		fmt.Fprintf(&b, "/-- %s -/\ndef %s : Bool := %s\n\n", doc, name, c17Bool(v))
	}
	w("UnzipDir refuses `!filepath.IsLocal(f.Name)` before joining and before any file-system call", "unzipGuard", unzip.Guard)
	w("every file-system call of UnzipDir's loop takes the joined path or its Dir", "unzipWritesJoined", unzip.WritesOK)
	w("writeTarToDir refuses a non-local header name before joining and before any file-system call", "untarGuard", untar.Guard)
	w("every file-system call of writeTarToDir's loop takes the joined path or its Dir", "untarWritesJoined", untar.WritesOK)
	w("TarZipFile refuses a non-local entry name before it writes the tar header", "tarZipGuard", tarzip.Guard)
	w("ZipDir sets the header mode of directories and files from the walked item", "zipDirKeepsMode", zipDirKeeps)
	w("ZipFile sets the header mode from the file", "zipFileKeepsMode", zipFileKeeps)
	w("UnzipDir passes the entry mode to MkdirAll and Chmod", "unzipAppliesMode", unzipMode)
	w("every file-system call of writeFirstFileAs takes its `file` parameter itself", "firstFileWritesDestOnly", firstDestOnly)
	b.WriteString("end PubModel.Gen.C17Facts\n")
	return b.String(), nil
}

func p2src(p *pkg, fd *ast.FuncDecl) string { return p.src(fd) }
