package main

// C20 (aries routing): everything is modelled by hand (DESIGN.md appendix B has
// no regenerated facts for C20), so the tie to the source is the normalised
// hash of each modelled function plus the correspondence run.  A changed hash
// escalates the harness to the thorough generator.

func init() {
	trackedFuncs["C20"] = []tracked{
		// aries/trie.go
		{"aries", "", "newTrieRoot"}, {"aries", "", "newTrieNode"}, {"aries", "", "trieFind"},
		{"aries", "trieNode", "add"}, {"aries", "trieNode", "find"}, {"aries", "trieNode", "addChild"},
		// aries/mux.go
		{"aries", "", "NewMux"}, {"aries", "Mux", "Prefix"}, {"aries", "Mux", "Exact"}, {"aries", "Mux", "Dir"},
		{"aries", "Mux", "Route"}, {"aries", "Mux", "Serve"},
		// trie/node.go, trie/trie.go
		{"trie", "", "newNode"}, {"trie", "node", "add"}, {"trie", "node", "findSub"}, {"trie", "node", "find"},
		{"trie", "", "New"}, {"trie", "Trie", "Add"}, {"trie", "Trie", "Find"}, {"trie", "Trie", "FindExact"},
		// aries/route.go, aries/context.go
		{"aries", "", "newRoute"}, {"aries", "route", "size"}, {"aries", "route", "rel"}, {"aries", "route", "relRoute"},
		{"aries", "route", "current"},
		{"aries", "", "NewContext"}, {"aries", "C", "Rel"}, {"aries", "C", "RelRoute"}, {"aries", "C", "ShiftRoute"},
		{"aries", "C", "PathIsDir"}, {"aries", "C", "Current"},
		// aries/router.go
		{"aries", "", "NewRouter"}, {"aries", "Router", "Index"}, {"aries", "Router", "Default"},
		{"aries", "Router", "MethodFile"}, {"aries", "Router", "File"}, {"aries", "Router", "Dir"},
		{"aries", "Router", "DirService"}, {"aries", "Router", "add"}, {"aries", "Router", "notFound"},
		{"aries", "Router", "Serve"}, {"aries", "Router", "serve"},
		// aries/service_set.go
		{"aries", "", "serveService"}, {"aries", "ServiceSet", "isAdmin"}, {"aries", "ServiceSet", "serveAuth"},
		{"aries", "ServiceSet", "Serve"}, {"aries", "ServiceSet", "ServeInternal"},
		// aries/host_mux.go
		{"aries", "", "NewHostMux"}, {"aries", "HostMux", "Set"}, {"aries", "HostMux", "Serve"},
	}
}
