package main

// C18: tracked hashes of the hand-modelled functions of objects/ and hashutil/,
// and Gen/C18Facts.lean: the facts of those functions that are data — key
// length and accepted character ranges of isValidKey, the order of calls in
// commit and Create, the deferred cleanup of Create, lock kinds, and the order
// of the checks in CheckReader.Read.

import (
	"fmt"
	"go/ast"
	"go/token"
	"strconv"
	"strings"
)

func init() {
	trackedFuncs["C18"] = []tracked{
		{"objects", "fsObjects", "Create"}, {"objects", "fsObjects", "commit"},
		{"objects", "fsObjects", "Open"}, {"objects", "fsObjects", "Has"},
		{"objects", "fsObjects", "open"}, {"objects", "fsObjects", "filename"},
		{"objects", "", "isValidKey"}, {"objects", "", "hasFile"}, {"objects", "", "createTemp"},
		{"objects", "", "newFSObjects"},
		{"objects", "mem", "Open"}, {"objects", "mem", "Create"}, {"objects", "mem", "Put"},
		{"objects", "mem", "put"}, {"objects", "mem", "Get"}, {"objects", "mem", "Has"},
		{"objects", "mappedStore", "Open"}, {"objects", "mappedStore", "Create"},
		{"objects", "mappedStore", "Has"},
		{"hashutil", "CheckReader", "Read"}, {"hashutil", "", "NewSHA256CheckReader"},
		{"hashutil", "", "NewCheckReader"}, {"hashutil", "", "HashReader"}, {"hashutil", "", "Hash"},
	}
	register("C18Facts", c18GenFacts)
}

// c18Imports returns the local names of the packages imported by the file
// that declares fd.
func c18Imports(p *pkg, fd *ast.FuncDecl) map[string]bool {
	out := map[string]bool{}
	for _, f := range p.files {
		if fd.Pos() < f.Pos() || fd.End() > f.End() {
			continue
		}
		for _, im := range f.Imports {
			path, _ := strconv.Unquote(im.Path.Value)
			name := path[strings.LastIndex(path, "/")+1:]
			if im.Name != nil {
				name = im.Name.Name
			}
			out[name] = true
		}
	}
	return out
}

// c18CallName renders the callee of a call with the leading local variable
// (receiver, parameter) dropped: b.mu.Lock -> mu.Lock, f.Close -> Close,
// os.Remove -> os.Remove, hasFile -> hasFile.
func c18CallName(c *ast.CallExpr, imports map[string]bool) string {
	var parts []string
	e := c.Fun
	for {
		switch x := e.(type) {
		case *ast.SelectorExpr:
			parts = append([]string{x.Sel.Name}, parts...)
			e = x.X
			continue
		case *ast.Ident:
			if len(parts) == 0 || imports[x.Name] {
				parts = append([]string{x.Name}, parts...)
			}
		case *ast.FuncLit:
			parts = append([]string{"func"}, parts...)
		default:
			parts = append([]string{"?"}, parts...)
		}
		break
	}
	return strings.Join(parts, ".")
}

// c18Calls lists the calls below n in source order; deferred calls get the
// prefix "defer "; function literals are not entered.
func c18Calls(n ast.Node, imports map[string]bool) []string {
	var out []string
	deferred := map[*ast.CallExpr]bool{}
	ast.Inspect(n, func(x ast.Node) bool {
		switch v := x.(type) {
		case *ast.DeferStmt:
			deferred[v.Call] = true
		case *ast.FuncLit:
			return false
		case *ast.CallExpr:
			name := c18CallName(v, imports)
			if deferred[v] {
				name = "defer " + name
			}
			out = append(out, name)
			if _, ok := v.Fun.(*ast.FuncLit); ok {
				return false
			}
		}
		return true
	})
	return out
}

func c18LeanStrs(xs []string) string {
	var q []string
	for _, x := range xs {
		q = append(q, leanStr(x))
	}
	return "[" + strings.Join(q, ", ") + "]"
}

func c18Bool(b bool) string {
	if b {
		return "true"
	}
	return "false"
}

func c18CharLit(e ast.Expr) (int64, bool) {
	bl, ok := e.(*ast.BasicLit)
	if !ok {
		return 0, false
	}
	switch bl.Kind {
	case token.CHAR:
		r, _, _, err := strconv.UnquoteChar(bl.Value[1:len(bl.Value)-1], '\'')
		return int64(r), err == nil
	case token.INT:
		v, err := strconv.ParseInt(bl.Value, 0, 64)
		return v, err == nil
	}
	return 0, false
}

func c18IsIdent(e ast.Expr, name string) bool {
	id, ok := e.(*ast.Ident)
	return ok && id.Name == name
}

func c18IsNilCheck(e ast.Expr, v string) bool {
	b, ok := e.(*ast.BinaryExpr)
	return ok && b.Op == token.NEQ && c18IsIdent(b.X, v) && c18IsIdent(b.Y, "nil")
}

func c18Mentions(p *pkg, n ast.Node, what string) bool {
	return strings.Contains(p.src(n), what)
}

func c18GenFacts(repo string, fs facts) (string, error) {
	op, err := loadPkg(repo, "objects")
	if err != nil {
		return "", err
	}
	hp, err := loadPkg(repo, "hashutil")
	if err != nil {
		return "", err
	}
	f := map[string]interface{}{}
	var b strings.Builder
	b.WriteString("namespace PubModel.Gen.C18Facts\n\n")

	// ---- isValidKey: required length and accepted rune ranges
	vk := op.fn("", "isValidKey")
	if vk == nil {
		return "", fmt.Errorf("objects.isValidKey not found")
	}
	keyLen := int64(-1)
	var ranges [][2]int64
	ast.Inspect(vk.Body, func(x ast.Node) bool {
		be, ok := x.(*ast.BinaryExpr)
		if !ok {
			return true
		}
		if be.Op == token.NEQ {
			if c, ok := be.X.(*ast.CallExpr); ok && c18IsIdent(c.Fun, "len") {
				if v, ok := evalInt(be.Y, 0, nil); ok {
					keyLen = v
				}
			}
		}
		if be.Op == token.LAND {
			lo, ok1 := be.X.(*ast.BinaryExpr)
			hi, ok2 := be.Y.(*ast.BinaryExpr)
			if ok1 && ok2 && lo.Op == token.GEQ && hi.Op == token.LEQ && op.src(lo.X) == op.src(hi.X) {
				a, okA := c18CharLit(lo.Y)
				z, okZ := c18CharLit(hi.Y)
				if okA && okZ {
					ranges = append(ranges, [2]int64{a, z})
				}
			}
		}
		return true
	})
	if keyLen < 0 {
		return "", fmt.Errorf("isValidKey: no `len(k) != N` test")
	}
	f["keyLen"] = keyLen
	f["keyRanges"] = ranges
	fmt.Fprintf(&b, "/-- `len(k) != N` in `isValidKey` -/\ndef keyLen : Nat := %d\n\n", keyLen)
	var rs []string
	for _, r := range ranges {
		rs = append(rs, fmt.Sprintf("(%d, %d)", r[0], r[1]))
	}
	fmt.Fprintf(&b, "/-- accepted rune ranges of `isValidKey` -/\ndef keyRanges : List (Nat × Nat) := [%s]\n\n", strings.Join(rs, ", "))

	// ---- commit: calls in source order
	cm := op.fn("fsObjects", "commit")
	if cm == nil {
		return "", fmt.Errorf("fsObjects.commit not found")
	}
	commitCalls := c18Calls(cm.Body, c18Imports(op, cm))
	f["commitCalls"] = commitCalls
	fmt.Fprintf(&b, "/-- calls of `fsObjects.commit` in source order -/\ndef commitCalls : List String := %s\n\n", c18LeanStrs(commitCalls))

	// ---- Create: calls in source order, the deferred cleanup, `f = nil` after commit
	cr := op.fn("fsObjects", "Create")
	if cr == nil {
		return "", fmt.Errorf("fsObjects.Create not found")
	}
	imp := c18Imports(op, cr)
	createCalls := c18Calls(cr.Body, imp)
	tmpVar := ""
	for _, st := range cr.Body.List {
		if as, ok := st.(*ast.AssignStmt); ok && len(as.Rhs) == 1 && len(as.Lhs) >= 1 {
			if c, ok := as.Rhs[0].(*ast.CallExpr); ok && c18CallName(c, imp) == "createTemp" {
				if id, ok := as.Lhs[0].(*ast.Ident); ok {
					tmpVar = id.Name
				}
			}
		}
	}
	var cleanupCalls []string
	cleanupGuarded := false
	cleanupRemovesTemp := false
	for _, st := range cr.Body.List {
		ds, ok := st.(*ast.DeferStmt)
		if !ok {
			continue
		}
		fl, ok := ds.Call.Fun.(*ast.FuncLit)
		if !ok {
			continue
		}
		for _, s2 := range fl.Body.List {
			is, ok := s2.(*ast.IfStmt)
			if ok && tmpVar != "" && c18IsNilCheck(is.Cond, tmpVar) {
				cleanupGuarded = true
				cleanupCalls = append(cleanupCalls, c18Calls(is.Body, imp)...)
				ast.Inspect(is.Body, func(x ast.Node) bool {
					if c, ok := x.(*ast.CallExpr); ok && c18CallName(c, imp) == "os.Remove" && len(c.Args) == 1 &&
						op.src(c.Args[0]) == tmpVar+".Name()" {
						cleanupRemovesTemp = true
					}
					return true
				})
			} else {
				cleanupCalls = append(cleanupCalls, c18Calls(s2, imp)...)
			}
		}
	}
	// `f = nil` must come after the commit call and nowhere before it
	clearsAfterCommit := false
	clearsBeforeCommit := false
	seenCommit := false
	for _, st := range cr.Body.List {
		if c18Mentions(op, st, ".commit(") {
			seenCommit = true
			continue
		}
		if as, ok := st.(*ast.AssignStmt); ok && as.Tok == token.ASSIGN && len(as.Lhs) == 1 && len(as.Rhs) == 1 &&
			tmpVar != "" && c18IsIdent(as.Lhs[0], tmpVar) && c18IsIdent(as.Rhs[0], "nil") {
			if seenCommit {
				clearsAfterCommit = true
			} else {
				clearsBeforeCommit = true
			}
		}
	}
	// the hash is computed from a tee of the input into the temp file
	hashesTee := false
	teeVar := ""
	ast.Inspect(cr.Body, func(x ast.Node) bool {
		switch v := x.(type) {
		case *ast.AssignStmt:
			if len(v.Rhs) == 1 && len(v.Lhs) == 1 {
				if c, ok := v.Rhs[0].(*ast.CallExpr); ok && c18CallName(c, imp) == "io.TeeReader" && len(c.Args) == 2 &&
					c18IsIdent(c.Args[1], tmpVar) {
					if id, ok := v.Lhs[0].(*ast.Ident); ok {
						teeVar = id.Name
					}
				}
			}
		case *ast.CallExpr:
			if c18CallName(v, imp) == "hashutil.HashReader" && len(v.Args) == 1 && teeVar != "" && c18IsIdent(v.Args[0], teeVar) {
				hashesTee = true
			}
		}
		return true
	})
	f["createCalls"] = createCalls
	f["cleanupCalls"] = cleanupCalls
	f["cleanupGuarded"] = cleanupGuarded
	f["cleanupRemovesTemp"] = cleanupRemovesTemp
	f["clearsAfterCommit"] = clearsAfterCommit && !clearsBeforeCommit
	f["hashesTee"] = hashesTee
	fmt.Fprintf(&b, "/-- calls of `fsObjects.Create` in source order (function literals not entered) -/\ndef createCalls : List String := %s\n\n", c18LeanStrs(createCalls))
	fmt.Fprintf(&b, "/-- calls of the deferred cleanup of `Create` -/\ndef cleanupCalls : List String := %s\n", c18LeanStrs(cleanupCalls))
	fmt.Fprintf(&b, "/-- the cleanup runs iff the temp-file variable is non-nil -/\ndef cleanupGuarded : Bool := %s\n", c18Bool(cleanupGuarded))
	fmt.Fprintf(&b, "/-- the cleanup calls `os.Remove(<temp>.Name())` -/\ndef cleanupRemovesTemp : Bool := %s\n", c18Bool(cleanupRemovesTemp))
	fmt.Fprintf(&b, "/-- the temp-file variable is set to nil only after `commit` returned nil -/\ndef clearsAfterCommit : Bool := %s\n", c18Bool(clearsAfterCommit && !clearsBeforeCommit))
	fmt.Fprintf(&b, "/-- `HashReader` reads from `io.TeeReader(r, <temp>)` -/\ndef hashesTee : Bool := %s\n\n", c18Bool(hashesTee))

	// ---- lock kinds
	lockOf := func(p *pkg, recv, name string) string {
		fd := p.fn(recv, name)
		if fd == nil {
			return "missing"
		}
		kind := "none"
		for _, c := range c18Calls(fd.Body, c18Imports(p, fd)) {
			switch c {
			case "mu.Lock":
				kind = "Lock"
			case "mu.RLock":
				if kind == "none" {
					kind = "RLock"
				}
			}
		}
		return kind
	}
	type lk struct{ recv, name string }
	var locks []string
	lockFacts := map[string]string{}
	for _, l := range []lk{{"fsObjects", "commit"}, {"fsObjects", "open"}, {"fsObjects", "Has"},
		{"mem", "put"}, {"mem", "Open"}, {"mem", "Get"}, {"mem", "Has"}} {
		k := lockOf(op, l.recv, l.name)
		lockFacts[l.recv+"."+l.name] = k
		locks = append(locks, fmt.Sprintf("(%s, %s)", leanStr(l.recv+"."+l.name), leanStr(k)))
	}
	f["locks"] = lockFacts
	fmt.Fprintf(&b, "/-- which lock each method takes on its `mu` -/\ndef locks : List (String × String) := [%s]\n\n", strings.Join(locks, ", "))

	// ---- CheckReader.Read: hash update first; in the EOF branch length check, digest check, io.EOF
	rd := hp.fn("CheckReader", "Read")
	if rd == nil {
		return "", fmt.Errorf("CheckReader.Read not found")
	}
	updateIdx, eofIdx := -1, -1
	var checkOrder []string
	eofReturnsEOF := false
	for i, st := range rd.Body.List {
		is, ok := st.(*ast.IfStmt)
		if !ok {
			continue
		}
		cond := hp.src(is.Cond)
		if updateIdx < 0 && c18Mentions(hp, is.Body, ".Write(") && strings.Contains(cond, "> 0") {
			updateIdx = i
		}
		if eofIdx < 0 && strings.Contains(cond, "== io.EOF") {
			eofIdx = i
			for _, s2 := range is.Body.List {
				switch v := s2.(type) {
				case *ast.IfStmt:
					c2 := hp.src(v.Cond)
					switch {
					case strings.Contains(c2, "wantLen"):
						checkOrder = append(checkOrder, "len")
					case strings.Contains(c2, "ConstantTimeCompare") || strings.Contains(c2, "bytes.Equal") || strings.Contains(c2, "wantSha256"):
						checkOrder = append(checkOrder, "digest")
					default:
						checkOrder = append(checkOrder, "other")
					}
				case *ast.ReturnStmt:
					if len(v.Results) == 2 && hp.src(v.Results[1]) == "io.EOF" {
						checkOrder = append(checkOrder, "eof")
						eofReturnsEOF = true
					}
				}
			}
		}
	}
	updateFirst := updateIdx >= 0 && eofIdx >= 0 && updateIdx < eofIdx
	f["checkOrder"] = checkOrder
	f["hashUpdateBeforeEofTest"] = updateFirst
	fmt.Fprintf(&b, "/-- statements of the `err == io.EOF` branch of `CheckReader.Read` -/\ndef checkOrder : List String := %s\n", c18LeanStrs(checkOrder))
	fmt.Fprintf(&b, "/-- `if n > 0 { h.Write(buf[:n]); ... }` precedes the EOF test -/\ndef hashUpdateBeforeEofTest : Bool := %s\n", c18Bool(updateFirst))
	_ = eofReturnsEOF

	// ---- NewSHA256CheckReader: a negative length means none
	ns := hp.fn("", "NewSHA256CheckReader")
	negNone := false
	if ns != nil {
		for _, st := range ns.Body.List {
			if is, ok := st.(*ast.IfStmt); ok && strings.Contains(hp.src(is.Cond), "< 0") && c18Mentions(hp, is.Body, "= -1") {
				negNone = true
			}
		}
	}
	f["negativeLenMeansNone"] = negNone
	fmt.Fprintf(&b, "/-- `if n < 0 { n = -1 }` in `NewSHA256CheckReader` -/\ndef negativeLenMeansNone : Bool := %s\n", c18Bool(negNone))

	b.WriteString("\nend PubModel.Gen.C18Facts\n")
	fs["C18"] = f
	return b.String(), nil
}
